(* Proofs about the wallet model (property C08), part 6 (wave 6): the account list, the backing files and
   liveness along ANY history — the wallet directory may change (OSetFs), listener events may arrive
   (OFsEvent), scans may fail.  The hypothesis [static h] of Proofs2.accounts_exact_static /
   Proofs5.listed_backing_static / liveness_static_* is replaced by a function of the INPUTS (history and
   file systems) only: [seen fs h], the entries the wallet was shown — the listings of the successful scans
   and the listener's os.Stat results, in order.  The wallet's list is the specification's list of THAT
   sequence (first occurrences; each address backed by the last regular file naming it), whatever happened.
   Corollary: when no address disappears from the directory between the scans (files are only added, or
   replaced by files naming the same address), the list after a scan is, as a set, exactly the
   specification's list of the CURRENT listing. *)
From Coq Require Import String.
From Coq Require Import List NArith Lia Bool Arith.
From Coq Require Import Init.Byte.
From FFS Require Import Base.Res Base.Bytes Wallet.Model Wallet.Spec Wallet.Proofs Wallet.Proofs2 Wallet.Proofs3 Wallet.Proofs4 Wallet.Proofs5.
Import ListNotations.

Lemma spec_matches_app r xs ys : spec_matches r (xs ++ ys) = spec_matches r xs ++ spec_matches r ys.
Proof. unfold spec_matches. apply flat_map_app. Qed.

Lemma backing_app r xs ys a init : backing r (xs ++ ys) a init = backing r ys a (backing r xs a init).
Proof. unfold backing. apply fold_left_app. Qed.

Lemma spec_matches_In r l a :
  In a (spec_matches r l) <-> exists f, In f l /\ snd f = false /\ name_address r (fst f) = Some a.
Proof.
  unfold spec_matches. rewrite in_flat_map. split.
  - intros (f & Hf & Hi). exists f. split; [exact Hf|].
    destruct (snd f); [destruct Hi|]. split; [reflexivity|].
    destruct (name_address r (fst f)) as [a'|]; [|destruct Hi].
    destruct Hi as [->|[]]. reflexivity.
  - intros (f & Hf & Hs & Hn). exists f. split; [exact Hf|]. rewrite Hs, Hn. left; reflexivity.
Qed.

Section Dynamic.
Variables key tx stx doc tsig : Type.
Variable E : ext key tx stx doc tsig.
Variable c : config.

Notation state := (state key).
Notation op := (op tx doc).
Notation addr_of := (addr_of _ _ _ _ _ E).
Notation Refresh := (Refresh key tx stx doc tsig E c).
Notation GetWalletFile := (GetWalletFile key tx stx doc tsig E c).
Notation Sign := (Sign key tx stx doc tsig E c).
Notation SignTypedDataV4 := (SignTypedDataV4 key tx stx doc tsig E c).
Notation step := (step key tx stx doc tsig E c).
Notation after := (after key tx stx doc tsig E c).
Notation regex_law := (regex_law key tx stx doc tsig E).
Notation constructed := (constructed key tx stx doc tsig E c).
Notation rule_of := (rule_of key tx stx doc tsig E c).
Notation wl_ok := (wl_ok key).
Notation static := (static tx doc).
Notation refreshed := (refreshed tx doc).

(* ---------- what the wallet was shown: a function of the history and the file systems only ---------- *)

(* the entries one operation shows to the wallet when the directory is [fs]: a scan that can read the
   directory shows its listing (a scan that cannot shows nothing), a listener event shows its os.Stat result *)
Definition op_seen (fs : fsys) (o : op) : list (bytes * bool) :=
  match o with
  | ORefresh _ _ => match fs_readdir fs (c_path c) with Ok files => files | _ => [] end
  | OFsEvent _ _ n d => [(n, d)]
  | _ => []
  end.

(* the directory after one operation *)
Definition op_fs (fs : fsys) (o : op) : fsys :=
  match o with OSetFs _ _ fs' => fs' | _ => fs end.

Fixpoint seen (fs : fsys) (h : list op) : list (bytes * bool) :=
  match h with
  | [] => []
  | o :: h' => op_seen fs o ++ seen (op_fs fs o) h'
  end.

Fixpoint cur_fs (fs : fsys) (h : list op) : fsys :=
  match h with
  | [] => fs
  | o :: h' => cur_fs (op_fs fs o) h'
  end.

Lemma seen_app fs h1 h2 : seen fs (h1 ++ h2) = seen fs h1 ++ seen (cur_fs fs h1) h2.
Proof.
  revert fs. induction h1 as [|o h1 IH]; intros fs; [reflexivity|].
  simpl. rewrite IH, app_assoc. reflexivity.
Qed.

Lemma cur_fs_app fs h1 h2 : cur_fs fs (h1 ++ h2) = cur_fs (cur_fs fs h1) h2.
Proof. revert fs. induction h1 as [|o h1 IH]; intros fs; [reflexivity|]. simpl. apply IH. Qed.

(* on a history without directory changes and listener events everything shown is the one listing *)
Lemma seen_static fs files h :
  fs_readdir fs (c_path c) = Ok files -> static h = true ->
  cur_fs fs h = fs /\ (forall f, In f (seen fs h) -> In f files) /\
  (refreshed h = true -> forall f, In f files -> In f (seen fs h)).
Proof.
  intros Hr. induction h as [|o h IH]; intros Hst.
  - split; [reflexivity|]. split; [intros f []|discriminate].
  - rewrite static_cons in Hst. apply andb_prop in Hst as [Ho Hh].
    destruct (IH Hh) as (IH1 & IH2 & IH3).
    destruct o; simpl in Ho; try discriminate; simpl; try rewrite Hr;
      (split; [exact IH1|]); (split; [|]);
      try (intros f Hi; try (apply in_app_or in Hi as [Hi|Hi]; [exact Hi|]); apply IH2; exact Hi);
      try exact IH3.
    intros _ f Hi. apply in_or_app. left. exact Hi.
Qed.

(* ---------- one step ---------- *)

Lemma step_dynamic (s : state) (o : op) :
  regex_law -> constructed -> wl_ok s -> names_ok (op_seen (st_fs _ s) o) ->
  let s' := fst (step s o) in
  st_fs _ s' = op_fs (st_fs _ s) o /\
  GetAccounts _ s' = add_all (GetAccounts _ s) (spec_matches rule_of (op_seen (st_fs _ s) o)) /\
  (forall a, assoc_get a (st_map _ s') = backing rule_of (op_seen (st_fs _ s) o) a (assoc_get a (st_map _ s))).
Proof.
  intros Hlaw Hc Hs Hn. destruct o; cbv zeta.
  - (* ORefresh *)
    unfold op_seen in *. destruct (fs_readdir (st_fs _ s) (c_path c)) as [files|e|] eqn:Hr.
    + destruct (Refresh_exact _ _ _ _ _ E c s files Hlaw Hc Hs Hr Hn) as (s' & Hrf & Hl & Hm & Hfs & _).
      simpl. rewrite Hrf. simpl. split; [exact Hfs|]. split; [exact Hl|exact Hm].
    + simpl. unfold Model.Refresh. rewrite Hr. simpl. repeat split; reflexivity.
    + simpl. unfold Model.Refresh. rewrite Hr. simpl. repeat split; reflexivity.
  - simpl. repeat split; reflexivity.
  - simpl. unfold Model.Sign, getSignerForJSONAccount, getSignerForAddr.
    destruct (parse_from _ _ _ _ _ E from_raw) as [a|]; [|simpl; repeat split; reflexivity].
    destruct (GetWalletFile s a) as [s' r] eqn:H. apply GetWalletFile_inv in H as (Hf & Hm & Hl & _).
    simpl. split; [exact Hf|]. split; [exact Hl|]. intros a0. rewrite Hm. reflexivity.
  - simpl. unfold Model.SignTypedDataV4, getSignerForAddr.
    destruct (GetWalletFile s from) as [s' r] eqn:H. apply GetWalletFile_inv in H as (Hf & Hm & Hl & _).
    simpl. split; [exact Hf|]. split; [exact Hl|]. intros a0. rewrite Hm. reflexivity.
  - simpl. destruct (GetWalletFile s addr) as [s' r] eqn:H. apply GetWalletFile_inv in H as (Hf & Hm & Hl & _).
    simpl. split; [exact Hf|]. split; [exact Hl|]. intros a0. rewrite Hm. reflexivity.
  - simpl. repeat split; reflexivity.
  - (* OFsEvent *)
    assert (Hne : name <> []) by (inversion Hn; assumption).
    destruct (event_exact _ _ _ _ _ E c s name isdir Hlaw Hc Hs Hne) as (Hl & Hm & Hfs & _).
    split; [exact Hfs|]. split; [exact Hl|exact Hm].
  - simpl. repeat split; reflexivity.
Qed.

(* ---------- any history, from any well-formed state ---------- *)

Lemma dynamic_gen h : forall (s : state),
  regex_law -> constructed -> wl_ok s -> names_ok (seen (st_fs _ s) h) ->
  st_fs _ (after s h) = cur_fs (st_fs _ s) h /\
  GetAccounts _ (after s h) = add_all (GetAccounts _ s) (spec_matches rule_of (seen (st_fs _ s) h)) /\
  (forall a, assoc_get a (st_map _ (after s h)) = backing rule_of (seen (st_fs _ s) h) a (assoc_get a (st_map _ s))).
Proof.
  induction h as [|o h IH]; intros s Hlaw Hc Hs Hn; [repeat split; reflexivity|].
  simpl seen in *. simpl cur_fs. unfold names_ok in Hn. apply Forall_app in Hn as [Hn1 Hn2].
  destruct (step_dynamic s o Hlaw Hc Hs Hn1) as (Hfs & Hl & Hm).
  rewrite after_cons. rewrite <- Hfs in *.
  destruct (IH _ Hlaw Hc (step_wl_ok _ _ _ _ _ E c s o Hs) Hn2) as (IH1 & IH2 & IH3).
  split; [exact IH1|]. split.
  - rewrite IH2, Hl, spec_matches_app, add_all_app. reflexivity.
  - intros a. rewrite IH3, Hm, backing_app. reflexivity.
Qed.

(* THE ACCOUNT LIST ALONG ANY HISTORY.  Whatever the history (directory changes, listener events, failing
   scans, requests, evictions): the account list is the specification's list of the sequence of entries the
   wallet was shown, each address is backed by the last regular file of that sequence naming it, and the
   wallet looks at the current directory.  No hypothesis about the state or the shape of the history; the
   only premise besides the two standing ones is that no entry shown has an empty name. *)
Theorem accounts_exact_dynamic fs h :
  regex_law -> constructed -> names_ok (seen fs h) ->
  GetAccounts _ (after (init_state _ fs) h) = spec_accounts rule_of (seen fs h) /\
  (forall a, assoc_get a (st_map _ (after (init_state _ fs) h)) = backing rule_of (seen fs h) a None) /\
  st_fs _ (after (init_state _ fs) h) = cur_fs fs h.
Proof.
  intros Hlaw Hc Hn.
  destruct (dynamic_gen h (init_state _ fs) Hlaw Hc (wl_ok_init _ fs) Hn) as (H1 & H2 & H3).
  split; [exact H2|]. split; [exact H3|exact H1].
Qed.

(* as a set: an address is listed iff some regular file the wallet was shown names it *)
Theorem accounts_listed_iff_shown fs h a :
  regex_law -> constructed -> names_ok (seen fs h) ->
  (In a (GetAccounts _ (after (init_state _ fs) h)) <->
   exists f, In f (seen fs h) /\ snd f = false /\ name_address rule_of (fst f) = Some a).
Proof.
  intros Hlaw Hc Hn. destruct (accounts_exact_dynamic fs h Hlaw Hc Hn) as (-> & _).
  unfold spec_accounts. rewrite dedup_add_all, add_all_In, spec_matches_In.
  split; [intros [[]|H]; exact H|intros H; right; exact H].
Qed.

(* EXACTNESS ON A GROWING DIRECTORY.  History h1 (anything), then a scan that reads the listing [files],
   then any history h2 without directory changes and listener events.  If every address named by a regular
   file the wallet was shown during h1 is still named by a regular file of [files] (files were only added,
   or replaced by files naming the same address), the account list is — as a set — exactly the
   specification's list of the current listing, and every listed address is backed by the last regular
   file of the CURRENT listing naming it when h2 is empty. *)
Theorem accounts_exact_growing fs h1 h2 files :
  regex_law -> constructed -> names_ok (seen fs h1) ->
  fs_readdir (cur_fs fs h1) (c_path c) = Ok files -> names_ok files -> static h2 = true ->
  (forall a, In a (spec_matches rule_of (seen fs h1)) -> In a (spec_matches rule_of files)) ->
  let s := after (init_state _ fs) (h1 ++ ORefresh _ _ :: h2) in
  NoDup (GetAccounts _ s) /\
  (forall a, In a (GetAccounts _ s) <-> In a (spec_accounts rule_of files)) /\
  st_fs _ s = cur_fs fs h1.
Proof.
  intros Hlaw Hc Hn1 Hr Hnf Hst Hkeep s.
  destruct (seen_static (cur_fs fs h1) files (ORefresh _ _ :: h2) Hr Hst) as (Hcf & Hsub & Hsup).
  specialize (Hsup eq_refl).
  assert (Hn : names_ok (seen fs (h1 ++ ORefresh _ _ :: h2))).
  { rewrite seen_app. unfold names_ok in *. apply Forall_app. split; [exact Hn1|].
    rewrite Forall_forall in *. intros f Hf. apply Hnf, Hsub, Hf. }
  destruct (accounts_exact_dynamic fs (h1 ++ ORefresh _ _ :: h2) Hlaw Hc Hn) as (Hl & _ & Hfs).
  split; [apply accounts_nodup|]. split.
  - intros a. subst s. rewrite Hl. unfold spec_accounts.
    rewrite (dedup_add_all (spec_matches rule_of files)), (dedup_add_all (spec_matches rule_of (seen fs (h1 ++ ORefresh _ _ :: h2)))), !add_all_In.
    rewrite seen_app, spec_matches_app, in_app_iff.
    split.
    + intros [[]|[H|H]]; right; [apply Hkeep; exact H|].
      apply spec_matches_In in H as (f & Hf & Hs & Hna). apply spec_matches_In.
      exists f. split; [apply Hsub; exact Hf|]. split; assumption.
    + intros [[]|H]. right. right.
      apply spec_matches_In in H as (f & Hf & Hs & Hna). apply spec_matches_In.
      exists f. split; [apply Hsup; exact Hf|]. split; assumption.
  - subst s. rewrite Hfs, cur_fs_app. exact Hcf.
Qed.

(* right after the scan, the file listed for an address the current listing names is the last regular file
   of the CURRENT listing naming it (files shown earlier do not matter) *)
Theorem listed_backing_after_scan fs h1 files a fn :
  regex_law -> constructed -> names_ok (seen fs h1) ->
  fs_readdir (cur_fs fs h1) (c_path c) = Ok files -> names_ok files ->
  backing rule_of files a None = Some fn ->
  assoc_get a (st_map _ (after (init_state _ fs) (h1 ++ [ORefresh _ _]))) = Some fn.
Proof.
  intros Hlaw Hc Hn1 Hr Hnf Hb.
  assert (Hseen : seen fs (h1 ++ [ORefresh _ _]) = seen fs h1 ++ files).
  { rewrite seen_app. simpl. rewrite Hr, app_nil_r. reflexivity. }
  assert (Hn : names_ok (seen fs (h1 ++ [ORefresh _ _]))).
  { rewrite Hseen. unfold names_ok in *. apply Forall_app. split; assumption. }
  destruct (accounts_exact_dynamic fs (h1 ++ [ORefresh _ _]) Hlaw Hc Hn) as (_ & Hm & _).
  rewrite Hm, Hseen, backing_app, backing_init, Hb. reflexivity.
Qed.

(* COMPLETENESS AFTER A SCAN, ANY HISTORY.  The half of "exactly" that survives removals: after a scan that
   reads [files] — whatever happened before (h1: changes, events, failed scans), and after any further
   requests / rescans / evictions h2 — every address the specification lists for the CURRENT listing is
   listed.  (The other half needs "no address disappeared": accounts_exact_growing; it is false otherwise.) *)
Theorem accounts_complete_after_scan fs h1 h2 files a :
  regex_law -> constructed -> names_ok (seen fs h1) ->
  fs_readdir (cur_fs fs h1) (c_path c) = Ok files -> names_ok files -> static h2 = true ->
  In a (spec_accounts rule_of files) ->
  In a (GetAccounts _ (after (init_state _ fs) (h1 ++ ORefresh _ _ :: h2))).
Proof.
  intros Hlaw Hc Hn1 Hr Hnf Hst Hin.
  destruct (seen_static (cur_fs fs h1) files (ORefresh _ _ :: h2) Hr Hst) as (_ & Hsub & Hsup).
  specialize (Hsup eq_refl).
  assert (Hn : names_ok (seen fs (h1 ++ ORefresh _ _ :: h2))).
  { rewrite seen_app. unfold names_ok in *. apply Forall_app. split; [exact Hn1|].
    rewrite Forall_forall in *. intros f Hf. apply Hnf, Hsub, Hf. }
  apply (accounts_listed_iff_shown fs (h1 ++ ORefresh _ _ :: h2) a Hlaw Hc Hn).
  unfold spec_accounts in Hin. rewrite (dedup_add_all (spec_matches rule_of files)), add_all_In in Hin.
  destruct Hin as [[]|Hin]. apply spec_matches_In in Hin as (f & Hf & Hs & Hna).
  exists f. split; [|split; assumption]. rewrite seen_app. apply in_or_app. right. apply Hsup, Hf.
Qed.

(* ... and every listed address was named by a regular file of the current listing or of an earlier one *)
Theorem accounts_sound_after_scan fs h1 h2 files a :
  regex_law -> constructed -> names_ok (seen fs h1) ->
  fs_readdir (cur_fs fs h1) (c_path c) = Ok files -> names_ok files -> static h2 = true ->
  In a (GetAccounts _ (after (init_state _ fs) (h1 ++ ORefresh _ _ :: h2))) ->
  In a (spec_accounts rule_of files) \/ In a (spec_accounts rule_of (seen fs h1)).
Proof.
  intros Hlaw Hc Hn1 Hr Hnf Hst Hin.
  destruct (seen_static (cur_fs fs h1) files (ORefresh _ _ :: h2) Hr Hst) as (_ & Hsub & _).
  assert (Hn : names_ok (seen fs (h1 ++ ORefresh _ _ :: h2))).
  { rewrite seen_app. unfold names_ok in *. apply Forall_app. split; [exact Hn1|].
    rewrite Forall_forall in *. intros f Hf. apply Hnf, Hsub, Hf. }
  apply (accounts_listed_iff_shown fs (h1 ++ ORefresh _ _ :: h2) a Hlaw Hc Hn) in Hin as (f & Hf & Hs & Hna).
  rewrite seen_app in Hf. apply in_app_or in Hf as [Hf|Hf].
  - right. unfold spec_accounts. rewrite (dedup_add_all (spec_matches rule_of (seen fs h1))), add_all_In. right.
    apply spec_matches_In. exists f. split; [exact Hf|]. split; assumption.
  - left. unfold spec_accounts. rewrite (dedup_add_all (spec_matches rule_of files)), add_all_In. right.
    apply spec_matches_In. exists f. split; [apply Hsub; exact Hf|]. split; assumption.
Qed.

(* ---------- liveness along any history ---------- *)

(* no metadata.  The premises speak about the inputs only: the current directory [cur_fs fs h], the last
   regular file naming A among the entries the wallet was shown, the files' contents, the reader. *)
Theorem liveness_dynamic_plain fs h a fn content pw k :
  regex_law -> constructed -> names_ok (seen fs h) ->
  classify_format (resolved_format c) = None ->
  backing rule_of (seen fs h) a None = Some fn ->
  fs_readfile (cur_fs fs h) (path_join _ _ _ _ _ E (c_path c) fn) = Ok content ->
  spec_password (fs_readfile (cur_fs fs h)) (c_pw_trim c) (trim_space _ _ _ _ _ E)
                (plain_password_file _ _ _ _ _ E c a) (c_default_pw_file c) = Some pw ->
  read_wallet _ _ _ _ _ E content pw = Ok k -> addr_of k = a ->
  let s := after (init_state _ fs) h in
  exists s' k',
    GetWalletFile s a = (s', Ok k') /\ addr_of k' = a /\
    (forall raw (t : tx), parse_from _ _ _ _ _ E raw = Some a -> Sign s raw t = (s', sign_tx _ _ _ _ _ E k' t)) /\
    (forall d : doc, SignTypedDataV4 s a d = (s', sign_td _ _ _ _ _ E k' d)).
Proof.
  intros Hlaw Hc Hn Hf Hb Hp Hpw Hrw Hk s. subst s.
  destruct (accounts_exact_dynamic fs h Hlaw Hc Hn) as (_ & Hm & Hfs).
  specialize (Hm a). rewrite Hb in Hm. rewrite <- Hfs in Hp, Hpw.
  destruct (liveness_plain _ _ _ _ _ E c fs h a fn content pw k Hf Hm Hp Hpw Hrw Hk) as (s' & k' & Hg & Hk').
  exists s', k'. split; [exact Hg|]. split; [exact Hk'|]. apply requests_of_wallet_file; exact Hg.
Qed.

Theorem liveness_dynamic_metadata fs h a fn m content kf kcontent pw k :
  regex_law -> constructed -> names_ok (seen fs h) ->
  let primary := path_join _ _ _ _ _ E (c_path c) fn in
  classify_format (resolved_format c) = Some m ->
  backing rule_of (seen fs h) a None = Some fn ->
  fs_readfile (cur_fs fs h) primary = Ok content ->
  meta_parse _ _ _ _ _ E m content = true ->
  goTemplateToString _ _ _ _ _ E m content (c_key_prop c) = kf -> kf <> [] ->
  (if bytes_eqb kf primary then kcontent = content else fs_readfile (cur_fs fs h) kf = Ok kcontent) ->
  spec_password (fs_readfile (cur_fs fs h)) (c_pw_trim c) (trim_space _ _ _ _ _ E)
                (goTemplateToString _ _ _ _ _ E m content (c_pw_prop c)) (c_default_pw_file c) = Some pw ->
  read_wallet _ _ _ _ _ E kcontent pw = Ok k -> addr_of k = a ->
  let s := after (init_state _ fs) h in
  exists s' k',
    GetWalletFile s a = (s', Ok k') /\ addr_of k' = a /\
    (forall raw (t : tx), parse_from _ _ _ _ _ E raw = Some a -> Sign s raw t = (s', sign_tx _ _ _ _ _ E k' t)) /\
    (forall d : doc, SignTypedDataV4 s a d = (s', sign_td _ _ _ _ _ E k' d)).
Proof.
  intros Hlaw Hc Hn primary Hf Hb Hp Hmp Hkf Hne Hkc Hpw Hrw Hk s. subst s primary.
  destruct (accounts_exact_dynamic fs h Hlaw Hc Hn) as (_ & Hm & Hfs).
  specialize (Hm a). rewrite Hb in Hm. rewrite <- Hfs in Hp, Hpw, Hkc.
  destruct (liveness_metadata _ _ _ _ _ E c fs h a fn m content kf kcontent pw k Hf Hm Hp Hmp Hkf Hne Hkc Hpw Hrw Hk)
    as (s' & k' & Hg & Hk').
  exists s', k'. split; [exact Hg|]. split; [exact Hk'|]. apply requests_of_wallet_file; exact Hg.
Qed.

End Dynamic.
