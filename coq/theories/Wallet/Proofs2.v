(* Proofs about the wallet model (property C08), part 2: the account list (exactly the addresses named
   by matching regular files, no duplicates, over all histories) and liveness of key loading. *)
From Coq Require Import String.
From Coq Require Import List NArith Lia Bool Arith ZifyN ZifyNat ZifyBool.
From Coq Require Import Init.Byte.
From FFS Require Import Base.Res Base.Bytes Wallet.Model Wallet.Spec Wallet.Proofs.
Import ListNotations.

Lemma mem_In x l : mem x l = true <-> In x l.
Proof.
  unfold mem. rewrite existsb_exists. split.
  - intros (y & Hy & He). apply bytes_eqb_true in He. subst. exact Hy.
  - intros H. exists x. split; [exact H|apply bytes_eqb_refl].
Qed.

Lemma mem_false x l : mem x l = false <-> ~ In x l.
Proof. rewrite <- mem_In. destruct (mem x l); split; congruence. Qed.

Definition add_new (acc : list bytes) (x : bytes) : list bytes := if mem x acc then acc else acc ++ [x].
Definition add_all (l xs : list bytes) : list bytes := fold_left add_new xs l.

Lemma dedup_add_all l : dedup l = add_all [] l.
Proof. reflexivity. Qed.

Lemma add_all_app l xs ys : add_all l (xs ++ ys) = add_all (add_all l xs) ys.
Proof. unfold add_all. apply fold_left_app. Qed.

Lemma NoDup_snoc (l : list bytes) x : NoDup l -> ~ In x l -> NoDup (l ++ [x]).
Proof.
  induction l as [|y l IH]; intros Hn Hi; simpl.
  - constructor; [intros []|constructor].
  - inversion Hn; subst. constructor.
    + rewrite in_app_iff. intros [H|[H|[]]]; [contradiction|]. subst. apply Hi. left; reflexivity.
    + apply IH; [assumption|]. intros H. apply Hi. right; exact H.
Qed.

Lemma add_new_NoDup l x : NoDup l -> NoDup (add_new l x).
Proof.
  intros H. unfold add_new. destruct (mem x l) eqn:E; [exact H|].
  apply mem_false in E. apply NoDup_snoc; assumption.
Qed.

Lemma add_all_NoDup xs : forall l, NoDup l -> NoDup (add_all l xs).
Proof. induction xs as [|x xs IH]; intros l H; [exact H|]. simpl. apply IH, add_new_NoDup, H. Qed.

Lemma add_new_In l x y : In y (add_new l x) <-> In y l \/ y = x.
Proof.
  unfold add_new. destruct (mem x l) eqn:E.
  - apply mem_In in E. split; [auto|]. intros [H|H]; [assumption|subst; assumption].
  - rewrite in_app_iff. simpl. split.
    + intros [H|[H|H]]; [auto|auto|destruct H].
    + intros [H|H]; auto.
Qed.

Lemma add_all_In xs : forall l y, In y (add_all l xs) <-> In y l \/ In y xs.
Proof.
  induction xs as [|x xs IH]; intros l y; simpl.
  - tauto.
  - rewrite IH, add_new_In. split; [intros [[H|H]|H]|intros [H|[H|H]]]; subst; auto.
Qed.

(* scanning the same names again adds nothing *)
Lemma add_all_absorb xs : forall l, (forall x, In x xs -> In x l) -> add_all l xs = l.
Proof.
  induction xs as [|x xs IH]; intros l H; [reflexivity|].
  assert (Hx : mem x l = true) by (apply mem_In, H; left; reflexivity).
  change (add_all (add_new l x) xs = l).
  replace (add_new l x) with l by (unfold add_new; rewrite Hx; reflexivity). apply IH. intros y Hy. apply H. right; exact Hy.
Qed.

Lemma add_all_idem l xs : add_all (add_all l xs) xs = add_all l xs.
Proof. apply add_all_absorb. intros x H. apply add_all_In. right; exact H. Qed.

Section Accounts.
Variables key tx stx doc tsig : Type.
Variable E : ext key tx stx doc tsig.
Variable c : config.

Notation state := (state key).
Notation op := (op tx doc).
Notation matchFilename := (matchFilename key tx stx doc tsig E c).
Notation notify_one := (notify_one key tx stx doc tsig E c).
Notation notifyNewFiles := (notifyNewFiles key tx stx doc tsig E c).
Notation Refresh := (Refresh key tx stx doc tsig E c).
Notation GetWalletFile := (GetWalletFile key tx stx doc tsig E c).
Notation step := (step key tx stx doc tsig E c).
Notation after := (after key tx stx doc tsig E c).

(* the configured naming rule, as the specification sees it *)
Definition rule_of : rule :=
  if bytes_eqb (c_regex c) [] then RExt (c_primary_ext c) else RRegex (re_find _ _ _ _ _ E (c_regex c)).

(* regexp.FindStringSubmatch returns one entry per sub-expression name *)
Definition regex_law : Prop :=
  forall pat n name g, re_compile _ _ _ _ _ E pat = Some n -> re_find _ _ _ _ _ E pat name = Some g -> length g = n.

Definition constructed : Prop := NewFilesystemWallet _ _ _ _ _ E c = Ok tt.

Lemma constructed_regex :
  constructed -> c_regex c <> [] -> exists n, re_compile _ _ _ _ _ E (c_regex c) = Some n /\ (2 <= n)%nat.
Proof.
  unfold constructed, NewFilesystemWallet. intros H Hr.
  destruct (negb (bytes_eqb (c_key_prop c) []) && _); [discriminate|].
  destruct (negb (bytes_eqb (c_pw_prop c) []) && _); [discriminate|].
  destruct (bytes_eqb_spec (c_regex c) []) as [Er|_]; [contradiction|]. simpl in H.
  destruct (re_compile _ _ _ _ _ E (c_regex c)) as [n|]; [|discriminate].
  destruct (Nat.ltb_spec n 2); [discriminate|]. exists n. split; [reflexivity|lia].
Qed.

(* matchFilename implements the naming rule *)
Lemma matchFilename_spec name isdir :
  regex_law -> constructed ->
  matchFilename name isdir = Ok (if isdir then None else name_address rule_of name).
Proof.
  intros Hlaw Hc. unfold Model.matchFilename, rule_of. destruct isdir; [reflexivity|].
  destruct (bytes_eqb_spec (c_regex c) []) as [Er|Er]; simpl.
  - unfold split_ext, has_suffix, trim_suffix, has_suffix.
    destruct ((length (c_primary_ext c) <=? length name)%nat && _); simpl.
    + rewrite parse_address_is_address_text. reflexivity.
    + reflexivity.
  - destruct (re_find _ _ _ _ _ E (c_regex c) name) as [g|] eqn:Hf; [|reflexivity].
    destruct (constructed_regex Hc Er) as (n & Hn & Hge).
    pose proof (Hlaw _ _ _ _ Hn Hf) as Hl.
    destruct g as [|g0 [|g1 g]]; simpl in Hl; try lia.
    simpl. rewrite parse_address_is_address_text. reflexivity.
Qed.

(* addressToFileMap and addressList describe the same set of addresses *)
Definition keys_ok (m : list (bytes * bytes)) (l : list bytes) : Prop :=
  forall a, assoc_get a m <> None <-> In a l.

Definition wl_ok (s : state) : Prop := keys_ok (st_map _ s) (st_list _ s) /\ NoDup (st_list _ s).

Lemma wl_ok_init fs : wl_ok (init_state _ fs).
Proof. split; [intros a; simpl; tauto|constructor]. Qed.

(* one iteration of the loop in notifyNewFiles, for any outcome of matchFilename *)
Lemma notify_one_cases m l f :
  keys_ok m l -> NoDup l ->
  match matchFilename (fst f) (snd f) with
  | Ok None => notify_one (Ok (m, l)) f = Ok (m, l)
  | Ok (Some a) =>
      exists m' l', notify_one (Ok (m, l)) f = Ok (m', l') /\ keys_ok m' l' /\ NoDup l' /\
        (fst f <> [] -> l' = add_new l a /\ assoc_get a m' = Some (fst f) /\
                        (forall b, b <> a -> assoc_get b m' = assoc_get b m)) /\
        (fst f = [] -> l' = l)
  | Err e => notify_one (Ok (m, l)) f = Err e
  | Panic => notify_one (Ok (m, l)) f = Panic
  end.
Proof.
  intros Hk Hn. unfold Model.notify_one. simpl bind.
  destruct (matchFilename (fst f) (snd f)) as [[a|]| |]; simpl; try reflexivity.
  destruct (assoc_get a m) as [n|] eqn:Hg.
  - (* known address *)
    assert (Hin : In a l) by (apply Hk; congruence).
    assert (Hmem : mem a l = true) by (apply mem_In; exact Hin).
    destruct (bytes_eqb_spec n (fst f)) as [En|En]; simpl.
    + exists m, l. split; [reflexivity|]. split; [exact Hk|]. split; [exact Hn|]. split.
      * intros _. split; [unfold add_new; rewrite Hmem; reflexivity|].
        split; [rewrite Hg, En; reflexivity|]. intros b _. reflexivity.
      * intros _. reflexivity.
    + exists (assoc_set a (fst f) m), l. split; [reflexivity|]. split; [|split; [exact Hn|split]].
      * intros a0. rewrite assoc_get_set. destruct (bytes_eqb_spec a0 a) as [->|N].
        -- split; [intros _; exact Hin|intros _; discriminate].
        -- apply Hk.
      * intros _. split; [unfold add_new; rewrite Hmem; reflexivity|].
        split; [rewrite assoc_get_set, bytes_eqb_refl; reflexivity|].
        intros b Hb. rewrite assoc_get_set. destruct (bytes_eqb_spec b a); [contradiction|reflexivity].
      * intros _. reflexivity.
  - (* new address *)
    assert (Hnin : ~ In a l) by (intros H; apply Hk in H; congruence).
    assert (Hmem : mem a l = false) by (apply mem_false; exact Hnin).
    destruct (bytes_eqb_spec [] (fst f)) as [En|En]; simpl.
    + exists m, l. split; [reflexivity|]. split; [exact Hk|]. split; [exact Hn|]. split.
      * intros Hne. congruence.
      * intros _. reflexivity.
    + exists (assoc_set a (fst f) m), (l ++ [a]). split; [reflexivity|]. split; [|split; [apply NoDup_snoc; assumption|split]].
      * intros a0. rewrite assoc_get_set, in_app_iff. destruct (bytes_eqb_spec a0 a) as [->|N].
        -- split; [intros _; right; left; reflexivity|intros _; discriminate].
        -- split; [intros H; left; apply Hk; exact H|intros [H|[H|H]]; [apply Hk; exact H|congruence|destruct H]].
      * intros _. split; [unfold add_new; rewrite Hmem; reflexivity|].
        split; [rewrite assoc_get_set, bytes_eqb_refl; reflexivity|].
        intros b Hb. rewrite assoc_get_set. destruct (bytes_eqb_spec b a); [contradiction|reflexivity].
      * intros H. congruence.
Qed.

Lemma fold_notify_err files : forall e, fold_left notify_one files (Err e) = Err e.
Proof. induction files as [|f files IH]; intros e; [reflexivity|]. simpl. apply IH. Qed.
Lemma fold_notify_panic files : fold_left notify_one files Panic = Panic.
Proof. induction files as [|f files IH]; [reflexivity|]. simpl. apply IH. Qed.

(* the invariant survives the whole loop, whatever the directory contains *)
Lemma fold_notify_wl files : forall m l,
  keys_ok m l -> NoDup l ->
  match fold_left notify_one files (Ok (m, l)) with
  | Ok (m', l') => keys_ok m' l' /\ NoDup l'
  | _ => True
  end.
Proof.
  induction files as [|f files IH]; intros m l Hk Hn; [simpl; auto|].
  change (fold_left notify_one (f :: files) (Ok (m, l))) with (fold_left notify_one files (notify_one (Ok (m, l)) f)).
  pose proof (notify_one_cases m l f Hk Hn) as H.
  destruct (matchFilename (fst f) (snd f)) as [[a|]| |].
  - destruct H as (m' & l' & -> & Hk' & Hn' & _). apply IH; assumption.
  - rewrite H. apply IH; assumption.
  - rewrite H, fold_notify_err. exact I.
  - rewrite H, fold_notify_panic. exact I.
Qed.

Lemma notifyNewFiles_wl (s s' : state) files :
  wl_ok s -> notifyNewFiles s files = Ok s' -> wl_ok s'.
Proof.
  intros [Hk Hn]. unfold Model.notifyNewFiles.
  pose proof (fold_notify_wl files _ _ Hk Hn) as H.
  destruct (fold_left notify_one files _) as [[m l]| |]; simpl; try discriminate.
  intros Hs; injection Hs as <-. exact H.
Qed.

Lemma GetWalletFile_lists (s s' : state) a r :
  GetWalletFile s a = (s', r) -> st_map _ s' = st_map _ s /\ st_list _ s' = st_list _ s.
Proof. intros H. apply GetWalletFile_inv in H as (_ & Hm & Hl & _). split; assumption. Qed.

Lemma step_wl_ok (s : state) (o : op) : wl_ok s -> wl_ok (fst (step s o)).
Proof.
  intros Hs. destruct o; simpl; try exact Hs.
  - unfold Model.Refresh. destruct (fs_readdir (st_fs _ s) (c_path c)) as [[|f files]| |]; simpl; try exact Hs.
    destruct (notifyNewFiles s (f :: files)) as [s'| |] eqn:Hn; simpl; try exact Hs.
    eapply notifyNewFiles_wl; eauto.
  - unfold Model.Sign, getSignerForJSONAccount, getSignerForAddr.
    destruct (parse_from _ _ _ _ _ E from_raw) as [a|]; [|exact Hs].
    destruct (GetWalletFile s a) as [s' r] eqn:H. simpl. apply GetWalletFile_lists in H as [Hm Hl].
    unfold wl_ok. rewrite Hm, Hl. exact Hs.
  - unfold Model.SignTypedDataV4, getSignerForAddr.
    destruct (GetWalletFile s from) as [s' r] eqn:H. simpl. apply GetWalletFile_lists in H as [Hm Hl].
    unfold wl_ok. rewrite Hm, Hl. exact Hs.
  - destruct (GetWalletFile s addr) as [s' r] eqn:H. simpl. apply GetWalletFile_lists in H as [Hm Hl].
    unfold wl_ok. rewrite Hm, Hl. exact Hs.
  - destruct (notifyNewFiles s [(name, isdir)]) as [s'| |] eqn:Hn; simpl; try exact Hs.
    eapply notifyNewFiles_wl; eauto.
Qed.

Lemma after_wl_ok (s : state) h : wl_ok s -> wl_ok (after s h).
Proof.
  revert s. induction h as [|o h IH]; intros s Hs; [exact Hs|].
  rewrite after_cons. apply IH, step_wl_ok, Hs.
Qed.

(* the account list never contains an address twice — any configuration, file systems, history *)
Theorem accounts_nodup fs h : NoDup (GetAccounts _ (after (init_state _ fs) h)).
Proof. apply (after_wl_ok _ h (wl_ok_init fs)). Qed.

(* ---------- what a scan adds ---------- *)

Definition names_ok (files : list (bytes * bool)) : Prop := Forall (fun f => fst f <> []) files.

Lemma backing_cons r f files a init :
  backing r (f :: files) a init =
  backing r files a (if (snd f : bool) then init
                     else match name_address r (fst f) with
                          | Some a' => if bytes_eqb a' a then Some (fst f) else init
                          | None => init
                          end).
Proof. reflexivity. Qed.

Lemma spec_matches_cons r (f : bytes * bool) files :
  spec_matches r (f :: files) =
  (if snd f then [] else match name_address r (fst f) with Some a => [a] | None => [] end) ++ spec_matches r files.
Proof. reflexivity. Qed.

Lemma fold_notify_exact files : forall m l,
  regex_law -> constructed -> names_ok files -> keys_ok m l -> NoDup l ->
  exists m', fold_left notify_one files (Ok (m, l)) = Ok (m', add_all l (spec_matches rule_of files)) /\
             keys_ok m' (add_all l (spec_matches rule_of files)) /\
             forall a, assoc_get a m' = backing rule_of files a (assoc_get a m).
Proof.
  induction files as [|f files IH]; intros m l Hlaw Hc Hnames Hk Hn.
  - exists m. simpl. repeat split; auto; apply Hk.
  - inversion Hnames as [|? ? Hf Hrest]; subst.
    change (fold_left notify_one (f :: files) (Ok (m, l))) with (fold_left notify_one files (notify_one (Ok (m, l)) f)).
    pose proof (notify_one_cases m l f Hk Hn) as H.
    rewrite (matchFilename_spec (fst f) (snd f) Hlaw Hc) in H.
    rewrite spec_matches_cons.
    destruct (snd f) eqn:Hd.
    + rewrite H. destruct (IH m l Hlaw Hc Hrest Hk Hn) as (m' & H1 & H2 & H3).
      exists m'. simpl app. split; [exact H1|]. split; [exact H2|].
      intros b. rewrite backing_cons, Hd. apply H3.
    + destruct (name_address rule_of (fst f)) as [a|] eqn:Hna.
      * destruct H as (m1 & l1 & H0 & Hk1 & Hn1 & Hne & _). rewrite H0.
        destruct (Hne Hf) as (El & Hg & Hother). subst l1.
        destruct (IH m1 (add_new l a) Hlaw Hc Hrest Hk1 Hn1) as (m' & H1 & H2 & H3).
        exists m'. rewrite add_all_app. change (add_all l [a]) with (add_new l a).
        split; [exact H1|]. split; [exact H2|].
        intros b. rewrite backing_cons, Hd, Hna, H3. f_equal.
        destruct (bytes_eqb_spec a b) as [->|N]; [exact Hg|apply Hother; congruence].
      * rewrite H. destruct (IH m l Hlaw Hc Hrest Hk Hn) as (m' & H1 & H2 & H3).
        exists m'. simpl app. split; [exact H1|]. split; [exact H2|].
        intros b. rewrite backing_cons, Hd, Hna. apply H3.
Qed.

(* Refresh on a readable directory: succeeds, appends exactly the addresses named by matching regular
   files that are not yet listed (first occurrences, listing order), and points every address at the
   last file naming it *)
Theorem Refresh_exact (s : state) files :
  regex_law -> constructed -> wl_ok s ->
  fs_readdir (st_fs _ s) (c_path c) = Ok files -> names_ok files ->
  exists s', Refresh s = (s', Ok tt) /\
             GetAccounts _ s' = add_all (GetAccounts _ s) (spec_matches rule_of files) /\
             (forall a, assoc_get a (st_map _ s') = backing rule_of files a (assoc_get a (st_map _ s))) /\
             st_fs _ s' = st_fs _ s /\ st_cache _ s' = st_cache _ s.
Proof.
  intros Hlaw Hc [Hk Hn] Hr Hnames. unfold Model.Refresh. rewrite Hr.
  destruct files as [|f files].
  - exists s. repeat split; reflexivity.
  - unfold Model.notifyNewFiles.
    destruct (fold_notify_exact (f :: files) _ _ Hlaw Hc Hnames Hk Hn) as (m' & -> & _ & Hb). simpl.
    eexists. repeat split; try reflexivity. exact Hb.
Qed.

Lemma step_event (s : state) (name : bytes) (isdir : bool) :
  fst (step s (OFsEvent _ _ name isdir)) =
  match notifyNewFiles s [(name, isdir)] with Ok s' => s' | _ => s end.
Proof. simpl. destruct (notifyNewFiles s [(name, isdir)]); reflexivity. Qed.

Lemma notifyNewFiles_unfold (s : state) files :
  notifyNewFiles s files =
  match fold_left notify_one files (Ok (st_map _ s, st_list _ s)) with
  | Ok (m, l) => Ok {| st_fs := st_fs _ s; st_map := m; st_list := l; st_cache := st_cache _ s |}
  | Err e => Err e
  | Panic => Panic
  end.
Proof. unfold Model.notifyNewFiles. destruct (fold_left _ files _) as [[m l]| |]; reflexivity. Qed.

(* a listener event for one file does the same for that file *)
Theorem event_exact (s : state) (name : bytes) (isdir : bool) :
  regex_law -> constructed -> wl_ok s -> name <> [] ->
  let s' := fst (step s (OFsEvent _ _ name isdir)) in
  GetAccounts _ s' = add_all (GetAccounts _ s) (spec_matches rule_of [(name, isdir)]) /\
  (forall a, assoc_get a (st_map _ s') = backing rule_of [(name, isdir)] a (assoc_get a (st_map _ s))) /\
  st_fs _ s' = st_fs _ s /\ st_cache _ s' = st_cache _ s.
Proof.
  intros Hlaw Hc [Hk Hn] Hne.
  assert (Hnames : names_ok [(name, isdir)]) by (constructor; [exact Hne|constructor]).
  destruct (fold_notify_exact [(name, isdir)] _ _ Hlaw Hc Hnames Hk Hn) as (m' & Hf & _ & Hb).
  cbv zeta. rewrite step_event, notifyNewFiles_unfold, Hf. simpl.
  repeat split; try reflexivity. exact Hb.
Qed.

(* first scan of a fresh wallet: the account list is the specification's *)
Theorem accounts_exact_initial fs files :
  regex_law -> constructed ->
  fs_readdir fs (c_path c) = Ok files -> names_ok files ->
  exists s', Refresh (init_state _ fs) = (s', Ok tt) /\
             GetAccounts _ s' = spec_accounts rule_of files /\
             (forall a, assoc_get a (st_map _ s') = backing rule_of files a None).
Proof.
  intros Hlaw Hc Hr Hn.
  destruct (@Refresh_exact (init_state _ fs) files Hlaw Hc (wl_ok_init fs) Hr Hn) as (s' & H1 & H2 & H3 & _).
  exists s'. repeat split; auto.
Qed.

(* ---------- a directory that does not change: any history of requests and rescans ---------- *)

Fixpoint static (h : list op) : bool :=
  match h with
  | [] => true
  | OSetFs _ _ _ :: _ => false
  | OFsEvent _ _ _ _ :: _ => false
  | _ :: h' => static h'
  end.

Fixpoint refreshed (h : list op) : bool :=
  match h with
  | [] => false
  | ORefresh _ _ :: _ => true
  | _ :: h' => refreshed h'
  end.

Lemma step_static_fs (s : state) (o : op) :
  static [o] = true -> st_fs _ (fst (step s o)) = st_fs _ s.
Proof.
  destruct o; simpl; try discriminate; intros _; try reflexivity.
  - destruct (Refresh s) as [s' r] eqn:H. apply Refresh_cache in H as [_ Hf]. exact Hf.
  - unfold Model.Sign, getSignerForJSONAccount, getSignerForAddr.
    destruct (parse_from _ _ _ _ _ E from_raw) as [a|]; [|reflexivity].
    destruct (GetWalletFile s a) as [s' r] eqn:H. apply GetWalletFile_inv in H as (Hf & _). exact Hf.
  - unfold Model.SignTypedDataV4, getSignerForAddr.
    destruct (GetWalletFile s from) as [s' r] eqn:H. apply GetWalletFile_inv in H as (Hf & _). exact Hf.
  - destruct (GetWalletFile s addr) as [s' r] eqn:H. apply GetWalletFile_inv in H as (Hf & _). exact Hf.
Qed.

Lemma step_static_list (s : state) (o : op) files :
  regex_law -> constructed -> wl_ok s ->
  fs_readdir (st_fs _ s) (c_path c) = Ok files -> names_ok files ->
  static [o] = true ->
  GetAccounts _ (fst (step s o)) =
    match o with ORefresh _ _ => add_all (GetAccounts _ s) (spec_matches rule_of files) | _ => GetAccounts _ s end.
Proof.
  intros Hlaw Hc Hs Hr Hn. destruct o; simpl; try discriminate; intros _; try reflexivity.
  - destruct (Refresh_exact s files Hlaw Hc Hs Hr Hn) as (s' & -> & Hl & _). exact Hl.
  - unfold Model.Sign, getSignerForJSONAccount, getSignerForAddr.
    destruct (parse_from _ _ _ _ _ E from_raw) as [a|]; [|reflexivity].
    destruct (GetWalletFile s a) as [s' r] eqn:H. apply GetWalletFile_lists in H as [_ Hl]. exact Hl.
  - unfold Model.SignTypedDataV4, getSignerForAddr.
    destruct (GetWalletFile s from) as [s' r] eqn:H. apply GetWalletFile_lists in H as [_ Hl]. exact Hl.
  - destruct (GetWalletFile s addr) as [s' r] eqn:H. apply GetWalletFile_lists in H as [_ Hl]. exact Hl.
Qed.

Lemma static_cons o h : static (o :: h) = static [o] && static h.
Proof. destruct o; simpl; try reflexivity; rewrite andb_true_r; reflexivity. Qed.

Lemma accounts_static_gen files h : forall (s : state),
  regex_law -> constructed -> wl_ok s ->
  fs_readdir (st_fs _ s) (c_path c) = Ok files -> names_ok files -> static h = true ->
  GetAccounts _ (after s h) =
    if refreshed h then add_all (GetAccounts _ s) (spec_matches rule_of files) else GetAccounts _ s.
Proof.
  induction h as [|o h IH]; intros s Hlaw Hc Hs Hr Hn Hst; [reflexivity|].
  rewrite static_cons in Hst. apply andb_prop in Hst as [Ho Hh].
  rewrite after_cons.
  pose proof (step_static_fs s o Ho) as Hfs.
  pose proof (step_static_list s o files Hlaw Hc Hs Hr Hn Ho) as Hl.
  assert (Hr' : fs_readdir (st_fs _ (fst (step s o))) (c_path c) = Ok files) by (rewrite Hfs; exact Hr).
  rewrite (IH _ Hlaw Hc (step_wl_ok s o Hs) Hr' Hn Hh), Hl.
  destruct o; simpl in *; try discriminate; try reflexivity.
  destruct (refreshed h); [apply add_all_idem|reflexivity].
Qed.

(* on a wallet directory that does not change, after any history of requests, GetAccounts calls and
   rescans containing at least one rescan, the account list is exactly the specification's *)
Theorem accounts_exact_static fs files h :
  regex_law -> constructed ->
  fs_readdir fs (c_path c) = Ok files -> names_ok files -> static h = true ->
  GetAccounts _ (after (init_state _ fs) h) = if refreshed h then spec_accounts rule_of files else [].
Proof.
  intros Hlaw Hc Hr Hn Hst.
  rewrite (@accounts_static_gen files h (init_state _ fs) Hlaw Hc (wl_ok_init fs) Hr Hn Hst). reflexivity.
Qed.

(* ---------- liveness of key loading ---------- *)

Notation addr_of := (addr_of _ _ _ _ _ E).

Lemma loadWalletFile_ok fs a primary content kf pf kcontent pw k :
  fs_readfile fs primary = Ok content ->
  getKeyAndPasswordFiles _ _ _ _ _ E c a primary content = Ok (kf, pf) ->
  (if bytes_eqb kf primary then kcontent = content else fs_readfile fs kf = Ok kcontent) ->
  spec_password (fs_readfile fs) (c_pw_trim c) (trim_space _ _ _ _ _ E) pf (c_default_pw_file c) = Some pw ->
  read_wallet _ _ _ _ _ E kcontent pw = Ok k ->
  loadWalletFile _ _ _ _ _ E c fs a primary = Ok k.
Proof.
  intros Hp Hg Hk Hpw Hr. unfold loadWalletFile, read_or_failed. rewrite Hp. simpl bind. rewrite Hg. simpl bind.
  destruct (bytes_eqb kf primary) eqn:Ek; simpl negb; cbv iota.
  - subst kcontent. simpl bind. unfold spec_password in Hpw.
    destruct (bytes_eqb pf []) eqn:Epf; simpl negb; cbv iota.
    + destruct (bytes_eqb (c_default_pw_file c) []); [discriminate|].
      destruct (fs_readfile fs (c_default_pw_file c)) as [p| |]; try discriminate.
      injection Hpw as <-. simpl bind. rewrite Hr. reflexivity.
    + destruct (fs_readfile fs pf) as [p| |].
      * injection Hpw as <-. simpl bind. rewrite Hr. reflexivity.
      * destruct (bytes_eqb (c_default_pw_file c) []); [discriminate|].
        destruct (fs_readfile fs (c_default_pw_file c)) as [p| |]; try discriminate.
        injection Hpw as <-. simpl bind. rewrite Hr. reflexivity.
      * destruct (bytes_eqb (c_default_pw_file c) []); [discriminate|].
        destruct (fs_readfile fs (c_default_pw_file c)) as [p| |]; try discriminate.
        injection Hpw as <-. simpl bind. rewrite Hr. reflexivity.
  - rewrite Hk. simpl bind. unfold spec_password in Hpw.
    destruct (bytes_eqb pf []) eqn:Epf; simpl negb; cbv iota.
    + destruct (bytes_eqb (c_default_pw_file c) []); [discriminate|].
      destruct (fs_readfile fs (c_default_pw_file c)) as [p| |]; try discriminate.
      injection Hpw as <-. simpl bind. rewrite Hr. reflexivity.
    + destruct (fs_readfile fs pf) as [p| |].
      * injection Hpw as <-. simpl bind. rewrite Hr. reflexivity.
      * destruct (bytes_eqb (c_default_pw_file c) []); [discriminate|].
        destruct (fs_readfile fs (c_default_pw_file c)) as [p| |]; try discriminate.
        injection Hpw as <-. simpl bind. rewrite Hr. reflexivity.
      * destruct (bytes_eqb (c_default_pw_file c) []); [discriminate|].
        destruct (fs_readfile fs (c_default_pw_file c)) as [p| |]; try discriminate.
        injection Hpw as <-. simpl bind. rewrite Hr. reflexivity.
Qed.

(* once the key loads and is the requested address's key, the request succeeds (from the cache or
   from the directory) with a key of that address *)
Lemma GetWalletFile_live (s : state) a fn k :
  cache_ok _ _ _ _ _ E s ->
  assoc_get a (st_map _ s) = Some fn ->
  loadWalletFile _ _ _ _ _ E c (st_fs _ s) a (path_join _ _ _ _ _ E (c_path c) fn) = Ok k ->
  addr_of k = a ->
  exists s' k', GetWalletFile s a = (s', Ok k') /\ addr_of k' = a.
Proof.
  intros Hc Hm Hl Hk. unfold Model.GetWalletFile.
  destruct (assoc_get (addr_string a) (st_cache _ s)) as [w|] eqn:Hg.
  - exists s, w. split; [reflexivity|]. apply Hc in Hg. apply addr_string_inj in Hg. symmetry; exact Hg.
  - rewrite Hm, Hl. destruct (bytes_eqb_spec (addr_of k) a) as [_|N]; [|contradiction]. simpl.
    eexists; eexists. split; [reflexivity|exact Hk].
Qed.

(* the password file of an address under the extension rule (no metadata) *)
Definition plain_password_file (a : bytes) : bytes :=
  path_join _ _ _ _ _ E (if bytes_eqb (c_pw_path c) [] then c_path c else c_pw_path c)
    ((if c_with0x c then addr_string a else hex_encode a) ++ c_pw_ext c).

Lemma has_prefix_app p x : has_prefix p (p ++ x) = true.
Proof.
  induction p as [|b p IH]; [reflexivity|]. simpl. rewrite IH.
  destruct (byte_eqb_spec b b); [reflexivity|congruence].
Qed.

Lemma trim_0x_addr_string a : trim_prefix s_0x (addr_string a) = hex_encode a.
Proof. unfold addr_string, trim_prefix. rewrite has_prefix_app. apply skipn_prefix. Qed.

(* liveness, no metadata: the file listed for A holds A's key, and the password file named by the
   extension rule (or, when that cannot be read, the default password file) opens it *)
Theorem liveness_plain fs h a fn content pw k :
  let s := after (init_state _ fs) h in
  classify_format (resolved_format c) = None ->
  assoc_get a (st_map _ s) = Some fn ->
  fs_readfile (st_fs _ s) (path_join _ _ _ _ _ E (c_path c) fn) = Ok content ->
  spec_password (fs_readfile (st_fs _ s)) (c_pw_trim c) (trim_space _ _ _ _ _ E)
                (plain_password_file a) (c_default_pw_file c) = Some pw ->
  read_wallet _ _ _ _ _ E content pw = Ok k -> addr_of k = a ->
  exists s' k', GetWalletFile s a = (s', Ok k') /\ addr_of k' = a.
Proof.
  intros s Hf Hm Hp Hpw Hr Hk.
  apply (@GetWalletFile_live s a fn k); auto.
  - apply reachable_cache_ok.
  - eapply loadWalletFile_ok with (kf := path_join _ _ _ _ _ E (c_path c) fn); eauto.
    + unfold getKeyAndPasswordFiles. rewrite Hf. unfold plain_password_file.
      destruct (c_with0x c); [reflexivity|]. rewrite trim_0x_addr_string. reflexivity.
    + rewrite bytes_eqb_refl. reflexivity.
Qed.

(* liveness, metadata: the metadata file listed for A parses, its key template yields a file holding
   A's key, and the password file its password template yields (or the default file) opens it *)
Theorem liveness_metadata fs h a fn m content kf kcontent pw k :
  let s := after (init_state _ fs) h in
  let primary := path_join _ _ _ _ _ E (c_path c) fn in
  classify_format (resolved_format c) = Some m ->
  assoc_get a (st_map _ s) = Some fn ->
  fs_readfile (st_fs _ s) primary = Ok content ->
  meta_parse _ _ _ _ _ E m content = true ->
  goTemplateToString _ _ _ _ _ E m content (c_key_prop c) = kf -> kf <> [] ->
  (if bytes_eqb kf primary then kcontent = content else fs_readfile (st_fs _ s) kf = Ok kcontent) ->
  spec_password (fs_readfile (st_fs _ s)) (c_pw_trim c) (trim_space _ _ _ _ _ E)
                (goTemplateToString _ _ _ _ _ E m content (c_pw_prop c)) (c_default_pw_file c) = Some pw ->
  read_wallet _ _ _ _ _ E kcontent pw = Ok k -> addr_of k = a ->
  exists s' k', GetWalletFile s a = (s', Ok k') /\ addr_of k' = a.
Proof.
  intros s primary Hf Hm Hp Hmp Hkf Hne Hkc Hpw Hr Hk.
  apply (@GetWalletFile_live s a fn k); auto.
  - apply reachable_cache_ok.
  - eapply loadWalletFile_ok with (kf := kf); eauto.
    unfold getKeyAndPasswordFiles. rewrite Hf, Hmp. simpl negb. cbv iota. rewrite Hkf.
    destruct (bytes_eqb_spec kf []); [contradiction|reflexivity].
Qed.

(* after the first scan of a fresh wallet every address is backed by the last regular file naming it *)
Lemma listed_backing fs files a :
  regex_law -> constructed ->
  fs_readdir fs (c_path c) = Ok files -> names_ok files ->
  assoc_get a (st_map _ (after (init_state _ fs) [ORefresh _ _])) = backing rule_of files a None /\
  st_fs _ (after (init_state _ fs) [ORefresh _ _]) = fs.
Proof.
  intros Hlaw Hc Hr Hn.
  destruct (@Refresh_exact (init_state _ fs) files Hlaw Hc (wl_ok_init fs) Hr Hn) as (s' & H1 & _ & H3 & H4 & _).
  unfold Model.after. simpl. rewrite H1. simpl. split; [apply H3|exact H4].
Qed.

(* the signatures handed out recover to the requested address, given the signers' own guarantee
   (properties C01/C05: what is signed with key k recovers to the address of k) *)
Theorem signatures_recover_to_requested
        (recover_tx : tx -> stx -> option bytes) (recover_td : doc -> tsig -> option bytes) :
  (forall k t out, sign_tx _ _ _ _ _ E k t = Ok out -> recover_tx t out = Some (addr_of k)) ->
  (forall k d out, sign_td _ _ _ _ _ E k d = Ok out -> recover_td d out = Some (addr_of k)) ->
  forall fs h,
    let s := after (init_state _ fs) h in
    (forall raw t s' out, Sign _ _ _ _ _ E c s raw t = (s', Ok out) ->
       exists str a, json_string _ _ _ _ _ E raw = Some str /\ addr_of_text str = Some a /\
                     recover_tx t out = Some a) /\
    (forall a d s' out, SignTypedDataV4 _ _ _ _ _ E c s a d = (s', Ok out) -> recover_td d out = Some a).
Proof.
  intros Ltx Ltd fs h s. split.
  - intros raw t s' out H. apply Sign_binds_reachable in H as (a & k & Hp & Hk & Hs).
    unfold parse_from in Hp. destruct (json_string _ _ _ _ _ E raw) as [str|]; [|discriminate].
    exists str, a. split; [reflexivity|]. split; [rewrite <- parse_address_is_address_text; exact Hp|].
    rewrite <- Hk. apply Ltx; exact Hs.
  - intros a d s' out H. apply SignTypedData_binds_reachable in H as (k & Hk & Hs).
    rewrite <- Hk. apply Ltd; exact Hs.
Qed.

End Accounts.
