(* Executable model of pkg/fswallet (fswallet.go, config.go): the sequential logic of the file-system
   wallet.  One definition per Go function, same order of checks.  No proofs in this file.

   What is NOT code of firefly-signer enters through the record [ext] (regexp, text/template, the
   TOML/YAML/JSON metadata parsers, encoding/json's string decoding, strings.TrimSpace, path.Join, the
   keystore reader pkg/keystorev3 — modelled separately in Keystore/ —, address derivation and the
   signers).  The file system is a pair of functions (directory listing, file read) so that every
   behaviour of the OS is covered; Run.v instantiates it from a map path -> Dir | File | Unreadable.

   Strings are byte strings.  Addresses are byte strings (20 bytes whenever they come out of
   [parse_address]); nothing below depends on the length. *)
From Coq Require Import String.
From Coq Require Import List NArith Lia Bool Arith.
From Coq Require Import Init.Byte.
From FFS Require Import Base.Res Base.Bytes.
Import ListNotations.
Open Scope N_scope.

(* ---------- Go's strings package on byte strings ---------- *)

Fixpoint has_prefix (p s : bytes) : bool :=                       (* strings.HasPrefix(s, p) *)
  match p, s with
  | [], _ => true
  | x :: p', y :: s' => byte_eqb x y && has_prefix p' s'
  | _ :: _, [] => false
  end.

Definition trim_prefix (p s : bytes) : bytes :=                   (* strings.TrimPrefix(s, p) *)
  if has_prefix p s then skipn (length p) s else s.

Definition has_suffix (suf s : bytes) : bool :=                   (* strings.HasSuffix(s, suf) *)
  (length suf <=? length s)%nat && bytes_eqb (skipn (length s - length suf) s) suf.

Definition trim_suffix (suf s : bytes) : bytes :=                 (* strings.TrimSuffix(s, suf) *)
  if has_suffix suf s then firstn (length s - length suf) s else s.

Fixpoint contains (sub s : bytes) : bool :=                       (* strings.Contains(s, sub) *)
  has_prefix sub s || match s with [] => false | _ :: s' => contains sub s' end.

Definition lower_byte (b : byte) : byte :=
  let n := b2n b in if (65 <=? n) && (n <=? 90) then n2b (n + 32) else b.
(* strings.ToLower restricted to what the code compares it with: the result equals an ASCII word
   exactly when the ASCII-lowered bytes do (no non-ASCII rune lower-cases to a, u, t or o) *)
Definition to_lower (s : bytes) : bytes := map lower_byte s.

(* ---------- encoding/hex ---------- *)

Definition hexval (b : byte) : option N :=
  let n := b2n b in
  if (48 <=? n) && (n <=? 57) then Some (n - 48)
  else if (97 <=? n) && (n <=? 102) then Some (n - 87)
  else if (65 <=? n) && (n <=? 70) then Some (n - 55)
  else None.

Fixpoint hex_decode (s : bytes) : option bytes :=                 (* hex.DecodeString: None = error *)
  match s with
  | [] => Some []
  | a :: b :: rest =>
      match hexval a, hexval b, hex_decode rest with
      | Some x, Some y, Some r => Some (n2b (16 * x + y) :: r)
      | _, _, _ => None
      end
  | [_] => None
  end.

Definition hexdigit (n : N) : byte := n2b (if n <? 10 then 48 + n else 87 + n).
Definition hex_encode (l : bytes) : bytes :=                      (* hex.EncodeToString *)
  flat_map (fun b => [hexdigit (b2n b / 16); hexdigit (b2n b mod 16)]) l.

Definition s_0x : bytes := ascii_bytes "0x".

(* ethtypes.Address0xHex.SetString / NewAddress: optional "0x", then exactly 20 bytes of hex *)
Definition parse_address (s : bytes) : option bytes :=
  match hex_decode (trim_prefix s_0x s) with
  | Some b => if (length b =? 20)%nat then Some b else None
  | None => None
  end.

(* ethtypes.Address0xHex.String *)
Definition addr_string (a : bytes) : bytes := s_0x ++ hex_encode a.

(* ---------- configuration (config.go: Config, FilenamesConfig, MetadataConfig) ---------- *)

Record config := {
  c_path : bytes;                 (* Path *)
  c_default_pw_file : bytes;      (* DefaultPasswordFile *)
  c_regex : bytes;                (* Filenames.PrimaryMatchRegex *)
  c_primary_ext : bytes;          (* Filenames.PrimaryExt *)
  c_pw_ext : bytes;               (* Filenames.PasswordExt *)
  c_pw_path : bytes;              (* Filenames.PasswordPath *)
  c_pw_trim : bool;               (* Filenames.PasswordTrimSpace *)
  c_with0x : bool;                (* Filenames.With0xPrefix *)
  c_meta_format : bytes;          (* Metadata.Format *)
  c_key_prop : bytes;             (* Metadata.KeyFileProperty *)
  c_pw_prop : bytes               (* Metadata.PasswordFileProperty *)
}.

Inductive mfmt := MToml | MJson | MYaml.

(* error classes (only Ok / Err / Panic is compared with the implementation) *)
Definition ENotAvailable : nat := 1.   (* MsgWalletNotAvailable *)
Definition EWalletFailed : nat := 2.   (* MsgWalletFailed *)
Definition EMismatch : nat := 3.       (* MsgAddressMismatch *)
Definition EBadFrom : nat := 4.        (* json.Unmarshal of "from" failed *)
Definition EReadDir : nat := 5.        (* MsgReadDirFile *)
Definition EBadTemplate : nat := 6.    (* MsgBadGoTemplate *)
Definition EBadRegex : nat := 7.       (* MsgBadRegularExpression *)
Definition ENoGroup : nat := 8.        (* MsgMissingRegexpCaptureGroup *)

(* ---------- the file system ---------- *)

Record fsys := {
  fs_readdir : bytes -> res (list (bytes * bool));   (* os.ReadDir + Info: (name, IsDir) in listing order *)
  fs_readfile : bytes -> res bytes                   (* os.ReadFile *)
}.

Section Wallet.

Variables key tx stx doc tsig : Type.

(* everything that is not firefly-signer's wallet code *)
Record ext := {
  re_compile : bytes -> option nat;                   (* regexp.Compile: None = error, Some (len SubexpNames) *)
  re_find : bytes -> bytes -> option (list bytes);    (* FindStringSubmatch pattern name: None = nil *)
  tmpl_parse_ok : bytes -> bool;                      (* template.New(..).Parse succeeded *)
  meta_parse : mfmt -> bytes -> bool;                 (* toml/json/yaml.Unmarshal into map[string]interface{} succeeded *)
  tmpl_exec : mfmt -> bytes -> bytes -> bytes * bool; (* Execute(template) on the parsed metadata: (output, err == nil) *)
  json_string : bytes -> option bytes;                (* json.Unmarshal(raw, &string): None = error *)
  trim_space : bytes -> bytes;                        (* strings.TrimSpace *)
  path_join : bytes -> bytes -> bytes;                (* path.Join *)
  read_wallet : bytes -> bytes -> res key;            (* keystorev3.ReadWalletFile(file, password) *)
  addr_of : key -> bytes;                             (* WalletFile.KeyPair().Address *)
  sign_tx : key -> tx -> res stx;                     (* Transaction.Sign(keypair, chainID) *)
  sign_td : key -> doc -> res tsig                    (* ethsigner.SignTypedDataV4(keypair, payload) *)
}.

Variable E : ext.
Variable c : config.

(* NewFilesystemWallet: the checks of the constructor (the templates are nil iff the string is empty,
   the regular expression is nil iff the string is empty) *)
Definition NewFilesystemWallet : res unit :=
  if negb (bytes_eqb (c_key_prop c) []) && negb (tmpl_parse_ok E (c_key_prop c)) then Err EBadTemplate
  else if negb (bytes_eqb (c_pw_prop c) []) && negb (tmpl_parse_ok E (c_pw_prop c)) then Err EBadTemplate
  else if negb (bytes_eqb (c_regex c) []) then
    match re_compile E (c_regex c) with
    | None => Err EBadRegex
    | Some n => if (n <? 2)%nat then Err ENoGroup else Ok tt
    end
  else Ok tt.

(* matchFilename: Ok None = ignored *)
Definition matchFilename (name : bytes) (isdir : bool) : res (option bytes) :=
  if isdir then Ok None
  else if negb (bytes_eqb (c_regex c) []) then
    match re_find E (c_regex c) name with
    | None => Ok None
    | Some groups =>
        match nth_error groups 1 with
        | None => Panic                                   (* match[1] *)
        | Some g => Ok (parse_address g)
        end
    end
  else if negb (has_suffix (c_primary_ext c) name) then Ok None
  else Ok (parse_address (trim_suffix (c_primary_ext c) name)).

(* ---------- wallet state ---------- *)

Record state := {
  st_fs : fsys;
  st_map : list (bytes * bytes);        (* addressToFileMap *)
  st_list : list bytes;                 (* addressList *)
  st_cache : list (bytes * key)         (* signerCache, keyed by addr.String() *)
}.

Definition init_state (fs : fsys) : state :=
  {| st_fs := fs; st_map := []; st_list := []; st_cache := [] |}.

Fixpoint assoc_get {V} (k : bytes) (l : list (bytes * V)) : option V :=
  match l with
  | [] => None
  | (k', v) :: t => if bytes_eqb k k' then Some v else assoc_get k t
  end.
Fixpoint assoc_del {V} (k : bytes) (l : list (bytes * V)) : list (bytes * V) :=
  match l with
  | [] => []
  | (k', v) :: t => if bytes_eqb k k' then assoc_del k t else (k', v) :: assoc_del k t
  end.
Definition assoc_set {V} (k : bytes) (v : V) (l : list (bytes * V)) : list (bytes * V) :=
  (k, v) :: assoc_del k l.

(* notifyNewFiles: the loop body for one file *)
Definition notify_one (ml : res (list (bytes * bytes) * list bytes)) (f : bytes * bool)
  : res (list (bytes * bytes) * list bytes) :=
  do (m, l) <- ml;
  do r <- matchFilename (fst f) (snd f);
  match r with
  | None => Ok (m, l)
  | Some addr =>
      let '(existing, exists_) := match assoc_get addr m with Some n => (n, true) | None => ([], false) end in
      if negb (bytes_eqb existing (fst f)) then
        Ok (assoc_set addr (fst f) m, if exists_ then l else l ++ [addr])
      else Ok (m, l)
  end.

Definition notifyNewFiles (s : state) (files : list (bytes * bool)) : res state :=
  do (m, l) <- fold_left notify_one files (Ok (st_map s, st_list s));
  Ok {| st_fs := st_fs s; st_map := m; st_list := l; st_cache := st_cache s |}.

(* Refresh *)
Definition Refresh (s : state) : state * res unit :=
  match fs_readdir (st_fs s) (c_path c) with
  | Ok files =>
      match files with
      | [] => (s, Ok tt)
      | _ => match notifyNewFiles s files with
             | Ok s' => (s', Ok tt)
             | Err e => (s, Err e)
             | Panic => (s, Panic)
             end
      end
  | Err _ => (s, Err EReadDir)
  | Panic => (s, Panic)
  end.

(* GetAccounts *)
Definition GetAccounts (s : state) : list bytes := st_list s.

(* ---------- loading a key ---------- *)

Definition s_auto : bytes := ascii_bytes "auto".
Definition s_dot : bytes := ascii_bytes ".".
Definition s_novalue : bytes := ascii_bytes "<no value>".

(* the value of w.conf.Metadata.Format after the "auto" rewrite at the top of getKeyAndPasswordFiles
   (the rewrite is idempotent, so it is modelled without state) *)
Definition resolved_format : bytes :=
  if bytes_eqb (to_lower (c_meta_format c)) s_auto then trim_prefix s_dot (c_primary_ext c)
  else c_meta_format c.

Definition classify_format (f : bytes) : option mfmt :=
  if bytes_eqb f (ascii_bytes "toml") || bytes_eqb f (ascii_bytes "tml") then Some MToml
  else if bytes_eqb f (ascii_bytes "json") then Some MJson
  else if bytes_eqb f (ascii_bytes "yaml") || bytes_eqb f (ascii_bytes "yml") then Some MYaml
  else None.

(* goTemplateToString: the error result is always nil *)
Definition goTemplateToString (m : mfmt) (content t : bytes) : bytes :=
  if bytes_eqb t [] then []
  else let '(val, ok) := tmpl_exec E m content t in
       if contains s_novalue val || negb ok then [] else val.

(* getKeyAndPasswordFiles *)
Definition getKeyAndPasswordFiles (addr primaryFilename primaryFile : bytes) : res (bytes * bytes) :=
  match classify_format resolved_format with
  | None =>
      let passwordPath := if bytes_eqb (c_pw_path c) [] then c_path c else c_pw_path c in
      let fn := addr_string addr in
      let fn := if c_with0x c then fn else trim_prefix s_0x fn in
      Ok (primaryFilename, path_join E passwordPath (fn ++ c_pw_ext c))
  | Some m =>
      if negb (meta_parse E m primaryFile) then Err EWalletFailed
      else
        let kf := goTemplateToString m primaryFile (c_key_prop c) in
        let pf := goTemplateToString m primaryFile (c_pw_prop c) in
        if bytes_eqb kf [] then Err EWalletFailed else Ok (kf, pf)
  end.

Definition read_or_failed (fs : fsys) (p : bytes) : res bytes :=
  match fs_readfile fs p with
  | Ok b => Ok b
  | Err _ => Err EWalletFailed
  | Panic => Panic
  end.

(* loadWalletFile *)
Definition loadWalletFile (fs : fsys) (addr primaryFilename : bytes) : res key :=
  do b <- read_or_failed fs primaryFilename;
  do (keyFilename, passwordFilename) <- getKeyAndPasswordFiles addr primaryFilename b;
  do b <- (if negb (bytes_eqb keyFilename primaryFilename) then read_or_failed fs keyFilename else Ok b);
  let password : option bytes :=
    if negb (bytes_eqb passwordFilename []) then
      match fs_readfile fs passwordFilename with
      | Ok p => Some (if c_pw_trim c then trim_space E p else p)
      | _ => None
      end
    else None in
  do password <- match password with
                 | Some p => Ok p
                 | None =>
                     if bytes_eqb (c_default_pw_file c) [] then Err EWalletFailed
                     else do p <- read_or_failed fs (c_default_pw_file c);
                          Ok (if c_pw_trim c then trim_space E p else p)
                 end;
  match read_wallet E b password with
  | Ok k => Ok k
  | Err _ => Err EWalletFailed
  | Panic => Panic
  end.

(* GetWalletFile *)
Definition GetWalletFile (s : state) (addr : bytes) : state * res key :=
  let addrString := addr_string addr in
  match assoc_get addrString (st_cache s) with
  | Some w => (s, Ok w)
  | None =>
      match assoc_get addr (st_map s) with
      | None => (s, Err ENotAvailable)
      | Some primaryFilename =>
          match loadWalletFile (st_fs s) addr (path_join E (c_path c) primaryFilename) with
          | Ok kv3 =>
              if negb (bytes_eqb (addr_of E kv3) addr) then (s, Err EMismatch)
              else ({| st_fs := st_fs s; st_map := st_map s; st_list := st_list s;
                       st_cache := assoc_set addrString kv3 (st_cache s) |}, Ok kv3)
          | Err e => (s, Err e)
          | Panic => (s, Panic)
          end
      end
  end.

(* getSignerForAddr *)
Definition getSignerForAddr (s : state) (from : bytes) : state * res key := GetWalletFile s from.

(* getSignerForJSONAccount: json.Unmarshal(raw, &Address0xHex) = decode a JSON string, then SetString *)
Definition parse_from (raw : bytes) : option bytes :=
  match json_string E raw with
  | Some str => parse_address str
  | None => None
  end.

Definition getSignerForJSONAccount (s : state) (raw : bytes) : state * res key :=
  match parse_from raw with
  | Some from => getSignerForAddr s from
  | None => (s, Err EBadFrom)
  end.

(* Sign *)
Definition Sign (s : state) (from_raw : bytes) (t : tx) : state * res stx :=
  let '(s', r) := getSignerForJSONAccount s from_raw in
  (s', do k <- r; sign_tx E k t).

(* SignTypedDataV4 *)
Definition SignTypedDataV4 (s : state) (from : bytes) (d : doc) : state * res tsig :=
  let '(s', r) := getSignerForAddr s from in
  (s', do k <- r; sign_td E k d).

(* ---------- histories ---------- *)

Inductive op :=
| ORefresh
| OGetAccounts
| OSign (from_raw : bytes) (t : tx)
| OSignTypedData (from : bytes) (d : doc)
| OGetWalletFile (addr : bytes)
| OSetFs (fs : fsys)                          (* any change of the file system *)
| OFsEvent (name : bytes) (isdir : bool)      (* the listener's notifyNewFiles(fi) for one os.Stat result *)
| OEvict (k : bytes).                         (* ccache drops an entry (LRU pruning runs asynchronously) *)

Inductive obs :=
| BRefresh (r : res unit)
| BAccounts (l : list bytes)
| BSign (r : res stx)
| BSignTypedData (r : res tsig)
| BWalletFile (r : res key)
| BNone.

Definition step (s : state) (o : op) : state * obs :=
  match o with
  | ORefresh => let '(s', r) := Refresh s in (s', BRefresh r)
  | OGetAccounts => (s, BAccounts (GetAccounts s))
  | OSign f t => let '(s', r) := Sign s f t in (s', BSign r)
  | OSignTypedData f d => let '(s', r) := SignTypedDataV4 s f d in (s', BSignTypedData r)
  | OGetWalletFile a => let '(s', r) := GetWalletFile s a in (s', BWalletFile r)
  | OSetFs fs => ({| st_fs := fs; st_map := st_map s; st_list := st_list s; st_cache := st_cache s |}, BNone)
  | OFsEvent n d => match notifyNewFiles s [(n, d)] with
                    | Ok s' => (s', BNone)
                    | _ => (s, BNone)
                    end
  | OEvict k => ({| st_fs := st_fs s; st_map := st_map s; st_list := st_list s;
                    st_cache := assoc_del k (st_cache s) |}, BNone)
  end.

(* the state after a history, and the observations made along it *)
Fixpoint run (s : state) (h : list op) : state * list obs :=
  match h with
  | [] => (s, [])
  | o :: h' => let '(s1, b) := step s o in
               let '(s2, bs) := run s1 h' in (s2, b :: bs)
  end.

Definition after (s : state) (h : list op) : state := fst (run s h).

End Wallet.
