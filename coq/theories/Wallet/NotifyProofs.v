(* C17 — proofs about the wallet discovery / listener notification model (Wallet/Notify.v).
   Every theorem quantifies over ALL valid step sequences from [init ls], i.e. over all
   interleavings of the atomic steps of Refresh / fsListenerLoop / AddListener / GetAccounts and the
   notifier goroutines, and over every file-name matcher [addr_of]. *)
From Coq Require Import List NArith Bool Arith Lia Permutation.
From FFS Require Import Wallet.Notify.
Import ListNotations.

Definition pair_dec : forall x y : lid * addr, {x = y} + {x <> y}.
Proof. decide equality; apply N.eq_dec. Defined.

(* ---------- list helpers ---------- *)

Lemma NoDup_app_intro {A} (l1 l2 : list A) :
  NoDup l1 -> NoDup l2 -> (forall x, In x l1 -> ~ In x l2) -> NoDup (l1 ++ l2).
Proof.
  induction l1 as [|x l1 IH]; intros H1 H2 Hd; cbn [app]; auto.
  inversion H1; subst. constructor.
  - rewrite in_app_iff. intros [H|H]; [contradiction|]. apply (Hd x); [left; reflexivity|exact H].
  - apply IH; auto. intros y Hy. apply Hd. right; exact Hy.
Qed.

Lemma NoDup_app_disj {A} (l1 l2 : list A) x :
  NoDup (l1 ++ l2) -> In x l1 -> In x l2 -> False.
Proof.
  induction l1 as [|y l1 IH]; intros Hnd H1 H2; [destruct H1|].
  cbn [app] in Hnd. inversion Hnd; subst. destruct H1 as [->|H1].
  - apply H3. apply in_app_iff. right; exact H2.
  - apply IH; auto.
Qed.

Lemma NoDup_app_r {A} (l1 l2 : list A) : NoDup (l1 ++ l2) -> NoDup l2.
Proof.
  induction l1 as [|y l1 IH]; cbn [app]; intros H; [exact H|].
  inversion H; subst. apply IH; assumption.
Qed.

Lemma NoDup_snoc {A} (l : list A) x : NoDup l -> ~ In x l -> NoDup (l ++ [x]).
Proof.
  intros Hnd Hx. apply NoDup_app_intro; auto.
  - constructor; [intros []|constructor].
  - intros y Hy [<-|[]]. contradiction.
Qed.

(* ---------- addressToFileMap ---------- *)

Lemma lookup_set_same a f m : lookup a (set_map a f m) = Some f.
Proof.
  induction m as [|[a' f'] t IH]; cbn [set_map lookup].
  - rewrite N.eqb_refl. reflexivity.
  - destruct (N.eqb_spec a' a) as [E|E]; cbn [lookup].
    + rewrite N.eqb_refl. reflexivity.
    + destruct (N.eqb_spec a' a); [contradiction|]. exact IH.
Qed.

Lemma lookup_set_other a b f m : a <> b -> lookup b (set_map a f m) = lookup b m.
Proof.
  intros Hab. induction m as [|[a' f'] t IH]; cbn [set_map lookup].
  - destruct (N.eqb_spec a b); [contradiction|reflexivity].
  - destruct (N.eqb_spec a' a) as [E|E]; cbn [lookup].
    + subst a'. destruct (N.eqb_spec a b); [contradiction|reflexivity].
    + destruct (N.eqb_spec a' b); [reflexivity|exact IH].
Qed.

(* the coupling between addressToFileMap and addressList *)
Definition coupled (m : list (addr * fid)) (al : list addr) : Prop :=
  forall a, In a al <-> lookup a m <> None.

Lemma coupled_set_known a f m al :
  lookup a m <> None -> coupled m al -> coupled (set_map a f m) al.
Proof.
  intros Hl Hc b. destruct (N.eq_dec a b) as [<-|Hne].
  - rewrite lookup_set_same. split; [discriminate|]. intros _. apply Hc; exact Hl.
  - rewrite lookup_set_other by exact Hne. apply Hc.
Qed.

Lemma coupled_set_new a f m al :
  coupled m al -> coupled (set_map a f m) (al ++ [a]).
Proof.
  intros Hc b. rewrite in_app_iff. destruct (N.eq_dec a b) as [<-|Hne].
  - rewrite lookup_set_same. split; [discriminate|]. intros _. right; left; reflexivity.
  - rewrite lookup_set_other by exact Hne. split.
    + intros [H|[H|[]]]; [apply Hc; exact H|contradiction].
    + intros H. left. apply Hc; exact H.
Qed.

(* ---------- the sends of one notifier goroutine ---------- *)

Lemma in_sends ls new l a : In (l, a) (sends ls new) <-> In l ls /\ In a new.
Proof.
  unfold sends. rewrite in_flat_map. split.
  - intros [l' [Hl Hin]]. apply in_map_iff in Hin. destruct Hin as [a' [Heq Ha]].
    inversion Heq; subst. auto.
  - intros [Hl Ha]. exists l. split; auto. apply in_map_iff. exists a; auto.
Qed.

Lemma NoDup_map_pair (l : lid) (new : list addr) :
  NoDup new -> NoDup (map (fun a : addr => (l, a)) new).
Proof.
  induction 1 as [|a new Hnin Hnd IH]; cbn [map]; constructor; auto.
  intros H1. apply in_map_iff in H1. destruct H1 as [a' [Heq Ha]].
  inversion Heq; subst. contradiction.
Qed.

Lemma NoDup_sends ls new : NoDup ls -> NoDup new -> NoDup (sends ls new).
Proof.
  intros Hls Hnew. unfold sends. induction Hls as [|l ls Hnin Hls IH]; cbn [flat_map].
  - constructor.
  - apply NoDup_app_intro; auto.
    + apply NoDup_map_pair; exact Hnew.
    + intros [l' a'] H1 H2. apply in_map_iff in H1. destruct H1 as [a0 [Heq _]].
      inversion Heq; subst.
      apply in_flat_map in H2. destruct H2 as [l2 [Hl2 H2]].
      apply in_map_iff in H2. destruct H2 as [a2 [Heq2 _]]. inversion Heq2; subst. contradiction.
Qed.

Lemma pending_snoc ns n :
  flat_map n_remaining (ns ++ [n]) = flat_map n_remaining ns ++ n_remaining n.
Proof. rewrite flat_map_app. cbn [flat_map]. rewrite app_nil_r. reflexivity. Qed.

(* one channel send: the head of one notifier's remaining sends moves to the log *)
Lemma send_nth_perm g ns ns' x :
  send_nth g ns = Some (ns', x) ->
  Permutation (x :: flat_map n_remaining ns') (flat_map n_remaining ns).
Proof.
  revert g ns'. induction ns as [|n t IH]; intros g ns' H.
  - destruct g; cbn [send_nth] in H; discriminate.
  - destruct g as [|g']; cbn [send_nth] in H.
    + destruct (n_remaining n) as [|y r] eqn:E; [discriminate|]. inversion H; subst.
      cbn [flat_map n_remaining]. rewrite E. apply Permutation_refl.
    + destruct (send_nth g' t) as [[t' y]|] eqn:E; [|discriminate]. inversion H; subst.
      cbn [flat_map]. specialize (IH _ _ E).
      eapply Permutation_trans; [apply Permutation_middle|].
      apply Permutation_app_head. exact IH.
Qed.

Lemma send_perm_full g ns ns' x (lg : list (lid * addr)) :
  send_nth g ns = Some (ns', x) ->
  Permutation ((lg ++ [x]) ++ flat_map n_remaining ns') (lg ++ flat_map n_remaining ns).
Proof.
  intros H. rewrite <- app_assoc. cbn [app]. apply Permutation_app_head.
  eapply send_nth_perm; exact H.
Qed.

Lemma pending_nonempty_send ns :
  flat_map n_remaining ns <> [] -> exists g ns' x, send_nth g ns = Some (ns', x).
Proof.
  induction ns as [|n t IH]; intros H.
  - exfalso. apply H. reflexivity.
  - destruct (n_remaining n) as [|y r] eqn:E.
    + cbn [flat_map] in H. rewrite E in H. cbn [app] in H.
      destruct (IH H) as [g [ns' [x Hs]]]. exists (S g), (n :: ns'), x.
      cbn [send_nth]. rewrite Hs. reflexivity.
    + exists 0, (mkNotifier (n_snapshot n) r :: t), y. cbn [send_nth]. rewrite E. reflexivity.
Qed.

Section Proofs.
  Variable addr_of : fid -> option addr.

  (* ---------- sequences ---------- *)

  Lemma run_app s a b : run addr_of s (a ++ b) = run addr_of (run addr_of s a) b.
  Proof. revert s. induction a as [|o t IH]; intros s; cbn [app run]; auto. Qed.

  Lemma valid_seq_app s a b :
    valid_seq addr_of s (a ++ b) <-> valid_seq addr_of s a /\ valid_seq addr_of (run addr_of s a) b.
  Proof.
    revert s. induction a as [|o t IH]; intros s; cbn [app run valid_seq].
    - tauto.
    - rewrite IH. tauto.
  Qed.

  (* ---------- matching files ---------- *)

  Lemma file_addrs_cons f rest :
    file_addrs addr_of (f :: rest) =
    match addr_of f with Some a => [a] | None => [] end ++ file_addrs addr_of rest.
  Proof. reflexivity. Qed.

  Lemma in_file_addrs a fs :
    In a (file_addrs addr_of fs) <-> exists f, In f fs /\ addr_of f = Some a.
  Proof.
    unfold file_addrs. rewrite in_flat_map. split.
    - intros [f [Hf H]]. exists f. split; auto.
      destruct (addr_of f); [|destruct H]. destruct H as [->|[]]. reflexivity.
    - intros [f [Hf H]]. exists f. split; auto. rewrite H. left; reflexivity.
  Qed.

  Lemma file_addrs_incl fs1 fs2 :
    incl fs1 fs2 -> incl (file_addrs addr_of fs1) (file_addrs addr_of fs2).
  Proof.
    intros Hi a Ha. apply in_file_addrs in Ha. destruct Ha as [f [Hf Ha]].
    apply in_file_addrs. exists f. split; auto.
  Qed.

  (* ---------- the loop of notifyNewFiles ---------- *)

  Lemma scan_spec : forall listing m al new m' al' new',
    scan addr_of listing m al new = (m', al', new') ->
    exists added,
      new' = new ++ added /\ al' = al ++ added /\
      (forall a, In a added -> In a (file_addrs addr_of listing)) /\
      (coupled m al -> NoDup al ->
         coupled m' al' /\ NoDup al' /\
         forall a, In a (file_addrs addr_of listing) -> In a al').
  Proof.
    induction listing as [|f rest IH]; intros m al new m' al' new' H.
    - cbn [scan] in H. inversion H; subst. exists []. rewrite !app_nil_r.
      split; [reflexivity|]. split; [reflexivity|]. split; [intros a []|].
      intros Hc Hnd. split; [exact Hc|]. split; [exact Hnd|]. intros a [].
    - rewrite file_addrs_cons. cbn [scan] in H. destruct (addr_of f) as [a|] eqn:Ea.
      + destruct (lookup a m) as [f'|] eqn:El.
        * assert (Hcase : exists m1, scan addr_of rest m1 al new = (m', al', new') /\
                                     (coupled m al -> coupled m1 al)).
          { destruct (N.eqb f' f).
            - exists m. split; auto.
            - exists (set_map a f m). split; auto. apply coupled_set_known.
              rewrite El; discriminate. }
          destruct Hcase as [m1 [H1 Hc1]].
          destruct (IH _ _ _ _ _ _ H1) as [added [Hn [Ha [Hsrc Hinv]]]].
          exists added. split; [exact Hn|]. split; [exact Ha|]. split.
          -- intros b Hb. apply in_app_iff. right. apply Hsrc; exact Hb.
          -- intros Hc Hnd. destruct (Hinv (Hc1 Hc) Hnd) as [Hc' [Hnd' Hcov]].
             split; [exact Hc'|]. split; [exact Hnd'|].
             intros b Hb. apply in_app_iff in Hb. destruct Hb as [[<-|[]]|Hb].
             ++ subst al'. apply in_app_iff. left. apply Hc. rewrite El; discriminate.
             ++ apply Hcov; exact Hb.
        * destruct (IH _ _ _ _ _ _ H) as [added [Hn [Ha [Hsrc Hinv]]]].
          exists (a :: added).
          split; [rewrite Hn, <- app_assoc; reflexivity|].
          split; [rewrite Ha, <- app_assoc; reflexivity|]. split.
          -- intros b [<-|Hb]; apply in_app_iff; [left; left; reflexivity|right; apply Hsrc; exact Hb].
          -- intros Hc Hnd.
             assert (Hnin : ~ In a al).
             { intros Hin. apply Hc in Hin. apply Hin; exact El. }
             destruct (Hinv (coupled_set_new a f m al Hc) (NoDup_snoc al a Hnd Hnin))
               as [Hc' [Hnd' Hcov]].
             split; [exact Hc'|]. split; [exact Hnd'|].
             intros b Hb. apply in_app_iff in Hb. destruct Hb as [[<-|[]]|Hb].
             ++ subst al'. apply in_app_iff. left. apply in_app_iff. right. left. reflexivity.
             ++ apply Hcov; exact Hb.
      + destruct (IH _ _ _ _ _ _ H) as [added [Hn [Ha [Hsrc Hinv]]]].
        exists added. split; [exact Hn|]. split; [exact Ha|]. split.
        * intros b Hb. cbn [app]. apply Hsrc; exact Hb.
        * intros Hc Hnd. destruct (Hinv Hc Hnd) as [Hc' [Hnd' Hcov]].
          split; [exact Hc'|]. split; [exact Hnd'|]. intros b Hb. cbn [app] in Hb. apply Hcov; exact Hb.
  Qed.

  Lemma nnf_spec listing s :
    exists m' added,
      notify_new_files addr_of listing s =
        mkState (files s) m' (addrList s ++ added) (listeners s)
                (notifiers s ++ [mkNotifier (listeners s) (sends (listeners s) added)]) (log s) /\
      (forall a, In a added -> In a (file_addrs addr_of listing)) /\
      (coupled (fileMap s) (addrList s) -> NoDup (addrList s) ->
         coupled m' (addrList s ++ added) /\ NoDup (addrList s ++ added) /\
         forall a, In a (file_addrs addr_of listing) -> In a (addrList s ++ added)).
  Proof.
    unfold notify_new_files.
    destruct (scan addr_of listing (fileMap s) (addrList s) []) as [[m' al'] new'] eqn:E.
    destruct (scan_spec _ _ _ _ _ _ _ E) as [added [Hn [Ha [Hsrc Hinv]]]].
    cbn [app] in Hn. subst. exists m', added. auto.
  Qed.

  (* ---------- classification of the atomic steps ---------- *)

  Inductive step_kind (s s' : state) : Prop :=
  | SK_silent :
      fileMap s' = fileMap s -> addrList s' = addrList s -> listeners s' = listeners s ->
      notifiers s' = notifiers s -> log s' = log s -> incl (files s) (files s') ->
      step_kind s s'
  | SK_nnf listing m' added :
      incl listing (files s) ->
      s' = mkState (files s) m' (addrList s ++ added) (listeners s)
             (notifiers s ++ [mkNotifier (listeners s) (sends (listeners s) added)]) (log s) ->
      (forall a, In a added -> In a (file_addrs addr_of listing)) ->
      (coupled (fileMap s) (addrList s) -> NoDup (addrList s) ->
         coupled m' (addrList s ++ added) /\ NoDup (addrList s ++ added) /\
         forall a, In a (file_addrs addr_of listing) -> In a (addrList s ++ added)) ->
      step_kind s s'
  | SK_listen l :
      ~ In l (listeners s) ->
      s' = mkState (files s) (fileMap s) (addrList s) (listeners s ++ [l]) (notifiers s) (log s) ->
      step_kind s s'
  | SK_send g ns' x :
      send_nth g (notifiers s) = Some (ns', x) ->
      s' = mkState (files s) (fileMap s) (addrList s) (listeners s) ns' (log s ++ [x]) ->
      step_kind s s'.

  Lemma silent_refl s : step_kind s s.
  Proof. apply SK_silent; auto. apply incl_refl. Qed.

  Lemma step_cases s o : valid s o -> step_kind s (apply addr_of s o).
  Proof.
    intros Hv. destruct o as [f|f|listing|l| |g]; cbn [apply valid] in *.
    - apply SK_silent; auto. cbn [files]. apply incl_appl, incl_refl.
    - destruct (nnf_spec [f] s) as [m' [added [Heq [Hsrc Hinv]]]]. rewrite Heq.
      eapply (SK_nnf _ _ [f]); eauto. intros x [<-|[]]. exact Hv.
    - destruct listing as [|f0 rest]; [apply silent_refl|].
      destruct (nnf_spec (f0 :: rest) s) as [m' [added [Heq [Hsrc Hinv]]]]. rewrite Heq.
      eapply (SK_nnf _ _ (f0 :: rest)); eauto.
    - eapply SK_listen; eauto.
    - apply silent_refl.
    - destruct (send_nth g (notifiers s)) as [[ns' x]|] eqn:E; [|apply silent_refl].
      eapply SK_send; eauto.
  Qed.

  Lemma run_invariant (P : state -> Prop) :
    (forall s s', P s -> step_kind s s' -> P s') ->
    forall ops s, P s -> valid_seq addr_of s ops -> P (run addr_of s ops).
  Proof.
    intros Hstep. induction ops as [|o t IH]; intros s Hp Hv; cbn [run]; auto.
    cbn [valid_seq] in Hv. destruct Hv as [Hv1 Hv2]. apply IH; auto.
    eapply Hstep; eauto. apply step_cases; exact Hv1.
  Qed.

  (* ---------- the main invariant ---------- *)

  Definition WF (s : state) : Prop :=
    coupled (fileMap s) (addrList s) /\
    NoDup (addrList s) /\
    incl (addrList s) (file_addrs addr_of (files s)) /\
    (forall l a, In (l, a) (log s ++ pending s) -> In l (listeners s) /\ In a (addrList s)).

  Lemma WF_init ls : WF (init ls).
  Proof.
    unfold WF, init, pending; cbn. split; [|split; [|split]].
    - intros a. split; [intros []|]. intros H. apply H. reflexivity.
    - constructor.
    - intros a [].
    - intros l a [].
  Qed.

  Lemma WF_step s s' : WF s -> step_kind s s' -> WF s'.
  Proof.
    intros [Hc [Hnd [Hsnd Hdel]]] Hk. unfold pending in Hdel.
    destruct Hk as [E1 E2 E3 E4 E5 Hf | listing m' added Hl -> Hsrc Hinv | l Hl -> | g ns' x Hs ->];
      unfold WF, pending.
    - rewrite E1, E2, E3, E4, E5. split; [|split; [|split]]; auto.
      eapply incl_tran; [exact Hsnd|]. apply file_addrs_incl; exact Hf.
    - cbn [files fileMap addrList listeners notifiers log].
      destruct (Hinv Hc Hnd) as [Hc' [Hnd' Hcov]]. split; [|split; [|split]]; auto.
      + intros a Ha. apply in_app_iff in Ha. destruct Ha as [Ha|Ha].
        * apply Hsnd; exact Ha.
        * apply (file_addrs_incl listing); [exact Hl|]. apply Hsrc; exact Ha.
      + intros l a Hin. rewrite pending_snoc in Hin. cbn [n_remaining] in Hin.
        rewrite app_assoc in Hin. apply in_app_iff in Hin. destruct Hin as [Hin|Hin].
        * destruct (Hdel _ _ Hin). split; [assumption|apply in_app_iff; auto].
        * apply in_sends in Hin. destruct Hin. split; [assumption|apply in_app_iff; auto].
    - cbn [files fileMap addrList listeners notifiers log]. split; [|split; [|split]]; auto.
      intros l0 a Hin. destruct (Hdel _ _ Hin). split; [apply in_app_iff; auto|assumption].
    - cbn [files fileMap addrList listeners notifiers log]. split; [|split; [|split]]; auto.
      intros l a Hin. apply Hdel.
      eapply Permutation_in; [eapply send_perm_full; exact Hs|exact Hin].
  Qed.

  Lemma WF_run ops : forall s, WF s -> valid_seq addr_of s ops -> WF (run addr_of s ops).
  Proof. apply (run_invariant WF). exact WF_step. Qed.

  Lemma WF_reach ls ops : valid_seq addr_of (init ls) ops -> WF (run addr_of (init ls) ops).
  Proof. apply WF_run, WF_init. Qed.

  (* no listener and no pair twice *)
  Definition WF2 (s : state) : Prop :=
    NoDup (listeners s) /\ NoDup (log s ++ pending s).

  Lemma WF2_step s s' : WF s /\ WF2 s -> step_kind s s' -> WF s' /\ WF2 s'.
  Proof.
    intros [Hwf [Hl Hp]] Hk. split; [eapply WF_step; eauto|].
    destruct Hwf as [Hc [Hnd [Hsnd Hdel]]]. unfold pending in Hdel, Hp.
    destruct Hk as [E1 E2 E3 E4 E5 Hf | listing m' added Hli -> Hsrc Hinv | l Hnl -> | g ns' x Hs ->];
      unfold WF2, pending.
    - rewrite E3, E4, E5. auto.
    - cbn [listeners notifiers log]. split; [exact Hl|].
      destruct (Hinv Hc Hnd) as [Hc' [Hnd' Hcov]].
      rewrite pending_snoc. cbn [n_remaining]. rewrite app_assoc.
      apply NoDup_app_intro; [exact Hp| |].
      + apply NoDup_sends; [exact Hl|]. eapply NoDup_app_r; exact Hnd'.
      + intros [l a] H1 H2. apply in_sends in H2. destruct H2 as [_ H2].
        destruct (Hdel _ _ H1) as [_ H3]. eapply NoDup_app_disj; eauto.
    - cbn [listeners notifiers log]. split; [|exact Hp]. apply NoDup_snoc; auto.
    - cbn [listeners notifiers log]. split; [exact Hl|].
      eapply Permutation_NoDup; [|exact Hp]. apply Permutation_sym.
      eapply send_perm_full; exact Hs.
  Qed.

  Lemma WF2_init ls : NoDup ls -> WF2 (init ls).
  Proof. intros H. unfold WF2, init, pending; cbn. split; [exact H|constructor]. Qed.

  Lemma WF2_reach ls ops :
    NoDup ls -> valid_seq addr_of (init ls) ops -> WF2 (run addr_of (init ls) ops).
  Proof.
    intros Hls Hv.
    apply (run_invariant (fun s => WF s /\ WF2 s) WF2_step ops (init ls)); [|exact Hv].
    split; [apply WF_init|apply WF2_init; exact Hls].
  Qed.

  (* ---------- monotonicity ---------- *)

  Lemma mono_step A s s' : incl A (addrList s) -> step_kind s s' -> incl A (addrList s').
  Proof.
    intros Hi Hk.
    destruct Hk as [E1 E2 E3 E4 E5 Hf | listing m' added Hli -> Hsrc Hinv | l Hnl -> | g ns' x Hs ->];
      cbn [addrList]; auto.
    - rewrite E2; exact Hi.
    - apply incl_appl; exact Hi.
  Qed.

  Lemma mono_run s ops :
    valid_seq addr_of s ops -> incl (addrList s) (addrList (run addr_of s ops)).
  Proof.
    intros Hv. apply (run_invariant (fun s' => incl (addrList s) (addrList s'))
                        (mono_step (addrList s)) ops s); [apply incl_refl|exact Hv].
  Qed.

  Lemma files_nnf listing s : files (notify_new_files addr_of listing s) = files s.
  Proof. destruct (nnf_spec listing s) as [m' [added [Heq _]]]. rewrite Heq. reflexivity. Qed.

  Lemma files_apply s o : (forall f, o <> CreateFile f) -> files (apply addr_of s o) = files s.
  Proof.
    intros Hn. destruct o as [f|f|listing|l| |g]; cbn [apply].
    - exfalso. apply (Hn f). reflexivity.
    - apply files_nnf.
    - destruct listing; [reflexivity|apply files_nnf].
    - reflexivity.
    - reflexivity.
    - destruct (send_nth g (notifiers s)) as [[ns' x]|]; reflexivity.
  Qed.

  Lemma files_run_nocreate ops : forall s,
    (forall f, ~ In (CreateFile f) ops) -> files (run addr_of s ops) = files s.
  Proof.
    induction ops as [|o t IH]; intros s Hn; cbn [run]; [reflexivity|].
    rewrite IH.
    - apply files_apply. intros f ->. apply (Hn f). left; reflexivity.
    - intros f Hf. apply (Hn f). right; exact Hf.
  Qed.

  (* ========== Theorems ========== *)

  (* 1 *)
  Theorem no_duplicate_accounts : forall ls ops,
    valid_seq addr_of (init ls) ops -> NoDup (addrList (run addr_of (init ls) ops)).
  Proof. intros ls ops Hv. apply (WF_reach ls ops Hv). Qed.

  (* 2 *)
  Theorem at_most_once : forall ls ops,
    NoDup ls -> valid_seq addr_of (init ls) ops ->
    NoDup (listeners (run addr_of (init ls) ops)) /\
    NoDup (log (run addr_of (init ls) ops) ++ pending (run addr_of (init ls) ops)).
  Proof. intros ls ops Hls Hv. exact (WF2_reach ls ops Hls Hv). Qed.

  (* 3 *)
  Theorem delivered_sound : forall ls ops l a,
    valid_seq addr_of (init ls) ops ->
    In (l, a) (log (run addr_of (init ls) ops) ++ pending (run addr_of (init ls) ops)) ->
    In l (listeners (run addr_of (init ls) ops)) /\ In a (addrList (run addr_of (init ls) ops)).
  Proof. intros ls ops l a Hv Hin. apply (WF_reach ls ops Hv); exact Hin. Qed.

  (* 4 *)
  Definition J (A0 : list addr) (l : lid) (s : state) : Prop :=
    In l (listeners s) /\
    forall a, In a (addrList s) -> ~ In a A0 -> In (l, a) (log s ++ pending s).

  Lemma J_step A0 l s s' : J A0 l s -> step_kind s s' -> J A0 l s'.
  Proof.
    intros [Hl Hj] Hk. unfold pending in Hj.
    destruct Hk as [E1 E2 E3 E4 E5 Hf | listing m' added Hli -> Hsrc Hinv | l0 Hnl -> | g ns' x Hs ->];
      unfold J, pending.
    - rewrite E2, E3, E4, E5. auto.
    - cbn [addrList listeners notifiers log]. split; [exact Hl|].
      intros a Ha Hn. rewrite pending_snoc. cbn [n_remaining]. rewrite app_assoc.
      apply in_app_iff. apply in_app_iff in Ha. destruct Ha as [Ha|Ha].
      + left. apply Hj; auto.
      + right. apply in_sends. auto.
    - cbn [addrList listeners notifiers log]. split; [apply in_app_iff; auto|exact Hj].
    - cbn [addrList listeners notifiers log]. split; [exact Hl|].
      intros a Ha Hn. eapply Permutation_in; [apply Permutation_sym; eapply send_perm_full; exact Hs|].
      apply Hj; auto.
  Qed.

  Theorem exactly_once : forall ls ops1 ops2 l a,
    NoDup ls -> valid_seq addr_of (init ls) (ops1 ++ ops2) ->
    In l (listeners (run addr_of (init ls) ops1)) ->
    ~ In a (addrList (run addr_of (init ls) ops1)) ->
    In a (addrList (run addr_of (init ls) (ops1 ++ ops2))) ->
    quiescent (run addr_of (init ls) (ops1 ++ ops2)) ->
    count_occ pair_dec (log (run addr_of (init ls) (ops1 ++ ops2))) (l, a) = 1.
  Proof.
    intros ls ops1 ops2 l a Hls Hv Hl Hna Ha Hq.
    destruct (at_most_once ls _ Hls Hv) as [_ Hnd].
    unfold quiescent in Hq. rewrite Hq, app_nil_r in Hnd.
    apply (proj1 (NoDup_count_occ' pair_dec _) Hnd).
    apply valid_seq_app in Hv. destruct Hv as [Hv1 Hv2].
    rewrite run_app in *.
    assert (HJ : J (addrList (run addr_of (init ls) ops1)) l
                   (run addr_of (run addr_of (init ls) ops1) ops2)).
    { apply (run_invariant _ (J_step (addrList (run addr_of (init ls) ops1)) l)); [|exact Hv2].
      split; [exact Hl|]. intros b Hb Hnb. contradiction. }
    destruct HJ as [_ HJ]. specialize (HJ a Ha Hna). rewrite Hq, app_nil_r in HJ. exact HJ.
  Qed.

  (* 5 *)
  Definition K (A1 : list addr) (l : lid) (s : state) : Prop :=
    incl A1 (addrList s) /\ forall a, In (l, a) (log s ++ pending s) -> ~ In a A1.

  Lemma K_step A1 l s s' : WF s /\ K A1 l s -> step_kind s s' -> WF s' /\ K A1 l s'.
  Proof.
    intros [Hwf [Hi Hk]] Hst. split; [eapply WF_step; eauto|].
    split; [eapply mono_step; eauto|].
    destruct Hwf as [Hc [Hnd [Hsnd Hdel]]]. unfold pending in Hk.
    destruct Hst as [E1 E2 E3 E4 E5 Hf | listing m' added Hli -> Hsrc Hinv | l0 Hnl -> | g ns' x Hs ->];
      unfold pending.
    - rewrite E4, E5. exact Hk.
    - cbn [notifiers log]. intros a Hin. rewrite pending_snoc in Hin. cbn [n_remaining] in Hin.
      rewrite app_assoc in Hin. apply in_app_iff in Hin. destruct Hin as [Hin|Hin].
      + apply Hk; exact Hin.
      + apply in_sends in Hin. destruct Hin as [_ Hin]. intros HA.
        destruct (Hinv Hc Hnd) as [_ [Hnd' _]].
        eapply NoDup_app_disj; [exact Hnd'|apply Hi; exact HA|exact Hin].
    - cbn [notifiers log]. exact Hk.
    - cbn [notifiers log]. intros a Hin. apply Hk.
      eapply Permutation_in; [eapply send_perm_full; exact Hs|exact Hin].
  Qed.

  Theorem not_notified_of_older : forall ls ops1 ops2 l a,
    valid_seq addr_of (init ls) (ops1 ++ AddListener l :: ops2) ->
    In a (addrList (run addr_of (init ls) ops1)) ->
    ~ In (l, a) (log (run addr_of (init ls) (ops1 ++ AddListener l :: ops2)) ++
                 pending (run addr_of (init ls) (ops1 ++ AddListener l :: ops2))).
  Proof.
    intros ls ops1 ops2 l a Hv Ha.
    apply valid_seq_app in Hv. destruct Hv as [Hv1 Hv2].
    cbn [valid_seq valid] in Hv2. destruct Hv2 as [Hnl Hv2].
    rewrite run_app. cbn [run].
    pose proof (WF_reach ls ops1 Hv1) as Hwf1.
    set (s1 := run addr_of (init ls) ops1) in *.
    assert (HK : WF (run addr_of (apply addr_of s1 (AddListener l)) ops2) /\
                 K (addrList s1) l (run addr_of (apply addr_of s1 (AddListener l)) ops2)).
    { apply (run_invariant _ (K_step (addrList s1) l)); [|exact Hv2]. split.
      - eapply WF_step; [exact Hwf1|]. apply step_cases. exact Hnl.
      - split; [cbn [apply addrList]; apply incl_refl|].
        intros b Hb _. apply Hnl.
        destruct Hwf1 as [_ [_ [_ Hdel]]]. apply (Hdel l b). exact Hb. }
    destruct HK as [_ [_ HK]]. intros Hin. exact (HK a Hin Ha).
  Qed.

  (* 6 *)
  Theorem accounts_sound : forall ls ops,
    valid_seq addr_of (init ls) ops ->
    incl (addrList (run addr_of (init ls) ops))
         (file_addrs addr_of (files (run addr_of (init ls) ops))).
  Proof. intros ls ops Hv. apply (WF_reach ls ops Hv). Qed.

  (* after notifyNewFiles over [listing] every address of a listed file is an account *)
  Lemma nnf_covers listing s a :
    WF s -> In a (file_addrs addr_of listing) ->
    In a (addrList (notify_new_files addr_of listing s)).
  Proof.
    intros [Hc [Hnd _]] Ha. destruct (nnf_spec listing s) as [m' [added [Heq [_ Hinv]]]].
    rewrite Heq. cbn [addrList]. apply (Hinv Hc Hnd). exact Ha.
  Qed.

  (* 7 *)
  Theorem converges : forall ls ops listing ops',
    valid_seq addr_of (init ls) (ops ++ Refresh listing :: ops') ->
    incl (files (run addr_of (init ls) ops)) listing ->
    (forall f, ~ In (CreateFile f) ops') ->
    forall a,
      In a (addrList (run addr_of (init ls) (ops ++ Refresh listing :: ops'))) <->
      In a (file_addrs addr_of (files (run addr_of (init ls) (ops ++ Refresh listing :: ops')))).
  Proof.
    intros ls ops listing ops' Hv Hincl Hnc a. split.
    - apply (accounts_sound ls _ Hv).
    - apply valid_seq_app in Hv. destruct Hv as [Hv0 Hv1].
      cbn [valid_seq] in Hv1. destruct Hv1 as [Hvr Hv1].
      rewrite run_app. cbn [run].
      pose proof (WF_reach ls ops Hv0) as Hwf0.
      set (s0 := run addr_of (init ls) ops) in *.
      rewrite (files_run_nocreate ops' _ Hnc).
      rewrite files_apply by (intros f; discriminate).
      intros Ha. apply (mono_run _ _ Hv1).
      apply (file_addrs_incl _ _ Hincl) in Ha.
      destruct listing as [|f0 rest]; [destruct Ha|].
      cbn [apply]. apply nnf_covers; assumption.
  Qed.

  (* 8 *)
  Theorem converges_by_events : forall ls ops,
    valid_seq addr_of (init ls) ops ->
    (forall f, In f (files (run addr_of (init ls) ops)) ->
               exists pre post, ops = pre ++ FsEvent f :: post) ->
    forall a,
      In a (addrList (run addr_of (init ls) ops)) <->
      In a (file_addrs addr_of (files (run addr_of (init ls) ops))).
  Proof.
    intros ls ops Hv Hev a. split.
    - apply (accounts_sound ls _ Hv).
    - intros Ha. apply in_file_addrs in Ha. destruct Ha as [f [Hf Hae]].
      destruct (Hev f Hf) as [pre [post Heq]]. clear Hev Hf. subst ops.
      apply valid_seq_app in Hv. destruct Hv as [Hv0 Hv1].
      cbn [valid_seq] in Hv1. destruct Hv1 as [_ Hv1].
      rewrite run_app. cbn [run]. apply (mono_run _ _ Hv1).
      cbn [apply]. apply nnf_covers; [apply WF_reach; exact Hv0|].
      apply in_file_addrs. exists f. split; [left; reflexivity|exact Hae].
  Qed.

  (* 9 *)
  Lemma valid_sends sds :
    (forall o, In o sds -> exists g, o = NotifierSend g) -> forall s, valid_seq addr_of s sds.
  Proof.
    induction sds as [|o t IH]; intros H s; cbn [valid_seq]; [exact I|]. split.
    - destruct (H o) as [g ->]; [left; reflexivity|exact I].
    - apply IH. intros o' Ho'. apply H. right; exact Ho'.
  Qed.

  Lemma drain_exists : forall n s, length (pending s) = n ->
    exists sds, (forall o, In o sds -> exists g, o = NotifierSend g) /\
                quiescent (run addr_of s sds) /\ addrList (run addr_of s sds) = addrList s.
  Proof.
    induction n as [|n IH]; intros s Hl.
    - exists []. split; [intros o []|]. split; [|reflexivity].
      unfold quiescent. cbn [run]. apply length_zero_iff_nil; exact Hl.
    - destruct (pending_nonempty_send (notifiers s)) as [g [ns' [x Hs]]].
      { intros H. unfold pending in Hl. rewrite H in Hl. discriminate. }
      assert (Hap : apply addr_of s (NotifierSend g) =
                    mkState (files s) (fileMap s) (addrList s) (listeners s) ns' (log s ++ [x])).
      { cbn [apply]. rewrite Hs. reflexivity. }
      assert (Hl' : length (pending (apply addr_of s (NotifierSend g))) = n).
      { rewrite Hap. unfold pending in *. cbn [notifiers].
        pose proof (Permutation_length (send_nth_perm _ _ _ _ Hs)) as Hp.
        cbn [length] in Hp. rewrite Hl in Hp. injection Hp as Hp. exact Hp. }
      destruct (IH _ Hl') as [sds [Hall [Hq Ha]]].
      exists (NotifierSend g :: sds). split.
      + intros o [<-|Ho]; eauto.
      + cbn [run]. split; [exact Hq|]. rewrite Ha, Hap. reflexivity.
  Qed.

  Theorem quiescence_reachable : forall ls ops,
    valid_seq addr_of (init ls) ops ->
    exists sds,
      (forall o, In o sds -> exists g, o = NotifierSend g) /\
      valid_seq addr_of (init ls) (ops ++ sds) /\
      quiescent (run addr_of (init ls) (ops ++ sds)) /\
      addrList (run addr_of (init ls) (ops ++ sds)) = addrList (run addr_of (init ls) ops).
  Proof.
    intros ls ops Hv.
    destruct (drain_exists _ (run addr_of (init ls) ops) eq_refl) as [sds [Hall [Hq Ha]]].
    exists sds. split; [exact Hall|]. split.
    - apply valid_seq_app. split; [exact Hv|]. apply valid_sends; exact Hall.
    - rewrite run_app. split; assumption.
  Qed.

End Proofs.

(* ========== 10. Non-vacuity: a concrete history satisfying the hypotheses ========== *)

(* file 2 matches no address; any other file f stands for address f / 10 *)
Definition ex_addr_of (f : fid) : option addr :=
  if N.eqb f 2 then None else Some (f / 10)%N.

(* one initial listener (100); file 10 is discovered by an fs event and delivered; then listener
   101 is added *)
Definition ex_ops1 : list op :=
  [CreateFile 10%N; FsEvent 10%N; NotifierSend 0; AddListener 101%N].

(* file 11 (same address 1 as file 10), the non-matching file 2 and file 30 (address 3) appear *)
Definition ex_creates : list op := [CreateFile 11%N; CreateFile 2%N; CreateFile 30%N].

Definition ex_listing : list fid := [30%N; 11%N; 2%N; 10%N].

(* after the Refresh: an fs event for file 11, all sends performed, GetAccounts *)
Definition ex_after : list op :=
  [FsEvent 11%N; NotifierSend 1; NotifierSend 1; GetAccounts].

Definition ex_ops2 : list op := ex_creates ++ Refresh ex_listing :: ex_after.

Notation ex_final := (run ex_addr_of (init [100%N]) (ex_ops1 ++ ex_ops2)) (only parsing).

Ltac ex_solve := cbv; intuition (try discriminate; subst; auto 10).

Example ex_valid : valid_seq ex_addr_of (init [100%N]) (ex_ops1 ++ ex_ops2).
Proof. ex_solve. Qed.

Example ex_quiescent : quiescent ex_final.
Proof. reflexivity. Qed.

Example ex_addrList : addrList ex_final = [1%N; 3%N].
Proof. reflexivity. Qed.

Example ex_log : log ex_final = [(100%N, 1%N); (100%N, 3%N); (101%N, 3%N)].
Proof. reflexivity. Qed.

Example ex_files : files ex_final = [10%N; 11%N; 2%N; 30%N].
Proof. reflexivity. Qed.

Example ex_file_addrs : file_addrs ex_addr_of (files ex_final) = [1%N; 1%N; 3%N].
Proof. reflexivity. Qed.

(* hypotheses of [exactly_once] hold for the later listener 101 and the later address 3 *)
Example ex_exactly_once_hyps :
  NoDup [100%N] /\
  In 101%N (listeners (run ex_addr_of (init [100%N]) ex_ops1)) /\
  ~ In 3%N (addrList (run ex_addr_of (init [100%N]) ex_ops1)) /\
  In 3%N (addrList ex_final).
Proof. split; [repeat constructor; intros []|]. ex_solve. Qed.

Example ex_exactly_once : count_occ pair_dec (log ex_final) (101%N, 3%N) = 1.
Proof.
  destruct ex_exactly_once_hyps as [H1 [H2 [H3 H4]]].
  exact (exactly_once ex_addr_of [100%N] ex_ops1 ex_ops2 101%N 3%N
           H1 ex_valid H2 H3 H4 ex_quiescent).
Qed.

(* listener 101 was added after address 1 was known: never notified of it *)
Example ex_not_older : ~ In (101%N, 1%N) (log ex_final ++ pending ex_final).
Proof. ex_solve. Qed.

(* hypotheses of [converges] hold for the Refresh of the example *)
Example ex_converges_hyps :
  incl (files (run ex_addr_of (init [100%N]) (ex_ops1 ++ ex_creates))) ex_listing /\
  (forall f, ~ In (CreateFile f) ex_after).
Proof. ex_solve. Qed.

Example ex_converges : forall a,
  In a (addrList ex_final) <-> In a (file_addrs ex_addr_of (files ex_final)).
Proof.
  destruct ex_converges_hyps as [H1 H2].
  assert (E : ex_ops1 ++ ex_ops2 = (ex_ops1 ++ ex_creates) ++ Refresh ex_listing :: ex_after)
    by reflexivity.
  rewrite E.
  apply (converges ex_addr_of [100%N] (ex_ops1 ++ ex_creates) ex_listing ex_after); [|exact H1|exact H2].
  rewrite <- E. exact ex_valid.
Qed.
