(* C17 (wave 6) — [NotifyConverge] combined with the checks on the translated source, as in
   NotifyConform.v: the lock discipline is DERIVED from steps_atomic_ok + covers_ok; and a
   non-vacuity example. *)
From Coq Require Import List NArith Bool Arith Lia Permutation String.
From FFS Require Import Conc.Lockset Conc.LocksetProofs Conc.Atomic Conc.AtomicProofs Gen.FsWalletSync Conc.FsWallet
  Conc.FsWalletAtomic Conc.Reduction Conc.PathFind Wallet.Notify Wallet.NotifyProofs Wallet.NotifyRefine
  Wallet.NotifyConform Wallet.NotifyConverge.
Import ListNotations.
Open Scope list_scope.

Theorem translated_fine_grained_events : forall p fuel,
  steps_atomic_ok p fuel = true -> covers_ok p fuel = true ->
  forall addr_of ls thr sch sn,
    wallet_threads addr_of thr ->
    Reduction.exec wcfg wstep (wallet_init ls thr) sch sn -> c_holder _ _ _ _ _ _ sn = None ->
    exists ops,
      run addr_of (init ls) ops = abs (c_p _ _ _ _ _ _ sn, c_e _ _ _ _ _ _ sn) /\
      (NoDup (pls (c_p _ _ _ _ _ _ sn)) -> valid_seq addr_of (init ls) ops) /\
      forall u f o, nth_error thr u = Some (event_code addr_of f) ->
        nth_error (c_thr _ _ _ _ _ _ sn) u = Some (Done o) ->
        exists pre mid post, ops = pre ++ mid ++ post /\
          run addr_of (run addr_of (init ls) pre) mid = apply addr_of (run addr_of (init ls) pre) (FsEvent f).
Proof.
  intros p fuel Hok Hcov addr_of ls thr sch sn Hthr He Hfin.
  apply (fine_grained_refines_events addr_of ls thr sch sn Hthr); auto.
  intros c Hc. apply (discipline_from_atomic p fuel c Hok).
  - exact (tcode_conforms addr_of p fuel Hcov [] c (Hthr c Hc)).
  - apply (tcode_shape addr_of []). apply Hthr. exact Hc.
Qed.

Theorem translated_fine_grained_converges : forall p fuel,
  steps_atomic_ok p fuel = true -> covers_ok p fuel = true ->
  forall addr_of ls thr sch sn,
    wallet_threads addr_of thr ->
    Reduction.exec wcfg wstep (wallet_init ls thr) sch sn -> c_holder _ _ _ _ _ _ sn = None ->
    NoDup (pls (c_p _ _ _ _ _ _ sn)) ->
    let P := c_p _ _ _ _ _ _ sn in let E := c_e _ _ _ _ _ _ sn in
    (forall f a, In f (ef E) -> addr_of f = Some a ->
       exists u o, nth_error thr u = Some (event_code addr_of f) /\
                   nth_error (c_thr _ _ _ _ _ _ sn) u = Some (Done o)) ->
    forall a, In a (pl P) <-> In a (file_addrs addr_of (ef E)).
Proof.
  intros p fuel Hok Hcov addr_of ls thr sch sn Hthr He Hfin Hnd.
  apply (fine_grained_converges_by_events addr_of ls thr sch sn Hthr); auto.
  intros c Hc. apply (discipline_from_atomic p fuel c Hok).
  - exact (tcode_conforms addr_of p fuel Hcov [] c (Hthr c Hc)).
  - apply (tcode_shape addr_of []). apply Hthr. exact Hc.
Qed.

(* non-vacuity: a file appears, its event is handled; plus a second system in which the event
   thread has NOT run: the premise fails and so does the conclusion (the premise is needed) *)
Definition cv_addr (f : fid) : option addr := Some f.
Definition cv_thr : list wcode := [creator 3%N; event_code cv_addr 3%N].
Definition cv_final : wcfg :=
  mkCfg prot env choice (list addr) outa ina
        (mkP [(3%N, 3%N)] [3%N] [100%N])
        (mkE [3%N] [mkNotifier [100%N] [(100%N, 3%N)]] []) None [Done []; Done []].
Definition cv_sched : list nat := [0; 1; 1; 1; 1; 1; 1; 1; 1; 1; 1].

Ltac cv_step := eapply E_cons; [do 5 eexists; split; [reflexivity|]; split; [constructor|reflexivity]|]; cbn.

Lemma cv_exec : Reduction.exec wcfg wstep (wallet_init [100%N] cv_thr) cv_sched cv_final.
Proof.
  unfold wallet_init, cv_thr, cv_sched, creator, event_code.
  eapply E_cons.
  { do 5 eexists. split; [reflexivity|]. split; [|reflexivity].
    eapply TS_out with (x := ([], 0)). cbn. intros []. }
  cbn.
  eapply E_cons.
  { do 5 eexists. split; [reflexivity|]. split; [|reflexivity].
    eapply TS_out with (x := ([], 0)). cbn. left. reflexivity. }
  cbn.
  do 9 cv_step.
  apply E_nil.
Qed.

Lemma cv_threads : wallet_threads cv_addr cv_thr.
Proof. intros c [<-|[<-|[]]]; constructor. Qed.

Lemma cv_premise :
  forall f a, In f (ef (c_e _ _ _ _ _ _ cv_final)) -> cv_addr f = Some a ->
    exists u o, nth_error cv_thr u = Some (event_code cv_addr f) /\
                nth_error (c_thr _ _ _ _ _ _ cv_final) u = Some (Done o).
Proof.
  intros f a [<-|[]] _. exists 1, []. split; reflexivity.
Qed.

(* the event not handled: the file is there, the account list is empty *)
Definition cv_thr2 : list wcode := [creator 3%N; event_code cv_addr 3%N].
Definition cv_mid : wcfg :=
  mkCfg prot env choice (list addr) outa ina (mkP [] [] [100%N]) (mkE [3%N] [] []) None
        [Done []; event_code cv_addr 3%N].

Lemma cv_exec2 : Reduction.exec wcfg wstep (wallet_init [100%N] cv_thr2) [0] cv_mid.
Proof.
  unfold wallet_init, cv_thr2, creator.
  eapply E_cons.
  { do 5 eexists. split; [reflexivity|]. split; [|reflexivity].
    eapply TS_out with (x := ([], 0)). cbn. intros []. }
  apply E_nil.
Qed.

Lemma cv_needed :
  ~ (forall a, In a (pl (c_p _ _ _ _ _ _ cv_mid)) <-> In a (file_addrs cv_addr (ef (c_e _ _ _ _ _ _ cv_mid)))).
Proof. intros H. destruct (proj2 (H 3%N)). left. reflexivity. Qed.
