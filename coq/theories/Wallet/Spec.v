(* Independent statement of what property C08 refers to, written from the property text and the
   documentation of the configuration keys, sharing no code with Wallet/Model.v:

   - which text names an address ("[0x] followed by exactly 40 hexadecimal digits"),
   - the configured naming rule for key files (extension rule, capture-group rule),
   - the account list a directory listing must produce (first occurrences, no duplicates). *)
From Coq Require Import String.
From Coq Require Import List NArith Lia Bool Arith.
From Coq Require Import Init.Byte.
From FFS Require Import Base.Res Base.Bytes.
Import ListNotations.
Open Scope N_scope.

(* value of one hexadecimal digit character, either case *)
Definition digit_value (b : byte) : option N :=
  let n := b2n b in
  if (n <? 48) then None
  else if (n <? 58) then Some (n - 48)          (* 0-9 *)
  else if (n <? 65) then None
  else if (n <? 71) then Some (n - 65 + 10)     (* A-F *)
  else if (n <? 97) then None
  else if (n <? 103) then Some (n - 97 + 10)    (* a-f *)
  else None.

Definition is_hex_digit (b : byte) : bool :=
  match digit_value b with Some _ => true | None => false end.

(* the bytes denoted by an even-length run of hex digits (digits assumed valid) *)
Fixpoint bytes_of_digits (d : bytes) : bytes :=
  match d with
  | hi :: lo :: rest =>
      match digit_value hi, digit_value lo with
      | Some h, Some l => n2b (h * 16 + l) :: bytes_of_digits rest
      | _, _ => []
      end
  | _ => []
  end.

(* text naming an address: optional "0x", then exactly 40 hex digits *)
Definition strip_0x (s : bytes) : bytes :=
  match s with
  | a :: b :: rest => if (b2n a =? 48) && (b2n b =? 120) then rest else s
  | _ => s
  end.

Definition addr_of_text (s : bytes) : option bytes :=
  let d := strip_0x s in
  if (length d =? 40)%nat && forallb is_hex_digit d then Some (bytes_of_digits d) else None.

(* the naming rule: either "address text followed by the configured extension", or "the regular
   expression matches and its first capture group is address text" (the regular expression engine is a
   parameter: find name = None when there is no match, otherwise the list of groups, group 0 first) *)
Inductive rule :=
| RExt (ext : bytes)
| RRegex (find : bytes -> option (list bytes)).

Definition split_ext (ext name : bytes) : option bytes :=
  let n := length name in
  let e := length ext in
  if (e <=? n)%nat && bytes_eqb (skipn (n - e) name) ext then Some (firstn (n - e) name) else None.

Definition name_address (r : rule) (name : bytes) : option bytes :=
  match r with
  | RExt ext => match split_ext ext name with Some stem => addr_of_text stem | None => None end
  | RRegex find => match find name with
                   | Some (_ :: g :: _) => addr_of_text g
                   | _ => None
                   end
  end.

(* addresses named by the regular files of a listing, in listing order *)
Definition spec_matches (r : rule) (listing : list (bytes * bool)) : list bytes :=
  flat_map (fun f : bytes * bool => if snd f then [] else match name_address r (fst f) with Some a => [a] | None => [] end) listing.

Definition mem (x : bytes) (l : list bytes) : bool := existsb (bytes_eqb x) l.

(* first occurrences only *)
Definition dedup (l : list bytes) : list bytes :=
  fold_left (fun acc x => if mem x acc then acc else acc ++ [x]) l [].

Definition spec_accounts (r : rule) (listing : list (bytes * bool)) : list bytes :=
  dedup (spec_matches r listing).

(* the password that opens a key: the key's own password file (named by the extension rule or by the
   metadata) when it can be read, otherwise the default password file; white space is trimmed from
   whichever file is used exactly when trimming is configured.  [readfile] is the file system,
   [trim_space] the trimming function, an empty [pwfile] / [dflt] means "none configured". *)
Definition spec_password (readfile : bytes -> res bytes) (trim : bool) (trim_space : bytes -> bytes)
           (pwfile dflt : bytes) : option bytes :=
  let t := fun p => if trim then trim_space p else p in
  let own := if bytes_eqb pwfile [] then None
             else match readfile pwfile with Ok p => Some p | _ => None end in
  match own with
  | Some p => Some (t p)
  | None => if bytes_eqb dflt [] then None
            else match readfile dflt with Ok p => Some (t p) | _ => None end
  end.

(* the regular file of a listing that backs an address: the last one whose name names it *)
Definition backing (r : rule) (listing : list (bytes * bool)) (a : bytes) (init : option bytes) : option bytes :=
  fold_left (fun acc f => if (snd f : bool) then acc
                          else match name_address r (fst f) with
                               | Some a' => if bytes_eqb a' a then Some (fst f) else acc
                               | None => acc
                               end) listing init.
