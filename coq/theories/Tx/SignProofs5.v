(* Proofs for C01, part 5 (round 5): the remaining guards.

   A. Exact lengths of RLP encodings ([enc_list_len_exact], [enc_str_len_exact]) and their
      monotonicity give: the bytes a mode returns for a 27/28 signature are at least as long as the
      payload it signed ([out_ge_payload]).  Hence "payload shorter than 2^64 bytes" follows from
      "output shorter than 2^64 bytes", and the wire-format theorem needs one size guard where it
      had two ([sign_wire_format_one_guard]).

   B. [recover_sign] (sign, then recover, for an arbitrary signer) with guards on the inputs only:
      the transaction in the property's range ([in_range]), the chain id below 2^61, and R, S of
      the signer's answer below 2^256 - the output length guard is derived
      ([recover_sign_inputs]); and the corollary for the chain ids of the property's quantifier,
      0 <= chain <= 2^53, which are below 2^61 ([recover_sign_in_quantifier]). *)
From Coq Require Import List NArith ZArith Lia Bool Arith.
From Coq Require Import ZifyN ZifyNat ZifyBool.
From Coq Require Import Init.Byte.
From FFS Require Import Base.Res Base.Bytes Crypto.Ecdsa Rlp.Model Rlp.Spec Rlp.Proofs.
From FFS Require Import Tx.Model Tx.Spec Tx.Norm Tx.SignProofs Tx.RecoverModel Tx.SignProofs2 Tx.SignProofs3 Tx.SignProofs4.
Import ListNotations.

(* ---------- A. exact lengths ---------- *)
Lemma enc_list_len_exact l :
  length (encode (Lst l)) = (hdr_len (length (flat_map encode l)) + length (flat_map encode l))%nat.
Proof.
  cbn [encode]. rewrite encode_bytes_list_eq. unfold hdr_len.
  destruct (length (flat_map encode l) <=? 55)%nat; cbn [length]; rewrite ?app_length; lia.
Qed.

Lemma enc_str_len_exact b :
  length (encode (Str b)) =
  match b with
  | [x] => if (b2n x <=? 127)%N then 1%nat else 2%nat
  | _ => (hdr_len (length b) + length b)%nat
  end.
Proof.
  cbn [encode]. unfold encode_bytes, hdr_len. destruct b as [|x [|y t]].
  - reflexivity.
  - destruct (b2n x <=? 127)%N; reflexivity.
  - destruct (length (x :: y :: t) <=? 55)%nat; cbn [length]; rewrite ?app_length; cbn [length]; lia.
Qed.

(* a list with more encoded content has the longer encoding *)
Lemma enc_list_len_mono l1 l2 :
  (length (flat_map encode l1) <= length (flat_map encode l2))%nat -> short (encode (Lst l2)) ->
  (length (encode (Lst l1)) <= length (encode (Lst l2)))%nat.
Proof.
  intros Hle Hs. unfold short in Hs. rewrite !enc_list_len_exact in *.
  pose proof (hdr_len_mono (length (flat_map encode l1)) (length (flat_map encode l2)) Hle ltac:(lia)). lia.
Qed.

Lemma of_be_single x : of_be [x] = b2n x.
Proof. rewrite of_be_cons, of_be_nil. cbn [length]. change (256 ^ N.of_nat 0)%N with 1%N. lia. Qed.

(* the integer of larger magnitude has the longer encoding *)
Lemma enc_WrapBig_mono a b :
  (Z.abs a <= Z.abs b)%Z -> (N.of_nat (length (bb b)) < 2 ^ 64)%N ->
  (length (encode (WrapBig a)) <= length (encode (WrapBig b)))%nat.
Proof.
  intros Hab Hb. rewrite !WrapBig_Str.
  assert (Hv : (of_be (bb a) <= of_be (bb b))%N) by (rewrite !of_be_bb; lia).
  pose proof (head_nz_shortest_le (bb a) (bb b) (bb_head a) Hv) as Hl.
  pose proof (encode_bytes_len_le (bb a) false) as Ua. change (encode_bytes (bb a) false) with (encode (Str (bb a))) in Ua.
  pose proof (hdr_len_mono (length (bb a)) (length (bb b)) Hl Hb) as Hm.
  rewrite (enc_str_len_exact (bb b)).
  destruct (bb b) as [|y [|y2 tb]] eqn:Eb.
  - cbn [length] in *. lia.
  - destruct (N.leb_spec (b2n y) 127) as [Hy|Hy].
    + (* b is a single byte <= 127: so is a, or a = 0 *)
      rewrite (enc_str_len_exact (bb a)). rewrite of_be_single in Hv.
      destruct (bb a) as [|x [|x2 ta]] eqn:Ea.
      * reflexivity.
      * rewrite of_be_single in Hv. destruct (N.leb_spec (b2n x) 127); lia.
      * cbn [length] in Hl. lia.
    + cbn [length] in *. assert (hdr_len 1 = 1%nat) by reflexivity. lia.
  - lia.
Qed.

Lemma enc_len_pos i : (1 <= length (encode i))%nat.
Proof.
  destruct i as [b|l].
  - rewrite enc_str_len_exact. destruct b as [|x [|y t]].
    + cbn. lia.
    + destruct (b2n x <=? 127)%N; lia.
    + pose proof (hdr_len_pos (length (x :: y :: t))). lia.
  - rewrite enc_list_len_exact. pose proof (hdr_len_pos (length (flat_map encode l))). lia.
Qed.

(* every element of a list with a short encoding has a short content *)
Lemma short_elem l x : short (encode (Lst l)) -> In x l -> (N.of_nat (length (encode x)) < 2 ^ 64)%N.
Proof.
  unfold short. intros Hs Hin. rewrite enc_list_len_exact in Hs.
  pose proof (flat_map_encode_len_ge x l Hin). lia.
Qed.

(* what a mode returns for a 27/28 signature is at least as long as the payload it signed *)
Lemma out_ge_payload m t chain v r s out :
  v_legacy v -> (0 <= chain)%Z -> finalize m t chain (v, r, s) = Ok out -> short out ->
  (length (sp_data (payload_of m t chain)) <= length out)%nat.
Proof.
  intros Hv Hc.
  assert (Orig : forall o, FinalizeLegacyOriginalWithSignature t (SignaturePayloadLegacyOriginal t) (v, r, s) = Ok o ->
            short o -> (length (sp_data (SignaturePayloadLegacyOriginal t)) <= length o)%nat).
  { intros o E Hs. apply Ok_inj in E. subst o. cbn [SignaturePayloadLegacyOriginal sp_list sp_data addSignature] in *.
    apply enc_list_len_mono; [|exact Hs]. rewrite flat_map_app, app_length. lia. }
  assert (E155 : forall o, FinalizeLegacyEIP155WithSignature t (SignaturePayloadLegacyEIP155 t chain) (v, r, s) chain = Ok o ->
            short o -> (length (sp_data (SignaturePayloadLegacyEIP155 t chain)) <= length o)%nat).
  { intros o E Hs. unfold FinalizeLegacyEIP155WithSignature in E.
    cbn [SignaturePayloadLegacyEIP155 sp_list] in E. rewrite lslice_legacy6 in E. cbn [bind UpdateEIP155] in E.
    apply Ok_inj in E. subst o. cbn [SignaturePayloadLegacyEIP155 sp_data addSignature] in *.
    apply enc_list_len_mono; [|exact Hs].
    unfold AddEIP155HashValuesToRLPList. rewrite !flat_map_app, !app_length.
    set (V := (v + chain * 2 + (35 - 27))%Z) in *.
    assert (HV : (length (encode (WrapBig chain)) <= length (encode (WrapBig V)))%nat).
    { apply enc_WrapBig_mono; [destruct Hv; subst v V; lia|].
      assert (Hin : In (WrapBig V) (BuildLegacy t ++ [WrapBig V; WrapBig r; WrapBig s]))
        by (apply in_or_app; right; left; reflexivity).
      pose proof (short_elem _ _ Hs Hin) as Hse. rewrite WrapBig_Str in Hse.
      pose proof (encode_bytes_len_ge (bb V) false). cbn [encode] in Hse. lia. }
    cbn [flat_map]. rewrite !app_length. change (length (encode (WrapBig 0))) with 1%nat.
    pose proof (enc_len_pos (WrapBig r)). pose proof (enc_len_pos (WrapBig s)). cbn [length]. lia. }
  assert (E1559 : forall o, FinalizeEIP1559WithSignature t (SignaturePayloadEIP1559 t chain) (v, r, s) = Ok o ->
            short o -> (length (sp_data (SignaturePayloadEIP1559 t chain)) <= length o)%nat).
  { intros o E Hs. unfold FinalizeEIP1559WithSignature in E. apply Ok_inj in E. subst o.
    apply short_tail in Hs. cbn [SignaturePayloadEIP1559 sp_list sp_data length] in *.
    apply le_n_S. apply enc_list_len_mono; [|exact Hs].
    destruct (UpdateEIP2930 (v, r, s)) as [[v' r'] s']. cbn [addSignature].
    rewrite flat_map_app, app_length. lia. }
  destruct m; cbn [finalize payload_of]; unfold SignaturePayload; try destruct (wants1559 t); auto.
Qed.

Lemma short_out_short_payload m t chain v r s out :
  v_legacy v -> (0 <= chain)%Z -> finalize m t chain (v, r, s) = Ok out -> short out ->
  short (sp_data (payload_of m t chain)).
Proof.
  intros Hv Hc E Hs. pose proof (out_ge_payload m t chain v r s out Hv Hc E Hs). unfold short in *. lia.
Qed.

(* The wire-format theorem with ONE size guard per outcome.  [pd] is what the model hands to the
   signer.  When the signer answers a 27/28 signature, "the returned bytes are shorter than 2^64" is
   the only size guard: it implies that [pd] is the prescribed preimage and that the bytes are the
   prescribed signed transaction.  (When the signer fails there are no returned bytes; its error is
   the result whatever the sizes, and [pd] is the preimage when it is itself shorter than 2^64.) *)
Theorem sign_wire_format_one_guard m t f chain :
  (0 <= chain)%Z ->
  let fm := format_of m t in
  let c := Z.to_N chain in
  let pre := spec_preimage fm (norm t) c in
  let pd := sp_data (payload_of m t chain) in
  (short pd -> pd = pre) /\
  match f pd with
  | Ok (v, r, s) =>
      exists out, sign_mode m t (Some f) chain = Ok out /\
        (v_legacy v -> short out ->
         pd = pre /\ out = spec_signed fm (norm t) c (y_of v) (Z.abs_N r) (Z.abs_N s))
  | Err e => sign_mode m t (Some f) chain = Err e
  | Panic => sign_mode m t (Some f) chain = Panic
  end.
Proof.
  intros Hc fm c pre pd.
  assert (Ec : Z.abs_N chain = c) by (unfold c; lia).
  assert (Hpre : short pd -> pd = pre).
  { intros Hp. pose proof (payload_is_preimage m t chain Hp) as E. rewrite Ec in E. exact E. }
  split; [exact Hpre|].
  rewrite sign_mode_unfold. fold pd.
  destruct (f pd) as [[[v r] s]|e|]; cbn [bind]; try reflexivity.
  destruct (finalize_never_fails m t chain (v, r, s)) as [out E].
  exists out. split; [exact E|]. intros Hv Hs. split.
  - apply Hpre. exact (short_out_short_payload m t chain v r s out Hv Hc E Hs).
  - rewrite <- Ec. apply finalize_is_spec; assumption.
Qed.

(* ---------- B. sign, then recover: guards on the inputs only ---------- *)
Lemma chain_small61 chain : (0 <= chain < 2 ^ 61)%Z -> (Z.abs chain < 256 ^ Z.of_nat 8)%Z.
Proof. intros H. change (256 ^ Z.of_nat 8)%Z with (2 ^ 64)%Z. lia. Qed.

(* the bounds of SignProofs4.v (section Bounds), for every chain id below 2^61 *)
Section Bounds61.
Variable t : tx.
Hypothesis R : in_range t.
Variable chain : Z.
Hypothesis Hc : (0 <= chain < 2 ^ 61)%Z.

Let dl := length (BytesNotNil (tx_data t)).

Lemma BuildLegacy_len61 : (length (flat_map encode (BuildLegacy t)) <= 202 + dl)%nat.
Proof.
  destruct R as (Ht & H1 & H2 & H3 & H4 & H5 & H6 & Hd). unfold below256, two256 in *.
  unfold BuildLegacy. cbn [flat_map]. rewrite !app_length. cbn [length].
  pose proof (enc_int_len _ 32 H1). pose proof (enc_int_len _ 32 H2). pose proof (enc_int_len _ 32 H5).
  pose proof (enc_int_len _ 32 H6). rewrite WrapAddress_Str.
  pose proof (enc_str_len (to_bytes (tx_to t))). pose proof (to_len t Ht).
  pose proof (enc_str_len (BytesNotNil (tx_data t))). unfold WrapData. fold dl in H9 |- *. lia.
Qed.

Lemma Build1559_len61 : (length (flat_map encode (Build1559 t chain)) <= 261 + dl)%nat.
Proof.
  destruct R as (Ht & H1 & H2 & H3 & H4 & H5 & H6 & Hd). unfold below256, two256 in *.
  unfold Build1559. cbn [flat_map]. rewrite !app_length.
  pose proof (enc_int_len _ 8 (chain_small61 _ Hc)).
  pose proof (enc_int_len _ 32 H1). pose proof (enc_int_len _ 32 H3). pose proof (enc_int_len _ 32 H4).
  pose proof (enc_int_len _ 32 H5). pose proof (enc_int_len _ 32 H6). rewrite WrapAddress_Str.
  pose proof (enc_str_len (to_bytes (tx_to t))). pose proof (to_len t Ht).
  pose proof (enc_str_len (BytesNotNil (tx_data t))). unfold WrapData. fold dl in H11 |- *.
  change (length (encode (Lst []))) with 1%nat. cbn [length]. lia.
Qed.

Lemma sig_len61 v r s : (Z.abs v < 256 ^ Z.of_nat 8)%Z -> (Z.abs r < two256)%Z -> (Z.abs s < two256)%Z ->
  (length (flat_map encode [WrapBig v; WrapBig r; WrapBig s]) <= 99)%nat.
Proof.
  intros Hv Hr Hs. unfold two256 in *. cbn [flat_map]. rewrite !app_length. cbn [length].
  pose proof (enc_int_len _ 8 Hv). pose proof (enc_int_len _ 32 Hr). pose proof (enc_int_len _ 32 Hs). lia.
Qed.

Lemma dl_max61 : (dl <= data_max)%nat.
Proof. destruct R as (_ & _ & _ & _ & _ & _ & _ & Hd). exact Hd. Qed.

Lemma data_max_val61 : N.of_nat data_max = 2147482624%N.
Proof. unfold data_max. apply N2Nat.id. Qed.

(* the signature payload of every mode is far below 2^64 bytes *)
Lemma payload_short61 m : short (sp_data (payload_of m t chain)).
Proof.
  pose proof BuildLegacy_len61 as HL. pose proof Build1559_len61 as H9. pose proof dl_max61 as Hd.
  pose proof data_max_val61 as Hm. unfold short.
  assert (E155 : (length (flat_map encode (AddEIP155HashValuesToRLPList (BuildLegacy t) chain)) <= 202 + dl + 19)%nat).
  { unfold AddEIP155HashValuesToRLPList. rewrite flat_map_app, app_length.
    pose proof (enc_int_len _ 8 (chain_small61 _ Hc)).
    cbn [flat_map]. rewrite !app_length. change (length (encode (WrapBig 0))) with 1%nat. cbn [length]. lia. }
  destruct m; cbn [payload_of]; unfold SignaturePayload; try destruct (wants1559 t);
    cbn [SignaturePayloadLegacyOriginal SignaturePayloadLegacyEIP155 SignaturePayloadEIP1559 sp_data length];
    match goal with |- context [encode (Lst ?l)] => pose proof (enc_list_len l) end; lia.
Qed.

(* what a mode returns for a signature with |V| <= 30, |R|,|S| < 2^256 is at most 2^31-1 bytes *)
Lemma finalize_small61 m v r s out :
  (Z.abs v <= 30)%Z -> (Z.abs r < two256)%Z -> (Z.abs s < two256)%Z ->
  finalize m t chain (v, r, s) = Ok out -> (N.of_nat (length out) <= maxInt32)%N.
Proof.
  intros Hv Hr Hs.
  pose proof BuildLegacy_len61 as HL. pose proof Build1559_len61 as H9. pose proof dl_max61 as Hd.
  pose proof data_max_val61 as Hm. unfold maxInt32.
  assert (Orig : forall o, FinalizeLegacyOriginalWithSignature t (SignaturePayloadLegacyOriginal t) (v, r, s) = Ok o ->
                 (N.of_nat (length o) <= 2147483647)%N).
  { intros o E. apply Ok_inj in E. subst o. cbn [SignaturePayloadLegacyOriginal sp_list addSignature].
    match goal with |- context [encode (Lst ?l)] => pose proof (enc_list_len l) as HE end.
    rewrite flat_map_app, app_length in HE.
    assert (Hv8 : (Z.abs v < 256 ^ Z.of_nat 8)%Z) by (change (256 ^ Z.of_nat 8)%Z with (2 ^ 64)%Z; lia).
    pose proof (sig_len61 v r s Hv8 Hr Hs). lia. }
  assert (E155 : forall o, FinalizeLegacyEIP155WithSignature t (SignaturePayloadLegacyEIP155 t chain) (v, r, s) chain = Ok o ->
                 (N.of_nat (length o) <= 2147483647)%N).
  { intros o E. unfold FinalizeLegacyEIP155WithSignature in E.
    cbn [SignaturePayloadLegacyEIP155 sp_list] in E. rewrite lslice_legacy6 in E. cbn [bind UpdateEIP155] in E.
    apply Ok_inj in E. subst o. cbn [addSignature].
    match goal with |- context [encode (Lst ?l)] => pose proof (enc_list_len l) as HE end.
    rewrite flat_map_app, app_length in HE.
    assert (Hv8 : (Z.abs (v + chain * 2 + (35 - 27)) < 256 ^ Z.of_nat 8)%Z)
      by (change (256 ^ Z.of_nat 8)%Z with (2 ^ 64)%Z; lia).
    pose proof (sig_len61 _ r s Hv8 Hr Hs). lia. }
  assert (E1559 : forall o, FinalizeEIP1559WithSignature t (SignaturePayloadEIP1559 t chain) (v, r, s) = Ok o ->
                 (N.of_nat (length o) <= 2147483647)%N).
  { intros o E. unfold FinalizeEIP1559WithSignature in E. apply Ok_inj in E. subst o.
    cbn [SignaturePayloadEIP1559 sp_list length].
    assert (Hv8 : exists v', UpdateEIP2930 (v, r, s) = (v', r, s) /\ (Z.abs v' < 256 ^ Z.of_nat 8)%Z).
    { unfold UpdateEIP2930. destruct ((wrap64 v =? 27)%Z || (wrap64 v =? 28)%Z);
        eexists; (split; [reflexivity|]); change (256 ^ Z.of_nat 8)%Z with (2 ^ 64)%Z; lia. }
    destruct Hv8 as (v' & -> & Hv8). cbn [addSignature].
    match goal with |- context [encode (Lst ?l)] => pose proof (enc_list_len l) as HE end.
    rewrite flat_map_app, app_length in HE.
    pose proof (sig_len61 _ r s Hv8 Hr Hs). lia. }
  destruct m; cbn [finalize]; try destruct (wants1559 t); auto.
Qed.
End Bounds61.

Section RecoverSignInputs.
Variable H : bytes -> bytes.
Variable RecoverDirect : sigdata -> bytes -> Z -> res bytes.

(* For every transaction of the property's range, every chain id 0 <= chain < 2^61, every mode and
   every signer whose answer to the prescribed preimage is a 27/28 signature with 0 <= R, S < 2^256:
   signing succeeds, the bytes are the prescribed wire format, and the recovery model on those
   bytes with the same chain id hands RecoverDirect the very (V, R, S) over H(preimage) and
   returns its address with the same field values and the preimage.  No hypothesis mentions the
   output. *)
Theorem recover_sign_inputs m t f chain v r s :
  in_range t -> chain_ok chain ->
  let fm := format_of m t in
  let c := Z.to_N chain in
  let pre := spec_preimage fm (norm t) c in
  f pre = Ok (v, r, s) -> v_legacy v -> (0 <= r < two256)%Z -> (0 <= s < two256)%Z ->
  exists out,
    sign_mode m t (Some f) chain = Ok out /\
    out = spec_signed fm (norm t) c (y_of v) (Z.to_N r) (Z.to_N s) /\
    RecoverRawTransaction H RecoverDirect out chain =
      do a <- RecoverDirect (v_seen fm v, r, s) (H pre) chain;
      Ok (a, recovered_tx fm (norm t), pre).
Proof.
  intros HR Hc fm c pre Hf Hv Hr Hs. unfold chain_ok in Hc.
  pose proof (payload_short61 t HR chain Hc m) as Hshort.
  assert (Ec : Z.abs_N chain = c) by (unfold c; lia).
  pose proof (payload_is_preimage m t chain Hshort) as Epre. rewrite Ec in Epre. fold fm pre in Epre.
  destruct (finalize_never_fails m t chain (v, r, s)) as [out E].
  assert (Hsign : sign_mode m t (Some f) chain = Ok out).
  { rewrite sign_mode_unfold, Epre, Hf. exact E. }
  assert (Hlen : (N.of_nat (length out) <= maxInt32)%N).
  { apply (finalize_small61 t HR chain Hc m v r s out); try lia; [destruct Hv; lia|exact E]. }
  exists out. split; [exact Hsign|]. split.
  - replace (Z.to_N r) with (Z.abs_N r) by lia. replace (Z.to_N s) with (Z.abs_N s) by lia.
    rewrite <- Ec. apply finalize_is_spec; try assumption; try lia. unfold short, maxInt32 in *. lia.
  - destruct HR as (Ht & _).
    assert (Hf' : f (sp_data (payload_of m t chain)) = Ok (v, r, s)) by (rewrite Epre; exact Hf).
    pose proof (recover_sign H RecoverDirect m t f chain v r s out Ht Hc Hf' Hv ltac:(lia) ltac:(lia) Hsign Hlen) as R.
    cbv zeta in R. rewrite Epre in R. exact R.
Qed.

(* the chain ids of the property's quantifier, 0 <= chain <= 2^53, are below 2^61 *)
Corollary recover_sign_in_quantifier m t f chain v r s :
  in_range t -> (0 <= chain <= 2 ^ 53)%Z ->
  let fm := format_of m t in
  let c := Z.to_N chain in
  let pre := spec_preimage fm (norm t) c in
  f pre = Ok (v, r, s) -> v_legacy v -> (0 <= r < two256)%Z -> (0 <= s < two256)%Z ->
  exists out,
    sign_mode m t (Some f) chain = Ok out /\
    out = spec_signed fm (norm t) c (y_of v) (Z.to_N r) (Z.to_N s) /\
    RecoverRawTransaction H RecoverDirect out chain =
      do a <- RecoverDirect (v_seen fm v, r, s) (H pre) chain;
      Ok (a, recovered_tx fm (norm t), pre).
Proof. intros HR Hc. apply recover_sign_inputs; [exact HR|unfold chain_ok; lia]. Qed.
End RecoverSignInputs.
