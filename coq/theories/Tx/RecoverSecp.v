(* C10 with the secp256k1 layer plugged in: the parameter [RecoverDirect] of the recovery model is
   instantiated with property C05's model of (s *SignatureData).RecoverDirect (Secp/Model.v) over an
   arbitrary group satisfying the ECDSA laws of Crypto/Ecdsa.v, and the two hypotheses of the C10
   theorems are discharged from C05's theorems:
     - RecoverDirect never panics                     (Secp.Proofs.RecoverDirect_total)
     - a returned address is the address of a key for which (r,s) verifies over the digest
                                                      (Secp.Proofs.RecoverDirect_ok + Ecdsa.recover_sound). *)
From Coq Require Import List NArith ZArith Lia Bool.
From Coq Require Import Init.Byte.
From FFS Require Import Base.Res Base.Bytes Rlp.Model Rlp.Spec Rlp.Proofs Tx.Model Tx.Spec Tx.Norm
  Tx.RecoverModel Tx.RecoverProofs Tx.RecoverProofs2.
From FFS Require Crypto.Ecdsa Secp.Model Secp.Proofs.
Import ListNotations.

Section Secp.
Variable o : Crypto.Ecdsa.group_ops.
Hypothesis Laws : Crypto.Ecdsa.laws o.
Variable H : bytes -> bytes.
Hypothesis H_len : forall x, length (H x) = 32%nat.

(* recoverCommon builds &secp256k1.SignatureData{V, R, S} and calls Recover on it *)
Definition RD_secp : sigdata -> bytes -> Z -> res bytes :=
  fun sg digest chain =>
    let '(v, r, s) := sg in
    Secp.Model.RecoverDirect o H (Secp.Model.Build_sigdata v r s) digest chain.

Definition secp_addr_of (Q : Crypto.Ecdsa.pt o) : bytes := Secp.Proofs.addr_of o H Q.
Definition secp_verify (Q : Crypto.Ecdsa.pt o) (digest : bytes) (r s : Z) : Prop :=
  Crypto.Ecdsa.ecdsa_verify o Q (Secp.Model.hash_to_z digest) r s = true.

Lemma RD_secp_total v r s d c : RD_secp (v, r, s) d c <> Panic.
Proof. unfold RD_secp. apply Secp.Proofs.RecoverDirect_total; auto. Qed.

Lemma RD_secp_sound v r s d c a :
  RD_secp (v, r, s) d c = Ok a -> exists q, a = secp_addr_of q /\ secp_verify q d r s.
Proof.
  unfold RD_secp. intros E.
  destruct (Secp.Proofs.RecoverDirect_ok o Laws H H_len _ _ _ _ E) as [vB [Q [_ [_ [ER [_ Ea]]]]]].
  exists Q. split; [exact Ea|]. unfold secp_verify.
  cbn [Secp.Model.sR Secp.Model.sS] in ER.
  eapply Crypto.Ecdsa.recover_sound; eauto.
Qed.

Theorem total_secp bs chain :
  RecoverRawTransaction H RD_secp bs chain <> Panic /\
  RecoverLegacyRawTransaction H RD_secp bs chain <> Panic /\
  RecoverEIP1559Transaction H RD_secp bs chain <> Panic /\
  DecodeEIP1559SignaturePayload bs chain <> Panic.
Proof. apply C10_total_all. intros. apply RD_secp_total. Qed.

Theorem sound_secp bs chain a t p : (0 <= chain < 2 ^ 63)%Z ->
  RecoverRawTransaction H RD_secp bs chain = Ok (a, t, p) ->
  (exists l pos e6 e7 e8 q,
    Decode bs = Ok (Some (Lst l), pos) /\
    nth_error l 6 = Some e6 /\ nth_error l 7 = Some e7 /\ nth_error l 8 = Some e8 /\
    a = secp_addr_of q /\ secp_verify q (H p) (Z.of_N (elem_int e7)) (Z.of_N (elem_int e8)) /\
    ( (v_is_legacy (legacy_v e6) /\ p = spec_preimage Original (norm t) 0) \/
      (~ v_is_legacy (legacy_v e6) /\ v_is_eip155 (legacy_v e6) chain /\
       p = spec_preimage Eip155 (norm t) (Z.to_N chain)) ))
  \/
  (exists rest l pos c0 al e10 e11 q,
    bs = x02 :: rest /\ Decode rest = Ok (Some (Lst l), pos) /\
    nth_error l 0 = Some (Str c0) /\ Z.of_N (of_be c0) = chain /\
    nth_error l 8 = Some (Lst al) /\ nth_error l 10 = Some e10 /\ nth_error l 11 = Some e11 /\
    a = secp_addr_of q /\ secp_verify q (H p) (Z.of_N (elem_int e10)) (Z.of_N (elem_int e11)) /\
    p = x02 :: RLP (L (eip1559_body_al (norm t) (Z.to_N chain) (L (map to_tree al))))).
Proof.
  apply (RecoverRaw_sound H RD_secp (Crypto.Ecdsa.pt o) secp_addr_of secp_verify).
  intros. eapply RD_secp_sound; eauto.
Qed.

End Secp.
