(* The abstraction from the Go struct (Tx/Model.v [tx]) to the field tuple of the EIPs
   (Tx/Spec.v [fields]) — the "norm" of DESIGN §6 C01: a nil integer is 0, a nil data slice is the
   empty byte string, a nil destination is a contract creation.  big.Int is signed: WrapInt writes
   the magnitude, so a negative field (outside the property's quantifier; only a Go caller can build
   one, UnmarshalJSON refuses them) normalises to its absolute value. *)
From Coq Require Import List NArith ZArith Bool.
From Coq Require Import Init.Byte.
From FFS Require Import Base.Res Base.Bytes Rlp.Model Tx.Model Tx.Spec.
Import ListNotations.

Definition mag (h : option Z) : N := Z.abs_N (BigInt h).

Definition norm (t : tx) : fields :=
  mkFields (mag (tx_nonce t)) (mag (tx_gasPrice t)) (mag (tx_maxPrio t)) (mag (tx_maxFee t))
           (mag (tx_gasLimit t)) (tx_to t) (mag (tx_value t)) (BytesNotNil (tx_data t)).

(* which format a signing mode produces *)
Definition format_of (m : mode) (t : tx) : format :=
  match m with
  | LegacyOriginal => Original
  | LegacyEIP155 => Eip155
  | EIP1559 => Eip1559
  | Auto => if wants1559 t then Eip1559 else Eip155
  end.

(* the signature payload the mode computes *)
Definition payload_of (m : mode) (t : tx) (chain : Z) : payload :=
  match m with
  | LegacyOriginal => SignaturePayloadLegacyOriginal t
  | LegacyEIP155 => SignaturePayloadLegacyEIP155 t chain
  | EIP1559 => SignaturePayloadEIP1559 t chain
  | Auto => SignaturePayload t chain
  end.

(* non-negative fields: the region the property quantifies over *)
Definition nonneg (h : option Z) : bool := (0 <=? BigInt h)%Z.
Definition tx_nonneg (t : tx) : bool :=
  nonneg (tx_nonce t) && nonneg (tx_gasPrice t) && nonneg (tx_maxPrio t) && nonneg (tx_maxFee t) &&
  nonneg (tx_gasLimit t) && nonneg (tx_value t).

(* the Go type invariant of *Address0xHex *)
Definition to_ok (t : tx) : bool :=
  match tx_to t with Some a => (length a =? 20)%nat | None => true end.
