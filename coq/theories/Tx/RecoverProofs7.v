(* Proofs about the recovery model, part 7 (referee issue I3, second half): bytes after the RLP
   element are ignored, so the canonical-input theorem of RecoverProofs6.v holds for
   [spec_signed ... ++ rest] with an arbitrary suffix.

   [trailing_ignored_*]: for every item [i] within the decoder's accepted region ([size_ok]) and every
   suffix, each entry point returns on [encode i ++ rest] (resp. [b0 :: encode i ++ rest]) exactly
   what it returns without the suffix.  Uses C06's [decode_encode]. *)
From Coq Require Import List NArith ZArith Lia Bool Arith.
From Coq Require Import ZifyN ZifyNat ZifyBool.
From Coq Require Import Init.Byte.
From FFS Require Import Base.Res Base.Bytes Rlp.Model Rlp.Spec Rlp.Proofs.
From FFS Require Import Tx.Model Tx.Spec Tx.Norm Tx.SignProofs Tx.RecoverModel Tx.SignProofs2 Tx.SignProofs3
  Tx.SignProofs4 Tx.SignProofs5 Tx.RecoverProofs2 Tx.RecoverSecp Tx.RecoverProofs5 Tx.RecoverProofs6.
From FFS Require Crypto.Ecdsa Secp.Model Secp.Proofs.
Import ListNotations.

Lemma Decode_encode_exact i : size_ok i = true -> Decode (encode i) = Ok (Some i, length (encode i)).
Proof. intros Hs. pose proof (decode_encode i [] Hs) as E. rewrite app_nil_r in E. exact E. Qed.

(* the first byte of an encoded list is a list header (>= 0xc0) *)
Lemma encode_list_head l : exists b tl, encode (Lst l) = b :: tl /\ (192 <= b2n b)%N.
Proof.
  cbn [encode]. rewrite encode_bytes_list_eq.
  destruct (Nat.leb_spec (length (flat_map encode l)) 55) as [Hle|Hgt].
  - eexists. eexists. split; [reflexivity|]. rewrite b2n_n2b; lia.
  - eexists. eexists. split; [reflexivity|].
    pose proof (be_min_length (N.of_nat (length (flat_map encode l)))). rewrite b2n_n2b; lia.
Qed.

Section Trailing.
Variable H : bytes -> bytes.
Variable RD : sigdata -> bytes -> Z -> res bytes.

Theorem trailing_ignored_legacy i rest chain : size_ok i = true ->
  RecoverLegacyRawTransaction H RD (encode i ++ rest) chain = RecoverLegacyRawTransaction H RD (encode i) chain.
Proof.
  intros Hs. unfold RecoverLegacyRawTransaction.
  rewrite (decode_encode i rest Hs), (Decode_encode_exact i Hs). reflexivity.
Qed.

Lemma trailing_ignored_decode1559 b0 i rest chain n : size_ok i = true ->
  decodeEIP1559SignaturePayload (b0 :: encode i ++ rest) chain n =
  decodeEIP1559SignaturePayload (b0 :: encode i) chain n.
Proof.
  intros Hs. unfold decodeEIP1559SignaturePayload.
  rewrite (decode_encode i rest Hs), (Decode_encode_exact i Hs). reflexivity.
Qed.

Theorem trailing_ignored_eip1559 b0 i rest chain : size_ok i = true ->
  RecoverEIP1559Transaction H RD (b0 :: encode i ++ rest) chain =
  RecoverEIP1559Transaction H RD (b0 :: encode i) chain.
Proof.
  intros Hs. unfold RecoverEIP1559Transaction. rewrite trailing_ignored_decode1559 by exact Hs. reflexivity.
Qed.

Theorem trailing_ignored_decode_payload b0 i rest chain : size_ok i = true ->
  DecodeEIP1559SignaturePayload (b0 :: encode i ++ rest) chain =
  DecodeEIP1559SignaturePayload (b0 :: encode i) chain.
Proof.
  intros Hs. unfold DecodeEIP1559SignaturePayload. rewrite trailing_ignored_decode1559 by exact Hs. reflexivity.
Qed.

Theorem trailing_ignored_raw_list l rest chain : size_ok (Lst l) = true ->
  RecoverRawTransaction H RD (encode (Lst l) ++ rest) chain = RecoverRawTransaction H RD (encode (Lst l)) chain.
Proof.
  intros Hs. pose proof (trailing_ignored_legacy (Lst l) rest chain Hs) as L.
  destruct (encode_list_head l) as (b & tl & E & Hb). rewrite E in *.
  cbn [app]. unfold RecoverRawTransaction.
  destruct (199 <=? b2n b)%N; [exact L|].
  destruct (N.eqb_spec (b2n b) (b2n TransactionType1559)) as [E2|_]; [|reflexivity].
  change (b2n TransactionType1559) with 2%N in E2. lia.
Qed.

Theorem trailing_ignored_raw_typed i rest chain : size_ok i = true ->
  RecoverRawTransaction H RD (x02 :: encode i ++ rest) chain = RecoverRawTransaction H RD (x02 :: encode i) chain.
Proof.
  intros Hs. unfold RecoverRawTransaction.
  change (199 <=? b2n x02)%N with false. cbv iota.
  change (b2n x02 =? b2n TransactionType1559)%N with true. cbv iota.
  apply trailing_ignored_eip1559; exact Hs.
Qed.
End Trailing.

(* ---------- the canonical wire format is the encoding of an item within the decoder's region ---------- *)
Lemma spec_signed_is_encode fm f chain y r s :
  fields_in_range f -> (0 <= chain < 2 ^ 61)%Z -> (y = 0 \/ y = 1)%N ->
  (r < 2 ^ 256)%N -> (s < 2 ^ 256)%N ->
  exists l, size_ok (Lst l) = true /\
    spec_signed fm f (Z.to_N chain) y r s =
      match fm with Eip1559 => x02 :: encode (Lst l) | _ => encode (Lst l) end.
Proof.
  intros Hf Hc Hy Hr Hs.
  pose (v := (27 + Z.of_N y)%Z).
  assert (Hv : v_legacy v) by (unfold v_legacy, v; lia).
  assert (Hr' : (Z.abs (Z.of_N r) < two256)%Z).
  { rewrite two256_val. change (2 ^ 256)%Z with (Z.of_N (2 ^ 256)). lia. }
  assert (Hs' : (Z.abs (Z.of_N s) < two256)%Z).
  { rewrite two256_val. change (2 ^ 256)%Z with (Z.of_N (2 ^ 256)). lia. }
  pose proof (in_range_tx_of f Hf) as HR.
  destruct (finalize_never_fails (mode_of fm) (tx_of f) chain (v, Z.of_N r, Z.of_N s)) as [out E].
  assert (Hlen : (N.of_nat (length out) <= maxInt32)%N).
  { apply (finalize_small61 (tx_of f) HR chain Hc (mode_of fm) v (Z.of_N r) (Z.of_N s) out); try assumption.
    destruct Hv; lia. }
  assert (Eout : out = spec_signed fm f (Z.to_N chain) y r s).
  { pose proof (finalize_is_spec (mode_of fm) (tx_of f) chain v (Z.of_N r) (Z.of_N s) out Hv ltac:(lia) E) as S.
    rewrite format_of_mode_of, norm_tx_of in S. rewrite S.
    - replace (Z.abs_N chain) with (Z.to_N chain) by lia. rewrite !Zabs2N.id.
      replace (y_of v) with y by (unfold y_of, v; lia). reflexivity.
    - unfold short, maxInt32 in *. lia. }
  rewrite <- Eout. clear Eout.
  destruct fm; cbn [mode_of finalize] in E.
  - unfold FinalizeLegacyOriginalWithSignature in E. apply Ok_inj in E. subst out.
    eexists. split; [|reflexivity]. apply small_size_ok. exact Hlen.
  - unfold FinalizeLegacyEIP155WithSignature in E.
    cbn [SignaturePayloadLegacyEIP155 sp_list] in E. rewrite lslice_legacy6 in E. cbn [bind] in E.
    apply Ok_inj in E. subst out.
    eexists. split; [|reflexivity]. apply small_size_ok. exact Hlen.
  - unfold FinalizeEIP1559WithSignature in E. apply Ok_inj in E. subst out.
    eexists. split; [|reflexivity]. apply small_size_ok.
    cbn [length] in Hlen. lia.
Qed.

Section CanonicalRest.
Variable H : bytes -> bytes.
Variable RD : sigdata -> bytes -> Z -> res bytes.

(* RecoverProofs6.canonical_input_accepted with arbitrary bytes after the transaction *)
Theorem canonical_input_accepted_rest fm f chain y r s rest :
  fields_in_range f -> (0 <= chain < 2 ^ 61)%Z -> (y = 0 \/ y = 1)%N ->
  (r < 2 ^ 256)%N -> (s < 2 ^ 256)%N ->
  let c := Z.to_N chain in
  let pre := spec_preimage fm f c in
  RecoverRawTransaction H RD (spec_signed fm f c y r s ++ rest) chain =
    do a <- RD (v_seen fm (27 + Z.of_N y), Z.of_N r, Z.of_N s) (H pre) chain;
    Ok (a, recovered_tx fm f, pre).
Proof.
  intros Hf Hc Hy Hr Hs c pre. subst pre c.
  pose proof (canonical_input_accepted H RD fm f chain y r s Hf Hc Hy Hr Hs) as A. cbv zeta in A.
  rewrite <- A. clear A.
  destruct (spec_signed_is_encode fm f chain y r s Hf Hc Hy Hr Hs) as (l & Hsz & E).
  rewrite E. destruct fm.
  - apply trailing_ignored_raw_list; exact Hsz.
  - apply trailing_ignored_raw_list; exact Hsz.
  - cbn [app]. apply trailing_ignored_raw_typed; exact Hsz.
Qed.
End CanonicalRest.

Section CanonicalSecpRest.
Variable o : Crypto.Ecdsa.group_ops.
Hypothesis Laws : Crypto.Ecdsa.laws o.
Variable H : bytes -> bytes.
Hypothesis H_len : forall x, length (H x) = 32%nat.

Theorem canonical_input_secp_rest fm f chain y r s rest a t p :
  fields_in_range f -> (0 <= chain < 2 ^ 61)%Z -> (y = 0 \/ y = 1)%N ->
  (r < 2 ^ 256)%N -> (s < 2 ^ 256)%N ->
  let c := Z.to_N chain in
  RecoverRawTransaction H (RD_secp o H) (spec_signed fm f c y r s ++ rest) chain = Ok (a, t, p) ->
  t = recovered_tx fm f /\ p = spec_preimage fm f c /\
  exists q,
    Crypto.Ecdsa.ecdsa_recover o (Secp.Model.hash_to_z (H p)) (Z.of_N r) (Z.of_N s) (y =? 1)%N = Some q /\
    q <> Crypto.Ecdsa.zero o /\ a = secp_addr_of o H q /\
    secp_verify o q (H p) (Z.of_N r) (Z.of_N s).
Proof.
  intros Hf Hc Hy Hr Hs c X. subst c.
  pose proof (canonical_input_accepted_rest H (RD_secp o H) fm f chain y r s rest Hf Hc Hy Hr Hs) as A.
  pose proof (canonical_input_accepted H (RD_secp o H) fm f chain y r s Hf Hc Hy Hr Hs) as B.
  cbv zeta in A, B. rewrite A, <- B in X.
  exact (canonical_input_secp o Laws H H_len fm f chain y r s a t p Hf Hc Hy Hr Hs X).
Qed.
End CanonicalSecpRest.
