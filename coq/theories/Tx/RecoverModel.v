(* Executable model of the *recovery* side of pkg/ethsigner/transaction.go (property C10):
   RecoverRawTransaction, RecoverLegacyRawTransaction, canonicalFields, recoverCommon,
   decodeEIP1559SignaturePayload, DecodeEIP1559SignaturePayload, RecoverEIP1559Transaction.
   One definition per Go function, same order of guards.  Every Go operation that can panic is
   explicit: a type assertion without the comma-ok form, an index [l[i]], a slice [l[lo:hi]], a
   method call through a nil *big.Int.  (The comma-ok assertions and the len() guards of the code
   are what keep these from being reached; that is theorem C10_total, not something built into the
   model.)

   External behaviour enters as Section variables:
     H              the hash used by SignatureData.Recover (Keccak-256 in the implementation)
     RecoverDirect  (s *SignatureData).RecoverDirect(digest, chainID) of pkg/secp256k1 — V
                    normalisation, range checks on R and S, btcec RecoverCompact, address of the key.
                    Its own model and laws are property C05's; here only its result matters.
   No proofs in this file. *)
From Coq Require Import List NArith ZArith Lia Bool.
From Coq Require Import Init.Byte.
From FFS Require Import Base.Res Base.Bytes Rlp.Model Tx.Model.
Import ListNotations.

(* error classes (the i18n message a Go error was built from; never compared as text) *)
Definition EEmptyTx := 81%nat.          (* FF22081 MsgEmptyTransactionBytes *)
Definition EUnsupportedType := 82%nat.  (* FF22082 MsgUnsupportedTransactionType *)
Definition EInvalidLegacy := 83%nat.    (* FF22083 MsgInvalidLegacyTransaction *)
Definition EInvalid1559 := 84%nat.      (* FF22084 MsgInvalidEIP1559Transaction *)
Definition EInvalidV155 := 85%nat.      (* FF22085 MsgInvalidEIP155TransactionV *)
Definition EInvalidChainID := 86%nat.   (* FF22086 MsgInvalidChainID *)
(* any other class comes from RecoverDirect and is passed through unchanged *)

(* Go [l[i]] on an rlp.List *)
Definition idx (l : list item) (i : nat) : res item :=
  match nth_error l i with Some x => Ok x | None => Panic end.

(* Element.IsList() *)
Definition IsList (e : item) : bool := match e with Lst _ => true | Str _ => false end.

(* HexInteger-pointer conversion of d.Int(): a pointer conversion, nil stays nil *)
Definition HexInt (d : option bytes) : option Z :=
  match DataInt d with Some n => Some (Z.of_N n) | None => None end.

(* d.Int().Int64(): Int() of a nil Data is a nil *big.Int, and Int64() through it dereferences nil *)
Definition IntInt64 (d : option bytes) : res Z :=
  match DataInt d with Some n => Ok (wrap64 (Z.of_N n)) | None => Panic end.

(* ethtypes.HexBytes0xPrefix(d): a slice conversion *)
Definition HexBytes (d : option bytes) : option bytes := d.

(* func canonicalFields(fields rlp.List, toIndex, dataIndex int) bool — the range loop with index i *)
Fixpoint canonicalFields_from (i : nat) (fields : list item) (toIndex dataIndex : nat) : bool :=
  match fields with
  | [] => true
  | field :: rest =>
    match field with
    | Lst _ => false                                         (* case !isData *)
    | Str d =>
      if (i =? dataIndex)%nat then canonicalFields_from (S i) rest toIndex dataIndex
      else if (i =? toIndex)%nat then
        if negb (length d =? 0)%nat && negb (length d =? 20)%nat then false
        else canonicalFields_from (S i) rest toIndex dataIndex
      else
        match d with
        | b :: _ => if (b2n b =? 0)%N then false           (* len(d) > 0 && d[0] == 0 *)
                    else canonicalFields_from (S i) rest toIndex dataIndex
        | [] => canonicalFields_from (S i) rest toIndex dataIndex
        end
    end
  end.
Definition canonicalFields (fields : list item) (toIndex dataIndex : nat) : bool :=
  canonicalFields_from 0 fields toIndex dataIndex.

(* what the three Recover… functions return on success:
   (address, &TransactionWithOriginalPayload{Transaction, Payload}) *)
Definition recovered := (bytes * tx * bytes)%type.

Section Recover.
Variable H : bytes -> bytes.
Variable RecoverDirect : sigdata -> bytes -> Z -> res bytes.

(* func (s *SignatureData) Recover(message, chainID) = s.RecoverDirect(keccak256(message), chainID) *)
Definition SigRecover (sg : sigdata) (message : bytes) (chain : Z) : res bytes :=
  RecoverDirect sg (H message) chain.

(* func recoverCommon(tx, message, chainID, v int64, r, s []byte):
   V.SetInt64(v), R.SetBytes(r), S.SetBytes(s); foundSig.Recover(message, chainID) *)
Definition recoverCommon (t : tx) (message : bytes) (chain : Z) (v : Z) (r s : bytes) : res recovered :=
  let foundSig : sigdata := (v, Z.of_N (of_be r), Z.of_N (of_be s)) in
  do signer <- SigRecover foundSig message chain;
  Ok (signer, t, message).

(* func RecoverLegacyRawTransaction(ctx, rawTx, chainID) *)
Definition RecoverLegacyRawTransaction (rawTx : bytes) (chain : Z) : res recovered :=
  match Decode rawTx with
  | Panic => Panic
  | Err _ => Err EInvalidLegacy
  | Ok (decoded, _) =>
    (* rlpList, isList := decoded.(rlp.List); if !isList || len(rlpList) < 9 *)
    match decoded with
    | None | Some (Str _) => Err EInvalidLegacy
    | Some (Lst rlpList) =>
      if (length rlpList <? 9)%nat then Err EInvalidLegacy else
      do f6 <- lslice rlpList 0 6;
      if negb (canonicalFields f6 3 5) then Err EInvalidLegacy else
      do e0 <- idx rlpList 0; do e1 <- idx rlpList 1; do e2 <- idx rlpList 2;
      do e3 <- idx rlpList 3; do e4 <- idx rlpList 4; do e5 <- idx rlpList 5;
      let t := mkTx (HexInt (ToData e0)) (HexInt (ToData e1)) None None (HexInt (ToData e2))
                    (DataAddress (ToData e3)) (HexInt (ToData e4)) (HexBytes (ToData e5)) in
      do e6 <- idx rlpList 6;
      if IsList e6 then Err EInvalidLegacy else
      do vValue <- IntInt64 (ToData e6);
      do e7 <- idx rlpList 7; do e8 <- idx rlpList 8;
      let rValue := BytesNotNil (ToData e7) in
      let sValue := BytesNotNil (ToData e8) in
      if negb (vValue =? 27)%Z && negb (vValue =? 28)%Z then
        (* legacy with EIP-155 extensions: int64 arithmetic, wrapping *)
        let vValue' := wrap64 (wrap64 (vValue - wrap64 (chain * 2)) - 8) in
        if negb (vValue' =? 27)%Z && negb (vValue' =? 28)%Z then Err EInvalidV155 else
        do c6 <- lslice rlpList 0 6;                       (* copy(signedRLPList, rlpList[0:6]) *)
        let signedRLPList := AddEIP155HashValuesToRLPList c6 chain in
        recoverCommon t (encode (Lst signedRLPList)) chain vValue' rValue sValue
      else
        do m6 <- lslice rlpList 0 6;
        recoverCommon t (encode (Lst m6)) chain vValue rValue sValue
    end
  end.

(* func decodeEIP1559SignaturePayload(ctx, rawTx, chainID, rlpMinLen) (rlp.List, *Transaction, error) *)
Definition decodeEIP1559SignaturePayload (rawTx : bytes) (chain : Z) (rlpMinLen : nat)
  : res (list item * tx) :=
  match rawTx with
  | [] => Err EInvalid1559                                  (* len(rawTx) == 0 *)
  | b0 :: rawTx1 =>
    if negb (b2n b0 =? b2n TransactionType1559)%N then Err EInvalid1559 else
    match Decode rawTx1 with                                (* rawTx = rawTx[1:] *)
    | Panic => Panic
    | Err _ => Err EInvalid1559
    | Ok (decoded, _) =>
      match decoded with
      | None | Some (Str _) => Err EInvalid1559
      | Some (Lst rlpList) =>
        if (length rlpList <? rlpMinLen)%nat then Err EInvalid1559 else
        do e0 <- idx rlpList 0;
        let encodedChainID := IntOrZero (ToData e0) in
        (* !encodedChainID.IsInt64() || encodedChainID.Int64() != chainID *)
        if negb (encodedChainID <? 2 ^ 63)%N || negb (Z.of_N encodedChainID =? chain)%Z
        then Err EInvalidChainID else
        do f8 <- lslice rlpList 0 8;
        (* !canonicalFields(rlpList[0:8], 5, 7) || !rlpList[8].IsList()  (short-circuit) *)
        if negb (canonicalFields f8 5 7) then Err EInvalid1559 else
        do e8 <- idx rlpList 8;
        if negb (IsList e8) then Err EInvalid1559 else
        do e1 <- idx rlpList 1; do e2 <- idx rlpList 2; do e3 <- idx rlpList 3;
        do e4 <- idx rlpList 4; do e5 <- idx rlpList 5; do e6 <- idx rlpList 6;
        do e7 <- idx rlpList 7;
        Ok (rlpList,
            mkTx (HexInt (ToData e1)) None (HexInt (ToData e2)) (HexInt (ToData e3))
                 (HexInt (ToData e4)) (DataAddress (ToData e5)) (HexInt (ToData e6))
                 (HexBytes (ToData e7)))
      end
    end
  end.

(* func DecodeEIP1559SignaturePayload(ctx, rawTx, chainID) (tx, error) *)
Definition DecodeEIP1559SignaturePayload (rawTx : bytes) (chain : Z) : res tx :=
  do (_, t) <- decodeEIP1559SignaturePayload rawTx chain 9;
  Ok t.

(* func RecoverEIP1559Transaction(ctx, rawTx, chainID) *)
Definition RecoverEIP1559Transaction (rawTx : bytes) (chain : Z) : res recovered :=
  do (rlpList, t) <- decodeEIP1559SignaturePayload rawTx chain 12;
  do e9 <- idx rlpList 9;
  if IsList e9 then Err EInvalid1559 else
  do l9 <- lslice rlpList 0 9;
  do v <- IntInt64 (ToData e9);
  do e10 <- idx rlpList 10; do e11 <- idx rlpList 11;
  recoverCommon t (TransactionType1559 :: encode (Lst l9)) chain v
                (BytesNotNil (ToData e10)) (BytesNotNil (ToData e11)).

(* func RecoverRawTransaction(ctx, rawTx, chainID): dispatch on the first byte *)
Definition RecoverRawTransaction (rawTx : bytes) (chain : Z) : res recovered :=
  match rawTx with
  | [] => Err EEmptyTx
  | txTypeByte :: _ =>
    if (199 <=? b2n txTypeByte)%N then RecoverLegacyRawTransaction rawTx chain        (* >= 0xc7 *)
    else if (b2n txTypeByte =? b2n TransactionType1559)%N then RecoverEIP1559Transaction rawTx chain
    else Err EUnsupportedType
  end.

End Recover.
