(* Proofs for C01, part 6: answers to the referee's review of the statements (design/reviews/C01.md).

   A. Signing with the KeyPair signer SUCCEEDS (issue 3).  Theorems 7/8 have
      [sign_mode ... = Ok out] as a premise.  Here: the signing model with the KeyPair signer never
      panics, its only error is the model's own "nonce stream exhausted within the fuel", and it
      returns bytes exactly when one of the first [fuel] nonces of the stream gives a usable ECDSA
      attempt ([keypair_sign_classes]); combined with theorem 8: success and the whole conclusion of
      theorem 8 from hypotheses on the inputs only ([sign_succeeds_end_to_end]), and the same with
      the concrete Keccak-256 of Base/Keccak.v as the hash.

   B. The wire bytes for ANY V an arbitrary Signer answers (issue 4): the V position carries the
      magnitude of the updated V ([v_written]), whatever the signer answered
      ([sign_wire_format_any_v]); for V in {27,28} this is theorem 1's [spec_signed].

   C. The Yellow-Paper BE of Rlp/Spec.v characterised without reference to its definition
      (issue 5): big-endian value, no leading zero, unique with these two ([BE_characterised]). *)
From Coq Require Import List NArith ZArith Lia Bool Arith.
From Coq Require Import ZifyN ZifyNat ZifyBool.
From Coq Require Import Init.Byte.
From FFS Require Import Base.Res Base.Bytes Base.Keccak Crypto.Ecdsa Rlp.Model Rlp.Spec Rlp.Proofs.
From FFS Require Import Tx.Model Tx.Spec Tx.Norm Tx.SignProofs Tx.RecoverModel Tx.SignProofs2 Tx.SignProofs3 Tx.SignProofs4.
Import ListNotations.

(* ---------- A. success ---------- *)

(* the retry loop returns a signature exactly when one of the nonces it .. it+fuel-1 gives one *)
Lemma sign_loop_some_iff o fuel (nonce : nat -> Z) it d z :
  ecdsa_sign_loop o fuel nonce it d z <> None <->
  exists j, (it <= j < it + fuel)%nat /\ ecdsa_sign o d z (nonce j) <> None.
Proof.
  revert it. induction fuel as [|f IH]; intros it; cbn [ecdsa_sign_loop].
  - split; [intros C; exfalso; apply C; reflexivity|intros (j & Hj & _); lia].
  - destruct (ecdsa_sign o d z (nonce it)) as [sg|] eqn:E.
    + split; [|intros _; discriminate]. intros _. exists it. split; [lia|]. rewrite E. discriminate.
    + rewrite IH. split.
      * intros (j & Hj & Hs). exists j. split; [lia|exact Hs].
      * intros (j & Hj & Hs). exists j. split; [|exact Hs].
        destruct (Nat.eq_dec j it) as [->|Hne]; [exfalso; apply Hs; exact E|lia].
Qed.

(* KeyPair.SignDirect: Ok when the loop finds a signature, the model's fuel error otherwise, never
   a panic (the 65-byte compact signature is unpacked within bounds) *)
Lemma SignDirect_classes o nonce fuel d msg :
  match ecdsa_sign_loop o fuel (nonce d msg) 0 d (SM.hash_to_z msg) with
  | Some _ => exists sg, SM.SignDirect o nonce fuel d msg = Ok sg
  | None => SM.SignDirect o nonce fuel d msg = Err SM.EOutOfFuel
  end.
Proof.
  unfold SM.SignDirect, SM.SignCompact.
  destruct (ecdsa_sign_loop o fuel (nonce d msg) 0 d (SM.hash_to_z msg)) as [e|]; [|reflexivity].
  cbn [bind index nth_error].
  set (code := (27 + (if es_ovf e then 2 else 0) + (if es_odd e then 1 else 0))%Z).
  set (rb := SM.be_fixed 32 (es_r e)). set (sb := SM.be_fixed 32 (es_s e)).
  assert (Lr : length rb = 32%nat) by apply SP.be_fixed_length.
  assert (Ls : length sb = 32%nat) by apply SP.be_fixed_length.
  assert (S1 : slice (n2b (Z.to_N code) :: rb ++ sb) 1 33 = Ok rb).
  { unfold slice. cbn [length]. rewrite app_length, Lr, Ls. cbn [Nat.leb Nat.add andb].
    change (skipn 1 (n2b (Z.to_N code) :: rb ++ sb)) with (rb ++ sb).
    change (33 - 1)%nat with 32%nat. rewrite (SP.firstn_app_len 32) by exact Lr. reflexivity. }
  assert (S2 : slice (n2b (Z.to_N code) :: rb ++ sb) 33 65 = Ok sb).
  { unfold slice. cbn [length]. rewrite app_length, Lr, Ls. cbn [Nat.leb Nat.add andb].
    change (skipn 33 (n2b (Z.to_N code) :: rb ++ sb)) with (skipn 32 (rb ++ sb)).
    change (65 - 33)%nat with 32%nat. rewrite (SP.skipn_app_len 32) by exact Lr.
    rewrite (SP.firstn_len 32) by exact Ls. reflexivity. }
  rewrite S1, S2. cbn [bind]. eexists. reflexivity.
Qed.

Section Success.
Variable o : group_ops.
Variable H : bytes -> bytes.
Variable nonce : Z -> bytes -> nat -> Z.      (* btcec's RFC 6979 nonce stream *)
Variable fuel : nat.                          (* bound on the retry loop of the signing model *)

(* "one of the first [fuel] nonces of the stream for (d, z) gives a usable ECDSA attempt":
   k mod n <> 0, r = x(kG) mod n <> 0, s <> 0 (Crypto/Ecdsa.v [ecdsa_sign]).  For secp256k1 and
   RFC 6979 the first nonce fails with probability about 2^-255; it is not a consequence of the
   group laws, hence a hypothesis. *)
Definition some_nonce_usable (d : N) (z : bytes) : Prop :=
  exists j, (j < fuel)%nat /\ ecdsa_sign o (Z.of_N d) (SM.hash_to_z z) (nonce (Z.of_N d) z j) <> None.

Lemma secp_sign_direct_classes d z :
  (some_nonce_usable d z -> exists sg, secp_sign_direct o nonce fuel d z = Ok sg) /\
  (~ some_nonce_usable d z -> secp_sign_direct o nonce fuel d z = Err SM.EOutOfFuel).
Proof.
  unfold secp_sign_direct, some_nonce_usable.
  pose proof (SignDirect_classes o nonce fuel (Z.of_N d) z) as C.
  pose proof (sign_loop_some_iff o fuel (nonce (Z.of_N d) z) 0 (Z.of_N d) (SM.hash_to_z z)) as I.
  destruct (ecdsa_sign_loop o fuel (nonce (Z.of_N d) z) 0 (Z.of_N d) (SM.hash_to_z z)) as [e|].
  - destruct C as [sg ->]. split; [intros _; eexists; reflexivity|].
    intros N. exfalso. apply N. destruct I as [I _].
    destruct (I ltac:(discriminate)) as (j & Hj & Hs). exists j. split; [lia|exact Hs].
  - rewrite C. split; [|reflexivity].
    intros (j & Hj & Hs). exfalso. destruct I as [_ I]. apply I; [|reflexivity].
    exists j. split; [lia|exact Hs].
Qed.

(* The result classes of every signing mode with the KeyPair signer, for EVERY transaction, key and
   chain id (no guard): never a panic; bytes exactly when a nonce is usable; otherwise the model's
   fuel error (which is not success and has no counterpart in the Go code). *)
Theorem keypair_sign_classes m t d chain :
  let ks := KeyPairSign H (secp_sign_direct o nonce fuel) d in
  let z := H (sp_data (payload_of m t chain)) in
  sign_mode m t (Some ks) chain <> Panic /\
  ((exists out, sign_mode m t (Some ks) chain = Ok out) <-> some_nonce_usable d z) /\
  (forall e, sign_mode m t (Some ks) chain = Err e -> e = SM.EOutOfFuel /\ ~ some_nonce_usable d z).
Proof.
  cbv zeta. rewrite sign_mode_unfold. unfold KeyPairSign.
  set (z := H (sp_data (payload_of m t chain))).
  destruct (secp_sign_direct_classes d z) as [Cy Cn].
  assert (Dec : some_nonce_usable d z \/ ~ some_nonce_usable d z).
  { destruct (secp_sign_direct o nonce fuel d z) as [sg|e|] eqn:E.
    - left. (* an Ok answer means the loop found a nonce *)
      unfold secp_sign_direct in E.
      pose proof (SignDirect_classes o nonce fuel (Z.of_N d) z) as C.
      pose proof (sign_loop_some_iff o fuel (nonce (Z.of_N d) z) 0 (Z.of_N d) (SM.hash_to_z z)) as I.
      destruct (ecdsa_sign_loop o fuel (nonce (Z.of_N d) z) 0 (Z.of_N d) (SM.hash_to_z z)) as [e|].
      + destruct I as [I _]. destruct (I ltac:(discriminate)) as (j & Hj & Hs).
        exists j. split; [lia|exact Hs].
      + rewrite C in E. discriminate.
    - right. intros U. destruct (Cy U) as [sg E']. discriminate.
    - right. intros U. destruct (Cy U) as [sg E']. discriminate. }
  destruct Dec as [U|NU].
  - destruct (Cy U) as [sg ->]. cbn [bind].
    destruct (finalize_never_fails m t chain sg) as [out ->].
    split; [discriminate|]. split; [split; [intros _; exact U|intros _; eexists; reflexivity]|].
    intros e E; discriminate.
  - rewrite (Cn NU). cbn [bind]. split; [discriminate|].
    split; [split; [intros [out E]; discriminate|intros U; exfalso; exact (NU U)]|].
    intros e E. injection E as <-. split; [reflexivity|exact NU].
Qed.
End Success.

(* Success and the whole property from hypotheses on the inputs only: theorem 8
   (sign_recover_secp_in_range) with [sign_mode ... = Ok out] as a CONCLUSION. *)
Section SuccessEndToEnd.
Variable o : group_ops.
Hypothesis L : laws o.
Hypothesis n_fits : (n o < SM.two256)%Z.
Variable H : bytes -> bytes.
Hypothesis H_len : forall x, length (H x) = 32%nat.
Variable nonce : Z -> bytes -> nat -> Z.
Variable fuel : nat.

Theorem sign_succeeds_end_to_end m t d chain :
  (1 <= Z.of_N d < n o)%Z -> (0 <= chain <= 2 ^ 53)%Z -> in_range t ->
  let fm := format_of m t in
  let c := Z.to_N chain in
  let pre := spec_preimage fm (norm t) c in
  some_nonce_usable o nonce fuel d (H pre) ->
  exists out v r s,
    sign_mode m t (Some (KeyPairSign H (secp_sign_direct o nonce fuel) d)) chain = Ok out /\
    SM.SignDirect o nonce fuel (Z.of_N d) (H pre) = Ok {| SM.sV := v; SM.sR := r; SM.sS := s |} /\
    (1 <= r < n o)%Z /\ (1 <= s < n o)%Z /\ (2 * s <= n o)%Z /\
    ecdsa_verify o (pub o (Z.of_N d)) (SM.hash_to_z (H pre)) r s = true /\
    (v_legacy v ->
       out = spec_signed fm (norm t) c (y_of v) (Z.to_N r) (Z.to_N s) /\
       RecoverRawTransaction H (secp_RecoverDirect o H) out chain
       = Ok (secp_address o H d, recovered_tx fm (norm t), pre)).
Proof.
  intros Hd Hc HR fm c pre U.
  pose proof (payload_short t HR chain Hc m) as Hshort.
  pose proof (payload_is_preimage m t chain Hshort) as Epre.
  replace (Z.abs_N chain) with c in Epre by (unfold c; lia). fold fm pre in Epre.
  destruct (keypair_sign_classes o H nonce fuel m t d chain) as (_ & [_ Hsucc] & _).
  cbv zeta in Hsucc. rewrite Epre in Hsucc. destruct (Hsucc U) as [out Eout].
  destruct (sign_recover_secp_in_range o L n_fits H H_len nonce fuel m t d chain out Hd Hc HR Eout)
    as (v & r & s & Hrest).
  exists out, v, r, s. split; [exact Eout|exact Hrest].
Qed.
End SuccessEndToEnd.

(* the same with the hash of the code, Keccak-256 as computed in Gallina (Base/Keccak.v): the
   32-byte hypothesis is discharged by [keccak256_length] *)
Theorem sign_succeeds_end_to_end_keccak o (L : laws o) (n_fits : (n o < SM.two256)%Z)
        (nonce : Z -> bytes -> nat -> Z) (fuel : nat) m t d chain :
  (1 <= Z.of_N d < n o)%Z -> (0 <= chain <= 2 ^ 53)%Z -> in_range t ->
  let fm := format_of m t in
  let c := Z.to_N chain in
  let pre := spec_preimage fm (norm t) c in
  some_nonce_usable o nonce fuel d (keccak256 pre) ->
  exists out v r s,
    sign_mode m t (Some (KeyPairSign keccak256 (secp_sign_direct o nonce fuel) d)) chain = Ok out /\
    SM.SignDirect o nonce fuel (Z.of_N d) (keccak256 pre) = Ok {| SM.sV := v; SM.sR := r; SM.sS := s |} /\
    (1 <= r < n o)%Z /\ (1 <= s < n o)%Z /\ (2 * s <= n o)%Z /\
    ecdsa_verify o (pub o (Z.of_N d)) (SM.hash_to_z (keccak256 pre)) r s = true /\
    (v_legacy v ->
       out = spec_signed fm (norm t) c (y_of v) (Z.to_N r) (Z.to_N s) /\
       RecoverRawTransaction keccak256 (secp_RecoverDirect o keccak256) out chain
       = Ok (secp_address o keccak256 d, recovered_tx fm (norm t), pre)).
Proof. exact (sign_succeeds_end_to_end o L n_fits keccak256 keccak256_length nonce fuel m t d chain). Qed.

(* ---------- B. the wire bytes for any V ---------- *)

(* what the format's V convention makes of the V the signer answered (pkg/secp256k1 UpdateEIP155 /
   UpdateEIP2930, written out): unchanged in the original format; V + 2*chain + 8 for EIP-155 (big
   integer arithmetic); V - 27 in type 0x02 exactly when the low 64 bits of V read as int64 are 27
   or 28, unchanged otherwise *)
Definition v_written (fm : format) (chain v : Z) : Z :=
  match fm with
  | Original => v
  | Eip155 => v + chain * 2 + 8
  | Eip1559 => if (wrap64 v =? 27) || (wrap64 v =? 28) then v - 27 else v
  end%Z.

(* the signed transaction with an arbitrary scalar in the V / y-parity position *)
Definition spec_signed_v (fm : format) (f : fields) (chain V r s : N) : bytes :=
  let sig := [ scalar V; scalar r; scalar s ] in
  match fm with
  | Original | Eip155 => RLP (L (legacy_body f ++ sig))
  | Eip1559 => x02 :: RLP (L (eip1559_body f chain ++ sig))
  end.

Lemma spec_signed_is_v fm f c y r s : spec_signed fm f c y r s = spec_signed_v fm f c (spec_v fm c y) r s.
Proof. destruct fm; reflexivity. Qed.

(* for a 27/28 signature and chain >= 0 the written V is the specification's V *)
Lemma v_written_legacy fm chain v : v_legacy v -> (0 <= chain)%Z ->
  Z.abs_N (v_written fm chain v) = spec_v fm (Z.to_N chain) (y_of v).
Proof.
  intros [-> | ->] Hc; destruct fm; unfold v_written, spec_v, y_of; cbn [wrap64]; try reflexivity; lia.
Qed.

Lemma finalize_any_v_original t v r s out :
  FinalizeLegacyOriginalWithSignature t (SignaturePayloadLegacyOriginal t) (v, r, s) = Ok out -> short out ->
  out = spec_signed_v Original (norm t) 0 (Z.abs_N v) (Z.abs_N r) (Z.abs_N s).
Proof.
  intros E Hs. unfold FinalizeLegacyOriginalWithSignature in E. apply Ok_inj in E. subst out.
  rewrite (encode_list_spec _ Hs). cbn [SignaturePayloadLegacyOriginal sp_list addSignature].
  rewrite map_app, to_tree_BuildLegacy. cbn [map]. rewrite !to_tree_WrapBig. reflexivity.
Qed.

Lemma finalize_any_v_eip155 t chain v r s out :
  FinalizeLegacyEIP155WithSignature t (SignaturePayloadLegacyEIP155 t chain) (v, r, s) chain = Ok out -> short out ->
  out = spec_signed_v Eip155 (norm t) (Z.abs_N chain) (Z.abs_N (v + chain * 2 + 8)) (Z.abs_N r) (Z.abs_N s).
Proof.
  intros E Hs. unfold FinalizeLegacyEIP155WithSignature in E.
  cbn [SignaturePayloadLegacyEIP155 sp_list] in E. rewrite lslice_legacy6 in E. cbn [bind UpdateEIP155] in E.
  apply Ok_inj in E. subst out.
  rewrite (encode_list_spec _ Hs). cbn [addSignature].
  rewrite map_app, to_tree_BuildLegacy. cbn [map]. rewrite !to_tree_WrapBig. reflexivity.
Qed.

Lemma finalize_any_v_eip1559 t chain v r s out :
  FinalizeEIP1559WithSignature t (SignaturePayloadEIP1559 t chain) (v, r, s) = Ok out -> short out ->
  out = spec_signed_v Eip1559 (norm t) (Z.abs_N chain) (Z.abs_N (v_written Eip1559 chain v)) (Z.abs_N r) (Z.abs_N s).
Proof.
  intros E Hs. unfold FinalizeEIP1559WithSignature in E. apply Ok_inj in E. subst out. apply short_tail in Hs.
  rewrite (encode_list_spec _ Hs). cbn [SignaturePayloadEIP1559 sp_list].
  unfold UpdateEIP2930, v_written.
  destruct ((wrap64 v =? 27)%Z || (wrap64 v =? 28)%Z); cbn [addSignature];
    rewrite map_app, to_tree_Build1559; cbn [map]; rewrite !to_tree_WrapBig; reflexivity.
Qed.

Lemma finalize_any_v m t chain v r s out :
  finalize m t chain (v, r, s) = Ok out -> short out ->
  out = spec_signed_v (format_of m t) (norm t) (Z.abs_N chain)
          (Z.abs_N (v_written (format_of m t) chain v)) (Z.abs_N r) (Z.abs_N s).
Proof.
  destruct m; cbn [finalize format_of].
  - intros E Hs. rewrite (finalize_any_v_original t v r s out E Hs). reflexivity.
  - apply finalize_any_v_eip155.
  - apply finalize_any_v_eip1559.
  - destruct (wants1559 t); [apply finalize_any_v_eip1559|apply finalize_any_v_eip155].
Qed.

(* Theorem 1 without the restriction to V in {27,28}: whatever (V, R, S) the signer answers, the
   returned bytes are the format's list with |V'|, |R|, |S| appended as scalars, V' the updated V. *)
Theorem sign_wire_format_any_v m t f chain :
  (0 <= chain)%Z ->
  let fm := format_of m t in
  let c := Z.to_N chain in
  let pre := spec_preimage fm (norm t) c in
  let pd := sp_data (payload_of m t chain) in
  (short pd -> pd = pre) /\
  match f pd with
  | Ok (v, r, s) =>
      exists out, sign_mode m t (Some f) chain = Ok out /\
        (short out ->
         out = spec_signed_v fm (norm t) c (Z.abs_N (v_written fm chain v)) (Z.abs_N r) (Z.abs_N s)) /\
        (v_legacy v -> Z.abs_N (v_written fm chain v) = spec_v fm c (y_of v))
  | Err e => sign_mode m t (Some f) chain = Err e
  | Panic => sign_mode m t (Some f) chain = Panic
  end.
Proof.
  intros Hc fm c pre pd.
  assert (Ec : Z.abs_N chain = c) by (unfold c; lia).
  split.
  - intros Hp. pose proof (payload_is_preimage m t chain Hp) as Epre. rewrite Ec in Epre. exact Epre.
  - rewrite sign_mode_unfold. fold pd.
    destruct (f pd) as [[[v r] s]|e|]; cbn [bind]; try reflexivity.
    destruct (finalize_never_fails m t chain (v, r, s)) as [out E].
    exists out. split; [exact E|]. split.
    + intros Hs. rewrite <- Ec. apply finalize_any_v; assumption.
    + intros Hv. apply v_written_legacy; assumption.
Qed.

(* ---------- C. the specification's BE, characterised independently of its definition ---------- *)
(* [of_be] (Rlp/Model.v) is the plain left fold acc*256+b; [head_nz] "the first byte, if any, is not
   zero".  BE x is THE byte string with big-endian value x and no leading zero. *)
Theorem BE_characterised x :
  of_be (BE x) = x /\ head_nz (BE x) /\
  (forall l, head_nz l -> of_be l = x -> l = BE x) /\
  (BE 0 = [] /\ forall l, of_be l = 0%N -> head_nz l -> l = []).
Proof.
  destruct (BE_spec x) as [E Hh]. split; [exact E|]. split; [exact Hh|]. split.
  - intros l Hl El. apply minimal_unique; [exact Hl|exact Hh|]. rewrite E. exact El.
  - split; [reflexivity|]. intros l El Hl.
    change [] with (BE 0). destruct (BE_spec 0) as [E0 Hh0].
    apply minimal_unique; [exact Hl|exact Hh0|]. rewrite E0. exact El.
Qed.

(* ---------- D. the two signer laws of theorem 5 hold for non-constant signers ---------- *)
(* theorem 5 (recover_sign_keypair) assumes two laws of sign_direct / RecoverDirect; they are
   satisfied by the C05 models over ANY group with the ECDSA laws (this is how theorem 7 uses
   them), in particular by the toy group: not only by constant functions *)
Theorem keypair_laws_satisfied o (L : laws o) (n_fits : (n o < SM.two256)%Z)
        (H : bytes -> bytes) (H_len : forall x, length (H x) = 32%nat)
        (nonce : Z -> bytes -> nat -> Z) (fuel : nat) (d : N) (chain : Z) :
  (1 <= Z.of_N d < n o)%Z -> (0 <= chain <= 2 ^ 53)%Z ->
  (forall z v r s, secp_sign_direct o nonce fuel d z = Ok (v, r, s) -> (0 <= r)%Z /\ (0 <= s)%Z) /\
  (forall z v r s, secp_sign_direct o nonce fuel d z = Ok (v, r, s) -> v_legacy v ->
     secp_RecoverDirect o H (v, r, s) z chain = Ok (secp_address o H d) /\
     secp_RecoverDirect o H ((v - 27)%Z, r, s) z chain = Ok (secp_address o H d)).
Proof.
  intros Hd Hc. split.
  - intros z v r s. apply (secp_SD_nonneg o L n_fits H H_len nonce fuel).
  - intros z v r s E Hv. apply (secp_RD_inverts o L n_fits H H_len nonce fuel d chain z v r s Hd Hc E Hv).
Qed.

(* ---------- E. the retry budget [fuel] is a model artefact: it does not influence the bytes ---------- *)
(* (review issue 2/3) The Go code has no fuel; the model's signing loop has.  Any two budgets under
   which signing succeeds give the same bytes, so "the bytes the mode returns" is well defined
   independently of the model-only parameter, and a larger budget never turns success into failure. *)
Lemma sign_loop_mono o f (nonce : nat -> Z) it d z e :
  ecdsa_sign_loop o f nonce it d z = Some e ->
  forall f', (f <= f')%nat -> ecdsa_sign_loop o f' nonce it d z = Some e.
Proof.
  revert it. induction f as [|f IH]; intros it E f' Hle; [discriminate|].
  destruct f' as [|f']; [lia|]. cbn [ecdsa_sign_loop] in *.
  destruct (ecdsa_sign o d z (nonce it)); [exact E|]. apply IH; [exact E|lia].
Qed.

Lemma SignDirect_fuel_mono o nonce f f' d msg sg : (f <= f')%nat ->
  SM.SignDirect o nonce f d msg = Ok sg -> SM.SignDirect o nonce f' d msg = Ok sg.
Proof.
  intros Hle. unfold SM.SignDirect, SM.SignCompact.
  destruct (ecdsa_sign_loop o f (nonce d msg) 0 d (SM.hash_to_z msg)) as [e|] eqn:E; [|discriminate].
  rewrite (sign_loop_mono o f _ 0 d _ e E f' Hle). exact (fun x => x).
Qed.

Theorem fuel_irrelevant o (H : bytes -> bytes) (nonce : Z -> bytes -> nat -> Z) f1 f2 m t d chain out1 :
  (f1 <= f2)%nat ->
  sign_mode m t (Some (KeyPairSign H (secp_sign_direct o nonce f1) d)) chain = Ok out1 ->
  sign_mode m t (Some (KeyPairSign H (secp_sign_direct o nonce f2) d)) chain = Ok out1.
Proof.
  intros Hle. rewrite !sign_mode_unfold. unfold KeyPairSign, secp_sign_direct.
  set (z := H (sp_data (payload_of m t chain))).
  destruct (SM.SignDirect o nonce f1 (Z.of_N d) z) as [sg|e|] eqn:E; cbn [bind]; try discriminate.
  rewrite (SignDirect_fuel_mono o nonce f1 f2 (Z.of_N d) z sg Hle E). cbn [bind]. exact (fun x => x).
Qed.

Theorem fuel_irrelevant_sym o (H : bytes -> bytes) (nonce : Z -> bytes -> nat -> Z) f1 f2 m t d chain out1 out2 :
  sign_mode m t (Some (KeyPairSign H (secp_sign_direct o nonce f1) d)) chain = Ok out1 ->
  sign_mode m t (Some (KeyPairSign H (secp_sign_direct o nonce f2) d)) chain = Ok out2 ->
  out1 = out2.
Proof.
  intros E1 E2. destruct (Nat.le_ge_cases f1 f2) as [Hle|Hle].
  - pose proof (fuel_irrelevant o H nonce f1 f2 m t d chain out1 Hle E1) as E. rewrite E in E2. congruence.
  - pose proof (fuel_irrelevant o H nonce f2 f1 m t d chain out2 Hle E2) as E. rewrite E in E1. congruence.
Qed.
