(* Proofs for C01, part 4: the size guards of the earlier theorems ("payload shorter than 2^64
   bytes", "output at most 2^31-1 bytes") follow from bounds on the *inputs*: every integer field
   below 2^256 (the property's quantifier), data of at most 2^31-1024 bytes, chain id in [0, 2^53].
   With them the end-to-end theorem is restated with guards on the inputs only. *)
From Coq Require Import List NArith ZArith Lia Bool Arith.
From Coq Require Import ZifyN ZifyNat ZifyBool.
From Coq Require Import Init.Byte.
From FFS Require Import Base.Res Base.Bytes Crypto.Ecdsa Rlp.Model Rlp.Spec Rlp.Proofs.
From FFS Require Import Tx.Model Tx.Spec Tx.Norm Tx.SignProofs Tx.RecoverModel Tx.SignProofs2 Tx.SignProofs3.
Import ListNotations.

(* ---------- lengths of encodings ---------- *)
Lemma hdr_len_le9 n : (hdr_len n <= 9)%nat.
Proof.
  unfold hdr_len. destruct (n <=? 55)%nat; [lia|].
  pose proof (be_min_length (N.of_nat n)). lia.
Qed.

Lemma enc_bytes_len p il : (length (encode_bytes p il) <= 9 + length p)%nat.
Proof. pose proof (encode_bytes_len_le p il). pose proof (hdr_len_le9 (length p)). lia. Qed.

Lemma enc_str_len b : (length (encode (Str b)) <= 9 + length b)%nat.
Proof. apply enc_bytes_len. Qed.

Lemma enc_list_len l : (length (encode (Lst l)) <= 9 + length (flat_map encode l))%nat.
Proof. apply enc_bytes_len. Qed.

(* the minimal big-endian form of a number below 256^k has at most k bytes *)
Lemma bb_len z k : (Z.abs z < 256 ^ Z.of_nat k)%Z -> (length (bb z) <= k)%nat.
Proof.
  intros Hz. destruct (bb z) as [|b tl] eqn:E; [cbn; lia|].
  assert (Hne : bb z <> []) by (rewrite E; discriminate).
  pose proof (of_be_lower (bb z) Hne (bb_head z)) as Hlow. rewrite of_be_bb in Hlow.
  rewrite <- E.
  assert (H2 : (256 ^ N.of_nat (length (bb z) - 1) < 256 ^ N.of_nat k)%N).
  { apply N.le_lt_trans with (Z.abs_N z); [exact Hlow|].
    apply N2Z.inj_lt. rewrite N2Z.inj_abs_N, N2Z.inj_pow, nat_N_Z. exact Hz. }
  apply pow256_lt_inv in H2. lia.
Qed.

Lemma enc_int_len z k : (Z.abs z < 256 ^ Z.of_nat k)%Z -> (length (encode (WrapBig z)) <= 9 + k)%nat.
Proof. intros Hz. rewrite WrapBig_Str. pose proof (enc_str_len (bb z)). pose proof (bb_len z k Hz). lia. Qed.

(* ---------- the region of inputs the property quantifies over ---------- *)
Definition two256 : Z := (256 ^ Z.of_nat 32)%Z.
Definition below256 (h : option Z) : Prop := (Z.abs (BigInt h) < two256)%Z.
Definition data_max : nat := N.to_nat 2147482624.      (* 2^31 - 1024 *)

Definition in_range (t : tx) : Prop :=
  to_ok t = true /\
  below256 (tx_nonce t) /\ below256 (tx_gasPrice t) /\ below256 (tx_maxPrio t) /\ below256 (tx_maxFee t) /\
  below256 (tx_gasLimit t) /\ below256 (tx_value t) /\
  (length (BytesNotNil (tx_data t)) <= data_max)%nat.

Lemma to_len t : to_ok t = true -> (length (to_bytes (tx_to t)) <= 20)%nat.
Proof. intros H. destruct (to_ok_addr_len t H) as [E|E]; rewrite E; lia. Qed.

Lemma chain_small chain : (0 <= chain <= 2 ^ 53)%Z -> (Z.abs chain < 256 ^ Z.of_nat 8)%Z.
Proof. intros H. change (256 ^ Z.of_nat 8)%Z with (2 ^ 64)%Z. lia. Qed.

Section Bounds.
Variable t : tx.
Hypothesis R : in_range t.
Variable chain : Z.
Hypothesis Hc : (0 <= chain <= 2 ^ 53)%Z.

Let dl := length (BytesNotNil (tx_data t)).

Lemma BuildLegacy_len : (length (flat_map encode (BuildLegacy t)) <= 202 + dl)%nat.
Proof.
  destruct R as (Ht & H1 & H2 & H3 & H4 & H5 & H6 & Hd). unfold below256, two256 in *.
  unfold BuildLegacy. cbn [flat_map]. rewrite !app_length. cbn [length].
  pose proof (enc_int_len _ 32 H1). pose proof (enc_int_len _ 32 H2). pose proof (enc_int_len _ 32 H5).
  pose proof (enc_int_len _ 32 H6). rewrite WrapAddress_Str.
  pose proof (enc_str_len (to_bytes (tx_to t))). pose proof (to_len t Ht).
  pose proof (enc_str_len (BytesNotNil (tx_data t))). unfold WrapData. fold dl in H9 |- *. lia.
Qed.

Lemma Build1559_len : (length (flat_map encode (Build1559 t chain)) <= 261 + dl)%nat.
Proof.
  destruct R as (Ht & H1 & H2 & H3 & H4 & H5 & H6 & Hd). unfold below256, two256 in *.
  unfold Build1559. cbn [flat_map]. rewrite !app_length.
  pose proof (enc_int_len _ 8 (chain_small _ Hc)).
  pose proof (enc_int_len _ 32 H1). pose proof (enc_int_len _ 32 H3). pose proof (enc_int_len _ 32 H4).
  pose proof (enc_int_len _ 32 H5). pose proof (enc_int_len _ 32 H6). rewrite WrapAddress_Str.
  pose proof (enc_str_len (to_bytes (tx_to t))). pose proof (to_len t Ht).
  pose proof (enc_str_len (BytesNotNil (tx_data t))). unfold WrapData. fold dl in H11 |- *.
  change (length (encode (Lst []))) with 1%nat. cbn [length]. lia.
Qed.

Lemma sig_len v r s : (Z.abs v < 256 ^ Z.of_nat 8)%Z -> (Z.abs r < two256)%Z -> (Z.abs s < two256)%Z ->
  (length (flat_map encode [WrapBig v; WrapBig r; WrapBig s]) <= 99)%nat.
Proof.
  intros Hv Hr Hs. unfold two256 in *. cbn [flat_map]. rewrite !app_length. cbn [length].
  pose proof (enc_int_len _ 8 Hv). pose proof (enc_int_len _ 32 Hr). pose proof (enc_int_len _ 32 Hs). lia.
Qed.

Lemma dl_max : (dl <= data_max)%nat.
Proof. destruct R as (_ & _ & _ & _ & _ & _ & _ & Hd). exact Hd. Qed.

Lemma data_max_val : N.of_nat data_max = 2147482624%N.
Proof. unfold data_max. apply N2Nat.id. Qed.

(* the signature payload of every mode is far below 2^64 bytes *)
Lemma payload_short m : short (sp_data (payload_of m t chain)).
Proof.
  pose proof BuildLegacy_len as HL. pose proof Build1559_len as H9. pose proof dl_max as Hd.
  pose proof data_max_val as Hm. unfold short.
  assert (E155 : (length (flat_map encode (AddEIP155HashValuesToRLPList (BuildLegacy t) chain)) <= 202 + dl + 19)%nat).
  { unfold AddEIP155HashValuesToRLPList. rewrite flat_map_app, app_length.
    pose proof (enc_int_len _ 8 (chain_small _ Hc)).
    cbn [flat_map]. rewrite !app_length. change (length (encode (WrapBig 0))) with 1%nat. cbn [length]. lia. }
  destruct m; cbn [payload_of]; unfold SignaturePayload; try destruct (wants1559 t);
    cbn [SignaturePayloadLegacyOriginal SignaturePayloadLegacyEIP155 SignaturePayloadEIP1559 sp_data length];
    match goal with |- context [encode (Lst ?l)] => pose proof (enc_list_len l) end; lia.
Qed.

(* what a mode returns for a signature with |V| <= 30, |R|,|S| < 2^256 is at most 2^31-1 bytes *)
Lemma finalize_small m v r s out :
  (Z.abs v <= 30)%Z -> (Z.abs r < two256)%Z -> (Z.abs s < two256)%Z ->
  finalize m t chain (v, r, s) = Ok out -> (N.of_nat (length out) <= maxInt32)%N.
Proof.
  intros Hv Hr Hs.
  pose proof BuildLegacy_len as HL. pose proof Build1559_len as H9. pose proof dl_max as Hd.
  pose proof data_max_val as Hm. unfold maxInt32.
  assert (Orig : forall o, FinalizeLegacyOriginalWithSignature t (SignaturePayloadLegacyOriginal t) (v, r, s) = Ok o ->
                 (N.of_nat (length o) <= 2147483647)%N).
  { intros o E. apply Ok_inj in E. subst o. cbn [SignaturePayloadLegacyOriginal sp_list addSignature].
    match goal with |- context [encode (Lst ?l)] => pose proof (enc_list_len l) as HE end.
    rewrite flat_map_app, app_length in HE.
    assert (Hv8 : (Z.abs v < 256 ^ Z.of_nat 8)%Z) by (change (256 ^ Z.of_nat 8)%Z with (2 ^ 64)%Z; lia).
    pose proof (sig_len v r s Hv8 Hr Hs). lia. }
  assert (E155 : forall o, FinalizeLegacyEIP155WithSignature t (SignaturePayloadLegacyEIP155 t chain) (v, r, s) chain = Ok o ->
                 (N.of_nat (length o) <= 2147483647)%N).
  { intros o E. unfold FinalizeLegacyEIP155WithSignature in E.
    cbn [SignaturePayloadLegacyEIP155 sp_list] in E. rewrite lslice_legacy6 in E. cbn [bind UpdateEIP155] in E.
    apply Ok_inj in E. subst o. cbn [addSignature].
    match goal with |- context [encode (Lst ?l)] => pose proof (enc_list_len l) as HE end.
    rewrite flat_map_app, app_length in HE.
    assert (Hv8 : (Z.abs (v + chain * 2 + (35 - 27)) < 256 ^ Z.of_nat 8)%Z)
      by (change (256 ^ Z.of_nat 8)%Z with (2 ^ 64)%Z; lia).
    pose proof (sig_len _ r s Hv8 Hr Hs). lia. }
  assert (E1559 : forall o, FinalizeEIP1559WithSignature t (SignaturePayloadEIP1559 t chain) (v, r, s) = Ok o ->
                 (N.of_nat (length o) <= 2147483647)%N).
  { intros o E. unfold FinalizeEIP1559WithSignature in E. apply Ok_inj in E. subst o.
    cbn [SignaturePayloadEIP1559 sp_list length].
    assert (Hv8 : exists v', UpdateEIP2930 (v, r, s) = (v', r, s) /\ (Z.abs v' < 256 ^ Z.of_nat 8)%Z).
    { unfold UpdateEIP2930. destruct ((wrap64 v =? 27)%Z || (wrap64 v =? 28)%Z);
        eexists; (split; [reflexivity|]); change (256 ^ Z.of_nat 8)%Z with (2 ^ 64)%Z; lia. }
    destruct Hv8 as (v' & -> & Hv8). cbn [addSignature].
    match goal with |- context [encode (Lst ?l)] => pose proof (enc_list_len l) as HE end.
    rewrite flat_map_app, app_length in HE.
    pose proof (sig_len _ r s Hv8 Hr Hs). lia. }
  destruct m; cbn [finalize]; try destruct (wants1559 t); auto.
Qed.
End Bounds.

(* ---------- the end-to-end theorem with guards on the inputs only ---------- *)
Section Secp.
Variable o : group_ops.
Hypothesis L : laws o.
Hypothesis n_fits : (n o < SM.two256)%Z.
Variable H : bytes -> bytes.
Hypothesis H_len : forall x, length (H x) = 32%nat.
Variable nonce : Z -> bytes -> nat -> Z.
Variable fuel : nat.

Theorem sign_recover_secp_in_range m t d chain out :
  (1 <= Z.of_N d < n o)%Z -> (0 <= chain <= 2 ^ 53)%Z -> in_range t ->
  sign_mode m t (Some (KeyPairSign H (secp_sign_direct o nonce fuel) d)) chain = Ok out ->
  let fm := format_of m t in
  let c := Z.to_N chain in
  let pre := spec_preimage fm (norm t) c in
  exists v r s,
    SM.SignDirect o nonce fuel (Z.of_N d) (H pre) = Ok {| SM.sV := v; SM.sR := r; SM.sS := s |} /\
    (1 <= r < n o)%Z /\ (1 <= s < n o)%Z /\ (2 * s <= n o)%Z /\
    ecdsa_verify o (pub o (Z.of_N d)) (SM.hash_to_z (H pre)) r s = true /\
    (v_legacy v ->
       out = spec_signed fm (norm t) c (y_of v) (Z.to_N r) (Z.to_N s) /\
       RecoverRawTransaction H (secp_RecoverDirect o H) out chain
       = Ok (secp_address o H d, recovered_tx fm (norm t), pre)).
Proof.
  intros Hd Hc HR Hsign.
  pose proof (payload_short t HR chain Hc m) as Hshort.
  assert (Hlen : (N.of_nat (length out) <= maxInt32)%N).
  { pose proof Hsign as Hs2. rewrite sign_mode_unfold in Hs2.
    destruct (KeyPairSign H (secp_sign_direct o nonce fuel) d (sp_data (payload_of m t chain)))
      as [[[v r] s]|e|] eqn:E; try discriminate.
    cbn [bind] in Hs2. unfold KeyPairSign in E. apply secp_SD_inv in E.
    destruct (SP.SignDirect_shape o L n_fits nonce fuel _ _ _ E) as (Hv & Hr & Hs & _).
    cbn [SM.sV SM.sR SM.sS] in Hv, Hr, Hs.
    assert (n o < two256)%Z by (exact n_fits).
    apply (finalize_small t HR chain Hc m v r s out); try lia. exact Hs2. }
  destruct HR as (Ht & _).
  exact (sign_recover_secp o L n_fits H H_len nonce fuel m t d chain out Hd Hc Ht Hsign Hlen Hshort).
Qed.
End Secp.
