(* Executable model of the *signing / building* side of pkg/ethsigner/transaction.go and of the V
   conventions of pkg/secp256k1/signer.go (UpdateEIP155, UpdateEIP2930).  One definition per Go
   function, same order of steps and guards.  The recovery side of transaction.go lives in
   Tx/RecoverModel.v (property C10) and imports the [tx] record and the list builders of this file.

   External behaviour: the secp256k1.Signer interface value passed by the caller is a function
   [signer := bytes -> res sigdata] (message in, (V,R,S) or error out); the KeyPair signer of
   pkg/secp256k1 (Keccak, then btcec SignCompact) is [KeyPairSign H sign_direct d] with the hash and
   the ECDSA primitive as parameters.  No proofs in this file. *)
From Coq Require Import List NArith ZArith Lia Bool.
From Coq Require Import Init.Byte.
From FFS Require Import Base.Res Base.Bytes Rlp.Model.
Import ListNotations.

(* error classes of the signing functions *)
Definition EInvalidSigner := 1%nat.   (* signer == nil *)
(* any other class comes from the Signer itself and is passed through unchanged *)

(* ---------- ethsigner.Transaction ----------
   *ethtypes.HexInteger (a *big.Int): [None] = nil pointer, [Some z] = the integer (Go's big.Int is
   signed; UnmarshalJSON rejects negatives but a Go caller can construct one).
   *ethtypes.Address0xHex (a *[20]byte): [None] = nil, [Some a] with [length a = 20] by the Go type.
   ethtypes.HexBytes0xPrefix ([]byte): [None] = nil slice, [Some b] = non-nil slice.
   The [From] field (json.RawMessage) is never read by any function modelled here and is omitted. *)
Record tx := mkTx {
  tx_nonce    : option Z;
  tx_gasPrice : option Z;
  tx_maxPrio  : option Z;    (* MaxPriorityFeePerGas *)
  tx_maxFee   : option Z;    (* MaxFeePerGas *)
  tx_gasLimit : option Z;
  tx_to       : option bytes;
  tx_value    : option Z;
  tx_data     : option bytes
}.

(* HexInteger.BigInt(): nil -> new(big.Int) = 0 *)
Definition BigInt (h : option Z) : Z := match h with Some z => z | None => 0%Z end.

(* rlp.WrapInt(i) = Data(i.Bytes()): big.Int.Bytes() is the minimal big-endian form of |i| *)
Definition WrapBig (z : Z) : item := WrapInt (Z.abs_N z).

(* rlp.Data(t.Data): a conversion; a nil and an empty slice are both the empty RLP string *)
Definition WrapData (d : option bytes) : item := Str (BytesNotNil d).

(* Go [l[lo:hi]] on an rlp.List whose capacity equals its length or more: panics unless
   lo <= hi <= cap; every list reaching this point was built by the functions below, for which
   hi <= len is what decides (capacity beyond len is never relied upon) *)
Definition lslice {A} (l : list A) (lo hi : nat) : res (list A) :=
  if (lo <=? hi)%nat && (hi <=? length l)%nat then Ok (firstn (hi - lo) (skipn lo l)) else Panic.

(* func (t *Transaction) BuildLegacy() rlp.List *)
Definition BuildLegacy (t : tx) : list item :=
  [ WrapBig (BigInt (tx_nonce t));
    WrapBig (BigInt (tx_gasPrice t));
    WrapBig (BigInt (tx_gasLimit t));
    WrapAddress (tx_to t);
    WrapBig (BigInt (tx_value t));
    WrapData (tx_data t) ].

(* func AddEIP155HashValuesToRLPList(rlpList rlp.List, chainID int64) rlp.List
   (and the method AddEIP155HashValues which only forwards to it) *)
Definition AddEIP155HashValuesToRLPList (l : list item) (chain : Z) : list item :=
  l ++ [ WrapBig chain; WrapBig 0; WrapBig 0 ].

(* func (t *Transaction) Build1559(chainID int64) rlp.List *)
Definition Build1559 (t : tx) (chain : Z) : list item :=
  [ WrapBig chain;
    WrapBig (BigInt (tx_nonce t));
    WrapBig (BigInt (tx_maxPrio t));
    WrapBig (BigInt (tx_maxFee t));
    WrapBig (BigInt (tx_gasLimit t));
    WrapAddress (tx_to t);
    WrapBig (BigInt (tx_value t));
    WrapData (tx_data t);
    Lst [] ].                                  (* access list not supported: always empty *)

(* TransactionType1559 *)
Definition TransactionType1559 : byte := x02.

(* type TransactionSignaturePayload struct { rlpList rlp.List; data []byte } *)
Record payload := mkPayload { sp_list : list item; sp_data : bytes }.

(* sp.Bytes() *)
Definition PayloadBytes (sp : payload) : bytes := sp_data sp.
(* sp.Hash(): Keccak-256 of the bytes; the hash function is a parameter *)
Definition PayloadHash (H : bytes -> bytes) (sp : payload) : bytes := H (sp_data sp).

(* func (t *Transaction) SignaturePayloadLegacyOriginal() *)
Definition SignaturePayloadLegacyOriginal (t : tx) : payload :=
  let l := BuildLegacy t in mkPayload l (encode (Lst l)).

(* func (t *Transaction) SignaturePayloadLegacyEIP155(chainID int64) *)
Definition SignaturePayloadLegacyEIP155 (t : tx) (chain : Z) : payload :=
  let l := AddEIP155HashValuesToRLPList (BuildLegacy t) chain in mkPayload l (encode (Lst l)).

(* func (t *Transaction) SignaturePayloadEIP1559(chainID int64): type byte, then the list *)
Definition SignaturePayloadEIP1559 (t : tx) (chain : Z) : payload :=
  let l := Build1559 t chain in mkPayload l (TransactionType1559 :: encode (Lst l)).

(* the test of Sign / SignaturePayload:
   t.MaxPriorityFeePerGas.BigInt().Sign() > 0 || t.MaxFeePerGas.BigInt().Sign() > 0 *)
Definition wants1559 (t : tx) : bool :=
  (0 <? BigInt (tx_maxPrio t))%Z || (0 <? BigInt (tx_maxFee t))%Z.

(* func (t *Transaction) SignaturePayload(chainID int64) *)
Definition SignaturePayload (t : tx) (chain : Z) : payload :=
  if wants1559 t then SignaturePayloadEIP1559 t chain else SignaturePayloadLegacyEIP155 t chain.

(* ---------- secp256k1.SignatureData {V, R, S *big.Int} ---------- *)
Definition sigdata := (Z * Z * Z)%type.

(* big.Int.Int64(): the low 64 bits read as a two's-complement value *)
Definition wrap64 (z : Z) : Z := ((z + 2 ^ 63) mod 2 ^ 64 - 2 ^ 63)%Z.

(* func (s *SignatureData) UpdateEIP155(chainID int64): V = (V + chainID*2) + (35-27), in big.Int
   arithmetic (no wrap) *)
Definition UpdateEIP155 (sg : sigdata) (chain : Z) : sigdata :=
  let '(v, r, s) := sg in ((v + chain * 2 + (35 - 27))%Z, r, s).

(* func (s *SignatureData) UpdateEIP2930(): subtract 27 when V.Int64() is 27 or 28 *)
Definition UpdateEIP2930 (sg : sigdata) : sigdata :=
  let '(v, r, s) := sg in
  let vi64 := wrap64 v in
  if (vi64 =? 27)%Z || (vi64 =? 28)%Z then ((v - 27)%Z, r, s) else (v, r, s).

(* func (t *Transaction) addSignature(rlpList rlp.List, sig *secp256k1.SignatureData) rlp.List *)
Definition addSignature (l : list item) (sg : sigdata) : list item :=
  let '(v, r, s) := sg in l ++ [ WrapBig v; WrapBig r; WrapBig s ].

(* func (t *Transaction) FinalizeLegacyOriginalWithSignature(signaturePayload, sig) *)
Definition FinalizeLegacyOriginalWithSignature (t : tx) (sp : payload) (sg : sigdata) : res bytes :=
  Ok (encode (Lst (addSignature (sp_list sp) sg))).

(* func (t *Transaction) FinalizeLegacyEIP155WithSignature(signaturePayload, sig, chainID):
   sig.UpdateEIP155 (in place, on the caller's SignatureData), then the signature is appended onto
   signaturePayload.rlpList[0:6] (this overwrites elements 6..8 of the payload's own backing array
   when it has them; the payload's list is not read again) *)
Definition FinalizeLegacyEIP155WithSignature (t : tx) (sp : payload) (sg : sigdata) (chain : Z)
  : res bytes :=
  let sg' := UpdateEIP155 sg chain in
  do l6 <- lslice (sp_list sp) 0 6;
  Ok (encode (Lst (addSignature l6 sg'))).

(* func (t *Transaction) FinalizeEIP1559WithSignature(signaturePayload, sig) *)
Definition FinalizeEIP1559WithSignature (t : tx) (sp : payload) (sg : sigdata) : res bytes :=
  let sg' := UpdateEIP2930 sg in
  Ok (TransactionType1559 :: encode (Lst (addSignature (sp_list sp) sg'))).

(* ---------- the Signer interface and the signing entry points ---------- *)

(* secp256k1.Signer: Sign(msgToHashAndSign []byte) returning a SignatureData pointer or an error *)
Definition signer := bytes -> res sigdata.

(* func (t *Transaction) SignLegacyOriginal(signer) ([]byte, error); [None] = nil interface *)
Definition SignLegacyOriginal (t : tx) (sg : option signer) : res bytes :=
  match sg with
  | None => Err EInvalidSigner
  | Some f =>
      let sp := SignaturePayloadLegacyOriginal t in
      do sig <- f (sp_data sp);
      FinalizeLegacyOriginalWithSignature t sp sig
  end.

(* func (t *Transaction) SignLegacyEIP155(signer, chainID) ([]byte, error) *)
Definition SignLegacyEIP155 (t : tx) (sg : option signer) (chain : Z) : res bytes :=
  match sg with
  | None => Err EInvalidSigner
  | Some f =>
      let sp := SignaturePayloadLegacyEIP155 t chain in
      do sig <- f (sp_data sp);
      FinalizeLegacyEIP155WithSignature t sp sig chain
  end.

(* func (t *Transaction) SignEIP1559(signer, chainID) ([]byte, error) *)
Definition SignEIP1559 (t : tx) (sg : option signer) (chain : Z) : res bytes :=
  match sg with
  | None => Err EInvalidSigner
  | Some f =>
      let sp := SignaturePayloadEIP1559 t chain in
      do sig <- f (sp_data sp);
      FinalizeEIP1559WithSignature t sp sig
  end.

(* func (t *Transaction) Sign(signer, chainID) ([]byte, error): automatic choice *)
Definition Sign (t : tx) (sg : option signer) (chain : Z) : res bytes :=
  match sg with
  | None => Err EInvalidSigner
  | Some _ =>
      if wants1559 t then SignEIP1559 t sg chain else SignLegacyEIP155 t sg chain
  end.

(* ---------- the caller-visible state after a call ----------
   Every function above has the receiver [t *Transaction].  None of them assigns to a field of [t],
   and the two places where memory reachable from [t] is aliased (rlp.Data(t.Data) and
   rlp.WrapAddress(t.To) = Data(a[0:20])) are only read (copied by encodeBytes).  The transaction the
   caller holds after the call is therefore the one passed in; the [_call] forms return it next to
   the result so that the correspondence check compares it with what the Go caller observes. *)
Inductive mode := LegacyOriginal | LegacyEIP155 | EIP1559 | Auto.

Definition sign_mode (m : mode) (t : tx) (sg : option signer) (chain : Z) : res bytes :=
  match m with
  | LegacyOriginal => SignLegacyOriginal t sg
  | LegacyEIP155 => SignLegacyEIP155 t sg chain
  | EIP1559 => SignEIP1559 t sg chain
  | Auto => Sign t sg chain
  end.

Definition sign_call (m : mode) (t : tx) (sg : option signer) (chain : Z) : res bytes * tx :=
  (sign_mode m t sg chain, t).

(* ---------- secp256k1.KeyPair as a Signer ----------
   func (k *KeyPair) Sign(message) = k.SignDirect(keccak256(message)); SignDirect calls btcec's
   SignCompact and unpacks V = sig[0] (27/28 [+2 when R.x overflowed the group order]),
   R = sig[1:33], S = sig[33:65].  [sign_direct d z] stands for SignDirect with private scalar [d];
   its model and laws are property C05's. *)
Definition KeyPairSign (H : bytes -> bytes) (sign_direct : N -> bytes -> res sigdata) (d : N) : signer :=
  fun msg => sign_direct d (H msg).
