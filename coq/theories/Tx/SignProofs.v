(* Proofs for C01, part 1: every signing mode hands the signer exactly the preimage the EIPs
   prescribe and returns exactly the prescribed wire bytes; automatic mode; purity. *)
From Coq Require Import List NArith ZArith Lia Bool Arith.
From Coq Require Import ZifyN ZifyNat ZifyBool.
From Coq Require Import Init.Byte.
From FFS Require Import Base.Res Base.Bytes Rlp.Model Rlp.Spec Rlp.Proofs Tx.Model Tx.Spec Tx.Norm.
Import ListNotations.

(* a byte string whose length fits Go's int (any slice that exists) *)
Definition short (b : bytes) : Prop := (N.of_nat (length b) < 2 ^ 64)%N.

(* ---------- lengths: an encoding is at least as long as what it contains ---------- *)
Lemma encode_bytes_len_ge p il : (length p <= length (encode_bytes p il))%nat.
Proof.
  unfold encode_bytes.
  destruct p as [|b [|c t]]; destruct il; cbn [length];
  repeat match goal with |- context [if ?c then _ else _] => destruct c end;
  cbn [length]; rewrite ?app_length; cbn [length]; lia.
Qed.

Lemma flat_map_encode_len_ge x l : In x l -> (length (encode x) <= length (flat_map encode l))%nat.
Proof.
  induction l as [|y l IH]; [intros []|]. intros [->|Hin]; cbn [flat_map]; rewrite app_length.
  - lia.
  - specialize (IH Hin). lia.
Qed.

Lemma len_ok_all l : (forall x, In x l -> len_ok x) ->
  (fix all (l : list item) : Prop := match l with [] => True | x :: t => len_ok x /\ all t end) l.
Proof.
  induction l as [|x l IH]; intros H; [exact I|]. split.
  - apply H; left; reflexivity.
  - apply IH. intros y Hy. apply H; right; exact Hy.
Qed.

(* whatever has an encoding shorter than 2^64 bytes has all its inner lengths below 2^64 *)
Lemma short_len_ok i : short (encode i) -> len_ok i.
Proof.
  unfold short. induction i as [b|l IH] using item_ind'; intros H.
  - cbn [len_ok]. cbn [encode] in H. pose proof (encode_bytes_len_ge b false). lia.
  - cbn [encode] in H. pose proof (encode_bytes_len_ge (flat_map encode l) true) as Hge.
    cbn [len_ok]. split; [|lia].
    apply len_ok_all. intros x Hx. rewrite Forall_forall in IH. apply IH; [exact Hx|].
    pose proof (flat_map_encode_len_ge x l Hx). lia.
Qed.

Lemma encode_short_is_RLP i : short (encode i) -> encode i = RLP (to_tree i).
Proof. intros H. apply encode_is_RLP, short_len_ok, H. Qed.

Lemma encode_list_spec l : short (encode (Lst l)) -> encode (Lst l) = RLP (L (map to_tree l)).
Proof. apply encode_short_is_RLP. Qed.

Lemma Ok_inj {A} (a b : A) : Ok a = Ok b -> a = b.
Proof. congruence. Qed.

(* ---------- the model's lists are the lists of the EIPs ---------- *)
Lemma to_tree_WrapBig z : to_tree (WrapBig z) = scalar (Z.abs_N z).
Proof. reflexivity. Qed.

Lemma to_tree_WrapAddress a : to_tree (WrapAddress a) = destination a.
Proof. destruct a; reflexivity. Qed.

Lemma to_tree_BuildLegacy t : map to_tree (BuildLegacy t) = legacy_body (norm t).
Proof. unfold BuildLegacy, legacy_body, norm. cbn [map]. rewrite to_tree_WrapAddress. reflexivity. Qed.

Lemma to_tree_Build1559 t chain :
  map to_tree (Build1559 t chain) = eip1559_body (norm t) (Z.abs_N chain).
Proof. unfold Build1559, eip1559_body, norm. cbn [map]. rewrite to_tree_WrapAddress. reflexivity. Qed.

Lemma to_tree_155 t chain :
  map to_tree (AddEIP155HashValuesToRLPList (BuildLegacy t) chain)
  = legacy_body (norm t) ++ [scalar (Z.abs_N chain); scalar 0; scalar 0].
Proof. unfold AddEIP155HashValuesToRLPList. rewrite map_app, to_tree_BuildLegacy. reflexivity. Qed.

(* ---------- signature payloads = prescribed preimages ---------- *)
Lemma payload_original t : short (sp_data (SignaturePayloadLegacyOriginal t)) ->
  sp_data (SignaturePayloadLegacyOriginal t) = spec_preimage Original (norm t) 0.
Proof.
  cbn [SignaturePayloadLegacyOriginal sp_data]. intros H.
  rewrite (encode_list_spec _ H). rewrite to_tree_BuildLegacy. reflexivity.
Qed.

Lemma payload_eip155 t chain : short (sp_data (SignaturePayloadLegacyEIP155 t chain)) ->
  sp_data (SignaturePayloadLegacyEIP155 t chain) = spec_preimage Eip155 (norm t) (Z.abs_N chain).
Proof.
  cbn [SignaturePayloadLegacyEIP155 sp_data]. intros H.
  rewrite (encode_list_spec _ H). rewrite to_tree_155. reflexivity.
Qed.

Lemma short_tail x b : short (x :: b) -> short b.
Proof. unfold short. cbn [length]. lia. Qed.

Lemma payload_eip1559 t chain : short (sp_data (SignaturePayloadEIP1559 t chain)) ->
  sp_data (SignaturePayloadEIP1559 t chain) = spec_preimage Eip1559 (norm t) (Z.abs_N chain).
Proof.
  cbn [SignaturePayloadEIP1559 sp_data]. intros H. apply short_tail in H.
  rewrite (encode_list_spec _ H). rewrite to_tree_Build1559. reflexivity.
Qed.

(* the preimage does not depend on the chain id in the original format *)
Lemma spec_preimage_original f c c' : spec_preimage Original f c = spec_preimage Original f c'.
Proof. reflexivity. Qed.

Theorem payload_is_preimage m t chain : short (sp_data (payload_of m t chain)) ->
  sp_data (payload_of m t chain) = spec_preimage (format_of m t) (norm t) (Z.abs_N chain).
Proof.
  destruct m; cbn [payload_of format_of].
  - intros H. rewrite payload_original by exact H. reflexivity.
  - apply payload_eip155.
  - apply payload_eip1559.
  - unfold SignaturePayload. destruct (wants1559 t); [apply payload_eip1559|apply payload_eip155].
Qed.

(* ---------- what each mode returns, for an arbitrary signer ---------- *)
(* the bytes the mode assembles from a signature the signer returned *)
Definition finalize (m : mode) (t : tx) (chain : Z) (sg : sigdata) : res bytes :=
  match m with
  | LegacyOriginal => FinalizeLegacyOriginalWithSignature t (SignaturePayloadLegacyOriginal t) sg
  | LegacyEIP155 => FinalizeLegacyEIP155WithSignature t (SignaturePayloadLegacyEIP155 t chain) sg chain
  | EIP1559 => FinalizeEIP1559WithSignature t (SignaturePayloadEIP1559 t chain) sg
  | Auto => if wants1559 t then FinalizeEIP1559WithSignature t (SignaturePayloadEIP1559 t chain) sg
            else FinalizeLegacyEIP155WithSignature t (SignaturePayloadLegacyEIP155 t chain) sg chain
  end.

Lemma sign_mode_unfold m t f chain :
  sign_mode m t (Some f) chain = bind (f (sp_data (payload_of m t chain))) (finalize m t chain).
Proof.
  destruct m; cbn [sign_mode payload_of]; unfold finalize; try reflexivity.
  unfold Sign, SignaturePayload. destruct (wants1559 t); reflexivity.
Qed.

Lemma sign_mode_nil m t chain : sign_mode m t None chain = Err EInvalidSigner.
Proof. destruct m; reflexivity. Qed.

(* the recovery id of a 27/28 signature *)
Definition y_of (v : Z) : N := Z.to_N (v - 27).

Definition v_legacy (v : Z) : Prop := (v = 27 \/ v = 28)%Z.

Lemma finalize_original t v r s out : v_legacy v ->
  FinalizeLegacyOriginalWithSignature t (SignaturePayloadLegacyOriginal t) (v, r, s) = Ok out -> short out ->
  out = spec_signed Original (norm t) 0 (y_of v) (Z.abs_N r) (Z.abs_N s).
Proof.
  intros Hv E Hs. unfold FinalizeLegacyOriginalWithSignature in E. apply Ok_inj in E. subst out.
  rewrite (encode_list_spec _ Hs). cbn [SignaturePayloadLegacyOriginal sp_list addSignature].
  rewrite map_app, to_tree_BuildLegacy. cbn [map]. rewrite !to_tree_WrapBig.
  unfold spec_signed, spec_v, y_of. replace (Z.abs_N v) with (27 + Z.to_N (v - 27))%N by (destruct Hv; subst; reflexivity).
  reflexivity.
Qed.

Lemma lslice_legacy6 t chain :
  lslice (AddEIP155HashValuesToRLPList (BuildLegacy t) chain) 0 6 = Ok (BuildLegacy t).
Proof. reflexivity. Qed.

Lemma finalize_eip155 t chain v r s out : v_legacy v -> (0 <= chain)%Z ->
  FinalizeLegacyEIP155WithSignature t (SignaturePayloadLegacyEIP155 t chain) (v, r, s) chain = Ok out -> short out ->
  out = spec_signed Eip155 (norm t) (Z.abs_N chain) (y_of v) (Z.abs_N r) (Z.abs_N s).
Proof.
  intros Hv Hc E Hs. unfold FinalizeLegacyEIP155WithSignature in E.
  cbn [SignaturePayloadLegacyEIP155 sp_list] in E. rewrite lslice_legacy6 in E. cbn [bind UpdateEIP155] in E.
  apply Ok_inj in E. subst out.
  rewrite (encode_list_spec _ Hs). cbn [addSignature].
  rewrite map_app, to_tree_BuildLegacy. cbn [map]. rewrite !to_tree_WrapBig.
  unfold spec_signed, spec_v, y_of.
  replace (Z.abs_N (v + chain * 2 + (35 - 27))) with (Z.to_N (v - 27) + Z.abs_N chain * 2 + 35)%N
    by (destruct Hv; subst; lia).
  reflexivity.
Qed.

Lemma UpdateEIP2930_legacy v r s : v_legacy v -> UpdateEIP2930 (v, r, s) = ((v - 27)%Z, r, s).
Proof. intros [->| ->]; reflexivity. Qed.

Lemma finalize_eip1559 t chain v r s out : v_legacy v ->
  FinalizeEIP1559WithSignature t (SignaturePayloadEIP1559 t chain) (v, r, s) = Ok out -> short out ->
  out = spec_signed Eip1559 (norm t) (Z.abs_N chain) (y_of v) (Z.abs_N r) (Z.abs_N s).
Proof.
  intros Hv E Hs. unfold FinalizeEIP1559WithSignature in E. rewrite UpdateEIP2930_legacy in E by exact Hv.
  apply Ok_inj in E. subst out. apply short_tail in Hs.
  rewrite (encode_list_spec _ Hs). cbn [SignaturePayloadEIP1559 sp_list addSignature].
  rewrite map_app, to_tree_Build1559. cbn [map]. rewrite !to_tree_WrapBig.
  unfold spec_signed, spec_v, y_of.
  replace (Z.abs_N (v - 27)) with (Z.to_N (v - 27)) by (destruct Hv; subst; reflexivity).
  reflexivity.
Qed.

Lemma spec_signed_original f c c' y r s : spec_signed Original f c y r s = spec_signed Original f c' y r s.
Proof. reflexivity. Qed.

Lemma finalize_is_spec m t chain v r s out : v_legacy v -> (0 <= chain)%Z ->
  finalize m t chain (v, r, s) = Ok out -> short out ->
  out = spec_signed (format_of m t) (norm t) (Z.abs_N chain) (y_of v) (Z.abs_N r) (Z.abs_N s).
Proof.
  intros Hv Hc. destruct m; cbn [finalize format_of].
  - intros E Hs. rewrite (finalize_original t v r s out Hv E Hs). reflexivity.
  - apply finalize_eip155; assumption.
  - apply finalize_eip1559; assumption.
  - destruct (wants1559 t); [apply finalize_eip1559|apply finalize_eip155]; assumption.
Qed.

Lemma finalize_never_fails m t chain sg : exists out, finalize m t chain sg = Ok out.
Proof.
  destruct sg as [[v r] s].
  destruct m; cbn [finalize]; try destruct (wants1559 t); eexists; reflexivity.
Qed.

(* The wire-format theorem, for an arbitrary Signer: the signer is invoked on the prescribed
   preimage; its error (or panic) is the result; a signature (v in {27,28}, r, s) it returns is
   placed, under the V convention of the format, in exactly the prescribed bytes. *)
Theorem sign_wire_format m t f chain :
  (0 <= chain)%Z ->
  let fm := format_of m t in
  let c := Z.to_N chain in
  let pre := spec_preimage fm (norm t) c in
  short (sp_data (payload_of m t chain)) ->
  sp_data (payload_of m t chain) = pre /\
  match f pre with
  | Ok (v, r, s) =>
      exists out, sign_mode m t (Some f) chain = Ok out /\
        (v_legacy v -> short out -> out = spec_signed fm (norm t) c (y_of v) (Z.abs_N r) (Z.abs_N s))
  | Err e => sign_mode m t (Some f) chain = Err e
  | Panic => sign_mode m t (Some f) chain = Panic
  end.
Proof.
  intros Hc fm c pre Hp.
  assert (Ec : Z.abs_N chain = c) by (unfold c; lia).
  pose proof (payload_is_preimage m t chain Hp) as Epre. rewrite Ec in Epre. fold fm pre in Epre.
  split; [exact Epre|].
  rewrite sign_mode_unfold, Epre.
  destruct (f pre) as [[[v r] s]|e|]; cbn [bind]; try reflexivity.
  destruct (finalize_never_fails m t chain (v, r, s)) as [out E].
  exists out. split; [exact E|]. intros Hv Hs. rewrite <- Ec. apply finalize_is_spec; assumption.
Qed.

(* ---------- automatic mode ---------- *)
Lemma wants1559_iff t :
  wants1559 t = true <->
  (exists z, tx_maxPrio t = Some z /\ (0 < z)%Z) \/ (exists z, tx_maxFee t = Some z /\ (0 < z)%Z).
Proof.
  unfold wants1559, BigInt. split.
  - intros H. apply orb_true_iff in H. destruct H as [H|H]; [left|right].
    + destruct (tx_maxPrio t) as [z|]; [exists z; split; [reflexivity|lia]|discriminate].
    + destruct (tx_maxFee t) as [z|]; [exists z; split; [reflexivity|lia]|discriminate].
  - intros [[z [E Hz]]|[z [E Hz]]]; rewrite E; apply orb_true_iff; [left|right]; lia.
Qed.

Theorem auto_mode t sg chain :
  Sign t sg chain = if wants1559 t then SignEIP1559 t sg chain else SignLegacyEIP155 t sg chain.
Proof. destruct sg; [reflexivity|]. cbn. destruct (wants1559 t); reflexivity. Qed.

Theorem auto_payload t chain :
  SignaturePayload t chain
  = if wants1559 t then SignaturePayloadEIP1559 t chain else SignaturePayloadLegacyEIP155 t chain.
Proof. reflexivity. Qed.

(* ---------- purity ---------- *)
(* the caller's transaction after the call is the one passed in; the result is a function of
   (mode, transaction, chain id) and of what the signer answers on the one message it is asked to
   sign — two signers that agree on that message give the same bytes (determinism of signing
   reduces to determinism of the signer) *)
Theorem sign_pure m t sg chain : snd (sign_call m t sg chain) = t.
Proof. reflexivity. Qed.

Theorem sign_depends_on_one_answer m t f g chain :
  f (sp_data (payload_of m t chain)) = g (sp_data (payload_of m t chain)) ->
  sign_mode m t (Some f) chain = sign_mode m t (Some g) chain.
Proof. intros E. rewrite !sign_mode_unfold, E. reflexivity. Qed.
