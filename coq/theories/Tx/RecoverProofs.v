(* Proofs about the recovery model (Tx/RecoverModel.v), part 1: totality — none of the four entry
   points panics, for every byte string, chain id, hash function and every RecoverDirect that does
   not panic itself. *)
From Coq Require Import List NArith ZArith Lia Bool Arith.
From Coq Require Import Init.Byte.
From FFS Require Import Base.Res Base.Bytes Rlp.Model Rlp.Proofs Tx.Model Tx.RecoverModel.
Import ListNotations.

Lemma idx_ok (l : list item) i : (i < length l)%nat -> exists x, idx l i = Ok x /\ nth_error l i = Some x.
Proof.
  intros Hl. unfold idx. destruct (nth_error l i) eqn:E; [eauto|].
  apply nth_error_None in E. lia.
Qed.

Lemma lslice_ok {A} (l : list A) lo hi : (lo <= hi)%nat -> (hi <= length l)%nat ->
  lslice l lo hi = Ok (firstn (hi - lo) (skipn lo l)).
Proof.
  intros H1 H2. unfold lslice.
  replace (lo <=? hi)%nat with true by (symmetry; apply Nat.leb_le; lia).
  replace (hi <=? length l)%nat with true by (symmetry; apply Nat.leb_le; lia).
  reflexivity.
Qed.

Lemma IntInt64_data e : IsList e = false -> exists z, IntInt64 (ToData e) = Ok z.
Proof. destruct e; simpl; intros H; [|discriminate]. unfold IntInt64. simpl. eauto. Qed.

(* rewrite the next [idx l i] of the goal with its value, given [length l >= n] *)
Ltac step_idx l i :=
  let x := fresh "e" in let Hx := fresh "He" in let Hn := fresh "Hn" in
  destruct (idx_ok l i) as [x [Hx Hn]]; [lia|]; rewrite Hx; cbn [bind].

Section Total.
Variable H : bytes -> bytes.
Variable RD : sigdata -> bytes -> Z -> res bytes.
(* RecoverDirect does not panic on a signature whose R and S come from SetBytes (non-negative) *)
Hypothesis RD_total : forall v r s d c, (0 <= r)%Z -> (0 <= s)%Z -> RD (v, r, s) d c <> Panic.

Lemma recoverCommon_total t m c v r s : recoverCommon H RD t m c v r s <> Panic.
Proof.
  unfold recoverCommon, SigRecover.
  pose proof (RD_total v (Z.of_N (of_be r)) (Z.of_N (of_be s)) (H m) c) as T.
  destruct (RD (v, Z.of_N (of_be r), Z.of_N (of_be s)) (H m) c); cbn [bind]; try discriminate.
  exfalso. apply T; try lia. reflexivity.
Qed.

Theorem RecoverLegacy_total bs chain : RecoverLegacyRawTransaction H RD bs chain <> Panic.
Proof.
  unfold RecoverLegacyRawTransaction.
  destruct (Decode_total_in_bounds bs) as [NP _].
  destruct (Decode bs) as [[decoded p]|e|]; [|discriminate|congruence].
  destruct decoded as [[b|l]|]; try discriminate.
  destruct (length l <? 9)%nat eqn:E9; [discriminate|]. apply Nat.ltb_ge in E9.
  rewrite (lslice_ok l 0 6) by lia. cbn [bind].
  destruct (canonicalFields _ 3 5); cbn [negb]; [|discriminate].
  step_idx l 0%nat. step_idx l 1%nat. step_idx l 2%nat. step_idx l 3%nat. step_idx l 4%nat.
  step_idx l 5%nat. step_idx l 6%nat.
  destruct (IsList e5) eqn:EL; [discriminate|].
  destruct (IntInt64_data e5 EL) as [v Hv]. rewrite Hv. cbn [bind].
  step_idx l 7%nat. step_idx l 8%nat.
  destruct (negb (v =? 27)%Z && negb (v =? 28)%Z).
  - destruct (negb _ && negb _); [discriminate|]. cbn [bind]. apply recoverCommon_total.
  - cbn [bind]. apply recoverCommon_total.
Qed.

Lemma decode1559_total bs chain n : (9 <= n)%nat ->
  decodeEIP1559SignaturePayload bs chain n <> Panic /\
  (forall l t, decodeEIP1559SignaturePayload bs chain n = Ok (l, t) -> (n <= length l)%nat).
Proof.
  intros Hn. unfold decodeEIP1559SignaturePayload.
  destruct bs as [|b0 rest]; [split; [discriminate|intros ? ? X; discriminate]|].
  destruct (negb _); [split; [discriminate|intros ? ? X; discriminate]|].
  destruct (Decode_total_in_bounds rest) as [NP _].
  destruct (Decode rest) as [[decoded p]|e|]; [|split; [discriminate|intros ? ? X; discriminate]|congruence].
  destruct decoded as [[b|l]|]; try (split; [discriminate|intros ? ? X; discriminate]).
  destruct (length l <? n)%nat eqn:E9; [split; [discriminate|intros ? ? X; discriminate]|].
  apply Nat.ltb_ge in E9.
  step_idx l 0%nat.
  destruct (negb _ || negb _); [split; [discriminate|intros ? ? X; discriminate]|].
  rewrite (lslice_ok l 0 8) by lia. cbn [bind].
  destruct (negb (canonicalFields _ 5 7)); [split; [discriminate|intros ? ? X; discriminate]|].
  step_idx l 8%nat.
  destruct (negb (IsList e0)); [split; [discriminate|intros ? ? X; discriminate]|].
  step_idx l 1%nat. step_idx l 2%nat. step_idx l 3%nat. step_idx l 4%nat. step_idx l 5%nat.
  step_idx l 6%nat. step_idx l 7%nat.
  split; [discriminate|]. intros l' t X. injection X as <- _. exact E9.
Qed.

Theorem Decode1559_total bs chain : DecodeEIP1559SignaturePayload bs chain <> Panic.
Proof.
  unfold DecodeEIP1559SignaturePayload.
  destruct (decode1559_total bs chain 9) as [NP _]; [lia|].
  destruct (decodeEIP1559SignaturePayload bs chain 9) as [[l t]|e|]; cbn [bind]; congruence.
Qed.

Theorem Recover1559_total bs chain : RecoverEIP1559Transaction H RD bs chain <> Panic.
Proof.
  unfold RecoverEIP1559Transaction.
  destruct (decode1559_total bs chain 12) as [NP HL]; [lia|].
  destruct (decodeEIP1559SignaturePayload bs chain 12) as [[l t]|e|]; cbn [bind]; [|discriminate|congruence].
  specialize (HL l t eq_refl).
  step_idx l 9%nat.
  destruct (IsList e) eqn:EL; [discriminate|].
  rewrite (lslice_ok l 0 9) by lia. cbn [bind].
  destruct (IntInt64_data e EL) as [v Hv]. rewrite Hv. cbn [bind].
  step_idx l 10%nat. step_idx l 11%nat.
  apply recoverCommon_total.
Qed.

Theorem RecoverRaw_total bs chain : RecoverRawTransaction H RD bs chain <> Panic.
Proof.
  unfold RecoverRawTransaction. destruct bs as [|b rest]; [discriminate|].
  destruct (199 <=? b2n b)%N; [apply RecoverLegacy_total|].
  destruct (b2n b =? b2n TransactionType1559)%N; [apply Recover1559_total|discriminate].
Qed.

Theorem C10_total_all bs chain :
  RecoverRawTransaction H RD bs chain <> Panic /\
  RecoverLegacyRawTransaction H RD bs chain <> Panic /\
  RecoverEIP1559Transaction H RD bs chain <> Panic /\
  DecodeEIP1559SignaturePayload bs chain <> Panic.
Proof.
  repeat split.
  - apply RecoverRaw_total.
  - apply RecoverLegacy_total.
  - apply Recover1559_total.
  - apply Decode1559_total.
Qed.

End Total.
