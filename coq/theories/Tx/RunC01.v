(* Evaluator for the correspondence check of C01.  For every case written by the Go harness it
   (a) judges what the implementation did against the specification (Tx/Spec.v over the Yellow-Paper
       RLP, Keccak-256 in Gallina, the signature checks) — result codes >= 10, and
   (b) runs the model (Tx/Model.v) on the same input and compares — result codes 1..9.
   The external signer of the model is instantiated by the oracle row of the case: what the btcec
   library itself (called directly by the harness, not through firefly-signer) answers for the digest
   of the message.  Whether the signature the implementation produced is a valid signature by the
   key over the prescribed signing hash is judged, for the cases the harness marks, by the
   executable secp256k1 of Crypto/Secp256k1Exec.v (public-key recovery from the digest computed
   here, address of the recovered key against the address of d*G); for the others by equality with
   the library's deterministic signature. *)
From Coq Require Import String.
From Coq Require Import List NArith ZArith Lia Bool Arith.
From Coq Require Import Init.Byte.
From FFS Require Import Base.Res Base.Bytes Base.Lit Base.Keccak.
From FFS Require Import Crypto.Ecdsa Crypto.Secp256k1Exec.
From FFS Require Import Rlp.Model Rlp.Spec Rlp.Run Tx.Model Tx.Spec Tx.Norm Tx.RecoverModel.
Import ListNotations.

(* transaction as written by the harness: byte strings in the byte-DSL *)
Record dtx := mkD {
  d_nonce : option Z; d_gasPrice : option Z; d_maxPrio : option Z; d_maxFee : option Z;
  d_gasLimit : option Z; d_to : option bdsl; d_value : option Z; d_data : option bdsl }.

Definition expand_tx (d : dtx) : tx :=
  mkTx (d_nonce d) (d_gasPrice d) (d_maxPrio d) (d_maxFee d) (d_gasLimit d)
       (option_map bexpand (d_to d)) (d_value d) (option_map bexpand (d_data d)).

Definition mode_of_N (n : N) : mode :=
  match n with 0 => LegacyOriginal | 1 => LegacyEIP155 | 2 => EIP1559 | _ => Auto end%N.

(* order of the secp256k1 group *)
Definition grp_n : N := 0xFFFFFFFFFFFFFFFFFFFFFFFFFFFFFFFEBAAEDCE6AF48A03BBFD25E8CD0364141.

(* the signature (v, r, s) recovers, from digest [dig], a public key with address [addr]; that
   [addr] is the address of key*G is checked once per key by a [CKey] case *)
Definition exec_valid (addr : bytes) (dig : bytes) (v r s : Z) : bool :=
  match exec_recover (be_to_z dig) r s (v =? 28)%Z with
  | Some Q => bytes_eqb (exec_address Q) addr
  | None => false
  end.

Definition opt_bytes_eqb (a b : option bytes) : bool :=
  match a, b with Some x, Some y => bytes_eqb x y | None, None => true | _, _ => false end.

(* "the same field values": the fields the format carries, as the EIPs see them *)
Definition fields_match (fm : format) (a b : fields) : bool :=
  (f_nonce a =? f_nonce b)%N && (f_gasLimit a =? f_gasLimit b)%N && (f_value a =? f_value b)%N &&
  opt_bytes_eqb (f_to a) (f_to b) && bytes_eqb (f_data a) (f_data b) &&
  match fm with
  | Eip1559 => (f_maxPrio a =? f_maxPrio b)%N && (f_maxFee a =? f_maxFee b)%N
  | _ => (f_gasPrice a =? f_gasPrice b)%N
  end.

Definition optZ_eqb (a b : option Z) : bool :=
  match a, b with Some x, Some y => (x =? y)%Z | None, None => true | _, _ => false end.
Definition tx_eqb (a b : tx) : bool :=
  optZ_eqb (tx_nonce a) (tx_nonce b) && optZ_eqb (tx_gasPrice a) (tx_gasPrice b) &&
  optZ_eqb (tx_maxPrio a) (tx_maxPrio b) && optZ_eqb (tx_maxFee a) (tx_maxFee b) &&
  optZ_eqb (tx_gasLimit a) (tx_gasLimit b) && opt_bytes_eqb (tx_to a) (tx_to b) &&
  optZ_eqb (tx_value a) (tx_value b) && opt_bytes_eqb (tx_data a) (tx_data b).

(* what the harness observed when it handed the implementation's output to
   ethsigner.RecoverRawTransaction with the same chain id *)
Record recov := mkRecov {
  rc_cls : nat;                (* 0 Ok / 1 Err / 2 Panic *)
  rc_addr : bdsl;              (* recovered address *)
  rc_tx : dtx;                 (* recovered fields *)
  rc_payload : out_bytes       (* TransactionWithOriginalPayload.Payload *)
}.

(* the signer handed to the implementation *)
Inductive signer_kind :=
| SKeyPair                     (* secp256k1.KeyPair built from the key bytes (wrapped only to record) *)
| SNil                         (* nil interface *)
| SFails                       (* a Signer that returns an error *)
| SCustom.                     (* a Signer answering the fixed (V,R,S) of the oracle row, whatever it is *)

Inductive case :=
| CSign
    (mode : N) (t : dtx) (chain : Z) (kind : signer_kind)
    (key : Z) (judge : bool)   (* the private scalar; judge the signature with Secp256k1Exec? *)
    (* oracle row, filled from the libraries directly: Keccak-256 (x/crypto) of the message the signer
       was asked to sign, btcec SignCompact(key, digest) as (V, R, S), address of the key *)
    (odig : bdsl) (ov or_ os : Z) (kaddr : bdsl)
    (* implementation: result class and bytes; what the KeyPair answered (V, R, S) *)
    (cls : nat) (out : out_bytes) (iv ir is_ : Z)
    (* SignaturePayload<mode>(chain).Bytes() and .Hash(); message seen by the signer = those bytes? *)
    (pl : out_bytes) (hash : bdsl) (msg_same : bool)
    (* second run gives the same bytes; caller's struct deep-equal before/after;
       SignaturePayload + Sign + Finalize...WithSignature by hand gives the same bytes *)
    (same2 unmodified finalize_same : bool)
    (r : recov)
(* the address the libraries give for a private key is the address of key*G (Secp256k1Exec) *)
| CKey (key : Z) (kaddr : bdsl).

(* recovery id of a 27/28 V *)
Definition y_of_Z (v : Z) : N := Z.to_N (v - 27).

Definition Zin (lo hi : N) (z : Z) : bool := (Z.of_N lo <=? z)%Z && (z <=? Z.of_N hi)%Z.

Definition check_case (c : case) : N :=
  match c with
  | CSign mn dt chain kind key judge odig ov or_ os kaddr cls out iv ir is_ pl hash msg_same same2 unmod finsame r =>
    let m := mode_of_N mn in
    let t := expand_tx dt in
    let fm := format_of m t in
    let f := norm t in
    let cN := Z.to_N chain in
    let pre := spec_preimage fm f cN in
    let mpl := sp_data (payload_of m t chain) in
    (* the model's signer: the library's answer (oracle row) for the message whose digest it was
       computed for — [odig] is checked against the Keccak-256 of that message before it is used *)
    let orc (asked : bytes) : signer := fun msg =>
      if bytes_eqb msg asked then Ok (ov, or_, os) else Err 98%nat in
    match kind with
    | SKeyPair =>
      let dig := keccak256 pre in
      (* ---- property oracles on the implementation ---- *)
      if negb (out_matches pl pre) || negb msg_same then 11
      else if negb (bytes_eqb (bexpand hash) dig) then 12
      else if negb (cls =? 0)%nat then 20
      else if negb (Zin 27 28 iv) then 14
      else if negb (Zin 1 (grp_n - 1) ir && Zin 1 (grp_n / 2) is_) then 14
      else if negb (out_matches out (spec_signed fm f cN (y_of_Z iv) (Z.to_N ir) (Z.to_N is_))) then 10
      else if negb (bytes_eqb (bexpand odig) dig) then 9        (* x/crypto and Gallina Keccak disagree *)
      else if negb (if judge || negb ((iv =? ov)%Z && (ir =? or_)%Z && (is_ =? os)%Z)
                    then exec_valid (bexpand kaddr) dig iv ir is_ else true) then 13
      else if negb same2 then 15
      else if negb unmod then 16
      else if negb finsame then 21
      else if negb ((rc_cls r =? 0)%nat && bytes_eqb (bexpand (rc_addr r)) (bexpand kaddr)) then 17
      else if negb (fields_match fm (norm (expand_tx (rc_tx r))) f) then 18
      else if negb (out_matches (rc_payload r) pre) then 19
      (* ---- the model against the implementation ---- *)
      else if negb (out_matches pl mpl) then 2
      else match sign_call m t (Some (orc pre)) chain with
           | (Ok mo, t') =>
             if negb (out_matches out mo) then 1 else
             (* the model of RecoverRawTransaction (Tx/RecoverModel.v) on the signed bytes: the hash is
                Keccak-256 (the digest of the preimage computed above is reused), RecoverDirect is the
                observed answer for exactly the expected (V, R, S, digest) *)
             let Hc : bytes -> bytes := fun msg => if bytes_eqb msg pre then dig else keccak256 msg in
             let vs := match fm with Eip1559 => (iv - 27)%Z | _ => iv end in
             let RD : sigdata -> bytes -> Z -> res bytes := fun sg z _ =>
               let '(v', r', s') := sg in
               if (v' =? vs)%Z && (r' =? ir)%Z && (s' =? is_)%Z && bytes_eqb z dig
               then Ok (bexpand (rc_addr r)) else Err 96%nat in
             match RecoverRawTransaction Hc RD mo chain with
             | Ok (a, rt, p) =>
                 if bytes_eqb a (bexpand (rc_addr r)) && tx_eqb rt (expand_tx (rc_tx r)) && out_matches (rc_payload r) p
                 then 0 else 4
             | _ => 4
             end
           | _ => 3
           end
    | SNil =>
      if (cls =? 2)%nat then 20 else
      if negb (cls =? 1)%nat then 3 else
      if negb unmod then 16 else
      match sign_mode m t None chain with Err _ => 0 | _ => 3 end
    | SFails =>
      if (cls =? 2)%nat then 20 else
      if negb (cls =? 1)%nat then 3 else
      if negb unmod then 16 else
      match sign_mode m t (Some (fun _ => Err 97%nat)) chain with Err _ => 0 | _ => 3 end
    | SCustom =>
      if (cls =? 2)%nat then 20 else
      if negb unmod then 16 else
      (* wave 6 - property oracle for an arbitrary Signer (theorems C01_wire_format and
         C01_wire_format_no_size_guard): on a chain id >= 0, a 27/28 answer must come back inside the
         prescribed wire bytes (R, S as magnitudes) and the bytes signed must be the prescribed
         preimage - whatever the field values; this is what judges the chain ids above 2^53 up to
         2^63-1, which no KeyPair case reaches *)
      let judged := (0 <=? chain)%Z && Zin 27 28 ov && (cls =? 0)%nat in
      if judged && negb (out_matches pl pre) then 11 else
      if judged && negb (out_matches out (spec_signed fm f cN (y_of_Z ov) (Z.abs_N or_) (Z.abs_N os))) then 10 else
      if negb (out_matches pl mpl) then 2 else
      match sign_mode m t (Some (orc mpl)) chain with
      | Ok mo => if (cls =? 0)%nat && out_matches out mo then 0 else 1
      | _ => 3
      end
    end
  | CKey key kaddr => if bytes_eqb (exec_address (exec_pub key)) (bexpand kaddr) then 0 else 9
  end.

Fixpoint mismatches_go (i : N) (l : list case) : list (N * N) :=
  match l with
  | [] => []
  | c :: t => let r := check_case c in
              if (r =? 0)%N then mismatches_go (i + 1) t else (i, r) :: mismatches_go (i + 1) t
  end.
Definition mismatches (l : list case) : list (N * N) := firstn 20 (mismatches_go 0 l).
