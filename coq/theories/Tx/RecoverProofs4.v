(* Proofs about the recovery model, part 4 (round 5): soundness for EVERY chain id.

   RecoverProofs2.v proves soundness for 0 <= chain < 2^63.  The upper bound is the type of the
   parameter (Go int64); the lower bound excluded negative chain ids, for which EIP-155 defines
   nothing - but the code does something definite with them, and this file says what:
   AddEIP155HashValuesToRLPList writes big.NewInt(chainID).Bytes(), the *magnitude*, so for every
   chain id of the int64 range an accepted legacy input in the EIP-155 form carries the EIP-155
   preimage of the returned fields for the chain id |chain|, the (r,s) of the input verify over
   H(payload) for a key with the returned address, and the V element is 35 + 2*chain + parity
   modulo 2^64 (with the signed chain).  For 0 <= chain the statement is the one of
   RecoverProofs2.v; type-0x02 inputs never needed a bound (the embedded chain id is compared as a
   non-negative integer below 2^63).

   [legacy_v_exact]: the "modulo 2^64" of [legacy_v_meaning] disappears exactly where it should:
   for a V element below 2^64 (at most 8 bytes) and 0 <= chain <= 2^63 - 19 the accepted values
   are V = 27, 28 (original form) and V = 35 + 2*chain, 36 + 2*chain (EIP-155) and no others. *)
From Coq Require Import List NArith ZArith Lia Bool Arith.
From Coq Require Import ZifyN ZifyNat ZifyBool.
From Coq Require Import Init.Byte.
From FFS Require Import Base.Res Base.Bytes Rlp.Model Rlp.Spec Rlp.Proofs Tx.Model Tx.Spec Tx.Norm
  Tx.RecoverModel Tx.RecoverProofs Tx.RecoverProofs2 Tx.RecoverSecp.
From FFS Require Crypto.Ecdsa Secp.Model Secp.Proofs.
Import ListNotations.

(* ---------- the three values EIP-155 appends, for every int64 ---------- *)
Lemma size_ok_WrapBig64 z : (- 2 ^ 63 <= z < 2 ^ 63)%Z -> size_ok (WrapBig z) = true.
Proof.
  intros Hz. unfold WrapBig, WrapInt. cbn [size_ok]. rewrite big_bytes_BE.
  apply N.leb_le. pose proof (BE_len8 (Z.abs_N z)) as L. unfold maxInt32. lia.
Qed.

Lemma encode_WrapBig_len64 z : (- 2 ^ 63 <= z < 2 ^ 63)%Z -> (length (encode (WrapBig z)) <= 17)%nat.
Proof.
  intros Hz. unfold WrapBig, WrapInt. cbn [encode]. rewrite big_bytes_BE.
  pose proof (encode_len_le9 (BE (Z.abs_N z)) false). pose proof (BE_len8 (Z.abs_N z)). lia.
Qed.

Lemma flat_155_len64 chain : (- 2 ^ 63 <= chain < 2 ^ 63)%Z ->
  (length (flat_map encode [WrapBig chain; WrapBig 0; WrapBig 0]) <= 100)%nat.
Proof.
  intros Hc. cbn [flat_map]. rewrite !app_length. cbn [length].
  pose proof (encode_WrapBig_len64 chain Hc). pose proof (encode_WrapBig_len64 0 ltac:(lia)). lia.
Qed.

Section Sound64.
Variable H : bytes -> bytes.
Variable RD : sigdata -> bytes -> Z -> res bytes.
Variable PubKey : Type.
Variable addr_of : PubKey -> bytes.
Variable verify : PubKey -> bytes -> Z -> Z -> Prop.
Hypothesis RD_sound : forall v r s d c a,
  RD (v, r, s) d c = Ok a -> exists q, a = addr_of q /\ verify q d r s.

Theorem RecoverLegacy_sound64 bs chain a t p : (- 2 ^ 63 <= chain < 2 ^ 63)%Z ->
  RecoverLegacyRawTransaction H RD bs chain = Ok (a, t, p) ->
  exists l pos e6 e7 e8 q,
    Decode bs = Ok (Some (Lst l), pos) /\
    nth_error l 6 = Some e6 /\ nth_error l 7 = Some e7 /\ nth_error l 8 = Some e8 /\
    a = addr_of q /\ verify q (H p) (Z.of_N (elem_int e7)) (Z.of_N (elem_int e8)) /\
    ( (v_is_legacy (legacy_v e6) /\ p = spec_preimage Original (norm t) 0) \/
      (~ v_is_legacy (legacy_v e6) /\ v_is_eip155 (legacy_v e6) chain /\
       p = spec_preimage Eip155 (norm t) (Z.abs_N chain)) ).
Proof.
  intros Hc. unfold RecoverLegacyRawTransaction.
  destruct (Decode_total_in_bounds bs) as [_ [_ HB]].
  destruct (Decode bs) as [[decoded pos]|e|] eqn:ED; try discriminate.
  destruct decoded as [[b|l]|]; try discriminate.
  destruct (HB (Lst l) pos eq_refl) as [_ [Hsz _]].
  destruct (length l <? 9)%nat eqn:E9; [discriminate|]. apply Nat.ltb_ge in E9.
  destruct l as [|e0 [|e1 [|e2 [|e3 [|e4 [|e5 [|e6 [|e7 [|e8 rest]]]]]]]]]; cbn [length] in E9; try lia.
  set (l := e0 :: e1 :: e2 :: e3 :: e4 :: e5 :: e6 :: e7 :: e8 :: rest) in *.
  assert (F6 : firstn 6 l = [e0; e1; e2; e3; e4; e5]) by reflexivity.
  unfold lslice. replace ((0 <=? 6)%nat && (6 <=? length l)%nat) with true
    by (symmetry; apply andb_true_iff; split; apply Nat.leb_le; subst l; cbn [length]; lia).
  cbn [bind]. change (firstn (6 - 0) (skipn 0 l)) with (firstn 6 l). rewrite F6.
  destruct (canonicalFields [e0; e1; e2; e3; e4; e5] 3 5) eqn:EC; cbn [negb]; [|discriminate].
  unfold idx. subst l. cbn [nth_error bind].
  fold (legacy_tx e0 e1 e2 e3 e4 e5).
  destruct (IsList e6) eqn:EL; [discriminate|].
  destruct e6 as [vb|]; [|discriminate]. unfold IntInt64. cbn [ToData DataInt bind].
  change (wrap64 (Z.of_N (of_be vb))) with (legacy_v (Str vb)).
  set (v := legacy_v (Str vb)).
  pose proof (legacy_fields_spec _ _ _ _ _ _ EC) as FS.
  set (l := e0 :: e1 :: e2 :: e3 :: e4 :: e5 :: Str vb :: e7 :: e8 :: rest) in *.
  destruct (negb (v =? 27)%Z && negb (v =? 28)%Z) eqn:EV.
  - (* EIP-155 *)
    set (v' := wrap64 (wrap64 (v - wrap64 (chain * 2)) - 8)).
    destruct (negb (v' =? 27)%Z && negb (v' =? 28)%Z) eqn:EV'; [discriminate|].
    cbn [bind]. intros X. apply (recoverCommon_sound H RD PubKey addr_of verify RD_sound) in X as [-> [-> [q [Ha Hv]]]].
    exists l, pos, (Str vb), e7, e8, q. rewrite !elem_int_bytes in Hv.
    repeat split; auto. right.
    assert (NV : ~ v_is_legacy v).
    { unfold v_is_legacy. apply andb_true_iff in EV as [A B].
      apply negb_true_iff in A, B. apply Z.eqb_neq in A, B. tauto. }
    split; [exact NV|]. split.
    { unfold v_is_eip155. fold v. cbv zeta. fold v'.
      destruct (Z.eqb_spec v' 27); [tauto|]. destruct (Z.eqb_spec v' 28); [tauto|]. discriminate. }
    unfold AddEIP155HashValuesToRLPList.
    change [e0; e1; e2; e3; e4; e5] with (firstn 6 l).
    rewrite (encode_prefix_is_RLP l 6 [WrapBig chain; WrapBig 0; WrapBig 0] Hsz).
    + rewrite map_app. change (firstn 6 l) with [e0; e1; e2; e3; e4; e5]. rewrite FS.
      cbn [map]. rewrite !to_tree_WrapBig_abs. reflexivity.
    + cbn [forallb]. rewrite !size_ok_WrapBig64 by lia. reflexivity.
    + apply flat_155_len64; exact Hc.
  - (* original *)
    cbn [bind]. intros X. apply (recoverCommon_sound H RD PubKey addr_of verify RD_sound) in X as [-> [-> [q [Ha Hv]]]].
    exists l, pos, (Str vb), e7, e8, q. rewrite !elem_int_bytes in Hv.
    repeat split; auto. left. split.
    { unfold v_is_legacy. apply andb_false_iff in EV as [A|A]; apply negb_false_iff, Z.eqb_eq in A; tauto. }
    change [e0; e1; e2; e3; e4; e5] with (firstn 6 l ++ []) at 1.
    rewrite (encode_prefix_is_RLP l 6 [] Hsz); [|reflexivity|cbn; lia].
    rewrite app_nil_r. change (firstn 6 l) with [e0; e1; e2; e3; e4; e5]. rewrite FS. reflexivity.
Qed.

(* the V element of an accepted legacy input is a string (a list there is refused) *)
Lemma RecoverLegacy_v_is_string bs chain a t p l pos e6 :
  RecoverLegacyRawTransaction H RD bs chain = Ok (a, t, p) ->
  Decode bs = Ok (Some (Lst l), pos) -> nth_error l 6 = Some e6 -> exists vb, e6 = Str vb.
Proof.
  unfold RecoverLegacyRawTransaction. intros X ED E6. rewrite ED in X.
  destruct (length l <? 9)%nat; [discriminate|].
  destruct (lslice l 0 6) as [f6| |]; cbn [bind] in X; try discriminate.
  destruct (negb (canonicalFields f6 3 5)); [discriminate|].
  unfold idx in X. rewrite E6 in X.
  destruct (nth_error l 0); cbn [bind] in X; try discriminate.
  destruct (nth_error l 1); cbn [bind] in X; try discriminate.
  destruct (nth_error l 2); cbn [bind] in X; try discriminate.
  destruct (nth_error l 3); cbn [bind] in X; try discriminate.
  destruct (nth_error l 4); cbn [bind] in X; try discriminate.
  destruct (nth_error l 5); cbn [bind] in X; try discriminate.
  destruct e6 as [vb|]; [eauto|discriminate].
Qed.

(* the same in terms of the integer V written in the input *)
Definition V_original (V : Z) : Prop := exists p k, (p = 0 \/ p = 1)%Z /\ V = (27 + p + k * 2 ^ 64)%Z.
Definition V_eip155 (V chain : Z) : Prop :=
  exists p k, (p = 0 \/ p = 1)%Z /\ V = (35 + 2 * chain + p + k * 2 ^ 64)%Z.

Theorem RecoverLegacy_exact bs chain a t p : (- 2 ^ 63 <= chain < 2 ^ 63)%Z ->
  RecoverLegacyRawTransaction H RD bs chain = Ok (a, t, p) ->
  exists l pos vb e7 e8 q,
    Decode bs = Ok (Some (Lst l), pos) /\
    nth_error l 6 = Some (Str vb) /\ nth_error l 7 = Some e7 /\ nth_error l 8 = Some e8 /\
    a = addr_of q /\ verify q (H p) (Z.of_N (elem_int e7)) (Z.of_N (elem_int e8)) /\
    ( (V_original (Z.of_N (of_be vb)) /\ p = spec_preimage Original (norm t) 0) \/
      (~ V_original (Z.of_N (of_be vb)) /\ V_eip155 (Z.of_N (of_be vb)) chain /\
       p = spec_preimage Eip155 (norm t) (Z.abs_N chain)) ).
Proof.
  intros Hc X. destruct (RecoverLegacy_sound64 bs chain a t p Hc X) as (l & pos & e6 & e7 & e8 & q & ED & E6 & E7 & E8 & Ha & Hv & Hp).
  destruct (RecoverLegacy_v_is_string bs chain a t p l pos e6 X ED E6) as [vb ->].
  exists l, pos, vb, e7, e8, q. repeat split; auto.
  destruct (legacy_v_meaning vb chain) as [M1 M2]. cbv zeta in M1, M2.
  unfold V_original, V_eip155.
  destruct Hp as [[A B]|[A [B C]]]; [left|right].
  - split; [apply M1, A|exact B].
  - split; [intros Q; apply A, M1, Q|]. split; [apply M2, B|exact C].
Qed.

Theorem RecoverRaw_exact bs chain a t p : (- 2 ^ 63 <= chain < 2 ^ 63)%Z ->
  RecoverRawTransaction H RD bs chain = Ok (a, t, p) ->
  (exists l pos vb e7 e8 q,
    Decode bs = Ok (Some (Lst l), pos) /\
    nth_error l 6 = Some (Str vb) /\ nth_error l 7 = Some e7 /\ nth_error l 8 = Some e8 /\
    a = addr_of q /\ verify q (H p) (Z.of_N (elem_int e7)) (Z.of_N (elem_int e8)) /\
    ( (V_original (Z.of_N (of_be vb)) /\ p = spec_preimage Original (norm t) 0) \/
      (~ V_original (Z.of_N (of_be vb)) /\ V_eip155 (Z.of_N (of_be vb)) chain /\
       p = spec_preimage Eip155 (norm t) (Z.abs_N chain)) ))
  \/
  (exists rest l pos c0 al e10 e11 q,
    (0 <= chain)%Z /\
    bs = x02 :: rest /\ Decode rest = Ok (Some (Lst l), pos) /\
    nth_error l 0 = Some (Str c0) /\ Z.of_N (of_be c0) = chain /\
    nth_error l 8 = Some (Lst al) /\ nth_error l 10 = Some e10 /\ nth_error l 11 = Some e11 /\
    a = addr_of q /\ verify q (H p) (Z.of_N (elem_int e10)) (Z.of_N (elem_int e11)) /\
    p = x02 :: RLP (L (eip1559_body_al (norm t) (Z.abs_N chain) (L (map to_tree al))))).
Proof.
  intros Hc. unfold RecoverRawTransaction. destruct bs as [|b rest]; [discriminate|].
  destruct (199 <=? b2n b)%N.
  - intros X. left. eapply RecoverLegacy_exact; eauto.
  - destruct (b2n b =? b2n TransactionType1559)%N; [|discriminate].
    intros X. right.
    destruct (Recover1559_sound H RD PubKey addr_of verify RD_sound _ _ _ _ _ X)
      as (rest' & l & pos & c0 & al & e10 & e11 & q & A1 & A2 & A3 & A4 & A5 & A6 & A7 & A8 & A9 & A10).
    exists rest', l, pos, c0, al, e10, e11, q.
    assert (Hn : (0 <= chain)%Z) by lia.
    rewrite Zabs2N.abs_N_nonneg by exact Hn. repeat split; auto.
Qed.
End Sound64.

(* ---------- no "modulo 2^64" for V elements of at most 8 bytes and chain ids up to 2^63 - 19 ---------- *)
Theorem legacy_v_exact vb chain :
  let V := Z.of_N (of_be vb) in
  (V < 2 ^ 64)%Z -> (0 <= chain <= 2 ^ 63 - 19)%Z ->
  (V_original V <-> V = 27 \/ V = 28)%Z /\
  (V_eip155 V chain <-> V = 35 + 2 * chain \/ V = 36 + 2 * chain)%Z.
Proof.
  cbv zeta. set (V := Z.of_N (of_be vb)). assert (0 <= V)%Z by (subst V; lia).
  intros HV Hc. unfold V_original, V_eip155. split; split.
  - intros [p [k [Hp E]]]. assert (k = 0)%Z by lia. lia.
  - intros [E|E]; [exists 0%Z, 0%Z|exists 1%Z, 0%Z]; lia.
  - intros [p [k [Hp E]]]. assert (k = 0)%Z by lia. lia.
  - intros [E|E]; [exists 0%Z, 0%Z|exists 1%Z, 0%Z]; lia.
Qed.

(* a V element of at most 8 bytes is below 2^64 *)
Lemma short_v_below vb : (length vb <= 8)%nat -> (Z.of_N (of_be vb) < 2 ^ 64)%Z.
Proof.
  intros L. pose proof (of_be_lt vb) as B.
  assert (256 ^ N.of_nat (length vb) <= 256 ^ 8)%N by (apply N.pow_le_mono_r; lia).
  change (256 ^ 8)%N with (2 ^ 64)%N in *. lia.
Qed.

(* ---------- with C05's secp256k1 layer plugged in ---------- *)
Section Secp64.
Variable o : Crypto.Ecdsa.group_ops.
Hypothesis Laws : Crypto.Ecdsa.laws o.
Variable H : bytes -> bytes.
Hypothesis H_len : forall x, length (H x) = 32%nat.

Theorem exact_secp bs chain a t p : (- 2 ^ 63 <= chain < 2 ^ 63)%Z ->
  RecoverRawTransaction H (RD_secp o H) bs chain = Ok (a, t, p) ->
  (exists l pos vb e7 e8 q,
    Decode bs = Ok (Some (Lst l), pos) /\
    nth_error l 6 = Some (Str vb) /\ nth_error l 7 = Some e7 /\ nth_error l 8 = Some e8 /\
    a = secp_addr_of o H q /\ secp_verify o q (H p) (Z.of_N (elem_int e7)) (Z.of_N (elem_int e8)) /\
    ( (V_original (Z.of_N (of_be vb)) /\ p = spec_preimage Original (norm t) 0) \/
      (~ V_original (Z.of_N (of_be vb)) /\ V_eip155 (Z.of_N (of_be vb)) chain /\
       p = spec_preimage Eip155 (norm t) (Z.abs_N chain)) ))
  \/
  (exists rest l pos c0 al e10 e11 q,
    (0 <= chain)%Z /\
    bs = x02 :: rest /\ Decode rest = Ok (Some (Lst l), pos) /\
    nth_error l 0 = Some (Str c0) /\ Z.of_N (of_be c0) = chain /\
    nth_error l 8 = Some (Lst al) /\ nth_error l 10 = Some e10 /\ nth_error l 11 = Some e11 /\
    a = secp_addr_of o H q /\ secp_verify o q (H p) (Z.of_N (elem_int e10)) (Z.of_N (elem_int e11)) /\
    p = x02 :: RLP (L (eip1559_body_al (norm t) (Z.abs_N chain) (L (map to_tree al))))).
Proof.
  apply (RecoverRaw_exact H (RD_secp o H) (Crypto.Ecdsa.pt o) (secp_addr_of o H) (secp_verify o)).
  intros. eapply RD_secp_sound; eauto.
Qed.
End Secp64.
