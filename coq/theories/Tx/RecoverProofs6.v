(* Proofs about the recovery model, part 6 (referee issue I3): the reading of "the signature contained
   in the input" is pinned to the SPECIFICATION for canonical inputs, with no decoder in the statement.

   [Tx.Spec.spec_signed fm f c y r s] is the wire format of a signed transaction written from the
   Yellow Paper / EIP-155 / EIP-1559 over the Yellow-Paper [RLP] of Rlp/Spec.v.  For every field
   tuple of the property's range (integers below 2^256, a 20-byte or absent destination, data up to
   2^31-1024 bytes), every chain id 0 <= chain < 2^61, parity y in {0,1} and r, s below 2^256, the
   recovery model applied to those bytes computes exactly

       RecoverDirect (V, r, s) (H (spec_preimage fm f c)) chain      (V = 27+y; y for type 0x02)

   and returns its address with the fields f and the preimage.  Proof: C01's
   [recover_sign_inputs] (sign, then recover) instantiated with the transaction [tx_of f] and a
   constant signer - so the decoder's reading of a canonical input is the specification's
   (Rlp: C06_decode_encode inside C01's proof). *)
From Coq Require Import List NArith ZArith Lia Bool Arith.
From Coq Require Import ZifyN ZifyNat ZifyBool.
From Coq Require Import Init.Byte.
From FFS Require Import Base.Res Base.Bytes Rlp.Model Rlp.Spec Rlp.Proofs.
From FFS Require Import Tx.Model Tx.Spec Tx.Norm Tx.SignProofs Tx.RecoverModel Tx.SignProofs2 Tx.SignProofs3
  Tx.SignProofs4 Tx.SignProofs5 Tx.RecoverProofs2 Tx.RecoverSecp Tx.RecoverProofs5.
From FFS Require Crypto.Ecdsa Secp.Model Secp.Proofs.
Import ListNotations.

(* the property's range, stated on the specification's field tuple *)
Definition fields_in_range (f : fields) : Prop :=
  (f_nonce f < 2 ^ 256)%N /\ (f_gasPrice f < 2 ^ 256)%N /\ (f_maxPrio f < 2 ^ 256)%N /\
  (f_maxFee f < 2 ^ 256)%N /\ (f_gasLimit f < 2 ^ 256)%N /\ (f_value f < 2 ^ 256)%N /\
  match f_to f with Some a => length a = 20%nat | None => True end /\
  (length (f_data f) <= data_max)%nat.

(* a Go transaction with exactly these fields *)
Definition tx_of (f : fields) : tx :=
  mkTx (Some (Z.of_N (f_nonce f))) (Some (Z.of_N (f_gasPrice f))) (Some (Z.of_N (f_maxPrio f)))
       (Some (Z.of_N (f_maxFee f))) (Some (Z.of_N (f_gasLimit f))) (f_to f) (Some (Z.of_N (f_value f)))
       (Some (f_data f)).

Lemma norm_tx_of f : norm (tx_of f) = f.
Proof.
  destruct f as [f1 f2 f3 f4 f5 f6 f7 f8]. unfold norm, tx_of, mag. cbn [tx_nonce tx_gasPrice tx_maxPrio tx_maxFee tx_gasLimit tx_to tx_value tx_data
    BigInt BytesNotNil f_nonce f_gasPrice f_maxPrio f_maxFee f_gasLimit f_to f_value f_data].
  rewrite !Zabs2N.id. reflexivity.
Qed.

Lemma two256_val : two256 = (2 ^ 256)%Z.
Proof. reflexivity. Qed.

Lemma in_range_tx_of f : fields_in_range f -> in_range (tx_of f).
Proof.
  intros (H1 & H2 & H3 & H4 & H5 & H6 & Ht & Hd). unfold in_range, below256, tx_of.
  cbn [tx_nonce tx_gasPrice tx_maxPrio tx_maxFee tx_gasLimit tx_to tx_value tx_data BigInt BytesNotNil].
  rewrite two256_val.
  assert (P : forall n, (n < 2 ^ 256)%N -> (Z.abs (Z.of_N n) < 2 ^ 256)%Z).
  { intros n Hn. rewrite Z.abs_eq by lia. change (2 ^ 256)%Z with (Z.of_N (2 ^ 256)). lia. }
  repeat split; auto.
  unfold to_ok. cbn [tx_to]. destruct (f_to f); [apply Nat.eqb_eq; exact Ht|reflexivity].
Qed.

Definition mode_of (fm : format) : mode :=
  match fm with Original => LegacyOriginal | Eip155 => LegacyEIP155 | Eip1559 => EIP1559 end.

Lemma format_of_mode_of fm t : format_of (mode_of fm) t = fm.
Proof. destruct fm; reflexivity. Qed.

Section Canonical.
Variable H : bytes -> bytes.
Variable RD : sigdata -> bytes -> Z -> res bytes.

Theorem canonical_input_accepted fm f chain y r s :
  fields_in_range f -> (0 <= chain < 2 ^ 61)%Z -> (y = 0 \/ y = 1)%N ->
  (r < 2 ^ 256)%N -> (s < 2 ^ 256)%N ->
  let c := Z.to_N chain in
  let pre := spec_preimage fm f c in
  RecoverRawTransaction H RD (spec_signed fm f c y r s) chain =
    do a <- RD (v_seen fm (27 + Z.of_N y), Z.of_N r, Z.of_N s) (H pre) chain;
    Ok (a, recovered_tx fm f, pre).
Proof.
  intros Hf Hc Hy Hr Hs c pre.
  pose (v := (27 + Z.of_N y)%Z).
  pose (sg := (fun _ : bytes => Ok (v, Z.of_N r, Z.of_N s)) : signer).
  assert (Hv : v_legacy v) by (unfold v_legacy, v; lia).
  assert (Hr' : (0 <= Z.of_N r < two256)%Z).
  { rewrite two256_val. change (2 ^ 256)%Z with (Z.of_N (2 ^ 256)). lia. }
  assert (Hs' : (0 <= Z.of_N s < two256)%Z).
  { rewrite two256_val. change (2 ^ 256)%Z with (Z.of_N (2 ^ 256)). lia. }
  destruct (recover_sign_inputs H RD (mode_of fm) (tx_of f) sg chain v (Z.of_N r) (Z.of_N s)
              (in_range_tx_of f Hf) Hc eq_refl Hv Hr' Hs') as (out & _ & Eout & R).
  rewrite format_of_mode_of, norm_tx_of in Eout, R.
  rewrite !N2Z.id in Eout.
  replace (y_of v) with y in Eout by (unfold y_of, v; lia).
  subst out. exact R.
Qed.

(* the same as an implication in the shape of the soundness theorems: whatever the model returns on
   a canonical input are the specification's fields, the specification's preimage, and RecoverDirect's
   answer for the signature the specification wrote *)
Corollary canonical_input_sound fm f chain y r s a t p :
  fields_in_range f -> (0 <= chain < 2 ^ 61)%Z -> (y = 0 \/ y = 1)%N ->
  (r < 2 ^ 256)%N -> (s < 2 ^ 256)%N ->
  let c := Z.to_N chain in
  RecoverRawTransaction H RD (spec_signed fm f c y r s) chain = Ok (a, t, p) ->
  t = recovered_tx fm f /\ p = spec_preimage fm f c /\
  RD (v_seen fm (27 + Z.of_N y), Z.of_N r, Z.of_N s) (H p) chain = Ok a.
Proof.
  intros Hf Hc Hy Hr Hs c X. subst c.
  rewrite (canonical_input_accepted fm f chain y r s Hf Hc Hy Hr Hs) in X. cbv zeta in X.
  destruct (RD _ (H (spec_preimage fm f (Z.to_N chain))) chain) as [a0| |] eqn:E; cbn [bind] in X; try discriminate.
  injection X as <- <- <-. auto.
Qed.
End Canonical.

(* the returned transaction carries the specification's fields (the fee fields the format does not
   have read as 0) *)
Lemma norm_recovered_tx fm f :
  norm (recovered_tx fm f) =
  match fm with
  | Eip1559 => mkFields (f_nonce f) 0 (f_maxPrio f) (f_maxFee f) (f_gasLimit f) (f_to f) (f_value f) (f_data f)
  | _ => mkFields (f_nonce f) (f_gasPrice f) 0 0 (f_gasLimit f) (f_to f) (f_value f) (f_data f)
  end.
Proof.
  destruct fm; unfold norm, recovered_tx, mag;
    cbn [tx_nonce tx_gasPrice tx_maxPrio tx_maxFee tx_gasLimit tx_to tx_value tx_data BigInt BytesNotNil];
    rewrite !Zabs2N.id; reflexivity.
Qed.

(* ---------- canonical inputs with C05's secp256k1 layer: the key is the one the specification's
   y-parity selects ---------- *)
Section CanonicalSecp.
Variable o : Crypto.Ecdsa.group_ops.
Hypothesis Laws : Crypto.Ecdsa.laws o.
Variable H : bytes -> bytes.
Hypothesis H_len : forall x, length (H x) = 32%nat.

Lemma v_norm_seen fm y chain : (y = 0 \/ y = 1)%N ->
  Secp.Proofs.v_norm (v_seen fm (27 + Z.of_N y)) chain = Some (27 + Z.of_N y)%Z.
Proof. intros [-> | ->]; destruct fm; reflexivity. Qed.

Theorem canonical_input_secp fm f chain y r s a t p :
  fields_in_range f -> (0 <= chain < 2 ^ 61)%Z -> (y = 0 \/ y = 1)%N ->
  (r < 2 ^ 256)%N -> (s < 2 ^ 256)%N ->
  let c := Z.to_N chain in
  RecoverRawTransaction H (RD_secp o H) (spec_signed fm f c y r s) chain = Ok (a, t, p) ->
  t = recovered_tx fm f /\ p = spec_preimage fm f c /\
  exists q,
    Crypto.Ecdsa.ecdsa_recover o (Secp.Model.hash_to_z (H p)) (Z.of_N r) (Z.of_N s) (y =? 1)%N = Some q /\
    q <> Crypto.Ecdsa.zero o /\ a = secp_addr_of o H q /\
    secp_verify o q (H p) (Z.of_N r) (Z.of_N s).
Proof.
  intros Hf Hc Hy Hr Hs c X.
  destruct (canonical_input_sound H (RD_secp o H) fm f chain y r s a t p Hf Hc Hy Hr Hs X) as (Et & Ep & R).
  split; [exact Et|]. split; [exact Ep|].
  destruct (RD_secp_full o Laws H H_len _ _ _ _ _ _ R) as (vB & q & HN & HV & ER & HZ & Ea & Hver).
  rewrite (v_norm_seen fm y chain Hy) in HN. injection HN as <-.
  exists q. repeat split; auto.
  replace (y =? 1)%N with (27 + Z.of_N y =? 28)%Z; [exact ER|].
  destruct Hy as [-> | ->]; reflexivity.
Qed.
End CanonicalSecp.
