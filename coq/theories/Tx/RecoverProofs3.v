(* Proofs about the recovery model, part 3 (round 3): the elements of an accepted input ARE the
   specification's elements of the returned fields.

   RecoverProofs2.v relates the returned *payload* to the returned fields, under a law of RecoverDirect and
   (for the EIP-155 form) a bound on the chain id.  The statement here needs neither: for every hash
   function, every RecoverDirect whatsoever and every chain id (negative ones included), whenever a
   recovery entry point returns a transaction, the first six (legacy) / nine (type 0x02) elements of the
   decoded input, read as Yellow-Paper trees, are exactly the list the specification (Tx/Spec.v) builds from
   the returned fields - so no input element is written in a second, non-canonical way (a leading zero
   byte, a 19-byte destination, a list where a string belongs), and two accepted inputs with the same
   returned fields (and access list) carry the same signed elements.  This is the repaired defect D10f
   as a theorem of its own. *)
From Coq Require Import List NArith ZArith Lia Bool Arith.
From Coq Require Import ZifyN ZifyNat ZifyBool.
From Coq Require Import Init.Byte.
From FFS Require Import Base.Res Base.Bytes Rlp.Model Rlp.Spec Rlp.Proofs Tx.Model Tx.Spec Tx.Norm
  Tx.RecoverModel Tx.RecoverProofs Tx.RecoverProofs2.
Import ListNotations.

Theorem Decode1559_elements bs chain t :
  DecodeEIP1559SignaturePayload bs chain = Ok t ->
  exists rest l pos al,
    bs = x02 :: rest /\ Decode rest = Ok (Some (Lst l), pos) /\ (9 <= length l)%nat /\
    nth_error l 8 = Some (Lst al) /\
    map to_tree (firstn 9 l) = eip1559_body_al (norm t) (Z.to_N chain) (L (map to_tree al)).
Proof.
  unfold DecodeEIP1559SignaturePayload.
  destruct (decodeEIP1559SignaturePayload bs chain 9) as [[l t0]|e|] eqn:ED; cbn [bind]; try discriminate.
  intros X. injection X as <-.
  destruct (decode1559_inv bs chain 9 l t0 ltac:(lia) ED)
    as [rest [pos [c0 [e1 [e2 [e3 [e4 [e5 [e6 [e7 [al [tl [-> [EDec [Hsz [Hlen [El [Hc0 [Ech [Et FS]]]]]]]]]]]]]]]]]]]].
  exists rest, l, pos, al. repeat split; auto. rewrite El. reflexivity.
Qed.

Section Elements.
Variable H : bytes -> bytes.
Variable RD : sigdata -> bytes -> Z -> res bytes.

Lemma recoverCommon_fields t m c v r s a t' p :
  recoverCommon H RD t m c v r s = Ok (a, t', p) -> t' = t /\ p = m.
Proof.
  unfold recoverCommon, SigRecover.
  destruct (RD _ (H m) c) as [a0| |]; cbn [bind]; try discriminate.
  intros X. injection X as <- <- <-. split; reflexivity.
Qed.

Theorem RecoverLegacy_elements bs chain a t p :
  RecoverLegacyRawTransaction H RD bs chain = Ok (a, t, p) ->
  exists l pos,
    Decode bs = Ok (Some (Lst l), pos) /\ (9 <= length l)%nat /\
    map to_tree (firstn 6 l) = legacy_body (norm t).
Proof.
  unfold RecoverLegacyRawTransaction.
  destruct (Decode bs) as [[decoded pos]|e|] eqn:ED; try discriminate.
  destruct decoded as [[b|l]|]; try discriminate.
  destruct (length l <? 9)%nat eqn:E9; [discriminate|]. apply Nat.ltb_ge in E9.
  destruct l as [|e0 [|e1 [|e2 [|e3 [|e4 [|e5 [|e6 [|e7 [|e8 rest]]]]]]]]]; cbn [length] in E9; try lia.
  set (l := e0 :: e1 :: e2 :: e3 :: e4 :: e5 :: e6 :: e7 :: e8 :: rest) in *.
  assert (F6 : firstn 6 l = [e0; e1; e2; e3; e4; e5]) by reflexivity.
  unfold lslice. replace ((0 <=? 6)%nat && (6 <=? length l)%nat) with true
    by (symmetry; apply andb_true_iff; split; apply Nat.leb_le; subst l; cbn [length]; lia).
  cbn [bind]. change (firstn (6 - 0) (skipn 0 l)) with (firstn 6 l). rewrite F6.
  destruct (canonicalFields [e0; e1; e2; e3; e4; e5] 3 5) eqn:EC; cbn [negb]; [|discriminate].
  unfold idx. subst l. cbn [nth_error bind].
  fold (legacy_tx e0 e1 e2 e3 e4 e5).
  destruct (IsList e6) eqn:EL; [discriminate|].
  destruct e6 as [vb|]; [|discriminate]. unfold IntInt64. cbn [ToData DataInt bind].
  pose proof (legacy_fields_spec _ _ _ _ _ _ EC) as FS.
  set (l := e0 :: e1 :: e2 :: e3 :: e4 :: e5 :: Str vb :: e7 :: e8 :: rest) in *.
  set (v := wrap64 (Z.of_N (of_be vb))).
  assert (G : forall m v', recoverCommon H RD (legacy_tx e0 e1 e2 e3 e4 e5) m chain v'
                (BytesNotNil (ToData e7)) (BytesNotNil (ToData e8)) = Ok (a, t, p) ->
              exists l0 pos0, Ok (Some (Lst l), pos) = Ok (Some (Lst l0), pos0) /\ (9 <= length l0)%nat /\
                map to_tree (firstn 6 l0) = legacy_body (norm t)).
  { intros m v' X. apply recoverCommon_fields in X as [-> _].
    exists l, pos. split; [reflexivity|]. split; [subst l; cbn [length]; lia|]. exact FS. }
  destruct (negb (v =? 27)%Z && negb (v =? 28)%Z).
  - destruct (negb (wrap64 (wrap64 (v - wrap64 (chain * 2)) - 8) =? 27)%Z &&
              negb (wrap64 (wrap64 (v - wrap64 (chain * 2)) - 8) =? 28)%Z); [discriminate|].
    cbn [bind]. apply G.
  - cbn [bind]. apply G.
Qed.

Theorem Recover1559_elements bs chain a t p :
  RecoverEIP1559Transaction H RD bs chain = Ok (a, t, p) ->
  exists rest l pos al,
    bs = x02 :: rest /\ Decode rest = Ok (Some (Lst l), pos) /\ (12 <= length l)%nat /\
    nth_error l 8 = Some (Lst al) /\
    map to_tree (firstn 9 l) = eip1559_body_al (norm t) (Z.to_N chain) (L (map to_tree al)).
Proof.
  unfold RecoverEIP1559Transaction.
  destruct (decodeEIP1559SignaturePayload bs chain 12) as [[l t0]|e|] eqn:ED; cbn [bind]; try discriminate.
  destruct (decode1559_inv bs chain 12 l t0 ltac:(lia) ED)
    as [rest [pos [c0 [e1 [e2 [e3 [e4 [e5 [e6 [e7 [al [tl [-> [EDec [Hsz [Hlen [El [Hc0 [Ech [Et FS]]]]]]]]]]]]]]]]]]]].
  destruct tl as [|e9 [|e10 [|e11 tl']]]; try (subst l; cbn [length] in Hlen; lia).
  unfold idx. rewrite El. cbn [nth_error bind].
  destruct (IsList e9) eqn:EL; [discriminate|].
  rewrite <- El.
  unfold lslice. replace ((0 <=? 9)%nat && (9 <=? length l)%nat) with true
    by (symmetry; apply andb_true_iff; split; apply Nat.leb_le; lia).
  cbn [bind].
  destruct e9 as [vb|]; [|discriminate]. unfold IntInt64. cbn [ToData DataInt bind].
  intros X. apply recoverCommon_fields in X as [-> _].
  exists rest, l, pos, al. repeat split; auto.
  rewrite El. reflexivity.
Qed.

Theorem RecoverRaw_elements bs chain a t p :
  RecoverRawTransaction H RD bs chain = Ok (a, t, p) ->
  (exists l pos,
     Decode bs = Ok (Some (Lst l), pos) /\ (9 <= length l)%nat /\
     map to_tree (firstn 6 l) = legacy_body (norm t))
  \/
  (exists rest l pos al,
     bs = x02 :: rest /\ Decode rest = Ok (Some (Lst l), pos) /\ (12 <= length l)%nat /\
     nth_error l 8 = Some (Lst al) /\
     map to_tree (firstn 9 l) = eip1559_body_al (norm t) (Z.to_N chain) (L (map to_tree al))).
Proof.
  unfold RecoverRawTransaction. destruct bs as [|b rest]; [discriminate|].
  destruct (199 <=? b2n b)%N.
  - intros X. left. eapply RecoverLegacy_elements; eauto.
  - destruct (b2n b =? b2n TransactionType1559)%N; [|discriminate].
    intros X. right. eapply Recover1559_elements; eauto.
Qed.

End Elements.

Theorem elements_are_fields_all (H : bytes -> bytes) (RD : sigdata -> bytes -> Z -> res bytes) (bs : bytes) (chain : Z) :
    (forall a t p, RecoverRawTransaction H RD bs chain = Ok (a, t, p) ->
       (exists l pos,
          Decode bs = Ok (Some (Lst l), pos) /\ (9 <= length l)%nat /\
          map to_tree (firstn 6 l) = legacy_body (norm t))
       \/
       (exists rest l pos al,
          bs = x02 :: rest /\ Decode rest = Ok (Some (Lst l), pos) /\ (12 <= length l)%nat /\
          nth_error l 8 = Some (Lst al) /\
          map to_tree (firstn 9 l) = eip1559_body_al (norm t) (Z.to_N chain) (L (map to_tree al)))) /\
    (forall a t p, RecoverLegacyRawTransaction H RD bs chain = Ok (a, t, p) ->
       exists l pos,
         Decode bs = Ok (Some (Lst l), pos) /\ (9 <= length l)%nat /\
         map to_tree (firstn 6 l) = legacy_body (norm t)) /\
    (forall a t p, RecoverEIP1559Transaction H RD bs chain = Ok (a, t, p) ->
       exists rest l pos al,
         bs = x02 :: rest /\ Decode rest = Ok (Some (Lst l), pos) /\ (12 <= length l)%nat /\
         nth_error l 8 = Some (Lst al) /\
         map to_tree (firstn 9 l) = eip1559_body_al (norm t) (Z.to_N chain) (L (map to_tree al))) /\
    (forall t, DecodeEIP1559SignaturePayload bs chain = Ok t ->
       exists rest l pos al,
         bs = x02 :: rest /\ Decode rest = Ok (Some (Lst l), pos) /\ (9 <= length l)%nat /\
         nth_error l 8 = Some (Lst al) /\
         map to_tree (firstn 9 l) = eip1559_body_al (norm t) (Z.to_N chain) (L (map to_tree al))).
Proof.
  split; [intros a t p X; eapply RecoverRaw_elements; exact X|].
  split; [intros a t p X; eapply RecoverLegacy_elements; exact X|].
  split; [intros a t p X; eapply Recover1559_elements; exact X|].
  intros t X; eapply Decode1559_elements; exact X.
Qed.

(* two accepted type-0x02 / legacy inputs with the same returned fields carry the same signed elements
   (as trees): the reading of the elements into fields is injective on accepted inputs *)
Corollary legacy_elements_determined H RD bs1 bs2 c1 c2 a1 a2 t p1 p2 l1 l2 pos1 pos2 :
  RecoverLegacyRawTransaction H RD bs1 c1 = Ok (a1, t, p1) ->
  RecoverLegacyRawTransaction H RD bs2 c2 = Ok (a2, t, p2) ->
  Decode bs1 = Ok (Some (Lst l1), pos1) -> Decode bs2 = Ok (Some (Lst l2), pos2) ->
  map to_tree (firstn 6 l1) = map to_tree (firstn 6 l2).
Proof.
  intros R1 R2 D1 D2.
  apply RecoverLegacy_elements in R1 as [l1' [q1 [E1 [_ F1]]]].
  apply RecoverLegacy_elements in R2 as [l2' [q2 [E2 [_ F2]]]].
  rewrite D1 in E1. rewrite D2 in E2. injection E1 as <- <-. injection E2 as <- <-.
  congruence.
Qed.
