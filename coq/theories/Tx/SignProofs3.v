(* Proofs for C01, part 3: the whole property with the real signer.  The KeyPair signer and
   SignatureData.RecoverDirect are instantiated by their models in Secp/Model.v (property C05), over an
   abstract group [o] satisfying [Ecdsa.laws], an arbitrary 32-byte hash [H] and an arbitrary nonce
   stream; C05's theorems (Secp/Proofs.v: SignDirect_shape, recover_all_conventions) discharge the
   two signer laws of SignProofs2.recover_sign_keypair. *)
From Coq Require Import List NArith ZArith Lia Bool Arith.
From Coq Require Import ZifyN ZifyNat ZifyBool.
From Coq Require Import Init.Byte.
From FFS Require Import Base.Res Base.Bytes Crypto.Ecdsa Rlp.Model Rlp.Spec Rlp.Proofs.
From FFS Require Import Tx.Model Tx.Spec Tx.Norm Tx.SignProofs Tx.RecoverModel Tx.SignProofs2.
From FFS Require Secp.Model Secp.Proofs.
Import ListNotations.

Module SM := FFS.Secp.Model.
Module SP := FFS.Secp.Proofs.

Section Secp.
Variable o : group_ops.
Hypothesis L : laws o.
Hypothesis n_fits : (n o < SM.two256)%Z.
Variable H : bytes -> bytes.
Hypothesis H_len : forall x, length (H x) = 32%nat.
Variable nonce : Z -> bytes -> nat -> Z.      (* btcec's RFC 6979 nonce stream *)
Variable fuel : nat.                          (* bound on the retry loop of the signing model *)

(* SignatureData of Secp/Model.v (a record) as the triple of Tx/Model.v and back *)
Definition triple (sg : SM.sigdata) : sigdata := (SM.sV sg, SM.sR sg, SM.sS sg).
Definition untriple (sg : sigdata) : SM.sigdata :=
  let '(v, r, s) := sg in {| SM.sV := v; SM.sR := r; SM.sS := s |}.

(* KeyPair.SignDirect and SignatureData.RecoverDirect of pkg/secp256k1, as modelled for C05 *)
Definition secp_sign_direct (d : N) (z : bytes) : res sigdata :=
  match SM.SignDirect o nonce fuel (Z.of_N d) z with
  | Ok sg => Ok (triple sg) | Err e => Err e | Panic => Panic
  end.
Definition secp_RecoverDirect (sg : sigdata) (z : bytes) (c : Z) : res bytes :=
  SM.RecoverDirect o H (untriple sg) z c.

(* the Ethereum address of private key d: last 20 bytes of H (X || Y) of d*G *)
Definition secp_address (d : N) : bytes := SP.addr_of o H (pub o (Z.of_N d)).

Lemma untriple_triple sg : untriple (triple sg) = sg.
Proof. destruct sg; reflexivity. Qed.

Lemma secp_SD_inv d z v r s : secp_sign_direct d z = Ok (v, r, s) ->
  SM.SignDirect o nonce fuel (Z.of_N d) z = Ok {| SM.sV := v; SM.sR := r; SM.sS := s |}.
Proof.
  unfold secp_sign_direct. destruct (SM.SignDirect o nonce fuel (Z.of_N d) z) as [sg|e|]; try discriminate.
  intros E. apply Ok_inj in E. destruct sg as [v' r' s']. unfold triple in E. cbn in E.
  injection E as -> -> ->. reflexivity.
Qed.

Lemma secp_SD_nonneg d z v r s : secp_sign_direct d z = Ok (v, r, s) -> (0 <= r)%Z /\ (0 <= s)%Z.
Proof.
  intros E. apply secp_SD_inv in E.
  destruct (SP.SignDirect_shape o L n_fits nonce fuel _ _ _ E) as (_ & Hr & Hs & _). cbn in Hr, Hs. lia.
Qed.

Lemma chain_is_int64 chain : (0 <= chain <= 2 ^ 53)%Z -> SM.is_int64 chain = true.
Proof. intros Hc. unfold SM.is_int64, SM.two63. lia. Qed.

Lemma secp_RD_inverts d chain z v r s :
  (1 <= Z.of_N d < n o)%Z -> (0 <= chain <= 2 ^ 53)%Z ->
  secp_sign_direct d z = Ok (v, r, s) -> v_legacy v ->
  secp_RecoverDirect (v, r, s) z chain = Ok (secp_address d) /\
  secp_RecoverDirect ((v - 27)%Z, r, s) z chain = Ok (secp_address d).
Proof.
  intros Hd Hc E Hv. apply secp_SD_inv in E.
  destruct (SP.recover_all_conventions o L n_fits H H_len nonce fuel _ _ _ chain chain Hd Hc
              (chain_is_int64 _ Hc) E Hv) as (R1 & R2 & _).
  unfold secp_RecoverDirect, secp_address, untriple. split; [exact R1|].
  replace {| SM.sV := v - 27; SM.sR := r; SM.sS := s |}
    with (SM.UpdateEIP2930 {| SM.sV := v; SM.sR := r; SM.sS := s |}); [exact R2|].
  destruct Hv as [-> | ->]; reflexivity.
Qed.

Lemma chain_ok_of chain : (0 <= chain <= 2 ^ 53)%Z -> chain_ok chain.
Proof. unfold chain_ok. lia. Qed.

Lemma maxInt32_short b : (N.of_nat (length b) <= maxInt32)%N -> short b.
Proof. unfold short, maxInt32. lia. Qed.

(* The property, end to end, in the model: signing a transaction with private key d in any mode
   yields a canonical low-S signature by d over the Keccak of the prescribed preimage, placed in the
   prescribed wire bytes; recovering from those bytes with the same chain id returns d's address, the
   same fields and the preimage.  The one case left out is V = 29/30 (x(kG) >= n, probability about
   2^-128; firefly-signer's own recovery refuses such a signature). *)
Theorem sign_recover_secp m t d chain out :
  (1 <= Z.of_N d < n o)%Z -> (0 <= chain <= 2 ^ 53)%Z -> to_ok t = true ->
  sign_mode m t (Some (KeyPairSign H secp_sign_direct d)) chain = Ok out ->
  (N.of_nat (length out) <= maxInt32)%N ->
  short (sp_data (payload_of m t chain)) ->
  let fm := format_of m t in
  let c := Z.to_N chain in
  let pre := spec_preimage fm (norm t) c in
  exists v r s,
    SM.SignDirect o nonce fuel (Z.of_N d) (H pre) = Ok {| SM.sV := v; SM.sR := r; SM.sS := s |} /\
    (1 <= r < n o)%Z /\ (1 <= s < n o)%Z /\ (2 * s <= n o)%Z /\
    ecdsa_verify o (pub o (Z.of_N d)) (SM.hash_to_z (H pre)) r s = true /\
    (v_legacy v ->
       out = spec_signed fm (norm t) c (y_of v) (Z.to_N r) (Z.to_N s) /\
       RecoverRawTransaction H secp_RecoverDirect out chain
       = Ok (secp_address d, recovered_tx fm (norm t), pre)).
Proof.
  intros Hd Hc Ht Hsign Hlen Hshort fm c pre.
  assert (Hc0 : (0 <= chain)%Z) by lia.
  destruct (sign_wire_format m t (KeyPairSign H secp_sign_direct d) chain Hc0 Hshort) as [Epre Hw].
  fold fm c pre in Epre, Hw.
  destruct (recover_sign_keypair H secp_sign_direct secp_RecoverDirect d chain (secp_address d)
              (secp_SD_nonneg d) (fun z v r s E Hv => secp_RD_inverts d chain z v r s Hd Hc E Hv)
              m t out Ht (chain_ok_of _ Hc) Hsign Hlen) as (v & r & s & E & Hrec).
  rewrite Epre in E, Hrec.
  exists v, r, s. pose proof (secp_SD_inv _ _ _ _ _ E) as E'.
  split; [exact E'|].
  destruct (SP.SignDirect_shape o L n_fits nonce fuel _ _ _ E') as (_ & Hr & Hs & Hlow & Hver).
  cbn [SM.sR SM.sS] in Hr, Hs, Hlow, Hver.
  split; [exact Hr|]. split; [exact Hs|]. split; [exact Hlow|]. split; [exact Hver|].
  intros Hv. split; [|apply Hrec, Hv].
  assert (Ef : KeyPairSign H secp_sign_direct d pre = Ok (v, r, s)) by exact E.
  rewrite Ef in Hw. destruct Hw as (out' & Eo & Hspec).
  assert (EE : Ok out' = Ok out)
    by (transitivity (sign_mode m t (Some (KeyPairSign H secp_sign_direct d)) chain); [symmetry; exact Eo|exact Hsign]).
  apply Ok_inj in EE. subst out'.
  rewrite (Hspec Hv (maxInt32_short _ Hlen)). f_equal; lia.
Qed.
End Secp.

(* ---------- the two models of the shared Go functions agree ----------
   UpdateEIP155 / UpdateEIP2930 of pkg/secp256k1/signer.go are modelled twice: here on triples
   (Tx/Model.v, with big.Int.Int64() as the two's-complement wrap of the integer) and in Secp/Model.v on
   a record (with Int64() computed as math/big does: low 64 bits of the magnitude, then negated).
   They are the same functions, for every V including those outside int64. *)
Lemma wrap_form_T x : exists k, Tx.Model.wrap64 x = (x + 2 ^ 64 * k)%Z /\ (- 2 ^ 63 <= Tx.Model.wrap64 x < 2 ^ 63)%Z.
Proof.
  unfold Tx.Model.wrap64. exists (- ((x + 2 ^ 63) / 2 ^ 64))%Z.
  pose proof (Z.div_mod (x + 2 ^ 63) (2 ^ 64) ltac:(discriminate)).
  pose proof (Z.mod_pos_bound (x + 2 ^ 63) (2 ^ 64) ltac:(reflexivity)). lia.
Qed.

Lemma wrap_form_S x : exists k, SM.wrap64 x = (x + 2 ^ 64 * k)%Z /\ (- 2 ^ 63 <= SM.wrap64 x < 2 ^ 63)%Z.
Proof.
  rewrite SP.wrap64_spec. unfold SM.two63, SM.two64. exists (- ((x + 9223372036854775808) / 18446744073709551616))%Z.
  pose proof (Z.div_mod (x + 9223372036854775808) 18446744073709551616 ltac:(discriminate)).
  pose proof (Z.mod_pos_bound (x + 9223372036854775808) 18446744073709551616 ltac:(reflexivity)). lia.
Qed.

Lemma big_int64_is_wrap64 z : SM.big_int64 z = Tx.Model.wrap64 z.
Proof.
  rewrite SP.big_int64_spec. cbv zeta.
  destruct (wrap_form_T z) as (k & E & R). rewrite E in *.
  pose proof (Z.div_mod (Z.abs z) SM.two64 ltac:(discriminate)) as D.
  destruct (wrap_form_S (Z.abs z mod SM.two64)) as (k1 & E1 & R1).
  unfold SM.two64 in *.
  destruct (Z.ltb_spec z 0).
  - destruct (wrap_form_S (- SM.wrap64 (Z.abs z mod 18446744073709551616))) as (k2 & E2 & R2).
    rewrite E2 in *. rewrite E1 in *. lia.
  - rewrite E1 in *. lia.
Qed.

Lemma UpdateEIP2930_models_agree sg : untriple (UpdateEIP2930 sg) = SM.UpdateEIP2930 (untriple sg).
Proof.
  destruct sg as [[v r] s]. unfold UpdateEIP2930, SM.UpdateEIP2930, untriple. cbn [SM.sV SM.sR SM.sS].
  rewrite big_int64_is_wrap64. destruct ((wrap64 v =? 27)%Z || (wrap64 v =? 28)%Z); reflexivity.
Qed.

Lemma UpdateEIP155_models_agree sg chain : untriple (UpdateEIP155 sg chain) = SM.UpdateEIP155 (untriple sg) chain.
Proof. destruct sg as [[v r] s]. reflexivity. Qed.
