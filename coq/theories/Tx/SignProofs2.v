(* Proofs for C01, part 2: recovering what was signed.  The bytes a signing mode returns, fed to the
   model of RecoverRawTransaction (Tx/RecoverModel.v, property C10) with the same chain id, are
   accepted, yield the same field values and the prescribed preimage as payload, and the signer's
   address is whatever SignatureData.RecoverDirect returns for the *same* (V, R, S) the signer
   answered (V as 27/28 for the legacy formats, as 0/1 for EIP-1559) over the hash of that preimage. *)
From Coq Require Import List NArith ZArith Lia Bool Arith.
From Coq Require Import ZifyN ZifyNat ZifyBool.
From Coq Require Import Init.Byte.
From FFS Require Import Base.Res Base.Bytes Rlp.Model Rlp.Spec Rlp.Proofs.
From FFS Require Import Tx.Model Tx.Spec Tx.Norm Tx.SignProofs Tx.RecoverModel.
Import ListNotations.

(* ---------- small facts ---------- *)
Lemma wrap64_small z : (- 2 ^ 63 <= z < 2 ^ 63)%Z -> wrap64 z = z.
Proof. intros Hz. unfold wrap64. rewrite Z.mod_small by lia. lia. Qed.

Lemma canon_int d (K : bool) : head_nz d ->
  match d with
  | b :: _ => if (b2n b =? 0)%N then false else K
  | [] => K
  end = K.
Proof.
  destruct d as [|b t]; [reflexivity|]. cbn [head_nz]. intros Hb.
  destruct (N.eqb_spec (b2n b) 0); [contradiction|reflexivity].
Qed.

Definition addr_len (d : bytes) : Prop := length d = 0%nat \/ length d = 20%nat.

Lemma canon_to d (K : bool) : addr_len d ->
  (if negb (length d =? 0)%nat && negb (length d =? 20)%nat then false else K) = K.
Proof. intros [E|E]; rewrite E; reflexivity. Qed.

Lemma canonical_legacy b0 b1 b2 b3 b4 b5 :
  head_nz b0 -> head_nz b1 -> head_nz b2 -> addr_len b3 -> head_nz b4 ->
  canonicalFields [Str b0; Str b1; Str b2; Str b3; Str b4; Str b5] 3 5 = true.
Proof.
  intros H0 H1 H2 H3 H4. unfold canonicalFields. cbn [canonicalFields_from Nat.eqb].
  rewrite (canon_int b0) by exact H0. rewrite (canon_int b1) by exact H1.
  rewrite (canon_int b2) by exact H2. rewrite (canon_to b3) by exact H3.
  rewrite (canon_int b4) by exact H4. reflexivity.
Qed.

Lemma canonical_1559 b0 b1 b2 b3 b4 b5 b6 b7 :
  head_nz b0 -> head_nz b1 -> head_nz b2 -> head_nz b3 -> head_nz b4 -> addr_len b5 -> head_nz b6 ->
  canonicalFields [Str b0; Str b1; Str b2; Str b3; Str b4; Str b5; Str b6; Str b7] 5 7 = true.
Proof.
  intros H0 H1 H2 H3 H4 H5 H6. unfold canonicalFields. cbn [canonicalFields_from Nat.eqb].
  rewrite (canon_int b0) by exact H0. rewrite (canon_int b1) by exact H1.
  rewrite (canon_int b2) by exact H2. rewrite (canon_int b3) by exact H3.
  rewrite (canon_int b4) by exact H4. rewrite (canon_to b5) by exact H5.
  rewrite (canon_int b6) by exact H6. reflexivity.
Qed.

(* first byte of the encoding of a list with at least 7 bytes of payload: >= 0xc7 *)
Lemma encode_list_first l : (7 <= length (flat_map encode l))%nat ->
  exists b tl, encode (Lst l) = b :: tl /\ (199 <=? b2n b)%N = true.
Proof.
  intros Hl. cbn [encode]. rewrite encode_bytes_list_eq.
  destruct (length (flat_map encode l) <=? 55)%nat eqn:E.
  - apply Nat.leb_le in E. eexists _, _. split; [reflexivity|].
    rewrite b2n_n2b by lia. apply N.leb_le. lia.
  - pose proof (be_min_length (N.of_nat (length (flat_map encode l)))) as Hb.
    eexists _, _. split; [reflexivity|]. rewrite b2n_n2b by lia. apply N.leb_le. lia.
Qed.

Lemma flat_map_encode_len_ge9 (a0 a1 a2 a3 a4 a5 a6 a7 a8 : item) tl :
  (7 <= length (flat_map encode (a0 :: a1 :: a2 :: a3 :: a4 :: a5 :: a6 :: a7 :: a8 :: tl)))%nat.
Proof.
  cbn [flat_map]. rewrite !app_length.
  pose proof (encode_length_pos a0). pose proof (encode_length_pos a1). pose proof (encode_length_pos a2).
  pose proof (encode_length_pos a3). pose proof (encode_length_pos a4). pose proof (encode_length_pos a5).
  pose proof (encode_length_pos a6). lia.
Qed.

(* whatever encodes into at most maxInt32 bytes is within the region the decoder accepts *)
Lemma small_size_ok i : (N.of_nat (length (encode i)) <= maxInt32)%N -> size_ok i = true.
Proof.
  induction i as [b|l IH] using item_ind'; intros Hl.
  - cbn [size_ok]. cbn [encode] in Hl. pose proof (encode_bytes_len_ge b false). apply N.leb_le. lia.
  - cbn [encode] in Hl. pose proof (encode_bytes_len_ge (flat_map encode l) true) as Hge.
    cbn [size_ok]. apply andb_true_iff. split; [|apply N.leb_le; lia].
    apply forallb_forall. intros x Hx. rewrite Forall_forall in IH. apply IH; [exact Hx|].
    pose proof (flat_map_encode_len_ge x l Hx). lia.
Qed.

Section RecoverSign.
Variable H : bytes -> bytes.
Variable RecoverDirect : sigdata -> bytes -> Z -> res bytes.

Notation RecoverRaw := (RecoverRawTransaction H RecoverDirect).
Notation RecoverLegacy := (RecoverLegacyRawTransaction H RecoverDirect).
Notation Recover1559 := (RecoverEIP1559Transaction H RecoverDirect).

Definition zN (b : bytes) : Z := Z.of_N (of_be b).

(* ---------- the legacy decoder on a canonical 9-element list of strings ---------- *)
Lemma recover_legacy_generic b0 b1 b2 b3 b4 b5 b6 b7 b8 chain :
  let l6 := [Str b0; Str b1; Str b2; Str b3; Str b4; Str b5] in
  let raw := Lst (l6 ++ [Str b6; Str b7; Str b8]) in
  size_ok raw = true ->
  head_nz b0 -> head_nz b1 -> head_nz b2 -> addr_len b3 -> head_nz b4 ->
  RecoverLegacy (encode raw) chain =
    let t := mkTx (Some (zN b0)) (Some (zN b1)) None None (Some (zN b2)) (DataAddress (Some b3))
                  (Some (zN b4)) (Some b5) in
    let vValue := wrap64 (zN b6) in
    if negb (vValue =? 27)%Z && negb (vValue =? 28)%Z then
      let vValue' := wrap64 (wrap64 (vValue - wrap64 (chain * 2)) - 8) in
      if negb (vValue' =? 27)%Z && negb (vValue' =? 28)%Z then Err EInvalidV155 else
      recoverCommon H RecoverDirect t (encode (Lst (AddEIP155HashValuesToRLPList l6 chain))) chain vValue' b7 b8
    else recoverCommon H RecoverDirect t (encode (Lst l6)) chain vValue b7 b8.
Proof.
  intros l6 raw Hs H0 H1 H2 H3 H4.
  unfold RecoverLegacyRawTransaction.
  rewrite <- (app_nil_r (encode raw)), (decode_encode raw [] Hs).
  unfold raw, l6. cbn [app length Nat.ltb Nat.leb lslice Nat.sub firstn skipn andb bind].
  rewrite canonical_legacy by assumption. cbn [negb idx nth_error bind ToData IsList HexInt DataInt IntInt64 BytesNotNil HexBytes].
  reflexivity.
Qed.

(* ---------- the EIP-1559 decoder on a canonical 12-element list ---------- *)
Lemma recover_1559_generic b0 b1 b2 b3 b4 b5 b6 b7 b9 b10 b11 chain :
  let l9 := [Str b0; Str b1; Str b2; Str b3; Str b4; Str b5; Str b6; Str b7; Lst []] in
  let raw := Lst (l9 ++ [Str b9; Str b10; Str b11]) in
  size_ok raw = true ->
  (of_be b0 < 2 ^ 63)%N -> zN b0 = chain ->
  head_nz b0 -> head_nz b1 -> head_nz b2 -> head_nz b3 -> head_nz b4 -> addr_len b5 -> head_nz b6 ->
  Recover1559 (TransactionType1559 :: encode raw) chain =
    let t := mkTx (Some (zN b1)) None (Some (zN b2)) (Some (zN b3)) (Some (zN b4)) (DataAddress (Some b5))
                  (Some (zN b6)) (Some b7) in
    recoverCommon H RecoverDirect t (TransactionType1559 :: encode (Lst l9)) chain (wrap64 (zN b9)) b10 b11.
Proof.
  intros l9 raw Hs Hc63 Hc H0 H1 H2 H3 H4 H5 H6.
  unfold RecoverEIP1559Transaction, decodeEIP1559SignaturePayload.
  replace (b2n TransactionType1559 =? b2n TransactionType1559)%N with true by (symmetry; apply N.eqb_refl).
  cbn [negb]. rewrite <- (app_nil_r (encode raw)), (decode_encode raw [] Hs).
  unfold raw, l9. cbn [app length Nat.ltb Nat.leb idx nth_error bind ToData IntOrZero].
  replace (of_be b0 <? 2 ^ 63)%N with true by (symmetry; apply N.ltb_lt; exact Hc63).
  unfold zN in Hc. rewrite Hc. rewrite Z.eqb_refl.
  cbn [negb orb lslice Nat.leb Nat.sub firstn skipn andb length bind].
  rewrite canonical_1559 by assumption.
  cbn [negb idx nth_error bind ToData IsList HexInt DataInt IntInt64 BytesNotNil HexBytes].
  reflexivity.
Qed.

(* ---------- instantiation with what the signing modes build ---------- *)
Definition bb (z : Z) : bytes := big_bytes (Z.abs_N z).

Lemma WrapBig_Str z : WrapBig z = Str (bb z).
Proof. reflexivity. Qed.

Lemma bb_head z : head_nz (bb z).
Proof. apply WrapInt_minimal. Qed.

Lemma zN_bb z : zN (bb z) = Z.abs z.
Proof.
  unfold zN, bb. rewrite big_bytes_BE. destruct (BE_spec (Z.abs_N z)) as [E _]. rewrite E. lia.
Qed.

Lemma of_be_bb z : of_be (bb z) = Z.abs_N z.
Proof. unfold bb. rewrite big_bytes_BE. apply BE_spec. Qed.

(* destination: nil or 20 bytes *)
Definition to_bytes (a : option bytes) : bytes := match a with Some b => b | None => [] end.
Lemma WrapAddress_Str a : WrapAddress a = Str (to_bytes a).
Proof. destruct a; reflexivity. Qed.

Lemma to_ok_addr_len t : to_ok t = true -> addr_len (to_bytes (tx_to t)).
Proof.
  unfold to_ok, addr_len. destruct (tx_to t) as [a|]; cbn [to_bytes]; [|left; reflexivity].
  intros E. apply Nat.eqb_eq in E. right; exact E.
Qed.

Lemma DataAddress_to t : to_ok t = true -> DataAddress (Some (to_bytes (tx_to t))) = tx_to t.
Proof.
  unfold to_ok, DataAddress. destruct (tx_to t) as [a|]; cbn [to_bytes]; [|reflexivity].
  intros E. rewrite E. reflexivity.
Qed.

(* the transaction RecoverRawTransaction hands back for field tuple [f] in format [fm] *)
Definition recovered_tx (fm : format) (f : fields) : tx :=
  match fm with
  | Eip1559 =>
      mkTx (Some (Z.of_N (f_nonce f))) None (Some (Z.of_N (f_maxPrio f))) (Some (Z.of_N (f_maxFee f)))
           (Some (Z.of_N (f_gasLimit f))) (f_to f) (Some (Z.of_N (f_value f))) (Some (f_data f))
  | _ =>
      mkTx (Some (Z.of_N (f_nonce f))) (Some (Z.of_N (f_gasPrice f))) None None
           (Some (Z.of_N (f_gasLimit f))) (f_to f) (Some (Z.of_N (f_value f))) (Some (f_data f))
  end.

(* recovering gives back the same field tuple *)
Lemma norm_recovered_legacy t :
  let f := norm t in
  f_nonce (norm (recovered_tx Original f)) = f_nonce f /\ f_gasPrice (norm (recovered_tx Original f)) = f_gasPrice f /\
  f_gasLimit (norm (recovered_tx Original f)) = f_gasLimit f /\ f_to (norm (recovered_tx Original f)) = f_to f /\
  f_value (norm (recovered_tx Original f)) = f_value f /\ f_data (norm (recovered_tx Original f)) = f_data f.
Proof. cbv zeta. unfold recovered_tx, norm, mag, BigInt. cbn. repeat split; lia. Qed.

Lemma norm_recovered_1559 t :
  let f := norm t in
  f_nonce (norm (recovered_tx Eip1559 f)) = f_nonce f /\ f_maxPrio (norm (recovered_tx Eip1559 f)) = f_maxPrio f /\
  f_maxFee (norm (recovered_tx Eip1559 f)) = f_maxFee f /\
  f_gasLimit (norm (recovered_tx Eip1559 f)) = f_gasLimit f /\ f_to (norm (recovered_tx Eip1559 f)) = f_to f /\
  f_value (norm (recovered_tx Eip1559 f)) = f_value f /\ f_data (norm (recovered_tx Eip1559 f)) = f_data f.
Proof. cbv zeta. unfold recovered_tx, norm, mag, BigInt. cbn. repeat split; lia. Qed.

(* the chain ids of the property's quantifier (and well beyond): all int64 arithmetic on V is exact *)
Definition chain_ok (chain : Z) : Prop := (0 <= chain < 2 ^ 61)%Z.

Lemma BuildLegacy_strs t : BuildLegacy t =
  [Str (bb (BigInt (tx_nonce t))); Str (bb (BigInt (tx_gasPrice t))); Str (bb (BigInt (tx_gasLimit t)));
   Str (to_bytes (tx_to t)); Str (bb (BigInt (tx_value t))); Str (BytesNotNil (tx_data t))].
Proof. unfold BuildLegacy. rewrite WrapAddress_Str. reflexivity. Qed.

Lemma legacy_tx_eq t : to_ok t = true ->
  mkTx (Some (zN (bb (BigInt (tx_nonce t))))) (Some (zN (bb (BigInt (tx_gasPrice t))))) None None
       (Some (zN (bb (BigInt (tx_gasLimit t))))) (DataAddress (Some (to_bytes (tx_to t))))
       (Some (zN (bb (BigInt (tx_value t))))) (Some (BytesNotNil (tx_data t)))
  = recovered_tx Original (norm t).
Proof.
  intros Ht. rewrite DataAddress_to by exact Ht. rewrite !zN_bb.
  unfold recovered_tx, norm, mag. cbn [f_nonce f_gasPrice f_gasLimit f_to f_value f_data].
  rewrite !N2Z.inj_abs_N. reflexivity.
Qed.

(* original format *)
Lemma recover_sign_original t v r s :
  to_ok t = true -> v_legacy v -> (0 <= r)%Z -> (0 <= s)%Z ->
  forall chain,
  let out := encode (Lst (addSignature (BuildLegacy t) (v, r, s))) in
  size_ok (Lst (addSignature (BuildLegacy t) (v, r, s))) = true ->
  RecoverRaw out chain =
    do a <- RecoverDirect (v, r, s) (H (sp_data (SignaturePayloadLegacyOriginal t))) chain;
    Ok (a, recovered_tx Original (norm t), sp_data (SignaturePayloadLegacyOriginal t)).
Proof.
  intros Ht Hv Hr Hsn chain out Hs. unfold out. clear out.
  cbn [addSignature] in *. rewrite BuildLegacy_strs in *. rewrite !WrapBig_Str in *.
  match goal with |- RecoverRawTransaction _ _ (encode (Lst ?l)) _ = _ =>
    destruct (encode_list_first l) as (b & tl & E & Hb); [apply flat_map_encode_len_ge9|] end.
  unfold RecoverRawTransaction. rewrite E, Hb. rewrite <- E. clear E Hb b tl.
  rewrite (recover_legacy_generic _ _ _ _ _ _ _ _ _ chain Hs)
    by (try apply bb_head; apply to_ok_addr_len, Ht).
  cbv zeta. rewrite legacy_tx_eq by exact Ht. rewrite !zN_bb.
  replace (wrap64 (Z.abs v)) with v by (destruct Hv; subst; reflexivity).
  replace (negb (v =? 27)%Z && negb (v =? 28)%Z) with false by (destruct Hv; subst; reflexivity).
  unfold recoverCommon, SigRecover. rewrite !of_be_bb, !N2Z.inj_abs_N, !Z.abs_eq by assumption.
  cbn [SignaturePayloadLegacyOriginal sp_data]. rewrite BuildLegacy_strs. reflexivity.
Qed.

(* EIP-155 *)
Lemma recover_sign_eip155 t v r s chain :
  to_ok t = true -> v_legacy v -> (0 <= r)%Z -> (0 <= s)%Z -> chain_ok chain ->
  let sg' := UpdateEIP155 (v, r, s) chain in
  let out := encode (Lst (addSignature (BuildLegacy t) sg')) in
  size_ok (Lst (addSignature (BuildLegacy t) sg')) = true ->
  RecoverRaw out chain =
    do a <- RecoverDirect (v, r, s) (H (sp_data (SignaturePayloadLegacyEIP155 t chain))) chain;
    Ok (a, recovered_tx Eip155 (norm t), sp_data (SignaturePayloadLegacyEIP155 t chain)).
Proof.
  intros Ht Hv Hr Hsn Hc sg' out Hs. unfold out, sg' in *. clear out sg'. unfold chain_ok in Hc.
  cbn [UpdateEIP155 addSignature] in *. rewrite BuildLegacy_strs in *. rewrite !WrapBig_Str in *.
  match goal with |- RecoverRawTransaction _ _ (encode (Lst ?l)) _ = _ =>
    destruct (encode_list_first l) as (b & tl & E & Hb); [apply flat_map_encode_len_ge9|] end.
  unfold RecoverRawTransaction. rewrite E, Hb. rewrite <- E. clear E Hb b tl.
  rewrite (recover_legacy_generic _ _ _ _ _ _ _ _ _ chain Hs)
    by (try apply bb_head; apply to_ok_addr_len, Ht).
  cbv zeta. rewrite legacy_tx_eq by exact Ht. rewrite !zN_bb.
  assert (Hv2 : (27 <= v <= 28)%Z) by (destruct Hv; lia).
  rewrite (Z.abs_eq (v + chain * 2 + (35 - 27))) by lia.
  rewrite (wrap64_small (v + chain * 2 + (35 - 27))) by lia.
  rewrite (wrap64_small (chain * 2)) by lia.
  rewrite (wrap64_small (v + chain * 2 + (35 - 27) - chain * 2)) by lia.
  rewrite (wrap64_small (v + chain * 2 + (35 - 27) - chain * 2 - 8)) by lia.
  replace (v + chain * 2 + (35 - 27) - chain * 2 - 8)%Z with v by lia.
  replace (negb (v + chain * 2 + (35 - 27) =? 27)%Z && negb (v + chain * 2 + (35 - 27) =? 28)%Z) with true
    by (symmetry; apply andb_true_iff; split; apply negb_true_iff, Z.eqb_neq; lia).
  replace (negb (v =? 27)%Z && negb (v =? 28)%Z) with false by (destruct Hv; subst; reflexivity).
  unfold recoverCommon, SigRecover. rewrite !of_be_bb, !N2Z.inj_abs_N, !Z.abs_eq by assumption.
  cbn [SignaturePayloadLegacyEIP155 sp_data]. rewrite BuildLegacy_strs. reflexivity.
Qed.

(* EIP-1559 *)
Lemma Build1559_strs t chain : Build1559 t chain =
  [Str (bb chain); Str (bb (BigInt (tx_nonce t))); Str (bb (BigInt (tx_maxPrio t))); Str (bb (BigInt (tx_maxFee t)));
   Str (bb (BigInt (tx_gasLimit t))); Str (to_bytes (tx_to t)); Str (bb (BigInt (tx_value t)));
   Str (BytesNotNil (tx_data t)); Lst []].
Proof. unfold Build1559. rewrite WrapAddress_Str. reflexivity. Qed.

Lemma tx1559_eq t : to_ok t = true ->
  mkTx (Some (zN (bb (BigInt (tx_nonce t))))) None (Some (zN (bb (BigInt (tx_maxPrio t)))))
       (Some (zN (bb (BigInt (tx_maxFee t))))) (Some (zN (bb (BigInt (tx_gasLimit t)))))
       (DataAddress (Some (to_bytes (tx_to t)))) (Some (zN (bb (BigInt (tx_value t))))) (Some (BytesNotNil (tx_data t)))
  = recovered_tx Eip1559 (norm t).
Proof.
  intros Ht. rewrite DataAddress_to by exact Ht. rewrite !zN_bb.
  unfold recovered_tx, norm, mag. cbn [f_nonce f_maxPrio f_maxFee f_gasLimit f_to f_value f_data].
  rewrite !N2Z.inj_abs_N. reflexivity.
Qed.

Lemma recover_sign_eip1559 t v r s chain :
  to_ok t = true -> v_legacy v -> (0 <= r)%Z -> (0 <= s)%Z -> chain_ok chain ->
  let sg' := UpdateEIP2930 (v, r, s) in
  let out := TransactionType1559 :: encode (Lst (addSignature (Build1559 t chain) sg')) in
  size_ok (Lst (addSignature (Build1559 t chain) sg')) = true ->
  RecoverRaw out chain =
    do a <- RecoverDirect ((v - 27)%Z, r, s) (H (sp_data (SignaturePayloadEIP1559 t chain))) chain;
    Ok (a, recovered_tx Eip1559 (norm t), sp_data (SignaturePayloadEIP1559 t chain)).
Proof.
  intros Ht Hv Hr Hsn Hc sg' out Hs. unfold out, sg' in *. clear out sg'. unfold chain_ok in Hc.
  rewrite UpdateEIP2930_legacy in * by exact Hv.
  cbn [addSignature] in *. rewrite Build1559_strs in *. rewrite !WrapBig_Str in *.
  unfold RecoverRawTransaction.
  replace (199 <=? b2n TransactionType1559)%N with false by reflexivity.
  replace (b2n TransactionType1559 =? b2n TransactionType1559)%N with true by reflexivity.
  assert (Hv2 : (27 <= v <= 28)%Z) by (destruct Hv; lia).
  rewrite (recover_1559_generic _ _ _ _ _ _ _ _ _ _ _ chain Hs);
    try apply bb_head; try (apply to_ok_addr_len, Ht);
    [| rewrite of_be_bb; lia | rewrite zN_bb; lia ].
  cbv zeta. rewrite tx1559_eq by exact Ht. rewrite !zN_bb.
  rewrite (Z.abs_eq (v - 27)) by lia. rewrite (wrap64_small (v - 27)) by lia.
  unfold recoverCommon, SigRecover. rewrite !of_be_bb, !N2Z.inj_abs_N, !Z.abs_eq by assumption.
  cbn [SignaturePayloadEIP1559 sp_data]. rewrite Build1559_strs. reflexivity.
Qed.

(* ---------- the theorem: RecoverRawTransaction after any signing mode ---------- *)
(* V as RecoverDirect receives it: 27/28 from the legacy formats, the bare parity from type 0x02 *)
Definition v_seen (fm : format) (v : Z) : Z := match fm with Eip1559 => (v - 27)%Z | _ => v end.

Theorem recover_sign m t f chain v r s out :
  to_ok t = true -> chain_ok chain ->
  f (sp_data (payload_of m t chain)) = Ok (v, r, s) -> v_legacy v -> (0 <= r)%Z -> (0 <= s)%Z ->
  sign_mode m t (Some f) chain = Ok out ->
  (N.of_nat (length out) <= maxInt32)%N ->
  let fm := format_of m t in
  let pre := sp_data (payload_of m t chain) in
  RecoverRaw out chain =
    do a <- RecoverDirect (v_seen fm v, r, s) (H pre) chain;
    Ok (a, recovered_tx fm (norm t), pre).
Proof.
  intros Ht Hc Hf Hv Hr Hs Hsign Hlen fm pre. unfold fm, pre. clear fm pre.
  rewrite sign_mode_unfold, Hf in Hsign. cbn [bind] in Hsign.
  assert (L : forall fm', format_of m t = fm' -> fm' = Original \/ fm' = Eip155 \/ fm' = Eip1559)
    by (intros [] _; auto).
  assert (Orig : forall out, FinalizeLegacyOriginalWithSignature t (SignaturePayloadLegacyOriginal t) (v, r, s) = Ok out ->
            (N.of_nat (length out) <= maxInt32)%N ->
            RecoverRaw out chain =
              do a <- RecoverDirect (v, r, s) (H (sp_data (SignaturePayloadLegacyOriginal t))) chain;
              Ok (a, recovered_tx Original (norm t), sp_data (SignaturePayloadLegacyOriginal t))).
  { intros o E Hl. apply Ok_inj in E. subst o. cbn [SignaturePayloadLegacyOriginal sp_list] in *.
    apply recover_sign_original; try assumption. apply small_size_ok, Hl. }
  assert (E155 : forall out, FinalizeLegacyEIP155WithSignature t (SignaturePayloadLegacyEIP155 t chain) (v, r, s) chain = Ok out ->
            (N.of_nat (length out) <= maxInt32)%N ->
            RecoverRaw out chain =
              do a <- RecoverDirect (v, r, s) (H (sp_data (SignaturePayloadLegacyEIP155 t chain))) chain;
              Ok (a, recovered_tx Eip155 (norm t), sp_data (SignaturePayloadLegacyEIP155 t chain))).
  { intros o E Hl. unfold FinalizeLegacyEIP155WithSignature in E.
    cbn [SignaturePayloadLegacyEIP155 sp_list] in E. rewrite lslice_legacy6 in E. cbn [bind] in E.
    apply Ok_inj in E. subst o. apply recover_sign_eip155; try assumption. apply small_size_ok, Hl. }
  assert (E1559 : forall out, FinalizeEIP1559WithSignature t (SignaturePayloadEIP1559 t chain) (v, r, s) = Ok out ->
            (N.of_nat (length out) <= maxInt32)%N ->
            RecoverRaw out chain =
              do a <- RecoverDirect ((v - 27)%Z, r, s) (H (sp_data (SignaturePayloadEIP1559 t chain))) chain;
              Ok (a, recovered_tx Eip1559 (norm t), sp_data (SignaturePayloadEIP1559 t chain))).
  { intros o E Hl. unfold FinalizeEIP1559WithSignature in E. apply Ok_inj in E. subst o.
    cbn [SignaturePayloadEIP1559 sp_list] in *.
    apply recover_sign_eip1559; try assumption. apply small_size_ok.
    cbn [length] in Hl. lia. }
  destruct m; cbn [finalize format_of payload_of v_seen] in *.
  - apply Orig; assumption.
  - apply E155; assumption.
  - apply E1559; assumption.
  - unfold SignaturePayload. destruct (wants1559 t); cbn [v_seen]; [apply E1559|apply E155]; assumption.
Qed.

End RecoverSign.

(* ---------- with the KeyPair signer of pkg/secp256k1 ----------
   [sign_direct d z] is KeyPair.SignDirect and [RecoverDirect] is SignatureData.RecoverDirect; what
   C01 needs from them are two laws that property C05 establishes for their models
   (C05_sign_shape: R, S non-negative; C05_recover_all_conventions: a 27/28 signature by key d over
   digest z recovers the address of d when V is written as 27/28 and when it is written as 0/1).
   Under these laws, signing with the key pair in any mode and recovering with the same chain id
   gives the key's address, the same field values and the prescribed preimage. *)
Section KeyPairRoundTrip.
Variable H : bytes -> bytes.
Variable sign_direct : N -> bytes -> res sigdata.
Variable RecoverDirect : sigdata -> bytes -> Z -> res bytes.
Variable d : N.            (* the private key *)
Variable chain : Z.
Variable addr : bytes.     (* the address of the key *)

Hypothesis SD_nonneg : forall z v r s, sign_direct d z = Ok (v, r, s) -> (0 <= r)%Z /\ (0 <= s)%Z.
Hypothesis RD_inverts : forall z v r s, sign_direct d z = Ok (v, r, s) -> v_legacy v ->
  RecoverDirect (v, r, s) z chain = Ok addr /\ RecoverDirect ((v - 27)%Z, r, s) z chain = Ok addr.

Theorem recover_sign_keypair m t out :
  to_ok t = true -> chain_ok chain ->
  sign_mode m t (Some (KeyPairSign H sign_direct d)) chain = Ok out ->
  (N.of_nat (length out) <= maxInt32)%N ->
  let pre := sp_data (payload_of m t chain) in
  exists v r s, sign_direct d (H pre) = Ok (v, r, s) /\
    (v_legacy v ->
     RecoverRawTransaction H RecoverDirect out chain
     = Ok (addr, recovered_tx (format_of m t) (norm t), pre)).
Proof.
  intros Ht Hc Hsign Hlen pre.
  pose proof Hsign as Hs2. rewrite sign_mode_unfold in Hs2. unfold KeyPairSign in Hs2 at 1.
  fold pre in Hs2. destruct (sign_direct d (H pre)) as [[[v r] s]|e|] eqn:E; try discriminate.
  exists v, r, s. split; [reflexivity|]. intros Hv.
  destruct (SD_nonneg _ _ _ _ E) as [Hr Hs].
  rewrite (recover_sign H RecoverDirect m t (KeyPairSign H sign_direct d) chain v r s out); try assumption.
  fold pre. destruct (RD_inverts _ _ _ _ E Hv) as [R1 R2].
  destruct (format_of m t); cbn [v_seen]; rewrite ?R1, ?R2; reflexivity.
Qed.
End KeyPairRoundTrip.
