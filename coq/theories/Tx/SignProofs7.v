(* Proofs for C01, part 7 (wave 6): the wire-format theorems WITHOUT any size guard on the payload or
   on the output, for data of ANY length a Go slice can have (below 2^63 bytes) and every
   non-negative int64 chain id.  SignProofs4/5 derive the size guards from [in_range], whose data
   bound 2^31-1024 is the RLP decoder's limit: that bound concerns recovery only.  Here the same
   derivation is done for signing alone under [sign_range] (fields below 2^256 in magnitude, 20-byte
   destination, data shorter than 2^63 bytes): payload and returned bytes are shorter than 2^64. *)
From Coq Require Import List NArith ZArith Lia Bool Arith.
From Coq Require Import ZifyN ZifyNat ZifyBool.
From Coq Require Import Init.Byte.
From FFS Require Import Base.Res Base.Bytes Base.Keccak Crypto.Ecdsa Rlp.Model Rlp.Spec Rlp.Proofs.
From FFS Require Import Tx.Model Tx.Spec Tx.Norm Tx.SignProofs Tx.RecoverModel Tx.SignProofs2 Tx.SignProofs3 Tx.SignProofs4
  Tx.SignProofs6.
Import ListNotations.

(* the inputs signing is defined on: the property's field range, the Go type of the destination, and
   a data slice whose length fits Go's int (every slice on a 64-bit platform) *)
Definition sign_range (t : tx) : Prop :=
  to_ok t = true /\
  below256 (tx_nonce t) /\ below256 (tx_gasPrice t) /\ below256 (tx_maxPrio t) /\ below256 (tx_maxFee t) /\
  below256 (tx_gasLimit t) /\ below256 (tx_value t) /\
  (N.of_nat (length (BytesNotNil (tx_data t))) < 2 ^ 63)%N.

Lemma in_range_sign_range t : in_range t -> sign_range t.
Proof.
  intros (Ht & H1 & H2 & H3 & H4 & H5 & H6 & Hd). repeat (split; [assumption|]).
  pose proof data_max_val. change (2 ^ 63)%N with 9223372036854775808%N. lia.
Qed.

Lemma chain_small63 chain : (0 <= chain < 2 ^ 63)%Z -> (Z.abs chain < 256 ^ Z.of_nat 8)%Z.
Proof. intros H. change (256 ^ Z.of_nat 8)%Z with (2 ^ 64)%Z. lia. Qed.

Lemma sig_len9 v r s : (Z.abs v < 256 ^ Z.of_nat 9)%Z -> (Z.abs r < two256)%Z -> (Z.abs s < two256)%Z ->
  (length (flat_map encode [WrapBig v; WrapBig r; WrapBig s]) <= 100)%nat.
Proof.
  intros Hv Hr Hs. unfold two256 in *. cbn [flat_map]. rewrite !app_length. cbn [length].
  pose proof (enc_int_len _ 9 Hv). pose proof (enc_int_len _ 32 Hr). pose proof (enc_int_len _ 32 Hs). lia.
Qed.

Section BoundsBig.
Variable t : tx.
Hypothesis R : sign_range t.
Variable chain : Z.
Hypothesis Hc : (0 <= chain < 2 ^ 63)%Z.

Let dl := length (BytesNotNil (tx_data t)).

Lemma BuildLegacy_lenB : (length (flat_map encode (BuildLegacy t)) <= 202 + dl)%nat.
Proof.
  destruct R as (Ht & H1 & H2 & H3 & H4 & H5 & H6 & Hd). unfold below256, two256 in *.
  unfold BuildLegacy. cbn [flat_map]. rewrite !app_length. cbn [length].
  pose proof (enc_int_len _ 32 H1). pose proof (enc_int_len _ 32 H2). pose proof (enc_int_len _ 32 H5).
  pose proof (enc_int_len _ 32 H6). rewrite WrapAddress_Str.
  pose proof (enc_str_len (to_bytes (tx_to t))). pose proof (to_len t Ht).
  pose proof (enc_str_len (BytesNotNil (tx_data t))) as HD. unfold WrapData. fold dl in HD |- *. lia.
Qed.

Lemma Build1559_lenB : (length (flat_map encode (Build1559 t chain)) <= 261 + dl)%nat.
Proof.
  destruct R as (Ht & H1 & H2 & H3 & H4 & H5 & H6 & Hd). unfold below256, two256 in *.
  unfold Build1559. cbn [flat_map]. rewrite !app_length.
  pose proof (enc_int_len _ 8 (chain_small63 _ Hc)).
  pose proof (enc_int_len _ 32 H1). pose proof (enc_int_len _ 32 H3). pose proof (enc_int_len _ 32 H4).
  pose proof (enc_int_len _ 32 H5). pose proof (enc_int_len _ 32 H6). rewrite WrapAddress_Str.
  pose proof (enc_str_len (to_bytes (tx_to t))). pose proof (to_len t Ht).
  pose proof (enc_str_len (BytesNotNil (tx_data t))) as HD. unfold WrapData. fold dl in HD |- *.
  change (length (encode (Lst []))) with 1%nat. cbn [length]. lia.
Qed.

Lemma dl_maxB : (N.of_nat dl < 9223372036854775808)%N.
Proof. destruct R as (_ & _ & _ & _ & _ & _ & _ & Hd). exact Hd. Qed.

(* the signature payload of every mode is shorter than 2^64 bytes *)
Lemma payload_shortB m : short (sp_data (payload_of m t chain)).
Proof.
  pose proof BuildLegacy_lenB as HL. pose proof Build1559_lenB as H9. pose proof dl_maxB as Hd.
  unfold short. change (2 ^ 64)%N with 18446744073709551616%N.
  assert (E155 : (length (flat_map encode (AddEIP155HashValuesToRLPList (BuildLegacy t) chain)) <= 202 + dl + 19)%nat).
  { unfold AddEIP155HashValuesToRLPList. rewrite flat_map_app, app_length.
    pose proof (enc_int_len _ 8 (chain_small63 _ Hc)).
    cbn [flat_map]. rewrite !app_length. change (length (encode (WrapBig 0))) with 1%nat. cbn [length]. lia. }
  destruct m; cbn [payload_of]; unfold SignaturePayload; try destruct (wants1559 t);
    cbn [SignaturePayloadLegacyOriginal SignaturePayloadLegacyEIP155 SignaturePayloadEIP1559 sp_data length];
    match goal with |- context [encode (Lst ?l)] => pose proof (enc_list_len l) end; lia.
Qed.

(* what a mode returns for a signature with |V| <= 30, |R|,|S| < 2^256 is shorter than 2^64 bytes *)
Lemma finalize_shortB m v r s out :
  (Z.abs v <= 30)%Z -> (Z.abs r < two256)%Z -> (Z.abs s < two256)%Z ->
  finalize m t chain (v, r, s) = Ok out -> short out.
Proof.
  intros Hv Hr Hs.
  pose proof BuildLegacy_lenB as HL. pose proof Build1559_lenB as H9. pose proof dl_maxB as Hd.
  unfold short. change (2 ^ 64)%N with 18446744073709551616%N.
  assert (Orig : forall o, FinalizeLegacyOriginalWithSignature t (SignaturePayloadLegacyOriginal t) (v, r, s) = Ok o ->
                 (N.of_nat (length o) < 18446744073709551616)%N).
  { intros o E. apply Ok_inj in E. subst o. cbn [SignaturePayloadLegacyOriginal sp_list addSignature].
    match goal with |- context [encode (Lst ?l)] => pose proof (enc_list_len l) as HE end.
    rewrite flat_map_app, app_length in HE.
    assert (Hv8 : (Z.abs v < 256 ^ Z.of_nat 9)%Z) by (change (256 ^ Z.of_nat 9)%Z with (2 ^ 72)%Z; lia).
    pose proof (sig_len9 v r s Hv8 Hr Hs). lia. }
  assert (E155 : forall o, FinalizeLegacyEIP155WithSignature t (SignaturePayloadLegacyEIP155 t chain) (v, r, s) chain = Ok o ->
                 (N.of_nat (length o) < 18446744073709551616)%N).
  { intros o E. unfold FinalizeLegacyEIP155WithSignature in E.
    cbn [SignaturePayloadLegacyEIP155 sp_list] in E. rewrite lslice_legacy6 in E. cbn [bind UpdateEIP155] in E.
    apply Ok_inj in E. subst o. cbn [addSignature].
    match goal with |- context [encode (Lst ?l)] => pose proof (enc_list_len l) as HE end.
    rewrite flat_map_app, app_length in HE.
    assert (Hv8 : (Z.abs (v + chain * 2 + (35 - 27)) < 256 ^ Z.of_nat 9)%Z)
      by (change (256 ^ Z.of_nat 9)%Z with (2 ^ 72)%Z; lia).
    pose proof (sig_len9 _ r s Hv8 Hr Hs). lia. }
  assert (E1559 : forall o, FinalizeEIP1559WithSignature t (SignaturePayloadEIP1559 t chain) (v, r, s) = Ok o ->
                 (N.of_nat (length o) < 18446744073709551616)%N).
  { intros o E. unfold FinalizeEIP1559WithSignature in E. apply Ok_inj in E. subst o.
    cbn [SignaturePayloadEIP1559 sp_list length].
    assert (Hv8 : exists v', UpdateEIP2930 (v, r, s) = (v', r, s) /\ (Z.abs v' < 256 ^ Z.of_nat 9)%Z).
    { unfold UpdateEIP2930. destruct ((wrap64 v =? 27)%Z || (wrap64 v =? 28)%Z);
        eexists; (split; [reflexivity|]); change (256 ^ Z.of_nat 9)%Z with (2 ^ 72)%Z; lia. }
    destruct Hv8 as (v' & -> & Hv8). cbn [addSignature].
    match goal with |- context [encode (Lst ?l)] => pose proof (enc_list_len l) as HE end.
    rewrite flat_map_app, app_length in HE.
    pose proof (sig_len9 _ r s Hv8 Hr Hs). lia. }
  destruct m; cbn [finalize]; try destruct (wants1559 t); auto.
Qed.
End BoundsBig.

(* Theorem 1 with NO size guard: hypotheses on the transaction, the chain id and the signer's answer *)
Theorem sign_wire_format_no_size_guard m t f chain :
  sign_range t -> (0 <= chain < 2 ^ 63)%Z ->
  let fm := format_of m t in
  let c := Z.to_N chain in
  let pre := spec_preimage fm (norm t) c in
  sp_data (payload_of m t chain) = pre /\
  match f pre with
  | Ok (v, r, s) =>
      exists out, sign_mode m t (Some f) chain = Ok out /\
        (v_legacy v -> (Z.abs r < two256)%Z -> (Z.abs s < two256)%Z ->
         short out /\ out = spec_signed fm (norm t) c (y_of v) (Z.abs_N r) (Z.abs_N s))
  | Err e => sign_mode m t (Some f) chain = Err e
  | Panic => sign_mode m t (Some f) chain = Panic
  end.
Proof.
  intros HR Hc fm c pre.
  assert (Hc0 : (0 <= chain)%Z) by lia.
  pose proof (payload_shortB t HR chain Hc m) as Hshort.
  destruct (sign_wire_format m t f chain Hc0 Hshort) as [Epre Hw]. fold fm c pre in Epre, Hw.
  split; [exact Epre|].
  destruct (f pre) as [[[v r] s]|e|] eqn:Ef; try exact Hw.
  destruct Hw as (out & Eo & Hspec). exists out. split; [exact Eo|].
  intros Hv Hr Hs.
  assert (Hso : short out).
  { pose proof Eo as Eo2. rewrite sign_mode_unfold, Epre, Ef in Eo2. cbn [bind] in Eo2.
    apply (finalize_shortB t HR chain Hc m v r s out); try assumption.
    destruct Hv as [-> | ->]; cbn; lia. }
  split; [exact Hso|exact (Hspec Hv Hso)].
Qed.

(* the KeyPair signer: success, canonical signature, verification and wire format for data of any
   length (no recovery clause: the decoder refuses more than 2^31-1 bytes) *)
Section SecpBig.
Variable o : group_ops.
Hypothesis L : laws o.
Hypothesis n_fits : (n o < SM.two256)%Z.
Variable H : bytes -> bytes.
Hypothesis H_len : forall x, length (H x) = 32%nat.
Variable nonce : Z -> bytes -> nat -> Z.
Variable fuel : nat.

Theorem sign_succeeds_wire_any_data m t d chain :
  (1 <= Z.of_N d < n o)%Z -> (0 <= chain < 2 ^ 63)%Z -> sign_range t ->
  let fm := format_of m t in
  let c := Z.to_N chain in
  let pre := spec_preimage fm (norm t) c in
  some_nonce_usable o nonce fuel d (H pre) ->
  exists out v r s,
    sign_mode m t (Some (KeyPairSign H (secp_sign_direct o nonce fuel) d)) chain = Ok out /\
    SM.SignDirect o nonce fuel (Z.of_N d) (H pre) = Ok {| SM.sV := v; SM.sR := r; SM.sS := s |} /\
    (1 <= r < n o)%Z /\ (1 <= s < n o)%Z /\ (2 * s <= n o)%Z /\
    ecdsa_verify o (pub o (Z.of_N d)) (SM.hash_to_z (H pre)) r s = true /\
    (v_legacy v -> short out /\ out = spec_signed fm (norm t) c (y_of v) (Z.to_N r) (Z.to_N s)).
Proof.
  intros Hd Hc HR fm c pre U.
  set (ks := KeyPairSign H (secp_sign_direct o nonce fuel) d).
  destruct (sign_wire_format_no_size_guard m t ks chain HR Hc) as [Epre Hw]. fold fm c pre in Epre, Hw.
  destruct (keypair_sign_classes o H nonce fuel m t d chain) as (_ & [_ Hsucc] & _).
  cbv zeta in Hsucc. rewrite Epre in Hsucc. destruct (Hsucc U) as [out Eout]. fold ks in Eout.
  destruct (ks pre) as [[[v r] s]|e|] eqn:Ef.
  - destruct Hw as (out' & Eo & Hspec).
    assert (EE : Ok out' = Ok out) by (rewrite <- Eo, <- Eout; reflexivity).
    apply Ok_inj in EE. subst out'.
    unfold ks, KeyPairSign in Ef. pose proof (secp_SD_inv _ _ _ _ _ _ _ _ Ef) as E'.
    destruct (SP.SignDirect_shape o L n_fits nonce fuel _ _ _ E') as (_ & Hr & Hs & Hlow & Hver).
    cbn [SM.sR SM.sS] in Hr, Hs, Hlow, Hver.
    exists out, v, r, s. split; [exact Eout|]. split; [exact E'|].
    split; [exact Hr|]. split; [exact Hs|]. split; [exact Hlow|]. split; [exact Hver|].
    intros Hv. assert (n o < two256)%Z by exact n_fits.
    destruct (Hspec Hv) as [Hso Eq]; try lia. split; [exact Hso|].
    rewrite Eq. f_equal; lia.
  - pose proof (eq_trans (eq_sym Hw) Eout) as C. discriminate C.
  - pose proof (eq_trans (eq_sym Hw) Eout) as C. discriminate C.
Qed.
End SecpBig.

Theorem sign_succeeds_wire_any_data_keccak o (L : laws o) (n_fits : (n o < SM.two256)%Z)
        (nonce : Z -> bytes -> nat -> Z) (fuel : nat) m t d chain :
  (1 <= Z.of_N d < n o)%Z -> (0 <= chain < 2 ^ 63)%Z -> sign_range t ->
  let fm := format_of m t in
  let c := Z.to_N chain in
  let pre := spec_preimage fm (norm t) c in
  some_nonce_usable o nonce fuel d (keccak256 pre) ->
  exists out v r s,
    sign_mode m t (Some (KeyPairSign keccak256 (secp_sign_direct o nonce fuel) d)) chain = Ok out /\
    SM.SignDirect o nonce fuel (Z.of_N d) (keccak256 pre) = Ok {| SM.sV := v; SM.sR := r; SM.sS := s |} /\
    (1 <= r < n o)%Z /\ (1 <= s < n o)%Z /\ (2 * s <= n o)%Z /\
    ecdsa_verify o (pub o (Z.of_N d)) (SM.hash_to_z (keccak256 pre)) r s = true /\
    (v_legacy v -> short out /\ out = spec_signed fm (norm t) c (y_of v) (Z.to_N r) (Z.to_N s)).
Proof. exact (sign_succeeds_wire_any_data o L n_fits keccak256 keccak256_length nonce fuel m t d chain). Qed.
