(* Ethereum transaction wire formats, written from the texts of the Yellow Paper (original format),
   EIP-155, EIP-2718 and EIP-1559 over the Yellow-Paper RLP of Rlp/Spec.v.  Shares no code with the
   model (Tx/Model.v, Rlp/Model.v).

   Yellow Paper §4.2 / appendix B: scalars are RLP-encoded as the big-endian byte array with no
   leading zeros (BE; zero is the empty array); the destination of a contract creation is the empty
   byte array, otherwise the 20-byte address.

   Original format:      signing hash  keccak(rlp([nonce, gasprice, startgas, to, value, data]))
                         transaction   rlp([nonce, gasprice, startgas, to, value, data, v, r, s]),  v = 27 + yParity
   EIP-155:              signing hash  keccak(rlp([nonce, gasprice, startgas, to, value, data, chainid, 0, 0]))
                         transaction   as above with  v = yParity + chainid * 2 + 35
   EIP-2718 + EIP-1559:  signing hash  keccak(0x02 || rlp([chain_id, nonce, max_priority_fee_per_gas, max_fee_per_gas,
                                                            gas_limit, destination, amount, data, access_list]))
                         transaction   0x02 || rlp([chain_id, nonce, max_priority_fee_per_gas, max_fee_per_gas, gas_limit,
                                                    destination, amount, data, access_list,
                                                    signature_y_parity, signature_r, signature_s])
   (the access list of the transactions built here is always the empty list). *)
From Coq Require Import List NArith Bool.
From Coq Require Import Init.Byte.
From FFS Require Import Base.Bytes Rlp.Spec.
Import ListNotations.

(* the field tuple of a transaction as the EIPs see it: natural numbers, an optional destination *)
Record fields := mkFields {
  f_nonce    : N;
  f_gasPrice : N;      (* original / EIP-155 only *)
  f_maxPrio  : N;      (* EIP-1559 only: max_priority_fee_per_gas *)
  f_maxFee   : N;      (* EIP-1559 only: max_fee_per_gas *)
  f_gasLimit : N;
  f_to       : option bytes;   (* None = contract creation *)
  f_value    : N;
  f_data     : bytes
}.

Inductive format := Original | Eip155 | Eip1559.

Definition scalar (n : N) : tree := B (BE n).
Definition destination (a : option bytes) : tree := match a with Some b => B b | None => B [] end.

Definition legacy_body (f : fields) : list tree :=
  [ scalar (f_nonce f); scalar (f_gasPrice f); scalar (f_gasLimit f); destination (f_to f);
    scalar (f_value f); B (f_data f) ].

Definition eip1559_body (f : fields) (chain : N) : list tree :=
  [ scalar chain; scalar (f_nonce f); scalar (f_maxPrio f); scalar (f_maxFee f); scalar (f_gasLimit f);
    destination (f_to f); scalar (f_value f); B (f_data f); L [] ].

(* the bytes whose Keccak-256 is signed *)
Definition spec_preimage (fm : format) (f : fields) (chain : N) : bytes :=
  match fm with
  | Original => RLP (L (legacy_body f))
  | Eip155   => RLP (L (legacy_body f ++ [ scalar chain; scalar 0; scalar 0 ]))
  | Eip1559  => x02 :: RLP (L (eip1559_body f chain))
  end.

(* the value written in the V / y-parity position, for a recovery id yParity in {0,1} *)
Definition spec_v (fm : format) (chain : N) (yParity : N) : N :=
  match fm with
  | Original => 27 + yParity
  | Eip155   => yParity + chain * 2 + 35
  | Eip1559  => yParity
  end.

(* the signed transaction as sent on the wire *)
Definition spec_signed (fm : format) (f : fields) (chain : N) (yParity r s : N) : bytes :=
  let sig := [ scalar (spec_v fm chain yParity); scalar r; scalar s ] in
  match fm with
  | Original | Eip155 => RLP (L (legacy_body f ++ sig))
  | Eip1559 => x02 :: RLP (L (eip1559_body f chain ++ sig))
  end.
