(* Proofs about the recovery model, part 5 (answers to the referee report design/reviews/C10.md).

   A. [RecoverRaw_call] (issue I2): with NO hypothesis about the hash function or RecoverDirect, the
      address an entry point returns is exactly RecoverDirect's answer for the signature
      (V reduced as the code reduces it, r, s) read from the input, over H(returned payload) and the
      supplied chain id.  Nothing about V is lost: the V handed on is named ([legacy_v_passed] of the
      int64 value of element 6; the int64 value of element 9 for type 0x02).
   B. [secp_recovery_id] (issues I2, I6): with C05's RecoverDirect plugged in, the key is THE point
      [ecdsa_recover] computes for the recovery id (y-parity) the V element denotes - parity p for
      V = 27+p / 35+2*chain+p (+k*2^64); for type 0x02 the parity getVNormalized (C05's [v_norm])
      assigns to the int64 value of element 9 - it is not the point at infinity, its address is the
      returned one and (r,s) verify for it.  A model that ignored or flipped the parity would not
      satisfy this statement ([ecdsa_recover] is a function of the parity).
   C. [refuted_every_RD] (issue I5): the access-list refutation for EVERY hash and EVERY
      RecoverDirect that accepts the witness signature.
   D. [canonical_input_accepted] (issue I3): the specification's wire format of a signed
      transaction ([Tx.Spec.spec_signed], written over the Yellow-Paper RLP, no decoder involved)
      is read back as the specification says: for fields in the property's range the model applied
      to [spec_signed fm f c y r s] returns RecoverDirect's answer for (V, r, s) over
      H(spec_preimage fm f c), the fields f and the preimage.  Built on C01's
      [recover_sign_inputs] with a constant signer. *)
From Coq Require Import List NArith ZArith Lia Bool Arith.
From Coq Require Import ZifyN ZifyNat ZifyBool.
From Coq Require Import Init.Byte.
From FFS Require Import Base.Res Base.Bytes Rlp.Model Rlp.Spec Rlp.Proofs Tx.Model Tx.Spec Tx.Norm
  Tx.RecoverModel Tx.RecoverProofs Tx.RecoverProofs2 Tx.RecoverProofs4 Tx.RecoverSecp.
From FFS Require Crypto.Ecdsa Secp.Model Secp.Proofs.
Import ListNotations.

(* ---------- A. the call to RecoverDirect, exposed ---------- *)

(* the V the legacy path hands to RecoverDirect, from the int64 value [v] of the V element *)
Definition legacy_v_passed (v chain : Z) : Z :=
  if negb (v =? 27)%Z && negb (v =? 28)%Z then wrap64 (wrap64 (v - wrap64 (chain * 2)) - 8) else v.

Section Call.
Variable H : bytes -> bytes.
Variable RD : sigdata -> bytes -> Z -> res bytes.

Lemma recoverCommon_call t m c v r s a t' p :
  recoverCommon H RD t m c v r s = Ok (a, t', p) ->
  t' = t /\ p = m /\ RD (v, Z.of_N (of_be r), Z.of_N (of_be s)) (H m) c = Ok a.
Proof.
  unfold recoverCommon, SigRecover.
  destruct (RD _ (H m) c) as [a0| |] eqn:E; cbn [bind]; try discriminate.
  intros X. injection X as <- <- <-. auto.
Qed.

Theorem RecoverLegacy_call bs chain a t p :
  RecoverLegacyRawTransaction H RD bs chain = Ok (a, t, p) ->
  exists l pos vb e7 e8,
    Decode bs = Ok (Some (Lst l), pos) /\
    nth_error l 6 = Some (Str vb) /\ nth_error l 7 = Some e7 /\ nth_error l 8 = Some e8 /\
    let vp := legacy_v_passed (wrap64 (Z.of_N (of_be vb))) chain in
    (vp = 27 \/ vp = 28)%Z /\
    RD (vp, Z.of_N (elem_int e7), Z.of_N (elem_int e8)) (H p) chain = Ok a.
Proof.
  unfold RecoverLegacyRawTransaction.
  destruct (Decode bs) as [[decoded pos]|e|] eqn:ED; try discriminate.
  destruct decoded as [[b|l]|]; try discriminate.
  destruct (length l <? 9)%nat eqn:E9; [discriminate|]. apply Nat.ltb_ge in E9.
  destruct l as [|e0 [|e1 [|e2 [|e3 [|e4 [|e5 [|e6 [|e7 [|e8 rest]]]]]]]]]; cbn [length] in E9; try lia.
  unfold lslice, idx. cbn [length Nat.leb andb bind nth_error Nat.sub skipn firstn].
  destruct (negb (canonicalFields [e0; e1; e2; e3; e4; e5] 3 5)); [discriminate|].
  destruct e6 as [vb|]; cbn [IsList]; [|discriminate].
  unfold IntInt64. cbn [ToData DataInt bind].
  set (v := wrap64 (Z.of_N (of_be vb))).
  intros X. exists (e0 :: e1 :: e2 :: e3 :: e4 :: e5 :: Str vb :: e7 :: e8 :: rest), pos, vb, e7, e8.
  cbn [nth_error]. repeat (split; [reflexivity|]). cbv zeta. fold v. unfold legacy_v_passed.
  destruct (negb (v =? 27)%Z && negb (v =? 28)%Z) eqn:EV.
  - set (v' := wrap64 (wrap64 (v - wrap64 (chain * 2)) - 8)) in *.
    destruct (negb (v' =? 27)%Z && negb (v' =? 28)%Z) eqn:EV'; [discriminate|].
    cbn [bind] in X. apply recoverCommon_call in X as [_ [-> X]].
    rewrite !elem_int_bytes in X. split; [|exact X].
    apply andb_false_iff in EV' as [A|A]; apply negb_false_iff, Z.eqb_eq in A; auto.
  - cbn [bind] in X. apply recoverCommon_call in X as [_ [-> X]].
    rewrite !elem_int_bytes in X. split; [|exact X].
    apply andb_false_iff in EV as [A|A]; apply negb_false_iff, Z.eqb_eq in A; auto.
Qed.

Theorem Recover1559_call bs chain a t p :
  RecoverEIP1559Transaction H RD bs chain = Ok (a, t, p) ->
  exists rest l pos vb e10 e11,
    bs = x02 :: rest /\ Decode rest = Ok (Some (Lst l), pos) /\
    nth_error l 9 = Some (Str vb) /\ nth_error l 10 = Some e10 /\ nth_error l 11 = Some e11 /\
    RD (wrap64 (Z.of_N (of_be vb)), Z.of_N (elem_int e10), Z.of_N (elem_int e11)) (H p) chain = Ok a.
Proof.
  unfold RecoverEIP1559Transaction.
  destruct (decodeEIP1559SignaturePayload bs chain 12) as [[l t0]|e|] eqn:ED; cbn [bind]; try discriminate.
  destruct (decode1559_inv bs chain 12 l t0 ltac:(lia) ED)
    as [rest [pos [c0 [e1 [e2 [e3 [e4 [e5 [e6 [e7 [al [tl [-> [EDec [Hsz [Hlen [El [Hc0 [Ech [Et FS]]]]]]]]]]]]]]]]]]]].
  destruct tl as [|e9 [|e10 [|e11 tl']]]; try (subst l; cbn [length] in Hlen; lia).
  unfold idx. rewrite El. cbn [nth_error bind].
  destruct e9 as [vb|]; cbn [IsList]; [|discriminate].
  unfold lslice. cbn [length Nat.leb andb bind]. unfold IntInt64. cbn [ToData DataInt bind].
  intros X. apply recoverCommon_call in X as [_ [-> X]]. rewrite !elem_int_bytes in X.
  exists rest, l, pos, vb, e10, e11. rewrite El at 2 3 4. cbn [nth_error].
  rewrite <- El. repeat (split; [reflexivity || assumption|]). rewrite El. exact X.
Qed.

Theorem RecoverRaw_call bs chain a t p :
  RecoverRawTransaction H RD bs chain = Ok (a, t, p) ->
  (exists l pos vb e7 e8,
    Decode bs = Ok (Some (Lst l), pos) /\
    nth_error l 6 = Some (Str vb) /\ nth_error l 7 = Some e7 /\ nth_error l 8 = Some e8 /\
    let vp := legacy_v_passed (wrap64 (Z.of_N (of_be vb))) chain in
    (vp = 27 \/ vp = 28)%Z /\
    RD (vp, Z.of_N (elem_int e7), Z.of_N (elem_int e8)) (H p) chain = Ok a)
  \/
  (exists rest l pos vb e10 e11,
    bs = x02 :: rest /\ Decode rest = Ok (Some (Lst l), pos) /\
    nth_error l 9 = Some (Str vb) /\ nth_error l 10 = Some e10 /\ nth_error l 11 = Some e11 /\
    RD (wrap64 (Z.of_N (of_be vb)), Z.of_N (elem_int e10), Z.of_N (elem_int e11)) (H p) chain = Ok a).
Proof.
  unfold RecoverRawTransaction. destruct bs as [|b rest]; [discriminate|].
  destruct (199 <=? b2n b)%N.
  - intros X. left. exact (RecoverLegacy_call _ _ _ _ _ X).
  - destruct (b2n b =? b2n TransactionType1559)%N; [|discriminate].
    intros X. right. exact (Recover1559_call _ _ _ _ _ X).
Qed.
End Call.

(* what the V handed on says about the integer V written in the input: parity p for
   V = 27 + p (original form) or V = 35 + 2*chain + p (EIP-155), modulo 2^64 *)
Definition V_original_p (V par : Z) : Prop := exists k, V = (27 + par + k * 2 ^ 64)%Z.
Definition V_eip155_p (V chain par : Z) : Prop := exists k, V = (35 + 2 * chain + par + k * 2 ^ 64)%Z.

Lemma legacy_v_passed_parity vb chain :
  let V := Z.of_N (of_be vb) in
  let vp := legacy_v_passed (wrap64 V) chain in
  (vp = 27 \/ vp = 28)%Z ->
  (V_original_p V (vp - 27) \/ (~ V_original V /\ V_eip155_p V chain (vp - 27))).
Proof.
  cbv zeta. set (V := Z.of_N (of_be vb)). unfold legacy_v_passed.
  destruct (negb (wrap64 V =? 27)%Z && negb (wrap64 V =? 28)%Z) eqn:EV.
  - intros Hvp. right. split.
    + intros [p [k [Hp E]]].
      apply andb_true_iff in EV as [A B]. apply negb_true_iff in A, B. apply Z.eqb_neq in A, B.
      destruct Hp as [-> | ->]; [apply A|apply B]; apply wrap64_small; try lia; exists k; lia.
    + unfold V_eip155_p.
      destruct (wrap64_mod V) as [k1 E1]. destruct (wrap64_mod (chain * 2)) as [k2 E2].
      destruct (wrap64_mod (wrap64 V - wrap64 (chain * 2))) as [k3 E3].
      set (vp := wrap64 (wrap64 (wrap64 V - wrap64 (chain * 2)) - 8)) in *.
      assert (E : wrap64 (wrap64 (wrap64 V - wrap64 (chain * 2)) - 8) = vp) by reflexivity.
      apply wrap64_small in E; [|lia]. destruct E as [k E].
      exists (k - k1 + k2 - k3)%Z. lia.
  - intros Hvp. left. unfold V_original_p.
    assert (E : wrap64 V = wrap64 V) by reflexivity.
    apply wrap64_small in E; [|lia]. destruct E as [k E]. exists k. lia.
Qed.

(* ---------- B. the secp256k1 layer: the recovery id is in the conclusion ---------- *)
Section SecpId.
Variable o : Crypto.Ecdsa.group_ops.
Hypothesis Laws : Crypto.Ecdsa.laws o.
Variable H : bytes -> bytes.
Hypothesis H_len : forall x, length (H x) = 32%nat.

(* everything RecoverDirect_ok knows, kept *)
Lemma RD_secp_full v r s d c a :
  RD_secp o H (v, r, s) d c = Ok a ->
  exists vB q, Secp.Proofs.v_norm v c = Some vB /\ (vB = 27 \/ vB = 28)%Z /\
    Crypto.Ecdsa.ecdsa_recover o (Secp.Model.hash_to_z d) r s (vB =? 28)%Z = Some q /\
    q <> Crypto.Ecdsa.zero o /\ a = secp_addr_of o H q /\ secp_verify o q d r s.
Proof.
  unfold RD_secp. intros E.
  destruct (Secp.Proofs.RecoverDirect_ok o Laws H H_len _ _ _ _ E) as [vB [Q [HN [HV [ER [HZ Ea]]]]]].
  cbn [Secp.Model.sR Secp.Model.sS Secp.Model.sV] in *.
  exists vB, Q. repeat split; auto.
  unfold secp_verify. eapply Crypto.Ecdsa.recover_sound; eauto.
Qed.

Lemma v_norm_27_28 v c : (v = 27 \/ v = 28)%Z -> Secp.Proofs.v_norm v c = Some v.
Proof. intros [-> | ->]; reflexivity. Qed.

Theorem secp_recovery_id bs chain a t p :
  RecoverRawTransaction H (RD_secp o H) bs chain = Ok (a, t, p) ->
  (exists l pos vb e7 e8 par q,
    Decode bs = Ok (Some (Lst l), pos) /\
    nth_error l 6 = Some (Str vb) /\ nth_error l 7 = Some e7 /\ nth_error l 8 = Some e8 /\
    (par = 0 \/ par = 1)%Z /\
    (V_original_p (Z.of_N (of_be vb)) par \/
     (~ V_original (Z.of_N (of_be vb)) /\ V_eip155_p (Z.of_N (of_be vb)) chain par)) /\
    Crypto.Ecdsa.ecdsa_recover o (Secp.Model.hash_to_z (H p))
      (Z.of_N (elem_int e7)) (Z.of_N (elem_int e8)) (par =? 1)%Z = Some q /\
    q <> Crypto.Ecdsa.zero o /\ a = secp_addr_of o H q /\
    secp_verify o q (H p) (Z.of_N (elem_int e7)) (Z.of_N (elem_int e8)))
  \/
  (exists rest l pos vb e10 e11 vB q,
    bs = x02 :: rest /\ Decode rest = Ok (Some (Lst l), pos) /\
    nth_error l 9 = Some (Str vb) /\ nth_error l 10 = Some e10 /\ nth_error l 11 = Some e11 /\
    Secp.Proofs.v_norm (wrap64 (Z.of_N (of_be vb))) chain = Some vB /\ (vB = 27 \/ vB = 28)%Z /\
    Crypto.Ecdsa.ecdsa_recover o (Secp.Model.hash_to_z (H p))
      (Z.of_N (elem_int e10)) (Z.of_N (elem_int e11)) (vB =? 28)%Z = Some q /\
    q <> Crypto.Ecdsa.zero o /\ a = secp_addr_of o H q /\
    secp_verify o q (H p) (Z.of_N (elem_int e10)) (Z.of_N (elem_int e11))).
Proof.
  intros X. destruct (RecoverRaw_call H (RD_secp o H) bs chain a t p X)
    as [(l & pos & vb & e7 & e8 & ED & E6 & E7 & E8 & Hvp & R)
       |(rest & l & pos & vb & e10 & e11 & Eb & ED & E9 & E10 & E11 & R)].
  - left. cbv zeta in Hvp, R.
    set (vp := legacy_v_passed (wrap64 (Z.of_N (of_be vb))) chain) in *.
    destruct (RD_secp_full _ _ _ _ _ _ R) as (vB & q & HN & HV & ER & HZ & Ea & Hver).
    rewrite (v_norm_27_28 vp chain Hvp) in HN. injection HN as <-.
    exists l, pos, vb, e7, e8, (vp - 27)%Z, q.
    repeat (split; [assumption|]). split; [lia|]. split.
    { apply (legacy_v_passed_parity vb chain). exact Hvp. }
    split; [|auto].
    replace (vp - 27 =? 1)%Z with (vp =? 28)%Z; [exact ER|].
    destruct Hvp as [E|E]; rewrite E; reflexivity.
  - right. destruct (RD_secp_full _ _ _ _ _ _ R) as (vB & q & HN & HV & ER & HZ & Ea & Hver).
    exists rest, l, pos, vb, e10, e11, vB, q. repeat (split; [assumption|]). assumption.
Qed.

(* which V a type-0x02 element 9 may carry: C05's v_norm accepts 0/1 (the EIP-2930 parity), 27/28,
   and the EIP-155 forms for the supplied chain (also shifted by multiples of 256: C05's known
   finding on getVNormalized) *)
End SecpId.

(* ---------- C. the access-list refutation, for every RecoverDirect accepting the signature ---------- *)
(* the payload of [al_witness] = its first nine elements behind the type byte *)
Definition al_payload : bytes := [x02; xca; x01; x80; x80; x80; x80; x80; x80; x80; xc1; xc0].

Theorem refuted_every_RD (H : bytes -> bytes) (RD : sigdata -> bytes -> Z -> res bytes) a :
  RD (0%Z, 1%Z, 1%Z) (H al_payload) 1%Z = Ok a ->
  exists t, RecoverRawTransaction H RD al_witness 1 = Ok (a, t, al_payload) /\
    al_payload <> spec_preimage Eip1559 (norm t) 1.
Proof.
  intros E. eexists. split.
  - unfold RecoverRawTransaction, al_witness. cbn [b2n].
    change (199 <=? b2n x02)%N with false. cbv iota.
    change (b2n x02 =? b2n TransactionType1559)%N with true. cbv iota.
    unfold RecoverEIP1559Transaction.
    match goal with |- context [decodeEIP1559SignaturePayload ?b ?c ?n] =>
      let r := eval vm_compute in (decodeEIP1559SignaturePayload b c n) in
      change (decodeEIP1559SignaturePayload b c n) with r end.
    cbn [bind]. unfold idx. cbn [nth_error bind IsList].
    unfold lslice. cbn [length Nat.leb andb bind Nat.sub skipn firstn].
    unfold IntInt64. cbn [ToData DataInt bind]. unfold recoverCommon, SigRecover.
    cbn [BytesNotNil ToData].
    match goal with |- context [RD ?sg (H ?m) ?c] =>
      replace sg with (0%Z, 1%Z, 1%Z) by (vm_compute; reflexivity);
      replace m with al_payload by (vm_compute; reflexivity) end.
    rewrite E. cbn [bind]. reflexivity.
  - vm_compute. intros X. discriminate X.
Qed.

(* ---------- parameters for the non-vacuity examples of the secp256k1 family ---------- *)
(* a 32-byte "hash" (the input padded / cut to 32 bytes); with Crypto.Ecdsa.Toy.ops (which satisfies
   [laws]: Toy.toy_laws) the hypotheses of the secp theorems hold and inputs are accepted *)
Definition toyH (x : bytes) : bytes := firstn 32 (x ++ repeat x00 32).
Lemma toyH_len x : length (toyH x) = 32%nat.
Proof. unfold toyH. rewrite firstn_length, app_length, repeat_length. apply Nat.min_l. apply Nat.le_add_l. Qed.
(* a RecoverDirect that panics: shows that [Panic] is a possible value of the model and that the
   hypothesis of C10_total is used *)
Definition RD_panic : sigdata -> bytes -> Z -> res bytes := fun _ _ _ => Panic.
