(* Evaluator for the correspondence check of C10: runs the recovery model (Tx/RecoverModel.v, with
   the executable Keccak-256 and an ECDSA oracle table filled by the harness from the decred library)
   on the cases written by the Go harness, and the property oracles (specification preimage of
   Tx/Spec.v, embedded chain id, signature over the returned payload) on what the implementation
   returned. *)
From Coq Require Import String.
From Coq Require Import List NArith ZArith Lia Bool Arith.
From Coq Require Import Init.Byte.
From FFS Require Import Base.Res Base.Bytes Base.Lit Base.Keccak Rlp.Model Rlp.Spec Tx.Model Tx.Spec
  Tx.RecoverModel.
From FFS Require Secp.Model.
Import ListNotations.

(* ---------- (s *SignatureData).RecoverDirect of pkg/secp256k1 for *running* cases: property C05's model
   of getVNormalized, the range checks on R and S of RecoverDirect, and — instead of curve arithmetic in
   vm_compute (0.65 s per recovery) — btcec RecoverCompact + PublicKeyToAddress looked up in the oracle
   table of the case, which the harness fills by calling the decred library directly. ---------- *)

(* one oracle entry: digest, normalised V (27/28), R, S -> address of the recovered key, or None when
   the library refuses the signature.  Filled by the harness by calling decred/btcec directly. *)
(* R and S are written as big-endian byte strings (large decimal literals are slow to parse) *)
Definition oentry := (bdsl * N * bdsl * bdsl * option bdsl)%type.
Definition lit_N (d : bdsl) : N := of_be (bexpand d).

Definition EOracleMiss := 999%nat.
Definition ESecp := 1%nat.

(* V normalisation: property C05's model of getVNormalized itself (it does not depend on the curve),
   so a change b-c05 makes to it is picked up here without editing this file *)
Definition getVNormalized (v chain : Z) : res Z :=
  match FFS.Secp.Model.getVNormalized (FFS.Secp.Model.Build_sigdata v 0 0) chain with
  | Ok vB => Ok vB
  | Err _ => Err ESecp
  | Panic => Panic
  end.

Fixpoint orc_lookup (orc : list oentry) (d : bytes) (v r s : N) : option (option bytes) :=
  match orc with
  | [] => None
  | (d', v', r', s', a) :: t =>
      if (v =? v')%N && (r =? lit_N r')%N && (s =? lit_N s')%N && bytes_eqb d (bexpand d')
      then Some (match a with Some x => Some (bexpand x) | None => None end)
      else orc_lookup t d v r s
  end.

Definition RecoverDirect_run (orc : list oentry) (sg : sigdata) (digest : bytes) (chain : Z) : res bytes :=
  let '(v, r, s) := sg in
  do vB <- getVNormalized v chain;
  if (2 ^ 256 <=? r)%Z || (2 ^ 256 <=? s)%Z then Err ESecp else       (* BitLen() > 256 *)
  if (r <? 0)%Z || (s <? 0)%Z then Err ESecp else
  match orc_lookup orc digest (Z.to_N vB) (Z.to_N r) (Z.to_N s) with
  | Some (Some a) => Ok a
  | Some None => Err ESecp
  | None => Err EOracleMiss
  end.

(* ---------- cases ---------- *)

(* the Transaction the implementation returned: nil pointers are None *)
Record otx := mkOtx {
  o_nonce : option bdsl; o_gasPrice : option bdsl; o_maxPrio : option bdsl; o_maxFee : option bdsl;
  o_gasLimit : option bdsl; o_to : option bdsl; o_value : option bdsl; o_data : bdsl
}.

Inductive case :=
(* entry point (0 RecoverRawTransaction, 1 RecoverLegacyRawTransaction, 2 RecoverEIP1559Transaction,
   3 DecodeEIP1559SignaturePayload), input, chain id, ECDSA oracle;
   observed: class (0 ok / 1 error / 2 panic), address, transaction, payload *)
| CRec (entry : nat) (input : bdsl) (chain : Z) (orc : list oentry)
       (cls : nat) (addr : bdsl) (t : otx) (payload : bdsl).

Definition run_entry_H (Hf : bytes -> bytes) (orc : list oentry) (entry : nat) (bs : bytes) (chain : Z)
  : res recovered :=
  let RD := RecoverDirect_run orc in
  match entry with
  | 0%nat => RecoverRawTransaction Hf RD bs chain
  | 1%nat => RecoverLegacyRawTransaction Hf RD bs chain
  | 2%nat => RecoverEIP1559Transaction Hf RD bs chain
  | _ => match DecodeEIP1559SignaturePayload bs chain with
         | Ok t => Ok ([], t, [])
         | Err e => Err e
         | Panic => Panic
         end
  end.
Definition run_entry := run_entry_H keccak256.

Definition optN_eqb (a : option bdsl) (b : option Z) : bool :=
  match a, b with
  | None, None => true
  | Some x, Some y => (Z.of_N (lit_N x) =? y)%Z
  | _, _ => false
  end.
Definition optB_eqb (a : option bdsl) (b : option bytes) : bool :=
  match a, b with
  | None, None => true
  | Some x, Some y => bytes_eqb (bexpand x) y
  | _, _ => false
  end.
Definition tx_matches (o : otx) (t : tx) : bool :=
  optN_eqb (o_nonce o) (tx_nonce t) && optN_eqb (o_gasPrice o) (tx_gasPrice t) &&
  optN_eqb (o_maxPrio o) (tx_maxPrio t) && optN_eqb (o_maxFee o) (tx_maxFee t) &&
  optN_eqb (o_gasLimit o) (tx_gasLimit t) && optB_eqb (o_to o) (tx_to t) &&
  optN_eqb (o_value o) (tx_value t) &&
  bytes_eqb (bexpand (o_data o)) (BytesNotNil (tx_data t)).

Definition dflt (a : option bdsl) : N := match a with Some n => lit_N n | None => 0%N end.
Definition fields_of (o : otx) : fields :=
  mkFields (dflt (o_nonce o)) (dflt (o_gasPrice o)) (dflt (o_maxPrio o)) (dflt (o_maxFee o))
           (dflt (o_gasLimit o))
           (match o_to o with Some a => Some (bexpand a) | None => None end)
           (dflt (o_value o)) (bexpand (o_data o)).

(* an independent reading of the input for the oracles: the top-level list of the transaction *)
Definition is_typed (bs : bytes) : bool :=
  match bs with b :: _ => (b2n b =? 2)%N | [] => false end.
Definition top_list (bs : bytes) : option (list item) :=
  let body := if is_typed bs then skipn 1 bs else bs in
  match Decode body with Ok (Some (Lst l), _) => Some l | _ => None end.
Definition elem_int (l : list item) (i : nat) : option N :=
  match nth_error l i with Some (Str b) => Some (of_be b) | _ => None end.

(* does the table hold a recovery of (r,s) over [digest] — with the given normalised V when [vB] is
   Some — that yields [addr]? *)
Definition orc_confirms (orc : list oentry) (digest : bytes) (vB : option N) (r s : N) (addr : bytes) : bool :=
  existsb (fun e => let '(d, v', r', s', a) := e in
             (r =? lit_N r')%N && (s =? lit_N s')%N && bytes_eqb digest (bexpand d) &&
             match vB with Some v => (v =? v')%N | None => true end &&
             match a with Some x => bytes_eqb (bexpand x) addr | None => false end) orc.

(* the format and recovery id that the V written in a legacy transaction denotes (EIP-155; the integer
   is taken modulo 2^64, which is what the implementation's Int64() conversion does — see the notes):
   Some (false, vB) original format, Some (true, vB) EIP-155 for [chain], None = no legitimate V *)
Definition legacy_v_denotes (V : N) (chain : Z) : option (bool * N) :=
  let v := (Z.of_N V mod 2 ^ 64)%Z in
  if (v =? 27)%Z || (v =? 28)%Z then Some (false, Z.to_N v)
  else let w := ((v - 35 - 2 * chain) mod 2 ^ 64)%Z in
       if (w =? 0)%Z || (w =? 1)%Z then Some (true, Z.to_N (27 + w)) else None.

(* result codes: 0 agree; 1..9 model <> implementation; >= 10 implementation fails a property oracle *)
Definition compare_model (m : res recovered) (cls : nat) (addr : bytes) (ot : otx) (pl : bytes) : N :=
  match m, cls with
  | Panic, _ => 1%N
  | Err e, 1%nat => if (e =? EOracleMiss)%nat then 4%N else 0%N
  | Err e, _ => if (e =? EOracleMiss)%nat then 4%N else 1%N
  | Ok (a, t, p), 0%nat =>
      if negb (bytes_eqb a addr) then 2%N
      else if negb (tx_matches ot t) then 3%N
      else if negb (bytes_eqb p pl) then 5%N
      else 0%N
  | Ok _, _ => 1%N
  end.

Definition check_case (c : case) : N :=
  match c with
  | CRec entry input chain orc cls addr ot payload =>
    let bs := bexpand input in
    if (cls =? 2)%nat then 10%N                                         (* implementation panicked *)
    else if negb (cls =? 0)%nat then compare_model (run_entry orc entry bs chain) cls [] ot []
    else
    (* the implementation returned a result: property oracles first, then the model *)
    let typed := match entry with 1%nat => false | 0%nat => is_typed bs | _ => true end in
    let tl := if typed then (if is_typed bs then top_list bs else None) else
              match Decode bs with Ok (Some (Lst l), _) => Some l | _ => None end in
    let chainN := Z.to_N chain in
    let pl := bexpand payload in
    let a := bexpand addr in
    (* Keccak of the returned payload, computed once and shared with the model run when the model
       hashes the same bytes *)
    let digest := if (entry =? 3)%nat then [] else keccak256 pl in
    let Hm := fun m => if bytes_eqb m pl then digest else keccak256 m in
    let oracle : N :=
      match tl with
      | None => 15%N                                (* accepted something that is not a list at all *)
      | Some l =>
        let f := fields_of ot in
        (* chain id of a type-0x02 transaction *)
        if typed && negb (match elem_int l 0 with Some n => (Z.of_N n =? chain)%Z | None => false end)
        then 12%N
        else if (entry =? 3)%nat then
          (* DecodeEIP1559SignaturePayload: the decoded payload is the input's own first nine elements *)
          if bytes_eqb (x02 :: encode (Lst (firstn 9 l))) (spec_preimage Eip1559 f chainN) then 0%N else 11%N
        else
          if typed then
            (* the returned payload is the specification preimage of the returned fields *)
            if negb (bytes_eqb pl (spec_preimage Eip1559 f chainN)) then 11%N
            else
              (* the (r,s) of the input verify over keccak256(returned payload) for the returned address;
                 when V is a plain y-parity the address is the one that parity selects *)
              let vB := match elem_int l 9 with
                        | Some 0%N => Some 27%N | Some 1%N => Some 28%N | _ => None end in
              match elem_int l 10, elem_int l 11 with
              | Some r, Some s => if orc_confirms orc digest vB r s a then 0%N else 13%N
              | _, _ => 13%N
              end
          else
            match elem_int l 6 with
            | None => 14%N
            | Some V =>
              match legacy_v_denotes V chain with
              | None => 14%N                      (* accepted a V that denotes neither format *)
              | Some (is155, vB) =>
                (* EIP-155 chain ids are non-negative; for a negative supplied chain id the preimage
                   compared is the EIP-155 one for |chain| (wave 6: what C10_sound_every_chain_partial /
                   C10_sound_secp256k1_complete_partial prove of the model - big.NewInt(chain).Bytes()
                   writes the magnitude -; before, the comparison was skipped for chain < 0).
                   For 0 <= chain, Z.abs_N chain = Z.to_N chain: nothing changes. *)
                let pre_ok := if is155 then bytes_eqb pl (spec_preimage Eip155 f (Z.abs_N chain))
                              else bytes_eqb pl (spec_preimage Original f chainN) in
                if negb pre_ok then 11%N
                else match elem_int l 7, elem_int l 8 with
                     | Some r, Some s => if orc_confirms orc digest (Some vB) r s a then 0%N else 13%N
                     | _, _ => 13%N
                     end
              end
            end
      end in
    if negb (oracle =? 0)%N then oracle
    else compare_model (run_entry_H Hm orc entry bs chain) cls a ot pl
  end.

Fixpoint mismatches_go (i : N) (l : list case) : list (N * N) :=
  match l with
  | [] => []
  | c :: t => let r := check_case c in
              if (r =? 0)%N then mismatches_go (i + 1) t else (i, r) :: mismatches_go (i + 1) t
  end.
Definition mismatches (l : list case) : list (N * N) := firstn 20 (mismatches_go 0 l).

(* ---------- exhaustive sweep: every input of length <= 2, each entry point, compared through a
   per-block digest of the outcome (no input this short can reach the ECDSA step) ---------- *)
Definition ser_outcome (r : res recovered) : bytes :=
  match r with
  | Ok (a, _, p) => x00 :: a ++ p
  | Err _ => [x01]
  | Panic => [x02]
  end.
Definition mix (acc : N) (l : bytes) : N :=
  let '(n, a, b) := cks l in ((acc * 1000003 + n * 65537 + a * 257 + b + 1) mod cks_p)%N.
Definition all_bytes : list byte := map (fun n => n2b (N.of_nat n)) (seq 0 256).
Fixpoint block_inputs (k : nat) (prefix : bytes) : list bytes :=
  match k with
  | O => [prefix]
  | S k' => flat_map (fun b => block_inputs k' (prefix ++ [b])) all_bytes
  end.
Definition block_digest (entry : nat) (chain : Z) (k : nat) (prefix : bytes) : N :=
  fold_left (fun acc i => mix acc (ser_outcome (run_entry [] entry i chain))) (block_inputs k prefix) 0%N.

(* expected: (entry, chain, prefix, k, digest) as computed by the harness from the implementation *)
Definition sweep_mismatches (l : list (nat * Z * bdsl * nat * N)) : list (N * N) :=
  firstn 20 ((fix go (i : N) (l : list (nat * Z * bdsl * nat * N)) : list (N * N) :=
        match l with
        | [] => []
        | (e, c, p, k, d) :: t =>
            let d' := block_digest e c k (bexpand p) in
            if (d =? d')%N then go (i + 1)%N t else (i, d') :: go (i + 1)%N t
        end) 0%N l).
