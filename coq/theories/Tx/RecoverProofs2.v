(* Proofs about the recovery model, part 2: soundness.  Whenever a recovery function returns
   (address, transaction, payload):
     - the payload is the specification preimage (Tx/Spec.v, written from the EIPs) of the returned
       fields — for the format the V value of the input selects;
     - the (r, s) found in the input verify over H(payload) for a public key with that address
       (given the one law of RecoverDirect that is needed: what it returns is the address of a key
       for which the signature verifies — property C05);
     - for a type-0x02 transaction the chain id embedded in the input equals the supplied one. *)
From Coq Require Import List NArith ZArith Lia Bool Arith.
From Coq Require Import ZifyN ZifyNat ZifyBool.
From Coq Require Import Init.Byte.
From FFS Require Import Base.Res Base.Bytes Rlp.Model Rlp.Spec Rlp.Proofs Tx.Model Tx.Spec Tx.Norm
  Tx.RecoverModel Tx.RecoverProofs.
Import ListNotations.

(* ---------- lengths ---------- *)
Lemma hdr_len_le9 n : (hdr_len n <= 9)%nat.
Proof. unfold hdr_len. destruct (n <=? 55)%nat; [lia|]. pose proof (be_min_length (N.of_nat n)). lia. Qed.

Lemma encode_len_le9 p il : (length (encode_bytes p il) <= 9 + length p)%nat.
Proof. pose proof (encode_bytes_len_le p il). pose proof (hdr_len_le9 (length p)). lia. Qed.

Lemma flat_map_firstn_len k (l : list item) :
  (length (flat_map encode (firstn k l)) <= length (flat_map encode l))%nat.
Proof.
  revert l. induction k as [|k IH]; intros [|x l]; cbn [firstn flat_map length]; try lia.
  rewrite !app_length. specialize (IH l). lia.
Qed.

Lemma forallb_firstn {A} (f : A -> bool) k l : forallb f l = true -> forallb f (firstn k l) = true.
Proof.
  revert l. induction k as [|k IH]; intros [|x l]; cbn [firstn forallb]; auto.
  intros Hx. apply andb_true_iff in Hx as [H1 H2]. rewrite H1, IH; auto.
Qed.

Lemma len_ok_list l : forallb size_ok l = true -> (N.of_nat (length (flat_map encode l)) < 2 ^ 64)%N ->
  len_ok (Lst l).
Proof.
  intros Hs Hl. cbn [len_ok]. split; [|exact Hl]. clear Hl.
  induction l as [|x l IH]; [exact I|]. cbn [forallb] in Hs. apply andb_true_iff in Hs as [H1 H2].
  split; [apply size_ok_len_ok; exact H1 | apply IH; exact H2].
Qed.

(* the first k elements of a decoded list, possibly followed by a few short extra elements, encode to
   the Yellow-Paper RLP of the corresponding tree *)
Lemma encode_prefix_is_RLP l k extra :
  size_ok (Lst l) = true -> forallb size_ok extra = true ->
  (length (flat_map encode extra) <= 100)%nat ->
  encode (Lst (firstn k l ++ extra)) = RLP (L (map to_tree (firstn k l ++ extra))).
Proof.
  intros Hs He Hx. cbn [size_ok] in Hs. apply andb_true_iff in Hs as [Hall Hlen].
  apply N.leb_le in Hlen. unfold maxInt32 in Hlen.
  apply (encode_is_RLP (Lst (firstn k l ++ extra))).
  apply len_ok_list.
  - rewrite forallb_app, forallb_firstn, He; auto.
  - rewrite flat_map_app, app_length. pose proof (flat_map_firstn_len k l). lia.
Qed.

(* ---------- canonical elements are what the specification writes ---------- *)
Lemma canon_scalar d : head_nz d -> B d = scalar (of_be d).
Proof.
  intros Hd. unfold scalar. f_equal. destruct (BE_spec (of_be d)) as [E Hh].
  apply minimal_unique; auto.
Qed.

Lemma int_guard (d : bytes) (X : bool) :
  match d with b :: _ => if (b2n b =? 0)%N then false else X | [] => X end = true ->
  head_nz d /\ X = true.
Proof.
  destruct d as [|b d]; cbn; [auto|]. destruct (N.eqb_spec (b2n b) 0); [discriminate|auto].
Qed.

Lemma to_guard (d : bytes) (X : bool) :
  (if negb (length d =? 0)%nat && negb (length d =? 20)%nat then false else X) = true ->
  (d = [] \/ length d = 20%nat) /\ X = true.
Proof.
  destruct (Nat.eqb_spec (length d) 0) as [E0|E0]; cbn.
  - intros ->. split; auto. left. destruct d; [reflexivity|discriminate].
  - destruct (Nat.eqb_spec (length d) 20) as [E20|E20]; cbn; [auto|discriminate].
Qed.

Lemma mag_HexInt d : mag (HexInt (ToData (Str d))) = of_be d.
Proof. unfold mag, HexInt. cbn. apply Zabs2N.id. Qed.

Lemma destination_addr d : d = [] \/ length d = 20%nat ->
  B d = destination (DataAddress (ToData (Str d))).
Proof.
  intros [->|E]; [reflexivity|]. unfold DataAddress. cbn [ToData].
  rewrite E. reflexivity.
Qed.

(* the decoded transaction of the legacy path *)
Definition legacy_tx (e0 e1 e2 e3 e4 e5 : item) : tx :=
  mkTx (HexInt (ToData e0)) (HexInt (ToData e1)) None None (HexInt (ToData e2))
       (DataAddress (ToData e3)) (HexInt (ToData e4)) (HexBytes (ToData e5)).

Lemma legacy_fields_spec e0 e1 e2 e3 e4 e5 :
  canonicalFields [e0; e1; e2; e3; e4; e5] 3 5 = true ->
  map to_tree [e0; e1; e2; e3; e4; e5] = legacy_body (norm (legacy_tx e0 e1 e2 e3 e4 e5)).
Proof.
  unfold canonicalFields.
  destruct e0 as [d0|]; cbn [canonicalFields_from Nat.eqb]; [|discriminate].
  intros G. apply int_guard in G as [H0 G].
  destruct e1 as [d1|]; cbn [canonicalFields_from Nat.eqb] in G; [|discriminate].
  apply int_guard in G as [H1 G].
  destruct e2 as [d2|]; cbn [canonicalFields_from Nat.eqb] in G; [|discriminate].
  apply int_guard in G as [H2 G].
  destruct e3 as [d3|]; cbn [canonicalFields_from Nat.eqb] in G; [|discriminate].
  apply to_guard in G as [H3 G].
  destruct e4 as [d4|]; cbn [canonicalFields_from Nat.eqb] in G; [|discriminate].
  apply int_guard in G as [H4 G].
  destruct e5 as [d5|]; cbn [canonicalFields_from Nat.eqb] in G; [|discriminate].
  unfold legacy_body, norm, legacy_tx. cbn [map to_tree tx_nonce tx_gasPrice tx_gasLimit tx_to tx_value tx_data
    f_nonce f_gasPrice f_gasLimit f_to f_value f_data].
  rewrite !mag_HexInt.
  rewrite <- !canon_scalar by assumption. rewrite <- destination_addr by assumption.
  reflexivity.
Qed.

(* the decoded transaction of the EIP-1559 path *)
Definition eip1559_tx (e1 e2 e3 e4 e5 e6 e7 : item) : tx :=
  mkTx (HexInt (ToData e1)) None (HexInt (ToData e2)) (HexInt (ToData e3)) (HexInt (ToData e4))
       (DataAddress (ToData e5)) (HexInt (ToData e6)) (HexBytes (ToData e7)).

(* the EIP-1559 list with an explicit access list [al] (Tx/Spec.v fixes it to the empty list) *)
Definition eip1559_body_al (f : fields) (chain : N) (al : tree) : list tree :=
  firstn 8 (eip1559_body f chain) ++ [al].

Lemma eip1559_body_al_empty f chain : eip1559_body_al f chain (L []) = eip1559_body f chain.
Proof. reflexivity. Qed.

Lemma eip1559_fields_spec e0 e1 e2 e3 e4 e5 e6 e7 :
  canonicalFields [e0; e1; e2; e3; e4; e5; e6; e7] 5 7 = true ->
  exists c0, e0 = Str c0 /\ head_nz c0 /\
  map to_tree [e0; e1; e2; e3; e4; e5; e6; e7] =
  firstn 8 (eip1559_body (norm (eip1559_tx e1 e2 e3 e4 e5 e6 e7)) (of_be c0)).
Proof.
  unfold canonicalFields.
  destruct e0 as [d0|]; cbn [canonicalFields_from Nat.eqb]; [|discriminate].
  intros G. apply int_guard in G as [H0 G].
  destruct e1 as [d1|]; cbn [canonicalFields_from Nat.eqb] in G; [|discriminate].
  apply int_guard in G as [H1 G].
  destruct e2 as [d2|]; cbn [canonicalFields_from Nat.eqb] in G; [|discriminate].
  apply int_guard in G as [H2 G].
  destruct e3 as [d3|]; cbn [canonicalFields_from Nat.eqb] in G; [|discriminate].
  apply int_guard in G as [H3 G].
  destruct e4 as [d4|]; cbn [canonicalFields_from Nat.eqb] in G; [|discriminate].
  apply int_guard in G as [H4 G].
  destruct e5 as [d5|]; cbn [canonicalFields_from Nat.eqb] in G; [|discriminate].
  apply to_guard in G as [H5 G].
  destruct e6 as [d6|]; cbn [canonicalFields_from Nat.eqb] in G; [|discriminate].
  apply int_guard in G as [H6 G].
  destruct e7 as [d7|]; cbn [canonicalFields_from Nat.eqb] in G; [|discriminate].
  exists d0. split; [reflexivity|]. split; [exact H0|].
  unfold eip1559_body, norm, eip1559_tx. cbn [firstn map to_tree tx_nonce tx_maxPrio tx_maxFee tx_gasLimit tx_to
    tx_value tx_data f_nonce f_maxPrio f_maxFee f_gasLimit f_to f_value f_data].
  rewrite !mag_HexInt.
  rewrite <- !canon_scalar by assumption. rewrite <- destination_addr by assumption.
  reflexivity.
Qed.

(* ---------- the three values EIP-155 appends ---------- *)
Lemma to_tree_WrapBig_abs z : to_tree (WrapBig z) = scalar (Z.abs_N z).
Proof. reflexivity. Qed.

Lemma BE_len8 n : (n < 2 ^ 64)%N -> (length (BE n) <= 8)%nat.
Proof.
  intros Hn. destruct (BE_spec n) as [E Hh].
  pose proof (head_nz_shortest_le (BE n) (be_fixed 8 n) Hh) as L.
  rewrite E, of_be_fixed, be_fixed_length in L. apply L.
  change (256 ^ N.of_nat 8)%N with (2 ^ 64)%N. rewrite N.mod_small; lia.
Qed.

Lemma size_ok_WrapBig z : (0 <= z < 2 ^ 63)%Z -> size_ok (WrapBig z) = true.
Proof.
  intros Hz. unfold WrapBig, WrapInt. cbn [size_ok]. rewrite big_bytes_BE.
  apply N.leb_le. pose proof (BE_len8 (Z.abs_N z)) as L. unfold maxInt32. lia.
Qed.

Lemma encode_WrapBig_len z : (0 <= z < 2 ^ 63)%Z -> (length (encode (WrapBig z)) <= 17)%nat.
Proof.
  intros Hz. unfold WrapBig, WrapInt. cbn [encode]. rewrite big_bytes_BE.
  pose proof (encode_len_le9 (BE (Z.abs_N z)) false). pose proof (BE_len8 (Z.abs_N z)). lia.
Qed.

Lemma flat_155_len chain : (0 <= chain < 2 ^ 63)%Z ->
  (length (flat_map encode [WrapBig chain; WrapBig 0; WrapBig 0]) <= 100)%nat.
Proof.
  intros Hc. cbn [flat_map]. rewrite !app_length. cbn [length].
  pose proof (encode_WrapBig_len chain Hc). pose proof (encode_WrapBig_len 0 ltac:(lia)). lia.
Qed.

(* ---------- reading the signature out of the input, independently of the model's control flow ---------- *)
Definition elem_int (e : item) : N := match e with Str b => of_be b | Lst _ => 0%N end.

Lemma elem_int_bytes e : of_be (BytesNotNil (ToData e)) = elem_int e.
Proof. destruct e; reflexivity. Qed.

(* ---------- EIP-1559 ---------- *)

(* what a successful decodeEIP1559SignaturePayload establishes *)
Lemma decode1559_inv bs chain n l t : (9 <= n)%nat ->
  decodeEIP1559SignaturePayload bs chain n = Ok (l, t) ->
  exists rest pos c0 e1 e2 e3 e4 e5 e6 e7 al tl,
    bs = x02 :: rest /\ Decode rest = Ok (Some (Lst l), pos) /\ size_ok (Lst l) = true /\
    (n <= length l)%nat /\
    l = Str c0 :: e1 :: e2 :: e3 :: e4 :: e5 :: e6 :: e7 :: Lst al :: tl /\
    head_nz c0 /\ Z.of_N (of_be c0) = chain /\
    t = eip1559_tx e1 e2 e3 e4 e5 e6 e7 /\
    map to_tree (firstn 9 l) = eip1559_body_al (norm t) (Z.to_N chain) (L (map to_tree al)).
Proof.
  intros Hn. unfold decodeEIP1559SignaturePayload.
  destruct bs as [|b0 rest]; [discriminate|].
  destruct (N.eqb_spec (b2n b0) (b2n TransactionType1559)) as [Eb|Eb]; cbn [negb]; [|discriminate].
  apply b2n_inj in Eb. subst b0.
  destruct (Decode_total_in_bounds rest) as [_ [_ HB]].
  destruct (Decode rest) as [[decoded pos]|e|] eqn:ED; try discriminate.
  destruct decoded as [[b|l0]|]; try discriminate.
  destruct (HB (Lst l0) pos eq_refl) as [_ [Hsz _]].
  destruct (length l0 <? n)%nat eqn:E9; [discriminate|]. apply Nat.ltb_ge in E9.
  destruct l0 as [|e0 [|e1 [|e2 [|e3 [|e4 [|e5 [|e6 [|e7 [|e8 tl]]]]]]]]]; cbn [length] in E9; try lia.
  unfold idx, lslice. cbn [nth_error bind length Nat.leb andb Nat.sub skipn firstn].
  destruct (negb (IntOrZero (ToData e0) <? 2 ^ 63)%N || negb (Z.of_N (IntOrZero (ToData e0)) =? chain)%Z) eqn:EC;
    [discriminate|].
  apply orb_false_iff in EC as [_ EC]. apply negb_false_iff, Z.eqb_eq in EC.
  destruct (canonicalFields [e0; e1; e2; e3; e4; e5; e6; e7] 5 7) eqn:ECF; cbn [negb]; [|discriminate].
  destruct e8 as [|al]; cbn [IsList negb]; [discriminate|].
  intros X. injection X as <- <-.
  destruct (eip1559_fields_spec _ _ _ _ _ _ _ _ ECF) as [c0 [-> [Hc0 FS]]].
  cbn [ToData IntOrZero] in EC.
  exists rest, pos, c0, e1, e2, e3, e4, e5, e6, e7, al, tl.
  repeat split; auto.
  fold (eip1559_tx e1 e2 e3 e4 e5 e6 e7).
  unfold eip1559_body_al.
  change [Str c0; e1; e2; e3; e4; e5; e6; e7; Lst al]
    with ([Str c0; e1; e2; e3; e4; e5; e6; e7] ++ [Lst al]).
  rewrite map_app, FS. rewrite <- EC, N2Z.id. reflexivity.
Qed.

Theorem Decode1559_sound bs chain t :
  DecodeEIP1559SignaturePayload bs chain = Ok t ->
  exists rest l pos c0 al,
    bs = x02 :: rest /\ Decode rest = Ok (Some (Lst l), pos) /\
    nth_error l 0 = Some (Str c0) /\ Z.of_N (of_be c0) = chain /\ nth_error l 8 = Some (Lst al) /\
    x02 :: encode (Lst (firstn 9 l)) =
      x02 :: RLP (L (eip1559_body_al (norm t) (Z.to_N chain) (L (map to_tree al)))).
Proof.
  unfold DecodeEIP1559SignaturePayload.
  destruct (decodeEIP1559SignaturePayload bs chain 9) as [[l t0]|e|] eqn:ED; cbn [bind]; try discriminate.
  intros X. injection X as <-.
  destruct (decode1559_inv bs chain 9 l t0 ltac:(lia) ED)
    as [rest [pos [c0 [e1 [e2 [e3 [e4 [e5 [e6 [e7 [al [tl [-> [EDec [Hsz [Hlen [El [Hc0 [Ech [Et FS]]]]]]]]]]]]]]]]]]]].
  exists rest, l, pos, c0, al. rewrite El at 2 3. cbn [nth_error]. repeat split; auto.
  f_equal. replace (firstn 9 l) with (firstn 9 l ++ []) by apply app_nil_r.
  rewrite (encode_prefix_is_RLP l 9 [] Hsz); [|reflexivity|cbn; lia].
  rewrite app_nil_r, FS. reflexivity.
Qed.

Section Sound.
Variable H : bytes -> bytes.
Variable RD : sigdata -> bytes -> Z -> res bytes.
Variable PubKey : Type.
Variable addr_of : PubKey -> bytes.
Variable verify : PubKey -> bytes -> Z -> Z -> Prop.     (* ECDSA verification of (r,s) over a digest *)
(* the law of RecoverDirect used here (C05): a returned address is the address of a key for which the
   signature verifies over the digest *)
Hypothesis RD_sound : forall v r s d c a,
  RD (v, r, s) d c = Ok a -> exists q, a = addr_of q /\ verify q d r s.

Lemma recoverCommon_sound t m c v r s a t' p :
  recoverCommon H RD t m c v r s = Ok (a, t', p) ->
  t' = t /\ p = m /\ exists q, a = addr_of q /\ verify q (H m) (Z.of_N (of_be r)) (Z.of_N (of_be s)).
Proof.
  unfold recoverCommon, SigRecover.
  destruct (RD _ (H m) c) as [a0| |] eqn:E; cbn [bind]; try discriminate.
  intros X. injection X as <- <- <-. repeat split. eapply RD_sound; eauto.
Qed.

(* which legacy format the V value selects, as the code computes it (int64 arithmetic) *)
Definition legacy_v (e6 : item) : Z := wrap64 (Z.of_N (elem_int e6)).
Definition v_is_legacy (v : Z) : Prop := v = 27%Z \/ v = 28%Z.
Definition v_is_eip155 (v chain : Z) : Prop :=
  let v' := wrap64 (wrap64 (v - wrap64 (chain * 2)) - 8) in v' = 27%Z \/ v' = 28%Z.

Theorem RecoverLegacy_sound bs chain a t p : (0 <= chain < 2 ^ 63)%Z ->
  RecoverLegacyRawTransaction H RD bs chain = Ok (a, t, p) ->
  exists l pos e6 e7 e8 q,
    Decode bs = Ok (Some (Lst l), pos) /\
    nth_error l 6 = Some e6 /\ nth_error l 7 = Some e7 /\ nth_error l 8 = Some e8 /\
    a = addr_of q /\ verify q (H p) (Z.of_N (elem_int e7)) (Z.of_N (elem_int e8)) /\
    ( (v_is_legacy (legacy_v e6) /\ p = spec_preimage Original (norm t) 0) \/
      (~ v_is_legacy (legacy_v e6) /\ v_is_eip155 (legacy_v e6) chain /\
       p = spec_preimage Eip155 (norm t) (Z.to_N chain)) ).
Proof.
  intros Hc. unfold RecoverLegacyRawTransaction.
  destruct (Decode_total_in_bounds bs) as [_ [_ HB]].
  destruct (Decode bs) as [[decoded pos]|e|] eqn:ED; try discriminate.
  destruct decoded as [[b|l]|]; try discriminate.
  destruct (HB (Lst l) pos eq_refl) as [_ [Hsz _]].
  destruct (length l <? 9)%nat eqn:E9; [discriminate|]. apply Nat.ltb_ge in E9.
  destruct l as [|e0 [|e1 [|e2 [|e3 [|e4 [|e5 [|e6 [|e7 [|e8 rest]]]]]]]]]; cbn [length] in E9; try lia.
  set (l := e0 :: e1 :: e2 :: e3 :: e4 :: e5 :: e6 :: e7 :: e8 :: rest) in *.
  assert (F6 : firstn 6 l = [e0; e1; e2; e3; e4; e5]) by reflexivity.
  unfold lslice. replace ((0 <=? 6)%nat && (6 <=? length l)%nat) with true
    by (symmetry; apply andb_true_iff; split; apply Nat.leb_le; subst l; cbn [length]; lia).
  cbn [bind]. change (firstn (6 - 0) (skipn 0 l)) with (firstn 6 l). rewrite F6.
  destruct (canonicalFields [e0; e1; e2; e3; e4; e5] 3 5) eqn:EC; cbn [negb]; [|discriminate].
  unfold idx. subst l. cbn [nth_error bind].
  fold (legacy_tx e0 e1 e2 e3 e4 e5).
  destruct (IsList e6) eqn:EL; [discriminate|].
  destruct e6 as [vb|]; [|discriminate]. unfold IntInt64. cbn [ToData DataInt bind].
  change (wrap64 (Z.of_N (of_be vb))) with (legacy_v (Str vb)).
  set (v := legacy_v (Str vb)).
  pose proof (legacy_fields_spec _ _ _ _ _ _ EC) as FS.
  set (l := e0 :: e1 :: e2 :: e3 :: e4 :: e5 :: Str vb :: e7 :: e8 :: rest) in *.
  destruct (negb (v =? 27)%Z && negb (v =? 28)%Z) eqn:EV.
  - (* EIP-155 *)
    set (v' := wrap64 (wrap64 (v - wrap64 (chain * 2)) - 8)).
    destruct (negb (v' =? 27)%Z && negb (v' =? 28)%Z) eqn:EV'; [discriminate|].
    cbn [bind]. intros X. apply recoverCommon_sound in X as [-> [-> [q [Ha Hv]]]].
    exists l, pos, (Str vb), e7, e8, q. rewrite !elem_int_bytes in Hv.
    repeat split; auto. right.
    assert (NV : ~ v_is_legacy v).
    { unfold v_is_legacy. apply andb_true_iff in EV as [A B].
      apply negb_true_iff in A, B. apply Z.eqb_neq in A, B. tauto. }
    split; [exact NV|]. split.
    { unfold v_is_eip155. fold v. cbv zeta. fold v'.
      destruct (Z.eqb_spec v' 27); [tauto|]. destruct (Z.eqb_spec v' 28); [tauto|]. discriminate. }
    unfold AddEIP155HashValuesToRLPList.
    change [e0; e1; e2; e3; e4; e5] with (firstn 6 l).
    rewrite (encode_prefix_is_RLP l 6 [WrapBig chain; WrapBig 0; WrapBig 0] Hsz).
    + rewrite map_app. change (firstn 6 l) with [e0; e1; e2; e3; e4; e5]. rewrite FS.
      cbn [map]. rewrite !to_tree_WrapBig_abs. rewrite Zabs2N.abs_N_nonneg by lia. reflexivity.
    + cbn [forallb]. rewrite !size_ok_WrapBig by lia. reflexivity.
    + apply flat_155_len; exact Hc.
  - (* original *)
    cbn [bind]. intros X. apply recoverCommon_sound in X as [-> [-> [q [Ha Hv]]]].
    exists l, pos, (Str vb), e7, e8, q. rewrite !elem_int_bytes in Hv.
    repeat split; auto. left. split.
    { unfold v_is_legacy. apply andb_false_iff in EV as [A|A]; apply negb_false_iff, Z.eqb_eq in A; tauto. }
    change [e0; e1; e2; e3; e4; e5] with (firstn 6 l ++ []) at 1.
    rewrite (encode_prefix_is_RLP l 6 [] Hsz); [|reflexivity|cbn; lia].
    rewrite app_nil_r. change (firstn 6 l) with [e0; e1; e2; e3; e4; e5]. rewrite FS. reflexivity.
Qed.

Theorem Recover1559_sound bs chain a t p :
  RecoverEIP1559Transaction H RD bs chain = Ok (a, t, p) ->
  exists rest l pos c0 al e10 e11 q,
    bs = x02 :: rest /\ Decode rest = Ok (Some (Lst l), pos) /\
    nth_error l 0 = Some (Str c0) /\ Z.of_N (of_be c0) = chain /\
    nth_error l 8 = Some (Lst al) /\ nth_error l 10 = Some e10 /\ nth_error l 11 = Some e11 /\
    a = addr_of q /\ verify q (H p) (Z.of_N (elem_int e10)) (Z.of_N (elem_int e11)) /\
    p = x02 :: RLP (L (eip1559_body_al (norm t) (Z.to_N chain) (L (map to_tree al)))).
Proof.
  unfold RecoverEIP1559Transaction.
  destruct (decodeEIP1559SignaturePayload bs chain 12) as [[l t0]|e|] eqn:ED; cbn [bind]; try discriminate.
  destruct (decode1559_inv bs chain 12 l t0 ltac:(lia) ED)
    as [rest [pos [c0 [e1 [e2 [e3 [e4 [e5 [e6 [e7 [al [tl [-> [EDec [Hsz [Hlen [El [Hc0 [Ech [Et FS]]]]]]]]]]]]]]]]]]]].
  destruct tl as [|e9 [|e10 [|e11 tl']]]; try (subst l; cbn [length] in Hlen; lia).
  unfold idx. rewrite El. cbn [nth_error bind].
  destruct (IsList e9) eqn:EL; [discriminate|].
  rewrite <- El.
  unfold lslice. replace ((0 <=? 9)%nat && (9 <=? length l)%nat) with true
    by (symmetry; apply andb_true_iff; split; apply Nat.leb_le; lia).
  cbn [bind]. change (firstn (9 - 0) (skipn 0 l)) with (firstn 9 l).
  destruct e9 as [vb|]; [|discriminate]. unfold IntInt64. cbn [ToData DataInt bind].
  intros X. apply recoverCommon_sound in X as [-> [-> [q [Ha Hv]]]].
  rewrite !elem_int_bytes in Hv.
  exists rest, l, pos, c0, al, e10, e11, q.
  rewrite El at 2 3 4 5. cbn [nth_error].
  repeat split; auto.
  unfold TransactionType1559. f_equal.
  replace (firstn 9 l) with (firstn 9 l ++ []) by apply app_nil_r.
  rewrite (encode_prefix_is_RLP l 9 [] Hsz); [|reflexivity|cbn; lia].
  rewrite app_nil_r, FS. reflexivity.
Qed.

(* the chain-id clause on its own: a type-0x02 input whose first list element is not the supplied
   chain id (as an integer, whatever its width) is refused by all three entry points *)
Theorem chain_id_mismatch_refused rest l pos e0 chain :
  Decode rest = Ok (Some (Lst l), pos) -> nth_error l 0 = Some e0 ->
  Z.of_N (elem_int e0) <> chain ->
  (exists e, RecoverRawTransaction H RD (x02 :: rest) chain = Err e) /\
  (exists e, RecoverEIP1559Transaction H RD (x02 :: rest) chain = Err e) /\
  (exists e, DecodeEIP1559SignaturePayload (x02 :: rest) chain = Err e).
Proof.
  intros ED E0 NE.
  assert (D : forall n, exists e, decodeEIP1559SignaturePayload (x02 :: rest) chain n = Err e).
  { intros n. unfold decodeEIP1559SignaturePayload.
    change (negb (b2n x02 =? b2n TransactionType1559)%N) with false. cbv iota. rewrite ED.
    destruct (length l <? n)%nat; [eauto|].
    unfold idx. rewrite E0. cbn [bind].
    assert (IntOrZero (ToData e0) = elem_int e0) as -> by (destruct e0; reflexivity).
    destruct (Z.eqb_spec (Z.of_N (elem_int e0)) chain) as [Eq|_]; [contradiction|].
    rewrite orb_true_r. eauto. }
  assert (R : exists e, RecoverEIP1559Transaction H RD (x02 :: rest) chain = Err e).
  { unfold RecoverEIP1559Transaction. destruct (D 12%nat) as [e ->]. cbn [bind]. eauto. }
  split; [|split; [exact R|]].
  - unfold RecoverRawTransaction. change (199 <=? b2n x02)%N with false. cbv iota.
    change (b2n x02 =? b2n TransactionType1559)%N with true. cbv iota. exact R.
  - unfold DecodeEIP1559SignaturePayload. destruct (D 9%nat) as [e ->]. cbn [bind]. eauto.
Qed.

(* ---------- the dispatching entry point ---------- *)
Theorem RecoverRaw_sound bs chain a t p : (0 <= chain < 2 ^ 63)%Z ->
  RecoverRawTransaction H RD bs chain = Ok (a, t, p) ->
  (* legacy: the input is an RLP list *)
  (exists l pos e6 e7 e8 q,
    Decode bs = Ok (Some (Lst l), pos) /\
    nth_error l 6 = Some e6 /\ nth_error l 7 = Some e7 /\ nth_error l 8 = Some e8 /\
    a = addr_of q /\ verify q (H p) (Z.of_N (elem_int e7)) (Z.of_N (elem_int e8)) /\
    ( (v_is_legacy (legacy_v e6) /\ p = spec_preimage Original (norm t) 0) \/
      (~ v_is_legacy (legacy_v e6) /\ v_is_eip155 (legacy_v e6) chain /\
       p = spec_preimage Eip155 (norm t) (Z.to_N chain)) ))
  \/
  (* EIP-2718 type 0x02 *)
  (exists rest l pos c0 al e10 e11 q,
    bs = x02 :: rest /\ Decode rest = Ok (Some (Lst l), pos) /\
    nth_error l 0 = Some (Str c0) /\ Z.of_N (of_be c0) = chain /\
    nth_error l 8 = Some (Lst al) /\ nth_error l 10 = Some e10 /\ nth_error l 11 = Some e11 /\
    a = addr_of q /\ verify q (H p) (Z.of_N (elem_int e10)) (Z.of_N (elem_int e11)) /\
    p = x02 :: RLP (L (eip1559_body_al (norm t) (Z.to_N chain) (L (map to_tree al))))).
Proof.
  intros Hc. unfold RecoverRawTransaction. destruct bs as [|b rest]; [discriminate|].
  destruct (199 <=? b2n b)%N.
  - intros X. left. eapply RecoverLegacy_sound; eauto.
  - destruct (b2n b =? b2n TransactionType1559)%N; [|discriminate].
    intros X. right. eapply Recover1559_sound; eauto.
Qed.

End Sound.

(* ---------- the access list: with the empty list the payload is the preimage of Tx/Spec.v; with a
   non-empty one the returned fields (which have no access list) do not determine the payload ---------- *)
Lemma eip1559_al_empty_preimage f c :
  x02 :: RLP (L (eip1559_body_al f c (L (map to_tree [])))) = spec_preimage Eip1559 f c.
Proof. reflexivity. Qed.

(* a trivial instance of the parameters, used for witnesses and non-vacuity examples only *)
Definition H_triv : bytes -> bytes := fun _ => [].
Definition RD_triv : sigdata -> bytes -> Z -> res bytes := fun _ _ _ => Ok (repeat x01 20).

(* 0x02 || rlp([1, 0, 0, 0, 0, "", 0, "", [[]], 0, 1, 1]) *)
Definition al_witness : bytes :=
  [x02; xcd; x01; x80; x80; x80; x80; x80; x80; x80; xc1; xc0; x80; x01; x01].

Theorem sound_access_list_refuted :
  exists H RD bs chain a t p,
    RecoverRawTransaction H RD bs chain = Ok (a, t, p) /\
    p <> spec_preimage Eip1559 (norm t) (Z.to_N chain).
Proof.
  exists H_triv, RD_triv, al_witness, 1%Z.
  eexists. eexists. eexists. split; [vm_compute; reflexivity|].
  vm_compute. intros X. discriminate X.
Qed.

(* ---------- what the int64 arithmetic on V accepts, in terms of the integer V written in the input ---------- *)
Lemma wrap64_mod x : exists k, wrap64 x = (x + k * 2 ^ 64)%Z.
Proof.
  unfold wrap64. exists (- ((x + 2 ^ 63) / 2 ^ 64))%Z.
  pose proof (Z.div_mod (x + 2 ^ 63) (2 ^ 64) ltac:(lia)). lia.
Qed.

Lemma wrap64_range x : (- 2 ^ 63 <= wrap64 x < 2 ^ 63)%Z.
Proof. unfold wrap64. pose proof (Z.mod_pos_bound (x + 2 ^ 63) (2 ^ 64) ltac:(lia)). lia. Qed.

Lemma wrap64_small x y : (- 2 ^ 63 <= y < 2 ^ 63)%Z ->
  (wrap64 x = y <-> exists k, x = (y + k * 2 ^ 64)%Z).
Proof.
  intros Hy. split.
  - intros E. destruct (wrap64_mod x) as [k Hk]. exists (- k)%Z. lia.
  - intros [k ->]. pose proof (wrap64_range (y + k * 2 ^ 64)).
    destruct (wrap64_mod (y + k * 2 ^ 64)) as [j Hj]. assert (j = - k)%Z by nia. subst. lia.
Qed.

(* legacy V: accepted as "original format" iff V is 27 or 28 modulo 2^64; as EIP-155 iff V is
   35 + 2*chain + parity modulo 2^64 *)
Theorem legacy_v_meaning vb chain :
  let V := Z.of_N (of_be vb) in
  (v_is_legacy (legacy_v (Str vb)) <-> exists p k, (p = 0 \/ p = 1)%Z /\ V = (27 + p + k * 2 ^ 64)%Z) /\
  (v_is_eip155 (legacy_v (Str vb)) chain <->
     exists p k, (p = 0 \/ p = 1)%Z /\ V = (35 + 2 * chain + p + k * 2 ^ 64)%Z).
Proof.
  cbv zeta. unfold legacy_v, v_is_legacy, v_is_eip155. cbn [elem_int].
  set (V := Z.of_N (of_be vb)). split; split.
  - intros [E|E]; apply wrap64_small in E; try lia; destruct E as [k E];
      [exists 0%Z, k | exists 1%Z, k]; lia.
  - intros [p [k [[->| ->] E]]]; [left|right]; apply wrap64_small; try lia; exists k; lia.
  - cbv zeta.
    destruct (wrap64_mod V) as [k1 E1]. destruct (wrap64_mod (chain * 2)) as [k2 E2].
    destruct (wrap64_mod (wrap64 V - wrap64 (chain * 2))) as [k3 E3].
    intros [E|E]; apply wrap64_small in E; try lia; destruct E as [k E];
      [exists 0%Z | exists 1%Z]; exists (k - k1 + k2 - k3)%Z; lia.
  - cbv zeta.
    destruct (wrap64_mod V) as [k1 E1]. destruct (wrap64_mod (chain * 2)) as [k2 E2].
    destruct (wrap64_mod (wrap64 V - wrap64 (chain * 2))) as [k3 E3].
    intros [p [k [[->| ->] E]]]; [left|right]; apply wrap64_small; try lia;
      exists (k + k1 - k2 + k3)%Z; lia.
Qed.
