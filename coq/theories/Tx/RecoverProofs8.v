(* Proofs about the recovery model, part 8 (wave 6): ONE statement per entry point that carries every
   clause of the property at once for C05's RecoverDirect - no law of RecoverDirect assumed -:
   the key is THE point ecdsa_recover computes for the y-parity [par] the V element denotes, it is not
   the point at infinity, its address is the returned one, (r,s) verify for it over H(payload);
   the SAME parity [par] and the SAME reading of V select the format of the payload (original form
   iff V = 27+par, EIP-155 for the supplied chain iff V = 35+2*chain+par, modulo 2^64), the payload is
   the specification preimage of the returned fields for that format, and the first six / nine
   elements of the input are the specification's elements of the returned fields.
   For type 0x02 the accepted V values are named explicitly (C05's [legit_V]: par, 27+par,
   35+2*chain+par of the int64 value of element 9, or the [v_alias] region of C05's known finding),
   the embedded chain id is the supplied one, and the payload is the specification preimage when the
   input's access list is empty.
   The older theorems (RecoverProofs2/3/4/5) each carry a part; here the parts are tied to the same
   decoded list, the same V element and the same parity, using that [Decode] and [nth_error] are
   functions. *)
From Coq Require Import List NArith ZArith Lia Bool Arith.
From Coq Require Import Init.Byte.
From FFS Require Import Base.Res Base.Bytes Rlp.Model Rlp.Spec Rlp.Proofs Tx.Model Tx.Spec Tx.Norm
  Tx.RecoverModel Tx.RecoverProofs Tx.RecoverProofs2 Tx.RecoverProofs3 Tx.RecoverProofs4
  Tx.RecoverProofs5 Tx.RecoverSecp.
From FFS Require Crypto.Ecdsa Secp.Model Secp.Proofs.
Import ListNotations.

Lemma V_original_of_p V par : (par = 0 \/ par = 1)%Z -> V_original_p V par -> V_original V.
Proof. intros Hp [k E]. exists par, k. auto. Qed.

Section Complete.
Variable o : Crypto.Ecdsa.group_ops.
Hypothesis Laws : Crypto.Ecdsa.laws o.
Variable H : bytes -> bytes.
Hypothesis H_len : forall x, length (H x) = 32%nat.

Let RDs := RD_secp o H.
Let RDs_law : forall v r s d c a, RDs (v, r, s) d c = Ok a ->
    exists q, a = secp_addr_of o H q /\ secp_verify o q d r s :=
  fun v r s d c a E => RD_secp_sound o Laws H H_len v r s d c a E.

Theorem legacy_complete bs chain a t p : (- 2 ^ 63 <= chain < 2 ^ 63)%Z ->
  RecoverLegacyRawTransaction H (RD_secp o H) bs chain = Ok (a, t, p) ->
  exists l pos vb e7 e8 par q,
    Decode bs = Ok (Some (Lst l), pos) /\ (9 <= length l)%nat /\
    nth_error l 6 = Some (Str vb) /\ nth_error l 7 = Some e7 /\ nth_error l 8 = Some e8 /\
    (par = 0 \/ par = 1)%Z /\
    ( (V_original_p (Z.of_N (of_be vb)) par /\ p = spec_preimage Original (norm t) 0) \/
      (~ V_original (Z.of_N (of_be vb)) /\ V_eip155_p (Z.of_N (of_be vb)) chain par /\
       p = spec_preimage Eip155 (norm t) (Z.abs_N chain)) ) /\
    map to_tree (firstn 6 l) = legacy_body (norm t) /\
    Crypto.Ecdsa.ecdsa_recover o (Secp.Model.hash_to_z (H p))
      (Z.of_N (elem_int e7)) (Z.of_N (elem_int e8)) (par =? 1)%Z = Some q /\
    q <> Crypto.Ecdsa.zero o /\ a = secp_addr_of o H q /\
    secp_verify o q (H p) (Z.of_N (elem_int e7)) (Z.of_N (elem_int e8)).
Proof.
  intros Hc X.
  destruct (RecoverLegacy_call H (RD_secp o H) bs chain a t p X)
    as (l & pos & vb & e7 & e8 & ED & E6 & E7 & E8 & Hvp & R).
  destruct (RecoverLegacy_exact H (RD_secp o H) (Crypto.Ecdsa.pt o) (secp_addr_of o H) (secp_verify o)
              RDs_law bs chain a t p Hc X)
    as (l' & pos' & vb' & e7' & e8' & q' & ED' & E6' & _ & _ & _ & _ & Hp).
  destruct (RecoverLegacy_elements H (RD_secp o H) bs chain a t p X) as (l'' & pos'' & ED'' & Hlen & FS).
  rewrite ED in ED', ED''. injection ED' as <- <-. injection ED'' as <- <-.
  rewrite E6 in E6'. injection E6' as <-.
  cbv zeta in Hvp, R.
  set (vp := legacy_v_passed (wrap64 (Z.of_N (of_be vb))) chain) in *.
  destruct (RD_secp_full o Laws H H_len _ _ _ _ _ _ R) as (vB & q & HN & HV & ER & HZ & Ea & Hver).
  rewrite (v_norm_27_28 vp chain Hvp) in HN. injection HN as <-.
  assert (Hpar : (vp - 27 = 0 \/ vp - 27 = 1)%Z) by lia.
  exists l, pos, vb, e7, e8, (vp - 27)%Z, q.
  split; [exact ED|]. split; [exact Hlen|]. split; [exact E6|]. split; [exact E7|]. split; [exact E8|].
  split; [exact Hpar|]. split.
  { pose proof (legacy_v_passed_parity vb chain Hvp) as P. cbv zeta in P. fold vp in P.
    destruct P as [PO|[PN PE]]; destruct Hp as [[QO Qp]|[QN [QE Qp]]].
    - left. split; assumption.
    - exfalso. apply QN. exact (V_original_of_p _ _ Hpar PO).
    - exfalso. exact (PN QO).
    - right. split; [exact PN|]. split; assumption. }
  split; [exact FS|]. split.
  { replace (vp - 27 =? 1)%Z with (vp =? 28)%Z; [exact ER|].
    destruct Hvp as [E|E]; rewrite E; reflexivity. }
  split; [exact HZ|]. split; [exact Ea|exact Hver].
Qed.

Theorem eip1559_complete bs chain a t p :
  RecoverEIP1559Transaction H (RD_secp o H) bs chain = Ok (a, t, p) ->
  exists rest l pos c0 al vb e10 e11 par q,
    (0 <= chain)%Z /\
    bs = x02 :: rest /\ Decode rest = Ok (Some (Lst l), pos) /\ (12 <= length l)%nat /\
    nth_error l 0 = Some (Str c0) /\ Z.of_N (of_be c0) = chain /\
    nth_error l 8 = Some (Lst al) /\ nth_error l 9 = Some (Str vb) /\
    nth_error l 10 = Some e10 /\ nth_error l 11 = Some e11 /\
    (par = 0 \/ par = 1)%Z /\
    Secp.Proofs.v_norm (wrap64 (Z.of_N (of_be vb))) chain = Some (27 + par)%Z /\
    (Secp.Proofs.legit_V par chain (wrap64 (Z.of_N (of_be vb))) \/
     Secp.Proofs.v_alias (wrap64 (Z.of_N (of_be vb))) chain) /\
    map to_tree (firstn 9 l) = eip1559_body_al (norm t) (Z.to_N chain) (L (map to_tree al)) /\
    p = x02 :: RLP (L (eip1559_body_al (norm t) (Z.to_N chain) (L (map to_tree al)))) /\
    (al = [] -> p = spec_preimage Eip1559 (norm t) (Z.to_N chain)) /\
    Crypto.Ecdsa.ecdsa_recover o (Secp.Model.hash_to_z (H p))
      (Z.of_N (elem_int e10)) (Z.of_N (elem_int e11)) (par =? 1)%Z = Some q /\
    q <> Crypto.Ecdsa.zero o /\ a = secp_addr_of o H q /\
    secp_verify o q (H p) (Z.of_N (elem_int e10)) (Z.of_N (elem_int e11)).
Proof.
  intros X.
  destruct (Recover1559_call H (RD_secp o H) bs chain a t p X)
    as (rest & l & pos & vb & e10 & e11 & Eb & ED & E9 & E10 & E11 & R).
  destruct (Recover1559_sound H (RD_secp o H) (Crypto.Ecdsa.pt o) (secp_addr_of o H) (secp_verify o)
              RDs_law bs chain a t p X)
    as (rest' & l' & pos' & c0 & al & e10' & e11' & q' & Eb' & ED' & E0 & Ec & E8 & _ & _ & _ & _ & Ep).
  destruct (Recover1559_elements H (RD_secp o H) bs chain a t p X)
    as (rest'' & l'' & pos'' & al'' & Eb'' & ED'' & Hlen & E8'' & FS).
  rewrite Eb in Eb', Eb''. injection Eb' as <-. injection Eb'' as <-.
  rewrite ED in ED', ED''. injection ED' as <- <-. injection ED'' as <- <-.
  rewrite E8 in E8''. injection E8'' as <-.
  destruct (RD_secp_full o Laws H H_len _ _ _ _ _ _ R) as (vB & q & HN & HV & ER & HZ & Ea & Hver).
  assert (Hpar : (vB - 27 = 0 \/ vB - 27 = 1)%Z) by lia.
  exists rest, l, pos, c0, al, vb, e10, e11, (vB - 27)%Z, q.
  split; [lia|]. split; [exact Eb|]. split; [exact ED|]. split; [exact Hlen|].
  split; [exact E0|]. split; [exact Ec|]. split; [exact E8|]. split; [exact E9|].
  split; [exact E10|]. split; [exact E11|]. split; [exact Hpar|].
  split; [replace (27 + (vB - 27))%Z with vB by lia; exact HN|]. split.
  { destruct (Secp.Proofs.v_norm_some_cases _ _ _ HN) as [(p0 & Hp0 & Eb0 & HL)|A]; [left|right; exact A].
    replace (vB - 27)%Z with p0 by lia. exact HL. }
  split; [exact FS|]. split; [exact Ep|]. split.
  { intros ->. rewrite Ep. apply eip1559_al_empty_preimage. }
  split.
  { replace (vB - 27 =? 1)%Z with (vB =? 28)%Z; [exact ER|].
    destruct HV as [E|E]; rewrite E; reflexivity. }
  split; [exact HZ|]. split; [exact Ea|exact Hver].
Qed.

Theorem raw_complete bs chain a t p : (- 2 ^ 63 <= chain < 2 ^ 63)%Z ->
  RecoverRawTransaction H (RD_secp o H) bs chain = Ok (a, t, p) ->
  (exists l pos vb e7 e8 par q,
    Decode bs = Ok (Some (Lst l), pos) /\ (9 <= length l)%nat /\
    nth_error l 6 = Some (Str vb) /\ nth_error l 7 = Some e7 /\ nth_error l 8 = Some e8 /\
    (par = 0 \/ par = 1)%Z /\
    ( (V_original_p (Z.of_N (of_be vb)) par /\ p = spec_preimage Original (norm t) 0) \/
      (~ V_original (Z.of_N (of_be vb)) /\ V_eip155_p (Z.of_N (of_be vb)) chain par /\
       p = spec_preimage Eip155 (norm t) (Z.abs_N chain)) ) /\
    map to_tree (firstn 6 l) = legacy_body (norm t) /\
    Crypto.Ecdsa.ecdsa_recover o (Secp.Model.hash_to_z (H p))
      (Z.of_N (elem_int e7)) (Z.of_N (elem_int e8)) (par =? 1)%Z = Some q /\
    q <> Crypto.Ecdsa.zero o /\ a = secp_addr_of o H q /\
    secp_verify o q (H p) (Z.of_N (elem_int e7)) (Z.of_N (elem_int e8)))
  \/
  (exists rest l pos c0 al vb e10 e11 par q,
    (0 <= chain)%Z /\
    bs = x02 :: rest /\ Decode rest = Ok (Some (Lst l), pos) /\ (12 <= length l)%nat /\
    nth_error l 0 = Some (Str c0) /\ Z.of_N (of_be c0) = chain /\
    nth_error l 8 = Some (Lst al) /\ nth_error l 9 = Some (Str vb) /\
    nth_error l 10 = Some e10 /\ nth_error l 11 = Some e11 /\
    (par = 0 \/ par = 1)%Z /\
    Secp.Proofs.v_norm (wrap64 (Z.of_N (of_be vb))) chain = Some (27 + par)%Z /\
    (Secp.Proofs.legit_V par chain (wrap64 (Z.of_N (of_be vb))) \/
     Secp.Proofs.v_alias (wrap64 (Z.of_N (of_be vb))) chain) /\
    map to_tree (firstn 9 l) = eip1559_body_al (norm t) (Z.to_N chain) (L (map to_tree al)) /\
    p = x02 :: RLP (L (eip1559_body_al (norm t) (Z.to_N chain) (L (map to_tree al)))) /\
    (al = [] -> p = spec_preimage Eip1559 (norm t) (Z.to_N chain)) /\
    Crypto.Ecdsa.ecdsa_recover o (Secp.Model.hash_to_z (H p))
      (Z.of_N (elem_int e10)) (Z.of_N (elem_int e11)) (par =? 1)%Z = Some q /\
    q <> Crypto.Ecdsa.zero o /\ a = secp_addr_of o H q /\
    secp_verify o q (H p) (Z.of_N (elem_int e10)) (Z.of_N (elem_int e11))).
Proof.
  intros Hc. unfold RecoverRawTransaction. destruct bs as [|b rest]; [discriminate|].
  destruct (199 <=? b2n b)%N.
  - intros X. left. exact (legacy_complete _ _ _ _ _ Hc X).
  - destruct (b2n b =? b2n TransactionType1559)%N; [|discriminate].
    intros X. right. exact (eip1559_complete _ _ _ _ _ X).
Qed.
End Complete.

(* the int64 reduction of V is the identity for a V element below 2^63 (at most 7 bytes, or 8 bytes
   with the top bit clear): the [wrap64] in the type-0x02 branch can then be read away *)
Lemma wrap64_id z : (- 2 ^ 63 <= z < 2 ^ 63)%Z -> wrap64 z = z.
Proof. intros Hz. apply (wrap64_small z z Hz). exists 0%Z. lia. Qed.

Lemma short_v_no_reduction vb : (length vb <= 7)%nat ->
  wrap64 (Z.of_N (of_be vb)) = Z.of_N (of_be vb).
Proof.
  intros L. apply wrap64_id. pose proof (of_be_lt vb) as B.
  assert (256 ^ N.of_nat (length vb) <= 256 ^ 7)%N by (apply N.pow_le_mono_r; lia).
  change (256 ^ 7)%N with (2 ^ 56)%N in *. lia.
Qed.
