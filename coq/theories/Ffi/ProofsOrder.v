(* Proofs for C20, part 5: the way back does not depend on the order in which Go ranges over the
   Properties maps -- at every depth.  [sperm s s']: s' is s with every property list permuted. *)
From Coq Require Import String.
From Coq Require Import List NArith ZArith Bool Arith Lia Permutation.
From Coq Require Import Init.Byte.
From FFS Require Import Base.Res Base.Bytes Gen.AbiConsts AbiType.Syntax AbiType.Model Ffi.Model Ffi.Spec Ffi.Proofs.
Import ListNotations.

(* same class, same value when Ok (error codes may differ: which member is reported first) *)
Definition requiv {A} (a b : res A) : Prop :=
  match a, b with
  | Ok x, Ok y => x = y
  | Err _, Err _ => True
  | Panic, Panic => True
  | _, _ => False
  end.
Lemma requiv_refl {A} (a : res A) : requiv a a. Proof. destruct a; cbn; auto. Qed.
Lemma requiv_sym {A} (a b : res A) : requiv a b -> requiv b a.
Proof. destruct a, b; cbn; auto. Qed.
Lemma requiv_trans {A} (a b c : res A) : requiv a b -> requiv b c -> requiv a c.
Proof. destruct a, b, c; cbn; try tauto; congruence. Qed.
Lemma requiv_bind {A B} (a b : res A) (f g : A -> res B) :
  requiv a b -> (forall x, a = Ok x -> requiv (f x) (g x)) -> requiv (bind a f) (bind b g).
Proof. destruct a, b; cbn; try tauto. intros <- H. apply H. reflexivity. Qed.

(* ---------- storing into a free slot ---------- *)
Fixpoint place (l : list (option fparam)) (i : nat) (v : fparam) : res (list (option fparam)) :=
  match l, i with
  | [], _ => Panic
  | None :: r, O => Ok (Some v :: r)
  | Some _ :: _, O => Err EInvalidDetails
  | x :: r, S i' => do r' <- place r i' v; Ok (x :: r')
  end.

Lemma place_eq l : forall i v,
  (do cur <- slot_get l i;
   match cur with Some _ => Err EInvalidDetails | None => slot_set l i v end) = place l i v.
Proof.
  induction l as [|x l IH]; intros [|i] v; try reflexivity.
  - destruct x; reflexivity.
  - specialize (IH i v). cbn [place]. rewrite <- IH. unfold slot_get. cbn [nth_error].
    destruct (nth_error l i) as [[q|]|]; cbn; reflexivity.
Qed.

Lemma place_length l : forall i v l', place l i v = Ok l' -> length l' = length l.
Proof.
  induction l as [|x l IH]; intros [|i] v l' H; cbn in H; try discriminate.
  - destruct x; try discriminate. injection H as <-. reflexivity.
  - destruct (place l i v) eqn:E; cbn in H; try discriminate. injection H as <-. cbn. f_equal. eauto.
Qed.

Lemma place_no_panic l : forall i v, (i < length l)%nat -> place l i v <> Panic.
Proof.
  induction l as [|x l IH]; intros [|i] v H; cbn in *; try lia.
  - destruct x; discriminate.
  - specialize (IH i v ltac:(lia)). destruct (place l i v); cbn; congruence.
Qed.

Lemma place_comm l : forall i j v w, (i < length l)%nat -> (j < length l)%nat ->
  requiv (do l1 <- place l i v; place l1 j w) (do l1 <- place l j w; place l1 i v).
Proof.
  induction l as [|x l IH]; intros i j v w Hi Hj; cbn in Hi, Hj; [lia|].
  destruct i as [|i], j as [|j].
  - destruct x; cbn; auto.
  - cbn [place]. destruct x as [q|].
    + cbn [bind]. pose proof (place_no_panic l j w ltac:(lia)) as NP.
      destruct (place l j w); cbn; auto.
    + cbn [bind place]. pose proof (place_no_panic l j w ltac:(lia)) as NP.
      destruct (place l j w); cbn; auto. congruence.
  - cbn [place]. destruct x as [q|].
    + cbn [bind]. pose proof (place_no_panic l i v ltac:(lia)) as NP.
      destruct (place l i v); cbn; auto.
    + cbn [bind place]. pose proof (place_no_panic l i v ltac:(lia)) as NP.
      destruct (place l i v); cbn; auto. congruence.
  - cbn [place]. specialize (IH i j v w ltac:(lia) ltac:(lia)).
    destruct (place l i v) as [l1| |] eqn:E1, (place l j w) as [l2| |] eqn:E2; cbn [bind place] in *.
    + destruct (place l1 j w), (place l2 i v); cbn in *; try tauto. congruence.
    + destruct (place l1 j w); cbn in *; tauto.
    + destruct (place l1 j w); cbn in *; tauto.
    + destruct (place l2 i v); cbn in *; tauto.
    + auto.
    + auto.
    + destruct (place l2 i v); cbn in *; tauto.
    + auto.
    + auto.
Qed.

(* ---------- the loop, one entry at a time ---------- *)
Section order.
  Variable pf : bytes -> option schema -> res fparam.

  Definition entry_ok (kp : bytes * option schema) : Prop := forall n, step pf (fst kp) (snd kp) n <> Panic.

  Lemma loop_step k ps r slots :
    build_loop pf ((k, ps) :: r) slots =
    do zp <- step pf k ps (length slots);
    do s' <- place slots (fst zp) (snd zp);
    build_loop pf r s'.
  Proof.
    rewrite build_loop_unfold. destruct (step pf k ps (length slots)) as [[z p]| |]; cbn [bind fst snd]; try reflexivity.
    rewrite <- place_eq. destruct (slot_get slots z) as [[q|]| |]; cbn [bind]; try reflexivity.
  Qed.

  Lemma loop_swap a b r slots : entry_ok a -> entry_ok b ->
    requiv (build_loop pf (a :: b :: r) slots) (build_loop pf (b :: a :: r) slots).
  Proof.
    destruct a as [ka pa], b as [kb pb]. intros Oa Ob.
    rewrite !loop_step. set (n := length slots).
    pose proof (Oa n) as NPa. pose proof (Ob n) as NPb. cbn [fst snd] in NPa, NPb.
    destruct (step pf ka pa n) as [[za xa]| |] eqn:Sa; [|clear NPa|congruence];
    destruct (step pf kb pb n) as [[zb xb]| |] eqn:Sb; try congruence; cbn [bind fst snd].
    - (* both entries yield a position *)
      pose proof (step_range _ _ _ _ _ _ Sa) as Ra. pose proof (step_range _ _ _ _ _ _ Sb) as Rb.
      pose proof (place_comm slots za zb xa xb Ra Rb) as C.
      destruct (place slots za xa) as [s1| |] eqn:P1; cbn [bind] in *.
      + rewrite loop_step, (place_length _ _ _ _ P1). fold n. rewrite Sb. cbn [bind fst snd].
        destruct (place slots zb xb) as [s2| |] eqn:P2; cbn [bind] in *.
        * rewrite loop_step, (place_length _ _ _ _ P2). fold n. rewrite Sa. cbn [bind fst snd].
          destruct (place s1 zb xb), (place s2 za xa); cbn in *; try tauto. subst. apply requiv_refl.
        * destruct (place s1 zb xb); cbn in *; tauto.
        * destruct (place s1 zb xb); cbn in *; tauto.
      + destruct (place slots zb xb) as [s2| |] eqn:P2; cbn [bind] in *; auto.
        rewrite loop_step, (place_length _ _ _ _ P2). fold n. rewrite Sa. cbn [bind fst snd].
        destruct (place s2 za xa); cbn in *; tauto.
      + exfalso. eapply place_no_panic; eauto.
    - (* the second entry is an error *)
      pose proof (step_range _ _ _ _ _ _ Sa) as Ra.
      pose proof (place_no_panic slots za xa Ra) as NP.
      destruct (place slots za xa) as [s1| |] eqn:P1; cbn [bind]; auto; [|congruence].
      rewrite loop_step, (place_length _ _ _ _ P1). fold n. rewrite Sb. cbn. auto.
    - (* the first entry is an error *)
      pose proof (step_range _ _ _ _ _ _ Sb) as Rb.
      pose proof (place_no_panic slots zb xb Rb) as NP.
      destruct (place slots zb xb) as [s1| |] eqn:P1; cbn [bind]; auto; [|congruence].
      rewrite loop_step, (place_length _ _ _ _ P1). fold n. rewrite Sa. cbn. auto.
    - cbn. auto.
  Qed.

  Lemma loop_cons a r r' slots :
    (forall s, requiv (build_loop pf r s) (build_loop pf r' s)) ->
    requiv (build_loop pf (a :: r) slots) (build_loop pf (a :: r') slots).
  Proof.
    destruct a as [k ps]. intros H. rewrite !loop_step.
    apply requiv_bind; [apply requiv_refl|]. intros zp _.
    apply requiv_bind; [apply requiv_refl|]. intros s' _. apply H.
  Qed.

  Lemma loop_perm l l' : Permutation l l' -> Forall entry_ok l ->
    forall slots, requiv (build_loop pf l slots) (build_loop pf l' slots).
  Proof.
    induction 1 as [|a l l' P IH|a b l|l l' l'' P1 IH1 P2 IH2]; intros F slots.
    - apply requiv_refl.
    - inversion F; subst. apply loop_cons. intros s. apply IH. assumption.
    - inversion F as [|? ? Fb F']; inversion F' as [|? ? Fa F'']; subst.
      apply requiv_sym. apply loop_swap; assumption.
    - eapply requiv_trans; [apply IH1; exact F|]. apply IH2.
      eapply Permutation_Forall; eauto.
  Qed.

  (* buildABIParameterArrayForObject: any order of the map entries gives the same outcome *)
  Lemma build_perm l l' : Permutation l l' -> Forall entry_ok l ->
    requiv (buildABIParameterArrayForObject pf l) (buildABIParameterArrayForObject pf l').
  Proof.
    intros P F. unfold buildABIParameterArrayForObject. rewrite <- (Permutation_length P).
    apply requiv_bind; [apply loop_perm; assumption|]. intros s _. apply requiv_refl.
  Qed.
End order.

Lemma PF_entry_ok kp : entry_ok PF kp.
Proof.
  destruct kp as [k ps]. intros n. apply step_no_panic; [exact PF_ok_index|].
  destruct ps; cbn; [apply processSchema_total|discriminate].
Qed.

(* ---------- entries that differ by equivalent members ---------- *)
Lemma loop_pointwise (pf : bytes -> option schema -> res fparam) l l' :
  Forall2 (fun a b => forall n, requiv (step pf (fst a) (snd a) n) (step pf (fst b) (snd b) n)) l l' ->
  forall slots, requiv (build_loop pf l slots) (build_loop pf l' slots).
Proof.
  induction 1 as [|[k ps] [k' ps'] l l' E _ IH]; intros slots; [apply requiv_refl|].
  rewrite !loop_step. cbn [fst snd] in E.
  apply requiv_bind; [apply E|]. intros zp _.
  apply requiv_bind; [apply requiv_refl|]. intros s' _. apply IH.
Qed.

(* ---------- schemas up to the order of their property maps ---------- *)
Definition orel (R : schema -> schema -> Prop) (a b : option schema) : Prop :=
  match a, b with Some x, Some y => R x y | None, None => True | _, _ => False end.

Fixpoint sperm (s s' : schema) {struct s} : Prop :=
  match s, s' with
  | Schema t o d props items, Schema t' o' d' props' items' =>
      t = t' /\ o = o' /\ d = d' /\
      (exists mid, Permutation mid props' /\
         (fix rel (l m : list (bytes * option schema)) {struct l} : Prop :=
            match l, m with
            | [], [] => True
            | (k, v) :: l1, (k', v') :: m1 =>
                k = k' /\ match v, v' with Some x, Some y => sperm x y | None, None => True | _, _ => False end
                /\ rel l1 m1
            | _, _ => False
            end) props mid) /\
      match items, items' with Some x, Some y => sperm x y | None, None => True | _, _ => False end
  end.

Fixpoint props_rel (l m : list (bytes * option schema)) : Prop :=
  match l, m with
  | [], [] => True
  | (k, v) :: l1, (k', v') :: m1 => k = k' /\ orel sperm v v' /\ props_rel l1 m1
  | _, _ => False
  end.

Lemma sperm_unfold t o d props items t' o' d' props' items' :
  sperm (Schema t o d props items) (Schema t' o' d' props' items') <->
  t = t' /\ o = o' /\ d = d' /\ (exists mid, Permutation mid props' /\ props_rel props mid) /\
  orel sperm items items'.
Proof.
  cbn [sperm].
  assert (E : forall l m,
             (fix rel (l m : list (bytes * option schema)) {struct l} : Prop :=
                match l, m with
                | [], [] => True
                | (k, v) :: l1, (k', v') :: m1 =>
                    k = k' /\ match v, v' with Some x, Some y => sperm x y | None, None => True | _, _ => False end
                    /\ rel l1 m1
                | _, _ => False
                end) l m <-> props_rel l m).
  { induction l as [|[k v] l IH]; intros [|[k' v'] m]; cbn; try tauto.
    rewrite IH. unfold orel. tauto. }
  split.
  - intros (A & B & C & (mid & P & R) & I). repeat split; auto. exists mid. split; [exact P|]. apply E. exact R.
  - intros (A & B & C & (mid & P & R) & I). repeat split; auto. exists mid. split; [exact P|]. apply E. exact R.
Qed.

Lemma sperm_refl s : sperm s s.
Proof.
  induction s as [t o d props items HP HI] using schema_ind'. apply sperm_unfold.
  repeat split; auto.
  - exists props. split; [apply Permutation_refl|].
    induction HP as [|[k [x|]] l H _ IH]; cbn; auto.
  - destruct items; cbn in *; auto.
Qed.

Definition PFx := PF.

Theorem sperm_process_aux (s : schema) :
  forall s', sperm s s' ->
    (forall nm, requiv (processSchema nm s) (processSchema nm s')) /\ requiv (down s) (down s').
Proof.
  induction s as [t o d props items HP HI] using schema_ind'.
  intros [t' o' d' props' items'] H. apply sperm_unfold in H.
  destruct H as (<- & <- & <- & (mid & Pm & Rm) & Ri).
  (* the member lists give the same loop *)
  assert (B : requiv (buildABIParameterArrayForObject PF props) (buildABIParameterArrayForObject PF props')).
  { eapply requiv_trans with (b := buildABIParameterArrayForObject PF mid).
    - (* members replaced by permuted-equivalent members: every step is the same *)
      assert (L : length props = length mid).
      { clear -Rm. revert mid Rm. induction props as [|[k v] l IH]; intros [|[k' v'] m] R; cbn in *; try tauto.
        f_equal. apply IH. tauto. }
      unfold buildABIParameterArrayForObject. rewrite <- L.
      apply requiv_bind; [|intros; apply requiv_refl].
      apply loop_pointwise. clear -HP Rm. revert mid Rm.
      induction HP as [|[k v] l Hv _ IH]; intros [|[k' v'] m] R; cbn in R; try tauto; constructor.
      + destruct R as (<- & Rv & _). intros n. cbn [fst snd].
        destruct v as [x|], v' as [y|]; cbn in Rv; try tauto; [|apply requiv_refl].
        cbn in Hv. destruct (Hv y Rv) as [Hp _]. specialize (Hp k).
        unfold step. cbn [PF].
        assert (Ei : prop_index (Some x) = prop_index (Some y)).
        { destruct x as [? ? dx ? ?], y as [? ? dy ? ?]. apply sperm_unfold in Rv.
          destruct Rv as (_ & _ & <- & _). reflexivity. }
        rewrite Ei. apply requiv_bind; [exact Hp|]. intros; apply requiv_refl.
      + apply IH. tauto.
    - apply build_perm; [exact Pm|]. apply Forall_forall. intros kp _. apply PF_entry_ok. }
  split.
  - intros nm. rewrite !processSchema_unfold. destruct d as [d|]; [|cbn; auto].
    apply requiv_bind; [|intros; apply requiv_refl].
    unfold components_of. destruct (bytes_eqb t jsonObjectType); [exact B|].
    destruct (bytes_eqb t jsonArrayType); [|apply requiv_refl].
    destruct items as [x|], items' as [y|]; cbn in Ri; try tauto; [|cbn; auto].
    cbn in HI. apply (HI y Ri).
  - rewrite !down_unfold. destruct (bytes_eqb t jsonArrayType); [|exact B].
    destruct items as [x|], items' as [y|]; cbn in Ri; try tauto; [|cbn; auto].
    cbn in HI. apply (HI y Ri).
Qed.
