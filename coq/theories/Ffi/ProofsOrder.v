(* Proofs for C20, part 5: the way back does not depend on the order in which Go ranges over the
   Properties maps -- at every depth.  [sperm s s']: s' is s with every property list permuted. *)
From Coq Require Import String.
From Coq Require Import List NArith ZArith Bool Arith Lia Permutation.
From Coq Require Import Init.Byte.
From FFS Require Import Base.Res Base.Bytes Gen.AbiConsts AbiType.Syntax AbiType.Model Ffi.Model Ffi.Spec Ffi.Proofs.
Import ListNotations.

Lemma requiv_refl {A} (a : res A) : requiv a a. Proof. destruct a; cbn; auto. Qed.
Lemma requiv_sym {A} (a b : res A) : requiv a b -> requiv b a.
Proof. destruct a, b; cbn; auto. Qed.
Lemma requiv_trans {A} (a b c : res A) : requiv a b -> requiv b c -> requiv a c.
Proof. destruct a, b, c; cbn; try tauto; congruence. Qed.
Lemma requiv_bind {A B} (a b : res A) (f g : A -> res B) :
  requiv a b -> (forall x, a = Ok x -> requiv (f x) (g x)) -> requiv (bind a f) (bind b g).
Proof. destruct a, b; cbn; try tauto. intros <- H. apply H. reflexivity. Qed.

(* ---------- storing into a free slot ---------- *)
Fixpoint place (l : list (option fparam)) (i : nat) (v : fparam) : res (list (option fparam)) :=
  match l, i with
  | [], _ => Panic
  | None :: r, O => Ok (Some v :: r)
  | Some _ :: _, O => Err EInvalidDetails
  | x :: r, S i' => do r' <- place r i' v; Ok (x :: r')
  end.

Lemma place_eq l : forall i v,
  (do cur <- slot_get l i;
   match cur with Some _ => Err EInvalidDetails | None => slot_set l i v end) = place l i v.
Proof.
  induction l as [|x l IH]; intros i v.
  - destruct i; reflexivity.
  - destruct i as [|i].
    + destruct x; reflexivity.
    + specialize (IH i v). destruct x as [q0|]; cbn [place]; rewrite <- IH; unfold slot_get; cbn [nth_error];
        destruct (nth_error l i) as [[q|]|]; cbn; reflexivity.
Qed.

Lemma place_cons_S x l i v : place (x :: l) (S i) v = do r' <- place l i v; Ok (x :: r').
Proof. destruct x; reflexivity. Qed.

Lemma place_length l : forall i v l', place l i v = Ok l' -> length l' = length l.
Proof.
  induction l as [|x l IH]; intros i v l' H.
  - destruct i; discriminate.
  - destruct i as [|i].
    + destruct x; cbn in H; try discriminate. injection H as <-. reflexivity.
    + rewrite place_cons_S in H. destruct (place l i v) eqn:E; cbn in H; try discriminate.
      injection H as <-. cbn. f_equal. eauto.
Qed.

Lemma place_no_panic l : forall i v, (i < length l)%nat -> place l i v <> Panic.
Proof.
  induction l as [|x l IH]; intros i v H; cbn in H; [lia|].
  destruct i as [|i].
  - destruct x; discriminate.
  - rewrite place_cons_S. specialize (IH i v ltac:(lia)). destruct (place l i v); cbn; congruence.
Qed.

Lemma place_comm l : forall i j v w, (i < length l)%nat -> (j < length l)%nat ->
  requiv (do l1 <- place l i v; place l1 j w) (do l1 <- place l j w; place l1 i v).
Proof.
  induction l as [|x l IH]; intros i j v w Hi Hj; cbn in Hi, Hj; [lia|].
  destruct i as [|i], j as [|j].
  - destruct x; cbn; auto.
  - rewrite (place_cons_S x l j w).
    pose proof (place_no_panic l j w ltac:(lia)) as NP.
    destruct x as [q|]; cbn [place bind].
    + destruct (place l j w); cbn; auto.
    + destruct (place l j w); cbn; auto; congruence.
  - rewrite (place_cons_S x l i v).
    pose proof (place_no_panic l i v ltac:(lia)) as NP.
    destruct x as [q|]; cbn [place bind].
    + destruct (place l i v); cbn; auto.
    + destruct (place l i v); cbn; auto; congruence.
  - rewrite (place_cons_S x l i v), (place_cons_S x l j w).
    specialize (IH i j v w ltac:(lia) ltac:(lia)).
    destruct (place l i v) as [l1| |] eqn:E1, (place l j w) as [l2| |] eqn:E2; cbn [bind] in *;
      rewrite ?place_cons_S;
      repeat match goal with
             | |- context [place ?a ?b ?c] => destruct (place a b c); cbn [bind] in *
             end; cbn in *; try tauto; congruence.
Qed.

(* ---------- the loop, one entry at a time ---------- *)
Section order.
  Variable pf : bytes -> option schema -> res fparam.

  Definition entry_ok (kp : bytes * option schema) : Prop := forall n, step pf (fst kp) (snd kp) n <> Panic.

  Lemma loop_step k ps r slots :
    build_loop pf ((k, ps) :: r) slots =
    do zp <- step pf k ps (length slots);
    do s' <- place slots (fst zp) (snd zp);
    build_loop pf r s'.
  Proof.
    rewrite build_loop_unfold. destruct (step pf k ps (length slots)) as [[z p]| |]; cbn [bind fst snd]; try reflexivity.
    rewrite <- place_eq. destruct (slot_get slots z) as [[q|]| |]; cbn [bind]; try reflexivity.
  Qed.

  Lemma loop_swap a b r slots : entry_ok a -> entry_ok b ->
    requiv (build_loop pf (a :: b :: r) slots) (build_loop pf (b :: a :: r) slots).
  Proof.
    destruct a as [ka pa], b as [kb pb]. intros Oa Ob.
    rewrite !loop_step. set (n := length slots).
    pose proof (Oa n) as NPa. pose proof (Ob n) as NPb. cbn [fst snd] in NPa, NPb.
    destruct (step pf ka pa n) as [[za xa]| ea |] eqn:Sa; [| |congruence].
    - destruct (step pf kb pb n) as [[zb xb]| eb |] eqn:Sb; [| |congruence]; cbn [bind fst snd].
      + pose proof (step_range _ _ _ _ _ _ Sa) as Ra. pose proof (step_range _ _ _ _ _ _ Sb) as Rb.
        pose proof (place_comm slots za zb xa xb Ra Rb) as C.
        pose proof (place_no_panic slots za xa Ra) as NP1.
        pose proof (place_no_panic slots zb xb Rb) as NP2.
        destruct (place slots za xa) as [s1| |] eqn:P1; [| |congruence];
          destruct (place slots zb xb) as [s2| |] eqn:P2; try congruence; cbn [bind] in *.
        * rewrite !loop_step, (place_length _ _ _ _ P1), (place_length _ _ _ _ P2). fold n.
          rewrite Sa, Sb. cbn [bind fst snd].
          destruct (place s1 zb xb), (place s2 za xa); cbn in *; try tauto. subst. apply requiv_refl.
        * rewrite loop_step, (place_length _ _ _ _ P1). fold n. rewrite Sb. cbn [bind fst snd].
          destruct (place s1 zb xb); cbn in *; tauto.
        * rewrite loop_step, (place_length _ _ _ _ P2). fold n. rewrite Sa. cbn [bind fst snd].
          destruct (place s2 za xa); cbn in *; tauto.
        * exact I.
      + pose proof (step_range _ _ _ _ _ _ Sa) as Ra.
        pose proof (place_no_panic slots za xa Ra) as NP.
        destruct (place slots za xa) as [s1| |] eqn:P1; cbn [bind]; [|exact I|congruence].
        rewrite loop_step, (place_length _ _ _ _ P1). fold n. rewrite Sb. exact I.
    - destruct (step pf kb pb n) as [[zb xb]| eb |] eqn:Sb; [| |congruence]; cbn [bind fst snd].
      + pose proof (step_range _ _ _ _ _ _ Sb) as Rb.
        pose proof (place_no_panic slots zb xb Rb) as NP.
        destruct (place slots zb xb) as [s1| |] eqn:P1; cbn [bind]; [|exact I|congruence].
        rewrite loop_step, (place_length _ _ _ _ P1). fold n. rewrite Sa. exact I.
      + exact I.
  Qed.

  Lemma loop_cons a r r' slots :
    (forall s, requiv (build_loop pf r s) (build_loop pf r' s)) ->
    requiv (build_loop pf (a :: r) slots) (build_loop pf (a :: r') slots).
  Proof.
    destruct a as [k ps]. intros H. rewrite !loop_step.
    apply requiv_bind; [apply requiv_refl|]. intros zp _.
    apply requiv_bind; [apply requiv_refl|]. intros s' _. apply H.
  Qed.

  Lemma loop_perm l l' : Permutation l l' -> Forall entry_ok l ->
    forall slots, requiv (build_loop pf l slots) (build_loop pf l' slots).
  Proof.
    induction 1 as [|a l l' P IH|a b l|l l' l'' P1 IH1 P2 IH2]; intros F slots.
    - apply requiv_refl.
    - inversion F; subst. apply loop_cons. intros s. apply IH. assumption.
    - inversion F as [|? ? Fb F']; inversion F' as [|? ? Fa F'']; subst.
      apply requiv_sym. apply loop_swap; assumption.
    - eapply requiv_trans; [apply IH1; exact F|]. apply IH2.
      eapply Permutation_Forall; eauto.
  Qed.

  (* buildABIParameterArrayForObject: any order of the map entries gives the same outcome *)
  Lemma build_perm l l' : Permutation l l' -> Forall entry_ok l ->
    requiv (buildABIParameterArrayForObject pf l) (buildABIParameterArrayForObject pf l').
  Proof.
    intros P F. unfold buildABIParameterArrayForObject. rewrite <- (Permutation_length P).
    apply requiv_bind; [apply loop_perm; assumption|]. intros s _. apply requiv_refl.
  Qed.
End order.

Lemma PF_entry_ok kp : entry_ok PF kp.
Proof.
  destruct kp as [k ps]. intros n. apply step_no_panic; [exact PF_ok_index|].
  destruct ps; cbn; [apply processSchema_total|discriminate].
Qed.

(* ---------- entries that differ by equivalent members ---------- *)
Lemma loop_pointwise (pf : bytes -> option schema -> res fparam) l l' :
  Forall2 (fun a b => forall n, requiv (step pf (fst a) (snd a) n) (step pf (fst b) (snd b) n)) l l' ->
  forall slots, requiv (build_loop pf l slots) (build_loop pf l' slots).
Proof.
  induction 1 as [|[k ps] [k' ps'] l l' E _ IH]; intros slots; [apply requiv_refl|].
  rewrite !loop_step. cbn [fst snd] in E.
  apply requiv_bind; [apply E|]. intros zp _.
  apply requiv_bind; [apply requiv_refl|]. intros s' _. apply IH.
Qed.

(* ---------- schemas up to the order of their property maps ---------- *)


Fixpoint props_rel (l m : list (bytes * option schema)) : Prop :=
  match l, m with
  | [], [] => True
  | (k, v) :: l1, (k', v') :: m1 => k = k' /\ orel sperm v v' /\ props_rel l1 m1
  | _, _ => False
  end.

Lemma sperm_unfold t o d props items t' o' d' props' items' :
  sperm (Schema t o d props items) (Schema t' o' d' props' items') <->
  t = t' /\ o = o' /\ d = d' /\ (exists mid, Permutation mid props' /\ props_rel props mid) /\
  orel sperm items items'.
Proof.
  cbn [sperm].
  assert (E : forall l m,
             (fix rel (l m : list (bytes * option schema)) {struct l} : Prop :=
                match l, m with
                | [], [] => True
                | (k, v) :: l1, (k', v') :: m1 =>
                    k = k' /\ match v, v' with Some x, Some y => sperm x y | None, None => True | _, _ => False end
                    /\ rel l1 m1
                | _, _ => False
                end) l m <-> props_rel l m).
  { induction l as [|[k v] l IH]; intros [|[k' v'] m]; cbn; try tauto. }
  split.
  - intros (A & B & C & (mid & P & R) & I). repeat split; auto. exists mid. split; [exact P|]. apply E. exact R.
  - intros (A & B & C & (mid & P & R) & I). repeat split; auto. exists mid. split; [exact P|]. apply E. exact R.
Qed.


(* the loop over the dimensions reads only "type" / "oneOf" along the items chain *)
Lemma itemsValid_sperm : forall tc (x y : option schema),
  orel sperm x y -> itemsValid x tc = itemsValid y tc.
Proof.
  induction tc as [|c IH n|c IH|]; intros x y R; try reflexivity; cbn [itemsValid];
    (destruct x as [a|], y as [b|]; cbn [orel] in R; try tauto; try reflexivity;
     destruct a as [t o d p i], b as [t' o' d' p' i']; apply sperm_unfold in R;
     destruct R as (<- & <- & <- & _ & Ri);
     change (inputTypeValidForTypeComponent (Schema t o d p' i') c)
       with (inputTypeValidForTypeComponent (Schema t o d p i) c);
     destruct (inputTypeValidForTypeComponent (Schema t o d p i) c); cbn [bind]; try reflexivity;
     cbn [s_items]; apply IH; exact Ri).
Qed.

Lemma sperm_refl s : sperm s s.
Proof.
  induction s as [t o d props items HP HI] using schema_ind'. apply sperm_unfold.
  repeat split; auto.
  - exists props. split; [apply Permutation_refl|].
    induction HP as [|[k [x|]] l H _ IH]; cbn; auto.
  - destruct items; cbn in *; auto.
Qed.

Definition PFx := PF.

Theorem sperm_process_aux (s : schema) :
  forall s', sperm s s' ->
    (forall nm, requiv (processSchema nm s) (processSchema nm s')) /\ requiv (down s) (down s').
Proof.
  induction s as [t o d props items HP HI] using schema_ind'.
  intros [t' o' d' props' items'] H. apply sperm_unfold in H.
  destruct H as (<- & <- & <- & (mid & Pm & Rm) & Ri).
  (* the member lists give the same loop *)
  assert (B : requiv (buildABIParameterArrayForObject PF props) (buildABIParameterArrayForObject PF props')).
  { eapply requiv_trans with (b := buildABIParameterArrayForObject PF mid).
    - (* members replaced by permuted-equivalent members: every step is the same *)
      assert (L : length props = length mid).
      { clear -Rm. revert mid Rm. induction props as [|[k v] l IH]; intros [|[k' v'] m] R; cbn in *; try tauto.
        f_equal. apply IH. tauto. }
      unfold buildABIParameterArrayForObject. rewrite <- L.
      apply requiv_bind; [|intros; apply requiv_refl].
      apply loop_pointwise. clear -HP Rm. revert mid Rm.
      induction HP as [|[k v] l Hv _ IH]; intros [|[k' v'] m] R; cbn in R; try tauto; constructor.
      + destruct R as (<- & Rv & _). intros n. cbn [fst snd].
        destruct v as [x|], v' as [y|]; cbn in Rv; try tauto; try apply requiv_refl.
        cbn in Hv. destruct (Hv y Rv) as [Hp _]. specialize (Hp k).
        unfold step. cbn [PF].
        assert (Ei : prop_index (Some x) = prop_index (Some y)).
        { destruct x as [? ? dx ? ?], y as [? ? dy ? ?]. apply sperm_unfold in Rv.
          destruct Rv as (_ & _ & <- & _). reflexivity. }
        rewrite Ei. apply requiv_bind; [exact Hp|]. intros; apply requiv_refl.
      + apply IH. tauto.
    - apply build_perm; [exact Pm|]. apply Forall_forall. intros kp _. apply PF_entry_ok. }
  split.
  - intros nm. rewrite !processSchema_unfold. destruct d as [d|]; [|cbn; auto].
    apply requiv_bind.
    2:{ intros q _. unfold finish.
        destruct (parseABIParameterComponents (erase (FParam nm (d_type d) (d_internal d) (d_indexed d) q))) as [tc| |];
          cbn [bind]; try (cbn; auto; fail).
        change (inputTypeValidForTypeComponent (Schema t o (Some d) props' items') tc)
          with (inputTypeValidForTypeComponent (Schema t o (Some d) props items) tc).
        cbn [s_items]. rewrite (itemsValid_sperm tc items items' Ri). apply requiv_refl. }
    unfold components_of. destruct (bytes_eqb t jsonObjectType); [exact B|].
    destruct (bytes_eqb t jsonArrayType); [|apply requiv_refl].
    destruct items as [x|], items' as [y|]; cbn in Ri; try tauto; try (cbn; auto; fail).
    cbn in HI. destruct (HI y Ri) as [_ Hd]. exact Hd.
  - rewrite !down_unfold. destruct (bytes_eqb t jsonArrayType); [|exact B].
    destruct items as [x|], items' as [y|]; cbn in Ri; try tauto; try (cbn; auto; fail).
    cbn in HI. destruct (HI y Ri) as [_ Hd]. exact Hd.
Qed.

Theorem map_order_process s s' nm : sperm s s' -> requiv (processSchema nm s) (processSchema nm s').
Proof. intros H. apply (sperm_process_aux s s' H). Qed.

Lemma sperm_type_oneof s s' : sperm s s' -> s_type s = s_type s' /\ s_oneof s = s_oneof s'.
Proof.
  destruct s as [t o d p i], s' as [t' o' d' p' i']. intros H. apply sperm_unfold in H.
  destruct H as (A & B & _). cbn. split; assumption.
Qed.

Theorem map_order_convert name verdict s s' :
  sperm s s' ->
  requiv (convertFFIParam (mkPin name verdict (Some (Some s))))
         (convertFFIParam (mkPin name verdict (Some (Some s')))).
Proof.
  intros H. unfold convertFFIParam. cbn [pi_verdict pi_unm pi_name].
  destruct verdict; cbn [negb]; [|cbn; auto]. cbn [processField].
  apply requiv_bind; [apply map_order_process; exact H|]. intros ap _.
  apply requiv_bind; [apply requiv_refl|]. intros tc _.
  unfold inputTypeValidForTypeComponent, inputTypeString.
  destruct (sperm_type_oneof _ _ H) as [-> ->]. apply requiv_refl.
Qed.

(* ---------- the round trip for any order of the property maps ---------- *)
From FFS Require Import Ffi.ProofsRound.


Lemma convert_params_requiv pins : forall pins0,
  Forall2 (fun p p0 => requiv (convertFFIParam p) (convertFFIParam p0)) pins pins0 ->
  requiv (convertFFIParamsToABIParameters pins) (convertFFIParamsToABIParameters pins0).
Proof.
  induction pins as [|p pins IH]; intros pins0 H; inversion H as [|? p0 ? ps0 E F]; subst; [apply requiv_refl|].
  cbn [convertFFIParamsToABIParameters].
  apply requiv_bind; [exact E|]. intros x Ex.
  assert (Ex0 : convertFFIParam p0 = Ok x) by (rewrite Ex in E; destruct (convertFFIParam p0); cbn in E; try tauto; congruence).
  apply requiv_bind; [apply IH; exact F|]. intros; apply requiv_refl.
Qed.

Lemma roundtrip_params_upto l xs pins :
  paramsToFFI l = Ok xs -> Forall wf_names l -> Forall2 faithful_upto pins xs ->
  convertFFIParamsToABIParameters pins = Ok (map norm l).
Proof.
  intros HX HW HF.
  set (pins0 := map (fun ns : bytes * schema => mkPin (fst ns) true (Some (Some (snd ns)))) xs).
  assert (F0 : Forall2 faithful pins0 xs).
  { unfold pins0. clear. induction xs as [|ns xs IH]; cbn; constructor; [|exact IH].
    unfold faithful. cbn. auto. }
  pose proof (roundtrip_params l xs pins0 HX HW F0) as R0.
  assert (Q : Forall2 (fun p p0 => requiv (convertFFIParam p) (convertFFIParam p0)) pins pins0).
  { unfold pins0. clear -HF. induction HF as [|pn ns pins xs Hf _ IH]; cbn; constructor; [|exact IH].
    destruct Hf as (Hn & Hv & s' & Hu & Hs). destruct pn as [n v u]. cbn in Hn, Hv, Hu. subst.
    apply requiv_sym. apply map_order_convert. exact Hs. }
  pose proof (convert_params_requiv pins pins0 Q) as C. rewrite R0 in C.
  destruct (convertFFIParamsToABIParameters pins); cbn in C; try tauto. congruence.
Qed.

Theorem roundtrip_any_order e :
  (valid_params (e_inputs e) -> valid_params (e_outputs e) ->
   exists m, convertABIFunctionToFFIMethod e = Ok m /\
     forall pins rets, Forall2 faithful_upto pins (m_params m) -> Forall2 faithful_upto rets (m_returns m) ->
       ConvertFFIMethodToABI (m_name m) pins rets =
       Ok (mkEntry EFunction (e_name e) (map norm (e_inputs e)) (map norm (e_outputs e)))) /\
  (valid_params (e_inputs e) ->
   exists m, convertABIEventToFFIEvent e = Ok m /\
     forall pins, Forall2 faithful_upto pins (m_params m) ->
       ConvertFFIEventDefinitionToABI (m_name m) pins = Ok (mkEntry EEvent (e_name e) (map norm (e_inputs e)) [])) /\
  (valid_params (e_inputs e) ->
   exists m, convertABIErrorToFFIError e = Ok m /\
     forall pins, Forall2 faithful_upto pins (m_params m) ->
       ConvertFFIErrorDefinitionToABI (m_name m) pins = Ok (mkEntry EError (e_name e) (map norm (e_inputs e)) [])).
Proof.
  split; [|split].
  - intros [PI WI] [PO WO].
    destruct (paramsToFFI_ok _ PI WI) as [xs Ex]. destruct (paramsToFFI_ok _ PO WO) as [ys Ey].
    exists (mkMethod (e_name e) xs ys). unfold convertABIFunctionToFFIMethod. rewrite Ex, Ey. cbn [bind].
    split; [reflexivity|]. cbn [m_name m_params m_returns]. intros pins rets Fp Fr.
    unfold ConvertFFIMethodToABI.
    rewrite (roundtrip_params_upto _ _ _ Ex WI Fp), (roundtrip_params_upto _ _ _ Ey WO Fr). reflexivity.
  - intros [PI WI]. destruct (paramsToFFI_ok _ PI WI) as [xs Ex].
    exists (mkMethod (e_name e) xs []). unfold convertABIEventToFFIEvent. rewrite Ex. cbn [bind].
    split; [reflexivity|]. cbn [m_name m_params]. intros pins Fp.
    unfold ConvertFFIEventDefinitionToABI. rewrite (roundtrip_params_upto _ _ _ Ex WI Fp). reflexivity.
  - intros [PI WI]. destruct (paramsToFFI_ok _ PI WI) as [xs Ex].
    exists (mkMethod (e_name e) xs []). unfold convertABIErrorToFFIError. rewrite Ex. cbn [bind].
    split; [reflexivity|]. cbn [m_name m_params]. intros pins Fp.
    unfold ConvertFFIErrorDefinitionToABI. rewrite (roundtrip_params_upto _ _ _ Ex WI Fp). reflexivity.
Qed.
