(* Executable model of pkg/ffi2abi (ffi.go, ffi_param_validator.go) as of the fix commits
   5b408a5 (array schema without items), edb60a6 (member index missing / out of range / repeated),
   ab822fe (type-mismatch error formatting), 3716514 (processField error no longer dropped),
   a8e03d8 (all array levels), ee2952f (nested components in the signature helper), 0917534
   (json.Unmarshal error reported), 305065f (parameter name escaped for the resource URL), 509d77b
   (JSON type checked at every level), 805ac6f (element descriptions of an array checked against the
   element type, one items level per dimension) and 35b0f19 (the signature helper writes the aliases uint /
   int / fixed / ufixed in full).  One definition per Go function, same case order and guards;
   nil dereferences and index expressions are explicit [Panic].  No proofs here.

   External behaviour and how it enters:
   * the ABI type-string parser and renderer of pkg/abi (Parameter.TypeComponentTreeCtx,
     typeComponent.String) is the model AbiType/Model.v (property C13);
   * the jsonschema compile step of convertFFIParamsToABIParameters (draft 2020-12 meta-schema, the
     FireFly base validator, the "details" meta-schema of ffi_param_validator.go) is a boolean
     verdict supplied with the input ([pi_verdict]): the theorems quantify over both verdicts;
   * encoding/json (Schema.ToJSON / json.Unmarshal into *Schema) is supplied as the decoded struct
     value ([pi_unm]: unmarshal error | nil pointer | struct): the theorems quantify over every
     struct value, a superset of what any JSON text can decode to.  The struct is mirrored field
     by field ([schema], [details]); Description is never read by the code and is left out. *)
From Coq Require Import String.
From Coq Require Import List NArith ZArith Bool Arith.
From Coq Require Import Init.Byte.
From FFS Require Import Base.Res Base.Bytes Gen.AbiConsts AbiType.Syntax AbiType.Model.
Import ListNotations.

(* error classes *)
Definition EInvalidDetails := 20%nat.   (* MsgInvalidFFIDetailsSchema FF22052 raised by ffi.go itself *)
Definition ETypeMismatch := 21%nat.     (* MsgFFITypeMismatch FF22055 *)
Definition ESchemaRejected := 22%nat.   (* AddResource / Compile failed *)
Definition EUnmarshal := 23%nat.        (* json.Unmarshal failed *)

Definition jsonBooleanType := ascii_bytes "boolean".
Definition jsonIntegerType := ascii_bytes "integer".
Definition jsonNumberType := ascii_bytes "number".
Definition jsonStringType := ascii_bytes "string".
Definition jsonArrayType := ascii_bytes "array".
Definition jsonObjectType := ascii_bytes "object".

(* ---------- data ---------- *)

(* paramDetails; Index *int is [option Z] (Go int: the harness never produces values outside int64) *)
Record details := mkDetails { d_type : bytes; d_internal : bytes; d_indexed : bool; d_index : option Z }.

(* Schema.  OneOf: nil vs non-nil slice of the Type strings; Details, Items: pointers;
   Properties: a Go map as an association list (nil map = empty list; values are pointers) *)
Inductive schema :=
  Schema (s_type : bytes) (s_oneof : option (list bytes)) (s_details : option details)
         (s_props : list (bytes * option schema)) (s_items : option schema).

Definition s_type (s : schema) := match s with Schema t _ _ _ _ => t end.
Definition s_oneof (s : schema) := match s with Schema _ o _ _ _ => o end.
Definition s_details (s : schema) := match s with Schema _ _ d _ _ => d end.
Definition s_props (s : schema) := match s with Schema _ _ _ p _ => p end.
Definition s_items (s : schema) := match s with Schema _ _ _ _ i => i end.

(* abi.Parameter (the cached parse is transparent) *)
Inductive fparam := FParam (name type internal : bytes) (indexed : bool) (comps : list fparam).

Definition fp_name (p : fparam) := match p with FParam n _ _ _ _ => n end.
Definition fp_type (p : fparam) := match p with FParam _ t _ _ _ => t end.
Definition fp_internal (p : fparam) := match p with FParam _ _ i _ _ => i end.
Definition fp_indexed (p : fparam) := match p with FParam _ _ _ x _ => x end.
Definition fp_comps (p : fparam) := match p with FParam _ _ _ _ c => c end.

(* what the type parser of pkg/abi looks at *)
Fixpoint erase (p : fparam) : param :=
  match p with FParam _ t _ _ cs => Param t (map erase cs) end.

Inductive etype := EFunction | EConstructor | EReceive | EFallback | EEvent | EError | EOther.
Record entry := mkEntry { e_type : etype; e_name : bytes; e_inputs : list fparam; e_outputs : list fparam }.

Definition IsFunction (e : entry) : bool :=
  match e_type e with EFunction | EConstructor | EReceive | EFallback => true | _ => false end.

(* Go map assignment m[k] = v on an association list *)
Fixpoint map_set {A} (k : bytes) (v : A) (m : list (bytes * A)) : list (bytes * A) :=
  match m with
  | [] => [(k, v)]
  | (k', v') :: r => if bytes_eqb k k' then (k, v) :: r else (k', v') :: map_set k v r
  end.

Fixpoint map_get {A} (k : bytes) (m : list (bytes * A)) : option A :=
  match m with
  | [] => None
  | (k', v) :: r => if bytes_eqb k k' then Some v else map_get k r
  end.

(* ---------- ABI -> FFI ---------- *)

(* the elementary branch of getSchemaForABIInput: (schema.Type, schema.OneOf) *)
Definition elementary_json (j : json_enc) : bytes * option (list bytes) :=
  match j with
  | JSONEncodingTypeInteger => ([], Some [jsonStringType; jsonIntegerType])
  | JSONEncodingTypeFloat => ([], Some [jsonStringType; jsonNumberType])
  | JSONEncodingTypeBool => ([], Some [jsonStringType; jsonBooleanType])
  | JSONEncodingTypeBytes => (jsonStringType, None)
  | JSONEncodingTypeString => (jsonStringType, None)
  end.

(* childSchema.Details.Index = new(int); *childSchema.Details.Index = i *)
Definition set_index (i : nat) (s : schema) : res schema :=
  match s with
  | Schema t o (Some d) p it =>
      Ok (Schema t o (Some (mkDetails (d_type d) (d_internal d) (d_indexed d) (Some (Z.of_nat i)))) p it)
  | Schema _ _ None _ _ => Panic
  end.

(* getSchemaForABIInput.  Every node of the type component tree of a parameter points back to that
   parameter (typeComponent.parameter), tuple children to the parameter's components in order: the
   model walks the component tree with the parameter alongside. *)
Fixpoint getSchemaForABIInput (p : fparam) (tc : tcomp) {struct tc} : res schema :=
  let det := mkDetails (fp_type p) (fp_internal p) (fp_indexed p) None in
  match tc with
  | CElem et _ _ _ =>
      let '(t, o) := elementary_json (et_json et) in Ok (Schema t o (Some det) [] None)
  | CFixedArr c _ | CDynArr c =>
      do child <- getSchemaForABIInput p c;
      match child with
      | Schema t o d pr it => Ok (Schema jsonArrayType None d [] (Some (Schema t o None pr it)))
      end
  | CTuple children =>
      do props <- (fix go (cs : list tcomp) (ps : list fparam) (i : nat)
                          (acc : list (bytes * option schema)) : res (list (bytes * option schema)) :=
                     match cs, ps with
                     | [], [] => Ok acc
                     | c :: cs', cp :: ps' =>
                         do s <- getSchemaForABIInput cp c;
                         do s' <- set_index i s;
                         go cs' ps' (S i) (map_set (fp_name cp) (Some s') acc)
                     | _, _ => Panic     (* tupleChildren[i] / Components[i] out of step *)
                     end) children (fp_comps p) 0%nat [];
      Ok (Schema jsonObjectType None (Some det) props None)
  end.

(* one FFIParam: input.TypeComponentTreeCtx, getSchemaForABIInput *)
Definition paramToFFI (p : fparam) : res (bytes * schema) :=
  do tc <- parseABIParameterComponents (erase p);
  do s <- getSchemaForABIInput p tc;
  Ok (fp_name p, s).

Fixpoint paramsToFFI (l : list fparam) : res (list (bytes * schema)) :=
  match l with
  | [] => Ok []
  | p :: r => do x <- paramToFFI p; do xs <- paramsToFFI r; Ok (x :: xs)
  end.

Record ffimethod := mkMethod { m_name : bytes; m_params : list (bytes * schema); m_returns : list (bytes * schema) }.

Definition convertABIFunctionToFFIMethod (e : entry) : res ffimethod :=
  do ps <- paramsToFFI (e_inputs e);
  do rs <- paramsToFFI (e_outputs e);
  Ok (mkMethod (e_name e) ps rs).

Definition convertABIEventToFFIEvent (e : entry) : res ffimethod :=
  do ps <- paramsToFFI (e_inputs e); Ok (mkMethod (e_name e) ps []).

Definition convertABIErrorToFFIError (e : entry) : res ffimethod :=
  do ps <- paramsToFFI (e_inputs e); Ok (mkMethod (e_name e) ps []).

(* ABI.Functions() / Events() / Errors(): maps keyed by name *)
Definition is_nil_b (b : bytes) : bool := match b with [] => true | _ => false end.
Definition entries_where (f : entry -> bool) (abi : list entry) : list (bytes * entry) :=
  fold_left (fun m e => if negb (is_nil_b (e_name e)) && f e then map_set (e_name e) e m else m) abi [].
Definition Functions := entries_where IsFunction.
Definition Events := entries_where (fun e => match e_type e with EEvent => true | _ => false end).
Definition Errors := entries_where (fun e => match e_type e with EError => true | _ => false end).

Fixpoint convert_all (f : entry -> res ffimethod) (m : list (bytes * entry)) : res (list ffimethod) :=
  match m with
  | [] => Ok []
  | (_, e) :: r => do x <- f e; do xs <- convert_all f r; Ok (x :: xs)
  end.

Record ffi := mkFFI { f_methods : list ffimethod; f_events : list ffimethod; f_errors : list ffimethod }.

(* ConvertABIToFFI; the three maps are traversed in the order given by [ord_*] (Go: random) *)
Definition ConvertABIToFFI_ord (fs evs ers : list (bytes * entry)) : res ffi :=
  do ms <- convert_all convertABIFunctionToFFIMethod fs;
  do es <- convert_all convertABIEventToFFIEvent evs;
  do rs <- convert_all convertABIErrorToFFIError ers;
  Ok (mkFFI ms es rs).
Definition ConvertABIToFFI (abi : list entry) : res ffi :=
  ConvertABIToFFI_ord (Functions abi) (Events abi) (Errors abi).

(* ---------- FFI -> ABI ---------- *)

(* inputTypeValidForTypeComponent *)
Definition json_enc_eqb (a b : json_enc) : bool :=
  match a, b with
  | JSONEncodingTypeBool, JSONEncodingTypeBool | JSONEncodingTypeInteger, JSONEncodingTypeInteger
  | JSONEncodingTypeBytes, JSONEncodingTypeBytes | JSONEncodingTypeFloat, JSONEncodingTypeFloat
  | JSONEncodingTypeString, JSONEncodingTypeString => true
  | _, _ => false
  end.

Definition inputTypeString (s : schema) : bytes :=
  match s_oneof s with
  | Some l => fold_left (fun acc t => if bytes_eqb t jsonStringType then acc else t) l []
  | None => s_type s
  end.

Definition is_elementary (tc : tcomp) : bool := match tc with CElem _ _ _ _ => true | _ => false end.
Definition elementary_enc_is (tc : tcomp) (j : json_enc) : bool :=
  match tc with CElem et _ _ _ => json_enc_eqb (et_json et) j | _ => false end.

Definition inputTypeValidForTypeComponent (s : schema) (tc : tcomp) : res unit :=
  let t := inputTypeString s in
  let ok :=
    if bytes_eqb t jsonBooleanType then elementary_enc_is tc JSONEncodingTypeBool
    else if bytes_eqb t jsonIntegerType then elementary_enc_is tc JSONEncodingTypeInteger
    else if bytes_eqb t jsonNumberType then elementary_enc_is tc JSONEncodingTypeFloat
    else if bytes_eqb t jsonStringType then is_elementary tc
    else if bytes_eqb t jsonArrayType then
      match tc with CDynArr _ | CFixedArr _ _ => true | _ => false end
    else if bytes_eqb t jsonObjectType then
      match tc with CTuple _ => true | _ => false end
    else false in
  if ok then Ok tt
  else do _ <- tc_string tc; Err ETypeMismatch.    (* the error text renders tc.String() *)

(* the closing loop of processField over the dimensions of the parsed type (fix 805ac6f):
     items, child := schema.Items, tc
     for child is a fixed or dynamic array { child = child.ArrayChild(); if items == nil { error };
        inputTypeValidForTypeComponent(items, child) or error; items = items.Items } *)
Fixpoint itemsValid (items : option schema) (tc : tcomp) {struct tc} : res unit :=
  match tc with
  | CFixedArr c _ | CDynArr c =>
      match items with
      | None => Err EInvalidDetails
      | Some it => do _ <- inputTypeValidForTypeComponent it c; itemsValid (s_items it) c
      end
  | _ => Ok tt
  end.

(* parameters[i] and parameters[i] = p on the slice make(abi.ParameterArray, n) *)
Definition slot_get {A} (l : list (option A)) (i : nat) : res (option A) :=
  match nth_error l i with Some x => Ok x | None => Panic end.
Fixpoint slot_set {A} (l : list (option A)) (i : nat) (v : A) : res (list (option A)) :=
  match l, i with
  | [], _ => Panic
  | _ :: r, O => Ok (Some v :: r)
  | x :: r, S i' => do r' <- slot_set r i' v; Ok (x :: r')
  end.

(* propertySchema.Details.Index (two dereferences) *)
Definition prop_index (ps : option schema) : res (option Z) :=
  match ps with
  | Some (Schema _ _ (Some d) _ _) => Ok (d_index d)
  | _ => Panic
  end.

Section build.
(* [pf] is processField (the recursion is tied in [processSchema] below) *)
Variable pf : bytes -> option schema -> res fparam.

(* the loop of buildABIParameterArrayForObject over the map entries in the order given *)
Fixpoint build_loop (props : list (bytes * option schema))
         (slots : list (option fparam)) : res (list (option fparam)) :=
  match props with
  | [] => Ok slots
  | (k, ps) :: r =>
      do p <- pf k ps;
      do ix <- prop_index ps;
      match ix with
      | None => Err EInvalidDetails
      | Some z =>
          if (z <? 0)%Z || (Z.of_nat (length slots) <=? z)%Z then Err EInvalidDetails else
          do cur <- slot_get slots (Z.to_nat z);
          match cur with
          | Some _ => Err EInvalidDetails
          | None => do slots' <- slot_set slots (Z.to_nat z) p; build_loop r slots'
          end
      end
  end.

(* A nil entry left in the returned ParameterArray would be dereferenced by the type parser
   (parseABIParameterComponents on a nil *Parameter) or by any later user of the entry; the model
   raises the panic as soon as the array is returned.  Proved unreachable (Proofs: pigeonhole). *)
Fixpoint collect (slots : list (option fparam)) : res (list fparam) :=
  match slots with
  | [] => Ok []
  | None :: _ => Panic
  | Some p :: r => do ps <- collect r; Ok (p :: ps)
  end.

Definition buildABIParameterArrayForObject (props : list (bytes * option schema)) : res (list fparam) :=
  do slots <- build_loop props (repeat None (length props));
  collect slots.
End build.

(* processField on a non-nil schema *)
Fixpoint processSchema (name : bytes) (s : schema) {struct s} : res fparam :=
  match s with
  | Schema typ _ det props items =>
    match det with
    | None => Err EInvalidDetails
    | Some d =>
      do comps <-
        (if bytes_eqb typ jsonObjectType then
           buildABIParameterArrayForObject
             (fun k ps => match ps with None => Err EInvalidDetails | Some sc => processSchema k sc end) props
         else if bytes_eqb typ jsonArrayType then
           match items with
           | None => Err EInvalidDetails
           | Some it0 =>
             (fix down (it : schema) : res (list fparam) :=
                match it with
                | Schema t' _ _ props' items' =>
                    if bytes_eqb t' jsonArrayType then
                      match items' with None => Err EInvalidDetails | Some it' => down it' end
                    else buildABIParameterArrayForObject
                           (fun k ps => match ps with None => Err EInvalidDetails | Some sc => processSchema k sc end) props'
                end) it0
           end
         else Ok []);
      let parameter := FParam name (d_type d) (d_internal d) (d_indexed d) comps in
      (* the JSON type is checked against the Ethereum type at every level *)
      do tc <- parseABIParameterComponents (erase parameter);
      do _ <- inputTypeValidForTypeComponent s tc;
      (* ... and along the items chain of an array, one level per dimension *)
      do _ <- itemsValid items tc;
      Ok parameter
    end
  end.

Definition processField (name : bytes) (s : option schema) : res fparam :=
  match s with None => Err EInvalidDetails | Some sc => processSchema name sc end.

(* one FFIParam as convertFFIParamsToABIParameters sees it: name, the verdict of the jsonschema
   compile, and what json.Unmarshal(param.Schema.Bytes(), &s) yields *)
Record pin := mkPin { pi_name : bytes; pi_verdict : bool; pi_unm : option (option schema) }.

Definition convertFFIParam (p : pin) : res fparam :=
  if negb (pi_verdict p) then Err ESchemaRejected else
  match pi_unm p with
  | None => Err EUnmarshal
  | Some os =>
      do ap <- processField (pi_name p) os;
      do tc <- parseABIParameterComponents (erase ap);
      match os with
      | None => Panic                               (* inputSchema.OneOf on a nil *Schema *)
      | Some s => do _ <- inputTypeValidForTypeComponent s tc; Ok ap
      end
  end.

Fixpoint convertFFIParamsToABIParameters (l : list pin) : res (list fparam) :=
  match l with
  | [] => Ok []
  | p :: r => do x <- convertFFIParam p; do xs <- convertFFIParamsToABIParameters r; Ok (x :: xs)
  end.

Definition ConvertFFIMethodToABI (name : bytes) (params returns : list pin) : res entry :=
  do i <- convertFFIParamsToABIParameters params;
  do o <- convertFFIParamsToABIParameters returns;
  Ok (mkEntry EFunction name i o).

Definition ConvertFFIEventDefinitionToABI (name : bytes) (params : list pin) : res entry :=
  do i <- convertFFIParamsToABIParameters params; Ok (mkEntry EEvent name i []).

Definition ConvertFFIErrorDefinitionToABI (name : bytes) (params : list pin) : res entry :=
  do i <- convertFFIParamsToABIParameters params; Ok (mkEntry EError name i []).

(* The parameter lists as encoding/json decodes an interface definition: fftypes.FFIParams is a slice
   of *FFIParam, and "params":[null] yields a nil entry.  The loop of convertFFIParamsToABIParameters
   starts every iteration with `if param == nil { return nil, MsgInvalidFFIDetailsSchema }` (fix
   a043493; before it, param.Name was a nil dereference).  [None] is a nil entry; on lists without
   one these are the functions above ([Proofs: opt_params_some]). *)
Fixpoint convertFFIParamsToABIParameters_opt (l : list (option pin)) : res (list fparam) :=
  match l with
  | [] => Ok []
  | None :: _ => Err EInvalidDetails
  | Some p :: r => do x <- convertFFIParam p; do xs <- convertFFIParamsToABIParameters_opt r; Ok (x :: xs)
  end.

Definition ConvertFFIMethodToABI_opt (name : bytes) (params returns : list (option pin)) : res entry :=
  do i <- convertFFIParamsToABIParameters_opt params;
  do o <- convertFFIParamsToABIParameters_opt returns;
  Ok (mkEntry EFunction name i o).

Definition ConvertFFIEventDefinitionToABI_opt (name : bytes) (params : list (option pin)) : res entry :=
  do i <- convertFFIParamsToABIParameters_opt params; Ok (mkEntry EEvent name i []).

Definition ConvertFFIErrorDefinitionToABI_opt (name : bytes) (params : list (option pin)) : res entry :=
  do i <- convertFFIParamsToABIParameters_opt params; Ok (mkEntry EError name i []).

(* ---------- signatures ---------- *)

(* Entry.SignatureCtx (pkg/abi/abi.go) *)
Fixpoint sig_strings (l : list fparam) : res (list bytes) :=
  match l with
  | [] => Ok []
  | p :: r => do s <- SignatureString (erase p); do ss <- sig_strings r; Ok (s :: ss)
  end.
Definition SignatureCtx (e : entry) : res bytes :=
  do ss <- sig_strings (e_inputs e);
  Ok (e_name e ++ [ch_lparen] ++ join [ch_comma] ss ++ [ch_rparen]).

(* strings.HasPrefix *)
Fixpoint has_prefix (pre s : bytes) : bool :=
  match pre, s with
  | [], _ => true
  | a :: pre', b :: s' => byte_eqb a b && has_prefix pre' s'
  | _ :: _, [] => false
  end.

(* the alias branch of ABIArgumentToTypeString (fix 35b0f19: aliases written in full):
     base, dimensions := typeName, ""
     if i := strings.IndexByte(typeName, '['); i >= 0 { base, dimensions = typeName[:i], typeName[i:] }
     if fullName, isAlias := typeAliases[base]; isAlias { return fullName + dimensions }
     return typeName *)
Fixpoint before_lbrack (t : bytes) : bytes :=
  match t with
  | [] => []
  | b :: r => if byte_eqb b ch_lbrack then [] else b :: before_lbrack r
  end.
Fixpoint from_lbrack (t : bytes) : bytes :=
  match t with
  | [] => []
  | b :: r => if byte_eqb b ch_lbrack then b :: r else from_lbrack r
  end.
Definition typeAliases (base : bytes) : option bytes :=
  if bytes_eqb base (ascii_bytes "int") then Some (ascii_bytes "int256")
  else if bytes_eqb base (ascii_bytes "uint") then Some (ascii_bytes "uint256")
  else if bytes_eqb base (ascii_bytes "fixed") then Some (ascii_bytes "fixed128x18")
  else if bytes_eqb base (ascii_bytes "ufixed") then Some (ascii_bytes "ufixed128x18")
  else None.
Definition alias_in_full (typeName : bytes) : bytes :=
  match typeAliases (before_lbrack typeName) with
  | Some fullName => fullName ++ from_lbrack typeName
  | None => typeName
  end.

(* ABIArgumentToTypeString(component.Type, component.Components) for a component (the recursive
   call); typeName[5:] cannot panic after HasPrefix *)
Fixpoint component_type_string (p : fparam) : bytes :=
  match p with
  | FParam _ typeName _ _ components =>
      if has_prefix (ascii_bytes "tuple") typeName then
        [ch_lparen] ++ join [ch_comma] (map component_type_string components) ++ [ch_rparen] ++ skipn 5 typeName
      else alias_in_full typeName
  end.
(* ABIArgumentToTypeString(typeName, components) *)
Definition ABIArgumentToTypeString (typeName : bytes) (components : list fparam) : bytes :=
  if has_prefix (ascii_bytes "tuple") typeName then
    [ch_lparen] ++ join [ch_comma] (map component_type_string components) ++ [ch_rparen] ++ skipn 5 typeName
  else alias_in_full typeName.

Definition ABIMethodToSignature (e : entry) : bytes :=
  e_name e ++ [ch_lparen]
  ++ match e_inputs e with
     | [] => []
     | _ => join [ch_comma] (map (fun p => ABIArgumentToTypeString (fp_type p) (fp_comps p)) (e_inputs e))
     end
  ++ [ch_rparen].
