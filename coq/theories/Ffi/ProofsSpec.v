(* Proofs for C20, part 2: a schema the FFI -> ABI conversion accepts is consistent in the sense of
   Spec.v (items at every array level, members present with positions exactly 0..n-1); hence every
   inconsistent schema is reported as an error. *)
From Coq Require Import String.
From Coq Require Import List NArith ZArith Bool Arith Lia Permutation.
From Coq Require Import Init.Byte.
From FFS Require Import Base.Res Base.Bytes Gen.AbiConsts AbiType.Syntax AbiType.Model Ffi.Model Ffi.Spec Ffi.Proofs Ffi.ProofsClass.
Import ListNotations.

(* ---------- Spec.consistent, unfolded ---------- *)
Fixpoint all_members (l : list (bytes * option schema)) : bool :=
  match l with
  | [] => true
  | (_, None) :: _ => false
  | (_, Some m) :: r => consistent m && all_members r
  end.
Definition members_ok (ms : list (bytes * option schema)) : bool := positions_ok ms && all_members ms.
Fixpoint elem_ok (it : schema) : bool :=
  match it with
  | Schema t' _ _ props' items' =>
      if bytes_eqb t' (str "array") then match items' with None => false | Some it' => elem_ok it' end
      else members_ok props'
  end.

Lemma consistent_unfold t o det props items :
  consistent (Schema t o det props items) =
  match det with None => false | Some _ => true end
  && negb (type_at_odds (Schema t o det props items))
  && (if bytes_eqb t (str "object") then members_ok props
      else if bytes_eqb t (str "array") then match items with None => false | Some it0 => elem_ok it0 end
      else true).
Proof. reflexivity. Qed.

(* ---------- positions ---------- *)
Definition occ (slots : list (option fparam)) (i : nat) : nat :=
  match nth_error slots i with Some (Some _) => 1%nat | _ => 0%nat end.
Definition cnt (l : list (bytes * option schema)) (i : nat) : nat :=
  count_pos (Z.of_nat i) (map member_index l).

Lemma cnt_app l m i :
  cnt (l ++ [m]) i =
  (cnt l i + match member_index m with Some z => if Z.eqb (Z.of_nat i) z then 1 else 0 | None => 0 end)%nat.
Proof.
  unfold cnt, count_pos. rewrite map_app, filter_app, app_length. cbn.
  destruct (member_index m) as [z|]; cbn; [|lia]. destruct (Z.eqb (Z.of_nat i) z); cbn; lia.
Qed.

Lemma occ_slot_get slots i : occ slots i = match slot_get slots i with Ok (Some _) => 1%nat | _ => 0%nat end.
Proof. unfold occ, slot_get. destruct (nth_error slots i) as [[x|]|]; reflexivity. Qed.

Lemma step_member pf k ps n i p :
  step pf k ps n = Ok (i, p) ->
  exists z, member_index (k, ps) = Some z /\ (0 <= z)%Z /\ Z.to_nat z = i /\ pf k ps = Ok p.
Proof.
  unfold step. destruct (pf k ps) as [p'| |]; cbn; try discriminate.
  destruct ps as [[t o [d|] pr it]|]; cbn; try discriminate.
  destruct (d_index d) as [z|]; try discriminate.
  destruct ((z <? 0)%Z || (Z.of_nat n <=? z)%Z) eqn:E; try discriminate.
  intros H. injection H as <- <-. apply orb_false_iff in E as [E1 _]. apply Z.ltb_ge in E1.
  exists z. auto.
Qed.

Lemma build_loop_positions pf : forall rest slots slots' done,
  build_loop pf rest slots = Ok slots' ->
  (forall i, (i < length slots)%nat -> cnt done i = occ slots i) ->
  (forall i, (i < length slots)%nat -> cnt (done ++ rest) i = occ slots' i) /\
  Forall (fun m => exists z p, member_index m = Some z /\ pf (fst m) (snd m) = Ok p) rest.
Proof.
  induction rest as [|[k ps] r IH]; intros slots slots' done H Inv.
  - cbn in H. injection H as <-. rewrite app_nil_r. split; [exact Inv|constructor].
  - rewrite build_loop_unfold in H.
    destruct (step pf k ps (length slots)) as [[j p]| |] eqn:S; cbn [bind fst snd] in H; try discriminate.
    pose proof (step_range _ _ _ _ _ _ S) as Hj.
    destruct (step_member _ _ _ _ _ _ S) as (z & Mi & Z0 & Zj & Pk).
    destruct (slot_get slots j) as [[q|]| |] eqn:G; cbn [bind] in H; try discriminate.
    destruct (slot_set slots j p) as [s1| |] eqn:E1; cbn [bind] in H; try discriminate.
    destruct (slot_set_spec _ _ _ _ G E1) as (L & _ & G1 & O).
    destruct (IH s1 slots' (done ++ [(k, ps)]) H) as [A B].
    + intros i Hi. rewrite L in Hi. rewrite cnt_app, Mi, (Inv i Hi), !occ_slot_get.
      destruct (Nat.eq_dec i j) as [->|Ne].
      * rewrite G, G1. replace (Z.of_nat j =? z)%Z with true; [reflexivity|].
        symmetry. apply Z.eqb_eq. lia.
      * rewrite (O i Ne). replace (Z.of_nat i =? z)%Z with false; [lia|].
        symmetry. apply Z.eqb_neq. lia.
    + split.
      * intros i Hi. rewrite <- app_assoc in A. cbn in A. apply A. rewrite L. exact Hi.
      * constructor; [|exact B]. cbn. eauto.
Qed.

Lemma occ_full slots i : count_none slots = 0%nat -> (i < length slots)%nat -> occ slots i = 1%nat.
Proof.
  revert i. induction slots as [|[x|] l IH]; intros i C Hi; cbn in *; try lia.
  destruct i; [reflexivity|]. unfold occ. cbn. apply (IH i C). lia.
Qed.

Lemma build_ok_members (pf : bytes -> option schema -> res fparam)
      (pf_index : forall k ps p, pf k ps = Ok p -> exists ix, prop_index ps = Ok ix)
      props ps :
  (forall k ps', In (k, ps') props -> pf k ps' <> Panic) ->
  buildABIParameterArrayForObject pf props = Ok ps ->
  positions_ok props = true /\
  Forall (fun m => exists p, pf (fst m) (snd m) = Ok p) props.
Proof.
  intros T H. unfold buildABIParameterArrayForObject in H.
  destruct (build_loop pf props (repeat None (length props))) as [slots| |] eqn:E; cbn [bind] in H; try discriminate.
  destruct (build_loop_inv pf pf_index props T (repeat None (length props))) as [_ INV].
  destruct (INV slots E) as [L C]. rewrite count_none_repeat in C. rewrite repeat_length in L.
  destruct (build_loop_positions pf props (repeat None (length props)) slots [] E) as [A B].
  { intros i Hi. unfold cnt, occ. cbn. rewrite repeat_length in Hi.
    rewrite (nth_error_repeat None Hi). reflexivity. }
  split.
  - unfold positions_ok. apply andb_true_iff. split.
    + apply forallb_forall. intros o Ho. apply in_map_iff in Ho as (m & <- & Hm).
      rewrite Forall_forall in B. destruct (B m Hm) as (z & _ & -> & _). reflexivity.
    + apply forallb_forall. intros i Hi. apply in_seq in Hi. apply Nat.eqb_eq.
      cbn [app] in A. rewrite repeat_length in A.
      change (cnt props i = 1%nat). rewrite A by lia. apply occ_full; lia.
  - eapply Forall_impl; [|exact B]. intros m (z & p & _ & Hp). eauto.
Qed.

(* ---------- accepted => consistent ---------- *)
Lemma str_object : str "object" = jsonObjectType. Proof. reflexivity. Qed.
Lemma str_array : str "array" = jsonArrayType. Proof. reflexivity. Qed.

Lemma PF_build_members props ps :
  Forall (fun kv => on_opt (fun s => forall name p, processSchema name s = Ok p -> consistent s = true) (snd kv)) props ->
  buildABIParameterArrayForObject PF props = Ok ps -> members_ok props = true.
Proof.
  intros HF H.
  destruct (build_ok_members PF PF_ok_index props ps) as [P M]; [|exact H|].
  { intros k ps' _. destruct ps'; cbn; [apply processSchema_total|discriminate]. }
  unfold members_ok. rewrite P. cbn.
  clear H P. induction props as [|[k [m|]] r IH]; cbn; auto.
  - inversion HF as [|? ? Hh Ht]; inversion M as [|? ? [p Hp] Mt]; subst. cbn in Hh, Hp.
    rewrite (Hh k p Hp). cbn. apply IH; assumption.
  - inversion M as [|? ? [p Hp] Mt]; subst. cbn in Hp. discriminate.
Qed.

Lemma accepted_consistent_aux (s : schema) :
  (forall name p, processSchema name s = Ok p -> consistent s = true) /\
  (forall ps, down s = Ok ps -> elem_ok s = true).
Proof.
  induction s as [t o d props items HP HI] using schema_ind'.
  assert (HPl : Forall (fun kv => on_opt (fun s => forall name p, processSchema name s = Ok p -> consistent s = true) (snd kv)) props).
  { eapply Forall_impl; [|exact HP]. intros [k [x|]]; cbn; [intros [A _]; exact A|auto]. }
  split.
  - intros name p H. rewrite processSchema_unfold in H. rewrite consistent_unfold.
    destruct d as [d|]; [|discriminate]. cbn [andb].
    destruct (components_of t props items) as [comps| |] eqn:EC; cbn [bind] in H; try discriminate.
    rewrite (finish_not_at_odds _ _ _ _ _ _ _ H eq_refl). cbn [negb andb].
    unfold components_of in EC. rewrite str_object, str_array.
    destruct (bytes_eqb t jsonObjectType).
    + eapply PF_build_members; eauto.
    + destruct (bytes_eqb t jsonArrayType); [|reflexivity].
      destruct items as [it0|]; [|discriminate].
      cbn in HI. destruct HI as [_ HD]. eapply HD; eauto.
  - intros ps H. rewrite down_unfold in H. cbn [elem_ok]. rewrite str_array.
    destruct (bytes_eqb t jsonArrayType).
    + destruct items as [it'|]; [|discriminate]. cbn in HI. destruct HI as [_ HD]. eapply HD; eauto.
    + eapply PF_build_members; eauto.
Qed.

Lemma accepted_consistent name s p : processSchema name s = Ok p -> consistent s = true.
Proof. apply accepted_consistent_aux. Qed.

(* every structurally inconsistent schema (and a nil schema) is an error of the conversion,
   whatever the verdict of the jsonschema compile *)
(* every inconsistent schema (and a nil schema) is an error of the conversion, whatever the verdict
   of the jsonschema compile *)
Theorem inconsistent_any_verdict_rejected :
  forall name verdict os,
    match os with None => True | Some s => consistent s = false end ->
    exists e, convertFFIParam (mkPin name verdict (Some os)) = Err e.
Proof.
  intros name verdict os H.
  pose proof (convertFFIParam_total (mkPin name verdict (Some os))) as T.
  destruct (convertFFIParam (mkPin name verdict (Some os))) as [ap|e|] eqn:E; [|eauto|congruence].
  exfalso. unfold convertFFIParam in E. cbn [pi_verdict pi_unm pi_name] in E.
  destruct verdict; cbn [negb] in E; [|discriminate].
  destruct os as [s|]; cbn [processField] in E; [|discriminate].
  destruct (processSchema name s) as [q| |] eqn:Q; cbn [bind] in E; try discriminate.
  rewrite (accepted_consistent _ _ _ Q) in H. discriminate.
Qed.

(* the oracle of the correspondence run (Run.v, code 13) as a theorem *)
Theorem inconsistent_rejected :
  forall p, pin_inconsistent p = true -> exists e, convertFFIParam p = Err e.
Proof.
  intros [name verdict unm]. unfold pin_inconsistent. cbn [pi_verdict pi_unm].
  intros H. apply andb_prop in H as [-> H].
  destruct unm as [[s|]|]; try discriminate.
  - apply inconsistent_any_verdict_rejected. apply negb_true_iff in H. exact H.
  - apply inconsistent_any_verdict_rejected. exact I.
Qed.
