(* Proofs for C20, part 7 (round 5): the converse of "accepted => consistent" and the exact
   characterisation of the accepted parameter schemas.
     processSchema name s = Ok ap  <->  consistent s /\ describes name s ap
   (right to left under [json_type_declared s]: the domain of the JSON type oracle of Spec.v). *)
From Coq Require Import String.
From Coq Require Import List NArith ZArith Bool Arith Lia Permutation FinFun.
From Coq Require Import Init.Byte.
From FFS Require Import Base.Res Base.Bytes Gen.AbiConsts AbiType.Syntax AbiType.Model
     Ffi.Model Ffi.Spec Ffi.SpecExact Ffi.Proofs Ffi.ProofsClass Ffi.ProofsSpec Ffi.ProofsRound Ffi.ProofsOrder.
Import ListNotations.

(* ---------- small list facts ---------- *)
Lemma nth_error_eq_ext {A} : forall (a b : list A), (forall i, nth_error a i = nth_error b i) -> a = b.
Proof.
  induction a as [|x a IH]; intros [|y b] H.
  - reflexivity.
  - specialize (H 0%nat). discriminate.
  - specialize (H 0%nat). discriminate.
  - pose proof (H 0%nat) as H0. cbn in H0. injection H0 as <-. f_equal. apply IH.
    intros i. exact (H (S i)).
Qed.

Lemma slot_get_nth {A} (l : list (option A)) i x : slot_get l i = Ok x <-> nth_error l i = Some x.
Proof. unfold slot_get. destruct (nth_error l i); split; intros H; try discriminate; congruence. Qed.

Lemma collect_map slots : forall l, collect slots = Ok l -> slots = map Some l.
Proof.
  induction slots as [|[p|] r IH]; intros l H; cbn in H.
  - injection H as <-. reflexivity.
  - destruct (collect r) as [ps| |]; cbn in H; try discriminate. injection H as <-.
    cbn. f_equal. apply IH. reflexivity.
  - discriminate.
Qed.

Lemma place_free l : forall j v, nth_error l j = Some None ->
  exists l', place l j v = Ok l' /\ length l' = length l /\ nth_error l' j = Some (Some v) /\
             forall i, i <> j -> nth_error l' i = nth_error l i.
Proof.
  induction l as [|x l IH]; intros j v H; [destruct j; discriminate|].
  destruct j as [|j].
  - cbn in H. injection H as ->. exists (Some v :: l). cbn. repeat split; auto.
    intros [|i] Hi; [congruence|reflexivity].
  - cbn in H. destruct (IH j v H) as (l' & P & L & G & O). exists (x :: l').
    rewrite place_cons_S, P. cbn. repeat split; auto.
    intros [|i] Hi; [reflexivity|]. cbn. apply O. congruence.
Qed.

(* ---------- counting positions ---------- *)
Lemma cnt_app2 a b i : cnt (a ++ b) i = (cnt a i + cnt b i)%nat.
Proof. unfold cnt, count_pos. rewrite map_app, filter_app, app_length. reflexivity. Qed.

Lemma cnt_cons m r i :
  cnt (m :: r) i =
  ((match member_index m with Some z => if Z.eqb (Z.of_nat i) z then 1 else 0 | None => 0 end) + cnt r i)%nat.
Proof.
  unfold cnt, count_pos. cbn [map filter]. destruct (member_index m) as [z|]; [|reflexivity].
  destruct (Z.eqb (Z.of_nat i) z); reflexivity.
Qed.

Lemma positions_ok_counts props :
  positions_ok props = true -> forall i, (i < length props)%nat -> cnt props i = 1%nat.
Proof.
  unfold positions_ok. intros H i Hi. apply andb_true_iff in H as [_ H].
  rewrite forallb_forall in H. apply Nat.eqb_eq. apply (H i). apply in_seq. lia.
Qed.

Lemma member_prop_index k ps z : member_index (k, ps) = Some z -> prop_index ps = Ok (Some z).
Proof.
  unfold member_index. cbn [snd]. destruct ps as [[t o [d|] pr it]|]; cbn; try discriminate. congruence.
Qed.

(* ---------- the loop of buildABIParameterArrayForObject, exactly ---------- *)
Section exact.
  Variable pf : bytes -> option schema -> res fparam.

  (* the member is recorded at a position z >= 0, converts to c, and c is component z *)
  Definition stored (comps : list fparam) (km : bytes * option schema) : Prop :=
    exists z c, member_index km = Some z /\ (0 <= z)%Z /\
                nth_error comps (Z.to_nat z) = Some c /\ pf (fst km) (snd km) = Ok c.

  (* Ok => every member is stored where it says, and stays there *)
  Lemma loop_stored : forall rest slots slots',
    build_loop pf rest slots = Ok slots' ->
    length slots' = length slots /\
    (forall i x, nth_error slots i = Some (Some x) -> nth_error slots' i = Some (Some x)) /\
    Forall (fun km => exists z c, member_index km = Some z /\ (0 <= z)%Z /\
                      nth_error slots' (Z.to_nat z) = Some (Some c) /\ pf (fst km) (snd km) = Ok c) rest.
  Proof.
    induction rest as [|[k ps] r IH]; intros slots slots' H.
    - cbn in H. injection H as <-. repeat split; auto.
    - rewrite build_loop_unfold in H.
      destruct (step pf k ps (length slots)) as [[j p]| |] eqn:S; cbn [bind fst snd] in H; try discriminate.
      destruct (step_member _ _ _ _ _ _ S) as (z & Mi & Z0 & Zj & Pk).
      destruct (slot_get slots j) as [[q|]| |] eqn:G; cbn [bind] in H; try discriminate.
      destruct (slot_set slots j p) as [s1| |] eqn:E1; cbn [bind] in H; try discriminate.
      destruct (slot_set_spec _ _ _ _ G E1) as (L & _ & G1 & O).
      destruct (IH s1 slots' H) as (L' & M' & F').
      apply slot_get_nth in G. apply slot_get_nth in G1.
      split; [lia|]. split.
      + intros i x Hi. apply M'. destruct (Nat.eq_dec i j) as [->|Ne]; [congruence|].
        apply slot_get_nth. rewrite (O i Ne). apply slot_get_nth. exact Hi.
      + constructor; [|exact F']. exists z, p. cbn [fst snd]. repeat split; auto.
        rewrite Zj. apply M'. exact G1.
  Qed.

  Lemma build_stored props comps :
    buildABIParameterArrayForObject pf props = Ok comps ->
    length comps = length props /\ Forall (stored comps) props.
  Proof.
    unfold buildABIParameterArrayForObject. intros H.
    destruct (build_loop pf props (repeat None (length props))) as [slots| |] eqn:E; cbn [bind] in H; try discriminate.
    destruct (loop_stored _ _ _ E) as (L & _ & F).
    apply collect_map in H. subst slots. rewrite map_length, repeat_length in L.
    split; [exact L|]. eapply Forall_impl; [|exact F].
    intros km (z & c & Mi & Z0 & N & P). exists z, c. repeat split; auto.
    rewrite nth_error_map in N. destruct (nth_error comps (Z.to_nat z)); cbn in N; congruence.
  Qed.

  (* every member stored at its own position, each position claimed once => Ok, with these
     components *)
  Lemma loop_fill comps : forall rest done slots,
    length slots = length comps ->
    (forall i, (i < length comps)%nat -> cnt (done ++ rest) i = 1%nat) ->
    (forall i c, nth_error comps i = Some c ->
                 nth_error slots i = Some (if (cnt done i =? 0)%nat then None else Some c)) ->
    Forall (stored comps) rest ->
    build_loop pf rest slots = Ok (map Some comps).
  Proof.
    induction rest as [|[k ps] r IH]; intros done slots L C Inv F.
    - cbn. f_equal. apply nth_error_eq_ext. intros i. rewrite nth_error_map.
      destruct (nth_error comps i) as [c|] eqn:N.
      + rewrite (Inv i c N). assert (Hi : (i < length comps)%nat) by (apply nth_error_Some; congruence).
        specialize (C i Hi). rewrite app_nil_r in C. rewrite C. reflexivity.
      + cbn. apply nth_error_None. apply nth_error_None in N. lia.
    - inversion F as [|? ? (z & c & Mi & Z0 & N & P) F']; subst. cbn [fst snd] in P.
      set (j := Z.to_nat z) in *.
      assert (Hj : (j < length comps)%nat) by (apply nth_error_Some; congruence).
      rewrite loop_step.
      assert (S : step pf k ps (length slots) = Ok (j, c)).
      { unfold step. rewrite P. cbn [bind]. rewrite (member_prop_index _ _ _ Mi). cbn [bind].
        replace ((z <? 0)%Z || (Z.of_nat (length slots) <=? z)%Z) with false; [reflexivity|].
        symmetry. apply orb_false_iff. split; [apply Z.ltb_ge; lia|apply Z.leb_gt; lia]. }
      rewrite S. cbn [bind fst snd].
      pose proof (C j Hj) as Cj. rewrite cnt_app2, cnt_cons, Mi in Cj.
      replace (Z.of_nat j =? z)%Z with true in Cj by (symmetry; apply Z.eqb_eq; lia).
      assert (D0 : cnt done j = 0%nat) by lia.
      pose proof (Inv j c N) as Sj. rewrite D0 in Sj. cbn in Sj.
      destruct (place_free slots j c Sj) as (s1 & P1 & L1 & G1 & O1). rewrite P1. cbn [bind].
      apply (IH (done ++ [(k, ps)]) s1).
      + lia.
      + intros i Hi. rewrite <- app_assoc. cbn [app]. apply C. exact Hi.
      + intros i c' Ni. rewrite cnt_app2, cnt_cons, Mi. cbn [cnt count_pos map filter length].
        destruct (Nat.eq_dec i j) as [->|Ne].
        * replace (Z.of_nat j =? z)%Z with true by (symmetry; apply Z.eqb_eq; lia).
          rewrite D0. cbn. rewrite G1. congruence.
        * replace (Z.of_nat i =? z)%Z with false by (symmetry; apply Z.eqb_neq; lia).
          rewrite (O1 i Ne), (Inv i c' Ni). replace (cnt done i + (0 + 0))%nat with (cnt done i) by lia.
          reflexivity.
      + exact F'.
  Qed.

  Lemma build_fill props comps :
    positions_ok props = true -> length comps = length props -> Forall (stored comps) props ->
    buildABIParameterArrayForObject pf props = Ok comps.
  Proof.
    intros P L F. unfold buildABIParameterArrayForObject.
    rewrite (loop_fill comps props [] (repeat None (length props))).
    - cbn [bind]. apply collect_somes.
    - rewrite repeat_length. lia.
    - intros i Hi. cbn [app]. apply positions_ok_counts; [exact P|lia].
    - intros i c N. assert (Hi : (i < length props)%nat) by (rewrite <- L; apply nth_error_Some; congruence).
      rewrite (nth_error_repeat None Hi). reflexivity.
    - exact F.
  Qed.
End exact.

(* a parameter that parses, under a schema that declares a JSON type not at odds with the
   Ethereum type, gets past the closing check of processField *)
Lemma finish_accepts t o d pr it q tc :
  parseABIParameterComponents (erase q) = Ok tc -> fp_type q = d_type d ->
  type_at_odds (Schema t o (Some d) pr it) = false ->
  declared_json_type (Schema t o (Some d) pr it) <> None ->
  elements_declared (d_type d) it ->
  finish (Schema t o (Some d) pr it) q = Ok q.
Proof.
  intros P Ety Odds Decl DeclE. unfold finish. rewrite P. cbn [bind].
  unfold type_at_odds in Odds. cbn [s_details s_items] in Odds. apply orb_false_iff in Odds as [O1 O2].
  rewrite (json_ok_valid _ tc (d_type d) O1 Decl) by (rewrite <- Ety; apply class_of_parsed; exact P).
  cbn [bind s_items].
  rewrite (elements_accept_parsed q tc it P) by (rewrite Ety; assumption). reflexivity.
Qed.

(* ---------- induction along [members_of] ---------- *)
Lemma members_ind (Q : schema -> Prop) :
  (forall s, Forall (fun km => on_opt Q (snd km)) (members_of s) -> Q s) -> forall s, Q s.
Proof.
  intros H.
  assert (A : forall s, Q s /\ Forall (fun km => on_opt Q (snd km)) (elem_members s)).
  { induction s as [t o d props items HP HI] using schema_ind'.
    assert (HP' : Forall (fun km => on_opt Q (snd km)) props).
    { eapply Forall_impl; [|exact HP]. intros [k [x|]]; cbn; [tauto|auto]. }
    assert (E : Forall (fun km => on_opt Q (snd km)) (elem_members (Schema t o d props items))).
    { cbn [elem_members]. destruct (bytes_eqb t (str "array")); [|exact HP'].
      destruct items as [it'|]; [|constructor]. cbn in HI. tauto. }
    split; [|exact E]. apply H. cbn [members_of].
    destruct (bytes_eqb t (str "object")); [exact HP'|].
    destruct (bytes_eqb t (str "array")); [|constructor].
    destruct items as [it'|]; [|constructor]. cbn in HI. tauto. }
  intros s. apply A.
Qed.

(* the components of an accepted schema are built from its members *)
Lemma down_members it : forall comps, down it = Ok comps ->
  buildABIParameterArrayForObject PF (elem_members it) = Ok comps.
Proof.
  induction it as [t o d props items _ HI] using schema_ind'. intros comps H.
  rewrite down_unfold in H. cbn [elem_members]. rewrite str_array.
  destruct (bytes_eqb t jsonArrayType); [|exact H].
  destruct items as [it'|]; [|discriminate]. cbn in HI. apply HI. exact H.
Qed.

Lemma components_members t o d props items comps :
  components_of t props items = Ok comps ->
  buildABIParameterArrayForObject PF (members_of (Schema t o d props items)) = Ok comps.
Proof.
  unfold components_of. cbn [members_of]. rewrite str_object, str_array. intros H.
  destruct (bytes_eqb t jsonObjectType); [exact H|].
  destruct (bytes_eqb t jsonArrayType); [|exact H].
  destruct items as [it0|]; [|discriminate]. apply down_members. exact H.
Qed.

(* and for a consistent schema the components are exactly that *)
Lemma elem_ok_down it : elem_ok it = true ->
  members_ok (elem_members it) = true /\ down it = buildABIParameterArrayForObject PF (elem_members it).
Proof.
  induction it as [t o d props items _ HI] using schema_ind'. intros H.
  rewrite down_unfold. cbn [elem_members elem_ok] in *. rewrite str_array in *.
  destruct (bytes_eqb t jsonArrayType); [|split; [exact H|reflexivity]].
  destruct items as [it'|]; [|discriminate]. cbn in HI. apply HI. exact H.
Qed.

Lemma consistent_members t o d props items :
  consistent (Schema t o d props items) = true ->
  members_ok (members_of (Schema t o d props items)) = true /\
  components_of t props items = buildABIParameterArrayForObject PF (members_of (Schema t o d props items)).
Proof.
  rewrite consistent_unfold. intros H. apply andb_true_iff in H as [_ H].
  unfold components_of. cbn [members_of]. rewrite str_object, str_array in *.
  destruct (bytes_eqb t jsonObjectType); [split; [exact H|reflexivity]|].
  destruct (bytes_eqb t jsonArrayType); [|split; reflexivity].
  destruct items as [it0|]; [|discriminate]. apply elem_ok_down. exact H.
Qed.

Lemma all_members_in l : all_members l = true ->
  forall k m, In (k, Some m) l -> consistent m = true.
Proof.
  induction l as [|[k' [m'|]] r IH]; cbn; intros H k m HIn; try tauto; try discriminate.
  apply andb_true_iff in H as [H1 H2]. destruct HIn as [E|HIn]; [injection E as _ <-; exact H1|eauto].
Qed.

(* ---------- accepted => described ---------- *)
Theorem process_describes : forall s name ap, processSchema name s = Ok ap -> describes name s ap.
Proof.
  induction s as [s IH] using members_ind. intros name ap H.
  destruct s as [t o d props items]. rewrite processSchema_unfold in H.
  destruct d as [d|]; [|discriminate].
  destruct (components_of t props items) as [comps| |] eqn:EC; cbn [bind] in H; try discriminate.
  pose proof (finish_ok _ _ _ H) as ->.
  destruct (build_stored PF _ _ (components_members t o (Some d) props items comps EC)) as [L F].
  apply Describes.
  - exact L.
  - rewrite Forall_forall in *. intros km HIn. destruct (F km HIn) as (z & c & Mi & Z0 & N & P).
    specialize (IH km HIn). destruct km as [k [sc|]]; cbn [fst snd PF] in *; [|discriminate].
    exists sc, z, c. repeat split; auto.
  - unfold finish in H.
    destruct (parseABIParameterComponents (erase (FParam name (d_type d) (d_internal d) (d_indexed d) comps)))
      as [tc| |] eqn:P; cbn [bind] in H; try discriminate.
    exists tc. exact P.
Qed.

(* ---------- consistent and described => accepted, with exactly the described parameter ---------- *)
Theorem describes_process : forall s name ap,
  json_type_declared s -> consistent s = true -> describes name s ap -> processSchema name s = Ok ap.
Proof.
  induction s as [s IH] using members_ind. intros name ap JD C D.
  inversion D as [? t o d props items comps L F [tc P]]; subst.
  inversion JD as [? Decl DeclE JM]; subst.
  rewrite processSchema_unfold.
  destruct (consistent_members _ _ _ _ _ C) as [MO EC]. rewrite EC.
  unfold members_ok in MO. apply andb_true_iff in MO as [PO AM].
  rewrite (build_fill PF _ comps PO L).
  - cbn [bind]. apply (finish_accepts t o d props items _ tc P eq_refl); [|exact Decl|exact (DeclE d eq_refl)].
    rewrite consistent_unfold in C. apply andb_true_iff in C as [C _]. apply andb_true_iff in C as [_ C].
    apply negb_true_iff in C. exact C.
  - rewrite Forall_forall in *. intros km HIn.
    destruct (F km HIn) as (sc & z & c & Ek & Mi & Z0 & N & Dk).
    exists z, c. repeat split; auto. specialize (IH km HIn).
    destruct km as [k m]. cbn [fst snd] in *. subst m. cbn [PF on_opt] in *.
    apply IH; [apply (JM (k, Some sc) HIn); reflexivity| |exact Dk].
    eapply all_members_in; eauto.
Qed.

Theorem process_iff s name ap :
  json_type_declared s ->
  (processSchema name s = Ok ap <-> consistent s = true /\ describes name s ap).
Proof.
  intros JD. split.
  - intros H. split; [eapply accepted_consistent; eauto|apply process_describes; exact H].
  - intros [C D]. apply describes_process; assumption.
Qed.

(* ---------- one parameter of a definition ---------- *)
Lemma process_finish name s ap : processSchema name s = Ok ap -> finish s ap = Ok ap.
Proof.
  destruct s as [t o d props items]. rewrite processSchema_unfold.
  destruct d as [d|]; [|discriminate].
  destruct (components_of t props items) as [comps| |]; cbn [bind]; try discriminate.
  intros H. pose proof (finish_ok _ _ _ H) as ->. exact H.
Qed.

Lemma finish_top s ap :
  finish s ap = Ok ap ->
  (do tc <- parseABIParameterComponents (erase ap); do _ <- inputTypeValidForTypeComponent s tc; Ok ap) = Ok ap.
Proof.
  unfold finish. destruct (parseABIParameterComponents (erase ap)) as [tc| |]; cbn [bind]; try discriminate.
  destruct (inputTypeValidForTypeComponent s tc) as [[]| |]; cbn [bind]; try discriminate. reflexivity.
Qed.

Lemma convert_is_process name s :
  convertFFIParam (mkPin name true (Some (Some s))) = processSchema name s.
Proof.
  unfold convertFFIParam. cbn [pi_verdict pi_unm pi_name negb processField].
  destruct (processSchema name s) as [ap| |] eqn:E; cbn [bind]; try reflexivity.
  exact (finish_top _ _ (process_finish _ _ _ E)).
Qed.

(* what an accepted parameter looks like, for every verdict and decoded value *)
Theorem accepted_described p ap :
  convertFFIParam p = Ok ap ->
  pi_verdict p = true /\
  exists s, pi_unm p = Some (Some s) /\ consistent s = true /\ describes (pi_name p) s ap.
Proof.
  destruct p as [name v u]. cbn [pi_verdict pi_unm pi_name]. intros H.
  destruct v; [|discriminate]. split; [reflexivity|].
  destruct u as [[s|]|]; try discriminate.
  rewrite convert_is_process in H. exists s. split; [reflexivity|].
  split; [eapply accepted_consistent; eauto|apply process_describes; exact H].
Qed.

Theorem consistent_accepted p s ap :
  pi_verdict p = true -> pi_unm p = Some (Some s) -> json_type_declared s ->
  consistent s = true -> describes (pi_name p) s ap -> convertFFIParam p = Ok ap.
Proof.
  destruct p as [name v u]. cbn [pi_verdict pi_unm pi_name]. intros -> -> JD C D.
  rewrite convert_is_process. apply describes_process; assumption.
Qed.

Theorem accepted_iff_consistent p s :
  pi_unm p = Some (Some s) -> json_type_declared s ->
  forall ap, convertFFIParam p = Ok ap <->
             pi_verdict p = true /\ consistent s = true /\ describes (pi_name p) s ap.
Proof.
  intros U JD ap. split.
  - intros H. destruct (accepted_described p ap H) as (V & s' & U' & C & D).
    rewrite U in U'. injection U' as <-. auto.
  - intros (V & C & D). eapply consistent_accepted; eauto.
Qed.

(* ... and refused (an error, never a panic) exactly otherwise *)
Theorem rejected_iff p s :
  pi_unm p = Some (Some s) -> json_type_declared s ->
  ((exists e, convertFFIParam p = Err e) <->
   ~ (pi_verdict p = true /\ consistent s = true /\ exists ap, describes (pi_name p) s ap)).
Proof.
  intros U JD. pose proof (convertFFIParam_total p) as T. split.
  - intros [e E] (V & C & ap & D).
    rewrite (proj2 (accepted_iff_consistent p s U JD ap) (conj V (conj C D))) in E. discriminate.
  - intros N. destruct (convertFFIParam p) as [ap|e|] eqn:E; [|eauto|congruence].
    exfalso. apply N. destruct (proj1 (accepted_iff_consistent p s U JD ap) E) as (V & C & D). eauto.
Qed.

(* a consistent schema (inside the JSON type oracle's domain) describes at most one parameter *)
Theorem described_unique s name a b :
  json_type_declared s -> consistent s = true -> describes name s a -> describes name s b -> a = b.
Proof.
  intros JD C Da Db. pose proof (describes_process s name a JD C Da) as Ea.
  rewrite (describes_process s name b JD C Db) in Ea. congruence.
Qed.

(* ---------- [consistent] spelled out ---------- *)
Lemma count_pos_perm z l l' : Permutation l l' -> count_pos z l = count_pos z l'.
Proof.
  unfold count_pos. induction 1 as [|x l l' _ IH|x y l|l l' l'' _ IH1 _ IH2]; cbn [filter].
  - reflexivity.
  - destruct (match x with Some z' => (z =? z')%Z | None => false end); cbn [length]; congruence.
  - destruct (match x with Some z' => (z =? z')%Z | None => false end),
             (match y with Some z' => (z =? z')%Z | None => false end); reflexivity.
  - congruence.
Qed.

Lemma count_pos_cons z o l :
  count_pos z (o :: l) =
  ((match o with Some z' => if (z =? z')%Z then 1 else 0 | None => 0 end) + count_pos z l)%nat.
Proof. unfold count_pos. cbn [filter]. destruct o as [z'|]; [|reflexivity]. destruct (z =? z')%Z; reflexivity. Qed.

Lemma count_positions i : forall n a,
  count_pos (Z.of_nat i) (map (fun j => Some (Z.of_nat j)) (seq a n)) =
  if (a <=? i)%nat && (i <? a + n)%nat then 1%nat else 0%nat.
Proof.
  induction n as [|n IH]; intros a.
  - cbn [seq map]. change (count_pos (Z.of_nat i) []) with 0%nat.
    destruct (Nat.leb_spec a i), (Nat.ltb_spec i (a + 0)); cbn [andb]; try reflexivity; lia.
  - cbn [seq map]. rewrite count_pos_cons, IH.
    destruct (Z.eqb_spec (Z.of_nat i) (Z.of_nat a)) as [E|E];
      destruct (Nat.leb_spec (S a) i), (Nat.ltb_spec i (S a + n)),
               (Nat.leb_spec a i), (Nat.ltb_spec i (a + S n)); cbn [andb Nat.add]; try reflexivity; lia.
Qed.

Lemma count_pos_in z l : count_pos z l <> 0%nat -> In (Some z) l.
Proof.
  induction l as [|o l IH]; [cbn; congruence|]. rewrite count_pos_cons. intros H.
  destruct o as [z'|].
  - destruct (Z.eqb_spec z z') as [->|_]; [left; reflexivity|right; apply IH; exact H].
  - right. apply IH. exact H.
Qed.

Lemma positions_nodup n : NoDup (positions n).
Proof.
  unfold positions. apply Injective_map_NoDup; [|apply seq_NoDup].
  intros x y H. injection H as H. lia.
Qed.

(* the member positions are exactly 0..n-1, each once = a permutation of 0..n-1 *)
Theorem positions_ok_permutation ms :
  positions_ok ms = true <-> Permutation (map member_index ms) (positions (length ms)).
Proof.
  split.
  - intros H. apply Permutation_sym. apply NoDup_Permutation_bis.
    + apply positions_nodup.
    + unfold positions. rewrite !map_length, seq_length. lia.
    + intros o Ho. unfold positions in Ho. apply in_map_iff in Ho as (i & <- & Hi). apply in_seq in Hi.
      apply count_pos_in. pose proof (positions_ok_counts ms H i ltac:(lia)) as C.
      unfold cnt in C. rewrite C. discriminate.
  - intros P. unfold positions_ok. apply andb_true_iff. split.
    + apply forallb_forall. intros o Ho. pose proof (Permutation_in _ P Ho) as Ho'.
      unfold positions in Ho'. apply in_map_iff in Ho' as (i & <- & _). reflexivity.
    + apply forallb_forall. intros i Hi. apply in_seq in Hi. apply Nat.eqb_eq.
      rewrite (count_pos_perm _ _ _ P). unfold positions. rewrite count_positions.
      destruct (Nat.leb_spec 0 i), (Nat.ltb_spec i (0 + length ms)); cbn; try reflexivity; lia.
Qed.

Lemma all_members_forall l :
  all_members l = true <-> Forall (fun km => exists m, snd km = Some m /\ consistent m = true) l.
Proof.
  induction l as [|[k [m|]] r IH]; cbn [all_members].
  - split; [constructor|reflexivity].
  - rewrite andb_true_iff, IH. split.
    + intros [A B]. constructor; [exists m; auto|exact B].
    + intros H. inversion H as [|? ? (m' & E & C) F]; subst. cbn in E. injection E as <-. auto.
  - split; [discriminate|]. intros H. inversion H as [|? ? (m' & E & _) F]; subst. discriminate.
Qed.

Lemma elem_ok_spelled it :
  elem_ok it = true <-> elem_complete it = true /\ members_ok (elem_members it) = true.
Proof.
  induction it as [t o d props items _ HI] using schema_ind'. cbn [elem_ok elem_complete elem_members].
  destruct (bytes_eqb t (str "array")); [|tauto].
  destruct items as [it'|]; [exact HI|]. split; [discriminate|tauto].
Qed.

(* Spec.consistent, one clause per line: details present; the JSON type not at odds with the
   Ethereum type; an array schema describes its elements at every dimension; the member positions
   are a permutation of 0..n-1; every member is present and consistent itself *)
Theorem consistent_spelled s :
  consistent s = true <->
  (exists d, s_details s = Some d) /\
  type_at_odds s = false /\
  items_complete s = true /\
  Permutation (map member_index (members_of s)) (positions (length (members_of s))) /\
  Forall (fun km => exists m, snd km = Some m /\ consistent m = true) (members_of s).
Proof.
  destruct s as [t o d props items]. rewrite consistent_unfold.
  rewrite <- positions_ok_permutation, <- all_members_forall.
  unfold items_complete. cbn [s_details s_type s_items members_of].
  rewrite !andb_true_iff, negb_true_iff.
  assert (D : match d with Some _ => true | None => false end = true <-> exists d0, d = Some d0).
  { destruct d as [d0|]; split; intros H.
    - exists d0. reflexivity.
    - reflexivity.
    - discriminate.
    - destruct H as [d0 H]. discriminate. }
  rewrite D. clear D.
  destruct (bytes_eqb t (str "object")).
  { unfold members_ok. rewrite andb_true_iff. tauto. }
  destruct (bytes_eqb t (str "array")).
  - destruct items as [it0|].
    + rewrite elem_ok_spelled. unfold members_ok. rewrite andb_true_iff. tauto.
    + split; [intros [_ H]; discriminate|intros (_ & _ & H & _); discriminate].
  - cbn. split; [intros [[A B] _]; repeat split; auto; constructor|tauto].
Qed.
