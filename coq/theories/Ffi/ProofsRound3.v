(* Round 3: the two halves of C20 composed -- the stand-alone signature helper applied to the entry
   that comes back from the interface format returns the signature of the original entry. *)
From Coq Require Import String.
From Coq Require Import List NArith ZArith Bool Arith.
From FFS Require Import Base.Res Base.Bytes AbiType.Syntax AbiType.Model Ffi.Model Ffi.Spec
     Ffi.Proofs Ffi.ProofsRound Ffi.ProofsSig.
Import ListNotations.

Lemma explicit_widths_norm p : explicit_widths p = true -> explicit_widths (norm p) = true.
Proof.
  induction p as [n t i x cs IH] using fparam_ind'. cbn [explicit_widths norm].
  intros H. apply andb_true_iff in H. destruct H as [Ha Hc]. apply andb_true_iff. split; [exact Ha|].
  destruct (is_tuple_type t); [|reflexivity].
  rewrite forallb_forall in Hc. apply forallb_forall. intros q Hq.
  apply in_map_iff in Hq. destruct Hq as [c [<- Hin]].
  rewrite Forall_forall in IH. apply (IH c Hin). apply Hc. exact Hin.
Qed.

Lemma explicit_widths_norm_list l :
  forallb explicit_widths l = true -> forallb explicit_widths (map norm l) = true.
Proof.
  intros H. rewrite forallb_forall in H. apply forallb_forall. intros q Hq.
  apply in_map_iff in Hq. destruct Hq as [c [<- Hin]]. apply explicit_widths_norm. apply H. exact Hin.
Qed.

Lemma parses_norm_list l : Forall parses l -> Forall parses (map norm l).
Proof.
  intros H. apply Forall_forall. intros q Hq. apply in_map_iff in Hq. destruct Hq as [c [<- Hin]].
  rewrite Forall_forall in H. destruct (H c Hin) as [tc E]. exists tc. rewrite parse_norm. exact E.
Qed.

(* the helper on the entry that came back = the helper on the original = the original's signature *)
Lemma helper_of_back ty e :
  Forall parses (e_inputs e) -> forallb explicit_widths (e_inputs e) = true ->
  forall outs,
  let e' := mkEntry ty (e_name e) (map norm (e_inputs e)) outs in
  SignatureCtx e' = SignatureCtx e ->
  SignatureCtx e = Ok (ABIMethodToSignature e') /\ ABIMethodToSignature e' = ABIMethodToSignature e.
Proof.
  intros HP HE outs e' HS.
  assert (H1 : SignatureCtx e = Ok (ABIMethodToSignature e)) by (apply signature_helper; assumption).
  assert (H2 : SignatureCtx e' = Ok (ABIMethodToSignature e')).
  { apply signature_helper; cbn [e' e_inputs]; [apply parses_norm_list|apply explicit_widths_norm_list]; assumption. }
  rewrite HS, H1 in H2. injection H2 as H2. split; [rewrite H1, H2; reflexivity|symmetry; exact H2].
Qed.

Theorem roundtrip_then_helper e :
  forallb explicit_widths (e_inputs e) = true ->
  (valid_params (e_inputs e) -> valid_params (e_outputs e) ->
   exists m, convertABIFunctionToFFIMethod e = Ok m /\
     forall pins rets, Forall2 faithful pins (m_params m) -> Forall2 faithful rets (m_returns m) ->
       exists e', ConvertFFIMethodToABI (m_name m) pins rets = Ok e' /\
                  SignatureCtx e = Ok (ABIMethodToSignature e') /\ ABIMethodToSignature e' = ABIMethodToSignature e) /\
  (valid_params (e_inputs e) ->
   exists m, convertABIEventToFFIEvent e = Ok m /\
     forall pins, Forall2 faithful pins (m_params m) ->
       exists e', ConvertFFIEventDefinitionToABI (m_name m) pins = Ok e' /\
                  SignatureCtx e = Ok (ABIMethodToSignature e') /\ ABIMethodToSignature e' = ABIMethodToSignature e) /\
  (valid_params (e_inputs e) ->
   exists m, convertABIErrorToFFIError e = Ok m /\
     forall pins, Forall2 faithful pins (m_params m) ->
       exists e', ConvertFFIErrorDefinitionToABI (m_name m) pins = Ok e' /\
                  SignatureCtx e = Ok (ABIMethodToSignature e') /\ ABIMethodToSignature e' = ABIMethodToSignature e).
Proof.
  intros HE. split; [|split].
  - intros VI VO. destruct (roundtrip_function e VI VO) as [m [Em [_ H]]]. exists m. split; [exact Em|].
    intros pins rets Fp Fr. destruct (H pins rets Fp Fr) as [Eb HS]. eexists. split; [exact Eb|].
    apply (helper_of_back EFunction e (proj1 VI) HE _ HS).
  - intros VI. destruct (roundtrip_event e VI) as [m [Em [_ H]]]. exists m. split; [exact Em|].
    intros pins Fp. destruct (H pins Fp) as [Eb HS]. eexists. split; [exact Eb|].
    apply (helper_of_back EEvent e (proj1 VI) HE _ HS).
  - intros VI. destruct (roundtrip_error e VI) as [m [Em [_ H]]]. exists m. split; [exact Em|].
    intros pins Fp. destruct (H pins Fp) as [Eb HS]. eexists. split; [exact Eb|].
    apply (helper_of_back EError e (proj1 VI) HE _ HS).
Qed.

(* ---------- every parameter is converted on its own ----------
   The result of a conversion is the list of the results of its parameters, each a function of that
   parameter's own (name, verdict, decoded schema) alone: not of its position, its neighbours, the
   entry name or kind, or whether it stands among the inputs or the outputs.  (On the implementation
   this is what the harness's repeated / reordered / renamed / concurrent conversions search a
   counterexample for: state kept from one parameter or call to the next.) *)
Lemma params_ok_iff l : forall xs,
  convertFFIParamsToABIParameters l = Ok xs <-> Forall2 (fun p x => convertFFIParam p = Ok x) l xs.
Proof.
  induction l as [|p r IH]; intros xs; cbn [convertFFIParamsToABIParameters].
  - split; [intros H; inversion H; constructor|intros H; inversion H; reflexivity].
  - split.
    + intros H. destruct (convertFFIParam p) as [x|e|] eqn:E; cbn [bind] in H; try discriminate.
      destruct (convertFFIParamsToABIParameters r) as [ys|e|] eqn:E2; cbn [bind] in H; try discriminate.
      injection H as <-. constructor; [exact E|]. apply IH. reflexivity.
    + intros H. inversion H as [|? x ? ys Hx Hr]; subst. rewrite Hx. cbn [bind].
      apply IH in Hr. rewrite Hr. reflexivity.
Qed.

Lemma params_not_ok_iff l :
  (forall xs, convertFFIParamsToABIParameters l <> Ok xs) <-> Exists (fun p => forall x, convertFFIParam p <> Ok x) l.
Proof.
  induction l as [|p r IH]; cbn [convertFFIParamsToABIParameters].
  - split; [intros H; exfalso; apply (H []); reflexivity|intros H; inversion H].
  - split.
    + intros H. destruct (convertFFIParam p) as [x|e|] eqn:E.
      * apply Exists_cons_tl. apply IH. intros xs E2. apply (H (x :: xs)). cbn [bind]. rewrite E2. reflexivity.
      * apply Exists_cons_hd. intros x Hx. rewrite E in Hx. discriminate.
      * apply Exists_cons_hd. intros x Hx. rewrite E in Hx. discriminate.
    + intros H xs E. inversion H as [? ? Hp|? ? Hr]; subst.
      * destruct (convertFFIParam p) as [x|e|] eqn:Ep; cbn [bind] in E; try discriminate. apply (Hp x). reflexivity.
      * pose proof (proj2 IH Hr) as Hr'. clear IH Hr. rename Hr' into Hr. destruct (convertFFIParam p) as [x|e|] eqn:Ep; cbn [bind] in E; try discriminate.
        destruct (convertFFIParamsToABIParameters r) as [ys|e|] eqn:E2; cbn [bind] in E; try discriminate.
        apply (Hr ys). reflexivity.
Qed.

Theorem conversion_per_parameter name params returns :
  (forall e, ConvertFFIMethodToABI name params returns = Ok e <->
     exists ins outs, Forall2 (fun p x => convertFFIParam p = Ok x) params ins /\
                      Forall2 (fun p x => convertFFIParam p = Ok x) returns outs /\
                      e = mkEntry EFunction name ins outs) /\
  (forall e, ConvertFFIEventDefinitionToABI name params = Ok e <->
     exists ins, Forall2 (fun p x => convertFFIParam p = Ok x) params ins /\ e = mkEntry EEvent name ins []) /\
  (forall e, ConvertFFIErrorDefinitionToABI name params = Ok e <->
     exists ins, Forall2 (fun p x => convertFFIParam p = Ok x) params ins /\ e = mkEntry EError name ins []) /\
  (* and a definition is refused exactly when one of its parameters is *)
  ((forall e, ConvertFFIMethodToABI name params returns <> Ok e) <->
     Exists (fun p => forall x, convertFFIParam p <> Ok x) (params ++ returns)) /\
  ((forall e, ConvertFFIEventDefinitionToABI name params <> Ok e) <->
     Exists (fun p => forall x, convertFFIParam p <> Ok x) params).
Proof.
  unfold ConvertFFIMethodToABI, ConvertFFIEventDefinitionToABI, ConvertFFIErrorDefinitionToABI.
  split; [|split; [|split; [|split]]].
  - intros e. split.
    + intros H. destruct (convertFFIParamsToABIParameters params) as [i|?|] eqn:Ei; cbn [bind] in H; try discriminate.
      destruct (convertFFIParamsToABIParameters returns) as [o|?|] eqn:Eo; cbn [bind] in H; try discriminate.
      injection H as <-. exists i, o. split; [apply params_ok_iff; exact Ei|]. split; [apply params_ok_iff; exact Eo|reflexivity].
    + intros [i [o [Hi [Ho ->]]]]. apply params_ok_iff in Hi. apply params_ok_iff in Ho. rewrite Hi, Ho. reflexivity.
  - intros e. split.
    + intros H. destruct (convertFFIParamsToABIParameters params) as [i|?|] eqn:Ei; cbn [bind] in H; try discriminate.
      injection H as <-. exists i. split; [apply params_ok_iff; exact Ei|reflexivity].
    + intros [i [Hi ->]]. apply params_ok_iff in Hi. rewrite Hi. reflexivity.
  - intros e. split.
    + intros H. destruct (convertFFIParamsToABIParameters params) as [i|?|] eqn:Ei; cbn [bind] in H; try discriminate.
      injection H as <-. exists i. split; [apply params_ok_iff; exact Ei|reflexivity].
    + intros [i [Hi ->]]. apply params_ok_iff in Hi. rewrite Hi. reflexivity.
  - rewrite Exists_app. rewrite <- !params_not_ok_iff. split.
    + intros H. destruct (convertFFIParamsToABIParameters params) as [i|?|] eqn:Ei.
      * right. intros o Eo. apply (H (mkEntry EFunction name i o)). rewrite Eo. reflexivity.
      * left. intros xs; discriminate.
      * left. intros xs; discriminate.
    + intros [H|H] e E.
      * destruct (convertFFIParamsToABIParameters params) as [i|?|] eqn:Ei; cbn [bind] in E; try discriminate. apply (H i). reflexivity.
      * destruct (convertFFIParamsToABIParameters params) as [i|?|] eqn:Ei; cbn [bind] in E; try discriminate.
        destruct (convertFFIParamsToABIParameters returns) as [o|?|] eqn:Eo; cbn [bind] in E; try discriminate. apply (H o). reflexivity.
  - rewrite <- params_not_ok_iff. split.
    + intros H xs E. apply (H (mkEntry EEvent name xs [])). rewrite E. reflexivity.
    + intros H e E. destruct (convertFFIParamsToABIParameters params) as [i|?|] eqn:Ei; cbn [bind] in E; try discriminate. apply (H i). reflexivity.
Qed.

(* ---------- parameter lists with nil entries ("params":[null]) ---------- *)

Lemma opt_params_some l : convertFFIParamsToABIParameters_opt (map Some l) = convertFFIParamsToABIParameters l.
Proof. induction l as [|p r IH]; cbn; [reflexivity|]. rewrite IH. reflexivity. Qed.

Lemma opt_params_total l : convertFFIParamsToABIParameters_opt l <> Panic.
Proof.
  induction l as [|[p|] l IH]; cbn; try discriminate.
  pose proof (convertFFIParam_total p) as T.
  destruct (convertFFIParam p); cbn; try congruence.
  destruct (convertFFIParamsToABIParameters_opt l); cbn; congruence.
Qed.

Lemma opt_params_nil_rejected l : In None l -> exists e, convertFFIParamsToABIParameters_opt l = Err e.
Proof.
  induction l as [|[p|] l IH]; cbn; intros H.
  - destruct H.
  - destruct H as [H|H]; [discriminate|]. destruct (IH H) as [e E]. rewrite E.
    pose proof (convertFFIParam_total p) as T.
    destruct (convertFFIParam p); cbn; eauto. congruence.
  - eauto.
Qed.

Theorem conversion_total_nil_params :
  forall (name : bytes) (params returns : list (option pin)),
    ConvertFFIMethodToABI_opt name params returns <> Panic /\
    ConvertFFIEventDefinitionToABI_opt name params <> Panic /\
    ConvertFFIErrorDefinitionToABI_opt name params <> Panic.
Proof.
  intros. unfold ConvertFFIMethodToABI_opt, ConvertFFIEventDefinitionToABI_opt, ConvertFFIErrorDefinitionToABI_opt.
  pose proof (opt_params_total params) as T1.
  pose proof (opt_params_total returns) as T2.
  destruct (convertFFIParamsToABIParameters_opt params); cbn; try congruence;
    repeat split; try discriminate.
  destruct (convertFFIParamsToABIParameters_opt returns); cbn; congruence.
Qed.

(* a definition with a nil entry anywhere is an error, and one without is converted as before *)
Theorem nil_param_rejected :
  forall (name : bytes) (params returns : list (option pin)),
    (In None (params ++ returns) -> exists e, ConvertFFIMethodToABI_opt name params returns = Err e) /\
    (In None params -> exists e, ConvertFFIEventDefinitionToABI_opt name params = Err e) /\
    (In None params -> exists e, ConvertFFIErrorDefinitionToABI_opt name params = Err e).
Proof.
  intros. unfold ConvertFFIMethodToABI_opt, ConvertFFIEventDefinitionToABI_opt, ConvertFFIErrorDefinitionToABI_opt.
  split; [|split].
  - intros H. apply in_app_or in H. destruct H as [H|H].
    + destruct (opt_params_nil_rejected _ H) as [e E]. rewrite E. cbn. eauto.
    + destruct (opt_params_nil_rejected _ H) as [e E]. rewrite E.
      pose proof (opt_params_total params) as T.
      destruct (convertFFIParamsToABIParameters_opt params); cbn; eauto. congruence.
  - intros H. destruct (opt_params_nil_rejected _ H) as [e E]. rewrite E. cbn. eauto.
  - intros H. destruct (opt_params_nil_rejected _ H) as [e E]. rewrite E. cbn. eauto.
Qed.

Theorem opt_conversions_some :
  forall (name : bytes) (params returns : list pin),
    ConvertFFIMethodToABI_opt name (map Some params) (map Some returns) = ConvertFFIMethodToABI name params returns /\
    ConvertFFIEventDefinitionToABI_opt name (map Some params) = ConvertFFIEventDefinitionToABI name params /\
    ConvertFFIErrorDefinitionToABI_opt name (map Some params) = ConvertFFIErrorDefinitionToABI name params.
Proof.
  intros. unfold ConvertFFIMethodToABI_opt, ConvertFFIEventDefinitionToABI_opt, ConvertFFIErrorDefinitionToABI_opt.
  rewrite !opt_params_some. repeat split.
Qed.
