(* Proofs for C20, part 4: ABIMethodToSignature equals Entry.Signature on every parameter list the ABI
   type parser accepts (aliases uint / int / fixed / ufixed are written in full by both since the fix of
   the helper's alias branch; the guarded statements of the earlier rounds are kept as corollaries). *)
From Coq Require Import String.
From Coq Require Import List NArith ZArith Bool Arith Lia.
From Coq Require Import Init.Byte.
From FFS Require Import Base.Res Base.Bytes Gen.AbiConsts AbiType.Syntax AbiType.Model
     AbiType.ProofsArr AbiType.ProofsElem AbiType.ProofsLeaf AbiType.ProofsMain
     Ffi.Model Ffi.Spec Ffi.Proofs Ffi.ProofsRound.
Import ListNotations.

Definition tuple_b : bytes := ascii_bytes "tuple".

Lemma has_prefix_take_lower pre : forall T,
  forallb is_lower pre = true -> has_prefix pre T = true -> has_prefix pre (take_lower T) = true.
Proof.
  induction pre as [|a pre IH]; intros T L H; [reflexivity|].
  destruct T as [|b T]; [discriminate|]. cbn [has_prefix forallb] in *.
  apply andb_prop in L as [La Lp]. apply andb_prop in H as [Hab Hp].
  destruct (byte_eqb_spec a b) as [<-|]; [|discriminate].
  cbn [take_lower]. rewrite La. cbn [has_prefix]. rewrite (IH T Lp Hp).
  destruct (byte_eqb_spec a a); [reflexivity|congruence].
Qed.

Lemma et_name_not_tuple et : In et elementary_types -> has_prefix tuple_b (et_name_bytes et) = false.
Proof. intros H. cbn in H. repeat (destruct H as [<-|H]; [reflexivity|]). contradiction. Qed.

Lemma explicit_default et : In et elementary_types -> is_alias (et_name_bytes et) = false ->
  et_default_suffix et = ""%string.
Proof.
  intros H. cbn in H. repeat (destruct H as [<-|H]; [cbn; intros; try reflexivity; try discriminate|]).
  contradiction.
Qed.

Lemma base_text_until t : base_text t = until ch_lbrack t.
Proof. induction t as [|b t IH]; [reflexivity|]. cbn [base_text until]. unfold ch_lbrack. rewrite IH. reflexivity. Qed.

Lemma lower_no_lbrack s : lower_name s -> no_byte ch_lbrack s.
Proof.
  induction 1 as [|b s Hb _ IH]; constructor; [|exact IH].
  unfold is_lower in Hb. unfold byte_eqb. apply andb_prop in Hb as [H1 H2].
  apply N.leb_le in H1, H2. apply N.eqb_neq. change (b2n ch_lbrack) with 91%N. lia.
Qed.

Lemma until_app_no c a r : no_byte c a -> until c (a ++ r) = a ++ until c r.
Proof. induction 1 as [|b a Hb _ IH]; [reflexivity|]. cbn [app until]. rewrite Hb, IH. reflexivity. Qed.

(* the text before the dimensions is the base name followed by the suffix *)
Lemma base_text_split T :
  let sa := splitElementaryTypeSuffix T (length (take_lower T)) in
  base_text T = take_lower T ++ fst sa.
Proof.
  cbv zeta. destruct (split_decomp T) as [E Ha]. destruct (take_lower_decomp T) as (rest & Er & Hl).
  set (sa := splitElementaryTypeSuffix T (length (take_lower T))) in *.
  assert (Hs : no_byte ch_lbrack (fst sa)).
  { unfold sa, splitElementaryTypeSuffix. cbn [fst].
    destruct (until_decomp ch_lbrack (skipn (length (take_lower T)) T)) as (r & _ & Hn & _). exact Hn. }
  rewrite base_text_until. rewrite E at 1.
  rewrite (until_app_no _ _ _ (lower_no_lbrack _ Hl)). f_equal.
  destruct Ha as [->|(r & ->)]; [rewrite app_nil_r; apply until_all; exact Hs|apply until_stop; exact Hs].
Qed.

(* the text from the first '[' on is the dimensions *)
Lemma from_lbrack_app_no a r : no_byte ch_lbrack a -> from_lbrack (a ++ r) = from_lbrack r.
Proof. induction 1 as [|b a Hb _ IH]; [reflexivity|]. cbn [app from_lbrack]. rewrite Hb, IH. reflexivity. Qed.

Lemma from_lbrack_split T :
  let sa := splitElementaryTypeSuffix T (length (take_lower T)) in
  from_lbrack T = snd sa.
Proof.
  cbv zeta. destruct (split_decomp T) as [E Ha]. destruct (take_lower_decomp T) as (rest & Er & Hl).
  set (sa := splitElementaryTypeSuffix T (length (take_lower T))) in *.
  assert (Hs : no_byte ch_lbrack (fst sa)).
  { unfold sa, splitElementaryTypeSuffix. cbn [fst].
    destruct (until_decomp ch_lbrack (skipn (length (take_lower T)) T)) as (r & _ & Hn & _). exact Hn. }
  rewrite E at 1.
  rewrite (from_lbrack_app_no _ _ (lower_no_lbrack _ Hl)), (from_lbrack_app_no _ _ Hs).
  destruct Ha as [->|(r & ->)]; [reflexivity|]. cbn [from_lbrack]. rewrite byte_eqb_refl. reflexivity.
Qed.

Lemma before_lbrack_base t : before_lbrack t = base_text t.
Proof. induction t as [|b t IH]; [reflexivity|]. cbn [before_lbrack base_text]. unfold ch_lbrack. rewrite IH. reflexivity. Qed.

(* the helper's alias table against the parser's default suffixes *)
Lemma alias_default et : In et elementary_types ->
  match typeAliases (et_name_bytes et) with
  | Some f => f = et_name_bytes et ++ ascii_bytes (et_default_suffix et)
  | None => et_default_suffix et = ""%string
  end.
Proof.
  intros H. cbn in H. repeat (destruct H as [<-|H]; [vm_compute; reflexivity|]). contradiction.
Qed.

Lemma alias_none et c r : In et elementary_types -> typeAliases (et_name_bytes et ++ c :: r) = None.
Proof.
  intros H. cbn in H. repeat (destruct H as [<-|H]; [reflexivity|]). contradiction.
Qed.

Lemma parse_elementary_shape et sfx tc :
  parse_elementary et sfx = Ok tc -> exists m n, tc = CElem et (eff_suffix et sfx) m n.
Proof.
  unfold parse_elementary. fold (eff_suffix et sfx). intros H.
  destruct (et_suffix et);
    repeat match type of H with
           | (if ?c then _ else _) = _ => destruct c
           | bind ?r _ = _ => destruct r; cbn [bind] in H
           | Ok _ = Ok _ => injection H as <-
           | _ => discriminate
           end; eauto.
Qed.

Lemma tc_string_list_ok cs : forall children,
  Forall (fun c => forall tc, parseABIParameterComponents (erase c) = Ok tc ->
                              tc_string tc = Ok (component_type_string c)) cs ->
  Forall2 (fun c ch => parseABIParameterComponents (erase c) = Ok ch) cs children ->
  tc_string_list children = Ok (map component_type_string cs).
Proof.
  induction cs as [|c cs IH]; intros children HF H2; inversion H2 as [|? ch ? chs P1 P2]; subst; [reflexivity|].
  inversion HF as [|? ? Hc Hcs]; subst.
  cbn [tc_string_list map]. rewrite (Hc _ P1). cbn [bind]. rewrite (IH _ Hcs P2). reflexivity.
Qed.

Lemma helper_param_all p : forall tc,
  parseABIParameterComponents (erase p) = Ok tc ->
  tc_string tc = Ok (component_type_string p).
Proof.
  induction p as [n T i x cs IH] using fparam_ind'. intros tc HP.
  cbn [erase] in HP. rewrite parse_unfold in HP. cbv zeta in HP.
  pose proof (split_decomp T) as SD. pose proof (base_text_split T) as BT. pose proof (from_lbrack_split T) as FL.
  cbv zeta in SD, BT, FL.
  set (sa := splitElementaryTypeSuffix T (length (take_lower T))) in *.
  destruct SD as [ET Harr].
  destruct (parse_base (take_lower T) (fst sa) (map erase cs)) as [base| |] eqn:EB; cbn [bind] in HP; try discriminate.
  (* rendering of the base, then of the dimensions *)
  assert (exists sbase, tc_string base = Ok sbase /\ component_type_string (FParam n T i x cs) = sbase ++ snd sa)
    as (sbase & Sb & Cs).
  { unfold parse_base in EB.
    destruct (bytes_eqb (take_lower T) (ascii_bytes tuple_type_string)) eqn:Etu.
    - apply bytes_eqb_eq in Etu.
      destruct (is_nil (fst sa)) eqn:En; cbn [negb] in EB; [|discriminate].
      destruct (parse_list (map erase cs)) as [children| |] eqn:EL; cbn [bind] in EB; try discriminate.
      injection EB as <-. apply parse_list_forall2 in EL.
      assert (F2 : Forall2 (fun c ch => parseABIParameterComponents (erase c) = Ok ch) cs children).
      { clear -EL. remember (map erase cs) as l eqn:El. revert cs El.
        induction EL as [|a c l chs Ha _ IHl]; intros [|c0 cs] El; try discriminate; constructor.
        - cbn in El. injection El as -> _. exact Ha.
        - apply IHl. cbn in El. injection El as _ ->. reflexivity. }
      rewrite tc_string_tuple, (tc_string_list_ok cs children IH F2). cbn [bind].
      eexists. split; [reflexivity|].
      assert (Efs : fst sa = []) by (destruct (fst sa); [reflexivity|discriminate]).
      rewrite Efs, Etu in ET. cbn [app] in ET.
      cbn [component_type_string]. rewrite ET.
      change (ascii_bytes tuple_type_string ++ snd sa) with (tuple_b ++ snd sa).
      replace (has_prefix (ascii_bytes "tuple") (tuple_b ++ snd sa)) with true by reflexivity.
      replace (skipn 5 (tuple_b ++ snd sa)) with (snd sa) by reflexivity.
      rewrite <- !app_assoc. reflexivity.
    - destruct (lookup_et (take_lower T)) as [et|] eqn:EL; [|discriminate].
      destruct (lookup_et_inv _ _ EL) as [Hin Hname].
      destruct (parse_elementary_shape _ _ _ EB) as (m & n0 & ->).
      cbn [tc_string]. eexists. split; [reflexivity|].
      (* the helper does not take the type for a tuple *)
      assert (NT : has_prefix (ascii_bytes "tuple") T = false).
      { destruct (has_prefix (ascii_bytes "tuple") T) eqn:HPf; [|reflexivity].
        apply has_prefix_take_lower in HPf; [|reflexivity].
        rewrite Hname in HPf. pose proof (et_name_not_tuple et Hin) as X. unfold tuple_b in X. congruence. }
      cbn [component_type_string]. rewrite NT.
      (* an alias is written in full: the default suffix of the parser *)
      unfold alias_in_full. rewrite before_lbrack_base, BT, FL, Hname.
      unfold eff_suffix. destruct (fst sa) as [|c r] eqn:Ef; cbn [is_nil].
      + rewrite app_nil_r. pose proof (alias_default et Hin) as AD.
        destruct (typeAliases (et_name_bytes et)) as [f|].
        * rewrite AD. reflexivity.
        * rewrite AD. cbn [ascii_bytes]. rewrite app_nil_r. rewrite ET at 1. rewrite Hname. reflexivity.
      + rewrite (alias_none et c r Hin). rewrite ET at 1. rewrite Hname, <- app_assoc. reflexivity. }
  destruct (negb (is_nil (snd sa))) eqn:En.
  - rewrite (parseArrays_renders _ _ _ _ _ HP Sb), Cs. reflexivity.
  - injection HP as <-. apply negb_false_iff in En.
    assert (snd sa = []) as Ea by (destruct (snd sa); [reflexivity|discriminate]).
    rewrite Sb, Cs, Ea, app_nil_r. reflexivity.
Qed.

Lemma helper_param p : forall tc,
  parseABIParameterComponents (erase p) = Ok tc -> explicit_widths p = true ->
  tc_string tc = Ok (component_type_string p).
Proof. intros tc H _. exact (helper_param_all p tc H). Qed.

Lemma sig_strings_helper_all l :
  Forall parses l ->
  sig_strings l = Ok (map (fun p => ABIArgumentToTypeString (fp_type p) (fp_comps p)) l).
Proof.
  induction l as [|p l IH]; intros HP; [reflexivity|].
  inversion HP as [|? ? [tc Hp] Hl]; subst.
  cbn [sig_strings map]. unfold SignatureString, Validate. rewrite Hp. cbn [bind].
  rewrite (helper_param_all p tc Hp). cbn [bind]. rewrite (IH Hl). cbn [bind].
  destruct p as [n t i x cs]. reflexivity.
Qed.

(* the stand-alone helper returns the entry's own signature, for every parameter list the ABI type
   parser accepts (aliases included) *)
Theorem signature_helper_all e :
  Forall parses (e_inputs e) -> SignatureCtx e = Ok (ABIMethodToSignature e).
Proof.
  intros HP. unfold SignatureCtx, ABIMethodToSignature.
  rewrite (sig_strings_helper_all _ HP). cbn [bind].
  destruct (e_inputs e); reflexivity.
Qed.

Lemma sig_strings_helper l :
  Forall parses l -> forallb explicit_widths l = true ->
  sig_strings l = Ok (map (fun p => ABIArgumentToTypeString (fp_type p) (fp_comps p)) l).
Proof.
  induction l as [|p l IH]; intros HP HE; [reflexivity|].
  inversion HP as [|? ? [tc Hp] Hl]; subst. cbn [forallb] in HE. apply andb_prop in HE as [Ep El].
  cbn [sig_strings map]. unfold SignatureString, Validate. rewrite Hp. cbn [bind].
  rewrite (helper_param p tc Hp Ep). cbn [bind]. rewrite (IH Hl El). cbn [bind].
  destruct p as [n t i x cs]. reflexivity.
Qed.

Theorem signature_helper e :
  Forall parses (e_inputs e) -> forallb explicit_widths (e_inputs e) = true ->
  SignatureCtx e = Ok (ABIMethodToSignature e).
Proof.
  intros HP HE. unfold SignatureCtx, ABIMethodToSignature.
  rewrite (sig_strings_helper _ HP HE). cbn [bind].
  destruct (e_inputs e); reflexivity.
Qed.

(* "the parser accepts the parameter" is "the parameter spells a type of Abi/Types.v" (C13) *)
Theorem parses_iff_grammar p :
  parses p <->
  exists t, AbiType.Spec.valid_type t = true /\ AbiType.Spec.spelling t (fp_type p) (map erase (fp_comps p)).
Proof.
  destruct p as [n T i x cs]. unfold parses. cbn [erase fp_type fp_comps]. split.
  - intros [tc H]. apply accept_iff_grammar in H. destruct H as (t & V & S & _). eauto.
  - intros (t & V & S). destruct (validate_complete t T (map erase cs) V S) as (tc & H & _). eauto.
Qed.
