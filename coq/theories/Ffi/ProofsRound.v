(* Proofs for C20, part 3: ABI -> FFI -> ABI gives back the entry (same types, names, nesting,
   internal types, indexed flags; hence the same signature). *)
From Coq Require Import String.
From Coq Require Import List NArith ZArith Bool Arith Lia Permutation.
From Coq Require Import Init.Byte.
From FFS Require Import Base.Res Base.Bytes Gen.AbiConsts AbiType.Syntax AbiType.Model
     AbiType.ProofsArr AbiType.ProofsMain Ffi.Model Ffi.Spec Ffi.Proofs.
Import ListNotations.

Section fparam_ind'.
  Variable P : fparam -> Prop.
  Hypothesis H : forall n t i x cs, Forall P cs -> P (FParam n t i x cs).
  Fixpoint fparam_ind' (p : fparam) : P p :=
    match p with
    | FParam n t i x cs =>
        H n t i x cs ((fix go (l : list fparam) : Forall P l :=
                         match l with [] => Forall_nil P | c :: r => Forall_cons c (fparam_ind' c) (go r) end) cs)
    end.
End fparam_ind'.




Lemma norm_clean p : clean p -> norm p = p.
Proof.
  induction p as [n t i x cs IH] using fparam_ind'. intros C. inversion C as [? ? ? ? ? Hc Hf]; subst.
  cbn [norm]. destruct (is_tuple_type t) eqn:E.
  - f_equal. rewrite Forall_forall in IH, Hf. rewrite <- (map_id cs) at 2.
    apply map_ext_in. intros c Hc'. apply IH; auto.
  - rewrite (Hc eq_refl). reflexivity.
Qed.

(* ---------- the type parser ignores what norm drops ---------- *)
Lemma parse_list_ext (l l' : list param) :
  Forall2 (fun a b => parseABIParameterComponents a = parseABIParameterComponents b) l l' ->
  parse_list l = parse_list l'.
Proof. induction 1 as [|a b l l' E _ IH]; cbn [parse_list]; [reflexivity|]. rewrite E, IH. reflexivity. Qed.

Lemma parse_norm p : parseABIParameterComponents (erase (norm p)) = parseABIParameterComponents (erase p).
Proof.
  induction p as [n t i x cs IH] using fparam_ind'.
  cbn [norm erase]. rewrite !parse_unfold. cbv zeta.
  f_equal. unfold parse_base, is_tuple_type.
  destruct (bytes_eqb (take_lower t) (ascii_bytes tuple_type_string)); [|reflexivity].
  destruct (negb _); [reflexivity|]. f_equal.
  apply parse_list_ext. rewrite map_map.
  induction IH as [|c r Hc _ IHr]; cbn; constructor; auto.
Qed.

(* ---------- getSchemaForABIInput, unfolded ---------- *)
Definition det_of (p : fparam) : details := mkDetails (fp_type p) (fp_internal p) (fp_indexed p) None.

Fixpoint tuple_props (cs : list tcomp) (ps : list fparam) (i : nat)
         (acc : list (bytes * option schema)) : res (list (bytes * option schema)) :=
  match cs, ps with
  | [], [] => Ok acc
  | c :: cs', cp :: ps' =>
      do s <- getSchemaForABIInput cp c;
      do s' <- set_index i s;
      tuple_props cs' ps' (S i) (map_set (fp_name cp) (Some s') acc)
  | _, _ => Panic
  end.

Lemma getSchema_tuple p children :
  getSchemaForABIInput p (CTuple children) =
  do props <- tuple_props children (fp_comps p) 0%nat [];
  Ok (Schema jsonObjectType None (Some (det_of p)) props None).
Proof.
  cbn [getSchemaForABIInput].
  match goal with |- bind (?F children (fp_comps p) 0%nat []) _ = _ =>
    assert (E : forall cs ps i acc, F cs ps i acc = tuple_props cs ps i acc)
  end.
  { induction cs as [|c cs IH]; intros [|cp ps] i acc; reflexivity. }
  rewrite E. reflexivity.
Qed.

Definition lift (child : schema) : schema :=
  match child with
  | Schema t o d pr it => Schema jsonArrayType None d [] (Some (Schema t o None pr it))
  end.
Definition strip (s : schema) : schema :=
  match s with Schema t o _ pr it => Schema t o None pr it end.

Lemma getSchema_wrap1 p tc d :
  getSchemaForABIInput p (wrap1_tc tc d) = do child <- getSchemaForABIInput p tc; Ok (lift child).
Proof.
  destruct d; cbn [wrap1_tc getSchemaForABIInput];
    destruct (getSchemaForABIInput p tc) as [[t o dd pr it]| |]; reflexivity.
Qed.

Lemma getSchema_wrap p ds : forall tc sb,
  getSchemaForABIInput p tc = Ok sb ->
  getSchemaForABIInput p (wrap_tc tc ds) = Ok (Nat.iter (length ds) lift sb).
Proof.
  induction ds as [|d ds IH] using rev_ind; intros tc sb H; [exact H|].
  unfold wrap_tc. rewrite fold_left_app. cbn [fold_left]. fold (wrap_tc tc ds).
  rewrite getSchema_wrap1, (IH tc sb H). cbn [bind].
  rewrite app_length. cbn [length]. rewrite Nat.add_1_r. reflexivity.
Qed.

(* ---------- processField on the generated shape ---------- *)
Lemma iter_lift_S k sb : Nat.iter (S k) lift sb = lift (Nat.iter k lift sb).
Proof. reflexivity. Qed.

Lemma not_array_object : bytes_eqb jsonObjectType jsonArrayType = false. Proof. reflexivity. Qed.

Lemma down_nest k : forall sb, bytes_eqb (s_type sb) jsonArrayType = false ->
  down (strip (Nat.iter k lift sb)) = buildABIParameterArrayForObject PF (s_props sb).
Proof.
  induction k as [|k IH]; intros sb Ht.
  - destruct sb as [t o d pr it]. cbn [Nat.iter nat_rect strip]. rewrite down_unfold. cbn [s_type] in Ht. rewrite Ht. reflexivity.
  - rewrite iter_lift_S. destruct (Nat.iter k lift sb) as [t o d pr it] eqn:E.
    cbn [lift strip]. rewrite down_unfold. rewrite bytes_eqb_refl.
    change (Schema t o None pr it) with (strip (Schema t o d pr it)). rewrite <- E. apply IH. exact Ht.
Qed.

Lemma iter_lift_details k sb : s_details (Nat.iter k lift sb) = s_details sb.
Proof. induction k; [reflexivity|]. rewrite iter_lift_S. destruct (Nat.iter k lift sb) as [t o d pr it]; cbn [lift s_details] in *. exact IHk. Qed.

(* processField on the schema of a parameter with k array dimensions over the base schema sb *)
Lemma process_nest name k sb d :
  s_details sb = Some d ->
  bytes_eqb (s_type sb) jsonArrayType = false ->
  (bytes_eqb (s_type sb) jsonObjectType = false -> s_props sb = []) ->
  processSchema name (Nat.iter k lift sb) =
  do comps <- buildABIParameterArrayForObject PF (s_props sb);
  finish (Nat.iter k lift sb) (FParam name (d_type d) (d_internal d) (d_indexed d) comps).
Proof.
  intros Hd Ha Ho. destruct k as [|k].
  - destruct sb as [t o dd pr it]. cbn [s_details s_type s_props Nat.iter nat_rect] in *. subst dd. rewrite processSchema_unfold.
    unfold components_of. rewrite Ha. destruct (bytes_eqb t jsonObjectType); [reflexivity|].
    rewrite (Ho eq_refl). reflexivity.
  - rewrite iter_lift_S. pose proof (iter_lift_details k sb) as D. rewrite Hd in D.
    destruct (Nat.iter k lift sb) as [t o dd pr it] eqn:E. cbn [s_details] in D. subst dd.
    cbn [lift]. rewrite processSchema_unfold. unfold components_of.
    replace (bytes_eqb jsonArrayType jsonObjectType) with false by reflexivity.
    rewrite bytes_eqb_refl.
    change (Schema t o None pr it) with (strip (Schema t o (Some d) pr it)). rewrite <- E.
    rewrite (down_nest k sb Ha). reflexivity.
Qed.

(* ---------- the loop on properties that arrive in position order ---------- *)
Definition triple := (bytes * schema * fparam)%type.
Definition props_of (l : list triple) : list (bytes * option schema) :=
  map (fun t => (fst (fst t), Some (snd (fst t)))) l.
Definition results_of (l : list triple) : list fparam := map snd l.

Inductive ordered : nat -> list triple -> Prop :=
| O_nil j : ordered j []
| O_cons j k s r l :
    PF k (Some s) = Ok r -> prop_index (Some s) = Ok (Some (Z.of_nat j)) -> ordered (S j) l ->
    ordered j ((k, s, r) :: l).

Lemma slot_get_mid (done : list fparam) (rest : list (option fparam)) :
  slot_get (map Some done ++ None :: rest) (length done) = Ok None.
Proof.
  unfold slot_get. rewrite nth_error_app2; rewrite map_length; [|lia]. rewrite Nat.sub_diag. reflexivity.
Qed.

Lemma slot_set_mid (done : list fparam) rest v :
  slot_set (map Some done ++ None :: rest) (length done) v = Ok (map Some (done ++ [v]) ++ rest).
Proof.
  induction done as [|d done IH]; cbn; [reflexivity|]. rewrite IH. cbn. reflexivity.
Qed.

Lemma fill_in_order : forall l done,
  ordered (length done) l ->
  build_loop PF (props_of l) (map Some done ++ repeat None (length l)) = Ok (map Some (done ++ results_of l)).
Proof.
  induction l as [|[[k s] r] l IH]; intros done O.
  - cbn. rewrite !app_nil_r. reflexivity.
  - inversion O as [|? ? ? ? ? Hp Hi Ho]; subst.
    cbn [props_of map fst snd]. rewrite build_loop_unfold. unfold step.
    rewrite Hp. cbn [bind]. rewrite Hi. cbn [bind].
    replace ((Z.of_nat (length done) <? 0)%Z) with false by (symmetry; apply Z.ltb_ge; lia).
    cbn [length repeat].
    match goal with |- context [(?a <=? ?b)%Z] => replace (a <=? b)%Z with false end.
    2:{ symmetry. apply Z.leb_gt. rewrite app_length, map_length. cbn [length]. lia. }
    cbn [orb bind fst snd]. rewrite Nat2Z.id.
    rewrite slot_get_mid. cbn [bind]. rewrite slot_set_mid. cbn [bind].
    fold (props_of l).
    replace (length done + 1)%nat with (length (done ++ [r])) in * by (rewrite app_length; reflexivity).
    rewrite (IH (done ++ [r])).
    + rewrite <- app_assoc. reflexivity.
    + rewrite app_length. cbn [length]. rewrite Nat.add_1_r. exact Ho.
Qed.

Lemma collect_somes l : collect (map Some l) = Ok l.
Proof. induction l as [|p l IH]; cbn; [reflexivity|]. rewrite IH. reflexivity. Qed.

Lemma build_in_order l :
  ordered 0 l -> buildABIParameterArrayForObject PF (props_of l) = Ok (results_of l).
Proof.
  intros O. unfold buildABIParameterArrayForObject.
  replace (length (props_of l)) with (length l) by (unfold props_of; rewrite map_length; reflexivity).
  pose proof (fill_in_order l [] O) as F. cbn [map app length] in F. rewrite F. cbn [bind]. apply collect_somes.
Qed.

(* ---------- map_set on fresh keys ---------- *)
Lemma map_set_fresh {A} k (v : A) m : ~ In k (map fst m) -> map_set k v m = m ++ [(k, v)].
Proof.
  induction m as [|[k' v'] m IH]; intros H; cbn; [reflexivity|].
  destruct (bytes_eqb_spec k k') as [->|N]; [exfalso; apply H; left; reflexivity|].
  rewrite IH; [reflexivity|]. intros X. apply H. right. exact X.
Qed.

(* ---------- the index of a schema does not influence its own processing ---------- *)
Definition with_index (ix : option Z) (s : schema) : schema :=
  match s with
  | Schema t o (Some d) p it => Schema t o (Some (mkDetails (d_type d) (d_internal d) (d_indexed d) ix)) p it
  | _ => s
  end.

Lemma inputTypeValid_with_index ix s tc :
  inputTypeValidForTypeComponent (with_index ix s) tc = inputTypeValidForTypeComponent s tc.
Proof. destruct s as [t o [d|] p it]; reflexivity. Qed.

Lemma process_with_index nm ix s : processSchema nm (with_index ix s) = processSchema nm s.
Proof.
  destruct s as [t o [d|] p it]; [|reflexivity]. cbn [with_index]. rewrite !processSchema_unfold.
  cbn [d_type d_internal d_indexed]. destruct (components_of t p it); cbn [bind]; reflexivity.
Qed.

Lemma set_index_with i s d : s_details s = Some d -> set_index i s = Ok (with_index (Some (Z.of_nat i)) s).
Proof. destruct s as [t o dd p it]. cbn [s_details]. intros ->. reflexivity. Qed.

Lemma prop_index_with i s d : s_details s = Some d ->
  prop_index (Some (with_index (Some (Z.of_nat i)) s)) = Ok (Some (Z.of_nat i)).
Proof. destruct s as [t o dd p it]. cbn [s_details]. intros ->. reflexivity. Qed.

(* ---------- facts about the parser ---------- *)
Lemma parse_list_forall2 l : forall children, parse_list l = Ok children ->
  Forall2 (fun a c => parseABIParameterComponents a = Ok c) l children.
Proof.
  induction l as [|a l IH]; intros children H; cbn [parse_list] in H.
  - injection H as <-. constructor.
  - destruct (parseABIParameterComponents a) as [c| |] eqn:E; cbn [bind] in H; try discriminate.
    destruct (parse_list l) as [cs| |]; cbn [bind] in H; try discriminate.
    injection H as <-. constructor; auto.
Qed.

Lemma parse_elementary_elem et sfx tc :
  parse_elementary et sfx = Ok tc -> exists s m n, tc = CElem et s m n.
Proof.
  unfold parse_elementary. intros H.
  destruct (et_suffix et);
    repeat match type of H with
           | (if ?c then _ else _) = _ => destruct c
           | bind ?r _ = _ => destruct r; cbn [bind] in H
           | Ok _ = Ok _ => injection H as <-
           | _ => discriminate
           end; eauto.
Qed.

(* ---------- the JSON type written by ABI -> FFI passes the check of FFI -> ABI ---------- *)
Lemma input_type_valid_generated p tc s :
  getSchemaForABIInput p tc = Ok s -> inputTypeValidForTypeComponent s tc = Ok tt.
Proof.
  destruct tc as [et sfx m n|c k|c|children]; intros H.
  - cbn [getSchemaForABIInput] in H. unfold inputTypeValidForTypeComponent, elementary_enc_is, is_elementary.
    destruct (et_json et) eqn:E; cbn in H; injection H as <-; reflexivity.
  - change (CFixedArr c k) with (wrap1_tc c (Some k)) in H. rewrite getSchema_wrap1 in H.
    destruct (getSchemaForABIInput p c) as [[t o d pr it]| |]; cbn in H; try discriminate.
    injection H as <-. reflexivity.
  - change (CDynArr c) with (wrap1_tc c None) in H. rewrite getSchema_wrap1 in H.
    destruct (getSchemaForABIInput p c) as [[t o d pr it]| |]; cbn in H; try discriminate.
    injection H as <-. reflexivity.
  - rewrite getSchema_tuple in H.
    destruct (tuple_props children (fp_comps p) 0 []); cbn in H; try discriminate.
    injection H as <-. reflexivity.
Qed.

(* ... and so do the element descriptions it writes, at every dimension *)
Lemma items_valid_generated p : forall tc s,
  getSchemaForABIInput p tc = Ok s -> itemsValid (s_items s) tc = Ok tt.
Proof.
  induction tc as [et sfx m n|c IH k|c IH|children]; intros s H; try reflexivity.
  - change (CFixedArr c k) with (wrap1_tc c (Some k)) in H. rewrite getSchema_wrap1 in H.
    destruct (getSchemaForABIInput p c) as [[t o d pr it]| |] eqn:G; cbn [bind] in H; try discriminate.
    injection H as <-. cbn [lift s_items itemsValid].
    change (inputTypeValidForTypeComponent (Schema t o None pr it) c)
      with (inputTypeValidForTypeComponent (Schema t o d pr it) c).
    rewrite (input_type_valid_generated p c _ G). cbn [bind]. exact (IH _ eq_refl).
  - change (CDynArr c) with (wrap1_tc c None) in H. rewrite getSchema_wrap1 in H.
    destruct (getSchemaForABIInput p c) as [[t o d pr it]| |] eqn:G; cbn [bind] in H; try discriminate.
    injection H as <-. cbn [lift s_items itemsValid].
    change (inputTypeValidForTypeComponent (Schema t o None pr it) c)
      with (inputTypeValidForTypeComponent (Schema t o d pr it) c).
    rewrite (input_type_valid_generated p c _ G). cbn [bind]. exact (IH _ eq_refl).
Qed.

Definition rename (nm : bytes) (p : fparam) : fparam :=
  match p with FParam _ t i x cs => FParam nm t i x cs end.
Lemma rename_self p : rename (fp_name p) p = p. Proof. destruct p; reflexivity. Qed.
Lemma fp_name_norm p : fp_name (norm p) = fp_name p. Proof. destruct p; reflexivity. Qed.

(* what the round trip establishes for one parameter *)
Definition RT (p : fparam) : Prop :=
  forall tc, parseABIParameterComponents (erase p) = Ok tc -> wf_names p ->
  exists s, getSchemaForABIInput p tc = Ok s /\ s_details s = Some (det_of p) /\
            (forall nm, processSchema nm s = Ok (rename nm (norm p))).

Lemma tuple_props_spec : forall cs children i acc,
  Forall2 (fun c ch => parseABIParameterComponents (erase c) = Ok ch) cs children ->
  Forall RT cs -> Forall wf_names cs -> NoDup (map fp_name cs) ->
  (forall k, In k (map fst acc) -> ~ In k (map fp_name cs)) ->
  exists l, tuple_props children cs i acc = Ok (acc ++ props_of l) /\ ordered i l /\
            results_of l = map norm cs.
Proof.
  induction cs as [|c cs IH]; intros children i acc HP HR HW HN HD.
  - inversion HP; subst. exists []. cbn. rewrite app_nil_r. repeat split. constructor.
  - inversion HP as [|? ch ? chs Hc Hcs]; subst.
    inversion HR as [|? ? Rc Rcs]; inversion HW as [|? ? Wc Wcs]; inversion HN as [|? ? Nc Ncs]; subst.
    destruct (Rc ch Hc Wc) as (s & Gs & Ds & Ps).
    cbn [tuple_props]. rewrite Gs. cbn [bind]. rewrite (set_index_with i s _ Ds). cbn [bind].
    rewrite map_set_fresh.
    2:{ intros X. apply (HD _ X). left. reflexivity. }
    destruct (IH chs (S i) (acc ++ [(fp_name c, Some (with_index (Some (Z.of_nat i)) s))]) Hcs Rcs Wcs Ncs)
      as (l & Tl & Ol & Rl).
    { intros k Hk. rewrite map_app, in_app_iff in Hk. cbn in Hk. destruct Hk as [Hk|[<-|[]]].
      - intros X. apply (HD _ Hk). right. exact X.
      - exact Nc. }
    exists ((fp_name c, with_index (Some (Z.of_nat i)) s, norm c) :: l). split; [|split].
    + rewrite Tl. rewrite <- app_assoc. reflexivity.
    + constructor; [|eapply prop_index_with; eauto|exact Ol].
      cbn [PF]. rewrite process_with_index, Ps. rewrite <- fp_name_norm, rename_self. reflexivity.
    + unfold results_of in *. cbn [map snd]. rewrite Rl. reflexivity.
Qed.

Lemma elementary_json_shape j :
  let '(t, o) := elementary_json j in
  bytes_eqb t jsonArrayType = false /\ bytes_eqb t jsonObjectType = false.
Proof. destruct j; cbn; split; reflexivity. Qed.

Theorem roundtrip_param p : RT p.
Proof.
  induction p as [n T i x cs IH] using fparam_ind'.
  intros tc HP HW. inversion HW as [? ? ? ? ? HN HWc]; subst.
  cbn [erase] in HP. rewrite parse_unfold in HP. cbv zeta in HP.
  set (sa := splitElementaryTypeSuffix T (length (take_lower T))) in *.
  destruct (parse_base (take_lower T) (fst sa) (map erase cs)) as [base| |] eqn:EB; cbn [bind] in HP; try discriminate.
  (* tc = base wrapped in the array dimensions *)
  pose proof HP as HP0.
  assert (exists ds, tc = wrap_tc base ds) as [ds Etc].
  { destruct (negb (is_nil (snd sa))).
    - apply parseArrays_sound in HP. destruct HP as (ds & _ & _ & _ & ->). eauto.
    - injection HP as <-. exists []. reflexivity. }
  subst tc.
  set (p := FParam n T i x cs).
  (* the base schema *)
  assert (exists sb, getSchemaForABIInput p base = Ok sb /\ s_details sb = Some (det_of p) /\
                     bytes_eqb (s_type sb) jsonArrayType = false /\
                     (bytes_eqb (s_type sb) jsonObjectType = false -> s_props sb = []) /\
                     buildABIParameterArrayForObject PF (s_props sb) =
                       Ok (if is_tuple_type T then map norm cs else [])) as (sb & Gb & Db & Ab & Ob & Bb).
  { unfold parse_base in EB. unfold is_tuple_type.
    destruct (bytes_eqb (take_lower T) (ascii_bytes tuple_type_string)) eqn:ET.
    - destruct (negb (is_nil (fst sa))); [discriminate|].
      destruct (parse_list (map erase cs)) as [children| |] eqn:EL; cbn [bind] in EB; try discriminate.
      injection EB as <-. apply parse_list_forall2 in EL.
      assert (F2 : Forall2 (fun c ch => parseABIParameterComponents (erase c) = Ok ch) cs children).
      { clear -EL. remember (map erase cs) as l eqn:El. revert cs El.
        induction EL as [|a c l chs Ha _ IHl]; intros [|c0 cs] El; try discriminate; constructor.
        - cbn in El. injection El as -> _. exact Ha.
        - apply IHl. cbn in El. injection El as _ ->. reflexivity. }
      destruct (tuple_props_spec cs children 0%nat [] F2 IH HWc HN) as (l & Tl & Ol & Rl).
      { intros k []. }
      rewrite getSchema_tuple. cbn [fp_comps p]. rewrite Tl. cbn [bind app].
      eexists. split; [reflexivity|]. cbn [s_details s_type s_props]. repeat split.
      + discriminate.
      + rewrite (build_in_order l Ol), Rl. reflexivity.
    - destruct (lookup_et (take_lower T)) as [et|]; [|discriminate].
      destruct (parse_elementary_elem _ _ _ EB) as (s & m & n0 & ->).
      cbn [getSchemaForABIInput]. pose proof (elementary_json_shape (et_json et)) as SH.
      destruct (elementary_json (et_json et)) as [t o]. destruct SH as [S1 S2].
      eexists. split; [reflexivity|]. cbn [s_details s_type s_props]. repeat split; auto. }
  exists (Nat.iter (length ds) lift sb). split; [|split].
  - apply getSchema_wrap. exact Gb.
  - rewrite iter_lift_details. exact Db.
  - intros nm. rewrite (process_nest nm (length ds) sb (det_of p) Db Ab Ob). rewrite Bb. cbn [bind].
    cbn [det_of d_type d_internal d_indexed p fp_type fp_internal fp_indexed].
    unfold finish.
    assert (EP : parseABIParameterComponents (erase (FParam nm T i x (if is_tuple_type T then map norm cs else []))) =
                 Ok (wrap_tc base ds)).
    { change (erase (FParam nm T i x (if is_tuple_type T then map norm cs else [])))
        with (erase (norm (FParam n T i x cs))).
      rewrite parse_norm. cbn [erase]. rewrite parse_unfold. cbv zeta. fold sa. rewrite EB. cbn [bind]. exact HP0. }
    rewrite EP. cbn [bind].
    rewrite (input_type_valid_generated p (wrap_tc base ds) _ (getSchema_wrap p ds base sb Gb)). cbn [bind].
    rewrite (items_valid_generated p (wrap_tc base ds) _ (getSchema_wrap p ds base sb Gb)). reflexivity.
Qed.

(* ---------- one parameter, there and back ---------- *)

Lemma roundtrip_convert p ns pn :
  paramToFFI p = Ok ns -> wf_names p -> faithful pn ns -> convertFFIParam pn = Ok (norm p).
Proof.
  unfold paramToFFI. intros H W [Fn [Fv Fu]].
  destruct (parseABIParameterComponents (erase p)) as [tc| |] eqn:EP; cbn [bind] in H; try discriminate.
  destruct (roundtrip_param p tc EP W) as (s & Gs & _ & Ps).
  rewrite Gs in H. cbn [bind] in H. injection H as <-. cbn [fst snd] in *.
  unfold convertFFIParam. rewrite Fv, Fu, Fn. cbn [negb processField].
  rewrite Ps. cbn [bind]. rewrite <- (fp_name_norm p), rename_self, parse_norm, EP. cbn [bind].
  rewrite (input_type_valid_generated p tc s Gs). reflexivity.
Qed.

Lemma paramToFFI_ok p tc : parseABIParameterComponents (erase p) = Ok tc -> wf_names p ->
  exists ns, paramToFFI p = Ok ns.
Proof.
  intros EP W. destruct (roundtrip_param p tc EP W) as (s & Gs & _). unfold paramToFFI.
  rewrite EP. cbn [bind]. rewrite Gs. cbn [bind]. eauto.
Qed.


Lemma paramsToFFI_ok l : Forall parses l -> Forall wf_names l -> exists xs, paramsToFFI l = Ok xs.
Proof.
  induction l as [|p l IH]; intros HP HW; [cbn; eauto|].
  inversion HP as [|? ? [tc Hp] Hl]; inversion HW as [|? ? Wp Wl]; subst.
  destruct (paramToFFI_ok p tc Hp Wp) as [ns E]. destruct (IH Hl Wl) as [xs E'].
  cbn [paramsToFFI]. rewrite E, E'. cbn. eauto.
Qed.

Lemma roundtrip_params l : forall xs pins,
  paramsToFFI l = Ok xs -> Forall wf_names l -> Forall2 faithful pins xs ->
  convertFFIParamsToABIParameters pins = Ok (map norm l).
Proof.
  induction l as [|p l IH]; intros xs pins H W F; cbn [paramsToFFI] in H.
  - injection H as <-. inversion F; subst. reflexivity.
  - destruct (paramToFFI p) as [ns| |] eqn:E; cbn [bind] in H; try discriminate.
    destruct (paramsToFFI l) as [xs'| |] eqn:E'; cbn [bind] in H; try discriminate.
    injection H as <-. inversion F as [|pn ? pins' ? Fp Fl]; subst.
    inversion W as [|? ? Wp Wl]; subst.
    cbn [convertFFIParamsToABIParameters map].
    rewrite (roundtrip_convert p ns pn E Wp Fp). cbn [bind].
    rewrite (IH xs' pins' eq_refl Wl Fl). reflexivity.
Qed.

(* ---------- signatures ---------- *)
Lemma sig_strings_norm l : sig_strings (map norm l) = sig_strings l.
Proof.
  induction l as [|p l IH]; [reflexivity|]. cbn [map sig_strings].
  unfold SignatureString, Validate. rewrite parse_norm, IH. reflexivity.
Qed.

(* ---------- entries ---------- *)

Theorem roundtrip_function e :
  valid_params (e_inputs e) -> valid_params (e_outputs e) ->
  exists m, convertABIFunctionToFFIMethod e = Ok m /\ m_name m = e_name e /\
    forall pins rets, Forall2 faithful pins (m_params m) -> Forall2 faithful rets (m_returns m) ->
      let e' := mkEntry EFunction (e_name e) (map norm (e_inputs e)) (map norm (e_outputs e)) in
      ConvertFFIMethodToABI (m_name m) pins rets = Ok e' /\ SignatureCtx e' = SignatureCtx e.
Proof.
  intros [PI WI] [PO WO].
  destruct (paramsToFFI_ok _ PI WI) as [xs Ex]. destruct (paramsToFFI_ok _ PO WO) as [ys Ey].
  exists (mkMethod (e_name e) xs ys). unfold convertABIFunctionToFFIMethod. rewrite Ex, Ey. cbn [bind].
  split; [reflexivity|]. split; [reflexivity|]. cbn [m_name m_params m_returns].
  intros pins rets Fp Fr. unfold ConvertFFIMethodToABI.
  rewrite (roundtrip_params _ _ _ Ex WI Fp), (roundtrip_params _ _ _ Ey WO Fr). cbn [bind].
  split; [reflexivity|]. unfold SignatureCtx. cbn [e_inputs e_name]. rewrite sig_strings_norm. reflexivity.
Qed.

Theorem roundtrip_event e :
  valid_params (e_inputs e) ->
  exists m, convertABIEventToFFIEvent e = Ok m /\ m_name m = e_name e /\
    forall pins, Forall2 faithful pins (m_params m) ->
      let e' := mkEntry EEvent (e_name e) (map norm (e_inputs e)) [] in
      ConvertFFIEventDefinitionToABI (m_name m) pins = Ok e' /\ SignatureCtx e' = SignatureCtx e.
Proof.
  intros [PI WI]. destruct (paramsToFFI_ok _ PI WI) as [xs Ex].
  exists (mkMethod (e_name e) xs []). unfold convertABIEventToFFIEvent. rewrite Ex. cbn [bind].
  split; [reflexivity|]. split; [reflexivity|]. cbn [m_name m_params].
  intros pins Fp. unfold ConvertFFIEventDefinitionToABI.
  rewrite (roundtrip_params _ _ _ Ex WI Fp). cbn [bind].
  split; [reflexivity|]. unfold SignatureCtx. cbn [e_inputs e_name]. rewrite sig_strings_norm. reflexivity.
Qed.

Theorem roundtrip_error e :
  valid_params (e_inputs e) ->
  exists m, convertABIErrorToFFIError e = Ok m /\ m_name m = e_name e /\
    forall pins, Forall2 faithful pins (m_params m) ->
      let e' := mkEntry EError (e_name e) (map norm (e_inputs e)) [] in
      ConvertFFIErrorDefinitionToABI (m_name m) pins = Ok e' /\ SignatureCtx e' = SignatureCtx e.
Proof.
  intros [PI WI]. destruct (paramsToFFI_ok _ PI WI) as [xs Ex].
  exists (mkMethod (e_name e) xs []). unfold convertABIErrorToFFIError. rewrite Ex. cbn [bind].
  split; [reflexivity|]. split; [reflexivity|]. cbn [m_name m_params].
  intros pins Fp. unfold ConvertFFIErrorDefinitionToABI.
  rewrite (roundtrip_params _ _ _ Ex WI Fp). cbn [bind].
  split; [reflexivity|]. unfold SignatureCtx. cbn [e_inputs e_name]. rewrite sig_strings_norm. reflexivity.
Qed.

(* ---------- whole ABIs, Go map order universally quantified ---------- *)
Definition estep (f : entry -> bool) (m : list (bytes * entry)) (e : entry) :=
  if negb (is_nil_b (e_name e)) && f e then map_set (e_name e) e m else m.

Lemma entries_where_acc f : forall l acc,
  NoDup (map e_name (filter named l)) ->
  (forall k, In k (map fst acc) -> ~ In k (map e_name (filter named l))) ->
  fold_left (estep f) l acc =
  acc ++ map (fun e => (e_name e, e)) (filter (fun e => named e && f e) l).
Proof.
  induction l as [|e l IH]; intros acc ND DJ; cbn [fold_left filter map]; [rewrite app_nil_r; reflexivity|].
  unfold estep at 2. fold (named e). cbn [filter] in ND, DJ.
  destruct (named e) eqn:N; cbn [andb].
  - cbn [map] in ND, DJ. inversion ND as [|? ? Hn ND']; subst.
    destruct (f e); cbn [map].
    + rewrite map_set_fresh.
      2:{ intros X. apply (DJ _ X). left. reflexivity. }
      rewrite IH; [rewrite <- app_assoc; reflexivity|exact ND'|].
      intros k Hk. rewrite map_app, in_app_iff in Hk. cbn in Hk. destruct Hk as [Hk|[<-|[]]].
      * intros X. apply (DJ _ Hk). right. exact X.
      * exact Hn.
    + apply IH; [exact ND'|]. intros k Hk X. apply (DJ _ Hk). right. exact X.
  - apply IH; assumption.
Qed.

Lemma entries_where_nodup f abi :
  NoDup (map e_name (filter named abi)) ->
  entries_where f abi = map (fun e => (e_name e, e)) (filter (fun e => named e && f e) abi).
Proof.
  intros ND. unfold entries_where. change (fun m e => if negb (is_nil_b (e_name e)) && f e then map_set (e_name e) e m else m) with (estep f).
  rewrite entries_where_acc; [reflexivity|exact ND|intros k []].
Qed.

Lemma convert_all_ok f m :
  (forall k e, In (k, e) m -> exists x, f e = Ok x) ->
  exists l, convert_all f m = Ok l /\ (forall k e, In (k, e) m -> exists x, f e = Ok x /\ In x l).
Proof.
  induction m as [|[k e] m IH]; intros H; cbn [convert_all].
  - exists []. split; [reflexivity|]. intros ? ? [].
  - destruct (H k e (or_introl eq_refl)) as [x Ex]. rewrite Ex. cbn [bind].
    destruct IH as (l & El & Il); [intros; eapply H; right; eauto|]. rewrite El. cbn [bind].
    exists (x :: l). split; [reflexivity|]. intros k' e' [E|I'].
    + injection E as <- <-. exists x. split; [exact Ex|left; reflexivity].
    + destruct (Il _ _ I') as (x' & E' & I''). exists x'. split; [exact E'|right; exact I''].
Qed.


Theorem roundtrip_abi abi :
  NoDup (map e_name (filter named abi)) ->
  (forall e, In e abi -> valid_entry e) ->
  forall fs evs ers,
    Permutation fs (Functions abi) -> Permutation evs (Events abi) -> Permutation ers (Errors abi) ->
    exists ffi, ConvertABIToFFI_ord fs evs ers = Ok ffi /\
      forall e, In e abi -> e_name e <> [] ->
        (IsFunction e = true -> exists m, In m (f_methods ffi) /\ convertABIFunctionToFFIMethod e = Ok m) /\
        (e_type e = EEvent -> exists m, In m (f_events ffi) /\ convertABIEventToFFIEvent e = Ok m) /\
        (e_type e = EError -> exists m, In m (f_errors ffi) /\ convertABIErrorToFFIError e = Ok m).
Proof.
  intros ND V fs evs ers Pf Pe Pr.
  unfold Functions, Events, Errors in *. rewrite entries_where_nodup in Pf, Pe, Pr by exact ND.
  assert (InAbi : forall (c : entry -> bool) l k e,
             Permutation l (map (fun e => (e_name e, e)) (filter (fun e => named e && c e) abi)) ->
             In (k, e) l -> In e abi).
  { intros c l k e P I. eapply Permutation_in in I; [|exact P]. apply in_map_iff in I as (e0 & E & I).
    injection E as _ <-. apply filter_In in I. tauto. }
  assert (Cover : forall (c : entry -> bool) l e,
             Permutation l (map (fun e => (e_name e, e)) (filter (fun e => named e && c e) abi)) ->
             In e abi -> e_name e <> [] -> c e = true -> In (e_name e, e) l).
  { intros c l e P I N C. eapply Permutation_in; [apply Permutation_sym; exact P|].
    apply in_map_iff. exists e. split; [reflexivity|]. apply filter_In. split; [exact I|].
    unfold named. destruct (e_name e); [congruence|]. cbn. exact C. }
  destruct (convert_all_ok convertABIFunctionToFFIMethod fs) as (ms & Ems & Ims).
  { intros k e I. destruct (V e (InAbi _ _ _ _ Pf I)) as [VI VO].
    destruct (roundtrip_function e VI VO) as (m & E & _). eauto. }
  destruct (convert_all_ok convertABIEventToFFIEvent evs) as (es & Ees & Ies).
  { intros k e I. destruct (V e (InAbi _ _ _ _ Pe I)) as [VI _].
    destruct (roundtrip_event e VI) as (m & E & _). eauto. }
  destruct (convert_all_ok convertABIErrorToFFIError ers) as (rs & Ers & Irs).
  { intros k e I. destruct (V e (InAbi _ _ _ _ Pr I)) as [VI _].
    destruct (roundtrip_error e VI) as (m & E & _). eauto. }
  exists (mkFFI ms es rs). unfold ConvertABIToFFI_ord. rewrite Ems, Ees, Ers. cbn [bind].
  split; [reflexivity|]. intros e I N. cbn [f_methods f_events f_errors]. repeat split.
  - intros C. destruct (Ims _ _ (Cover IsFunction fs e Pf I N C)) as (m & E & Im). eauto.
  - intros C. destruct (Ies _ _ (Cover _ evs e Pe I N ltac:(cbv beta; rewrite C; reflexivity))) as (m & E & Im). eauto.
  - intros C. destruct (Irs _ _ (Cover _ ers e Pr I N ltac:(cbv beta; rewrite C; reflexivity))) as (m & E & Im). eauto.
Qed.

(* ---------- the ABI -> FFI direction never panics either (any ABI, valid or not) ---------- *)
Definition FT (p : fparam) : Prop :=
  forall tc, parseABIParameterComponents (erase p) = Ok tc ->
  exists s, getSchemaForABIInput p tc = Ok s /\ s_details s = Some (det_of p).

Lemma tuple_props_ok : forall cs children i acc,
  Forall2 (fun c ch => parseABIParameterComponents (erase c) = Ok ch) cs children ->
  Forall FT cs -> exists props, tuple_props children cs i acc = Ok props.
Proof.
  induction cs as [|c cs IH]; intros children i acc HP HF; inversion HP as [|? ch ? chs Hc Hcs]; subst.
  - cbn. eauto.
  - inversion HF as [|? ? Fc Fcs]; subst. destruct (Fc ch Hc) as (s & Gs & Ds).
    cbn [tuple_props]. rewrite Gs. cbn [bind]. rewrite (set_index_with i s _ Ds). cbn [bind].
    apply IH; assumption.
Qed.

Lemma forward_param p : FT p.
Proof.
  induction p as [n T i x cs IH] using fparam_ind'. intros tc HP.
  cbn [erase] in HP. rewrite parse_unfold in HP. cbv zeta in HP.
  set (sa := splitElementaryTypeSuffix T (length (take_lower T))) in *.
  destruct (parse_base (take_lower T) (fst sa) (map erase cs)) as [base| |] eqn:EB; cbn [bind] in HP; try discriminate.
  assert (exists ds, tc = wrap_tc base ds) as [ds ->].
  { destruct (negb (is_nil (snd sa))).
    - apply parseArrays_sound in HP. destruct HP as (ds & _ & _ & _ & ->). eauto.
    - injection HP as <-. exists []. reflexivity. }
  set (p := FParam n T i x cs).
  assert (exists sb, getSchemaForABIInput p base = Ok sb /\ s_details sb = Some (det_of p)) as (sb & Gb & Db).
  { unfold parse_base in EB.
    destruct (bytes_eqb (take_lower T) (ascii_bytes tuple_type_string)).
    - destruct (negb (is_nil (fst sa))); [discriminate|].
      destruct (parse_list (map erase cs)) as [children| |] eqn:EL; cbn [bind] in EB; try discriminate.
      injection EB as <-. apply parse_list_forall2 in EL.
      assert (F2 : Forall2 (fun c ch => parseABIParameterComponents (erase c) = Ok ch) cs children).
      { clear -EL. remember (map erase cs) as l eqn:El. revert cs El.
        induction EL as [|a c l chs Ha _ IHl]; intros [|c0 cs] El; try discriminate; constructor.
        - cbn in El. injection El as -> _. exact Ha.
        - apply IHl. cbn in El. injection El as _ ->. reflexivity. }
      destruct (tuple_props_ok cs children 0%nat [] F2 IH) as (props & Tp).
      rewrite getSchema_tuple. cbn [fp_comps p]. rewrite Tp. cbn [bind]. eauto.
    - destruct (lookup_et (take_lower T)) as [et|]; [|discriminate].
      destruct (parse_elementary_elem _ _ _ EB) as (s & m & n0 & ->).
      cbn [getSchemaForABIInput]. destruct (elementary_json (et_json et)) as [t o]. eauto. }
  exists (Nat.iter (length ds) lift sb). split.
  - apply getSchema_wrap. exact Gb.
  - rewrite iter_lift_details. exact Db.
Qed.

Lemma paramToFFI_total p : paramToFFI p <> Panic.
Proof.
  unfold paramToFFI. pose proof (parse_no_panic (erase p)) as T.
  destruct (parseABIParameterComponents (erase p)) as [tc| |] eqn:E; cbn [bind]; try congruence.
  destruct (forward_param p tc E) as (s & -> & _). discriminate.
Qed.

Lemma paramsToFFI_total l : paramsToFFI l <> Panic.
Proof.
  induction l as [|p l IH]; cbn; [discriminate|]. pose proof (paramToFFI_total p) as T.
  destruct (paramToFFI p); cbn; try congruence. destruct (paramsToFFI l); cbn; congruence.
Qed.

Lemma convert_all_total f m : (forall e, f e <> Panic) -> convert_all f m <> Panic.
Proof.
  intros T. induction m as [|[k e] m IH]; cbn; [discriminate|]. specialize (T e).
  destruct (f e); cbn; try congruence. destruct (convert_all f m); cbn; congruence.
Qed.

Theorem forward_total fs evs ers : ConvertABIToFFI_ord fs evs ers <> Panic.
Proof.
  unfold ConvertABIToFFI_ord.
  assert (T1 : forall e, convertABIFunctionToFFIMethod e <> Panic).
  { intros e. unfold convertABIFunctionToFFIMethod. pose proof (paramsToFFI_total (e_inputs e)) as A.
    pose proof (paramsToFFI_total (e_outputs e)) as B.
    destruct (paramsToFFI (e_inputs e)); cbn; try congruence. destruct (paramsToFFI (e_outputs e)); cbn; congruence. }
  assert (T2 : forall e, convertABIEventToFFIEvent e <> Panic).
  { intros e. unfold convertABIEventToFFIEvent. pose proof (paramsToFFI_total (e_inputs e)) as A.
    destruct (paramsToFFI (e_inputs e)); cbn; congruence. }
  assert (T3 : forall e, convertABIErrorToFFIError e <> Panic).
  { intros e. unfold convertABIErrorToFFIError. pose proof (paramsToFFI_total (e_inputs e)) as A.
    destruct (paramsToFFI (e_inputs e)); cbn; congruence. }
  pose proof (convert_all_total _ fs T1) as A. pose proof (convert_all_total _ evs T2) as B.
  pose proof (convert_all_total _ ers T3) as C.
  destruct (convert_all convertABIFunctionToFFIMethod fs); cbn; try congruence.
  destruct (convert_all convertABIEventToFFIEvent evs); cbn; try congruence.
  destruct (convert_all convertABIErrorToFFIError ers); cbn; congruence.
Qed.
