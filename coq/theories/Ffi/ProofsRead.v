(* Proofs for C20, part 13 (wave 6): the accepted parameter schemas, exactly, WITHOUT the guard
   [json_type_declared]:
     processSchema name s = Ok ap  <->  consistent s /\ types_suit s /\ describes name s ap
   for every schema value ([types_suit]: SpecRead.v, the JSON type read as a total function), the
   guarded statements of ProofsExact.v as its special case, and [describes] unique without guard. *)
From Coq Require Import String.
From Coq Require Import List NArith ZArith Bool Arith Lia Permutation.
From Coq Require Import Init.Byte.
From FFS Require Import Base.Res Base.Bytes Abi.Types Gen.AbiConsts AbiType.Syntax AbiType.Spec AbiType.Model
     AbiType.ProofsMain
     Ffi.Model Ffi.Spec Ffi.SpecExact Ffi.SpecRead Ffi.Proofs Ffi.ProofsClass Ffi.ProofsSpec Ffi.ProofsRound
     Ffi.ProofsOrder Ffi.ProofsExact Ffi.ProofsDescribed.
Import ListNotations.

(* ---------- the JSON type the conversion tests is [read_json_type] ---------- *)
Lemma fold_is_last l : forall acc,
  fold_left (fun acc t => if bytes_eqb t jsonStringType then acc else t) l acc =
  last (filter (fun t => negb (bytes_eqb t jsonStringType)) l) acc.
Proof.
  induction l as [|t l IH]; intros acc; [reflexivity|]. cbn [fold_left filter].
  destruct (bytes_eqb t jsonStringType); cbn [negb]; [apply IH|].
  rewrite IH. cbn [last]. destruct (filter _ l) eqn:F; [reflexivity|]. apply last_indep. discriminate.
Qed.

Lemma input_is_read s : inputTypeString s = read_json_type s.
Proof.
  unfold inputTypeString, read_json_type. destruct (s_oneof s) as [l|]; [|reflexivity].
  change (str "string") with jsonStringType. apply fold_is_last.
Qed.

Lemma valid_iff_suited s tc Ty :
  eth_class_of Ty = tc_class tc ->
  (inputTypeValidForTypeComponent s tc = Ok tt <-> json_unsuited s Ty = false).
Proof.
  intros Ec. rewrite inputTypeValid_unfold, input_is_read. unfold json_unsuited.
  rewrite Ec, negb_false_iff. split.
  - destruct (model_ok (read_json_type s) tc) eqn:M; [intros _; apply model_ok_compatible; exact M|].
    destruct (tc_string tc); cbn; discriminate.
  - intros C. rewrite (compatible_model_ok _ _ C). reflexivity.
Qed.

Lemma elem_unsuited_unfold it t :
  elem_unsuited it t = json_unsuited it t || elements_unsuited t (s_items it).
Proof. destruct it; reflexivity. Qed.

Lemma bind_unit_ok (a : res unit) (b : res unit) :
  (do _ <- a; b) = Ok tt <-> a = Ok tt /\ b = Ok tt.
Proof.
  destruct a as [[]| |]; cbn [bind]; split; try tauto; try discriminate; intros [? _]; discriminate.
Qed.

(* the loop over the dimensions passes exactly when no element description is unsuited *)
Lemma itemsValid_iff : forall t Ty comps tc items,
  spelling t Ty comps -> tc_of t = Some tc ->
  (itemsValid items tc = Ok tt <-> elements_unsuited Ty items = false).
Proof.
  induction t; intros Ty comps tc items Hsp Htc;
    try (pose proof (class_of_spelling _ _ _ _ Hsp Htc) as Ec; pose proof (not_array_class _ _ Htc) as Na;
         cbn beta iota in Na; unfold elements_unsuited; rewrite eth_class_array by congruence;
         rewrite itemsValid_leaf by exact Na; tauto).
  - cbn [spelling] in Hsp. destruct Hsp as (s' & Hs' & ->). cbn [tc_of] in Htc.
    destruct (tc_of t) as [c|] eqn:Ec; [|discriminate]. injection Htc as <-.
    unfold elements_unsuited. rewrite ends_rb_fixed, strip_dim_fixed. cbn [itemsValid].
    destruct items as [it|]; [|split; discriminate].
    rewrite elem_unsuited_unfold, orb_false_iff, bind_unit_ok.
    rewrite (valid_iff_suited it c s' (class_of_spelling _ _ _ _ Hs' Ec)).
    rewrite (IHt s' _ c (s_items it) Hs' eq_refl). tauto.
  - cbn [spelling] in Hsp. destruct Hsp as (s' & Hs' & ->). cbn [tc_of] in Htc.
    destruct (tc_of t) as [c|] eqn:Ec; [|discriminate]. injection Htc as <-.
    unfold elements_unsuited. rewrite ends_rb_dyn, strip_dim_dyn. cbn [itemsValid].
    destruct items as [it|]; [|split; discriminate].
    rewrite elem_unsuited_unfold, orb_false_iff, bind_unit_ok.
    rewrite (valid_iff_suited it c s' (class_of_spelling _ _ _ _ Hs' Ec)).
    rewrite (IHt s' _ c (s_items it) Hs' eq_refl). tauto.
Qed.

(* the closing check of processField, exactly *)
Lemma finish_iff t o d pr it q tc :
  parseABIParameterComponents (erase q) = Ok tc -> fp_type q = d_type d ->
  (finish (Schema t o (Some d) pr it) q = Ok q <-> type_unsuited (Schema t o (Some d) pr it) = false).
Proof.
  intros P Ety. unfold finish, type_unsuited. rewrite P. cbn [bind s_details s_items].
  rewrite orb_false_iff.
  rewrite <- (valid_iff_suited (Schema t o (Some d) pr it) tc (d_type d))
    by (rewrite <- Ety; apply class_of_parsed; exact P).
  destruct (validate_sound (erase q) tc P) as (ty & _ & _ & Hsp & _ & Htc).
  destruct q as [n Ty i x cs]. cbn [erase p_type p_comps fp_type] in *. subst Ty.
  rewrite <- (itemsValid_iff ty _ _ tc it Hsp Htc).
  destruct (inputTypeValidForTypeComponent (Schema t o (Some d) pr it) tc) as [[]| |]; cbn [bind];
    [|split; [discriminate|intros [? _]; discriminate]..].
  destruct (itemsValid it tc) as [[]| |]; cbn [bind];
    [tauto|split; [discriminate|intros [_ ?]; discriminate]..].
Qed.

(* ---------- accepted => the JSON types suit, at every described level ---------- *)
Theorem process_suits : forall s name ap, processSchema name s = Ok ap -> types_suit s.
Proof.
  induction s as [s IH] using members_ind. intros name ap H.
  destruct s as [t o d props items]. rewrite processSchema_unfold in H.
  destruct d as [d|]; [|discriminate].
  destruct (components_of t props items) as [comps| |] eqn:EC; cbn [bind] in H; try discriminate.
  pose proof (finish_ok _ _ _ H) as ->.
  destruct (build_stored PF _ _ (components_members t o (Some d) props items comps EC)) as [L F].
  constructor.
  - destruct (parseABIParameterComponents (erase (FParam name (d_type d) (d_internal d) (d_indexed d) comps)))
      as [tc| |] eqn:P.
    + exact (proj1 (finish_iff t o d props items _ tc P eq_refl) H).
    + unfold finish in H. rewrite P in H. discriminate.
    + unfold finish in H. rewrite P in H. discriminate.
  - rewrite Forall_forall in *. intros km HIn m Em.
    destruct (F km HIn) as (z & c & Mi & Z0 & N & Pk).
    specialize (IH km HIn). destruct km as [k ps]. cbn [fst snd] in *. subst ps. cbn [PF on_opt] in *.
    eapply IH; eauto.
Qed.

(* ---------- consistent, suited and described => accepted, for every schema ---------- *)
Theorem describes_process_read : forall s name ap,
  types_suit s -> consistent s = true -> describes name s ap -> processSchema name s = Ok ap.
Proof.
  induction s as [s IH] using members_ind. intros name ap TS C D.
  inversion D as [? t o d props items comps L F [tc P]]; subst.
  inversion TS as [? Suit SM]; subst.
  rewrite processSchema_unfold.
  destruct (consistent_members _ _ _ _ _ C) as [MO EC]. rewrite EC.
  unfold members_ok in MO. apply andb_true_iff in MO as [PO AM].
  rewrite (build_fill PF _ comps PO L).
  - cbn [bind]. exact (proj2 (finish_iff t o d props items _ tc P eq_refl) Suit).
  - rewrite Forall_forall in *. intros km HIn.
    destruct (F km HIn) as (sc & z & c & Ek & Mi & Z0 & N & Dk).
    exists z, c. repeat split; auto. specialize (IH km HIn).
    destruct km as [k m]. cbn [fst snd] in *. subst m. cbn [PF on_opt] in *.
    apply IH; [apply (SM (k, Some sc) HIn); reflexivity| |exact Dk].
    eapply all_members_in; eauto.
Qed.

Theorem process_iff_read s name ap :
  processSchema name s = Ok ap <-> consistent s = true /\ types_suit s /\ describes name s ap.
Proof.
  split.
  - intros H. split; [eapply accepted_consistent; eauto|].
    split; [eapply process_suits; eauto|apply process_describes; exact H].
  - intros (C & TS & D). apply describes_process_read; assumption.
Qed.

(* ---------- one parameter of a definition: no guard on the schema ---------- *)
Theorem accepted_exactly p s :
  pi_unm p = Some (Some s) ->
  forall ap, convertFFIParam p = Ok ap <->
             pi_verdict p = true /\ consistent s = true /\ types_suit s /\ describes (pi_name p) s ap.
Proof.
  destruct p as [name v u]. cbn [pi_verdict pi_unm pi_name]. intros -> ap.
  destruct v.
  - rewrite convert_is_process, process_iff_read. tauto.
  - split; [discriminate|intros [? _]; discriminate].
Qed.

Theorem rejected_exactly p s :
  pi_unm p = Some (Some s) ->
  ((exists e, convertFFIParam p = Err e) <->
   ~ (pi_verdict p = true /\ consistent s = true /\ types_suit s /\ exists ap, describes (pi_name p) s ap)).
Proof.
  intros U. pose proof (convertFFIParam_total p) as T. split.
  - intros [e E] (V & C & TS & ap & D).
    rewrite (proj2 (accepted_exactly p s U ap) (conj V (conj C (conj TS D)))) in E. discriminate.
  - intros N. destruct (convertFFIParam p) as [ap|e|] eqn:E; [|eauto|congruence].
    exfalso. apply N. destruct (proj1 (accepted_exactly p s U ap) E) as (V & C & TS & D). eauto.
Qed.

Theorem accepted_suits p ap :
  convertFFIParam p = Ok ap -> exists s, pi_unm p = Some (Some s) /\ types_suit s.
Proof.
  intros H. destruct (accepted_described p ap H) as (_ & s & U & _ & _). exists s. split; [exact U|].
  exact (proj1 (proj2 (proj2 (proj1 (accepted_exactly p s U ap) H)))).
Qed.

(* ---------- [types_suit] against the oracle of Spec.v ---------- *)
Lemma json_unsuited_declared s t jt :
  declared_json_type s = Some jt -> json_unsuited s t = json_at_odds s t.
Proof.
  intros D. unfold json_unsuited, json_at_odds. rewrite D, <- input_is_read, (declared_is_tested _ _ D).
  reflexivity.
Qed.

(* suited => not at odds: [type_at_odds] is the weaker test, silent where nothing is declared *)
Lemma json_suited_not_at_odds s t : json_unsuited s t = false -> json_at_odds s t = false.
Proof.
  intros H. destruct (declared_json_type s) as [jt|] eqn:D.
  - rewrite <- (json_unsuited_declared s t jt D). exact H.
  - unfold json_at_odds. rewrite D. reflexivity.
Qed.

Lemma elem_suited_not_at_odds : forall it t, elem_unsuited it t = false -> elem_at_odds it t = false.
Proof.
  induction it as [ty o d props items _ HI] using schema_ind'. intros t H.
  rewrite elem_unsuited_unfold in H. rewrite elem_at_odds_unfold.
  apply orb_false_iff in H as [H1 H2]. rewrite (json_suited_not_at_odds _ _ H1). cbn [orb s_items] in *.
  unfold elements_unsuited in H2. unfold elements_at_odds.
  destruct (ends_with_rbracket t); [|reflexivity].
  destruct items as [it'|]; [|discriminate]. cbn in HI. apply HI. exact H2.
Qed.

Lemma type_suited_not_at_odds s : type_unsuited s = false -> type_at_odds s = false.
Proof.
  unfold type_unsuited, type_at_odds. destruct (s_details s) as [d|]; [|reflexivity].
  intros H. apply orb_false_iff in H as [H1 H2]. rewrite (json_suited_not_at_odds _ _ H1). cbn [orb].
  unfold elements_unsuited in H2. unfold elements_at_odds.
  destruct (ends_with_rbracket (d_type d)); [|reflexivity].
  destruct (s_items s) as [it|]; [|discriminate]. apply elem_suited_not_at_odds. exact H2.
Qed.

(* inside the domain of the oracle the two tests are the same *)
Lemma json_declared_same s t : declared_json_type s <> None -> json_unsuited s t = json_at_odds s t.
Proof.
  intros D. destruct (declared_json_type s) as [jt|] eqn:E; [|congruence].
  exact (json_unsuited_declared s t jt E).
Qed.

Lemma elem_declared_same : forall it t, elems_declared it t -> elem_unsuited it t = elem_at_odds it t.
Proof.
  induction it as [ty o d props items _ HI] using schema_ind'. intros t H.
  apply elems_declared_unfold in H. destruct H as [D1 D2].
  rewrite elem_unsuited_unfold, elem_at_odds_unfold, (json_declared_same _ t D1). f_equal.
  cbn [s_items] in *. unfold elements_declared in D2. unfold elements_unsuited, elements_at_odds.
  destruct (ends_with_rbracket t); [|reflexivity].
  destruct items as [it'|]; [|reflexivity]. cbn in HI. apply HI. exact D2.
Qed.

Lemma type_declared_same s :
  declared_json_type s <> None ->
  (forall d, s_details s = Some d -> elements_declared (d_type d) (s_items s)) ->
  type_unsuited s = type_at_odds s.
Proof.
  intros D DE. unfold type_unsuited, type_at_odds. destruct (s_details s) as [d|]; [|reflexivity].
  rewrite (json_declared_same _ _ D). f_equal. specialize (DE d eq_refl).
  unfold elements_declared in DE. unfold elements_unsuited, elements_at_odds.
  destruct (ends_with_rbracket (d_type d)); [|reflexivity].
  destruct (s_items s) as [it|]; [|reflexivity]. apply elem_declared_same. exact DE.
Qed.

(* the guard of ProofsExact.v is a special case: declared and consistent => suited *)
Theorem declared_suit : forall s, json_type_declared s -> consistent s = true -> types_suit s.
Proof.
  induction s as [s IH] using members_ind. intros JD C.
  inversion JD as [? Decl DeclE JM]; subst.
  apply consistent_spelled in C. destruct C as (_ & Odds & _ & _ & FM).
  constructor.
  - rewrite (type_declared_same s Decl DeclE). exact Odds.
  - rewrite Forall_forall in *. intros km HIn m Em.
    specialize (IH km HIn). rewrite Em in IH. cbn [on_opt] in IH. apply IH.
    + exact (JM km HIn m Em).
    + destruct (FM km HIn) as (m' & Em' & Cm). rewrite Em in Em'. injection Em' as <-. exact Cm.
Qed.

(* suited => at no described level is the JSON type at odds in the sense of Spec.v *)
Theorem types_suit_not_at_odds s : types_suit s -> type_at_odds s = false.
Proof. intros TS. inversion TS; subst. apply type_suited_not_at_odds. assumption. Qed.

(* ---------- [types_suit] is a computation ---------- *)
Fixpoint suit_members (l : list (bytes * option schema)) : bool :=
  match l with
  | [] => true
  | (_, None) :: r => suit_members r
  | (_, Some m) :: r => types_suit_b m && suit_members r
  end.

Fixpoint suit_elem (it : schema) : bool :=
  match it with
  | Schema t' _ _ props' items' =>
      if bytes_eqb t' (str "array") then
        match items' with None => true | Some it' => suit_elem it' end
      else suit_members props'
  end.

Lemma types_suit_b_unfold t o det props items :
  types_suit_b (Schema t o det props items) =
  negb (type_unsuited (Schema t o det props items))
  && (if bytes_eqb t (str "object") then suit_members props
      else if bytes_eqb t (str "array") then
        match items with None => true | Some it0 => suit_elem it0 end
      else true).
Proof. reflexivity. Qed.

Lemma suit_elem_members it : suit_elem it = suit_members (elem_members it).
Proof.
  induction it as [t o d props items _ HI] using schema_ind'. cbn [suit_elem elem_members].
  destruct (bytes_eqb t (str "array")); [|reflexivity].
  destruct items as [it'|]; [exact HI|reflexivity].
Qed.

Lemma types_suit_b_members s :
  types_suit_b s = negb (type_unsuited s) && suit_members (members_of s).
Proof.
  destruct s as [t o d props items]. rewrite types_suit_b_unfold. cbn [members_of]. f_equal.
  destruct (bytes_eqb t (str "object")); [reflexivity|].
  destruct (bytes_eqb t (str "array")); [|reflexivity].
  destruct items as [it0|]; [apply suit_elem_members|reflexivity].
Qed.

Lemma suit_members_forall l :
  suit_members l = true <-> Forall (fun km => forall m, snd km = Some m -> types_suit_b m = true) l.
Proof.
  induction l as [|[k [m|]] r IH]; cbn [suit_members].
  - split; [constructor|reflexivity].
  - rewrite andb_true_iff, IH. split.
    + intros [A B]. constructor; [|exact B]. cbn [snd]. intros m' E. injection E as <-. exact A.
    + intros H. inversion H as [|? ? A B]; subst. split; [apply A; reflexivity|exact B].
  - rewrite IH. split.
    + intros B. constructor; [|exact B]. cbn [snd]. discriminate.
    + intros H. inversion H; subst. assumption.
Qed.

Theorem types_suit_decided : forall s, types_suit_b s = true <-> types_suit s.
Proof.
  induction s as [s IH] using members_ind.
  rewrite types_suit_b_members, andb_true_iff, negb_true_iff, suit_members_forall. split.
  - intros [A B]. constructor; [exact A|]. rewrite Forall_forall in *. intros km HIn m Em.
    specialize (IH km HIn). rewrite Em in IH. cbn [on_opt] in IH. apply IH. exact (B km HIn m Em).
  - intros TS. inversion TS as [? A B]; subst. split; [exact A|].
    rewrite Forall_forall in *. intros km HIn m Em.
    specialize (IH km HIn). rewrite Em in IH. cbn [on_opt] in IH. apply IH. exact (B km HIn m Em).
Qed.

(* ---------- the accepted schemas, decided, for every schema ---------- *)
Theorem accepted_decided_all p s :
  pi_unm p = Some (Some s) ->
  (forall ap, convertFFIParam p = Ok ap <->
              pi_verdict p = true /\ consistent s = true /\ types_suit_b s = true /\
              types_valid (described (pi_name p) s) = true /\ ap = described (pi_name p) s) /\
  is_ok (convertFFIParam p) =
    pi_verdict p && consistent s && types_suit_b s && types_valid (described (pi_name p) s).
Proof.
  intros U.
  assert (I : forall ap, convertFFIParam p = Ok ap <->
              pi_verdict p = true /\ consistent s = true /\ types_suit_b s = true /\
              types_valid (described (pi_name p) s) = true /\ ap = described (pi_name p) s).
  { intros ap. rewrite (accepted_exactly p s U ap), types_suit_decided. split.
    - intros (V & C & TS & D). apply (describes_iff_described s _ ap C) in D. tauto.
    - intros (V & C & TS & TV & E). split; [exact V|]. split; [exact C|]. split; [exact TS|].
      apply (describes_iff_described s _ ap C). auto. }
  split; [exact I|].
  destruct (pi_verdict p && consistent s && types_suit_b s && types_valid (described (pi_name p) s)) eqn:R.
  - apply andb_true_iff in R as [R TV]. apply andb_true_iff in R as [R TS]. apply andb_true_iff in R as [V C].
    rewrite (proj2 (I (described (pi_name p) s))); [reflexivity|auto].
  - destruct (convertFFIParam p) as [ap| |] eqn:E; try reflexivity.
    destruct (proj1 (I ap) eq_refl) as (V & C & TS & TV & _). rewrite V, C, TS, TV in R. discriminate.
Qed.

(* ---------- a consistent schema describes at most one parameter: no guard ---------- *)
Theorem described_unique_all s name a b :
  consistent s = true -> describes name s a -> describes name s b -> a = b.
Proof.
  intros C Da Db. apply (describes_iff_described s name a C) in Da.
  apply (describes_iff_described s name b C) in Db. destruct Da as [-> _], Db as [-> _]. reflexivity.
Qed.

(* ---------- [types_suit], clause by clause ---------- *)
Theorem types_suit_iff s :
  types_suit s <->
  type_unsuited s = false /\ Forall (fun km => forall m, snd km = Some m -> types_suit m) (members_of s).
Proof. split; [intros H; inversion H; subst; auto|intros [A B]; constructor; assumption]. Qed.

Theorem type_unsuited_spelled s :
  type_unsuited s = false <->
  forall d, s_details s = Some d ->
    json_unsuited s (d_type d) = false /\ elements_unsuited (d_type d) (s_items s) = false.
Proof.
  unfold type_unsuited. destruct (s_details s) as [d|].
  - split.
    + intros H d0 E. injection E as <-. apply orb_false_iff in H. exact H.
    + intros H. destruct (H d eq_refl) as [A B]. rewrite A, B. reflexivity.
  - split; [intros _ d E; discriminate|reflexivity].
Qed.

Theorem elements_unsuited_spelled t items :
  elements_unsuited t items = false <->
  (ends_with_rbracket t = false \/
   exists it, items = Some it /\ json_unsuited it (strip_dim t) = false /\
              elements_unsuited (strip_dim t) (s_items it) = false).
Proof.
  unfold elements_unsuited at 1. destruct (ends_with_rbracket t).
  - destruct items as [it|].
    + rewrite elem_unsuited_unfold, orb_false_iff. split.
      * intros H. right. exists it. tauto.
      * intros [H|(it' & E & H)]; [discriminate|]. injection E as <-. exact H.
    + split; [discriminate|]. intros [H|(it' & E & _)]; discriminate.
  - split; [auto|reflexivity].
Qed.

(* where Spec.v's oracle declares a JSON type, it is the one read here *)
Theorem read_is_declared s jt : declared_json_type s = Some jt -> read_json_type s = jt.
Proof. intros D. rewrite <- input_is_read. exact (declared_is_tested _ _ D). Qed.
