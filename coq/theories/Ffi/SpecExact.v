(* Specification side of C20, part 2 (round 5): vocabulary of the exact characterisation of the
   parameter schemas the FFI -> ABI conversion accepts, and of "does not depend on names".
   Written from the FireFly interface format, not from the conversion code; shares only the data
   types (schema, fparam) and the ABI type parser of C13 ([parses]) with the model. *)
From Coq Require Import String.
From Coq Require Import List NArith ZArith Bool Arith.
From Coq Require Import Init.Byte.
From FFS Require Import Base.Res Base.Bytes AbiType.Syntax AbiType.Model Ffi.Model Ffi.Spec.
Import ListNotations.

(* ---------- the members a schema describes ---------- *)

(* the members of the innermost element description of an array schema (the chain of [items]
   through every dimension; a broken chain has no members -- [consistent] refuses it) *)
Fixpoint elem_members (it : schema) : list (bytes * option schema) :=
  match it with
  | Schema t' _ _ props' items' =>
      if bytes_eqb t' (str "array") then
        match items' with None => [] | Some it' => elem_members it' end
      else props'
  end.

(* "object": its properties; "array": the members of its element description; otherwise none *)
Definition members_of (s : schema) : list (bytes * option schema) :=
  match s with
  | Schema t _ _ props items =>
      if bytes_eqb t (str "object") then props
      else if bytes_eqb t (str "array") then
        match items with None => [] | Some it0 => elem_members it0 end
      else []
  end.

(* [describes name s ap]: ap is the ABI parameter that the schema s, standing under the name
   [name], describes, and it is a valid ABI parameter at every level:
   name = the name it stands under (parameter name / property key); type, internalType, indexed =
   the details; one component per member, the member recorded at position z being component z, each
   described by its member schema under its property key; and the ABI type parser accepts the
   parameter ([parses], the type grammar of C13 -- see C20_valid_is_type_grammar). *)
Inductive describes : bytes -> schema -> fparam -> Prop :=
| Describes name t o d props items comps :
    length comps = length (members_of (Schema t o (Some d) props items)) ->
    Forall (fun km => exists sc z c,
                snd km = Some sc /\ member_index km = Some z /\ (0 <= z)%Z /\
                nth_error comps (Z.to_nat z) = Some c /\ describes (fst km) sc c)
           (members_of (Schema t o (Some d) props items)) ->
    parses (FParam name (d_type d) (d_internal d) (d_indexed d) comps) ->
    describes name (Schema t o (Some d) props items)
              (FParam name (d_type d) (d_internal d) (d_indexed d) comps).

(* The domain of the JSON type oracle of Spec.v ([declared_json_type]): at every level that
   describes a parameter, the schema declares one JSON type -- through "type", or through a "oneOf"
   with exactly one alternative other than "string" (the only form the FireFly base meta-schema
   admits) -- and so does every element description of an array type ([elements_declared]: the
   [items] chain, as many levels as the Ethereum type of the details has dimensions).  Outside it [type_at_odds] is silent, so [consistent] alone decides nothing about the
   JSON type there. *)
Fixpoint elems_declared (it : schema) (t : bytes) {struct it} : Prop :=
  match it with
  | Schema _ _ _ _ items' =>
      declared_json_type it <> None /\
      (if ends_with_rbracket t then
         match items' with None => True | Some it' => elems_declared it' (strip_dim t) end
       else True)
  end.
Definition elements_declared (t : bytes) (items : option schema) : Prop :=
  if ends_with_rbracket t then
    match items with None => True | Some it => elems_declared it (strip_dim t) end
  else True.

Inductive json_type_declared : schema -> Prop :=
| Declared s :
    declared_json_type s <> None ->
    (forall d, s_details s = Some d -> elements_declared (d_type d) (s_items s)) ->
    Forall (fun km => forall m, snd km = Some m -> json_type_declared m) (members_of s) ->
    json_type_declared s.

(* ---------- names ---------- *)

(* [srename s s']: s' is s with other property keys, position by position, at every depth (keys may
   even repeat: the decoded Properties are ranged over as a list) *)
Fixpoint srename (s s' : schema) {struct s} : Prop :=
  match s, s' with
  | Schema t o d props items, Schema t' o' d' props' items' =>
      t = t' /\ o = o' /\ d = d' /\
      (fix rel (l m : list (bytes * option schema)) {struct l} : Prop :=
         match l, m with
         | [], [] => True
         | (_, v) :: l1, (_, v') :: m1 =>
             match v, v' with Some x, Some y => srename x y | None, None => True | _, _ => False end
             /\ rel l1 m1
         | _, _ => False
         end) props props' /\
      match items, items' with Some x, Some y => srename x y | None, None => True | _, _ => False end
  end.

(* two inputs of the conversion that differ in names only: parameter name and property keys *)
Definition pin_rename (p p' : pin) : Prop :=
  pi_verdict p = pi_verdict p' /\
  match pi_unm p, pi_unm p' with
  | None, None => True
  | Some None, Some None => True
  | Some (Some s), Some (Some s') => srename s s'
  | _, _ => False
  end.

(* a parameter with every name, at every depth, blanked: what is left is type, internalType,
   indexed and the nesting *)
Fixpoint unnamed (p : fparam) : fparam :=
  match p with FParam _ t i x cs => FParam [] t i x (map unnamed cs) end.

Definition unnamed_entry (e : entry) : entry :=
  mkEntry (e_type e) (e_name e) (map unnamed (e_inputs e)) (map unnamed (e_outputs e)).

Definition rmap {A B} (f : A -> B) (r : res A) : res B :=
  match r with Ok x => Ok (f x) | Err e => Err e | Panic => Panic end.

(* ---------- [consistent], clause by clause ---------- *)

(* an "array" schema describes its elements: [items] present at every dimension *)
Fixpoint elem_complete (it : schema) : bool :=
  match it with
  | Schema t' _ _ _ items' =>
      if bytes_eqb t' (str "array") then
        match items' with None => false | Some it' => elem_complete it' end
      else true
  end.
Definition items_complete (s : schema) : bool :=
  if bytes_eqb (s_type s) (str "object") then true
  else if bytes_eqb (s_type s) (str "array") then
    match s_items s with None => false | Some it0 => elem_complete it0 end
  else true.

(* the positions 0 .. n-1 *)
Definition positions (n : nat) : list (option Z) := map (fun i => Some (Z.of_nat i)) (seq 0 n).

(* ---------- the described parameter, computed ---------- *)

(* members tagged with their recorded position; the component at position i; all of them in
   position order *)
Definition at_position (l : list (option Z * fparam)) (i : nat) : option fparam :=
  match find (fun zc => match fst zc with Some z => Z.eqb z (Z.of_nat i) | None => false end) l with
  | Some zc => Some (snd zc)
  | None => None
  end.
Definition in_order (l : list (option Z * fparam)) : list fparam :=
  flat_map (fun i => match at_position l i with Some c => [c] | None => [] end) (seq 0 (length l)).

Definition param_of (det : option details) (name : bytes) (comps : list fparam) : fparam :=
  match det with
  | Some d => FParam name (d_type d) (d_internal d) (d_indexed d) comps
  | None => FParam name [] [] false comps
  end.

(* [described name s]: the parameter a consistent schema describes under that name (on other schemas
   the value is of no interest): details -> type, internalType, indexed; members in position order *)
Fixpoint described (name : bytes) (s : schema) {struct s} : fparam :=
  match s with
  | Schema t _ det props items =>
      param_of det name
        (if bytes_eqb t (str "object") then
           in_order ((fix tag (l : list (bytes * option schema)) : list (option Z * fparam) :=
                        match l with
                        | [] => []
                        | (k, Some m) :: r => (member_index (k, Some m), described k m) :: tag r
                        | (_, None) :: r => tag r
                        end) props)
         else if bytes_eqb t (str "array") then
           match items with
           | None => []
           | Some it0 =>
               (fix elem (it : schema) : list fparam :=
                  match it with
                  | Schema t' _ _ props' items' =>
                      if bytes_eqb t' (str "array") then
                        match items' with None => [] | Some it' => elem it' end
                      else
                        in_order ((fix tag (l : list (bytes * option schema)) : list (option Z * fparam) :=
                                     match l with
                                     | [] => []
                                     | (k, Some m) :: r => (member_index (k, Some m), described k m) :: tag r
                                     | (_, None) :: r => tag r
                                     end) props')
                  end) it0
           end
         else [])
  end.

(* the ABI type parser of pkg/abi (C13) accepts the parameter and every component, at every depth *)
Fixpoint types_valid (p : fparam) : bool :=
  match p with
  | FParam n t i x cs =>
      is_ok (parseABIParameterComponents (erase (FParam n t i x cs))) && forallb types_valid cs
  end.
