(* Proofs for C20, part 1: the FFI -> ABI direction never panics (pigeonhole on the member
   positions), inconsistent schemas are errors, and the loop over a property map does not depend on
   the order in which Go visits the map. *)
From Coq Require Import String.
From Coq Require Import List NArith ZArith Bool Arith Lia Permutation.
From Coq Require Import Init.Byte.
From FFS Require Import Base.Res Base.Bytes Gen.AbiConsts AbiType.Syntax AbiType.Model AbiType.ProofsMain Ffi.Model Ffi.Spec.
Import ListNotations.

Lemma bytes_eqb_refl b : bytes_eqb b b = true.
Proof. destruct (bytes_eqb_spec b b); congruence. Qed.
Lemma bytes_eqb_eq a b : bytes_eqb a b = true -> a = b.
Proof. destruct (bytes_eqb_spec a b); congruence. Qed.

(* ---------- induction over schemas ---------- *)
Definition on_opt (P : schema -> Prop) (o : option schema) : Prop :=
  match o with None => True | Some s => P s end.

Section schema_ind'.
  Variable P : schema -> Prop.
  Hypothesis H : forall t o d props items,
      Forall (fun kv => on_opt P (snd kv)) props -> on_opt P items -> P (Schema t o d props items).
  Fixpoint schema_ind' (s : schema) : P s :=
    match s with
    | Schema t o d props items =>
        H t o d props items
          ((fix go (l : list (bytes * option schema)) : Forall (fun kv => on_opt P (snd kv)) l :=
              match l with
              | [] => Forall_nil _
              | (k, None) :: r => Forall_cons (k, None) I (go r)
              | (k, Some x) :: r => Forall_cons (k, Some x) (schema_ind' x) (go r)
              end) props)
          (match items as i return on_opt P i with None => I | Some x => schema_ind' x end)
    end.
End schema_ind'.

Lemma parse_no_panic p : parseABIParameterComponents p <> Panic.
Proof. destruct (validate_total p) as [H _]. exact H. Qed.

Lemma inputTypeValid_total s tc : inputTypeValidForTypeComponent s tc <> Panic.
Proof.
  unfold inputTypeValidForTypeComponent.
  match goal with |- (if ?c then _ else _) <> _ => destruct c end; [discriminate|].
  destruct (tc_string_ok tc) as [x ->]. discriminate.
Qed.

(* ---------- processField, unfolded ---------- *)
(* processField as the loop body sees it *)
Definition PF (k : bytes) (ps : option schema) : res fparam :=
  match ps with None => Err EInvalidDetails | Some sc => processSchema k sc end.

(* the descent through the array levels *)
Fixpoint down (it : schema) : res (list fparam) :=
  match it with
  | Schema t' _ _ props' items' =>
      if bytes_eqb t' jsonArrayType then
        match items' with None => Err EInvalidDetails | Some it' => down it' end
      else buildABIParameterArrayForObject PF props'
  end.

Definition components_of (typ : bytes) (props : list (bytes * option schema)) (items : option schema)
  : res (list fparam) :=
  if bytes_eqb typ jsonObjectType then buildABIParameterArrayForObject PF props
  else if bytes_eqb typ jsonArrayType then
    match items with None => Err EInvalidDetails | Some it0 => down it0 end
  else Ok [].

(* what processField does once the components are built: parse the parameter, check the JSON type *)
Definition finish (s : schema) (parameter : fparam) : res fparam :=
  do tc <- parseABIParameterComponents (erase parameter);
  do _ <- inputTypeValidForTypeComponent s tc;
  do _ <- itemsValid (s_items s) tc;
  Ok parameter.

Lemma itemsValid_total : forall tc items, itemsValid items tc <> Panic.
Proof.
  induction tc as [| c IH n | c IH |]; intros items; cbn [itemsValid]; try discriminate;
    (destruct items as [it|]; [|discriminate];
     pose proof (inputTypeValid_total it c) as T;
     destruct (inputTypeValidForTypeComponent it c); cbn [bind]; try congruence; apply IH).
Qed.

Lemma processSchema_unfold name typ o det props items :
  processSchema name (Schema typ o det props items) =
  match det with
  | None => Err EInvalidDetails
  | Some d => do comps <- components_of typ props items;
              finish (Schema typ o det props items)
                     (FParam name (d_type d) (d_internal d) (d_indexed d) comps)
  end.
Proof. destruct det; reflexivity. Qed.

Lemma finish_total s q : finish s q <> Panic.
Proof.
  unfold finish. pose proof (parse_no_panic (erase q)) as T.
  destruct (parseABIParameterComponents (erase q)) as [tc| |]; cbn [bind]; try congruence.
  pose proof (inputTypeValid_total s tc) as T2.
  destruct (inputTypeValidForTypeComponent s tc); cbn [bind]; try congruence.
  pose proof (itemsValid_total tc (s_items s)) as T3.
  destruct (itemsValid (s_items s) tc); cbn; congruence.
Qed.

Lemma finish_ok s q r : finish s q = Ok r -> r = q.
Proof.
  unfold finish. destruct (parseABIParameterComponents (erase q)); cbn [bind]; try discriminate.
  destruct (inputTypeValidForTypeComponent s a); cbn [bind]; try discriminate.
  destruct (itemsValid (s_items s) a); cbn; try discriminate. congruence.
Qed.

Lemma down_unfold t' o d props' items' :
  down (Schema t' o d props' items') =
  if bytes_eqb t' jsonArrayType then
    match items' with None => Err EInvalidDetails | Some it' => down it' end
  else buildABIParameterArrayForObject PF props'.
Proof. reflexivity. Qed.

Lemma processSchema_ok_details name s p :
  processSchema name s = Ok p -> exists d, s_details s = Some d.
Proof.
  destruct s as [t o [d|] pr it]; rewrite processSchema_unfold; intros H; try discriminate. cbn. eauto.
Qed.

Lemma PF_ok_index k ps p : PF k ps = Ok p -> exists ix, prop_index ps = Ok ix.
Proof.
  destruct ps as [s|]; cbn [PF]; intros H; try discriminate.
  destruct (processSchema_ok_details _ _ _ H) as [d Hd].
  destruct s as [t o dd pr it]; cbn in Hd; subst dd. cbn. eauto.
Qed.

(* ---------- slots ---------- *)
Fixpoint count_none {A} (l : list (option A)) : nat :=
  match l with [] => 0 | None :: r => S (count_none r) | Some _ :: r => count_none r end.

Lemma slot_get_ok {A} (l : list (option A)) i : (i < length l)%nat -> exists x, slot_get l i = Ok x.
Proof.
  intros H. unfold slot_get. destruct (nth_error l i) eqn:E; eauto.
  apply nth_error_None in E. lia.
Qed.

Lemma slot_set_ok {A} (l : list (option A)) : forall i v, (i < length l)%nat ->
  exists l', slot_set l i v = Ok l'.
Proof.
  induction l as [|x l IH]; intros i v H; cbn in H; [lia|].
  destruct i; cbn; eauto.
  destruct (IH i v) as [l' E]; [lia|]. rewrite E. cbn. eauto.
Qed.

Lemma slot_set_spec {A} (l : list (option A)) : forall i v l',
  slot_get l i = Ok None -> slot_set l i v = Ok l' ->
  length l' = length l /\ count_none l = S (count_none l') /\
  slot_get l' i = Ok (Some v) /\ (forall j, j <> i -> slot_get l' j = slot_get l j).
Proof.
  induction l as [|x l IH]; intros i v l' Hg Hs; [destruct i; discriminate|].
  destruct i.
  - cbn in Hg. injection Hg as ->. cbn in Hs. injection Hs as <-.
    cbn. repeat split; auto. intros [|j] Hj; [congruence|reflexivity].
  - cbn in Hs. destruct (slot_set l i v) as [r'| |] eqn:E; cbn in Hs; try discriminate.
    injection Hs as <-.
    assert (Hg' : slot_get l i = Ok None) by exact Hg.
    destruct (IH i v r' Hg' E) as (L & C & G & O).
    cbn [length]. repeat split.
    + lia.
    + destruct x; cbn; lia.
    + exact G.
    + intros [|j] Hj; [reflexivity|]. apply (O j). congruence.
Qed.

Lemma collect_ok (l : list (option fparam)) : count_none l = 0%nat -> exists ps, collect l = Ok ps.
Proof.
  induction l as [|[p|] l IH]; cbn; intros H; eauto; try lia.
  destruct (IH H) as [ps E]. rewrite E. cbn. eauto.
Qed.

Lemma count_none_repeat {A} n : count_none (repeat (@None A) n) = n.
Proof. induction n; cbn; auto. Qed.

Lemma count_none_le {A} (l : list (option A)) : (count_none l <= length l)%nat.
Proof. induction l as [|[x|] l IH]; cbn; lia. Qed.

(* ---------- the loop ---------- *)
Section loop.
  Variable pf : bytes -> option schema -> res fparam.

  (* one iteration: Ok (z, p) = "store p at position z" *)
  Definition step (k : bytes) (ps : option schema) (n : nat) : res (nat * fparam) :=
    do p <- pf k ps;
    do ix <- prop_index ps;
    match ix with
    | None => Err EInvalidDetails
    | Some z => if (z <? 0)%Z || (Z.of_nat n <=? z)%Z then Err EInvalidDetails else Ok (Z.to_nat z, p)
    end.

  Lemma step_range k ps n i p : step k ps n = Ok (i, p) -> (i < n)%nat.
  Proof.
    unfold step. destruct (pf k ps); cbn; try discriminate.
    destruct (prop_index ps) as [[z|]| |]; cbn; try discriminate.
    destruct ((z <? 0)%Z || (Z.of_nat n <=? z)%Z) eqn:E; try discriminate.
    intros H. injection H as <- _. apply orb_false_iff in E as [E1 E2].
    apply Z.ltb_ge in E1. apply Z.leb_gt in E2. lia.
  Qed.

  Lemma build_loop_unfold k ps r slots :
    build_loop pf ((k, ps) :: r) slots =
    do zp <- step k ps (length slots);
    do cur <- slot_get slots (fst zp);
    match cur with
    | Some _ => Err EInvalidDetails
    | None => do slots' <- slot_set slots (fst zp) (snd zp); build_loop pf r slots'
    end.
  Proof.
    cbn [build_loop]. unfold step. destruct (pf k ps); cbn; try reflexivity.
    destruct (prop_index ps) as [[z|]| |]; cbn; try reflexivity.
    destruct ((z <? 0)%Z || (Z.of_nat (length slots) <=? z)%Z); reflexivity.
  Qed.

  Hypothesis pf_index : forall k ps p, pf k ps = Ok p -> exists ix, prop_index ps = Ok ix.

  Lemma step_no_panic k ps n : pf k ps <> Panic -> step k ps n <> Panic.
  Proof.
    intros T. unfold step. destruct (pf k ps) eqn:E; cbn; try discriminate.
    - destruct (pf_index _ _ _ E) as [ix ->]. cbn. destruct ix; [|discriminate].
      destruct (_ || _); discriminate.
    - congruence.
  Qed.

  (* the loop never panics, and every successful run fills exactly one empty slot per entry *)
  Lemma build_loop_inv props :
    (forall k ps, In (k, ps) props -> pf k ps <> Panic) ->
    forall slots,
    build_loop pf props slots <> Panic /\
    (forall slots', build_loop pf props slots = Ok slots' ->
       length slots' = length slots /\ (count_none slots = count_none slots' + length props)%nat).
  Proof.
    induction props as [|[k ps] r IH]; intros T slots.
    - cbn. split; [discriminate|]. intros s' H. injection H as <-. split; auto.
    - rewrite build_loop_unfold.
      destruct (step k ps (length slots)) as [[i p]| |] eqn:S; cbn [bind fst snd].
      + pose proof (step_range _ _ _ _ _ S) as Hi.
        destruct (slot_get_ok slots i Hi) as [cur G]. rewrite G. cbn [bind].
        destruct cur as [q|]; [split; [discriminate|intros ? ?; discriminate]|].
        destruct (slot_set_ok slots i p Hi) as [s1 E1]. rewrite E1. cbn [bind].
        destruct (slot_set_spec _ _ _ _ G E1) as (L & C & _ & _).
        destruct (IH (fun k' ps' H' => T k' ps' (or_intror H')) s1) as [NP INV]. split; [exact NP|].
        intros s' H. destruct (INV s' H) as [L' C']. cbn [length]. split; lia.
      + split; [discriminate|intros ? ?; discriminate].
      + exfalso. eapply step_no_panic; eauto. apply T. left; reflexivity.
  Qed.

  (* pigeonhole: n entries stored into n slots without a collision leave no slot empty *)
  Lemma build_result props :
    (forall k ps, In (k, ps) props -> pf k ps <> Panic) ->
    buildABIParameterArrayForObject pf props <> Panic /\
    (forall slots, build_loop pf props (repeat None (length props)) = Ok slots ->
       exists ps, collect slots = Ok ps).
  Proof.
    intros T. unfold buildABIParameterArrayForObject.
    destruct (build_loop_inv props T (repeat None (length props))) as [NP INV].
    assert (C : forall slots, build_loop pf props (repeat None (length props)) = Ok slots ->
                exists ps, collect slots = Ok ps).
    { intros s' E. destruct (INV s' E) as [_ C]. rewrite count_none_repeat in C.
      apply collect_ok. lia. }
    split; [|exact C].
    destruct (build_loop pf props (repeat None (length props))) as [s'| |] eqn:E; cbn; try discriminate.
    - destruct (C s' eq_refl) as [ps ->]. discriminate.
    - congruence.
  Qed.
End loop.

(* ---------- processField never panics ---------- *)
Lemma PF_build_no_panic props :
  Forall (fun kv => on_opt (fun s => forall name, processSchema name s <> Panic) (snd kv)) props ->
  buildABIParameterArrayForObject PF props <> Panic.
Proof.
  intros HF. apply (build_result PF PF_ok_index props).
  intros k ps HIn. rewrite Forall_forall in HF. specialize (HF _ HIn). cbn in HF.
  destruct ps as [sc|]; cbn; [apply HF|discriminate].
Qed.

Lemma processSchema_total_aux (s : schema) :
  (forall name, processSchema name s <> Panic) /\ down s <> Panic.
Proof.
  induction s as [t o d props items HP HI] using schema_ind'.
  assert (HPl : Forall (fun kv => on_opt (fun s => forall name, processSchema name s <> Panic) (snd kv)) props).
  { eapply Forall_impl; [|exact HP]. intros [k [x|]]; cbn; [intros [A _]; exact A|auto]. }
  split.
  - intros name. rewrite processSchema_unfold. destruct d as [d|]; [|discriminate].
    unfold components_of.
    destruct (bytes_eqb t jsonObjectType).
    + pose proof (PF_build_no_panic props HPl) as NP.
      destruct (buildABIParameterArrayForObject PF props); cbn [bind]; try congruence. apply finish_total.
    + destruct (bytes_eqb t jsonArrayType); [|cbn [bind]; apply finish_total].
      destruct items as [it0|]; [|cbn; discriminate].
      cbn in HI. destruct HI as [_ HD]. destruct (down it0); cbn [bind]; try congruence. apply finish_total.
  - rewrite down_unfold. destruct (bytes_eqb t jsonArrayType).
    + destruct items as [it'|]; [|discriminate]. cbn in HI. tauto.
    + exact (PF_build_no_panic props HPl).
Qed.

Lemma processSchema_total name s : processSchema name s <> Panic.
Proof. apply processSchema_total_aux. Qed.

Lemma processField_total name os : processField name os <> Panic.
Proof. destruct os; cbn; [apply processSchema_total|discriminate]. Qed.

Lemma processField_ok_some name os p : processField name os = Ok p -> exists s, os = Some s.
Proof. destruct os; cbn; [eauto|discriminate]. Qed.

(* an array schema without items is an error, whatever else it holds *)
Lemma missing_items_rejected name oneof det props :
  exists e, processSchema name (Schema jsonArrayType oneof det props None) = Err e.
Proof.
  rewrite processSchema_unfold. destruct det as [d|]; [|eauto].
  unfold components_of.
  replace (bytes_eqb jsonArrayType jsonObjectType) with false by reflexivity.
  rewrite bytes_eqb_refl. cbn. eauto.
Qed.

(* ---------- the whole FFI -> ABI conversion never panics ---------- *)

Lemma convertFFIParam_total p : convertFFIParam p <> Panic.
Proof.
  unfold convertFFIParam. destruct (pi_verdict p); cbn [negb]; [|discriminate].
  destruct (pi_unm p) as [os|]; [|discriminate].
  destruct (processField (pi_name p) os) as [ap| |] eqn:E; cbn [bind]; try discriminate.
  - destruct (parseABIParameterComponents (erase ap)) as [tc| |] eqn:E2; cbn [bind]; try discriminate.
    + destruct (processField_ok_some _ _ _ E) as [s ->].
      pose proof (inputTypeValid_total s tc) as T.
      destruct (inputTypeValidForTypeComponent s tc); cbn; congruence.
    + exfalso. eapply parse_no_panic; eauto.
  - exfalso. eapply processField_total; eauto.
Qed.

Lemma convertFFIParams_total l : convertFFIParamsToABIParameters l <> Panic.
Proof.
  induction l as [|p l IH]; cbn; [discriminate|].
  pose proof (convertFFIParam_total p) as T.
  destruct (convertFFIParam p); cbn; try congruence.
  destruct (convertFFIParamsToABIParameters l); cbn; congruence.
Qed.

Theorem conversion_total :
  forall (name : bytes) (params returns : list pin),
    ConvertFFIMethodToABI name params returns <> Panic /\
    ConvertFFIEventDefinitionToABI name params <> Panic /\
    ConvertFFIErrorDefinitionToABI name params <> Panic.
Proof.
  intros. unfold ConvertFFIMethodToABI, ConvertFFIEventDefinitionToABI, ConvertFFIErrorDefinitionToABI.
  pose proof (convertFFIParams_total params) as T1.
  pose proof (convertFFIParams_total returns) as T2.
  destruct (convertFFIParamsToABIParameters params); cbn; try congruence;
    repeat split; try discriminate.
  destruct (convertFFIParamsToABIParameters returns); cbn; congruence.
Qed.
