(* Proofs for C20, part 9 (round 5): the interface ConvertABIToFFI produces holds nothing but the
   conversions of the named entries of the ABI -- one method / event / error per entry, in the order
   the maps were ranged over -- so "each resulting method, event and error" of the property text is
   one the round-trip theorem (ProofsRound.roundtrip_function / _event / _error) speaks about. *)
From Coq Require Import String.
From Coq Require Import List NArith ZArith Bool Arith Lia Permutation.
From Coq Require Import Init.Byte.
From FFS Require Import Base.Res Base.Bytes AbiType.Syntax AbiType.Model
     Ffi.Model Ffi.Spec Ffi.Proofs Ffi.ProofsRound.
Import ListNotations.

Lemma convert_all_forall2 f m : forall l,
  convert_all f m = Ok l <-> Forall2 (fun ke x => f (snd ke) = Ok x) m l.
Proof.
  induction m as [|[k e] m IH]; intros l; cbn [convert_all].
  - split; [intros H; injection H as <-; constructor|intros H; inversion H; reflexivity].
  - split.
    + intros H. destruct (f e) as [x| |] eqn:E; cbn [bind] in H; try discriminate.
      destruct (convert_all f m) as [xs| |] eqn:Em; cbn [bind] in H; try discriminate.
      injection H as <-. constructor; [exact E|]. apply IH. reflexivity.
    + intros H. inversion H as [|? x ? xs E F]; subst. cbn [snd] in E. rewrite E. cbn [bind].
      rewrite (proj2 (IH xs) F). reflexivity.
Qed.

(* the entries of the map returned by Functions() / Events() / Errors() *)
Lemma entries_where_in f abi k e :
  NoDup (map e_name (filter named abi)) ->
  In (k, e) (entries_where f abi) <-> k = e_name e /\ In e abi /\ e_name e <> [] /\ f e = true.
Proof.
  intros ND. rewrite (entries_where_nodup f abi ND). rewrite in_map_iff. split.
  - intros (e0 & E & I). injection E as <- <-. apply filter_In in I as [I C].
    apply andb_true_iff in C as [N C]. repeat split; auto.
    unfold named in N. destruct (e_name e0); [discriminate|congruence].
  - intros (-> & I & N & C). exists e. split; [reflexivity|]. apply filter_In. split; [exact I|].
    unfold named. destruct (e_name e); [congruence|]. cbn. exact C.
Qed.

Definition is_event (e : entry) : bool := match e_type e with EEvent => true | _ => false end.
Definition is_error (e : entry) : bool := match e_type e with EError => true | _ => false end.

Theorem abi_to_ffi_exact abi :
  NoDup (map e_name (filter named abi)) ->
  forall fs evs ers,
    Permutation fs (Functions abi) -> Permutation evs (Events abi) -> Permutation ers (Errors abi) ->
    forall ffi, ConvertABIToFFI_ord fs evs ers = Ok ffi ->
      Forall2 (fun ke m => convertABIFunctionToFFIMethod (snd ke) = Ok m) fs (f_methods ffi) /\
      Forall2 (fun ke m => convertABIEventToFFIEvent (snd ke) = Ok m) evs (f_events ffi) /\
      Forall2 (fun ke m => convertABIErrorToFFIError (snd ke) = Ok m) ers (f_errors ffi) /\
      (forall k e, In (k, e) fs <-> k = e_name e /\ In e abi /\ e_name e <> [] /\ IsFunction e = true) /\
      (forall k e, In (k, e) evs <-> k = e_name e /\ In e abi /\ e_name e <> [] /\ e_type e = EEvent) /\
      (forall k e, In (k, e) ers <-> k = e_name e /\ In e abi /\ e_name e <> [] /\ e_type e = EError).
Proof.
  intros ND fs evs ers Pf Pe Pr ffi H. unfold ConvertABIToFFI_ord in H.
  destruct (convert_all convertABIFunctionToFFIMethod fs) as [ms| |] eqn:Em; cbn [bind] in H; try discriminate.
  destruct (convert_all convertABIEventToFFIEvent evs) as [es| |] eqn:Ee; cbn [bind] in H; try discriminate.
  destruct (convert_all convertABIErrorToFFIError ers) as [rs| |] eqn:Er; cbn [bind] in H; try discriminate.
  injection H as <-. cbn [f_methods f_events f_errors].
  split; [apply convert_all_forall2; exact Em|].
  split; [apply convert_all_forall2; exact Ee|].
  split; [apply convert_all_forall2; exact Er|].
  assert (PI : forall (l m : list (bytes * entry)) x, Permutation l m -> (In x l <-> In x m)).
  { intros l m x P. split; [apply Permutation_in; exact P|apply Permutation_in; apply Permutation_sym; exact P]. }
  split; [|split].
  - intros k e. rewrite (PI _ _ _ Pf). unfold Functions. apply entries_where_in. exact ND.
  - intros k e. rewrite (PI _ _ _ Pe). unfold Events. rewrite (entries_where_in _ abi k e ND).
    destruct (e_type e); split; intros (A & B & C & D); repeat split; auto; discriminate.
  - intros k e. rewrite (PI _ _ _ Pr). unfold Errors. rewrite (entries_where_in _ abi k e ND).
    destruct (e_type e); split; intros (A & B & C & D); repeat split; auto; discriminate.
Qed.

Lemma Forall2_length {A B} (R : A -> B -> Prop) l m : Forall2 R l m -> length l = length m.
Proof. induction 1; cbn; congruence. Qed.

Lemma forall2_in_r {A B} (R : A -> B -> Prop) l m y : Forall2 R l m -> In y m -> exists x, In x l /\ R x y.
Proof.
  induction 1 as [|a b l m Rab _ IH]; intros I; [destruct I|].
  destruct I as [<-|I]; [exists a; split; [left; reflexivity|exact Rab]|].
  destruct (IH I) as (x & Ix & Rx). exists x. split; [right; exact Ix|exact Rx].
Qed.

(* every method / event / error of the produced interface is the conversion of a named entry of the
   ABI, and converts back to it (the statement of the round trip, per produced definition) *)
Theorem roundtrip_abi_each abi :
  NoDup (map e_name (filter named abi)) ->
  (forall e, In e abi -> valid_entry e) ->
  forall fs evs ers,
    Permutation fs (Functions abi) -> Permutation evs (Events abi) -> Permutation ers (Errors abi) ->
    forall ffi, ConvertABIToFFI_ord fs evs ers = Ok ffi ->
    (forall m, In m (f_methods ffi) ->
       exists e, In e abi /\ IsFunction e = true /\ e_name e <> [] /\
         convertABIFunctionToFFIMethod e = Ok m /\ m_name m = e_name e /\
         forall pins rets, Forall2 faithful pins (m_params m) -> Forall2 faithful rets (m_returns m) ->
           let e' := mkEntry EFunction (e_name e) (map norm (e_inputs e)) (map norm (e_outputs e)) in
           ConvertFFIMethodToABI (m_name m) pins rets = Ok e' /\ SignatureCtx e' = SignatureCtx e) /\
    (forall m, In m (f_events ffi) ->
       exists e, In e abi /\ e_type e = EEvent /\ e_name e <> [] /\
         convertABIEventToFFIEvent e = Ok m /\ m_name m = e_name e /\
         forall pins, Forall2 faithful pins (m_params m) ->
           let e' := mkEntry EEvent (e_name e) (map norm (e_inputs e)) [] in
           ConvertFFIEventDefinitionToABI (m_name m) pins = Ok e' /\ SignatureCtx e' = SignatureCtx e) /\
    (forall m, In m (f_errors ffi) ->
       exists e, In e abi /\ e_type e = EError /\ e_name e <> [] /\
         convertABIErrorToFFIError e = Ok m /\ m_name m = e_name e /\
         forall pins, Forall2 faithful pins (m_params m) ->
           let e' := mkEntry EError (e_name e) (map norm (e_inputs e)) [] in
           ConvertFFIErrorDefinitionToABI (m_name m) pins = Ok e' /\ SignatureCtx e' = SignatureCtx e) /\
    length (f_methods ffi) = length (filter (fun e => named e && IsFunction e) abi) /\
    length (f_events ffi) = length (filter (fun e => named e && is_event e) abi) /\
    length (f_errors ffi) = length (filter (fun e => named e && is_error e) abi).
Proof.
  intros ND V fs evs ers Pf Pe Pr ffi H.
  destruct (abi_to_ffi_exact abi ND fs evs ers Pf Pe Pr ffi H) as (Fm & Fe & Fr & Im & Ie & Ir).
  split; [|split; [|split; [|split; [|split]]]].
  - intros m Hm. destruct (forall2_in_r _ _ _ _ Fm Hm) as ([k e] & Ike & Ek). cbn [snd] in Ek.
    apply Im in Ike as (_ & Ia & Nn & C). exists e.
    split; [exact Ia|]. split; [exact C|]. split; [exact Nn|]. split; [exact Ek|].
    destruct (V e Ia) as [VI VO]. destruct (roundtrip_function e VI VO) as (m' & E' & Nm & R).
    rewrite Ek in E'. injection E' as <-. split; [exact Nm|exact R].
  - intros m Hm. destruct (forall2_in_r _ _ _ _ Fe Hm) as ([k e] & Ike & Ek). cbn [snd] in Ek.
    apply Ie in Ike as (_ & Ia & Nn & C). exists e.
    split; [exact Ia|]. split; [exact C|]. split; [exact Nn|]. split; [exact Ek|].
    destruct (V e Ia) as [VI _]. destruct (roundtrip_event e VI) as (m' & E' & Nm & R).
    rewrite Ek in E'. injection E' as <-. split; [exact Nm|exact R].
  - intros m Hm. destruct (forall2_in_r _ _ _ _ Fr Hm) as ([k e] & Ike & Ek). cbn [snd] in Ek.
    apply Ir in Ike as (_ & Ia & Nn & C). exists e.
    split; [exact Ia|]. split; [exact C|]. split; [exact Nn|]. split; [exact Ek|].
    destruct (V e Ia) as [VI _]. destruct (roundtrip_error e VI) as (m' & E' & Nm & R).
    rewrite Ek in E'. injection E' as <-. split; [exact Nm|exact R].
  - rewrite <- (Forall2_length _ _ _ Fm), (Permutation_length Pf). unfold Functions.
    rewrite (entries_where_nodup _ abi ND), map_length. reflexivity.
  - rewrite <- (Forall2_length _ _ _ Fe), (Permutation_length Pe). unfold Events.
    rewrite (entries_where_nodup _ abi ND), map_length. reflexivity.
  - rewrite <- (Forall2_length _ _ _ Fr), (Permutation_length Pr). unfold Errors.
    rewrite (entries_where_nodup _ abi ND), map_length. reflexivity.
Qed.
