(* Proofs for C20, part 12 (referee issue I1): the element descriptions of an array type.
   [type_at_odds] (Spec.v) covers the [items] chain of the schema that carries the details: one level
   per dimension of the Ethereum type, each of a JSON type that suits the type with that many
   dimensions stripped.  Here: the clause spelled out level by level, the link between stripping a
   dimension off the type text and the type grammar of C13, and the rejection / acceptance facts
   stated for the chain on its own. *)
From Coq Require Import String.
From Coq Require Import List NArith ZArith Bool Arith Lia.
From Coq Require Import Init.Byte.
From FFS Require Import Base.Res Base.Bytes Abi.Types Gen.AbiConsts AbiType.Syntax AbiType.Spec AbiType.Model
     AbiType.ProofsMain Ffi.Model Ffi.Spec Ffi.SpecExact Ffi.Proofs Ffi.ProofsClass Ffi.ProofsSpec Ffi.ProofsRound Ffi.ProofsSig Ffi.ProofsRound3 Ffi.ProofsExact.
Import ListNotations.

(* ---------- the clause, level by level ---------- *)
Theorem elements_spelled t items :
  elements_at_odds t items = false <->
  (ends_with_rbracket t = false \/
   exists it, items = Some it /\ json_at_odds it (strip_dim t) = false /\
              elements_at_odds (strip_dim t) (s_items it) = false).
Proof.
  unfold elements_at_odds at 1. destruct (ends_with_rbracket t) eqn:E.
  - split.
    + intros H. right. destruct items as [it|]; [|discriminate]. exists it.
      rewrite elem_at_odds_unfold in H. apply orb_false_iff in H. tauto.
    + intros [H|(it & -> & A & B)]; [discriminate|]. rewrite elem_at_odds_unfold, A, B. reflexivity.
  - split; auto.
Qed.

Theorem type_at_odds_spelled s :
  type_at_odds s = false <->
  forall d, s_details s = Some d ->
    json_at_odds s (d_type d) = false /\ elements_at_odds (d_type d) (s_items s) = false.
Proof.
  unfold type_at_odds. destruct (s_details s) as [d|].
  - split.
    + intros H d0 E. injection E as <-. apply orb_false_iff in H. exact H.
    + intros H. destruct (H d eq_refl) as [A B]. rewrite A, B. reflexivity.
  - split; [intros _ d E; discriminate|reflexivity].
Qed.

(* ---------- stripping a dimension off the text, against the type grammar ---------- *)
Theorem strip_dim_spelling t Ty comps :
  (forall k, spelling (TFixedArr t k) Ty comps ->
     ends_with_rbracket Ty = true /\ spelling t (strip_dim Ty) comps) /\
  (spelling (TDynArr t) Ty comps ->
     ends_with_rbracket Ty = true /\ spelling t (strip_dim Ty) comps).
Proof.
  split.
  - intros k H. cbn [spelling] in H. destruct H as (s' & Hs & ->).
    rewrite ends_rb_fixed, strip_dim_fixed. auto.
  - intros H. cbn [spelling] in H. destruct H as (s' & Hs & ->).
    rewrite ends_rb_dyn, strip_dim_dyn. auto.
Qed.

(* ---------- rejected / accepted ---------- *)
Theorem elements_at_odds_rejected name verdict s d :
  s_details s = Some d -> elements_at_odds (d_type d) (s_items s) = true ->
  exists e, convertFFIParam (mkPin name verdict (Some (Some s))) = Err e.
Proof.
  intros Ed H. apply inconsistent_any_verdict_rejected.
  destruct s as [t o det props items]. rewrite consistent_unfold. cbn [s_details s_items] in *. subst det.
  unfold type_at_odds. cbn [s_details s_items]. rewrite H, orb_true_r. reflexivity.
Qed.

Theorem accepted_elements p ap :
  convertFFIParam p = Ok ap ->
  exists s d, pi_unm p = Some (Some s) /\ s_details s = Some d /\ fp_type ap = d_type d /\
    json_at_odds s (d_type d) = false /\ elements_at_odds (d_type d) (s_items s) = false.
Proof.
  intros H. destruct (accepted_described p ap H) as (_ & s & U & C & D).
  inversion D as [? t o d props items comps L F P]; subst.
  exists (Schema t o (Some d) props items), d. split; [exact U|]. split; [reflexivity|]. split; [reflexivity|].
  rewrite consistent_unfold in C. apply andb_true_iff in C as [C _]. apply andb_true_iff in C as [_ C].
  apply negb_true_iff in C. apply (proj1 (type_at_odds_spelled _) C d eq_refl).
Qed.

(* ---------- referee issue I3: the signature of a valid entry exists ---------- *)
Lemma sig_strings_ok l : Forall parses l -> exists ss, sig_strings l = Ok ss.
Proof.
  induction l as [|p l IH]; intros H; [cbn; eauto|].
  inversion H as [|? ? [tc Hp] Hl]; subst. destruct (IH Hl) as [ss Es].
  destruct (AbiType.ProofsMain.validate_sound (erase p) tc Hp) as (t & _ & _ & _ & Hs & _).
  cbn [sig_strings]. unfold SignatureString, Validate. rewrite Hp. cbn [bind]. rewrite Hs. cbn [bind].
  rewrite Es. cbn [bind]. eauto.
Qed.

Theorem roundtrip_signature_exists e :
  Forall parses (e_inputs e) ->
  exists s, SignatureCtx e = Ok s /\
    forall ty outs, SignatureCtx (mkEntry ty (e_name e) (map norm (e_inputs e)) outs) = Ok s.
Proof.
  intros H. destruct (sig_strings_ok _ H) as [ss Es]. unfold SignatureCtx.
  exists (e_name e ++ [ch_lparen] ++ join [ch_comma] ss ++ [ch_rparen]). split.
  - rewrite Es. reflexivity.
  - intros ty outs. cbn [e_inputs e_name]. rewrite Ffi.ProofsRound.sig_strings_norm, Es. reflexivity.
Qed.

(* ---------- referee issue I4: the helper on aliases (fix 35b0f19) ---------- *)
(* the helper on the entry that came back = the helper on the original = the signature of both, with no
   guard on the spelling of the types *)
Theorem helper_of_back_all e :
  Forall parses (e_inputs e) ->
  forall ty outs,
    let e' := mkEntry ty (e_name e) (map norm (e_inputs e)) outs in
    SignatureCtx e = Ok (ABIMethodToSignature e') /\ ABIMethodToSignature e' = ABIMethodToSignature e /\
    SignatureCtx e' = Ok (ABIMethodToSignature e').
Proof.
  intros HP ty outs e'.
  pose proof (Ffi.ProofsSig.signature_helper_all e HP) as H1.
  assert (H2 : SignatureCtx e' = Ok (ABIMethodToSignature e')).
  { apply Ffi.ProofsSig.signature_helper_all. cbn [e' e_inputs]. apply Ffi.ProofsRound3.parses_norm_list. exact HP. }
  destruct (roundtrip_signature_exists e HP) as (s & S1 & S2). specialize (S2 ty outs). fold e' in S2.
  rewrite S1 in H1. rewrite S2 in H2. injection H1 as H1. injection H2 as H2.
  split; [rewrite S1, H2; reflexivity|]. split; [congruence|rewrite S2, H2; reflexivity].
Qed.
