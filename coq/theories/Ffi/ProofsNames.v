(* Proofs for C20, part 8 (round 5): the FFI -> ABI conversion does not depend on names.  Two inputs
   that differ only in the parameter name and in the property keys (at every depth) get the same
   outcome -- Ok / the same error class / (never) Panic -- and, when Ok, parameters that are equal
   once every name is blanked ([unnamed]): same types, internal types, indexed flags and nesting,
   hence the same signature. *)
From Coq Require Import String.
From Coq Require Import List NArith ZArith Bool Arith Lia.
From Coq Require Import Init.Byte.
From FFS Require Import Base.Res Base.Bytes Gen.AbiConsts AbiType.Syntax AbiType.Model
     Ffi.Model Ffi.Spec Ffi.SpecExact Ffi.Proofs Ffi.ProofsRound Ffi.ProofsOrder Ffi.ProofsExact.
Import ListNotations.

(* ---------- what the type parser and the renderers see of a stripped parameter ---------- *)
Lemma erase_strip p : erase (unnamed p) = erase p.
Proof.
  induction p as [n t i x cs IH] using fparam_ind'. cbn [unnamed erase]. f_equal.
  rewrite map_map. apply map_ext_in. intros c Hc. rewrite Forall_forall in IH. apply IH. exact Hc.
Qed.

Lemma component_type_string_strip p : component_type_string (unnamed p) = component_type_string p.
Proof.
  induction p as [n t i x cs IH] using fparam_ind'. cbn [unnamed component_type_string].
  destruct (has_prefix (ascii_bytes "tuple") t); [|reflexivity].
  do 3 f_equal. rewrite map_map. apply map_ext_in. intros c Hc. rewrite Forall_forall in IH. apply IH. exact Hc.
Qed.

Lemma sig_strings_strip l : sig_strings (map unnamed l) = sig_strings l.
Proof. induction l as [|p l IH]; cbn; [reflexivity|]. rewrite erase_strip, IH. reflexivity. Qed.

Theorem signature_strip e :
  SignatureCtx (unnamed_entry e) = SignatureCtx e /\
  ABIMethodToSignature (unnamed_entry e) = ABIMethodToSignature e.
Proof.
  split.
  - unfold SignatureCtx, unnamed_entry. cbn [e_inputs e_name]. rewrite sig_strings_strip. reflexivity.
  - unfold ABIMethodToSignature, unnamed_entry. cbn [e_inputs e_name]. f_equal. f_equal. f_equal.
    destruct (e_inputs e) as [|p l] eqn:E; [reflexivity|]. rewrite <- E. clear E.
    assert (M : map (fun p0 => ABIArgumentToTypeString (fp_type p0) (fp_comps p0)) (map unnamed (e_inputs e)) =
                map (fun p0 => ABIArgumentToTypeString (fp_type p0) (fp_comps p0)) (e_inputs e)).
    { rewrite map_map. apply map_ext. intros [n t i x cs]. cbn [unnamed fp_type fp_comps].
      unfold ABIArgumentToTypeString. destruct (has_prefix (ascii_bytes "tuple") t); [|reflexivity].
      do 3 f_equal. rewrite map_map. apply map_ext. intros c. apply component_type_string_strip. }
    rewrite M. destruct (e_inputs e); reflexivity.
Qed.

(* ---------- the loop, with every stored parameter stripped ---------- *)
Definition Sl (l : list (option fparam)) : list (option fparam) := map (option_map unnamed) l.

Lemma place_map l : forall i v, rmap Sl (place l i v) = place (Sl l) i (unnamed v).
Proof.
  induction l as [|x l IH]; intros i v.
  - destruct i; reflexivity.
  - destruct i as [|i].
    + destruct x; reflexivity.
    + change (Sl (x :: l)) with (option_map unnamed x :: Sl l). rewrite !place_cons_S, <- IH.
      destruct (place l i v); reflexivity.
Qed.

Lemma collect_map_strip l : rmap (map unnamed) (collect l) = collect (Sl l).
Proof.
  induction l as [|[p|] l IH]; cbn; try reflexivity.
  change (map (option_map unnamed) l) with (Sl l). rewrite <- IH. destruct (collect l); reflexivity.
Qed.

Lemma Sl_repeat n : Sl (repeat None n) = repeat None n.
Proof. induction n; cbn; [reflexivity|]. f_equal. exact IHn. Qed.

Section stripped.
  Variable pf : bytes -> option schema -> res fparam.
  Definition stripped (k : bytes) (ps : option schema) : res fparam := rmap unnamed (pf k ps).

  Lemma step_map k ps n :
    rmap (fun zp : nat * fparam => (fst zp, unnamed (snd zp))) (step pf k ps n) = step stripped k ps n.
  Proof.
    unfold step, stripped. destruct (pf k ps); cbn; try reflexivity.
    destruct (prop_index ps) as [[z|]| |]; cbn; try reflexivity.
    destruct ((z <? 0)%Z || (Z.of_nat n <=? z)%Z); reflexivity.
  Qed.

  Lemma loop_map : forall props slots,
    rmap Sl (build_loop pf props slots) = build_loop stripped props (Sl slots).
  Proof.
    induction props as [|[k ps] r IH]; intros slots; [reflexivity|].
    rewrite !loop_step. unfold Sl at 2. rewrite map_length. rewrite <- step_map.
    destruct (step pf k ps (length slots)) as [[z p]| |]; cbn [rmap bind fst snd]; try reflexivity.
    rewrite <- place_map. destruct (place slots z p) as [s1| |]; cbn [rmap bind]; try reflexivity.
    apply IH.
  Qed.

  Lemma build_map props :
    rmap (map unnamed) (buildABIParameterArrayForObject pf props) =
    buildABIParameterArrayForObject stripped props.
  Proof.
    unfold buildABIParameterArrayForObject.
    pose proof (loop_map props (repeat None (length props))) as L.
    rewrite Sl_repeat in L.
    rewrite <- L. destruct (build_loop pf props (repeat None (length props))); cbn [rmap bind]; try reflexivity.
    apply collect_map_strip.
  Qed.
End stripped.

Lemma loop_ext (pf pf' : bytes -> option schema -> res fparam) l l' :
  Forall2 (fun a b => forall n, step pf (fst a) (snd a) n = step pf' (fst b) (snd b) n) l l' ->
  forall slots, build_loop pf l slots = build_loop pf' l' slots.
Proof.
  induction 1 as [|[k ps] [k' ps'] l l' E _ IH]; intros slots; [reflexivity|].
  rewrite !loop_step. cbn [fst snd] in E. rewrite E.
  destruct (step pf' k' ps' (length slots)) as [[z p]| |]; cbn [bind fst snd]; try reflexivity.
  destruct (place slots z p); cbn [bind]; try reflexivity. apply IH.
Qed.

(* ---------- schemas up to property keys ---------- *)
Fixpoint props_ren (l m : list (bytes * option schema)) : Prop :=
  match l, m with
  | [], [] => True
  | (_, v) :: l1, (_, v') :: m1 => orel srename v v' /\ props_ren l1 m1
  | _, _ => False
  end.

Lemma srename_unfold t o d props items t' o' d' props' items' :
  srename (Schema t o d props items) (Schema t' o' d' props' items') <->
  t = t' /\ o = o' /\ d = d' /\ props_ren props props' /\ orel srename items items'.
Proof.
  cbn [srename].
  assert (E : forall l m,
             (fix rel (l m : list (bytes * option schema)) {struct l} : Prop :=
                match l, m with
                | [], [] => True
                | (_, v) :: l1, (_, v') :: m1 =>
                    match v, v' with Some x, Some y => srename x y | None, None => True | _, _ => False end
                    /\ rel l1 m1
                | _, _ => False
                end) l m <-> props_ren l m).
  { induction l as [|[k v] l IH]; intros [|[k' v'] m]; cbn; try tauto. }
  split.
  - intros (A & B & C & R & I). repeat split; auto; apply E; exact R.
  - intros (A & B & C & R & I). repeat split; auto; apply E; exact R.
Qed.

Lemma srename_refl s : srename s s.
Proof.
  induction s as [t o d props items HP HI] using schema_ind'. apply srename_unfold.
  repeat split; auto.
  - induction HP as [|[k [x|]] l H _ IH]; cbn; auto.
  - destruct items; cbn in *; auto.
Qed.

Lemma srename_index x y : srename x y -> prop_index (Some x) = prop_index (Some y).
Proof.
  destruct x as [? ? dx ? ?], y as [? ? dy ? ?]. intros H. apply srename_unfold in H.
  destruct H as (_ & _ & <- & _). reflexivity.
Qed.

(* the loop over the dimensions reads only "type" / "oneOf" along the items chain *)
Lemma itemsValid_srename : forall tc (x y : option schema),
  match x, y with Some a, Some b => srename a b | None, None => True | _, _ => False end ->
  itemsValid x tc = itemsValid y tc.
Proof.
  induction tc as [|c IH n|c IH|]; intros x y R; try reflexivity; cbn [itemsValid];
    (destruct x as [a|], y as [b|]; try tauto; try reflexivity;
     destruct a as [t o d p i], b as [t' o' d' p' i']; apply srename_unfold in R;
     destruct R as (<- & <- & <- & _ & Ri);
     change (inputTypeValidForTypeComponent (Schema t o d p' i') c)
       with (inputTypeValidForTypeComponent (Schema t o d p i) c);
     destruct (inputTypeValidForTypeComponent (Schema t o d p i) c); cbn [bind]; try reflexivity;
     cbn [s_items]; apply IH; exact Ri).
Qed.

(* the closing check sees the stripped parameter, the schema's own JSON type and those of its
   element descriptions only *)
Lemma finish_strip s s' q q' :
  s_type s = s_type s' -> s_oneof s = s_oneof s' ->
  (forall tc, itemsValid (s_items s) tc = itemsValid (s_items s') tc) -> unnamed q = unnamed q' ->
  rmap unnamed (finish s q) = rmap unnamed (finish s' q').
Proof.
  intros Et Eo Ei Eq. unfold finish. rewrite <- (erase_strip q), <- (erase_strip q'), Eq.
  destruct (parseABIParameterComponents (erase (unnamed q'))) as [tc| |]; cbn [bind rmap]; try reflexivity.
  assert (EI : inputTypeValidForTypeComponent s tc = inputTypeValidForTypeComponent s' tc).
  { unfold inputTypeValidForTypeComponent, inputTypeString. rewrite Et, Eo. reflexivity. }
  rewrite EI. destruct (inputTypeValidForTypeComponent s' tc); cbn [bind rmap]; try reflexivity.
  rewrite (Ei tc). destruct (itemsValid (s_items s') tc); cbn [bind rmap]; try reflexivity.
  f_equal. exact Eq.
Qed.

Theorem rename_process_aux (s : schema) :
  forall s', srename s s' ->
    (forall n n', rmap unnamed (processSchema n s) = rmap unnamed (processSchema n' s')) /\
    rmap (map unnamed) (down s) = rmap (map unnamed) (down s').
Proof.
  induction s as [t o d props items HP HI] using schema_ind'.
  intros [t' o' d' props' items'] H. apply srename_unfold in H.
  destruct H as (<- & <- & <- & Rm & Ri).
  assert (B : rmap (map unnamed) (buildABIParameterArrayForObject PF props) =
              rmap (map unnamed) (buildABIParameterArrayForObject PF props')).
  { rewrite !build_map. unfold buildABIParameterArrayForObject.
    assert (L : length props = length props').
    { clear -Rm. revert props' Rm. induction props as [|[k v] l IH]; intros [|[k' v'] m] R; cbn in *; try tauto.
      f_equal. apply IH. tauto. }
    rewrite <- L.
    rewrite (loop_ext (stripped PF) (stripped PF) props props'); [reflexivity|].
    clear -HP Rm. revert props' Rm.
    induction HP as [|[k v] l Hv _ IH]; intros [|[k' v'] m] R; cbn in R; try tauto; constructor.
    - destruct R as (Rv & _). intros n. cbn [fst snd].
      destruct v as [x|], v' as [y|]; cbn in Rv; try tauto; try reflexivity.
      cbn in Hv. destruct (Hv y Rv) as [Hp _]. specialize (Hp k k').
      unfold step, stripped. cbn [PF]. rewrite Hp, (srename_index _ _ Rv). reflexivity.
    - apply IH. tauto. }
  assert (D : rmap (map unnamed) (down (Schema t o d props items)) =
              rmap (map unnamed) (down (Schema t o d props' items'))).
  { rewrite !down_unfold. destruct (bytes_eqb t jsonArrayType); [|exact B].
    destruct items as [x|], items' as [y|]; cbn in Ri; try tauto; try reflexivity.
    cbn in HI. destruct (HI y Ri) as [_ Hd]. exact Hd. }
  split; [|exact D].
  intros n n'. rewrite !processSchema_unfold. destruct d as [d|]; [|reflexivity].
  assert (C : rmap (map unnamed) (components_of t props items) = rmap (map unnamed) (components_of t props' items')).
  { unfold components_of. destruct (bytes_eqb t jsonObjectType); [exact B|].
    destruct (bytes_eqb t jsonArrayType); [|reflexivity].
    destruct items as [x|], items' as [y|]; cbn in Ri; try tauto; try reflexivity.
    cbn in HI. destruct (HI y Ri) as [_ Hd]. exact Hd. }
  destruct (components_of t props items) as [c| |], (components_of t props' items') as [c'| |];
    cbn [rmap] in C; try discriminate; cbn [bind rmap]; try (injection C as ->; reflexivity); try reflexivity.
  injection C as C. apply finish_strip; try reflexivity.
  - intros tc. cbn [s_items]. apply itemsValid_srename. exact Ri.
  - cbn [unnamed]. rewrite C. reflexivity.
Qed.

Theorem rename_process s s' n n' :
  srename s s' -> rmap unnamed (processSchema n s) = rmap unnamed (processSchema n' s').
Proof. intros H. apply (rename_process_aux s s' H). Qed.

(* ---------- one parameter, parameter lists, definitions ---------- *)
Theorem rename_convert p p' :
  pin_rename p p' -> rmap unnamed (convertFFIParam p) = rmap unnamed (convertFFIParam p').
Proof.
  destruct p as [n v u], p' as [n' v' u']. unfold pin_rename. cbn [pi_verdict pi_unm]. intros [<- H].
  destruct v; [|reflexivity].
  destruct u as [[s|]|], u' as [[s'|]|]; try tauto; try reflexivity.
  rewrite !convert_is_process. apply rename_process. exact H.
Qed.

Lemma rename_params l : forall l', Forall2 pin_rename l l' ->
  rmap (map unnamed) (convertFFIParamsToABIParameters l) = rmap (map unnamed) (convertFFIParamsToABIParameters l').
Proof.
  induction l as [|p l IH]; intros l' H; inversion H as [|? p' ? r' E F]; subst; [reflexivity|].
  cbn [convertFFIParamsToABIParameters]. pose proof (rename_convert p p' E) as Ep. specialize (IH r' F).
  destruct (convertFFIParam p) as [x| |], (convertFFIParam p') as [x'| |]; cbn [rmap] in Ep; try discriminate;
    cbn [bind rmap]; try (injection Ep as ->; reflexivity); try reflexivity.
  destruct (convertFFIParamsToABIParameters l) as [xs| |], (convertFFIParamsToABIParameters r') as [xs'| |];
    cbn [rmap] in IH; try discriminate; cbn [bind rmap]; try (injection IH as ->; reflexivity); try reflexivity.
  injection Ep as Ep. injection IH as IH. cbn [map]. rewrite Ep, IH. reflexivity.
Qed.

Theorem rename_definitions name ps ps' rs rs' :
  Forall2 pin_rename ps ps' -> Forall2 pin_rename rs rs' ->
  rmap unnamed_entry (ConvertFFIMethodToABI name ps rs) = rmap unnamed_entry (ConvertFFIMethodToABI name ps' rs') /\
  rmap unnamed_entry (ConvertFFIEventDefinitionToABI name ps) = rmap unnamed_entry (ConvertFFIEventDefinitionToABI name ps') /\
  rmap unnamed_entry (ConvertFFIErrorDefinitionToABI name ps) = rmap unnamed_entry (ConvertFFIErrorDefinitionToABI name ps').
Proof.
  intros Hp Hr. pose proof (rename_params ps ps' Hp) as Ep. pose proof (rename_params rs rs' Hr) as Er.
  unfold ConvertFFIMethodToABI, ConvertFFIEventDefinitionToABI, ConvertFFIErrorDefinitionToABI.
  destruct (convertFFIParamsToABIParameters ps) as [x| |], (convertFFIParamsToABIParameters ps') as [x'| |];
    cbn [rmap] in Ep; try discriminate; cbn [bind rmap]; try (injection Ep as ->; repeat split; reflexivity); try (repeat split; reflexivity).
  injection Ep as Ep.
  split; [|split; unfold unnamed_entry; cbn; rewrite Ep; reflexivity].
  destruct (convertFFIParamsToABIParameters rs) as [y| |], (convertFFIParamsToABIParameters rs') as [y'| |];
    cbn [rmap] in Er; try discriminate; cbn [bind rmap]; try (injection Er as ->; reflexivity); try reflexivity.
  injection Er as Er. unfold unnamed_entry. cbn. rewrite Ep, Er. reflexivity.
Qed.

(* the names themselves are carried over exactly: the parameter name (the member names, at every
   depth, are the property keys: [describes], ProofsExact.accepted_described) *)
Theorem convert_name p ap : convertFFIParam p = Ok ap -> fp_name ap = pi_name p.
Proof.
  intros H. destruct (accepted_described p ap H) as (_ & s & _ & _ & D). inversion D; subst. reflexivity.
Qed.
