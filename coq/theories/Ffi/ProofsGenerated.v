(* Proofs for C20, part 11 (round 5): every schema the ABI -> FFI direction generates lies in the
   domain of the exact characterisation (ProofsExact / ProofsDescribed): it declares one JSON type at
   every level ([json_type_declared]), is consistent, and the parameter it describes is the one it
   was generated from (up to [norm]). *)
From Coq Require Import String.
From Coq Require Import List NArith ZArith Bool Arith Lia.
From Coq Require Import Init.Byte.
From FFS Require Import Base.Res Base.Bytes Gen.AbiConsts AbiType.Syntax AbiType.Model AbiType.ProofsArr AbiType.ProofsMain
     Ffi.Model Ffi.Spec Ffi.SpecExact Ffi.Proofs Ffi.ProofsSpec Ffi.ProofsRound Ffi.ProofsExact Ffi.ProofsDescribed.
Import ListNotations.

(* what a generated schema looks like, as far as [members_of] is concerned *)
(* every level of the items chain declares a JSON type *)
Fixpoint chain_declared (s : schema) : Prop :=
  match s with
  | Schema _ _ _ _ items =>
      declared_json_type s <> None /\ match items with None => True | Some it => chain_declared it end
  end.

Lemma chain_elems : forall it t, chain_declared it -> elems_declared it t.
Proof.
  induction it as [t0 o d props items HP HI] using schema_ind'. intros t [D C].
  cbn [elems_declared]. split; [exact D|]. destruct (ends_with_rbracket t); [|exact I].
  destruct items as [it'|]; [|exact I]. cbn in HI. apply HI. exact C.
Qed.

Lemma chain_elements t items :
  match items with None => True | Some it => chain_declared it end -> elements_declared t items.
Proof.
  intros C. unfold elements_declared. destruct (ends_with_rbracket t); [|exact I].
  destruct items as [it|]; [|exact I]. apply chain_elems. exact C.
Qed.

Definition gen_ok (s : schema) : Prop :=
  json_type_declared s /\
  (bytes_eqb (s_type s) (str "object") = false -> bytes_eqb (s_type s) (str "array") = false -> s_props s = []) /\
  chain_declared s.

Definition member_declared (km : bytes * option schema) : Prop :=
  forall m, snd km = Some m -> json_type_declared m.

Lemma set_index_declared i s s' : set_index i s = Ok s' -> json_type_declared s -> json_type_declared s'.
Proof.
  destruct s as [t o [d|] p it]; cbn [set_index]; intros H JD; [|discriminate]. injection H as <-.
  inversion JD as [? Hd He Hm]; subst. constructor; [exact Hd| |exact Hm].
  intros d0 E. cbn [s_details] in E. injection E as <-. cbn [d_type s_items]. exact (He d eq_refl).
Qed.

Lemma map_set_forall {A} (P : bytes * A -> Prop) k v m : Forall P m -> P (k, v) -> Forall P (map_set k v m).
Proof.
  induction m as [|[k' v'] m IH]; cbn [map_set]; intros F Pk; [constructor; auto|].
  inversion F as [|? ? Ph Pt]; subst. destruct (bytes_eqb k k'); constructor; auto.
Qed.

Definition G (tc : tcomp) : Prop := forall p s, getSchemaForABIInput p tc = Ok s -> gen_ok s.

Lemma tuple_props_declared : forall children, Forall G children ->
  forall ps i acc props, Forall member_declared acc ->
    tuple_props children ps i acc = Ok props -> Forall member_declared props.
Proof.
  induction children as [|c cs IH]; intros HF [|cp ps] i acc props FA H; cbn [tuple_props] in H; try discriminate.
  - injection H as <-. exact FA.
  - inversion HF as [|? ? Gc Gcs]; subst.
    destruct (getSchemaForABIInput cp c) as [s| |] eqn:E; cbn [bind] in H; try discriminate.
    destruct (set_index i s) as [s'| |] eqn:E'; cbn [bind] in H; try discriminate.
    apply (IH Gcs ps (S i) (map_set (fp_name cp) (Some s') acc) props); [|exact H].
    apply map_set_forall; [exact FA|]. intros m Em. cbn [snd] in Em. injection Em as <-.
    eapply set_index_declared; [exact E'|]. apply (Gc cp s E).
Qed.

Lemma array_not_object t : bytes_eqb t (str "array") = true -> bytes_eqb t (str "object") = true -> False.
Proof. intros A B. apply bytes_eqb_eq in A. apply bytes_eqb_eq in B. subst t. discriminate. Qed.

Lemma lift_ok child : gen_ok child -> gen_ok (lift child).
Proof.
  intros (JD & SH & CH). destruct child as [t o d pr it]. cbn [lift]. split; [|split].
  - constructor; [cbn; discriminate|intros d0 _; cbn [s_items]; apply chain_elements; exact CH|].
    change (members_of (Schema jsonArrayType None d [] (Some (Schema t o None pr it))))
      with (elem_members (Schema t o None pr it)).
    inversion JD as [? _ _ Hm]; subst. cbn [members_of] in Hm. cbn [s_type s_props] in SH. cbn [elem_members].
    destruct (bytes_eqb t (str "array")) eqn:Ea, (bytes_eqb t (str "object")) eqn:Eo.
    + exfalso. eapply array_not_object; eauto.
    + exact Hm.
    + exact Hm.
    + rewrite (SH eq_refl eq_refl). constructor.
  - intros _ H. discriminate H.
  - split; [cbn; discriminate|exact CH].
Qed.

Theorem generated_ok tc : G tc.
Proof.
  induction tc as [et sfx m n|c k IH|c IH|l IH] using tcomp_ind'; intros p s H.
  - cbn [getSchemaForABIInput] in H.
    destruct (et_json et); cbn in H; injection H as <-;
      (split; [constructor; [vm_compute; discriminate|intros d0 _; apply chain_elements; exact I|apply Forall_nil]
              |split; [intros _ _; reflexivity|split; [vm_compute; discriminate|exact I]]]).
  - change (CFixedArr c k) with (wrap1_tc c (Some k)) in H. rewrite getSchema_wrap1 in H.
    destruct (getSchemaForABIInput p c) as [child| |] eqn:E; cbn [bind] in H; try discriminate.
    injection H as <-. apply lift_ok. apply (IH p child E).
  - change (CDynArr c) with (wrap1_tc c None) in H. rewrite getSchema_wrap1 in H.
    destruct (getSchemaForABIInput p c) as [child| |] eqn:E; cbn [bind] in H; try discriminate.
    injection H as <-. apply lift_ok. apply (IH p child E).
  - rewrite getSchema_tuple in H.
    destruct (tuple_props l (fp_comps p) 0 []) as [props| |] eqn:E; cbn [bind] in H; try discriminate.
    injection H as <-. split; [|split].
    + constructor; [cbn; discriminate|intros d0 _; apply chain_elements; exact I|].
      change (members_of (Schema jsonObjectType None (Some (det_of p)) props None)) with props.
      apply (tuple_props_declared l IH (fp_comps p) 0%nat [] props); [constructor|exact E].
    + intros H. discriminate H.
    + split; [cbn; discriminate|exact I].
Qed.

Theorem generated_in_domain p ns :
  paramToFFI p = Ok ns ->
  json_type_declared (snd ns) /\
  (wf_names p ->
   consistent (snd ns) = true /\ described (fst ns) (snd ns) = norm p /\ types_valid (norm p) = true).
Proof.
  unfold paramToFFI. intros H.
  destruct (parseABIParameterComponents (erase p)) as [tc| |] eqn:EP; cbn [bind] in H; try discriminate.
  destruct (getSchemaForABIInput p tc) as [s| |] eqn:Gs; cbn [bind] in H; try discriminate.
  injection H as <-. cbn [fst snd]. split; [apply (generated_ok tc p s Gs)|].
  intros W. destruct (roundtrip_param p tc EP W) as (s' & Gs' & _ & Ps). rewrite Gs in Gs'. injection Gs' as <-.
  specialize (Ps (fp_name p)). rewrite <- (fp_name_norm p), rename_self in Ps.
  pose proof (accepted_consistent _ _ _ Ps) as C. pose proof (process_describes _ _ _ Ps) as D.
  split; [exact C|]. split.
  - symmetry. rewrite <- (fp_name_norm p). apply describes_described; assumption.
  - eapply describes_types_valid; eauto.
Qed.
