(* Proofs for C20: the Ethereum class read off a type text agrees with the parsed component.
   The Ethereum class is read off the type text by Spec.eth_class_of; the implementation decides on
   the parsed component tree.  The two are connected through the spelling relation of the C13
   development (validate_sound). *)
From Coq Require Import String.
From Coq Require Import List NArith ZArith Bool Arith Lia.
From Coq Require Import Init.Byte.
From FFS Require Import Base.Res Base.Bytes Abi.Types Gen.AbiConsts AbiType.Syntax AbiType.Spec AbiType.Model
     AbiType.Abs AbiType.ProofsDec AbiType.ProofsArr AbiType.ProofsElem AbiType.ProofsLeaf AbiType.ProofsMain
     Ffi.Model Ffi.Spec Ffi.Proofs.
Import ListNotations.

Definition model_ok (t : bytes) (tc : tcomp) : bool :=
  if bytes_eqb t jsonBooleanType then elementary_enc_is tc JSONEncodingTypeBool
  else if bytes_eqb t jsonIntegerType then elementary_enc_is tc JSONEncodingTypeInteger
  else if bytes_eqb t jsonNumberType then elementary_enc_is tc JSONEncodingTypeFloat
  else if bytes_eqb t jsonStringType then is_elementary tc
  else if bytes_eqb t jsonArrayType then
    match tc with CDynArr _ | CFixedArr _ _ => true | _ => false end
  else if bytes_eqb t jsonObjectType then
    match tc with CTuple _ => true | _ => false end
  else false.

Lemma inputTypeValid_unfold s tc :
  inputTypeValidForTypeComponent s tc =
  if model_ok (inputTypeString s) tc then Ok tt else do _ <- tc_string tc; Err ETypeMismatch.
Proof. reflexivity. Qed.

(* ---------- the class of a type text ---------- *)
Lemma ends_rb_snoc s : ends_with_rbracket (s ++ [x5d]) = true.
Proof. unfold ends_with_rbracket. rewrite rev_unit. reflexivity. Qed.

Lemma ends_rb_digits pre s : s <> [] -> Forall (fun b => is_digit b = true) s ->
  ends_with_rbracket (pre ++ s) = false.
Proof.
  intros Hn Hd. destruct (exists_last Hn) as (s' & b & ->).
  rewrite app_assoc. unfold ends_with_rbracket. rewrite rev_unit.
  rewrite Forall_forall in Hd. specialize (Hd b ltac:(apply in_or_app; right; left; reflexivity)).
  apply (digit_not x5d b Hd). right. vm_compute. reflexivity.
Qed.

Lemma ends_rb_dec pre m : ends_with_rbracket (pre ++ dec m) = false.
Proof. apply ends_rb_digits; [apply dec_nonnil|apply dec_digits]. Qed.

Definition class_of_json (j : json_enc) : eth_class :=
  match j with
  | JSONEncodingTypeInteger => KInteger
  | JSONEncodingTypeFloat => KNumber
  | JSONEncodingTypeBool => KBoolean
  | _ => KOtherElementary
  end.

Definition tc_class (tc : tcomp) : eth_class :=
  match tc with
  | CElem et _ _ _ => class_of_json (et_json et)
  | CFixedArr _ _ | CDynArr _ => KArray
  | CTuple _ => KTuple
  end.

Ltac leaf_tc_in H :=
  unfold tc_of, leaf_tc, mk_leaf in H;
  match type of H with
  | context [lookup_et ?n] =>
      let L := fresh "L" in let EL := fresh "EL" in
      remember (lookup_et n) as L eqn:EL; vm_compute in EL; subst L
  end;
  injection H as <-.

Lemma eth_class_uint s : eth_class_of (T "uint" ++ s) = if ends_with_rbracket (T "uint" ++ s) then KArray else KInteger.
Proof. unfold eth_class_of. destruct (ends_with_rbracket _); reflexivity. Qed.
Lemma eth_class_int s : eth_class_of (T "int" ++ s) = if ends_with_rbracket (T "int" ++ s) then KArray else KInteger.
Proof. unfold eth_class_of. destruct (ends_with_rbracket _); reflexivity. Qed.
Lemma eth_class_fixed s : eth_class_of (T "fixed" ++ s) = if ends_with_rbracket (T "fixed" ++ s) then KArray else KNumber.
Proof. unfold eth_class_of. destruct (ends_with_rbracket _); reflexivity. Qed.
Lemma eth_class_ufixed s : eth_class_of (T "ufixed" ++ s) = if ends_with_rbracket (T "ufixed" ++ s) then KArray else KNumber.
Proof. unfold eth_class_of. destruct (ends_with_rbracket _); reflexivity. Qed.
Lemma eth_class_bytes s : eth_class_of (T "bytes" ++ s) = if ends_with_rbracket (T "bytes" ++ s) then KArray else KOtherElementary.
Proof. unfold eth_class_of. destruct (ends_with_rbracket _); reflexivity. Qed.

(* the class read off the text is the class of the parsed component *)
Lemma class_of_parsed p tc :
  parseABIParameterComponents (erase p) = Ok tc -> eth_class_of (fp_type p) = tc_class tc.
Proof.
  intros H. destruct (validate_sound (erase p) tc H) as (t & _ & _ & Hsp & _ & Htc).
  destruct p as [n Ty i x cs]. cbn [erase p_type p_comps fp_type] in *.
  destruct t; cbn [spelling] in Hsp.
  - (* uint *) leaf_tc_in Htc. cbn [tc_class et_json class_of_json].
    destruct Hsp as [->|[_ ->]]; [|reflexivity]. cbn [canonical]. rewrite eth_class_uint, ends_rb_dec. reflexivity.
  - (* int *) leaf_tc_in Htc. cbn [tc_class et_json class_of_json].
    destruct Hsp as [->|[_ ->]]; [|reflexivity]. cbn [canonical]. rewrite eth_class_int, ends_rb_dec. reflexivity.
  - leaf_tc_in Htc. subst. reflexivity.
  - leaf_tc_in Htc. subst. reflexivity.
  - (* fixed *) leaf_tc_in Htc. cbn [tc_class et_json class_of_json].
    destruct Hsp as [->|(_ & _ & ->)]; [|reflexivity]. cbn [canonical].
    rewrite eth_class_fixed. rewrite !app_assoc, ends_rb_dec. reflexivity.
  - (* ufixed *) leaf_tc_in Htc. cbn [tc_class et_json class_of_json].
    destruct Hsp as [->|(_ & _ & ->)]; [|reflexivity]. cbn [canonical].
    rewrite eth_class_ufixed. rewrite !app_assoc, ends_rb_dec. reflexivity.
  - (* bytesN *) leaf_tc_in Htc. subst. cbn [canonical tc_class et_json class_of_json].
    rewrite eth_class_bytes, ends_rb_dec. reflexivity.
  - leaf_tc_in Htc. subst. reflexivity.
  - leaf_tc_in Htc. subst. reflexivity.
  - leaf_tc_in Htc. subst. reflexivity.
  - (* T[k] *) destruct Hsp as (s' & _ & ->). cbn [tc_of] in Htc.
    destruct (tc_of t); [|discriminate]. injection Htc as <-. cbn [tc_class].
    unfold eth_class_of. change (T "]") with [x5d]. rewrite !app_assoc, ends_rb_snoc. reflexivity.
  - (* T[] *) destruct Hsp as (s' & _ & ->). cbn [tc_of] in Htc.
    destruct (tc_of t); [|discriminate]. injection Htc as <-. cbn [tc_class].
    unfold eth_class_of. change (T "[]") with ([x5b] ++ [x5d]). rewrite !app_assoc, ends_rb_snoc. reflexivity.
  - (* tuple *) destruct Hsp as [-> _]. rewrite tc_of_tuple in Htc.
    destruct (tc_of_list l); [|discriminate]. injection Htc as <-. reflexivity.
Qed.

(* the implementation's test, on the class *)
Lemma model_ok_compatible jt tc : model_ok jt tc = true -> json_compatible jt (tc_class tc) = true.
Proof.
  unfold model_ok, json_compatible.
  change (str "string") with jsonStringType. change (str "boolean") with jsonBooleanType.
  change (str "integer") with jsonIntegerType. change (str "number") with jsonNumberType.
  change (str "array") with jsonArrayType. change (str "object") with jsonObjectType.
  destruct (bytes_eqb_spec jt jsonBooleanType) as [->|_].
  { destruct tc as [et ? ? ?| | |]; cbn; try discriminate. destruct (et_json et); cbn; congruence. }
  destruct (bytes_eqb_spec jt jsonIntegerType) as [->|_].
  { destruct tc as [et ? ? ?| | |]; cbn; try discriminate. destruct (et_json et); cbn; congruence. }
  destruct (bytes_eqb_spec jt jsonNumberType) as [->|_].
  { destruct tc as [et ? ? ?| | |]; cbn; try discriminate. destruct (et_json et); cbn; congruence. }
  destruct (bytes_eqb_spec jt jsonStringType) as [->|_].
  { destruct tc as [et ? ? ?| | |]; cbn; try discriminate. destruct (et_json et); cbn; congruence. }
  destruct (bytes_eqb_spec jt jsonArrayType) as [->|_].
  { destruct tc; cbn; congruence. }
  destruct (bytes_eqb_spec jt jsonObjectType) as [->|_].
  { destruct tc; cbn; congruence. }
  discriminate.
Qed.

Lemma last_indep {A} (l : list A) : forall a b, l <> [] -> last l a = last l b.
Proof.
  induction l as [|x l IH]; intros a b H; [congruence|]. cbn [last].
  destruct l as [|y r]; [reflexivity|]. apply IH. discriminate.
Qed.

(* the declared JSON type of Spec.v is the one the implementation tests *)
Lemma fold_last_non_string l x :
  filter (fun t => negb (bytes_eqb t (str "string"))) l = [x] ->
  fold_left (fun acc t => if bytes_eqb t jsonStringType then acc else t) l [] = x.
Proof.
  change (str "string") with jsonStringType.
  assert (G : forall l acc,
             fold_left (fun acc t => if bytes_eqb t jsonStringType then acc else t) l acc =
             last (filter (fun t => negb (bytes_eqb t jsonStringType)) l) acc).
  { induction l0 as [|t l0 IH]; intros acc; [reflexivity|]. cbn [fold_left filter].
    destruct (bytes_eqb t jsonStringType); cbn [negb]; [apply IH|].
    rewrite IH. cbn [last]. destruct (filter _ l0) eqn:F; [reflexivity|]. apply last_indep. discriminate. }
  intros H. rewrite G, H. reflexivity.
Qed.

Lemma declared_is_tested s jt : declared_json_type s = Some jt -> inputTypeString s = jt.
Proof.
  unfold declared_json_type, inputTypeString. destruct (s_oneof s) as [l|]; [|congruence].
  destruct (filter _ l) as [|x [|y r]] eqn:F; try discriminate. intros H. injection H as <-.
  apply fold_last_non_string. exact F.
Qed.


(* a schema whose processing got past the JSON type check is not at odds with its details type *)
Lemma finish_not_at_odds t o d pr it q r :
  finish (Schema t o (Some d) pr it) q = Ok r -> fp_type q = d_type d ->
  type_at_odds (Schema t o (Some d) pr it) = false.
Proof.
  unfold finish. intros H Ety.
  destruct (parseABIParameterComponents (erase q)) as [tc| |] eqn:P; cbn [bind] in H; try discriminate.
  rewrite inputTypeValid_unfold in H.
  destruct (model_ok (inputTypeString (Schema t o (Some d) pr it)) tc) eqn:M.
  2:{ destruct (tc_string tc); cbn in H; discriminate. }
  unfold type_at_odds. cbn [s_details].
  destruct (declared_json_type (Schema t o (Some d) pr it)) as [jt|] eqn:D; [|reflexivity].
  rewrite (declared_is_tested _ _ D) in M. apply model_ok_compatible in M.
  rewrite <- (class_of_parsed q tc P), Ety in M. rewrite M. reflexivity.
Qed.
