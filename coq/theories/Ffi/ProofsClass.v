(* Proofs for C20: the Ethereum class read off a type text agrees with the parsed component.
   The Ethereum class is read off the type text by Spec.eth_class_of; the implementation decides on
   the parsed component tree.  The two are connected through the spelling relation of the C13
   development (validate_sound). *)
From Coq Require Import String.
From Coq Require Import List NArith ZArith Bool Arith Lia.
From Coq Require Import Init.Byte.
From FFS Require Import Base.Res Base.Bytes Abi.Types Gen.AbiConsts AbiType.Syntax AbiType.Spec AbiType.Model
     AbiType.Abs AbiType.ProofsDec AbiType.ProofsArr AbiType.ProofsElem AbiType.ProofsLeaf AbiType.ProofsMain
     Ffi.Model Ffi.Spec Ffi.SpecExact Ffi.Proofs.
Import ListNotations.

Definition model_ok (t : bytes) (tc : tcomp) : bool :=
  if bytes_eqb t jsonBooleanType then elementary_enc_is tc JSONEncodingTypeBool
  else if bytes_eqb t jsonIntegerType then elementary_enc_is tc JSONEncodingTypeInteger
  else if bytes_eqb t jsonNumberType then elementary_enc_is tc JSONEncodingTypeFloat
  else if bytes_eqb t jsonStringType then is_elementary tc
  else if bytes_eqb t jsonArrayType then
    match tc with CDynArr _ | CFixedArr _ _ => true | _ => false end
  else if bytes_eqb t jsonObjectType then
    match tc with CTuple _ => true | _ => false end
  else false.

Lemma inputTypeValid_unfold s tc :
  inputTypeValidForTypeComponent s tc =
  if model_ok (inputTypeString s) tc then Ok tt else do _ <- tc_string tc; Err ETypeMismatch.
Proof. reflexivity. Qed.

(* ---------- the class of a type text ---------- *)
Lemma ends_rb_snoc s : ends_with_rbracket (s ++ [x5d]) = true.
Proof. unfold ends_with_rbracket. rewrite rev_unit. reflexivity. Qed.

Lemma ends_rb_digits pre s : s <> [] -> Forall (fun b => is_digit b = true) s ->
  ends_with_rbracket (pre ++ s) = false.
Proof.
  intros Hn Hd. destruct (exists_last Hn) as (s' & b & ->).
  rewrite app_assoc. unfold ends_with_rbracket. rewrite rev_unit.
  rewrite Forall_forall in Hd. specialize (Hd b ltac:(apply in_or_app; right; left; reflexivity)).
  apply (digit_not x5d b Hd). right. vm_compute. reflexivity.
Qed.

Lemma ends_rb_dec pre m : ends_with_rbracket (pre ++ dec m) = false.
Proof. apply ends_rb_digits; [apply dec_nonnil|apply dec_digits]. Qed.

Definition class_of_json (j : json_enc) : eth_class :=
  match j with
  | JSONEncodingTypeInteger => KInteger
  | JSONEncodingTypeFloat => KNumber
  | JSONEncodingTypeBool => KBoolean
  | _ => KOtherElementary
  end.

Definition tc_class (tc : tcomp) : eth_class :=
  match tc with
  | CElem et _ _ _ => class_of_json (et_json et)
  | CFixedArr _ _ | CDynArr _ => KArray
  | CTuple _ => KTuple
  end.

Ltac leaf_tc_in H :=
  unfold tc_of, leaf_tc, mk_leaf in H;
  match type of H with
  | context [lookup_et ?n] =>
      let L := fresh "L" in let EL := fresh "EL" in
      remember (lookup_et n) as L eqn:EL; vm_compute in EL; subst L
  end;
  injection H as <-.

Lemma eth_class_uint s : eth_class_of (T "uint" ++ s) = if ends_with_rbracket (T "uint" ++ s) then KArray else KInteger.
Proof. unfold eth_class_of. destruct (ends_with_rbracket _); reflexivity. Qed.
Lemma eth_class_int s : eth_class_of (T "int" ++ s) = if ends_with_rbracket (T "int" ++ s) then KArray else KInteger.
Proof. unfold eth_class_of. destruct (ends_with_rbracket _); reflexivity. Qed.
Lemma eth_class_fixed s : eth_class_of (T "fixed" ++ s) = if ends_with_rbracket (T "fixed" ++ s) then KArray else KNumber.
Proof. unfold eth_class_of. destruct (ends_with_rbracket _); reflexivity. Qed.
Lemma eth_class_ufixed s : eth_class_of (T "ufixed" ++ s) = if ends_with_rbracket (T "ufixed" ++ s) then KArray else KNumber.
Proof. unfold eth_class_of. destruct (ends_with_rbracket _); reflexivity. Qed.
Lemma eth_class_bytes s : eth_class_of (T "bytes" ++ s) = if ends_with_rbracket (T "bytes" ++ s) then KArray else KOtherElementary.
Proof. unfold eth_class_of. destruct (ends_with_rbracket _); reflexivity. Qed.

(* the class read off the text is the class of the parsed component *)
Lemma class_of_spelling t Ty comps tc :
  spelling t Ty comps -> tc_of t = Some tc -> eth_class_of Ty = tc_class tc.
Proof.
  intros Hsp Htc.
  destruct t; cbn [spelling] in Hsp.
  - (* uint *) leaf_tc_in Htc. cbn [tc_class et_json class_of_json].
    destruct Hsp as [->|[_ ->]]; [|reflexivity]. cbn [canonical]. rewrite eth_class_uint, ends_rb_dec. reflexivity.
  - (* int *) leaf_tc_in Htc. cbn [tc_class et_json class_of_json].
    destruct Hsp as [->|[_ ->]]; [|reflexivity]. cbn [canonical]. rewrite eth_class_int, ends_rb_dec. reflexivity.
  - leaf_tc_in Htc. subst. reflexivity.
  - leaf_tc_in Htc. subst. reflexivity.
  - (* fixed *) leaf_tc_in Htc. cbn [tc_class et_json class_of_json].
    destruct Hsp as [->|(_ & _ & ->)]; [|reflexivity]. cbn [canonical].
    rewrite eth_class_fixed. rewrite !app_assoc, ends_rb_dec. reflexivity.
  - (* ufixed *) leaf_tc_in Htc. cbn [tc_class et_json class_of_json].
    destruct Hsp as [->|(_ & _ & ->)]; [|reflexivity]. cbn [canonical].
    rewrite eth_class_ufixed. rewrite !app_assoc, ends_rb_dec. reflexivity.
  - (* bytesN *) leaf_tc_in Htc. subst. cbn [canonical tc_class et_json class_of_json].
    rewrite eth_class_bytes, ends_rb_dec. reflexivity.
  - leaf_tc_in Htc. subst. reflexivity.
  - leaf_tc_in Htc. subst. reflexivity.
  - leaf_tc_in Htc. subst. reflexivity.
  - (* T[k] *) destruct Hsp as (s' & _ & ->). cbn [tc_of] in Htc.
    destruct (tc_of t); [|discriminate]. injection Htc as <-. cbn [tc_class].
    unfold eth_class_of. change (T "]") with [x5d]. rewrite !app_assoc, ends_rb_snoc. reflexivity.
  - (* T[] *) destruct Hsp as (s' & _ & ->). cbn [tc_of] in Htc.
    destruct (tc_of t); [|discriminate]. injection Htc as <-. cbn [tc_class].
    unfold eth_class_of. change (T "[]") with ([x5b] ++ [x5d]). rewrite !app_assoc, ends_rb_snoc. reflexivity.
  - (* tuple *) destruct Hsp as [-> _]. rewrite tc_of_tuple in Htc.
    destruct (tc_of_list l); [|discriminate]. injection Htc as <-. reflexivity.
Qed.

Lemma class_of_parsed p tc :
  parseABIParameterComponents (erase p) = Ok tc -> eth_class_of (fp_type p) = tc_class tc.
Proof.
  intros H. destruct (validate_sound (erase p) tc H) as (t & _ & _ & Hsp & _ & Htc).
  destruct p as [n Ty i x cs]. cbn [erase p_type p_comps fp_type] in *.
  exact (class_of_spelling t Ty _ tc Hsp Htc).
Qed.

(* the implementation's test, on the class *)
Lemma model_ok_compatible jt tc : model_ok jt tc = true -> json_compatible jt (tc_class tc) = true.
Proof.
  unfold model_ok, json_compatible.
  change (str "string") with jsonStringType. change (str "boolean") with jsonBooleanType.
  change (str "integer") with jsonIntegerType. change (str "number") with jsonNumberType.
  change (str "array") with jsonArrayType. change (str "object") with jsonObjectType.
  destruct (bytes_eqb_spec jt jsonBooleanType) as [->|_].
  { destruct tc as [et ? ? ?| | |]; cbn; try discriminate. destruct (et_json et); cbn; congruence. }
  destruct (bytes_eqb_spec jt jsonIntegerType) as [->|_].
  { destruct tc as [et ? ? ?| | |]; cbn; try discriminate. destruct (et_json et); cbn; congruence. }
  destruct (bytes_eqb_spec jt jsonNumberType) as [->|_].
  { destruct tc as [et ? ? ?| | |]; cbn; try discriminate. destruct (et_json et); cbn; congruence. }
  destruct (bytes_eqb_spec jt jsonStringType) as [->|_].
  { destruct tc as [et ? ? ?| | |]; cbn; try discriminate. destruct (et_json et); cbn; congruence. }
  destruct (bytes_eqb_spec jt jsonArrayType) as [->|_].
  { destruct tc; cbn; congruence. }
  destruct (bytes_eqb_spec jt jsonObjectType) as [->|_].
  { destruct tc; cbn; congruence. }
  discriminate.
Qed.

Lemma last_indep {A} (l : list A) : forall a b, l <> [] -> last l a = last l b.
Proof.
  induction l as [|x l IH]; intros a b H; [congruence|]. cbn [last].
  destruct l as [|y r]; [reflexivity|]. apply IH. discriminate.
Qed.

(* the declared JSON type of Spec.v is the one the implementation tests *)
Lemma fold_last_non_string l x :
  filter (fun t => negb (bytes_eqb t (str "string"))) l = [x] ->
  fold_left (fun acc t => if bytes_eqb t jsonStringType then acc else t) l [] = x.
Proof.
  change (str "string") with jsonStringType.
  assert (G : forall l acc,
             fold_left (fun acc t => if bytes_eqb t jsonStringType then acc else t) l acc =
             last (filter (fun t => negb (bytes_eqb t jsonStringType)) l) acc).
  { induction l0 as [|t l0 IH]; intros acc; [reflexivity|]. cbn [fold_left filter].
    destruct (bytes_eqb t jsonStringType); cbn [negb]; [apply IH|].
    rewrite IH. cbn [last]. destruct (filter _ l0) eqn:F; [reflexivity|]. apply last_indep. discriminate. }
  intros H. rewrite G, H. reflexivity.
Qed.

Lemma declared_is_tested s jt : declared_json_type s = Some jt -> inputTypeString s = jt.
Proof.
  unfold declared_json_type, inputTypeString. destruct (s_oneof s) as [l|]; [|congruence].
  destruct (filter _ l) as [|x [|y r]] eqn:F; try discriminate. intros H. injection H as <-.
  apply fold_last_non_string. exact F.
Qed.


(* a schema that got past the JSON type check against a component is not at odds with a type text
   of that component's class *)
Lemma valid_not_json_at_odds s tc Ty u :
  inputTypeValidForTypeComponent s tc = Ok u -> eth_class_of Ty = tc_class tc -> json_at_odds s Ty = false.
Proof.
  intros H Ec. rewrite inputTypeValid_unfold in H.
  destruct (model_ok (inputTypeString s) tc) eqn:M.
  2:{ destruct (tc_string tc); cbn in H; discriminate. }
  unfold json_at_odds.
  destruct (declared_json_type s) as [jt|] eqn:D; [|reflexivity].
  rewrite (declared_is_tested _ _ D) in M. apply model_ok_compatible in M.
  rewrite Ec, M. reflexivity.
Qed.

(* ---------- the element descriptions of an array type ---------- *)
Lemma eth_class_array Ty : eth_class_of Ty <> KArray -> ends_with_rbracket Ty = false.
Proof. unfold eth_class_of. destruct (ends_with_rbracket Ty); congruence. Qed.

Lemma drop_through_digits : forall ds r, Forall (fun b => is_digit b = true) ds ->
  drop_through_lbracket (rev ds ++ x5b :: r) = r.
Proof.
  intros ds r H. apply Forall_rev in H. induction (rev ds) as [|b l IH]; cbn.
  - reflexivity.
  - inversion H as [|? ? Hb Hl]; subst.
    replace (byte_eqb b x5b) with false; [apply IH; exact Hl|].
    symmetry. destruct (byte_eqb_spec b x5b) as [->|]; [vm_compute in Hb; discriminate|reflexivity].
Qed.

Lemma strip_dim_fixed s' k : strip_dim (s' ++ T "[" ++ dec k ++ T "]") = s'.
Proof.
  unfold strip_dim. change (T "[") with [x5b]. change (T "]") with [x5d].
  rewrite !rev_app_distr. cbn [rev app]. rewrite <- app_assoc. cbn [app].
  rewrite drop_through_digits by apply dec_digits. apply rev_involutive.
Qed.

Lemma strip_dim_dyn s' : strip_dim (s' ++ T "[]") = s'.
Proof.
  unfold strip_dim. change (T "[]") with [x5b; x5d].
  rewrite !rev_app_distr. cbn [rev app drop_through_lbracket].
  replace (byte_eqb x5b x5b) with true by reflexivity. apply rev_involutive.
Qed.

Lemma ends_rb_fixed s' k : ends_with_rbracket (s' ++ T "[" ++ dec k ++ T "]") = true.
Proof. change (T "]") with [x5d]. rewrite !app_assoc. apply ends_rb_snoc. Qed.
Lemma ends_rb_dyn s' : ends_with_rbracket (s' ++ T "[]") = true.
Proof. change (T "[]") with ([x5b] ++ [x5d]). rewrite !app_assoc. apply ends_rb_snoc. Qed.

(* a component that is not an array: its type text has no dimension left *)
Lemma not_array_class t tc :
  tc_of t = Some tc ->
  match t with TFixedArr _ _ | TDynArr _ => True | _ => tc_class tc <> KArray end.
Proof.
  intros Htc. destruct t; try exact I;
    try (leaf_tc_in Htc; cbn [tc_class et_json class_of_json]; discriminate).
  rewrite tc_of_tuple in Htc. destruct (tc_of_list l); [|discriminate]. injection Htc as <-. discriminate.
Qed.

Lemma elem_at_odds_unfold it t :
  elem_at_odds it t = json_at_odds it t || elements_at_odds t (s_items it).
Proof. destruct it; reflexivity. Qed.

Lemma itemsValid_leaf tc items : tc_class tc <> KArray -> itemsValid items tc = Ok tt.
Proof. destruct tc; cbn; congruence. Qed.

(* a chain of element descriptions that got past the loop over the dimensions is not at odds *)
Lemma itemsValid_not_at_odds : forall t Ty comps tc items,
  spelling t Ty comps -> tc_of t = Some tc -> itemsValid items tc = Ok tt ->
  elements_at_odds Ty items = false.
Proof.
  induction t; intros Ty comps tc items Hsp Htc H;
    try (pose proof (class_of_spelling _ _ _ _ Hsp Htc) as Ec; pose proof (not_array_class _ _ Htc) as Na;
         cbn beta iota in Na; unfold elements_at_odds; rewrite eth_class_array by congruence; reflexivity).
  - (* T[k] *)
    cbn [spelling] in Hsp. destruct Hsp as (s' & Hs' & ->). cbn [tc_of] in Htc.
    destruct (tc_of t) as [c|] eqn:Ec; [|discriminate]. injection Htc as <-.
    cbn [itemsValid] in H. destruct items as [it|]; [|discriminate].
    destruct (inputTypeValidForTypeComponent it c) as [u| |] eqn:V; cbn [bind] in H; try discriminate.
    unfold elements_at_odds. rewrite ends_rb_fixed, strip_dim_fixed, elem_at_odds_unfold.
    rewrite (valid_not_json_at_odds _ _ _ _ V (class_of_spelling _ _ _ _ Hs' Ec)).
    cbn [orb]. eapply IHt; eauto.
  - (* T[] *)
    cbn [spelling] in Hsp. destruct Hsp as (s' & Hs' & ->). cbn [tc_of] in Htc.
    destruct (tc_of t) as [c|] eqn:Ec; [|discriminate]. injection Htc as <-.
    cbn [itemsValid] in H. destruct items as [it|]; [|discriminate].
    destruct (inputTypeValidForTypeComponent it c) as [u| |] eqn:V; cbn [bind] in H; try discriminate.
    unfold elements_at_odds. rewrite ends_rb_dyn, strip_dim_dyn, elem_at_odds_unfold.
    rewrite (valid_not_json_at_odds _ _ _ _ V (class_of_spelling _ _ _ _ Hs' Ec)).
    cbn [orb]. eapply IHt; eauto.
Qed.

(* a schema whose processing got past the JSON type checks is not at odds with its details type *)
Lemma finish_not_at_odds t o d pr it q r :
  finish (Schema t o (Some d) pr it) q = Ok r -> fp_type q = d_type d ->
  type_at_odds (Schema t o (Some d) pr it) = false.
Proof.
  unfold finish. intros H Ety.
  destruct (parseABIParameterComponents (erase q)) as [tc| |] eqn:P; cbn [bind] in H; try discriminate.
  destruct (inputTypeValidForTypeComponent (Schema t o (Some d) pr it) tc) as [u| |] eqn:V; cbn [bind] in H; try discriminate.
  cbn [s_items] in H.
  destruct (itemsValid it tc) as [[]| |] eqn:IV; cbn [bind] in H; try discriminate.
  unfold type_at_odds. cbn [s_details s_items].
  rewrite (valid_not_json_at_odds _ _ (d_type d) _ V) by (rewrite <- Ety; apply class_of_parsed; exact P).
  cbn [orb].
  destruct (validate_sound (erase q) tc P) as (ty & _ & _ & Hsp & _ & Htc).
  destruct q as [n Ty i x cs]. cbn [erase p_type p_comps fp_type] in *. subst Ty.
  exact (itemsValid_not_at_odds ty _ _ tc it Hsp Htc IV).
Qed.

(* ---------- the JSON type test, from the class ---------- *)
Lemma compatible_model_ok jt tc : json_compatible jt (tc_class tc) = true -> model_ok jt tc = true.
Proof.
  unfold model_ok, json_compatible.
  change (str "string") with jsonStringType. change (str "boolean") with jsonBooleanType.
  change (str "integer") with jsonIntegerType. change (str "number") with jsonNumberType.
  change (str "array") with jsonArrayType. change (str "object") with jsonObjectType.
  destruct (bytes_eqb_spec jt jsonStringType) as [->|_].
  { replace (bytes_eqb jsonStringType jsonBooleanType) with false by reflexivity.
    replace (bytes_eqb jsonStringType jsonIntegerType) with false by reflexivity.
    replace (bytes_eqb jsonStringType jsonNumberType) with false by reflexivity.
    destruct tc as [et ? ? ?| | |]; cbn; try discriminate. reflexivity. }
  destruct (bytes_eqb_spec jt jsonBooleanType) as [->|_].
  { destruct tc as [et ? ? ?| | |]; cbn; try discriminate. destruct (et_json et); cbn; congruence. }
  destruct (bytes_eqb_spec jt jsonIntegerType) as [->|_].
  { destruct tc as [et ? ? ?| | |]; cbn; try discriminate. destruct (et_json et); cbn; congruence. }
  destruct (bytes_eqb_spec jt jsonNumberType) as [->|_].
  { destruct tc as [et ? ? ?| | |]; cbn; try discriminate. destruct (et_json et); cbn; congruence. }
  destruct (bytes_eqb_spec jt jsonArrayType) as [->|_].
  { destruct tc as [et ? ? ?| | |]; cbn; try discriminate; try reflexivity. destruct (et_json et); discriminate. }
  destruct (bytes_eqb_spec jt jsonObjectType) as [->|_].
  { destruct tc as [et ? ? ?| | |]; cbn; try discriminate; try reflexivity. destruct (et_json et); discriminate. }
  discriminate.
Qed.


(* ---------- the converse: declared and not at odds => past the checks ---------- *)
Lemma json_ok_valid s tc Ty :
  json_at_odds s Ty = false -> declared_json_type s <> None -> eth_class_of Ty = tc_class tc ->
  inputTypeValidForTypeComponent s tc = Ok tt.
Proof.
  intros Odds Decl Ec. rewrite inputTypeValid_unfold. unfold json_at_odds in Odds.
  destruct (declared_json_type s) as [jt|] eqn:D; [|congruence].
  rewrite (declared_is_tested _ _ D). apply negb_false_iff in Odds. rewrite Ec in Odds.
  rewrite (compatible_model_ok _ _ Odds). reflexivity.
Qed.

Lemma elems_declared_unfold it t :
  elems_declared it t <-> declared_json_type it <> None /\ elements_declared t (s_items it).
Proof. destruct it. reflexivity. Qed.

Lemma elements_accept : forall t Ty comps tc items,
  spelling t Ty comps -> tc_of t = Some tc ->
  elements_at_odds Ty items = false -> elements_declared Ty items -> itemsValid items tc = Ok tt.
Proof.
  induction t; intros Ty comps tc items Hsp Htc Odds Decl;
    try (pose proof (not_array_class _ _ Htc) as Na; cbn beta iota in Na; apply itemsValid_leaf; exact Na).
  - cbn [spelling] in Hsp. destruct Hsp as (s' & Hs' & ->). cbn [tc_of] in Htc.
    destruct (tc_of t) as [c|] eqn:Ec; [|discriminate]. injection Htc as <-.
    unfold elements_at_odds in Odds. unfold elements_declared in Decl.
    rewrite ends_rb_fixed, strip_dim_fixed in Odds. rewrite ends_rb_fixed, strip_dim_fixed in Decl.
    destruct items as [it|]; [|discriminate]. rewrite elem_at_odds_unfold in Odds.
    apply orb_false_iff in Odds as [O1 O2]. apply elems_declared_unfold in Decl. destruct Decl as [D1 D2].
    cbn [itemsValid]. rewrite (json_ok_valid it c s' O1 D1 (class_of_spelling _ _ _ _ Hs' Ec)). cbn [bind].
    eapply IHt; eauto.
  - cbn [spelling] in Hsp. destruct Hsp as (s' & Hs' & ->). cbn [tc_of] in Htc.
    destruct (tc_of t) as [c|] eqn:Ec; [|discriminate]. injection Htc as <-.
    unfold elements_at_odds in Odds. unfold elements_declared in Decl.
    rewrite ends_rb_dyn, strip_dim_dyn in Odds. rewrite ends_rb_dyn, strip_dim_dyn in Decl.
    destruct items as [it|]; [|discriminate]. rewrite elem_at_odds_unfold in Odds.
    apply orb_false_iff in Odds as [O1 O2]. apply elems_declared_unfold in Decl. destruct Decl as [D1 D2].
    cbn [itemsValid]. rewrite (json_ok_valid it c s' O1 D1 (class_of_spelling _ _ _ _ Hs' Ec)). cbn [bind].
    eapply IHt; eauto.
Qed.

Lemma elements_accept_parsed q tc items :
  parseABIParameterComponents (erase q) = Ok tc ->
  elements_at_odds (fp_type q) items = false -> elements_declared (fp_type q) items ->
  itemsValid items tc = Ok tt.
Proof.
  intros P Odds Decl. destruct (validate_sound (erase q) tc P) as (ty & _ & _ & Hsp & _ & Htc).
  destruct q as [n Ty i x cs]. cbn [erase p_type p_comps fp_type] in *.
  exact (elements_accept ty Ty _ tc items Hsp Htc Odds Decl).
Qed.
