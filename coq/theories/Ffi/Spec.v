(* Specification side of C20, written from the property text and the FireFly interface format, not
   from the conversion code: what it means for a parameter schema to be consistent, which type
   spellings are "explicit width", and the canonical signature text of a type of Abi/Types.v.
   Shares only the data types (schema, fparam) with the model. *)
From Coq Require Import String.
From Coq Require Import List NArith ZArith Bool Arith Permutation.
From Coq Require Import Init.Byte.
From FFS Require Import Base.Res Base.Bytes Abi.Types Gen.AbiConsts AbiType.Syntax AbiType.Model Ffi.Model.
Import ListNotations.

Definition str (s : string) : bytes := ascii_bytes s.

(* ---------- JSON type vs Ethereum type ---------- *)

(* JSON type against the Ethereum type named in the details *)
Inductive eth_class := KArray | KTuple | KInteger | KNumber | KBoolean | KOtherElementary.

Definition ends_with_rbracket (t : bytes) : bool :=
  match rev t with b :: _ => byte_eqb b x5d | [] => false end.

Definition eth_class_of (t : bytes) : eth_class :=
  if ends_with_rbracket t then KArray
  else if bytes_eqb t (str "tuple") then KTuple
  else if has_prefix (str "uint") t || has_prefix (str "int") t then KInteger
  else if has_prefix (str "ufixed") t || has_prefix (str "fixed") t then KNumber
  else if bytes_eqb t (str "bool") then KBoolean
  else KOtherElementary.

Definition json_compatible (jt : bytes) (k : eth_class) : bool :=
  if bytes_eqb jt (str "string") then
    match k with KArray | KTuple => false | _ => true end
  else if bytes_eqb jt (str "boolean") then match k with KBoolean => true | _ => false end
  else if bytes_eqb jt (str "integer") then match k with KInteger => true | _ => false end
  else if bytes_eqb jt (str "number") then match k with KNumber => true | _ => false end
  else if bytes_eqb jt (str "array") then match k with KArray => true | _ => false end
  else if bytes_eqb jt (str "object") then match k with KTuple => true | _ => false end
  else false.

(* the JSON type a schema declares: its "type", or the single alternative of "oneOf" that is not
   "string"; schemas with several non-string alternatives are outside this oracle *)
Definition declared_json_type (s : schema) : option bytes :=
  match s_oneof s with
  | None => Some (s_type s)
  | Some l => match filter (fun t => negb (bytes_eqb t (str "string"))) l with
              | [x] => Some x
              | _ => None
              end
  end.

(* the declared JSON type of a schema does not suit a value of the Ethereum type spelled [t] *)
Definition json_at_odds (s : schema) (t : bytes) : bool :=
  match declared_json_type s with
  | Some jt => negb (json_compatible jt (eth_class_of t))
  | None => false
  end.

(* the type text with its last dimension removed: "uint256[3][]" -> "uint256[3]" -> "uint256" *)
Fixpoint drop_through_lbracket (r : bytes) : bytes :=     (* on the reversed text *)
  match r with
  | [] => []
  | b :: r' => if byte_eqb b x5b then r' else drop_through_lbracket r'
  end.
Definition strip_dim (t : bytes) : bytes :=
  match rev t with _ :: r => rev (drop_through_lbracket r) | [] => [] end.

(* The elements of an array type are described by the [items] chain of the schema that carries the
   details: one level per dimension of the Ethereum type.  The level k steps down describes values of
   the type with k dimensions stripped, so its JSON type must suit that type ("array" while dimensions
   remain, then the JSON type of the element type); a level that is missing while dimensions remain
   leaves the elements undescribed.  [elem_at_odds it t]: the chain starting at [it], which stands for
   values of the type spelled [t], has such a fault. *)
Fixpoint elem_at_odds (it : schema) (t : bytes) {struct it} : bool :=
  match it with
  | Schema _ _ _ _ items' =>
      json_at_odds it t
      || (if ends_with_rbracket t then
            match items' with None => true | Some it' => elem_at_odds it' (strip_dim t) end
          else false)
  end.
Definition elements_at_odds (t : bytes) (items : option schema) : bool :=
  if ends_with_rbracket t then
    match items with None => true | Some it => elem_at_odds it (strip_dim t) end
  else false.

(* JSON type at odds with the Ethereum type of the details: at the level that carries the details,
   or anywhere along the element descriptions of an array type *)
Definition type_at_odds (s : schema) : bool :=
  match s_details s with
  | Some d => json_at_odds s (d_type d) || elements_at_odds (d_type d) (s_items s)
  | None => false
  end.

(* ---------- consistent parameter schemas ---------- *)

(* member positions: every member records a position and the positions are exactly 0..n-1, each
   once *)
Definition member_index (m : bytes * option schema) : option Z :=
  match snd m with
  | Some (Schema _ _ (Some d) _ _) => d_index d
  | _ => None
  end.
Definition count_pos (z : Z) (l : list (option Z)) : nat :=
  length (filter (fun o => match o with Some z' => Z.eqb z z' | None => false end) l).
Definition positions_ok (members : list (bytes * option schema)) : bool :=
  let idx := map member_index members in
  forallb (fun o => match o with Some _ => true | None => false end) idx
  && forallb (fun i => (count_pos (Z.of_nat i) idx =? 1)%nat) (seq 0 (length members)).

(* A schema describes a parameter consistently when it carries details; its JSON type is not at
   odds with the Ethereum type of the details, and neither are the JSON types of the element
   descriptions of an array type, of which there is one per dimension ([type_at_odds]); an "array"
   schema describes its elements through [items] at every dimension; and the members of an "object" schema (or of the innermost element
   description of an array schema) are present, consistent themselves, and positioned 0..n-1. *)
Fixpoint consistent (s : schema) : bool :=
  match s with
  | Schema t o det props items =>
      match det with None => false | Some _ => true end
      && negb (type_at_odds (Schema t o det props items))
      && (let members_ok := fun (ms : list (bytes * option schema)) =>
            positions_ok ms
            && (fix all (l : list (bytes * option schema)) : bool :=
                  match l with
                  | [] => true
                  | (_, None) :: _ => false
                  | (_, Some m) :: r => consistent m && all r
                  end) ms in
          if bytes_eqb t (str "object") then members_ok props
          else if bytes_eqb t (str "array") then
            match items with
            | None => false
            | Some it0 =>
                (fix elem (it : schema) : bool :=
                   match it with
                   | Schema t' _ _ props' items' =>
                       if bytes_eqb t' (str "array") then
                         match items' with None => false | Some it' => elem it' end
                       else positions_ok props'
                            && (fix all (l : list (bytes * option schema)) : bool :=
                                  match l with
                                  | [] => true
                                  | (_, None) :: _ => false
                                  | (_, Some m) :: r => consistent m && all r
                                  end) props'
                   end) it0
            end
          else true)
  end.

(* oracle on an input of the FFI -> ABI conversion: a schema that passed the jsonschema compile and
   unmarshalled, yet is inconsistent *)
Definition pin_inconsistent (p : pin) : bool :=
  pi_verdict p &&
  match pi_unm p with
  | Some (Some s) => negb (consistent s)
  | Some None => true
  | None => false
  end.

(* ---------- explicit-width type spellings ---------- *)

(* the text before the array dimensions *)
Fixpoint base_text (t : bytes) : bytes :=
  match t with
  | [] => []
  | b :: r => if byte_eqb b x5b then [] else b :: base_text r
  end.

Definition is_alias (base : bytes) : bool :=
  bytes_eqb base (str "int") || bytes_eqb base (str "uint")
  || bytes_eqb base (str "fixed") || bytes_eqb base (str "ufixed").

(* no parameter, at any depth, spells its type with a width-less alias *)
Fixpoint explicit_widths (p : fparam) : bool :=
  match p with
  | FParam _ t _ _ cs => negb (is_alias (base_text t)) && forallb explicit_widths cs
  end.

(* ---------- vocabulary of the round-trip statement ---------- *)

(* a parameter is valid when the ABI type parser of pkg/abi (the C13 model) accepts it *)
Definition parses (p : fparam) : Prop := exists tc, parseABIParameterComponents (erase p) = Ok tc.

(* member names distinct in every components list *)
Inductive wf_names : fparam -> Prop :=
| WN n t i x cs : NoDup (map fp_name cs) -> Forall wf_names cs -> wf_names (FParam n t i x cs).

(* the entry that comes back: components under a non-tuple type (which the ABI type parser never
   looks at) are dropped, everything else is kept *)
Definition is_tuple_type (t : bytes) : bool := bytes_eqb (take_lower t) (ascii_bytes tuple_type_string).
Fixpoint norm (p : fparam) : fparam :=
  match p with
  | FParam n t i x cs => FParam n t i x (if is_tuple_type t then map norm cs else [])
  end.

(* no components under a non-tuple type, at any depth *)
Inductive clean : fparam -> Prop :=
| CL n t i x cs : (is_tuple_type t = false -> cs = []) -> Forall clean cs -> clean (FParam n t i x cs).

Definition valid_params (l : list fparam) : Prop := Forall parses l /\ Forall wf_names l.
Definition valid_entry (e : entry) : Prop := valid_params (e_inputs e) /\ valid_params (e_outputs e).
Definition named (e : entry) : bool := negb (is_nil_b (e_name e)).

(* what "the schema arrives intact" means for the oracle inputs of the way back: the jsonschema
   compile accepts it and json.Unmarshal yields the struct that was marshalled *)
Definition faithful (pn : pin) (ns : bytes * schema) : Prop :=
  pi_name pn = fst ns /\ pi_verdict pn = true /\ pi_unm pn = Some (Some (snd ns)).

(* ---------- Go map order ---------- *)

(* same class, same value when Ok (error codes may differ: which member is reported first) *)
Definition requiv {A} (a b : res A) : Prop :=
  match a, b with
  | Ok x, Ok y => x = y
  | Err _, Err _ => True
  | Panic, Panic => True
  | _, _ => False
  end.

(* [sperm s s']: s' is s with the entries of every Properties map, at every depth, in another order
   (what a different iteration order of the Go maps amounts to) *)
Definition orel (R : schema -> schema -> Prop) (a b : option schema) : Prop :=
  match a, b with Some x, Some y => R x y | None, None => True | _, _ => False end.

Fixpoint sperm (s s' : schema) {struct s} : Prop :=
  match s, s' with
  | Schema t o d props items, Schema t' o' d' props' items' =>
      t = t' /\ o = o' /\ d = d' /\
      (exists mid, Permutation mid props' /\
         (fix rel (l m : list (bytes * option schema)) {struct l} : Prop :=
            match l, m with
            | [], [] => True
            | (k, v) :: l1, (k', v') :: m1 =>
                k = k' /\ match v, v' with Some x, Some y => sperm x y | None, None => True | _, _ => False end
                /\ rel l1 m1
            | _, _ => False
            end) props mid) /\
      match items, items' with Some x, Some y => sperm x y | None, None => True | _, _ => False end
  end.

(* as [faithful], but json.Unmarshal's struct is ranged over in any order *)
Definition faithful_upto (pn : pin) (ns : bytes * schema) : Prop :=
  pi_name pn = fst ns /\ pi_verdict pn = true /\ exists s', pi_unm pn = Some (Some s') /\ sperm (snd ns) s'.
