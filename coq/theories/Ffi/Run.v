(* Evaluator for the correspondence check of C20: runs the model of pkg/ffi2abi on the cases written
   by the Go harness (harness/cmd/c20) and reports where the projected observables differ, and where
   the implementation's own output breaks a property oracle (Spec.v).

   Result codes: 0 agree; 1..9 model differs from the implementation; >= 10 the implementation fails
   a property oracle on that input. *)
From Coq Require Import String.
From Coq Require Import List NArith ZArith Bool Arith.
From Coq Require Import Init.Byte.
From FFS Require Import Base.Res Base.Bytes Base.Lit Gen.AbiConsts AbiType.Syntax AbiType.Model Ffi.Model Ffi.Spec.
Import ListNotations.

(* byte-string literals in case files *)
Definition bx (d : bdsl) : bytes := bexpand d.

(* ---------- equality on observables ---------- *)
Definition opt_eqb {A} (f : A -> A -> bool) (a b : option A) : bool :=
  match a, b with None, None => true | Some x, Some y => f x y | _, _ => false end.
Fixpoint list_eqb {A} (f : A -> A -> bool) (a b : list A) : bool :=
  match a, b with
  | [], [] => true
  | x :: a', y :: b' => f x y && list_eqb f a' b'
  | _, _ => false
  end.

Definition details_eqb (a b : details) : bool :=
  bytes_eqb (d_type a) (d_type b) && bytes_eqb (d_internal a) (d_internal b)
  && Bool.eqb (d_indexed a) (d_indexed b) && opt_eqb Z.eqb (d_index a) (d_index b).

(* Properties are compared as maps: same size and every binding of [a] found in [b] (keys are
   unique on both sides: a Go map on one, [map_set] on the other) *)
Fixpoint schema_eqb (a b : schema) {struct a} : bool :=
  match a, b with
  | Schema t o d p i, Schema t' o' d' p' i' =>
      bytes_eqb t t' && opt_eqb (list_eqb bytes_eqb) o o' && opt_eqb details_eqb d d'
      && (length p =? length p')%nat
      && (fix props (l : list (bytes * option schema)) : bool :=
            match l with
            | [] => true
            | (k, v) :: r =>
                match map_get k p' with
                | None => false
                | Some v' => match v, v' with
                             | None, None => true
                             | Some x, Some y => schema_eqb x y
                             | _, _ => false
                             end
                end && props r
            end) p
      && match i, i' with
         | None, None => true
         | Some x, Some y => schema_eqb x y
         | _, _ => false
         end
  end.

Fixpoint fparam_eqb (a b : fparam) {struct a} : bool :=
  match a, b with
  | FParam n t i x cs, FParam n' t' i' x' cs' =>
      bytes_eqb n n' && bytes_eqb t t' && bytes_eqb i i' && Bool.eqb x x'
      && (fix go (l l' : list fparam) : bool :=
            match l, l' with
            | [], [] => true
            | p :: r, p' :: r' => fparam_eqb p p' && go r r'
            | _, _ => false
            end) cs cs'
  end.

Definition nschema_eqb (a b : bytes * schema) : bool := bytes_eqb (fst a) (fst b) && schema_eqb (snd a) (snd b).
Definition method_eqb (a b : ffimethod) : bool :=
  bytes_eqb (m_name a) (m_name b) && list_eqb nschema_eqb (m_params a) (m_params b)
  && list_eqb nschema_eqb (m_returns a) (m_returns b).

(* the Methods / Events / Errors slices are in Go map order: compared as maps keyed by name *)
Definition methods_same (model impl : list ffimethod) : bool :=
  (length model =? length impl)%nat
  && forallb (fun m => existsb (fun m' => method_eqb m m') model) impl.

(* ---------- cases ---------- *)
Inductive case :=
(* ConvertABIToFFI(abi): class, Methods, Events, Errors (schemas decoded from the JSON text) *)
| CFwd (abi : list entry) (cls : nat) (ms es rs : list ffimethod)
(* ConvertFFI{Method,EventDefinition,ErrorDefinition}ToABI (kind 0,1,2): name, params, returns with
   the oracle values; class, Entry.Signature() of the result, Inputs, Outputs, ABIMethodToSignature *)
| CBack (kind : nat) (name : bytes) (params returns : list pin)
        (cls : nat) (sig : bytes) (ins outs : list fparam) (helper : bytes)
(* an ABI entry: class and value of Entry.Signature(), ABIMethodToSignature(entry) *)
| CSig (e : entry) (sigcls : nat) (sig : bytes) (helper : bytes)
(* a definition whose parameter lists hold null entries ([None] = nil *FFIParam): class only *)
| CBackN (kind : nat) (name : bytes) (params returns : list (option pin)) (cls : nat).

Definition check_case (c : case) : N :=
  match c with
  | CFwd abi cls ms es rs =>
      if (cls =? 2)%nat then 12 else
      match ConvertABIToFFI abi, cls with
      | Ok f, 0%nat =>
          if methods_same (f_methods f) ms && methods_same (f_events f) es && methods_same (f_errors f) rs
          then 0 else 2
      | Err _, 1%nat => 0
      | _, _ => 1
      end
  | CBack kind name params returns cls sig ins outs helper =>
      if (cls =? 2)%nat then 12 else
      let r := match kind with
               | 0%nat => ConvertFFIMethodToABI name params returns
               | 1%nat => ConvertFFIEventDefinitionToABI name params
               | _ => ConvertFFIErrorDefinitionToABI name params
               end in
      (* property oracle: an inconsistent schema must be an error *)
      if (cls =? 0)%nat && existsb pin_inconsistent (params ++ returns) then 13 else
      match r, cls with
      | Ok e, 0%nat =>
          if negb (list_eqb fparam_eqb (e_inputs e) ins && list_eqb fparam_eqb (e_outputs e) outs) then 4
          else match SignatureCtx e with
               | Ok s => if negb (bytes_eqb s sig) then 5
                         else if negb (bytes_eqb (ABIMethodToSignature e) helper) then 6 else 0
               | _ => 5
               end
      | Err _, 1%nat => 0
      | _, _ => 3
      end
  | CSig e sigcls sig helper =>
      if (sigcls =? 2)%nat then 12 else
      match SignatureCtx e, sigcls with
      | Ok s, 0%nat =>
          (* property oracle: the helper equals the entry's signature (aliases included) *)
          if negb (bytes_eqb helper sig) then 11
          else if negb (bytes_eqb s sig) then 7
          else if negb (bytes_eqb (ABIMethodToSignature e) helper) then 8 else 0
      | Err _, 1%nat => if bytes_eqb (ABIMethodToSignature e) helper then 0 else 8
      | _, _ => 7
      end
  | CBackN kind name params returns cls =>
      if (cls =? 2)%nat then 12 else
      (* property oracle: a null entry in a parameter list is an error *)
      if (cls =? 0)%nat && existsb (fun o => match o with None => true | Some _ => false end) (params ++ returns) then 14 else
      let r := match kind with
               | 0%nat => ConvertFFIMethodToABI_opt name params returns
               | 1%nat => ConvertFFIEventDefinitionToABI_opt name params
               | _ => ConvertFFIErrorDefinitionToABI_opt name params
               end in
      match r, cls with
      | Ok _, 0%nat => 0
      | Err _, 1%nat => 0
      | _, _ => 3
      end
  end.

Fixpoint mismatches_go (i : N) (l : list case) : list (N * N) :=
  match l with
  | [] => []
  | c :: t => let r := check_case c in
              if (r =? 0)%N then mismatches_go (i + 1) t else (i, r) :: mismatches_go (i + 1) t
  end.
Definition mismatches (l : list case) : list (N * N) := firstn 20 (mismatches_go 0 l).
