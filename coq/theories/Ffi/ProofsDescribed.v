(* Proofs for C20, part 10 (round 5): the described parameter, computed.  For a consistent schema
     describes name s ap  <->  ap = described name s /\ types_valid (described name s) = true
   so that the accepted schemas are characterised by booleans:
     is_ok (convertFFIParam p) = verdict && consistent s && types_valid (described name s). *)
From Coq Require Import String.
From Coq Require Import List NArith ZArith Bool Arith Lia Permutation.
From Coq Require Import Init.Byte.
From FFS Require Import Base.Res Base.Bytes Gen.AbiConsts AbiType.Syntax AbiType.Model
     Ffi.Model Ffi.Spec Ffi.SpecExact Ffi.Proofs Ffi.ProofsClass Ffi.ProofsSpec Ffi.ProofsRound Ffi.ProofsOrder
     Ffi.ProofsExact.
Import ListNotations.

(* ---------- [described], unfolded along [members_of] ---------- *)
Fixpoint tag_members (l : list (bytes * option schema)) : list (option Z * fparam) :=
  match l with
  | [] => []
  | (k, Some m) :: r => (member_index (k, Some m), described k m) :: tag_members r
  | (_, None) :: r => tag_members r
  end.

Fixpoint elem_described (it : schema) : list fparam :=
  match it with
  | Schema t' _ _ props' items' =>
      if bytes_eqb t' (str "array") then
        match items' with None => [] | Some it' => elem_described it' end
      else in_order (tag_members props')
  end.

Lemma described_unfold0 name t o det props items :
  described name (Schema t o det props items) =
  param_of det name
    (if bytes_eqb t (str "object") then in_order (tag_members props)
     else if bytes_eqb t (str "array") then
       match items with None => [] | Some it0 => elem_described it0 end
     else []).
Proof. reflexivity. Qed.

Lemma elem_described_members it : elem_described it = in_order (tag_members (elem_members it)).
Proof.
  induction it as [t o d props items _ HI] using schema_ind'. cbn [elem_described elem_members].
  destruct (bytes_eqb t (str "array")); [|reflexivity].
  destruct items as [it'|]; [exact HI|reflexivity].
Qed.

Lemma described_unfold name s :
  described name s = param_of (s_details s) name (in_order (tag_members (members_of s))).
Proof.
  destruct s as [t o det props items]. rewrite described_unfold0. cbn [s_details members_of]. f_equal.
  destruct (bytes_eqb t (str "object")); [reflexivity|].
  destruct (bytes_eqb t (str "array")); [|reflexivity].
  destruct items as [it0|]; [apply elem_described_members|reflexivity].
Qed.

Lemma tag_in l km sc : In km l -> snd km = Some sc ->
  In (member_index km, described (fst km) sc) (tag_members l).
Proof.
  induction l as [|[k [m|]] r IH]; cbn [tag_members]; intros I Hs; [destruct I| |].
  - destruct I as [<-|I]; [cbn in Hs; injection Hs as <-; left; reflexivity|right; apply IH; assumption].
  - destruct I as [<-|I]; [discriminate|apply IH; assumption].
Qed.

Lemma tag_inv l z c : In (z, c) (tag_members l) ->
  exists km sc, In km l /\ snd km = Some sc /\ z = member_index km /\ c = described (fst km) sc.
Proof.
  induction l as [|[k [m|]] r IH]; cbn [tag_members]; intros I; [destruct I| |].
  - destruct I as [E|I].
    + injection E as <- <-. exists (k, Some m), m. cbn. auto.
    + destruct (IH I) as (km & sc & A & B). exists km, sc. split; [right; exact A|exact B].
  - destruct (IH I) as (km & sc & A & B). exists km, sc. split; [right; exact A|exact B].
Qed.

Lemma tag_length l : all_members l = true -> length (tag_members l) = length l.
Proof.
  induction l as [|[k [m|]] r IH]; cbn [all_members tag_members length]; intros H; try reflexivity; try discriminate.
  apply andb_true_iff in H as [_ H]. f_equal. apply IH. exact H.
Qed.

(* ---------- positions ---------- *)
Lemma position_claimed M i : positions_ok M = true -> (i < length M)%nat ->
  exists km, In km M /\ member_index km = Some (Z.of_nat i).
Proof.
  intros H Hi. pose proof (positions_ok_counts M H i Hi) as C. unfold cnt in C.
  assert (I : In (Some (Z.of_nat i)) (map member_index M)) by (apply count_pos_in; rewrite C; discriminate).
  apply in_map_iff in I as (km & E & I). exists km. auto.
Qed.

Lemma index_in_range M km : positions_ok M = true -> In km M ->
  exists i, (i < length M)%nat /\ member_index km = Some (Z.of_nat i).
Proof.
  intros H I. apply positions_ok_permutation in H.
  pose proof (Permutation_in _ H (in_map member_index _ _ I)) as J. unfold positions in J.
  apply in_map_iff in J as (i & E & J). apply in_seq in J. exists i. split; [lia|congruence].
Qed.

Lemma NoDup_map_inj {A B} (f : A -> B) l x y :
  NoDup (map f l) -> In x l -> In y l -> f x = f y -> x = y.
Proof.
  induction l as [|a l IH]; cbn [map]; intros ND Ix Iy E; [destruct Ix|].
  inversion ND as [|? ? N ND']; subst.
  destruct Ix as [->|Ix], Iy as [->|Iy]; try reflexivity.
  - exfalso. apply N. rewrite E. apply in_map. exact Iy.
  - exfalso. apply N. rewrite <- E. apply in_map. exact Ix.
  - apply IH; assumption.
Qed.

Lemma member_unique M km km' : positions_ok M = true -> In km M -> In km' M ->
  member_index km = member_index km' -> km = km'.
Proof.
  intros H. apply positions_ok_permutation in H.
  apply (NoDup_map_inj member_index M km km').
  eapply Permutation_NoDup; [apply Permutation_sym; exact H|apply positions_nodup].
Qed.

(* ---------- [in_order] ---------- *)
Lemma at_position_some l i : In (Some (Z.of_nat i)) (map fst l) ->
  exists zc, In zc l /\ fst zc = Some (Z.of_nat i) /\ at_position l i = Some (snd zc).
Proof.
  intros H. unfold at_position.
  destruct (find (fun zc : option Z * fparam =>
                    match fst zc with Some z => (z =? Z.of_nat i)%Z | None => false end) l) as [zc|] eqn:F.
  - apply find_some in F as [I P]. exists zc. split; [exact I|]. split; [|reflexivity].
    destruct (fst zc) as [z|]; [|discriminate]. apply Z.eqb_eq in P. congruence.
  - exfalso. apply in_map_iff in H as (zc & E & I). pose proof (find_none _ _ F zc I) as N.
    cbv beta in N. rewrite E, Z.eqb_refl in N. discriminate.
Qed.

Lemma flat_singletons {A} (g : nat -> list A) : forall cs a,
  (forall i c, nth_error cs i = Some c -> g (a + i)%nat = [c]) -> flat_map g (seq a (length cs)) = cs.
Proof.
  induction cs as [|c0 cs IH]; intros a H; [reflexivity|]. cbn [length seq flat_map].
  pose proof (H 0%nat c0 eq_refl) as H0. rewrite Nat.add_0_r in H0. rewrite H0. cbn [app]. f_equal.
  apply IH. intros i c Hi. replace (S a + i)%nat with (a + S i)%nat by lia. apply H. exact Hi.
Qed.

Lemma in_order_exact l comps :
  length l = length comps ->
  (forall i c, nth_error comps i = Some c -> at_position l i = Some c) ->
  in_order l = comps.
Proof.
  intros L H. unfold in_order. rewrite L. apply flat_singletons. intros i c Hi. cbn [Nat.add].
  rewrite (H i c Hi). reflexivity.
Qed.

Definition no_param : fparam := FParam [] [] [] false [].

Lemma flat_map_singletons {A B} (g : A -> list B) (h : A -> B) l :
  (forall x, In x l -> g x = [h x]) -> flat_map g l = map h l.
Proof.
  induction l as [|x l IH]; intros H; [reflexivity|]. cbn [flat_map map].
  rewrite (H x (or_introl eq_refl)). cbn [app]. f_equal. apply IH. intros y Hy. apply H. right. exact Hy.
Qed.

Lemma nth_error_seq a n i : (i < n)%nat -> nth_error (seq a n) i = Some (a + i)%nat.
Proof.
  revert a i. induction n as [|n IH]; intros a i H; [lia|]. destruct i as [|i]; cbn [seq nth_error].
  - f_equal. lia.
  - rewrite IH by lia. f_equal. lia.
Qed.

(* every position claimed => as many components as tagged members, the one at i being the claimant *)
Lemma in_order_full l :
  (forall i, (i < length l)%nat -> exists c, at_position l i = Some c) ->
  length (in_order l) = length l /\
  (forall i c, (i < length l)%nat -> at_position l i = Some c -> nth_error (in_order l) i = Some c).
Proof.
  intros H.
  assert (E : in_order l = map (fun i => match at_position l i with Some c => c | None => no_param end)
                               (seq 0 (length l))).
  { unfold in_order. apply flat_map_singletons. intros i Hi. apply in_seq in Hi.
    destruct (H i ltac:(lia)) as [c ->]. reflexivity. }
  rewrite E. split; [rewrite map_length, seq_length; reflexivity|].
  intros i c Hi Hc. rewrite nth_error_map, (nth_error_seq 0 _ i Hi). cbn. rewrite Hc. reflexivity.
Qed.

(* ---------- the members of a consistent schema ---------- *)
Lemma consistent_parts s :
  consistent s = true ->
  (exists d, s_details s = Some d) /\ positions_ok (members_of s) = true /\ all_members (members_of s) = true.
Proof.
  intros C. destruct s as [t o d props items].
  destruct (consistent_members _ _ _ _ _ C) as [MO _]. unfold members_ok in MO. apply andb_true_iff in MO.
  split; [|exact MO]. rewrite consistent_unfold in C. apply andb_true_iff in C as [C _].
  apply andb_true_iff in C as [C _]. cbn [s_details]. destruct d as [d|]; [exists d; reflexivity|discriminate].
Qed.

Lemma member_some M km : all_members M = true -> In km M ->
  exists sc, snd km = Some sc /\ consistent sc = true.
Proof. intros A I. apply all_members_forall in A. rewrite Forall_forall in A. exact (A km I). Qed.

(* position i of a consistent schema is claimed by a tagged member *)
Lemma tagged_position M i : positions_ok M = true -> all_members M = true -> (i < length M)%nat ->
  exists km sc, In km M /\ snd km = Some sc /\ member_index km = Some (Z.of_nat i) /\
                at_position (tag_members M) i = Some (described (fst km) sc).
Proof.
  intros P A Hi. destruct (position_claimed M i P Hi) as (km0 & I0 & E0).
  destruct (member_some M km0 A I0) as (sc0 & S0 & _).
  assert (J : In (Some (Z.of_nat i)) (map fst (tag_members M))).
  { apply in_map_iff. exists (member_index km0, described (fst km0) sc0). split; [exact E0|].
    apply tag_in; assumption. }
  destruct (at_position_some _ _ J) as ([z c] & Iz & Ez & At). cbn [fst snd] in Ez, At. subst z.
  destruct (tag_inv _ _ _ Iz) as (km & sc & I & S & E & Ec). exists km, sc. subst c. auto.
Qed.

(* ---------- describes => it is the computed parameter, and its types are valid ---------- *)
Theorem describes_described : forall s name ap,
  consistent s = true -> describes name s ap -> ap = described name s.
Proof.
  induction s as [s IH] using members_ind. intros name ap C D.
  destruct (consistent_parts s C) as (_ & P & A).
  inversion D as [? t o d props items comps L F _]; subst.
  rewrite described_unfold. cbn [s_details param_of]. f_equal. symmetry.
  set (M := members_of (Schema t o (Some d) props items)) in *.
  apply in_order_exact; [rewrite (tag_length M A); symmetry; exact L|].
  intros i c Hc. assert (Hi : (i < length M)%nat) by (rewrite <- L; apply nth_error_Some; congruence).
  destruct (tagged_position M i P A Hi) as (km & sc & I & S & E & At). rewrite At. f_equal.
  rewrite Forall_forall in F, IH. destruct (F km I) as (sc' & z & c' & S' & E' & _ & N & Dk).
  rewrite S in S'. injection S' as <-. rewrite E in E'. injection E' as <-.
  rewrite Nat2Z.id, Hc in N. injection N as <-.
  specialize (IH km I). rewrite S in IH. cbn [on_opt] in IH. symmetry. apply IH; [|exact Dk].
  destruct (member_some M km A I) as (sc'' & S'' & Cs). rewrite S in S''. injection S'' as <-. exact Cs.
Qed.

Theorem describes_types_valid : forall s name ap,
  consistent s = true -> describes name s ap -> types_valid ap = true.
Proof.
  induction s as [s IH] using members_ind. intros name ap C D.
  destruct (consistent_parts s C) as (_ & P & A).
  inversion D as [? t o d props items comps L F [tc Ptc]]; subst.
  set (M := members_of (Schema t o (Some d) props items)) in *.
  cbn [types_valid]. rewrite Ptc. cbn [is_ok andb].
  apply forallb_forall. intros c Hc. apply In_nth_error in Hc as [i Hc].
  assert (Hi : (i < length M)%nat) by (rewrite <- L; apply nth_error_Some; congruence).
  destruct (position_claimed M i P Hi) as (km & I & E).
  rewrite Forall_forall in F, IH. destruct (F km I) as (sc & z & c' & S & E' & _ & N & Dk).
  rewrite E in E'. injection E' as <-. rewrite Nat2Z.id, Hc in N. injection N as <-.
  specialize (IH km I). rewrite S in IH. cbn [on_opt] in IH. apply (IH (fst km)); [|exact Dk].
  destruct (member_some M km A I) as (sc'' & S'' & Cs). rewrite S in S''. injection S'' as <-. exact Cs.
Qed.

(* ---------- the computed parameter with valid types is described ---------- *)
Theorem described_describes : forall s name,
  consistent s = true -> types_valid (described name s) = true -> describes name s (described name s).
Proof.
  induction s as [s IH] using members_ind. intros name C TV.
  destruct (consistent_parts s C) as ((d & Ed) & P & A).
  destruct s as [t o d' props items]. cbn [s_details] in Ed. subst d'.
  rewrite described_unfold in *. cbn [s_details param_of] in *.
  set (M := members_of (Schema t o (Some d) props items)) in *.
  set (comps := in_order (tag_members M)) in *.
  cbn [types_valid] in TV. apply andb_true_iff in TV as [TVp TVc].
  assert (Cov : forall i, (i < length (tag_members M))%nat -> exists c, at_position (tag_members M) i = Some c).
  { intros i Hi. rewrite (tag_length M A) in Hi.
    destruct (tagged_position M i P A Hi) as (km & sc & _ & _ & _ & At). eauto. }
  destruct (in_order_full (tag_members M) Cov) as [Lc Nc]. fold comps in Lc, Nc.
  rewrite (tag_length M A) in Lc, Nc.
  apply Describes.
  - exact Lc.
  - apply Forall_forall. intros km I.
    destruct (member_some M km A I) as (sc & S & Cs).
    destruct (index_in_range M km P I) as (i & Hi & E).
    exists sc, (Z.of_nat i), (described (fst km) sc). rewrite Nat2Z.id.
    assert (N : nth_error comps i = Some (described (fst km) sc)).
    { destruct (tagged_position M i P A Hi) as (km' & sc' & I' & S' & E' & At).
      assert (km' = km) by (apply (member_unique M); auto; congruence). subst km'.
      rewrite S in S'. injection S' as <-. apply Nc; assumption. }
    repeat split; auto; [lia|].
    rewrite Forall_forall in IH. specialize (IH km I). rewrite S in IH. cbn [on_opt] in IH.
    apply IH; [exact Cs|]. rewrite forallb_forall in TVc. apply TVc. eapply nth_error_In; eauto.
  - destruct (parseABIParameterComponents (erase (FParam name (d_type d) (d_internal d) (d_indexed d) comps)))
      as [tc| |] eqn:Ptc; try discriminate. exists tc. exact Ptc.
Qed.

Theorem describes_iff_described s name ap :
  consistent s = true ->
  (describes name s ap <-> ap = described name s /\ types_valid (described name s) = true).
Proof.
  intros C. split.
  - intros D. pose proof (describes_described s name ap C D) as E. split; [exact E|].
    rewrite <- E. eapply describes_types_valid; eauto.
  - intros [-> TV]. apply described_describes; assumption.
Qed.

(* ---------- the accepted schemas, decided ---------- *)
Theorem accepted_is_described p ap :
  convertFFIParam p = Ok ap ->
  exists s, pi_unm p = Some (Some s) /\ ap = described (pi_name p) s /\ types_valid ap = true.
Proof.
  intros H. destruct (accepted_described p ap H) as (_ & s & U & C & D). exists s. split; [exact U|].
  split; [apply describes_described; assumption|eapply describes_types_valid; eauto].
Qed.

Theorem accepted_decided p s :
  pi_unm p = Some (Some s) -> json_type_declared s ->
  (forall ap, convertFFIParam p = Ok ap <->
              pi_verdict p = true /\ consistent s = true /\
              types_valid (described (pi_name p) s) = true /\ ap = described (pi_name p) s) /\
  is_ok (convertFFIParam p) = pi_verdict p && consistent s && types_valid (described (pi_name p) s).
Proof.
  intros U JD.
  assert (I : forall ap, convertFFIParam p = Ok ap <->
              pi_verdict p = true /\ consistent s = true /\
              types_valid (described (pi_name p) s) = true /\ ap = described (pi_name p) s).
  { intros ap. rewrite (accepted_iff_consistent p s U JD ap). split.
    - intros (V & C & D). apply (describes_iff_described s _ ap C) in D. tauto.
    - intros (V & C & TV & E). repeat split; auto. apply (describes_iff_described s _ ap C). auto. }
  split; [exact I|].
  destruct (pi_verdict p && consistent s && types_valid (described (pi_name p) s)) eqn:R.
  - apply andb_true_iff in R as [R TV]. apply andb_true_iff in R as [V C].
    rewrite (proj2 (I (described (pi_name p) s))); [reflexivity|auto].
  - destruct (convertFFIParam p) as [ap| |] eqn:E; try reflexivity.
    destruct (proj1 (I ap) eq_refl) as (V & C & TV & _). rewrite V, C, TV in R. discriminate.
Qed.
