(* Specification side of C20, part 3 (wave 6): the JSON type of a schema as a TOTAL function, so that
   the characterisation of the accepted parameter schemas needs no guard on the schema.

   Spec.v's [declared_json_type] is partial: a "oneOf" with no or with several alternatives other than
   "string" declares nothing, [type_at_odds] is silent there, and the converse direction of the
   characterisation (consistent => accepted) carried the guard [json_type_declared].  The FireFly
   interface format does not say which alternative counts in that case; the conversion reads the LAST
   one (none: no JSON type at all, which suits nothing).  [read_json_type] writes that rule down once;
   everything below is the vocabulary of Spec.v / SpecExact.v over it.  Inside the guard the two
   notions coincide ([declared_suit], [types_suit_not_at_odds] in ProofsRead.v). *)
From Coq Require Import String.
From Coq Require Import List NArith ZArith Bool Arith.
From Coq Require Import Init.Byte.
From FFS Require Import Base.Res Base.Bytes AbiType.Syntax AbiType.Model Ffi.Model Ffi.Spec Ffi.SpecExact.
Import ListNotations.

(* the JSON type of a schema: its "type", or -- when it has a "oneOf" -- the last alternative that is
   not "string" (no such alternative: the empty text, which is no JSON type) *)
Definition read_json_type (s : schema) : bytes :=
  match s_oneof s with
  | None => s_type s
  | Some l => last (filter (fun t => negb (bytes_eqb t (str "string"))) l) []
  end.

(* that JSON type does not suit a value of the Ethereum type spelled [t] *)
Definition json_unsuited (s : schema) (t : bytes) : bool :=
  negb (json_compatible (read_json_type s) (eth_class_of t)).

(* along the element descriptions of an array type: one level per dimension, as Spec.elem_at_odds *)
Fixpoint elem_unsuited (it : schema) (t : bytes) {struct it} : bool :=
  match it with
  | Schema _ _ _ _ items' =>
      json_unsuited it t
      || (if ends_with_rbracket t then
            match items' with None => true | Some it' => elem_unsuited it' (strip_dim t) end
          else false)
  end.
Definition elements_unsuited (t : bytes) (items : option schema) : bool :=
  if ends_with_rbracket t then
    match items with None => true | Some it => elem_unsuited it (strip_dim t) end
  else false.

Definition type_unsuited (s : schema) : bool :=
  match s_details s with
  | Some d => json_unsuited s (d_type d) || elements_unsuited (d_type d) (s_items s)
  | None => false
  end.

(* at every level that describes a parameter (the schema itself, its members, their members ...) the
   JSON type suits the Ethereum type of the details, and so do the element descriptions *)
Inductive types_suit : schema -> Prop :=
| Suits s :
    type_unsuited s = false ->
    Forall (fun km => forall m, snd km = Some m -> types_suit m) (members_of s) ->
    types_suit s.

(* the same as a computation (members that are nil are [consistent]'s business, not this one's) *)
Fixpoint types_suit_b (s : schema) : bool :=
  match s with
  | Schema t o det props items =>
      negb (type_unsuited (Schema t o det props items))
      && (if bytes_eqb t (str "object") then
            (fix all (l : list (bytes * option schema)) : bool :=
               match l with
               | [] => true
               | (_, None) :: r => all r
               | (_, Some m) :: r => types_suit_b m && all r
               end) props
          else if bytes_eqb t (str "array") then
            match items with
            | None => true
            | Some it0 =>
                (fix elem (it : schema) : bool :=
                   match it with
                   | Schema t' _ _ props' items' =>
                       if bytes_eqb t' (str "array") then
                         match items' with None => true | Some it' => elem it' end
                       else (fix all (l : list (bytes * option schema)) : bool :=
                               match l with
                               | [] => true
                               | (_, None) :: r => all r
                               | (_, Some m) :: r => types_suit_b m && all r
                               end) props'
                   end) it0
            end
          else true)
  end.
