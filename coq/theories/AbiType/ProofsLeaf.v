(* Leaf types of the grammar <-> the elementary type table: what the elementary branch accepts, and
   the type component it builds. *)
From Coq Require Import String.
From Coq Require Import List NArith Bool Arith Lia.
From Coq Require Import Init.Byte.
From FFS Require Import Base.Res Base.Bytes Abi.Types Gen.AbiConsts
  AbiType.Syntax AbiType.Spec AbiType.Model AbiType.Abs AbiType.ProofsDec AbiType.ProofsArr AbiType.ProofsElem.
Import ListNotations.
Local Open Scope N_scope.

Definition is_leaf (t : ty) : bool :=
  match t with TFixedArr _ _ | TDynArr _ | TTuple _ => false | _ => true end.

(* [leaf_in t name sfx]: base name + suffix text (as the parser splits them) spell the leaf type t *)
Definition leaf_in (t : ty) (name sfx : bytes) : Prop :=
  match t with
  | TUInt m => name = T "uint" /\ (sfx = dec m \/ (m = 256 /\ sfx = []))
  | TInt m => name = T "int" /\ (sfx = dec m \/ (m = 256 /\ sfx = []))
  | TAddress => name = T "address" /\ sfx = []
  | TBool => name = T "bool" /\ sfx = []
  | TFixed m n => name = T "fixed" /\ (sfx = mxn m n \/ (m = 128 /\ n = 18 /\ sfx = []))
  | TUFixed m n => name = T "ufixed" /\ (sfx = mxn m n \/ (m = 128 /\ n = 18 /\ sfx = []))
  | TBytesN m => name = T "bytes" /\ sfx = dec m
  | TBytes => name = T "bytes" /\ sfx = []
  | TString => name = T "string" /\ sfx = []
  | TFunction => name = T "function" /\ sfx = []
  | _ => False
  end.

(* the type component the parser builds for a leaf type *)
Definition mk_leaf (nm : string) (f : elem_info -> tcomp) : option tcomp :=
  match lookup_et (T nm) with Some et => Some (f et) | None => None end.
Definition leaf_tc (t : ty) : option tcomp :=
  match t with
  | TUInt m => mk_leaf "uint" (fun et => CElem et (dec m) m 0)
  | TInt m => mk_leaf "int" (fun et => CElem et (dec m) m 0)
  | TAddress => mk_leaf "address" (fun et => CElem et [] (et_defaultM et) 0)
  | TBool => mk_leaf "bool" (fun et => CElem et [] (et_defaultM et) 0)
  | TFixed m n => mk_leaf "fixed" (fun et => CElem et (mxn m n) m n)
  | TUFixed m n => mk_leaf "ufixed" (fun et => CElem et (mxn m n) m n)
  | TBytesN m => mk_leaf "bytes" (fun et => CElem et (dec m) m 0)
  | TBytes => mk_leaf "bytes" (fun et => CElem et [] (et_defaultM et) 0)
  | TString => mk_leaf "string" (fun et => CElem et [] (et_defaultM et) 0)
  | TFunction => mk_leaf "function" (fun et => CElem et [] (et_defaultM et) 0)
  | _ => None
  end.

(* ---------- numerals ---------- *)
Lemma dec_inj m m' : dec m = dec m' -> m = m'.
Proof. intros H. apply (f_equal dec_value) in H. rewrite !dec_value_dec in H. congruence. Qed.

Lemma dec_eq_const m s v : dec_value s = Some v -> s = dec m -> m = v.
Proof. intros Hs E. subst s. rewrite dec_value_dec in Hs. congruence. Qed.

Lemma mxn_inj m n m' n' : mxn m n = mxn m' n' -> m = m' /\ n = n'.
Proof.
  unfold mxn. intros H.
  assert (E : dec m = dec m').
  { rewrite <- (until_stop ch_x (dec m) (dec n)) by (apply dec_no_byte; exact ch_x_not_digit).
    rewrite H. apply until_stop. apply dec_no_byte; exact ch_x_not_digit. }
  split; [apply dec_inj; exact E|]. rewrite E in H. apply app_inv_head in H.
  injection H as H. apply dec_inj; exact H.
Qed.

Lemma mxn_default : T "128x18" = mxn 128 18.
Proof. vm_compute. reflexivity. Qed.

(* ---------- well-formedness ---------- *)
Lemma wf_int_iff m : ((8 <=? m) && (m <=? 256) && (m mod 8 =? 0)) = true <-> 8 <= m /\ m <= 256 /\ m mod 8 = 0.
Proof. rewrite !andb_true_iff, !N.leb_le, N.eqb_eq. tauto. Qed.
Lemma wf_fixed_iff m n :
  ((8 <=? m) && (m <=? 256) && (m mod 8 =? 0) && (1 <=? n) && (n <=? 80)) = true <->
  8 <= m /\ m <= 256 /\ m mod 8 = 0 /\ 1 <= n /\ n <= 80.
Proof. rewrite !andb_true_iff, !N.leb_le, N.eqb_eq. tauto. Qed.
Lemma wf_bytesn_iff m : ((1 <=? m) && (m <=? 32)) = true <-> 1 <= m /\ m <= 32.
Proof. rewrite !andb_true_iff, !N.leb_le. tauto. Qed.

(* ---------- soundness of the elementary branch ---------- *)
Lemma lookup_et_inv name et : lookup_et name = Some et -> In et elementary_types /\ name = et_name_bytes et.
Proof.
  unfold lookup_et. intros H. apply find_some in H. destruct H as [HI HE]. split; [exact HI|].
  destruct (bytes_eqb_spec (et_name_bytes et) name); congruence.
Qed.

Ltac field_facts Om := rewrite ?m_ok_iff, ?n_ok_iff in Om;
  cbn [et_mMin et_mMax et_mMod et_nMin et_nMax] in Om.

Lemma elem_sound name et sfx tc :
  lookup_et name = Some et -> parse_elementary et sfx = Ok tc ->
  exists t, is_leaf t = true /\ wf_ty t = true /\ leaf_in t name sfx /\ leaf_tc t = Some tc.
Proof.
  intros HL HP. destruct (lookup_et_inv _ _ HL) as [HI ->].
  cbn [elementary_types In] in HI.
  destruct HI as [<-|[<-|[<-|[<-|[<-|[<-|[<-|[<-|[<-|[]]]]]]]]]].
  - (* address *)
    apply pe_none in HP; [|reflexivity]. destruct HP as (E & ->).
    exists TAddress. split; [reflexivity|]. split; [reflexivity|]. split.
    + split; [reflexivity|]. unfold eff_suffix in E. destruct sfx; [reflexivity|discriminate].
    + unfold leaf_tc, mk_leaf. match type of HL with lookup_et ?n = _ => change (T "address") with n end.
      rewrite HL. reflexivity.
  - (* bool *)
    apply pe_none in HP; [|reflexivity]. destruct HP as (E & ->).
    exists TBool. split; [reflexivity|]. split; [reflexivity|]. split.
    + split; [reflexivity|]. unfold eff_suffix in E. destruct sfx; [reflexivity|discriminate].
    + unfold leaf_tc, mk_leaf. match type of HL with lookup_et ?n = _ => change (T "bool") with n end.
      rewrite HL. reflexivity.
  - (* bytes *)
    apply pe_mopt in HP; [|reflexivity]. destruct HP as [(E & ->)|(m & E & Hm & Om & ->)].
    + exists TBytes. split; [reflexivity|]. split; [reflexivity|]. split.
      * split; [reflexivity|]. unfold eff_suffix in E. destruct sfx; [reflexivity|discriminate].
      * unfold leaf_tc, mk_leaf. match type of HL with lookup_et ?n = _ => change (T "bytes") with n end.
        rewrite HL. reflexivity.
    + field_facts Om. exists (TBytesN m). split; [reflexivity|]. split; [apply wf_bytesn_iff; lia|]. split.
      * split; [reflexivity|]. unfold eff_suffix in E. destruct sfx as [|c r]; cbn [is_nil et_default_suffix] in E.
        -- exfalso. apply (dec_nonnil m). symmetry. exact E.
        -- exact E.
      * unfold leaf_tc, mk_leaf. match type of HL with lookup_et ?n = _ => change (T "bytes") with n end.
        rewrite HL. reflexivity.
  - (* fixed *)
    apply pe_mxn in HP; [|reflexivity]. destruct HP as (m & n & E & Hm & Om & Hn & On & ->). field_facts Om. field_facts On.
    exists (TFixed m n). split; [reflexivity|]. split; [apply wf_fixed_iff; lia|]. split.
    + split; [reflexivity|]. unfold eff_suffix in E. destruct sfx as [|c r]; cbn [is_nil et_default_suffix] in E.
      * right. change (ascii_bytes "128x18") with (T "128x18") in E. rewrite mxn_default in E.
        apply mxn_inj in E. destruct E as [<- <-]. auto.
      * left. exact E.
    + unfold leaf_tc, mk_leaf. match type of HL with lookup_et ?n = _ => change (T "fixed") with n end.
      rewrite HL. reflexivity.
  - (* function *)
    apply pe_none in HP; [|reflexivity]. destruct HP as (E & ->).
    exists TFunction. split; [reflexivity|]. split; [reflexivity|]. split.
    + split; [reflexivity|]. unfold eff_suffix in E. destruct sfx; [reflexivity|discriminate].
    + unfold leaf_tc, mk_leaf. match type of HL with lookup_et ?n = _ => change (T "function") with n end.
      rewrite HL. reflexivity.
  - (* int *)
    apply pe_mreq in HP; [|reflexivity]. destruct HP as (m & E & Hm & Om & ->). field_facts Om.
    exists (TInt m). split; [reflexivity|]. split; [apply wf_int_iff; lia|]. split.
    + split; [reflexivity|]. unfold eff_suffix in E. destruct sfx as [|c r]; cbn [is_nil et_default_suffix] in E.
      * right. split; [|reflexivity]. apply (dec_eq_const m (ascii_bytes "256") 256); [reflexivity|exact E].
      * left. exact E.
    + unfold leaf_tc, mk_leaf. match type of HL with lookup_et ?n = _ => change (T "int") with n end.
      rewrite HL. reflexivity.
  - (* string *)
    apply pe_none in HP; [|reflexivity]. destruct HP as (E & ->).
    exists TString. split; [reflexivity|]. split; [reflexivity|]. split.
    + split; [reflexivity|]. unfold eff_suffix in E. destruct sfx; [reflexivity|discriminate].
    + unfold leaf_tc, mk_leaf. match type of HL with lookup_et ?n = _ => change (T "string") with n end.
      rewrite HL. reflexivity.
  - (* ufixed *)
    apply pe_mxn in HP; [|reflexivity]. destruct HP as (m & n & E & Hm & Om & Hn & On & ->). field_facts Om. field_facts On.
    exists (TUFixed m n). split; [reflexivity|]. split; [apply wf_fixed_iff; lia|]. split.
    + split; [reflexivity|]. unfold eff_suffix in E. destruct sfx as [|c r]; cbn [is_nil et_default_suffix] in E.
      * right. change (ascii_bytes "128x18") with (T "128x18") in E. rewrite mxn_default in E.
        apply mxn_inj in E. destruct E as [<- <-]. auto.
      * left. exact E.
    + unfold leaf_tc, mk_leaf. match type of HL with lookup_et ?n = _ => change (T "ufixed") with n end.
      rewrite HL. reflexivity.
  - (* uint *)
    apply pe_mreq in HP; [|reflexivity]. destruct HP as (m & E & Hm & Om & ->). field_facts Om.
    exists (TUInt m). split; [reflexivity|]. split; [apply wf_int_iff; lia|]. split.
    + split; [reflexivity|]. unfold eff_suffix in E. destruct sfx as [|c r]; cbn [is_nil et_default_suffix] in E.
      * right. split; [|reflexivity]. apply (dec_eq_const m (ascii_bytes "256") 256); [reflexivity|exact E].
      * left. exact E.
    + unfold leaf_tc, mk_leaf. match type of HL with lookup_et ?n = _ => change (T "uint") with n end.
      rewrite HL. reflexivity.
Qed.

(* ---------- completeness of the elementary branch ---------- *)
Lemma default_256 : ascii_bytes "256" = dec 256.
Proof. vm_compute. reflexivity. Qed.

Ltac m_side := first [ lia | apply m_ok_iff; cbn [et_mMin et_mMax et_mMod]; lia
                     | apply n_ok_iff; cbn [et_nMin et_nMax]; lia ].

Lemma elem_complete t name sfx :
  is_leaf t = true -> wf_ty t = true -> leaf_in t name sfx ->
  exists et tc, lookup_et name = Some et /\ parse_elementary et sfx = Ok tc /\ leaf_tc t = Some tc.
Proof.
  intros HLf HW HI. destruct t; try discriminate; cbn [leaf_in] in HI; destruct HI as [-> HS];
    cbn [wf_ty] in HW.
  - (* uint *) apply wf_int_iff in HW.
    eexists. eexists. split; [reflexivity|]. split.
    + apply pe_mreq; [reflexivity|]. exists m. unfold eff_suffix. cbn [et_default_suffix].
      destruct HS as [->|[-> ->]].
      * rewrite is_nil_dec. repeat split; m_side.
      * cbn [is_nil]. repeat split; try m_side; try exact default_256.
    + reflexivity.
  - (* int *) apply wf_int_iff in HW.
    eexists. eexists. split; [reflexivity|]. split.
    + apply pe_mreq; [reflexivity|]. exists m. unfold eff_suffix. cbn [et_default_suffix].
      destruct HS as [->|[-> ->]].
      * rewrite is_nil_dec. repeat split; m_side.
      * cbn [is_nil]. repeat split; try m_side; try exact default_256.
    + reflexivity.
  - (* address *) subst sfx. eexists. eexists. split; [reflexivity|]. split.
    + apply pe_none; [reflexivity|]. split; reflexivity.
    + reflexivity.
  - (* bool *) subst sfx. eexists. eexists. split; [reflexivity|]. split.
    + apply pe_none; [reflexivity|]. split; reflexivity.
    + reflexivity.
  - (* fixed *) apply wf_fixed_iff in HW.
    eexists. eexists. split; [reflexivity|]. split.
    + apply pe_mxn; [reflexivity|]. exists m, n. unfold eff_suffix. cbn [et_default_suffix].
      destruct HS as [->|(-> & -> & ->)].
      * rewrite is_nil_mxn. repeat split; m_side.
      * cbn [is_nil]. repeat split; try m_side; try exact mxn_default.
    + reflexivity.
  - (* ufixed *) apply wf_fixed_iff in HW.
    eexists. eexists. split; [reflexivity|]. split.
    + apply pe_mxn; [reflexivity|]. exists m, n. unfold eff_suffix. cbn [et_default_suffix].
      destruct HS as [->|(-> & -> & ->)].
      * rewrite is_nil_mxn. repeat split; m_side.
      * cbn [is_nil]. repeat split; try m_side; try exact mxn_default.
    + reflexivity.
  - (* bytes<M> *) apply wf_bytesn_iff in HW. subst sfx.
    eexists. eexists. split; [reflexivity|]. split.
    + apply pe_mopt; [reflexivity|]. right. exists m. unfold eff_suffix. rewrite is_nil_dec.
      repeat split; m_side.
    + reflexivity.
  - (* bytes *) subst sfx. eexists. eexists. split; [reflexivity|]. split.
    + apply pe_mopt; [reflexivity|]. left. split; reflexivity.
    + reflexivity.
  - (* string *) subst sfx. eexists. eexists. split; [reflexivity|]. split.
    + apply pe_none; [reflexivity|]. split; reflexivity.
    + reflexivity.
  - (* function *) subst sfx. eexists. eexists. split; [reflexivity|]. split.
    + apply pe_none; [reflexivity|]. split; reflexivity.
    + reflexivity.
Qed.

(* ---------- what the built component means and renders to ---------- *)
Lemma leaf_tc_props t tc : leaf_tc t = Some tc ->
  ty_of tc = Some t /\ tc_string tc = Ok (canonical t) /\ tuple_free tc = true /\
  array_base tc = tc /\ array_dims tc = Ok [].
Proof.
  destruct t; try discriminate; unfold leaf_tc, mk_leaf;
    match goal with |- context [lookup_et ?n] =>
      let r := eval vm_compute in (lookup_et n) in change (lookup_et n) with r end;
    intros H; injection H as <-; (split; [|split; [|repeat split]]);
    try reflexivity.
  (* bytes<M>: the suffix is not empty *)
  cbn [ty_of elem_ty et_name String.eqb Ascii.eqb Bool.eqb]. rewrite is_nil_dec. reflexivity.
Qed.

(* ---------- shape of leaf spellings ---------- *)
Definition lower_name (s : bytes) : Prop := Forall (fun b => is_lower b = true) s.
Definition suffix_shape (sfx : bytes) : Prop :=
  no_byte ch_lbrack sfx /\ (sfx = [] \/ exists c r, sfx = c :: r /\ is_lower c = false).

Lemma lbrack_not_digit : (b2n ch_lbrack < 48 \/ 57 < b2n ch_lbrack).
Proof. right. vm_compute. reflexivity. Qed.

Lemma dec_shape m : suffix_shape (dec m).
Proof.
  split; [apply dec_no_byte; exact lbrack_not_digit|]. right.
  pose proof (dec_digits m) as D. pose proof (dec_nonnil m) as N.
  destruct (dec m) as [|c r]; [congruence|]. exists c, r. split; [reflexivity|].
  inversion D; subst. apply digit_not_lower. assumption.
Qed.

Lemma mxn_shape m n : suffix_shape (mxn m n).
Proof.
  unfold mxn. split.
  - apply Forall_app. split; [apply dec_no_byte; exact lbrack_not_digit|].
    constructor; [vm_compute; reflexivity|apply dec_no_byte; exact lbrack_not_digit].
  - right. pose proof (dec_digits m) as D. pose proof (dec_nonnil m) as N.
    destruct (dec m) as [|c r]; [congruence|]. exists c, (r ++ ch_x :: dec n). split; [reflexivity|].
    inversion D; subst. apply digit_not_lower. assumption.
Qed.

Lemma nil_shape : suffix_shape [].
Proof. split; [constructor|left; reflexivity]. Qed.

Lemma leaf_in_shape t name sfx : leaf_in t name sfx ->
  lower_name name /\ name <> T "tuple" /\ suffix_shape sfx.
Proof.
  destruct t; cbn [leaf_in]; try contradiction; intros [-> HS];
    (split; [repeat (constructor; [reflexivity|]); constructor|]);
    (split; [intros X; vm_compute in X; discriminate|]).
  all: repeat match goal with
       | H : _ \/ _ |- _ => destruct H as [H|H]
       | H : _ /\ _ |- _ => destruct H as [? H]
       end; subst; first [apply dec_shape | apply mxn_shape | apply nil_shape].
Qed.

(* spellings of leaves, through [leaf_in] *)
Lemma leaf_spelling_iff t s comps : is_leaf t = true ->
  (spelling t s comps <-> exists name sfx, s = name ++ sfx /\ leaf_in t name sfx).
Proof.
  intros HL. destruct t; try discriminate; cbn [spelling canonical leaf_in]; split.
  all: try (intros [->|[-> ->]]; [eexists; eexists; split; [reflexivity|split; [reflexivity|left; reflexivity]]
                                 |eexists; exists []; split; [rewrite app_nil_r; reflexivity|split; [reflexivity|right; auto]]]).
  all: try (intros (name & sfx & -> & -> & [->|[-> ->]]); [left; reflexivity|right; rewrite app_nil_r; auto]).
  all: try (intros ->; eexists; eexists; split; [|split; reflexivity]; rewrite ?app_nil_r; reflexivity).
  all: try (intros (name & sfx & -> & -> & ->); rewrite ?app_nil_r; reflexivity).
  all: try (intros [->|(-> & -> & ->)]; [eexists; eexists; split; [|split; [reflexivity|left; reflexivity]]; reflexivity
                                 |eexists; exists []; split; [rewrite app_nil_r; reflexivity|split; [reflexivity|right; auto]]]).
  all: try (intros (name & sfx & -> & -> & [->|(-> & -> & ->)]); [left; reflexivity|right; rewrite app_nil_r; auto]).
Qed.
