(* The Solidity ABI type grammar as a specification of *spellings*: which text (together with the
   "components" of the ABI JSON parameter object) denotes which type of Abi/Types.v, and what the
   canonical spelling (the one used in signatures) of a type is.  Written from the "Types" section of
   the Solidity ABI specification and the JSON section ("tuple" + components); shares no code with
   the model of pkg/abi.

     uint<M>, int<M>      0 < M <= 256, M % 8 == 0          (wf_ty)      aliases uint, int = ..256
     fixed<M>x<N>, ufixed 8 <= M <= 256, M % 8 == 0, 0 < N <= 80          aliases fixed, ufixed = ..128x18
     bytes<M>             0 < M <= 32
     address bool function bytes string
     <type>[M]  <type>[]  (T1,...,Tn) -- in JSON: "tuple" followed by the array dimensions,
                                         members in "components"
   Numbers are canonical decimal: no sign, no leading zeros. *)
From Coq Require Import String.
From Coq Require Import List NArith Bool Arith.
From Coq Require Import Init.Byte.
From FFS Require Import Base.Bytes Abi.Types AbiType.Syntax.
Import ListNotations.

(* ---------- decimal numerals ---------- *)

(* meaning of a digit string (Horner); None when empty or not all digits *)
Definition digit_of (b : byte) : option N :=
  let n := b2n b in if (48 <=? n)%N && (n <=? 57)%N then Some (n - 48)%N else None.
Fixpoint dec_value_acc (s : bytes) (acc : N) : option N :=
  match s with
  | [] => Some acc
  | c :: r => match digit_of c with Some d => dec_value_acc r (10 * acc + d)%N | None => None end
  end.
Definition dec_value (s : bytes) : option N :=
  match s with [] => None | _ => dec_value_acc s 0 end.
(* canonical: "0" itself, or no leading '0' *)
Definition no_leading_zero (s : bytes) : bool :=
  match s with
  | [c] => true
  | c :: _ => negb (b2n c =? 48)%N
  | [] => false
  end.
(* [is_dec n s]: s is the canonical decimal numeral of n *)
Definition is_dec (n : N) (s : bytes) : Prop := dec_value s = Some n /\ no_leading_zero s = true.

(* the canonical decimal numeral as a function (validated against [is_dec] in ProofsDec.v:
   [is_dec n s <-> s = dec n]) *)
Fixpoint dec_fuel (fuel : nat) (n : N) : bytes :=
  match fuel with
  | O => []
  | S f => if (n <? 10)%N then [n2b (48 + n)]
           else dec_fuel f (n / 10)%N ++ [n2b (48 + n mod 10)]
  end.
Definition dec (n : N) : bytes := dec_fuel (S (N.to_nat (N.log2 n))) n.

(* ---------- canonical spelling (signature form) ---------- *)
Definition T (s : string) : bytes := ascii_bytes s.

Fixpoint sepby (sep : bytes) (l : list bytes) : bytes :=
  match l with
  | [] => []
  | [x] => x
  | x :: r => x ++ sep ++ sepby sep r
  end.

Fixpoint canonical (t : ty) : bytes :=
  match t with
  | TUInt m => T "uint" ++ dec m
  | TInt m => T "int" ++ dec m
  | TAddress => T "address"
  | TBool => T "bool"
  | TFixed m n => T "fixed" ++ dec m ++ T "x" ++ dec n
  | TUFixed m n => T "ufixed" ++ dec m ++ T "x" ++ dec n
  | TBytesN m => T "bytes" ++ dec m
  | TBytes => T "bytes"
  | TString => T "string"
  | TFunction => T "function"
  | TFixedArr t k => canonical t ++ T "[" ++ dec k ++ T "]"
  | TDynArr t => canonical t ++ T "[]"
  | TTuple l => T "(" ++ sepby (T ",") (map canonical l) ++ T ")"
  end.

(* ---------- input spellings (ABI JSON "type" + "components") ---------- *)

(* [spelling t s comps]: the parameter object with type text [s] and components [comps] denotes [t].
   Leaves: the canonical spelling or one of the four aliases (components are not looked at);
   arrays: a spelling of the element type followed by one dimension; tuples: the word "tuple", the
   members spelled by the components in order. *)
Fixpoint spelling (t : ty) (s : bytes) (comps : list param) {struct t} : Prop :=
  match t with
  | TUInt m => s = canonical t \/ (m = 256%N /\ s = T "uint")
  | TInt m => s = canonical t \/ (m = 256%N /\ s = T "int")
  | TFixed m n => s = canonical t \/ (m = 128%N /\ n = 18%N /\ s = T "fixed")
  | TUFixed m n => s = canonical t \/ (m = 128%N /\ n = 18%N /\ s = T "ufixed")
  | TAddress | TBool | TBytesN _ | TBytes | TString | TFunction => s = canonical t
  | TFixedArr t' k => exists s', spelling t' s' comps /\ s = s' ++ T "[" ++ dec k ++ T "]"
  | TDynArr t' => exists s', spelling t' s' comps /\ s = s' ++ T "[]"
  | TTuple l =>
      s = T "tuple" /\
      (fix members (l : list ty) (comps : list param) {struct l} : Prop :=
         match l, comps with
         | [], [] => True
         | t' :: l', Param s' c' :: comps' => spelling t' s' c' /\ members l' comps'
         | _, _ => False
         end) l comps
  end.

(* Implementation limit stated as part of the accepted language: a fixed array dimension fits 32 bits
   (the Solidity grammar itself allows up to 2^256-1; the property lists "huge dimensions" among the
   spellings to be refused). *)
Fixpoint dims_ok (t : ty) : bool :=
  match t with
  | TFixedArr t' k => (k <? 2 ^ 32)%N && dims_ok t'
  | TDynArr t' => dims_ok t'
  | TTuple l => forallb dims_ok l
  | _ => true
  end.

(* the accepted language *)
Definition valid_type (t : ty) : bool := wf_ty t && dims_ok t.
