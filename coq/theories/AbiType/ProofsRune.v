(* Wave 6.  Ranging over the runes of the type text (the Go source) and over its bytes (Model.v) give the
   same base name, for EVERY byte string: a byte < 0x80 decodes to itself with width 1 and is written back as
   itself; a byte >= 0x80 starts a sequence whose rune is >= 0x80 (valid: no overlong forms) or RuneError
   (invalid), never a letter a..z, so the loop breaks exactly where the byte scan stops.  Also: the decoder
   always advances (1..4 bytes, within the string), yields Unicode scalar values only, and the range loop
   consumes exactly the string. *)
From Coq Require Import List NArith ZArith Bool Arith Lia ZifyN ZifyNat ZifyBool.
From Coq Require Import Init.Byte.
From FFS Require Import Base.Res Base.Bytes AbiType.Model AbiType.ModelRune.
Import ListNotations.
Open Scope N_scope.

Ltac Zify.zify_post_hook ::= Z.div_mod_to_equations.

Ltac split_ifs :=
  repeat match goal with
  | |- context [if ?c then _ else _] => let E := fresh "E" in destruct c eqn:E
  | H : context [if ?c then _ else _] |- _ => let E := fresh "E" in destruct c eqn:E
  end.

(* everything the proofs below need to know about one decoding step *)
Lemma decode_rune_spec b0 r :
  let c0 := b2n b0 in
  let rw := decode_rune (b0 :: r) in
  (1 <= snd rw <= 4)%nat /\ (snd rw <= length (b0 :: r))%nat /\
  (c0 < 128 -> rw = (c0, 1%nat)) /\
  (128 <= c0 -> 128 <= fst rw) /\
  fst rw <= 1114111 /\ ~ (55296 <= fst rw <= 57343).
Proof.
  cbv zeta. pose proof (b2n_lt b0) as B0.
  destruct r as [|b1 [|b2 [|b3 r3]]];
    try pose proof (b2n_lt b1) as B1; try pose proof (b2n_lt b2) as B2; try pose proof (b2n_lt b3) as B3;
    unfold decode_rune, is_cont; cbn [length fst snd];
    split_ifs; cbn [fst snd]; unfold rune_error; repeat split; intros; try reflexivity; lia.
Qed.

Lemma is_lower_rune b : ((97 <=? b2n b) && (b2n b <=? 122)) = is_lower b.
Proof. reflexivity. Qed.

Lemma is_lower_ascii b : is_lower b = true -> b2n b < 128.
Proof. unfold is_lower. lia. Qed.

Lemma encode_ascii b : b2n b < 128 -> encode_rune (b2n b) = [b].
Proof.
  intros H. unfold encode_rune. replace (b2n b <? 128) with true by lia. rewrite n2b_b2n. reflexivity.
Qed.

(* the rune scan is the byte scan, with any sufficient fuel *)
Theorem etStr_runes_eq : forall f s, (length s <= f)%nat -> etStr_runes f s = Ok (take_lower s).
Proof.
  induction f as [|f IH]; intros s Hf.
  - destruct s; [reflexivity|cbn [length] in Hf; lia].
  - destruct s as [|b0 r]; [reflexivity|].
    cbn [etStr_runes take_lower].
    destruct (decode_rune_spec b0 r) as (_ & _ & Hlo & Hhi & _). cbv zeta in Hlo, Hhi.
    destruct (is_lower b0) eqn:L.
    + pose proof (is_lower_ascii b0 L) as A. rewrite (Hlo A).
      rewrite is_lower_rune, L. cbn [skipn]. rewrite IH by (cbn [length] in Hf; lia).
      cbn [bind]. rewrite encode_ascii by exact A. reflexivity.
    + destruct (decode_rune (b0 :: r)) as [rn w] eqn:D. cbn [fst] in Hhi.
      destruct (N.ltb_spec (b2n b0) 128) as [A|A].
      * specialize (Hlo A). injection Hlo as -> ->. rewrite is_lower_rune, L. reflexivity.
      * specialize (Hhi A). replace ((97 <=? rn) && (rn <=? 122)) with false by lia. reflexivity.
Qed.

Theorem etStr_is_take_lower s : etStr s = Ok (take_lower s).
Proof. apply etStr_runes_eq. lia. Qed.

Fixpoint total_width (l : list (N * nat)) : nat :=
  match l with [] => O | (_, w) :: r => (w + total_width r)%nat end.

Definition scalar_value (r : N) : bool := (r <=? 1114111) && negb ((55296 <=? r) && (r <=? 57343)).

(* the range loop terminates within the fuel  len(s), consumes exactly the string, every step advances
   1..4 bytes and yields a Unicode scalar value *)
Theorem runes_of_total : forall f s, (length s <= f)%nat ->
  exists l, runes_of f s = Ok l /\ total_width l = length s /\
            Forall (fun rw => (1 <= snd rw <= 4)%nat /\ scalar_value (fst rw) = true) l.
Proof.
  induction f as [|f IH]; intros s Hf.
  - destruct s; [exists []; repeat split; constructor|cbn [length] in Hf; lia].
  - destruct s as [|b0 r]; [exists []; repeat split; constructor|].
    cbn [runes_of].
    destruct (decode_rune_spec b0 r) as (Hw & Hl & _ & _ & Hmax & Hsur). cbv zeta in *.
    destruct (decode_rune (b0 :: r)) as [rn w] eqn:D. cbn [fst snd] in *.
    destruct (IH (skipn w (b0 :: r))) as (l & E & Tw & Fa).
    { rewrite skipn_length. cbn [length] in *. lia. }
    rewrite E. cbn [bind]. exists ((rn, w) :: l). split; [reflexivity|]. split.
    + cbn [total_width]. rewrite Tw, skipn_length. lia.
    + constructor; [|exact Fa]. cbn [fst snd]. split; [exact Hw|]. unfold scalar_value. lia.
Qed.

Theorem runes_total s :
  exists l, runes s = Ok l /\ total_width l = length s /\
            Forall (fun rw => (1 <= snd rw <= 4)%nat /\ scalar_value (fst rw) = true) l.
Proof. apply runes_of_total. lia. Qed.

(* a byte >= 0x80 never starts a letter: the fact the byte scan of Model.v rests on *)
Theorem nonascii_never_lower b0 r :
  128 <= b2n b0 -> let rn := fst (decode_rune (b0 :: r)) in ((97 <=? rn) && (rn <=? 122)) = false.
Proof.
  intros A. destruct (decode_rune_spec b0 r) as (_ & _ & _ & Hhi & _). cbv zeta in *.
  specialize (Hhi A). lia.
Qed.
