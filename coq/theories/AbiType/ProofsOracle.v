(* The grammar recogniser used as oracle by the evaluator (Run.recognise) decides the grammar of
   Spec.v:  recognise leaf_table p = Some t  <->  t is a valid type spelled by p. *)
From Coq Require Import String.
From Coq Require Import List NArith Bool Arith Lia.
From Coq Require Import Init.Byte.
From FFS Require Import Base.Res Base.Bytes Abi.Types Gen.AbiConsts
  AbiType.Syntax AbiType.Spec AbiType.Model AbiType.Abs
  AbiType.ProofsDec AbiType.ProofsArr AbiType.ProofsElem AbiType.ProofsLeaf AbiType.ProofsMain AbiType.Run.
Import ListNotations.

(* ---------- split_at ---------- *)
Lemma split_at_some c s : forall a b, split_at c s = Some (a, b) <-> s = a ++ c :: b /\ no_byte c a.
Proof.
  induction s as [|x s IH]; intros a b; cbn [split_at].
  - split; [discriminate|]. intros [E _]. destruct a; discriminate.
  - destruct (byte_eqb_spec x c) as [->|N].
    + split.
      * intros H; injection H as <- <-. split; [reflexivity|constructor].
      * intros [E Hn]. destruct a as [|y a]; [cbn in E; injection E as <-; reflexivity|].
        cbn in E. injection E as <- _. inversion Hn; subst. rewrite byte_eqb_refl in *. discriminate.
    + destruct (split_at c s) as [[x' y']|] eqn:Es.
      * split.
        -- intros H; injection H as <- <-. destruct (proj1 (IH x' y') eq_refl) as [-> Hn].
           split; [reflexivity|]. constructor; [|exact Hn]. destruct (byte_eqb_spec x c); congruence.
        -- intros [E Hn]. destruct a as [|y a]; [cbn in E; injection E as E1 _; congruence|].
           cbn in E. injection E as <- E. inversion Hn; subst.
           assert (X : Some (x', y') = Some (a, b)) by (apply IH; split; [reflexivity|assumption]).
           injection X as -> ->. reflexivity.
      * split; [discriminate|]. intros [E Hn]. destruct a as [|y a]; [cbn in E; injection E as E1 _; congruence|].
        cbn in E. injection E as <- E. inversion Hn; subst.
        assert (X : None = Some (a, b)) by (apply IH; split; [reflexivity|assumption]). discriminate.
Qed.

Lemma split_at_none c s : split_at c s = None <-> no_byte c s.
Proof.
  induction s as [|x s IH]; cbn [split_at]; [split; [constructor|reflexivity]|].
  destruct (byte_eqb_spec x c) as [->|N].
  - split; [discriminate|]. intros H. inversion H; subst. rewrite byte_eqb_refl in *. discriminate.
  - destruct (split_at c s) as [[x' y']|].
    + split; [discriminate|]. intros H. inversion H; subst.
      assert (X : @None (bytes * bytes) = None) by reflexivity. apply IH in H3. discriminate.
    + split; [|reflexivity]. intros _. constructor; [destruct (byte_eqb_spec x c); congruence|apply IH; reflexivity].
Qed.

(* ---------- dimensions ---------- *)
Lemma dims_complete ds : forall fuel, forallb dim_ok ds = true -> (length (render_dims ds) <= fuel)%nat ->
  dims fuel (render_dims ds) = Some ds.
Proof.
  induction ds as [|d ds IH]; intros fuel Hok Hf; [destruct fuel; reflexivity|].
  rewrite render_dims_cons in *. cbn [forallb] in Hok. apply andb_prop in Hok. destruct Hok as [Hd Hds].
  destruct fuel as [|f]; [cbn [length] in Hf; lia|].
  cbn [dims]. change x5b with ch_lbrack. rewrite byte_eqb_refl. cbn [negb].
  assert (S : split_at x5d (dim_body d ++ ch_rbrack :: render_dims ds) = Some (dim_body d, render_dims ds)).
  { apply split_at_some. split; [reflexivity|apply dim_body_no_rbrack]. }
  rewrite S. rewrite IH; [|exact Hds|cbn [length] in Hf; rewrite app_length in Hf; cbn [length] in Hf; lia].
  destruct d as [k|]; cbn [dim_body]; [|reflexivity].
  pose proof (dec_nonnil k) as Nn. destruct (dec k) as [|c r] eqn:E; [congruence|]. rewrite <- E.
  rewrite dec_value_dec, no_leading_zero_dec. cbn [dim_ok] in Hd. rewrite Hd. reflexivity.
Qed.

Lemma dims_sound fuel : forall s ds, dims fuel s = Some ds -> s = render_dims ds /\ forallb dim_ok ds = true.
Proof.
  induction fuel as [|f IH]; intros s ds H; destruct s as [|c r]; cbn [dims] in H;
    try (injection H as <-; split; reflexivity); try discriminate.
  destruct (byte_eqb_spec c x5b) as [->|N]; cbn [negb] in H; [|discriminate].
  destruct (split_at x5d r) as [[d rest]|] eqn:Es; [|discriminate].
  apply split_at_some in Es. destruct Es as [-> Hn].
  destruct (dims f rest) as [ds'|] eqn:Ed; [|discriminate]. apply IH in Ed. destruct Ed as [-> Hok].
  destruct d as [|d0 d].
  - injection H as <-. split; [rewrite render_dims_cons; reflexivity|exact Hok].
  - destruct (dec_value (d0 :: d)) as [k|] eqn:Ev; [|discriminate].
    destruct (no_leading_zero (d0 :: d)) eqn:Ez; cbn [andb] in H; [|discriminate].
    destruct (k <? 2 ^ 32)%N eqn:Ek; [|discriminate]. injection H as <-.
    assert (Edec : d0 :: d = dec k) by (apply is_dec_iff; split; assumption).
    split; [rewrite render_dims_cons; cbn [dim_body]; rewrite Edec; reflexivity|].
    cbn [forallb dim_ok]. rewrite Ek. exact Hok.
Qed.

Lemma wrap_dims_eq t ds : wrap_dims t ds = wrap_ty t ds.
Proof. reflexivity. Qed.

(* ---------- the leaf table ---------- *)
Lemma lookup_leaf_in tbl k t : lookup_leaf tbl k = Some t -> In (k, t) tbl.
Proof.
  induction tbl as [|[k' t'] tbl IH]; cbn [lookup_leaf]; [discriminate|].
  destruct (bytes_eqb_spec k' k) as [->|N].
  - intros H; injection H as <-. left; reflexivity.
  - intros H. right. apply IH; exact H.
Qed.
Lemma in_lookup_leaf tbl k t : In (k, t) tbl -> exists t', lookup_leaf tbl k = Some t'.
Proof.
  induction tbl as [|[k' t'] tbl IH]; cbn [lookup_leaf In]; [contradiction|].
  destruct (bytes_eqb_spec k' k) as [->|N]; [eauto|].
  intros [E|H]; [congruence|apply IH; exact H].
Qed.

Lemma valid_ms_wf m : In m valid_ms -> ((8 <=? m) && (m <=? 256) && (m mod 8 =? 0))%N = true.
Proof.
  assert (A : forallb (fun m => (8 <=? m) && (m <=? 256) && (m mod 8 =? 0))%N valid_ms = true) by (vm_compute; reflexivity).
  intros H. exact (proj1 (forallb_forall _ _) A m H).
Qed.
Lemma valid_ns_wf n : In n valid_ns -> ((1 <=? n) && (n <=? 80))%N = true.
Proof.
  assert (A : forallb (fun n => (1 <=? n) && (n <=? 80))%N valid_ns = true) by (vm_compute; reflexivity).
  intros H. exact (proj1 (forallb_forall _ _) A n H).
Qed.
Lemma valid_bs_wf m : In m valid_bs -> ((1 <=? m) && (m <=? 32))%N = true.
Proof.
  assert (A : forallb (fun n => (1 <=? n) && (n <=? 32))%N valid_bs = true) by (vm_compute; reflexivity).
  intros H. exact (proj1 (forallb_forall _ _) A m H).
Qed.

(* finite domains closed by computation *)
Lemma small_N_in m b : (m <= N.of_nat b)%N -> In m (map N.of_nat (seq 0 (S b))).
Proof.
  intros H. apply in_map_iff. exists (N.to_nat m). split; [apply N2Nat.id|]. apply in_seq. lia.
Qed.
Lemma valid_ms_complete m : ((8 <=? m) && (m <=? 256) && (m mod 8 =? 0))%N = true -> In m valid_ms.
Proof.
  intros H.
  assert (A : forallb (fun m => implb ((8 <=? m) && (m <=? 256) && (m mod 8 =? 0))%N (existsb (N.eqb m) valid_ms))
                (map N.of_nat (seq 0 257)) = true) by (vm_compute; reflexivity).
  assert (Hm : (m <= N.of_nat 256)%N).
  { apply andb_prop in H. destruct H as [H _]. apply andb_prop in H. destruct H as [_ H]. apply N.leb_le in H. exact H. }
  pose proof (proj1 (forallb_forall _ _) A m (small_N_in m 256 Hm)) as B. cbv beta in B. rewrite H in B. cbn [implb] in B.
  apply existsb_exists in B. destruct B as (x & Hx & E). apply N.eqb_eq in E. subst x. exact Hx.
Qed.
Lemma valid_ns_complete n : ((1 <=? n) && (n <=? 80))%N = true -> In n valid_ns.
Proof.
  intros H.
  assert (A : forallb (fun n => implb ((1 <=? n) && (n <=? 80))%N (existsb (N.eqb n) valid_ns))
                (map N.of_nat (seq 0 81)) = true) by (vm_compute; reflexivity).
  assert (Hm : (n <= N.of_nat 80)%N).
  { apply andb_prop in H. destruct H as [_ H]. apply N.leb_le in H. exact H. }
  pose proof (proj1 (forallb_forall _ _) A n (small_N_in n 80 Hm)) as B. cbv beta in B. rewrite H in B. cbn [implb] in B.
  apply existsb_exists in B. destruct B as (x & Hx & E). apply N.eqb_eq in E. subst x. exact Hx.
Qed.
Lemma valid_bs_complete m : ((1 <=? m) && (m <=? 32))%N = true -> In m valid_bs.
Proof.
  intros H.
  assert (A : forallb (fun n => implb ((1 <=? n) && (n <=? 32))%N (existsb (N.eqb n) valid_bs))
                (map N.of_nat (seq 0 33)) = true) by (vm_compute; reflexivity).
  assert (Hm : (m <= N.of_nat 32)%N).
  { apply andb_prop in H. destruct H as [_ H]. apply N.leb_le in H. exact H. }
  pose proof (proj1 (forallb_forall _ _) A m (small_N_in m 32 Hm)) as B. cbv beta in B. rewrite H in B. cbn [implb] in B.
  apply existsb_exists in B. destruct B as (x & Hx & E). apply N.eqb_eq in E. subst x. exact Hx.
Qed.

Definition can (t : ty) : bytes * ty := (canonical t, t).
Lemma leaf_table_eq : leaf_table =
  [can TAddress; can TBool; can TBytes; can TString; can TFunction;
   (T "uint", TUInt 256); (T "int", TInt 256); (T "fixed", TFixed 128 18); (T "ufixed", TUFixed 128 18)]
  ++ map (fun m => can (TUInt m)) valid_ms
  ++ map (fun m => can (TInt m)) valid_ms
  ++ map (fun m => can (TBytesN m)) valid_bs
  ++ flat_map (fun m => map (fun n => can (TFixed m n)) valid_ns) valid_ms
  ++ flat_map (fun m => map (fun n => can (TUFixed m n)) valid_ns) valid_ms.
Proof. reflexivity. Qed.

Lemma wf_fixed_split m n :
  ((8 <=? m) && (m <=? 256) && (m mod 8 =? 0) && (1 <=? n) && (n <=? 80))%N =
  (((8 <=? m) && (m <=? 256) && (m mod 8 =? 0)) && ((1 <=? n) && (n <=? 80)))%N.
Proof. rewrite !andb_assoc. reflexivity. Qed.

Lemma leaf_table_sound k t : In (k, t) leaf_table ->
  is_leaf t = true /\ wf_ty t = true /\ forall comps, spelling t k comps.
Proof.
  rewrite leaf_table_eq. intros H.
  apply in_app_or in H. destruct H as [H|H].
  { cbn [In] in H. unfold can in H.
    destruct H as [H|[H|[H|[H|[H|[H|[H|[H|[H|[]]]]]]]]]]; injection H as <- <-;
      (split; [reflexivity|split; [reflexivity|intros comps; cbn [spelling]; auto]]). }
  apply in_app_or in H. destruct H as [H|H].
  { apply in_map_iff in H. destruct H as (m & E & Hm). injection E as <- <-.
    split; [reflexivity|]. split; [exact (valid_ms_wf m Hm)|]. intros comps. left. reflexivity. }
  apply in_app_or in H. destruct H as [H|H].
  { apply in_map_iff in H. destruct H as (m & E & Hm). injection E as <- <-.
    split; [reflexivity|]. split; [exact (valid_ms_wf m Hm)|]. intros comps. left. reflexivity. }
  apply in_app_or in H. destruct H as [H|H].
  { apply in_map_iff in H. destruct H as (m & E & Hm). injection E as <- <-.
    split; [reflexivity|]. split; [exact (valid_bs_wf m Hm)|]. intros comps. reflexivity. }
  apply in_app_or in H. destruct H as [H|H].
  { apply in_flat_map in H. destruct H as (m & Hm & H). apply in_map_iff in H. destruct H as (n & E & Hn).
    injection E as <- <-. split; [reflexivity|]. split; [|intros comps; left; reflexivity].
    cbn [wf_ty]. rewrite wf_fixed_split, (valid_ms_wf m Hm), (valid_ns_wf n Hn). reflexivity. }
  { apply in_flat_map in H. destruct H as (m & Hm & H). apply in_map_iff in H. destruct H as (n & E & Hn).
    injection E as <- <-. split; [reflexivity|]. split; [|intros comps; left; reflexivity].
    cbn [wf_ty]. rewrite wf_fixed_split, (valid_ms_wf m Hm), (valid_ns_wf n Hn). reflexivity. }
Qed.

Lemma leaf_table_complete t k comps : is_leaf t = true -> wf_ty t = true -> spelling t k comps ->
  In (k, t) leaf_table.
Proof.
  rewrite leaf_table_eq. intros HL HW HS.
  destruct t; try discriminate; cbn [spelling] in HS; cbn [wf_ty] in HW.
  - (* uint *) destruct HS as [->|[-> ->]].
    + apply in_or_app; right. apply in_or_app; left. apply in_map_iff. exists m. split; [reflexivity|apply valid_ms_complete; exact HW].
    + apply in_or_app; left. cbn [In]. auto 10.
  - (* int *) destruct HS as [->|[-> ->]].
    + apply in_or_app; right. apply in_or_app; right. apply in_or_app; left.
      apply in_map_iff. exists m. split; [reflexivity|apply valid_ms_complete; exact HW].
    + apply in_or_app; left. cbn [In]. auto 10.
  - subst k. apply in_or_app; left. cbn [In]. auto 10.
  - subst k. apply in_or_app; left. cbn [In]. auto 10.
  - (* fixed *) rewrite wf_fixed_split in HW. apply andb_prop in HW. destruct HW as [HWm HWn].
    destruct HS as [->|(-> & -> & ->)].
    + do 4 (apply in_or_app; right). apply in_or_app; left.
      apply in_flat_map. exists m. split; [apply valid_ms_complete; exact HWm|].
      apply in_map_iff. exists n. split; [reflexivity|apply valid_ns_complete; exact HWn].
    + apply in_or_app; left. cbn [In]. auto 10.
  - (* ufixed *) rewrite wf_fixed_split in HW. apply andb_prop in HW. destruct HW as [HWm HWn].
    destruct HS as [->|(-> & -> & ->)].
    + do 5 (apply in_or_app; right).
      apply in_flat_map. exists m. split; [apply valid_ms_complete; exact HWm|].
      apply in_map_iff. exists n. split; [reflexivity|apply valid_ns_complete; exact HWn].
    + apply in_or_app; left. cbn [In]. auto 10.
  - (* bytes<M> *) subst k. do 3 (apply in_or_app; right). apply in_or_app; left.
    apply in_map_iff. exists m. split; [reflexivity|apply valid_bs_complete; exact HW].
  - subst k. apply in_or_app; left. cbn [In]. auto 10.
  - subst k. apply in_or_app; left. cbn [In]. auto 10.
  - subst k. apply in_or_app; left. cbn [In]. auto 10.
Qed.

(* a text spells at most one valid type *)
Lemma spelling_unique t t' s comps :
  valid_type t = true -> valid_type t' = true -> spelling t s comps -> spelling t' s comps -> t = t'.
Proof.
  intros V V' S S'.
  destruct (proj2 (accept_iff_grammar_ty s comps t) (conj V S)) as (tc & H & Ht).
  destruct (proj2 (accept_iff_grammar_ty s comps t') (conj V' S')) as (tc' & H' & Ht').
  congruence.
Qed.

Lemma leaf_valid t : is_leaf t = true -> wf_ty t = true -> valid_type t = true.
Proof. intros HL HW. unfold valid_type. rewrite HW. destruct t; try discriminate; reflexivity. Qed.

Lemma lookup_leaf_iff k t : lookup_leaf leaf_table k = Some t <->
  is_leaf t = true /\ wf_ty t = true /\ spelling t k [].
Proof.
  split.
  - intros H. apply lookup_leaf_in in H. destruct (leaf_table_sound _ _ H) as (A & B & C). auto.
  - intros (A & B & C). pose proof (leaf_table_complete t k [] A B C) as HI.
    destruct (in_lookup_leaf _ _ _ HI) as (t' & L). rewrite L. f_equal.
    apply lookup_leaf_in in L. destruct (leaf_table_sound _ _ L) as (A' & B' & C').
    apply (spelling_unique t' t k []); auto using leaf_valid.
Qed.

(* ---------- the recogniser ---------- *)
Fixpoint recognise_list (tbl : list (bytes * ty)) (l : list param) : option (list ty) :=
  match l with
  | [] => Some []
  | c :: r => match recognise tbl c, recognise_list tbl r with
              | Some t, Some ts => Some (t :: ts)
              | _, _ => None
              end
  end.

Definition rec_base (tbl : list (bytes * ty)) (base : bytes) (comps : list param) : option ty :=
  if bytes_eqb base (T "tuple") then
    match recognise_list tbl comps with Some ts => Some (TTuple ts) | None => None end
  else lookup_leaf tbl base.

Definition rec_split (s : bytes) : bytes * bytes :=
  match split_at x5b s with Some (b, a) => (b, x5b :: a) | None => (s, []) end.

Lemma recognise_unfold tbl s comps :
  recognise tbl (Param s comps) =
  match dims (S (length (snd (rec_split s)))) (snd (rec_split s)) with
  | None => None
  | Some ds => match rec_base tbl (fst (rec_split s)) comps with
               | Some t => Some (wrap_ty t ds)
               | None => None
               end
  end.
Proof.
  cbn [recognise]. unfold rec_split, rec_base.
  destruct (split_at x5b s) as [[b a]|]; cbn [fst snd];
    (match goal with |- match ?D with _ => _ end = _ => destruct D as [ds|]; [|reflexivity] end);
    (match goal with |- context [bytes_eqb ?B (T "tuple")] => destruct (bytes_eqb B (T "tuple")) end; try reflexivity);
    (match goal with |- context [?F comps] =>
       is_fix F;
       assert (E : forall l, F l = recognise_list tbl l)
         by (induction l as [|c r IH]; [reflexivity|cbn [recognise_list]; rewrite <- IH; reflexivity])
     end; rewrite E; reflexivity).
Qed.

Lemma lower_no_lbrack name : lower_name name -> no_byte ch_lbrack name.
Proof.
  intros H. eapply Forall_impl; [|exact H]. intros b Hb. unfold is_lower in Hb. unfold byte_eqb.
  apply andb_prop in Hb. destruct Hb as [H1 _]. apply N.leb_le in H1. apply N.eqb_neq.
  change (b2n ch_lbrack) with 91%N. lia.
Qed.

(* splitting base ++ dimensions *)
Lemma rec_split_app s0 ds : no_byte ch_lbrack s0 -> rec_split (s0 ++ render_dims ds) = (s0, render_dims ds).
Proof.
  intros Hn. unfold rec_split. destruct ds as [|d ds].
  - cbn [render_dims flat_map]. rewrite app_nil_r.
    replace (split_at x5b s0) with (@None (bytes * bytes)) by (symmetry; apply split_at_none; exact Hn). reflexivity.
  - rewrite render_dims_cons.
    replace (split_at x5b (s0 ++ ch_lbrack :: dim_body d ++ ch_rbrack :: render_dims ds))
      with (Some (s0, dim_body d ++ ch_rbrack :: render_dims ds))
      by (symmetry; apply split_at_some; split; [reflexivity|exact Hn]).
    reflexivity.
Qed.

Lemma rec_split_decomp s : s = fst (rec_split s) ++ snd (rec_split s) /\ no_byte ch_lbrack (fst (rec_split s)).
Proof.
  unfold rec_split. destruct (split_at x5b s) as [[b a]|] eqn:E; cbn [fst snd].
  - apply split_at_some in E. exact E.
  - apply split_at_none in E. rewrite app_nil_r. auto.
Qed.

(* ---------- soundness ---------- *)
Definition rec_good (p : param) (t : ty) : Prop :=
  valid_type t = true /\ spelling t (p_type p) (p_comps p).

Lemma recognise_list_sound comps :
  Forall (fun p => forall t, recognise leaf_table p = Some t -> rec_good p t) comps ->
  forall ts, recognise_list leaf_table comps = Some ts -> forallb valid_type ts = true /\ members ts comps.
Proof.
  induction 1 as [|p comps Hp Hc IH]; intros ts H; cbn [recognise_list] in H.
  - injection H as <-. split; reflexivity.
  - destruct (recognise leaf_table p) as [t|] eqn:Et; [|discriminate].
    destruct (recognise_list leaf_table comps) as [ts'|] eqn:El; [|discriminate]. injection H as <-.
    destruct (Hp t eq_refl) as [V S]. destruct (IH ts' eq_refl) as [Vs Ms].
    cbn [forallb]. rewrite V, Vs. split; [reflexivity|]. destruct p as [s' c']. cbn [members]. auto.
Qed.

Theorem recognise_sound p : forall t, recognise leaf_table p = Some t -> rec_good p t.
Proof.
  induction p as [s comps IH] using param_ind'. intros t H. rewrite recognise_unfold in H.
  destruct (rec_split_decomp s) as [Es Hn].
  destruct (dims _ (snd (rec_split s))) as [ds|] eqn:Ed; [|discriminate].
  apply dims_sound in Ed. destruct Ed as [Ea Hok].
  destruct (rec_base leaf_table (fst (rec_split s)) comps) as [t0|] eqn:Eb; [|discriminate].
  injection H as <-. unfold rec_good. cbn [p_type p_comps]. rewrite valid_wrap, Hok, andb_true_r.
  assert (B : valid_type t0 = true /\ spelling t0 (fst (rec_split s)) comps).
  { unfold rec_base in Eb. destruct (bytes_eqb_spec (fst (rec_split s)) (T "tuple")) as [Et|_].
    - destruct (recognise_list leaf_table comps) as [ts|] eqn:El; [|discriminate]. injection Eb as <-.
      destruct (recognise_list_sound comps IH ts El) as [Vs Ms]. rewrite valid_tuple. split; [exact Vs|].
      rewrite Et. apply spelling_tuple. auto.
    - apply lookup_leaf_in in Eb. destruct (leaf_table_sound _ _ Eb) as (A & B & C).
      split; [apply leaf_valid; assumption|apply C]. }
  destruct B as [V0 S0]. split; [exact V0|].
  apply spelling_wrap. exists (fst (rec_split s)). split; [exact S0|]. rewrite <- Ea. exact Es.
Qed.

(* ---------- completeness ---------- *)
Definition rec_complete_at (t : ty) : Prop :=
  forall ds s comps, valid_type (wrap_ty t ds) = true -> spelling (wrap_ty t ds) s comps ->
  recognise leaf_table (Param s comps) = Some (wrap_ty t ds).

Lemma rec_finish s0 ds comps t0 : no_byte ch_lbrack s0 -> forallb dim_ok ds = true ->
  rec_base leaf_table s0 comps = Some t0 ->
  recognise leaf_table (Param (s0 ++ render_dims ds) comps) = Some (wrap_ty t0 ds).
Proof.
  intros Hn Hok Hb. rewrite recognise_unfold, rec_split_app by exact Hn. cbn [fst snd].
  rewrite dims_complete by (try exact Hok; lia). rewrite Hb. reflexivity.
Qed.

Lemma rec_complete_leaf t : is_leaf t = true -> rec_complete_at t.
Proof.
  intros HL ds s comps HV HS. rewrite valid_wrap in HV. apply andb_prop in HV. destruct HV as [HV Hd].
  apply spelling_wrap in HS. destruct HS as (s0 & HS & ->).
  pose proof HS as HS'. apply leaf_spelling_iff in HS'; [|exact HL]. destruct HS' as (name & sfx & -> & HI).
  destruct (leaf_in_shape _ _ _ HI) as (S1 & S2 & [S3 S4]).
  unfold valid_type in HV. apply andb_prop in HV. destruct HV as [HW _].
  apply rec_finish; [apply Forall_app; split; [apply lower_no_lbrack; exact S1|exact S3]|exact Hd|].
  unfold rec_base. destruct (bytes_eqb_spec (name ++ sfx) (T "tuple")) as [E|_].
  - exfalso. apply S2. rewrite <- (take_lower_app name sfx S1 S4), E. reflexivity.
  - apply lookup_leaf_iff. split; [exact HL|]. split; [exact HW|].
    apply leaf_spelling_iff; [exact HL|]. eauto.
Qed.

Lemma recognise_list_complete l :
  Forall rec_complete_at l -> forall comps, forallb valid_type l = true -> members l comps ->
  recognise_list leaf_table comps = Some l.
Proof.
  induction 1 as [|t l Ht Hl IH]; intros comps HV HM.
  - destruct comps; [reflexivity|contradiction].
  - destruct comps as [|[s' c'] comps]; [contradiction|]. cbn [members] in HM. destruct HM as [HS HM].
    cbn [forallb] in HV. apply andb_prop in HV. destruct HV as [HVt HVl].
    cbn [recognise_list]. rewrite (Ht [] s' c' HVt HS), (IH comps HVl HM). reflexivity.
Qed.

Lemma rec_complete_all t : rec_complete_at t.
Proof.
  induction t as [m|m| | |m n|m n|m| | | |t k IH|t IH|l IH] using ty_ind';
    try (apply rec_complete_leaf; reflexivity).
  - intros ds. apply (IH (Some k :: ds)).
  - intros ds. apply (IH (None :: ds)).
  - intros ds s comps HV HS. rewrite valid_wrap in HV. apply andb_prop in HV. destruct HV as [HV Hd].
    apply spelling_wrap in HS. destruct HS as (s0 & HS & ->).
    apply spelling_tuple in HS. destruct HS as [-> HM]. rewrite valid_tuple in HV.
    apply rec_finish; [repeat (constructor; [reflexivity|]); constructor|exact Hd|].
    unfold rec_base. change (bytes_eqb (T "tuple") (T "tuple")) with true.
    rewrite (recognise_list_complete l IH comps HV HM). reflexivity.
Qed.

(* the oracle decides the grammar *)
Theorem recognise_correct p t :
  recognise leaf_table p = Some t <-> valid_type t = true /\ spelling t (p_type p) (p_comps p).
Proof.
  split; [apply recognise_sound|]. destruct p as [s comps]. cbn [p_type p_comps]. intros [V S].
  exact (rec_complete_all t [] s comps V S).
Qed.

(* hence it agrees with the model on every input *)
Theorem recognise_agrees_with_model p t :
  recognise leaf_table p = Some t <-> exists tc, Validate p = Ok tc /\ ty_of tc = Some t.
Proof.
  destruct p as [s comps]. rewrite recognise_correct. cbn [p_type p_comps].
  symmetry. apply accept_iff_grammar_ty.
Qed.
