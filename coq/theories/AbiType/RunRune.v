(* Wave 6.  Evaluator for the rune cases of the C13 harness (harness/cmd/c13/runes.go): the model of Go's
   range-over-string decoding (AbiType/ModelRune.v) against what the Go runtime did on the same bytes, and
   the rune scan of the base name against the byte scan of Model.v (proved equal in ProofsRune.v; evaluated
   here as well so that a change of either definition shows up on concrete strings). *)
From Coq Require Import List NArith Bool Arith.
From Coq Require Import Init.Byte.
From FFS Require Import Base.Res Base.Bytes Base.Lit AbiType.Model AbiType.ModelRune.
Import ListNotations.

(* type text; the (rune, width) pairs of  for i, r := range s ; the base name the Go loop collects *)
Inductive rcase := CRunes (s : bdsl) (rs : list (N * N)) (et : bdsl).

Fixpoint pairs_eqb (a b : list (N * N)) : bool :=
  match a, b with
  | [], [] => true
  | (x, y) :: a', (x', y') :: b' => (x =? x')%N && (y =? y')%N && pairs_eqb a' b'
  | _, _ => false
  end.

(* 0 agree; 7 the decoded rune sequence differs; 8 the collected base name differs (from the rune scan or
   from the byte scan of Model.v) *)
Definition check_rcase (c : rcase) : N :=
  match c with
  | CRunes s rs et =>
    let b := bexpand s in
    match runes b with
    | Ok l =>
      if negb (pairs_eqb (map (fun rw => (fst rw, N.of_nat (snd rw))) l) rs) then 7%N else
      match etStr b with
      | Ok e => if bytes_eqb e (bexpand et) && bytes_eqb (take_lower b) (bexpand et) then 0%N else 8%N
      | _ => 8%N
      end
    | _ => 7%N
    end
  end.

Fixpoint mismatches_rune_go (i : N) (l : list rcase) : list (N * N) :=
  match l with
  | [] => []
  | c :: t => let r := check_rcase c in
              if (r =? 0)%N then mismatches_rune_go (i + 1) t else (i, r) :: mismatches_rune_go (i + 1) t
  end.
Definition mismatches_rune (l : list rcase) : list (N * N) := firstn 20 (mismatches_rune_go 0 l).
