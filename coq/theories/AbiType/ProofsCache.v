(* Parameter objects with a history (ModelCache.v).  Theorems: Validate on an object with ARBITRARY cache
   contents at every depth answers exactly as the pure [Validate] of its current definition, leaves a cache
   that TypeComponentTree then serves, and leaves none when it refuses -- so the pure model used by all other
   C13 theorems is the model of a parameter that was used, copied, edited and validated again.  A variant of
   the parser that takes the members' cached trees (seed C02-4) is refuted by example. *)
From Coq Require Import String.
From Coq Require Import List NArith Bool Arith.
From Coq Require Import Init.Byte.
From FFS Require Import Base.Res Base.Bytes Abi.Types Gen.AbiConsts
  AbiType.Syntax AbiType.Spec AbiType.Model AbiType.Abs AbiType.ModelSig AbiType.ModelCache AbiType.ProofsMain.
Import ListNotations.

Lemma erase_unfold t cs c : erase (PObj t cs c) = Param t (map erase cs).
Proof. reflexivity. Qed.

(* the parser does not look at any cache, at any depth *)
Theorem parseObj_pure o : parseObj false o = Validate (erase o).
Proof.
  induction o as [t cs c IH] using pobj_ind'. rewrite erase_unfold. unfold Validate.
  cbn [parseObj parseABIParameterComponents]. cbv zeta.
  destruct (splitElementaryTypeSuffix t (length (take_lower t))) as [suffix arrays].
  destruct (bytes_eqb (take_lower t) (ascii_bytes tuple_type_string)); [|reflexivity].
  destruct (negb (is_nil suffix)); [reflexivity|].
  match goal with |- bind (bind (?F cs) _) _ = bind (bind (?G (map erase cs)) _) _ =>
    assert (E : F cs = G (map erase cs))
  end.
  { induction IH as [|x l Hx Hl IHl]; [reflexivity|]. cbn [map]. rewrite Hx. unfold Validate.
    destruct (parseABIParameterComponents (erase x)); try reflexivity. cbn [bind]. rewrite IHl. reflexivity. }
  rewrite E. reflexivity.
Qed.

Lemma erase_set_parsed o c : erase (set_parsed o c) = erase o.
Proof. destruct o; reflexivity. Qed.

(* Validate on an object with any history = the pure Validate of its current definition; afterwards the
   cache holds that tree, or nothing if it was refused *)
Theorem validate_obj_pure o :
  let (o', r) := ValidateObj o in
  r = Validate (erase o) /\ erase o' = erase o /\
  o_parsed o' = match Validate (erase o) with Ok tc => Some tc | _ => None end.
Proof.
  unfold ValidateObj. rewrite parseObj_pure. split; [reflexivity|]. split; [apply erase_set_parsed|].
  destruct o; reflexivity.
Qed.

(* ... so TypeComponentTree right after a Validate answers for the current definition, accepted or refused,
   any number of times *)
Theorem tree_after_validate o :
  let o1 := fst (ValidateObj o) in
  snd (TreeObj o1) = Validate (erase o) /\
  snd (TreeObj (fst (TreeObj o1))) = Validate (erase o) /\
  erase (fst (TreeObj o1)) = erase o.
Proof.
  pose proof (validate_obj_pure o) as V. destruct (ValidateObj o) as [o1 r] eqn:E. cbn [fst].
  destruct V as (-> & Ee & Ep).
  assert (K : forall o2, erase o2 = erase o ->
                o_parsed o2 = match Validate (erase o) with Ok tc => Some tc | _ => None end ->
                snd (TreeObj o2) = Validate (erase o) /\ erase (fst (TreeObj o2)) = erase o /\
                o_parsed (fst (TreeObj o2)) = match Validate (erase o) with Ok tc => Some tc | _ => None end).
  { intros o2 E2 P2. unfold TreeObj. rewrite P2.
    destruct (Validate (erase o)) as [tc|e|] eqn:EV.
    - cbn [fst snd]. rewrite P2. auto.
    - pose proof (validate_obj_pure o2) as V2. destruct (ValidateObj o2) as [o3 r3]. cbn [fst snd].
      destruct V2 as (-> & E3 & P3). rewrite E2, EV in *. split; [reflexivity|]. split; [congruence|exact P3].
    - pose proof (validate_obj_pure o2) as V2. destruct (ValidateObj o2) as [o3 r3]. cbn [fst snd].
      destruct V2 as (-> & E3 & P3). rewrite E2, EV in *. split; [reflexivity|]. split; [congruence|exact P3]. }
  destruct (K o1 Ee Ep) as (K1 & K2 & K3). split; [exact K1|].
  destruct (K (fst (TreeObj o1)) K2 K3) as (K4 & _). split; [exact K4|exact K2].
Qed.

(* the list view after every top-level parameter was validated (the documented step after a change) is the
   pure list view of the current definitions *)
Theorem param_array_after_validate (pa : list pobj) :
  ParameterArrayTreeObj (map (fun o => fst (ValidateObj o)) pa) = ParameterArrayTree (map erase pa).
Proof.
  unfold ParameterArrayTreeObj, ParameterArrayTree.
  assert (E : pa_children_obj (map (fun o => fst (ValidateObj o)) pa) = pa_children (map erase pa)).
  { induction pa as [|o r IH]; [reflexivity|]. cbn [map pa_children_obj pa_children].
    destruct (tree_after_validate o) as (K & _). cbv zeta in K. rewrite K, IH. reflexivity. }
  rewrite E. reflexivity.
Qed.

(* without the Validate the answer can be the old one: the documented behaviour ("if you have modified the
   structure since Validate was last called, you should call Validate again") *)
Definition ex_stale : pobj :=
  match Validate (Param (T "uint256") []) with
  | Ok tc => PObj (T "uint128") [] (Some tc)
  | _ => PObj [] [] None
  end.
Theorem tree_without_validate_is_stale :
  snd (TreeObj ex_stale) <> Validate (erase ex_stale) /\
  snd (TreeObj (fst (ValidateObj ex_stale))) = Validate (erase ex_stale).
Proof. split; [vm_compute; discriminate|vm_compute; reflexivity]. Qed.

(* seed C02-4 (members taken from their caches) is not this model: a tuple whose member was used as uint256
   and then edited to uint8 is still parsed as (uint256) *)
Definition ex_member_edited : pobj :=
  match Validate (Param (T "uint256") []) with
  | Ok tc => PObj (T "tuple") [PObj (T "uint8") [] (Some tc)] None
  | _ => PObj [] [] None
  end.
Theorem member_cache_refuted :
  parseObj true ex_member_edited <> Validate (erase ex_member_edited) /\
  parseObj false ex_member_edited = Validate (erase ex_member_edited).
Proof. split; [vm_compute; discriminate|apply parseObj_pure]. Qed.
