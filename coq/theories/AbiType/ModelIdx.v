(* Referee issue I1: in Model.v the Go loops that read  s[pos]  were written as structural functions
   ([until], [skipn]) and  m % mMod  as Coq's total [N.modulo], so only the two slice expressions could
   yield [Panic] there.  Here the same functions are transcribed with EVERY partial operation explicit:
   each index read  s[pos]  is [Base.Bytes.index] (Panic out of range), the integer remainder is
   [mod_go] (Panic on a zero divisor), the slices are [slice_from] as before; loop guards, their order
   and the short-circuit of && / || are those of the Go source.  ProofsIdx.v proves that this
   transcription computes exactly the functions of Model.v -- in particular that no index read, slice
   or remainder of the parser can panic.  No proofs here. *)
From Coq Require Import String.
From Coq Require Import List NArith Bool Arith.
From Coq Require Import Init.Byte.
From FFS Require Import Base.Res Base.Bytes Gen.AbiConsts AbiType.Syntax AbiType.Model.
Import ListNotations.

(* Go  a % b  on unsigned integers: run-time panic "integer divide by zero" *)
Definition mod_go (a b : N) : res N := if (b =? 0)%N then Panic else Ok (a mod b)%N.

(* for ; pos < len(s) && s[pos] != c; pos++ { b.WriteByte(s[pos]) }
   returns the bytes written and the final pos *)
Fixpoint scan_until_idx (fuel : nat) (s : bytes) (c : byte) (pos : nat) (acc : bytes) : res (bytes * nat) :=
  match fuel with
  | O => Err EOutOfFuel
  | S f =>
    if (pos <? length s)%nat then
      do b <- index s pos;                                   (* s[pos] != c *)
      if byte_eqb b c then Ok (acc, pos) else
      do b' <- index s pos;                                  (* WriteByte(s[pos]) *)
      scan_until_idx f s c (S pos) (acc ++ [b'])
    else Ok (acc, pos)
  end.

(* for ; pos < len(s); pos++ { b.WriteByte(s[pos]) } *)
Fixpoint copy_idx (fuel : nat) (s : bytes) (pos : nat) (acc : bytes) : res bytes :=
  match fuel with
  | O => Err EOutOfFuel
  | S f =>
    if (pos <? length s)%nat then do b <- index s pos; copy_idx f s (S pos) (acc ++ [b])
    else Ok acc
  end.

(* splitElementaryTypeSuffix *)
Definition splitElementaryTypeSuffix_idx (s : bytes) (pos : nat) : res (bytes * bytes) :=
  do sp <- scan_until_idx (S (length s)) s ch_lbrack pos [];
  do arrays <- copy_idx (S (length s)) s (snd sp) [];
  Ok (fst sp, arrays).

(* parseMSuffix: the remainder is taken only behind  mMod != 0 &&  *)
Definition parseMSuffix_idx (et : elem_info) (suffix : bytes) : res N :=
  match parse_uint suffix parse_m_bits with
  | None => Err EInvalidSuffix
  | Some v =>
    do canon <- isCanonicalDecimal v suffix;
    if negb canon then Err EInvalidSuffix else
    let m := (v mod 65536)%N in
    if (m <? et_mMin et)%N || (et_mMax et <? m)%N then Err EInvalidSuffix else
    do bad <- (if negb (et_mMod et =? 0)%N
               then do r <- mod_go m (et_mMod et); Ok (negb (r =? 0)%N)
               else Ok false);
    if bad then Err EInvalidSuffix else Ok m
  end.

(* parseMxNSuffix *)
Definition parseMxNSuffix_idx (et : elem_info) (suffix : bytes) : res (N * N) :=
  do sp <- scan_until_idx (S (length suffix)) suffix ch_x 0 [];
  let mStr := fst sp in
  let pos := snd sp in
  if (length suffix <=? pos + 1)%nat then Err EInvalidSuffix else      (* pos >= len(suffix)-1 *)
  do m <- parseMSuffix_idx et mStr;
  do nStr <- slice_from suffix (pos + 1);
  do n <- parseNSuffix et nStr;
  Ok (m, n).

(* parseArrays *)
Fixpoint parseArrays_idx (fuel : nat) (child : tcomp) (suffix : bytes) : res tcomp :=
  match fuel with
  | O => Err EOutOfFuel
  | S f =>
    (* pos := 0; if pos >= len(suffix) || suffix[pos] != '[' *)
    do bad <- (if (length suffix <=? 0)%nat then Ok true
               else do c <- index suffix 0; Ok (negb (byte_eqb c ch_lbrack)));
    if (bad : bool) then Err EInvalidArray else
    (* for pos++; pos < len(suffix) && suffix[pos] != ']'; pos++ *)
    do sp <- scan_until_idx (S (length suffix)) suffix ch_rbrack 1 [];
    let mStr := fst sp in
    let pos := snd sp in
    if (length suffix <=? pos)%nat then Err EInvalidArray else
    let pos := S pos in
    do ac <- (if is_nil mStr then Ok (CDynArr child)
              else do k <- parseArrayM mStr; Ok (CFixedArr child k));
    if (pos <? length suffix)%nat then
      do rest <- slice_from suffix pos; parseArrays_idx f ac rest
    else Ok ac
  end.

Definition parse_elementary_idx (et : elem_info) (suffix0 : bytes) : res tcomp :=
  let suffix := if is_nil suffix0 then ascii_bytes (et_default_suffix et) else suffix0 in
  match et_suffix et with
  | SuffixNone =>
      if negb (is_nil suffix) then Err EUnsupportedSuffix
      else Ok (CElem et suffix (et_defaultM et) 0)
  | SuffixMRequired =>
      if is_nil suffix then Err EMissingSuffix
      else do m <- parseMSuffix_idx et suffix; Ok (CElem et suffix m 0)
  | SuffixMOptional =>
      if negb (is_nil suffix) then do m <- parseMSuffix_idx et suffix; Ok (CElem et suffix m 0)
      else Ok (CElem et suffix (et_defaultM et) 0)
  | SuffixMxNRequired =>
      if is_nil suffix then Err EMissingSuffix
      else do mn <- parseMxNSuffix_idx et suffix; Ok (CElem et suffix (fst mn) (snd mn))
  end.

(* Parameter.parseABIParameterComponents (the base-name scan is a  range  loop: no index expression) *)
Fixpoint parse_idx (p : param) : res tcomp :=
  match p with
  | Param abiTypeString components =>
    let etStr := take_lower abiTypeString in
    do sa <- splitElementaryTypeSuffix_idx abiTypeString (length etStr);
    let suffix := fst sa in
    let arrays := snd sa in
    do tc <- (if bytes_eqb etStr (ascii_bytes tuple_type_string) then
                if negb (is_nil suffix) then Err EUnsupportedSuffix else
                do children <- (fix go (l : list param) : res (list tcomp) :=
                                  match l with
                                  | [] => Ok []
                                  | c :: r => do x <- parse_idx c; do xs <- go r; Ok (x :: xs)
                                  end) components;
                Ok (CTuple children)
              else
                match lookup_et etStr with
                | None => Err EUnsupportedType
                | Some et => parse_elementary_idx et suffix
                end);
    if negb (is_nil arrays) then parseArrays_idx (S (length arrays)) tc arrays else Ok tc
  end.
