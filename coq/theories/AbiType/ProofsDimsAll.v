(* Wave 6.  Array dimensions WITHOUT the guard "the body holds no ']'": for ANY accepted element text [s]
   and ANY bytes [r] after an appended '[', the extended text  s ++ "[" ++ r  is accepted exactly when
   "[" ++ r  is the rendering of a list of well-formed dimensions ("[]" or "[k]" with k < 2^32 in canonical
   decimal), and the tree is then the element's tree wrapped once per dimension, innermost first.  A text
   that continues with '[' is never accepted unless the part before that '[' is accepted.  The one-dimension
   theorems of ProofsDims.v (guard  no_byte ']' body) are the special case of a one-element list. *)
From Coq Require Import String.
From Coq Require Import List NArith Bool Arith Lia.
From Coq Require Import Init.Byte.
From FFS Require Import Base.Res Base.Bytes Abi.Types Gen.AbiConsts
  AbiType.Syntax AbiType.Spec AbiType.Model AbiType.Abs
  AbiType.ProofsDec AbiType.ProofsArr AbiType.ProofsElem AbiType.ProofsLeaf AbiType.ProofsMain
  AbiType.ProofsDims.
Import ListNotations.

(* where the first [c] of  a ++ c :: u  falls in another decomposition  b ++ v  of the same string *)
Lemma app_split_first c (a : bytes) : forall u b v,
  a ++ c :: u = b ++ v ->
  (exists b', a = b ++ b' /\ v = b' ++ c :: u) \/ (exists b'', b = a ++ c :: b'' /\ u = b'' ++ v).
Proof.
  induction a as [|x a IH]; intros u b v E.
  - destruct b as [|y b]; cbn [app] in E.
    + left. exists []. split; [reflexivity|]. symmetry. exact E.
    + injection E as -> E. right. exists b. split; [reflexivity|exact E].
  - destruct b as [|y b]; cbn [app] in E.
    + left. exists (x :: a). split; [reflexivity|]. symmetry. exact E.
    + injection E as -> E. destruct (IH u b v E) as [(b' & -> & ->)|(b'' & -> & ->)].
      * left. exists b'. split; reflexivity.
      * right. exists b''. split; reflexivity.
Qed.

(* a '[' inside a rendered dimension list starts a dimension *)
Lemma render_dims_split_at_lbrack ds' : forall x r,
  render_dims ds' = x ++ ch_lbrack :: r ->
  exists ds1 ds2, ds' = ds1 ++ ds2 /\ x = render_dims ds1 /\ ch_lbrack :: r = render_dims ds2.
Proof.
  induction ds' as [|d' rest IH]; intros x r E.
  - cbn in E. destruct x; discriminate.
  - destruct x as [|c x'].
    + exists [], (d' :: rest). split; [reflexivity|]. split; [reflexivity|]. symmetry. exact E.
    + rewrite render_dims_cons in E. cbn [app] in E. injection E as Ec E. subst c.
      apply app_split_first in E. destruct E as [(b' & E1 & E2)|(b'' & E1 & E2)].
      * exfalso. pose proof (dim_body_no_lbrack d') as L. rewrite E1 in L.
        apply Forall_app in L. destruct L as [_ L].
        destruct b' as [|y b']; cbn [app] in E2; [discriminate|]. injection E2 as <- _.
        inversion L as [|? ? L1 _]; subst. rewrite byte_eqb_refl in L1. discriminate.
      * destruct (IH b'' r E2) as (ds1 & ds2 & -> & -> & E3).
        exists (d' :: ds1), ds2. split; [reflexivity|]. split; [|exact E3].
        rewrite render_dims_cons, E1. reflexivity.
Qed.

Lemma wrap_tc_app tc a b : wrap_tc tc (a ++ b) = wrap_tc (wrap_tc tc a) b.
Proof. unfold wrap_tc. apply fold_left_app. Qed.

(* ---------- the theorems ---------- *)

(* a text that continues with '[' is accepted only if the part before that '[' is accepted, and what
   follows is then a list of well-formed dimensions *)
Theorem dimensions_inv s comps r tc' :
  Validate (Param (s ++ ch_lbrack :: r) comps) = Ok tc' ->
  exists tc ds, Validate (Param s comps) = Ok tc /\ forallb dim_ok ds = true /\
                ch_lbrack :: r = render_dims ds /\ tc' = wrap_tc tc ds.
Proof.
  intros H. unfold Validate in *. rewrite parse_unfold in H. cbv zeta in H.
  rewrite take_lower_snoc in H by exact lbrack_not_lower.
  pose proof (split_snoc s r) as SS. cbv zeta in SS. rewrite SS in H. clear SS.
  cbn [fst snd] in H. rewrite parse_unfold. cbv zeta.
  set (sa := splitElementaryTypeSuffix s (length (take_lower s))) in *.
  destruct (parse_base (take_lower s) (fst sa) comps) as [tc0| |] eqn:HB; try discriminate.
  cbn [bind] in *.
  replace (is_nil (snd sa ++ ch_lbrack :: r)) with false in H by (destruct (snd sa); reflexivity).
  cbn [negb] in H. apply parseArrays_sound in H. destruct H as (ds' & _ & Er & Hok & ->).
  symmetry in Er. apply render_dims_split_at_lbrack in Er.
  destruct Er as (ds1 & ds2 & -> & Es & Er).
  rewrite forallb_app in Hok. apply andb_prop in Hok. destruct Hok as [Hds1 Hds2].
  exists (wrap_tc tc0 ds1), ds2.
  split; [|split; [exact Hds2|split; [exact Er|apply wrap_tc_app]]].
  rewrite Es. destruct ds1 as [|d ds1]; [reflexivity|].
  replace (is_nil (render_dims (d :: ds1))) with false by (rewrite render_dims_cons; reflexivity).
  cbn [negb]. apply parseArrays_complete; [discriminate|exact Hds1|lia].
Qed.

(* conversely any list of well-formed dimensions is accepted after an accepted text, and wraps the tree
   once per dimension *)
Theorem dimensions_intro s comps tc ds :
  Validate (Param s comps) = Ok tc -> forallb dim_ok ds = true ->
  Validate (Param (s ++ render_dims ds) comps) = Ok (wrap_tc tc ds).
Proof.
  intros H Hd. apply accept_iff_grammar in H. destruct H as (t & V & S & T1 & T5).
  apply accept_iff_grammar. exists (wrap_ty t ds). split; [|split; [|split]].
  - rewrite valid_wrap, V, Hd. reflexivity.
  - apply spelling_wrap. exists s. split; [exact S|reflexivity].
  - exact (ty_of_wrap ds tc t T1).
  - exact (tc_of_wrap ds t tc T5).
Qed.

Theorem dimensions_exact s comps tc r tc' :
  Validate (Param s comps) = Ok tc ->
  (Validate (Param (s ++ ch_lbrack :: r) comps) = Ok tc' <->
   exists ds, forallb dim_ok ds = true /\ ch_lbrack :: r = render_dims ds /\ tc' = wrap_tc tc ds).
Proof.
  intros H0. split.
  - intros H. destruct (dimensions_inv _ _ _ _ H) as (tc1 & ds & V & Hd & Er & Et).
    assert (tc1 = tc) by congruence. subst tc1. exists ds. auto.
  - intros (ds & Hd & Er & ->). rewrite Er. exact (dimensions_intro s comps tc ds H0 Hd).
Qed.

(* a text continuing with '[' never rescues a refused text before it -- no guard on what follows *)
Theorem dimensions_need_element s comps r tc' :
  Validate (Param (s ++ ch_lbrack :: r) comps) = Ok tc' ->
  exists tc, Validate (Param s comps) = Ok tc.
Proof. intros H. destruct (dimensions_inv _ _ _ _ H) as (tc & _ & V & _). eauto. Qed.

(* ... hence: a refused text stays refused (with an error, not a panic) whatever follows a '[' *)
Theorem refused_stays_refused s comps r :
  (exists e, Validate (Param s comps) = Err e) ->
  exists e, Validate (Param (s ++ ch_lbrack :: r) comps) = Err e /\ e <> EOutOfFuel.
Proof.
  intros (e0 & E0). set (p := Param (s ++ ch_lbrack :: r) comps).
  destruct (validate_total p) as [NP NF].
  destruct (Validate p) as [tc'|e|] eqn:E; [|exists e; split; [reflexivity|congruence]|congruence].
  exfalso. destruct (dimensions_need_element _ _ _ _ E) as (tc & V). congruence.
Qed.

(* the rendering of a dimension list determines the list: the grammar of dimension lists is unambiguous *)
Lemma render_dims_inj ds : forall ds', render_dims ds = render_dims ds' -> ds = ds'.
Proof.
  induction ds as [|d ds IH]; intros ds' E.
  - symmetry in E. apply render_dims_nil_iff in E. congruence.
  - destruct ds' as [|d' ds']; [apply render_dims_nil_iff in E; discriminate|].
    rewrite !render_dims_cons in E. injection E as E.
    apply split_at_first in E; [|apply dim_body_no_rbrack|apply dim_body_no_rbrack].
    destruct E as [E1 E2]. f_equal; [|apply IH; exact E2].
    destruct d as [k|], d' as [k'|]; cbn [dim_body] in E1.
    + f_equal. apply dec_inj. exact E1.
    + exfalso. exact (dec_nonnil k E1).
    + exfalso. symmetry in E1. exact (dec_nonnil k' E1).
    + reflexivity.
Qed.

(* a rendered dimension list with an ill-formed dimension (k >= 2^32) anywhere in it is refused *)
Theorem dimensions_bad_refused s comps tc ds :
  Validate (Param s comps) = Ok tc -> ds <> [] -> forallb dim_ok ds = false ->
  exists e, Validate (Param (s ++ render_dims ds) comps) = Err e /\ e <> EOutOfFuel.
Proof.
  intros H0 Hne Hd. set (p := Param (s ++ render_dims ds) comps).
  destruct (validate_total p) as [NP NF].
  destruct (Validate p) as [tc'|e|] eqn:E; [|exists e; split; [reflexivity|congruence]|congruence].
  exfalso. subst p. destruct ds as [|d ds]; [congruence|].
  rewrite render_dims_cons in E. apply dimensions_inv in E.
  destruct E as (tc1 & ds2 & _ & Hok & Er & _).
  rewrite <- render_dims_cons in Er. apply render_dims_inj in Er. subst ds2. congruence.
Qed.
