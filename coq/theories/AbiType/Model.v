(* Executable model of the ABI type-string parser of pkg/abi (typecomponents.go, and the Validate /
   SignatureString entry points of abi.go), after the fixes 72abd47 (leading zeros) and dff070b
   (suffix on tuple).  One definition per Go function, same case order, same guards.  The elementary
   type table and the strconv.ParseUint parameters come from Gen/AbiConsts.v, which a translator
   regenerates from the Go source on every run.  No proofs here. *)
From Coq Require Import String.
From Coq Require Import List NArith Bool Arith.
From Coq Require Import Init.Byte.
From FFS Require Import Base.Res Base.Bytes Gen.AbiConsts AbiType.Syntax.
Import ListNotations.

(* error classes (signermsgs) *)
Definition EUnsupportedType := 1%nat.    (* MsgUnsupportedABIType   FF22025 *)
Definition EUnsupportedSuffix := 2%nat.  (* MsgUnsupportedABISuffix FF22026 *)
Definition EMissingSuffix := 3%nat.      (* MsgMissingABISuffix     FF22027 *)
Definition EInvalidSuffix := 4%nat.      (* MsgInvalidABISuffix     FF22028 *)
Definition EInvalidArray := 5%nat.       (* MsgInvalidABIArraySpec  FF22029 *)
Definition EOutOfFuel := 99%nat.         (* model artefact; proved unreachable *)

(* typeComponent, reduced to what type parsing sets and rendering reads (keyName / parameter
   back-pointers are not part of the type) *)
Inductive tcomp :=
| CElem (et : elem_info) (suffix : bytes) (m n : N)   (* ElementaryComponent *)
| CFixedArr (child : tcomp) (len : N)                 (* FixedArrayComponent *)
| CDynArr (child : tcomp)                             (* DynamicArrayComponent *)
| CTuple (children : list tcomp).                     (* TupleComponent *)

(* ---------- characters ---------- *)
Definition ch_lbrack : byte := x5b.  (* '[' *)
Definition ch_rbrack : byte := x5d.  (* ']' *)
Definition ch_x : byte := x78.       (* 'x' *)
Definition ch_lparen : byte := x28.
Definition ch_rparen : byte := x29.
Definition ch_comma : byte := x2c.

Definition is_lower (b : byte) : bool := (97 <=? b2n b)%N && (b2n b <=? 122)%N.   (* r >= 'a' && r <= 'z' *)
Definition is_digit (b : byte) : bool := (48 <=? b2n b)%N && (b2n b <=? 57)%N.
Definition is_nil (s : bytes) : bool := match s with [] => true | _ => false end.

(* Go [s[lo:]] *)
Definition slice_from (s : bytes) (lo : nat) : res bytes :=
  if (lo <=? length s)%nat then Ok (skipn lo s) else Panic.

(* the loop  for ; pos < len(s) && s[pos] != c; pos++ { b.WriteByte(s[pos]) }  : the bytes before
   the first [c] *)
Fixpoint until (c : byte) (s : bytes) : bytes :=
  match s with
  | [] => []
  | b :: r => if byte_eqb b c then [] else b :: until c r
  end.

(* ---------- strconv ---------- *)

(* strconv.ParseUint(s, 10, bits): non-empty, decimal digits only (no sign, no '_' since base != 0),
   value < 2^bits; any failure is an error *)
Fixpoint digits_value (s : bytes) (acc : N) : option N :=
  match s with
  | [] => Some acc
  | c :: r => if is_digit c then digits_value r (acc * 10 + (b2n c - 48))%N else None
  end.
Definition parse_uint (s : bytes) (bits : N) : option N :=
  match s with
  | [] => None
  | _ => match digits_value s 0 with
         | Some v => if (v <? 2 ^ bits)%N then Some v else None
         | None => None
         end
  end.

(* strconv.FormatUint(u, 10) / fmt %d of a non-negative int: digits produced from the least
   significant end into a buffer *)
Definition digit_char (d : N) : byte := n2b (48 + d).
Fixpoint format_go (fuel : nat) (u : N) (acc : bytes) : res bytes :=
  match fuel with
  | O => Err EOutOfFuel
  | S f => if (u <? 10)%N then Ok (digit_char u :: acc)
           else format_go f (u / 10)%N (digit_char (u mod 10) :: acc)
  end.
Definition format_uint (u : N) : res bytes := format_go (S (N.to_nat (N.log2 u))) u [].

(* isCanonicalDecimal(val, text): strconv.FormatUint(val, 10) == text *)
Definition isCanonicalDecimal (v : N) (text : bytes) : res bool :=
  do s <- format_uint v; Ok (bytes_eqb s text).

(* ---------- typecomponents.go ---------- *)

Definition et_name_bytes (et : elem_info) : bytes := ascii_bytes (et_name et).

(* elementaryTypes[BaseTypeName(etStr)] *)
Definition lookup_et (name : bytes) : option elem_info :=
  find (fun et => bytes_eqb (et_name_bytes et) name) elementary_types.

(* the base-name scan of parseABIParameterComponents: leading bytes in 'a'..'z' (ranging over runes
   and over bytes is the same here: every byte of a multi-byte or invalid sequence is >= 0x80) *)
Fixpoint take_lower (s : bytes) : bytes :=
  match s with
  | [] => []
  | b :: r => if is_lower b then b :: take_lower r else []
  end.

(* splitElementaryTypeSuffix(abiTypeString, pos) *)
Definition splitElementaryTypeSuffix (s : bytes) (pos : nat) : bytes * bytes :=
  let rest := skipn pos s in
  let suffix := until ch_lbrack rest in
  (suffix, skipn (length suffix) rest).

(* parseMSuffix: returns ec.m *)
Definition parseMSuffix (et : elem_info) (suffix : bytes) : res N :=
  match parse_uint suffix parse_m_bits with
  | None => Err EInvalidSuffix
  | Some v =>
    do canon <- isCanonicalDecimal v suffix;
    if negb canon then Err EInvalidSuffix else
    let m := (v mod 65536)%N in                                    (* uint16(val) *)
    if (m <? et_mMin et)%N || (et_mMax et <? m)%N then Err EInvalidSuffix else
    if negb (et_mMod et =? 0)%N && negb (m mod et_mMod et =? 0)%N then Err EInvalidSuffix else
    Ok m
  end.

(* parseNSuffix: returns ec.n *)
Definition parseNSuffix (et : elem_info) (suffix : bytes) : res N :=
  match parse_uint suffix parse_n_bits with
  | None => Err EInvalidSuffix
  | Some v =>
    do canon <- isCanonicalDecimal v suffix;
    if negb canon then Err EInvalidSuffix else
    let n := (v mod 65536)%N in
    if (n <? et_nMin et)%N || (et_nMax et <? n)%N then Err EInvalidSuffix else
    Ok n
  end.

(* parseMxNSuffix *)
Definition parseMxNSuffix (et : elem_info) (suffix : bytes) : res (N * N) :=
  let mStr := until ch_x suffix in
  let pos := length mStr in
  if (length suffix <=? pos + 1)%nat then Err EInvalidSuffix else      (* pos >= len(suffix)-1 *)
  do m <- parseMSuffix et mStr;
  do nStr <- slice_from suffix (pos + 1);
  do n <- parseNSuffix et nStr;
  Ok (m, n).

(* parseArrayM: returns ac.arrayLength = int(val) (64-bit int: no truncation below 2^32) *)
Definition parseArrayM (mStr : bytes) : res N :=
  match parse_uint mStr parse_array_bits with
  | None => Err EInvalidArray
  | Some v =>
    do canon <- isCanonicalDecimal v mStr;
    if negb canon then Err EInvalidArray else Ok v
  end.

(* parseArrays: one dimension per call, recursing on suffix[pos:] (strictly shorter) *)
Fixpoint parseArrays (fuel : nat) (child : tcomp) (suffix : bytes) : res tcomp :=
  match fuel with
  | O => Err EOutOfFuel
  | S f =>
    match suffix with
    | [] => Err EInvalidArray                                   (* pos >= len(suffix) *)
    | c :: r =>
      if negb (byte_eqb c ch_lbrack) then Err EInvalidArray else
      let mStr := until ch_rbrack r in
      let pos := S (length mStr) in                             (* index of ']' or len(suffix) *)
      if (length suffix <=? pos)%nat then Err EInvalidArray else
      let pos := S pos in
      do ac <- (if is_nil mStr then Ok (CDynArr child)
                else do k <- parseArrayM mStr; Ok (CFixedArr child k));
      if (pos <? length suffix)%nat then
        do rest <- slice_from suffix pos; parseArrays f ac rest
      else Ok ac
    end
  end.

(* the elementary branch of parseABIParameterComponents *)
Definition parse_elementary (et : elem_info) (suffix0 : bytes) : res tcomp :=
  let suffix := if is_nil suffix0 then ascii_bytes (et_default_suffix et) else suffix0 in
  match et_suffix et with
  | SuffixNone =>
      if negb (is_nil suffix) then Err EUnsupportedSuffix
      else Ok (CElem et suffix (et_defaultM et) 0)
  | SuffixMRequired =>
      if is_nil suffix then Err EMissingSuffix
      else do m <- parseMSuffix et suffix; Ok (CElem et suffix m 0)
  | SuffixMOptional =>
      if negb (is_nil suffix) then do m <- parseMSuffix et suffix; Ok (CElem et suffix m 0)
      else Ok (CElem et suffix (et_defaultM et) 0)
  | SuffixMxNRequired =>
      if is_nil suffix then Err EMissingSuffix
      else do mn <- parseMxNSuffix et suffix; Ok (CElem et suffix (fst mn) (snd mn))
  end.

(* Parameter.parseABIParameterComponents *)
Fixpoint parseABIParameterComponents (p : param) : res tcomp :=
  match p with
  | Param abiTypeString components =>
    let etStr := take_lower abiTypeString in
    let '(suffix, arrays) := splitElementaryTypeSuffix abiTypeString (length etStr) in
    do tc <- (if bytes_eqb etStr (ascii_bytes tuple_type_string) then
                if negb (is_nil suffix) then Err EUnsupportedSuffix else
                do children <- (fix go (l : list param) : res (list tcomp) :=
                                  match l with
                                  | [] => Ok []
                                  | c :: r => do x <- parseABIParameterComponents c;
                                              do xs <- go r; Ok (x :: xs)
                                  end) components;
                Ok (CTuple children)
              else
                match lookup_et etStr with
                | None => Err EUnsupportedType
                | Some et => parse_elementary et suffix
                end);
    if negb (is_nil arrays) then parseArrays (S (length arrays)) tc arrays else Ok tc
  end.

(* typeComponent.String *)
Fixpoint join (sep : bytes) (l : list bytes) : bytes :=
  match l with
  | [] => []
  | [x] => x
  | x :: r => x ++ sep ++ join sep r
  end.

Fixpoint tc_string (tc : tcomp) : res bytes :=
  match tc with
  | CElem et suffix _ _ => Ok (et_name_bytes et ++ suffix)
  | CFixedArr c k => do s <- tc_string c; do d <- format_uint k;
                     Ok (s ++ [ch_lbrack] ++ d ++ [ch_rbrack])
  | CDynArr c => do s <- tc_string c; Ok (s ++ [ch_lbrack; ch_rbrack])
  | CTuple l =>
      do ss <- (fix go (l : list tcomp) : res (list bytes) :=
                  match l with
                  | [] => Ok []
                  | c :: r => do s <- tc_string c; do ss <- go r; Ok (s :: ss)
                  end) l;
      Ok ([ch_lparen] ++ join [ch_comma] ss ++ [ch_rparen])
  end.

(* ---------- abi.go entry points ---------- *)

(* Parameter.Validate / TypeComponentTree (the cache is transparent: it holds the last result) *)
Definition Validate (p : param) : res tcomp := parseABIParameterComponents p.

(* Parameter.SignatureString *)
Definition SignatureString (p : param) : res bytes := do tc <- Validate p; tc_string tc.

(* Entry.Validate: inputs then outputs, first error wins;  ABI.Validate: entries in order *)
Inductive entry := Entry (inputs outputs : list param).

Fixpoint validate_params (l : list param) : res unit :=
  match l with
  | [] => Ok tt
  | p :: r => do _ <- Validate p; validate_params r
  end.
Definition EntryValidate (e : entry) : res unit :=
  match e with Entry i o => do _ <- validate_params i; validate_params o end.
Fixpoint ABIValidate (a : list entry) : res unit :=
  match a with
  | [] => Ok tt
  | e :: r => do _ <- EntryValidate e; ABIValidate r
  end.
