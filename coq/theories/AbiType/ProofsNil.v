(* Referee issue I2 (nil pointers), proofs over ModelNil.v: on objects WITHOUT nil the nullable model is
   the pure model (so every C13 theorem transfers and there is no panic); with a nil that the member loop
   reaches -- or a nil entry -- the model panics, as the Go code does (witnesses). *)
From Coq Require Import String.
From Coq Require Import List NArith Bool Arith.
From Coq Require Import Init.Byte.
From FFS Require Import Base.Res Base.Bytes Abi.Types Gen.AbiConsts
  AbiType.Syntax AbiType.Spec AbiType.Model AbiType.Abs AbiType.ModelNil AbiType.ProofsMain.
Import ListNotations.

Lemma embed_unfold t cs : embed (Param t cs) = NParam t (map embed cs).
Proof. reflexivity. Qed.

Lemma nil_free_unfold t cs : nil_free (NParam t cs) = forallb nil_free cs.
Proof. reflexivity. Qed.

Theorem parseN_embed p : ValidateN (embed p) = Validate p.
Proof.
  induction p as [t cs IH] using param_ind'. rewrite embed_unfold. unfold ValidateN, Validate.
  cbn [parseN parseABIParameterComponents]. cbv zeta.
  destruct (splitElementaryTypeSuffix t (length (take_lower t))) as [suffix arrays].
  destruct (bytes_eqb (take_lower t) (ascii_bytes tuple_type_string)); [|reflexivity].
  destruct (negb (is_nil suffix)); [reflexivity|].
  match goal with |- bind (bind (?F (map embed cs)) _) _ = bind (bind (?G cs) _) _ =>
    assert (E : F (map embed cs) = G cs)
  end.
  { induction IH as [|x l Hx Hl IHl]; [reflexivity|]. cbn [map]. unfold ValidateN, Validate in Hx. rewrite Hx.
    destruct (parseABIParameterComponents x); try reflexivity. cbn [bind]. rewrite IHl. reflexivity. }
  rewrite E. reflexivity.
Qed.

Lemma nil_free_embed p : nil_free (embed p) = true.
Proof.
  induction p as [t cs IH] using param_ind'. rewrite embed_unfold, nil_free_unfold.
  induction IH as [|x l Hx Hl IHl]; [reflexivity|]. cbn [map forallb]. rewrite Hx, IHl. reflexivity.
Qed.

Theorem nil_free_is_embed q : nil_free q = true <-> exists p, q = embed p.
Proof.
  split; [|intros (p & ->); apply nil_free_embed].
  induction q as [|t cs IH] using nparam_ind'; [discriminate|]. rewrite nil_free_unfold. intros H.
  assert (L : exists ps, cs = map embed ps).
  { induction IH as [|x l Hx Hl IHl]; [exists []; reflexivity|]. cbn [forallb] in H.
    apply andb_prop in H. destruct H as [H1 H2]. destruct (Hx H1) as (p & ->).
    destruct (IHl H2) as (ps & ->). exists (p :: ps). reflexivity. }
  destruct L as (ps & ->). exists (Param t ps). reflexivity.
Qed.

(* clause 1 with its hypothesis said: no nil at any depth => the answer of the pure model, no panic *)
Theorem validateN_nil_free q : nil_free q = true ->
  (exists p, q = embed p /\ ValidateN q = Validate p) /\
  ValidateN q <> Panic /\ ValidateN q <> Err EOutOfFuel.
Proof.
  intros H. apply nil_free_is_embed in H. destruct H as (p & ->). rewrite parseN_embed.
  split; [exists p; auto|apply validate_total].
Qed.

Lemma validate_paramsN_embed l : validate_paramsN (map embed l) = validate_params l.
Proof.
  induction l as [|p l IH]; [reflexivity|]. cbn [map validate_paramsN validate_params].
  rewrite parseN_embed, IH. reflexivity.
Qed.

Theorem abi_validateN_embed a : ABIValidateN (map embed_entry a) = ABIValidate a.
Proof.
  induction a as [|[i o] a IH]; [reflexivity|].
  cbn [map ABIValidateN ABIValidate embed_entry EntryValidateN EntryValidate].
  rewrite !validate_paramsN_embed, IH. reflexivity.
Qed.

Lemma forallb_nil_free_embed l : forallb nil_free l = true -> exists ps, l = map embed ps.
Proof.
  induction l as [|x l IH]; [exists []; reflexivity|]. cbn [forallb]. intros H.
  apply andb_prop in H. destruct H as [H1 H2]. apply nil_free_is_embed in H1. destruct H1 as (p & ->).
  destruct (IH H2) as (ps & ->). exists (p :: ps). reflexivity.
Qed.

Theorem abi_validateN_nil_free a : forallb nil_free_entry a = true ->
  (exists a', a = map embed_entry a' /\ ABIValidateN a = ABIValidate a') /\
  ABIValidateN a <> Panic /\ ABIValidateN a <> Err EOutOfFuel.
Proof.
  intros H.
  assert (L : exists a', a = map embed_entry a').
  { induction a as [|e a IH]; [exists []; reflexivity|]. cbn [forallb] in H.
    apply andb_prop in H. destruct H as [H1 H2]. destruct (IH H2) as (a' & ->).
    destruct e as [[i o]|]; [|discriminate]. cbn [nil_free_entry] in H1.
    apply andb_prop in H1. destruct H1 as [Hi Ho].
    destruct (forallb_nil_free_embed i Hi) as (pi & ->). destruct (forallb_nil_free_embed o Ho) as (po & ->).
    exists (Entry pi po :: a'). reflexivity. }
  destruct L as (a' & ->). rewrite abi_validateN_embed. split; [exists a'; auto|apply abi_validate_total].
Qed.

(* the hypothesis cannot be dropped: the panics of the Go code (probe: "components":[null], "inputs":[null],
   an ABI [null]); and where a nil is NOT dereferenced *)
Theorem nil_panics :
  ValidateN NNil = Panic /\
  ValidateN (NParam (T "tuple") [NNil]) = Panic /\
  ValidateN (NParam (T "tuple[2]") [NParam (T "uint8") []; NParam (T "tuple") [NNil]]) = Panic /\
  ABIValidateN [None] = Panic /\
  ABIValidateN [Some (NEntry [NNil] [])] = Panic /\
  ABIValidateN [Some (NEntry [] [NParam (T "tuple") [NNil]])] = Panic.
Proof. repeat split; vm_compute; reflexivity. Qed.

Theorem nil_not_reached :
  is_ok (ValidateN (NParam (T "uint256") [NNil])) = true /\            (* components of a leaf are not read *)
  is_err (ValidateN (NParam (T "tuple7") [NNil])) = true /\             (* suffix check comes first *)
  is_err (ValidateN (NParam (T "tuple") [NParam (T "uint7") []; NNil])) = true /\   (* earlier member refused *)
  is_err (ABIValidateN [Some (NEntry [NParam (T "uint7") []] []); None]) = true.     (* earlier entry refused *)
Proof. repeat split; vm_compute; reflexivity. Qed.
