(* Evaluator for the correspondence check of C13: runs the model of the ABI type parser, and a
   recogniser written directly from the grammar of AbiType/Spec.v, on the cases written by the Go
   harness and reports where they differ from what the implementation did. *)
From Coq Require Import String.
From Coq Require Import List NArith Bool Arith.
From Coq Require Import Init.Byte.
From FFS Require Import Base.Res Base.Bytes Base.Lit Abi.Types Gen.AbiConsts
  AbiType.Syntax AbiType.Spec AbiType.Model AbiType.Abs AbiType.ModelSig.
Import ListNotations.

(* parameter objects as written by the harness *)
Inductive dparam := DP (ty : bdsl) (comps : list dparam).
Fixpoint expand (d : dparam) : param :=
  match d with DP t c => Param (bexpand t) (map expand c) end.

(* the type component tree observed through the TypeComponent interface *)
Inductive otree :=
| OElem (name suffix : bdsl) (m n : N)
| OFixed (c : otree) (k : N)
| ODyn (c : otree)
| OTuple (l : list otree).

Inductive case :=
(* parameter; class of TypeComponentTree(); observed tree; String(); re-parse of the normal form gave
   the same tree and signature (evaluated by the harness on the implementation) *)
| CParam (p : dparam) (cls : nat) (tree : option otree) (sig : bdsl) (reparse_same : bool)
(* ABI document: entries as (inputs, outputs); class of ABI.Validate() *)
| CAbi (entries : list (list dparam * list dparam)) (cls : nat)
(* entry name, inputs; class and text of Entry.Signature() *)
| CSig (name : bdsl) (inputs : list dparam) (cls : nat) (sig : bdsl)
(* a parameter list; class, observed tree and String() of ParameterArray.TypeComponentTree() *)
| CList (inputs : list dparam) (cls : nat) (tree : option otree) (sig : bdsl).

(* ---------- grammar recogniser (oracle), from Spec.v ---------- *)

Definition valid_ms : list N := map (fun i => (8 * N.of_nat (S i))%N) (seq 0 32).
Definition valid_ns : list N := map (fun i => N.of_nat (S i)) (seq 0 80).
Definition valid_bs : list N := map (fun i => N.of_nat (S i)) (seq 0 32).

(* every leaf spelling of the grammar with the type it denotes *)
Definition leaf_table : list (bytes * ty) :=
  let can (t : ty) := (canonical t, t) in
  [can TAddress; can TBool; can TBytes; can TString; can TFunction;
   (T "uint", TUInt 256); (T "int", TInt 256); (T "fixed", TFixed 128 18); (T "ufixed", TUFixed 128 18)]
  ++ map (fun m => can (TUInt m)) valid_ms
  ++ map (fun m => can (TInt m)) valid_ms
  ++ map (fun m => can (TBytesN m)) valid_bs
  ++ flat_map (fun m => map (fun n => can (TFixed m n)) valid_ns) valid_ms
  ++ flat_map (fun m => map (fun n => can (TUFixed m n)) valid_ns) valid_ms.

Fixpoint lookup_leaf (tbl : list (bytes * ty)) (s : bytes) : option ty :=
  match tbl with
  | [] => None
  | (k, t) :: r => if bytes_eqb k s then Some t else lookup_leaf r s
  end.

(* split at the first occurrence of c: (before, after) *)
Fixpoint split_at (c : byte) (s : bytes) : option (bytes * bytes) :=
  match s with
  | [] => None
  | b :: r => if byte_eqb b c then Some ([], r)
              else match split_at c r with Some (x, y) => Some (b :: x, y) | None => None end
  end.

(* ( "[" dec? "]" )*  ->  dimensions, innermost first *)
Fixpoint dims (fuel : nat) (s : bytes) : option (list (option N)) :=
  match s with
  | [] => Some []
  | c :: r =>
    match fuel with
    | O => None
    | S f =>
      if negb (byte_eqb c x5b) then None else
      match split_at x5d r with
      | None => None
      | Some (d, rest) =>
        match dims f rest with
        | None => None
        | Some ds =>
          match d with
          | [] => Some (None :: ds)
          | _ => match dec_value d with
                 | Some k => if no_leading_zero d && (k <? 2 ^ 32)%N then Some (Some k :: ds) else None
                 | None => None
                 end
          end
        end
      end
    end
  end.

Definition wrap_dims (t : ty) (ds : list (option N)) : ty :=
  fold_left (fun t d => match d with Some k => TFixedArr t k | None => TDynArr t end) ds t.

Fixpoint recognise (tbl : list (bytes * ty)) (p : param) : option ty :=
  match p with
  | Param s comps =>
    let '(base, arr) := match split_at x5b s with
                        | Some (b, a) => (b, x5b :: a)
                        | None => (s, [])
                        end in
    match dims (S (length arr)) arr with
    | None => None
    | Some ds =>
      let bt := if bytes_eqb base (T "tuple") then
                  match (fix go (l : list param) : option (list ty) :=
                           match l with
                           | [] => Some []
                           | c :: r => match recognise tbl c, go r with
                                       | Some t, Some ts => Some (t :: ts)
                                       | _, _ => None
                                       end
                           end) comps with
                  | Some ts => Some (TTuple ts)
                  | None => None
                  end
                else lookup_leaf tbl base in
      match bt with
      | Some t => Some (wrap_dims t ds)
      | None => None
      end
    end
  end.

(* ---------- comparisons ---------- *)

Fixpoint ty_eqb (a b : ty) : bool :=
  match a, b with
  | TUInt m, TUInt m' | TInt m, TInt m' | TBytesN m, TBytesN m' => (m =? m')%N
  | TFixed m n, TFixed m' n' | TUFixed m n, TUFixed m' n' => (m =? m')%N && (n =? n')%N
  | TAddress, TAddress | TBool, TBool | TBytes, TBytes | TString, TString | TFunction, TFunction => true
  | TFixedArr t k, TFixedArr t' k' => (k =? k')%N && ty_eqb t t'
  | TDynArr t, TDynArr t' => ty_eqb t t'
  | TTuple l, TTuple l' =>
      (fix go (l l' : list ty) : bool :=
         match l, l' with
         | [], [] => true
         | x :: r, y :: r' => ty_eqb x y && go r r'
         | _, _ => false
         end) l l'
  | _, _ => false
  end.

Fixpoint tc_matches (tc : tcomp) (o : otree) : bool :=
  match tc, o with
  | CElem et sfx m n, OElem nm s m' n' =>
      bytes_eqb (et_name_bytes et) (bexpand nm) && bytes_eqb sfx (bexpand s) && (m =? m')%N && (n =? n')%N
  | CFixedArr c k, OFixed c' k' => (k =? k')%N && tc_matches c c'
  | CDynArr c, ODyn c' => tc_matches c c'
  | CTuple l, OTuple l' =>
      (fix go (l : list tcomp) (l' : list otree) : bool :=
         match l, l' with
         | [], [] => true
         | x :: r, y :: r' => tc_matches x y && go r r'
         | _, _ => false
         end) l l'
  | _, _ => false
  end.

(* the spec type an observed tree stands for (same reading as Abs.ty_of, on the observation) *)
Definition oleaf_ty (nm sfx : bytes) (m n : N) : option ty :=
  if bytes_eqb nm (T "uint") then Some (TUInt m)
  else if bytes_eqb nm (T "int") then Some (TInt m)
  else if bytes_eqb nm (T "address") then Some TAddress
  else if bytes_eqb nm (T "bool") then Some TBool
  else if bytes_eqb nm (T "fixed") then Some (TFixed m n)
  else if bytes_eqb nm (T "ufixed") then Some (TUFixed m n)
  else if bytes_eqb nm (T "bytes") then (match sfx with [] => Some TBytes | _ => Some (TBytesN m) end)
  else if bytes_eqb nm (T "function") then Some TFunction
  else if bytes_eqb nm (T "string") then Some TString
  else None.
Fixpoint oty (o : otree) : option ty :=
  match o with
  | OElem nm s m n => oleaf_ty (bexpand nm) (bexpand s) m n
  | OFixed c k => match oty c with Some t => Some (TFixedArr t k) | None => None end
  | ODyn c => match oty c with Some t => Some (TDynArr t) | None => None end
  | OTuple l =>
      match (fix go (l : list otree) : option (list ty) :=
               match l with
               | [] => Some []
               | c :: r => match oty c, go r with Some t, Some ts => Some (t :: ts) | _, _ => None end
               end) l with
      | Some ts => Some (TTuple ts)
      | None => None
      end
  end.

(* the grammar's types of a list of parameter objects (all must be in the grammar) *)
Fixpoint recognise_all (tbl : list (bytes * ty)) (l : list param) : option (list ty) :=
  match l with
  | [] => Some []
  | p :: r => match recognise tbl p, recognise_all tbl r with
              | Some t, Some ts => Some (t :: ts)
              | _, _ => None
              end
  end.

Local Open Scope N_scope.
(* result codes: 0 = agree; 1..9 = model differs from implementation; >= 10 = the implementation
   fails the grammar oracle / a property check on this input *)
Definition check_case (tbl : list (bytes * ty)) (c : case) : N :=
  match c with
  | CParam dp cls tree sig reparse_same =>
    let p := expand dp in
    if (cls =? 2)%nat then 12 else
    let spec := recognise tbl p in
    let grammar_code : N :=
      match spec, cls with
      | None, 0%nat => 10                                       (* accepted, not in the grammar *)
      | Some t, 0%nat =>
          if negb (valid_type t) then 10 else
          match tree with
          | Some o =>
              match oty o with
              | Some t' => if negb (ty_eqb t t') then 15
                           else if negb (bytes_eqb (canonical t) (bexpand sig)) then 13
                           else if negb reparse_same then 14 else 0
              | None => 15
              end
          | None => 15
          end
      | Some t, _ => if valid_type t then 11 else 0             (* rejected, but valid *)
      | None, _ => 0
      end in
    if negb (grammar_code =? 0)%N then grammar_code else
    match Validate p, cls, tree with
    | Ok tc, 0%nat, Some o =>
        if negb (tc_matches tc o) then 2
        else match tc_string tc with
             | Ok s => if bytes_eqb s (bexpand sig) then 0 else 3
             | _ => 3
             end
    | Err _, 1%nat, _ => 0
    | _, _, _ => 1
    end
  | CAbi entries cls =>
    if (cls =? 2)%nat then 12 else
    let a := map (fun e => Entry (map expand (fst e)) (map expand (snd e))) entries in
    match ABIValidate a, cls with
    | Ok _, 0%nat => 0
    | Err _, 1%nat => 0
    | _, _ => 4
    end
  | CSig name inputs cls sig =>
    if (cls =? 2)%nat then 12 else
    let ps := map expand inputs in
    let grammar_code : N :=
      match recognise_all tbl ps, cls with
      | Some ts, 0%nat =>
          if bytes_eqb (bexpand name ++ canonical (TTuple ts)) (bexpand sig) then 0 else 13
      | Some _, _ => 11                                         (* refused, but every input is valid *)
      | None, 0%nat => 10                                       (* produced, but an input is not in the grammar *)
      | None, _ => 0
      end in
    if negb (grammar_code =? 0)%N then grammar_code else
    match EntrySignature (bexpand name) ps, cls with
    | Ok s, 0%nat => if bytes_eqb s (bexpand sig) then 0 else 5
    | Err _, 1%nat => 0
    | _, _ => 5
    end
  | CList inputs cls tree sig =>
    if (cls =? 2)%nat then 12 else
    match ParameterArrayTree (map expand inputs), cls, tree with
    | Ok tc, 0%nat, Some o =>
        if negb (tc_matches tc o) then 6
        else match tc_string tc with
             | Ok s => if bytes_eqb s (bexpand sig) then 0 else 6
             | _ => 6
             end
    | Err _, 1%nat, _ => 0
    | _, _, _ => 6
    end
  end.

Fixpoint mismatches_go (tbl : list (bytes * ty)) (i : N) (l : list case) : list (N * N) :=
  match l with
  | [] => []
  | c :: t => let r := check_case tbl c in
              if (r =? 0)%N then mismatches_go tbl (i + 1) t else (i, r) :: mismatches_go tbl (i + 1) t
  end.
Definition mismatches (l : list case) : list (N * N) :=
  let tbl := leaf_table in firstn 20 (mismatches_go tbl 0 l).
