(* Wave 6.  Decoding then encoding: every sequence the decoder accepts (anything but the answer
   (RuneError, 1) for an invalid byte) is written back by WriteRune as the very bytes that were read -- so the
   rune loop, even if it accepted non-ASCII runes, would copy the text; and the two transcriptions
   (utf8.DecodeRuneInString, utf8.AppendRune) are consistent with each other. *)
From Coq Require Import List NArith ZArith Bool Arith Lia ZifyN ZifyNat ZifyBool.
From Coq Require Import Init.Byte.
From FFS Require Import Base.Res Base.Bytes AbiType.Model AbiType.ModelRune AbiType.ProofsRune.
Import ListNotations.
Open Scope N_scope.

Ltac Zify.zify_post_hook ::= Z.div_mod_to_equations.

Lemma n2b_eq x b : x = b2n b -> n2b x = b.
Proof. intros ->. apply n2b_b2n. Qed.

Ltac enc_done :=
  unfold encode_rune;
  repeat match goal with
  | |- context [if ?c then _ else _] =>
      let E := fresh "E" in destruct c eqn:E; [try (exfalso; lia)|try (exfalso; lia)]
  end;
  cbn [firstn]; repeat (f_equal; try (apply n2b_eq; lia)).

Theorem decode_encode_roundtrip b0 r rn w :
  decode_rune (b0 :: r) = (rn, w) -> (rn, w) <> (rune_error, 1%nat) ->
  encode_rune rn = firstn w (b0 :: r).
Proof.
  intros H NE. pose proof (b2n_lt b0) as B0.
  destruct r as [|b1 [|b2 [|b3 r3]]];
    try pose proof (b2n_lt b1) as B1; try pose proof (b2n_lt b2) as B2; try pose proof (b2n_lt b3) as B3;
    unfold decode_rune, is_cont in H; split_ifs; injection H as <- <-; try congruence; enc_done.
Qed.
