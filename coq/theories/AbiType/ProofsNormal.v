(* The normal form of an accepted parameter object, through the tuple / components path.

   [canonical_param t] is written from the grammar alone: the parameter object that spells the type t
   canonically -- the canonical text for a leaf, the element's object with one more dimension for an
   array, the word "tuple" with the canonical objects of the members as components for a tuple.
   Theorems: the normal form [normalise tc] computed from ANY accepted parameter's tree is exactly
   [canonical_param t] of its type (so it depends on the type only, not on the spelling that was used, and
   every component of it is the normal form of that member); it is accepted with the identical tree; and
   normalising what it parses to gives the same object again (normalisation is idempotent at every depth).
   Its rendering is the canonical signature. *)
From Coq Require Import String.
From Coq Require Import List NArith Bool Arith Lia.
From Coq Require Import Init.Byte.
From FFS Require Import Base.Res Base.Bytes Abi.Types Gen.AbiConsts
  AbiType.Syntax AbiType.Spec AbiType.Model AbiType.Abs
  AbiType.ProofsDec AbiType.ProofsArr AbiType.ProofsElem AbiType.ProofsLeaf AbiType.ProofsMain.
Import ListNotations.

Fixpoint canonical_param (t : ty) : param :=
  match t with
  | TFixedArr t' k =>
      let p := canonical_param t' in Param (p_type p ++ T "[" ++ dec k ++ T "]") (p_comps p)
  | TDynArr t' =>
      let p := canonical_param t' in Param (p_type p ++ T "[]") (p_comps p)
  | TTuple l =>
      Param (T "tuple") ((fix go (l : list ty) : list param :=
                            match l with [] => [] | t' :: r => canonical_param t' :: go r end) l)
  | _ => Param (canonical t) []
  end.

Lemma canonical_param_tuple l : canonical_param (TTuple l) = Param (T "tuple") (map canonical_param l).
Proof.
  reflexivity. (* the nested fix is [map canonical_param] itself *)
Qed.

Lemma normalise_list_canonical l :
  Forall (fun t => forall tc, tc_of t = Some tc -> normalise tc = Ok (canonical_param t)) l ->
  forall cs, tc_of_list l = Some cs -> normalise_list cs = Ok (map canonical_param l).
Proof.
  induction 1 as [|t l Ht Hl IH]; intros cs H; cbn [tc_of_list] in H.
  - injection H as <-. reflexivity.
  - destruct (tc_of t) as [c|] eqn:Ec; [|discriminate].
    destruct (tc_of_list l) as [cs'|] eqn:El; [|discriminate]. injection H as <-.
    cbn [normalise_list map]. rewrite (Ht c eq_refl), (IH cs' eq_refl). reflexivity.
Qed.

(* the normal form of the canonical component of t is the canonical parameter object of t *)
Lemma normalise_tc_of t : forall tc, tc_of t = Some tc -> normalise tc = Ok (canonical_param t).
Proof.
  induction t as [m|m| | |m n|m n|m| | | |t k IH|t IH|l IH] using ty_ind'; intros tc H.
  11:{ cbn [tc_of] in H. destruct (tc_of t) as [c|] eqn:Ec; [|discriminate]. injection H as <-.
       cbn [normalise canonical_param]. rewrite (IH c eq_refl). cbn [bind].
       rewrite format_uint_dec. reflexivity. }
  11:{ cbn [tc_of] in H. destruct (tc_of t) as [c|] eqn:Ec; [|discriminate]. injection H as <-.
       cbn [normalise canonical_param]. rewrite (IH c eq_refl). reflexivity. }
  11:{ rewrite tc_of_tuple in H. destruct (tc_of_list l) as [cs|] eqn:El; [|discriminate]. injection H as <-.
       rewrite normalise_tuple, (normalise_list_canonical l IH cs El), canonical_param_tuple. reflexivity. }
  all: rewrite tc_of_leaf in H by reflexivity; destruct (leaf_tc_props _ _ H) as (_ & P2 & _);
    destruct tc as [et sfx mm nn| | |]; try (unfold leaf_tc, mk_leaf in H; destruct (lookup_et _); discriminate);
    cbn [normalise]; rewrite P2; reflexivity.
Qed.

(* 1. the normal form depends on the type only, and is the grammar's canonical parameter object *)
Theorem normal_form_canonical p tc t :
  Validate p = Ok tc -> ty_of tc = Some t -> normalise tc = Ok (canonical_param t).
Proof.
  intros H Ht. destruct (validate_sound _ _ H) as (t' & T1 & _ & _ & _ & T5).
  assert (t' = t) by congruence. subst t'. exact (normalise_tc_of t tc T5).
Qed.

(* 2. the canonical parameter object of a valid type is accepted, as that type, and renders canonically *)
Theorem canonical_param_accepted t :
  valid_type t = true ->
  exists tc, Validate (canonical_param t) = Ok tc /\ ty_of tc = Some t /\ tc_of t = Some tc /\
             SignatureString (canonical_param t) = Ok (canonical t).
Proof.
  intros V.
  assert (S : spelling t (p_type (canonical_param t)) (p_comps (canonical_param t))).
  { clear V. induction t as [m|m| | |m n|m n|m| | | |t k IH|t IH|l IH] using ty_ind';
      try (cbn [canonical_param p_type p_comps]; apply spelling_canonical_leaf; reflexivity).
    - cbn [canonical_param p_type p_comps spelling]. eexists. split; [exact IH|reflexivity].
    - cbn [canonical_param p_type p_comps spelling]. eexists. split; [exact IH|reflexivity].
    - rewrite canonical_param_tuple. cbn [p_type p_comps]. apply spelling_tuple. split; [reflexivity|].
      induction IH as [|t l Ht Hl IHl]; [exact I|]. cbn [map members].
      destruct (canonical_param t) as [s' c'] eqn:E. cbn [p_type p_comps] in Ht. split; assumption. }
  destruct (validate_complete t _ _ V S) as (tc & H & T1).
  assert (H' : Validate (canonical_param t) = Ok tc) by (destruct (canonical_param t); exact H).
  destruct (validate_sound _ _ H') as (t' & U1 & _ & _ & U4 & U5).
  assert (t' = t) by congruence. subst t'.
  exists tc. split; [exact H'|]. split; [exact T1|]. split; [exact U5|].
  unfold SignatureString. rewrite H'. exact U4.
Qed.

(* 3. idempotence at every depth: normalise, validate, normalise again -- the same object; the tree is the
      one of the original parameter; two accepted parameters of the same type have the same normal form;
      and each component of the normal form of a tuple is the normal form of that member *)
Theorem normalise_idempotent p tc p' :
  Validate p = Ok tc -> normalise tc = Ok p' ->
  Validate p' = Ok tc /\
  (forall tc'', Validate p' = Ok tc'' -> normalise tc'' = Ok p') /\
  (forall q tcq, Validate q = Ok tcq -> ty_of tcq = ty_of tc -> normalise tcq = Ok p').
Proof.
  intros H N. destruct (validate_sound _ _ H) as (t & T1 & T2 & _ & _ & T5).
  pose proof (normalise_tc_of t tc T5) as N'. assert (p' = canonical_param t) by congruence. subst p'.
  destruct (canonical_param_accepted t T2) as (tc1 & V1 & _ & C1 & _).
  assert (tc1 = tc) by congruence. subst tc1.
  split; [exact V1|]. split.
  - intros tc'' V2. assert (tc'' = tc) by congruence. subst tc''. exact N.
  - intros q tcq Hq Ety. rewrite T1 in Ety. exact (normal_form_canonical q tcq t Hq Ety).
Qed.

Theorem normal_form_members p l cs :
  Validate p = Ok (CTuple cs) -> ty_of (CTuple cs) = Some (TTuple l) ->
  exists ps, normalise (CTuple cs) = Ok (Param (T "tuple") ps) /\
             Forall2 (fun c q => normalise c = Ok q) cs ps /\ ps = map canonical_param l.
Proof.
  intros H Ht. pose proof (normal_form_canonical _ _ _ H Ht) as N. rewrite canonical_param_tuple in N.
  exists (map canonical_param l). split; [exact N|]. split; [|reflexivity].
  rewrite normalise_tuple in N. destruct (normalise_list cs) as [ps| |] eqn:E; try discriminate.
  cbn [bind] in N. injection N as N. rewrite <- N. clear -E.
  revert ps E. induction cs as [|c cs IH]; intros ps E; cbn [normalise_list] in E.
  - injection E as <-. constructor.
  - destruct (normalise c) as [q| |] eqn:Eq; try discriminate. cbn [bind] in E.
    destruct (normalise_list cs) as [qs| |] eqn:Eqs; try discriminate. cbn [bind] in E.
    injection E as <-. constructor; [exact Eq|apply IH; reflexivity].
Qed.
