(* Referee issue I2: nil pointers.  A *Parameter inside Components / a ParameterArray may be nil (JSON
   "components":[null], "inputs":[null]) and an *Entry of an ABI may be nil (JSON [null]).  The pure model
   (Model.v) has no nil; here the same functions over NULLABLE objects, with the nil dereference explicit:

     parseABIParameterComponents on a nil Parameter pointer   reads p.Type      -> Panic
     ValidateCtx on a nil Parameter pointer                   calls the above   -> Panic
     ValidateCtx on a nil Entry pointer                       reads e.Inputs    -> Panic

   A nil member is dereferenced only when the member loop of the tuple branch reaches it: components of
   a non-tuple are never looked at, and a suffix on "tuple" or an earlier refused member returns first.
   No proofs here. *)
From Coq Require Import String.
From Coq Require Import List NArith Bool Arith.
From Coq Require Import Init.Byte.
From FFS Require Import Base.Res Base.Bytes Gen.AbiConsts AbiType.Syntax AbiType.Model.
Import ListNotations.

(* a Parameter pointer: nil, or a parameter object whose components are such pointers again *)
Inductive nparam := NNil | NParam (type : bytes) (comps : list nparam).

Section nparam_ind'.
  Variable P : nparam -> Prop.
  Hypothesis HNil : P NNil.
  Hypothesis HParam : forall t comps, Forall P comps -> P (NParam t comps).
  Fixpoint nparam_ind' (p : nparam) : P p :=
    match p with
    | NNil => HNil
    | NParam t comps => HParam t comps ((fix go (l : list nparam) : Forall P l :=
        match l with [] => Forall_nil P | x :: r => Forall_cons x (nparam_ind' x) (go r) end) comps)
    end.
End nparam_ind'.

(* Parameter.parseABIParameterComponents with a nullable receiver and nullable members *)
Fixpoint parseN (p : nparam) : res tcomp :=
  match p with
  | NNil => Panic                                                    (* abiTypeString := p.Type *)
  | NParam abiTypeString components =>
    let etStr := take_lower abiTypeString in
    let '(suffix, arrays) := splitElementaryTypeSuffix abiTypeString (length etStr) in
    do tc <- (if bytes_eqb etStr (ascii_bytes tuple_type_string) then
                if negb (is_nil suffix) then Err EUnsupportedSuffix else
                do children <- (fix go (l : list nparam) : res (list tcomp) :=
                                  match l with
                                  | [] => Ok []
                                  | c :: r => do x <- parseN c; do xs <- go r; Ok (x :: xs)
                                  end) components;
                Ok (CTuple children)
              else
                match lookup_et etStr with
                | None => Err EUnsupportedType
                | Some et => parse_elementary et suffix
                end);
    if negb (is_nil arrays) then parseArrays (S (length arrays)) tc arrays else Ok tc
  end.

Definition ValidateN (p : nparam) : res tcomp := parseN p.

(* Entry.Validate / ABI.Validate over nullable parameters and nullable entries *)
Inductive nentry := NEntry (inputs outputs : list nparam).

Fixpoint validate_paramsN (l : list nparam) : res unit :=
  match l with
  | [] => Ok tt
  | p :: r => do _ <- ValidateN p; validate_paramsN r
  end.
Definition EntryValidateN (e : option nentry) : res unit :=
  match e with
  | None => Panic                                                    (* range e.Inputs *)
  | Some (NEntry i o) => do _ <- validate_paramsN i; validate_paramsN o
  end.
Fixpoint ABIValidateN (a : list (option nentry)) : res unit :=
  match a with
  | [] => Ok tt
  | e :: r => do _ <- EntryValidateN e; ABIValidateN r
  end.

(* the objects without nil are exactly the images of the pure syntax *)
Fixpoint embed (p : param) : nparam :=
  match p with
  | Param t comps => NParam t ((fix go (l : list param) : list nparam :=
                                  match l with [] => [] | c :: r => embed c :: go r end) comps)
  end.
Definition embed_entry (e : entry) : option nentry :=
  match e with Entry i o => Some (NEntry (map embed i) (map embed o)) end.

Fixpoint nil_free (p : nparam) : bool :=
  match p with
  | NNil => false
  | NParam _ comps => (fix go (l : list nparam) : bool :=
                         match l with [] => true | c :: r => nil_free c && go r end) comps
  end.
Definition nil_free_entry (e : option nentry) : bool :=
  match e with
  | None => false
  | Some (NEntry i o) => forallb nil_free i && forallb nil_free o
  end.
