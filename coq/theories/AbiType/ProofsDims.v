(* The array dimension as an exact characterisation: for ANY element text [s] that is accepted, and ANY
   bytes [body] put between a trailing '[' and ']', the extended text is accepted exactly when [body] is
   empty (dynamic array) or the canonical decimal numeral of some k < 2^32 (fixed array of length k), and
   the tree is then the element's tree wrapped once.  In particular the 32-bit limit is sharp at every
   element type, and a text whose element part is refused is refused whatever the dimension. *)
From Coq Require Import String.
From Coq Require Import List NArith Bool Arith Lia.
From Coq Require Import Init.Byte.
From FFS Require Import Base.Res Base.Bytes Abi.Types Gen.AbiConsts
  AbiType.Syntax AbiType.Spec AbiType.Model AbiType.Abs
  AbiType.ProofsDec AbiType.ProofsArr AbiType.ProofsElem AbiType.ProofsLeaf AbiType.ProofsMain.
Import ListNotations.

(* ---------- text splitting is insensitive to an appended "[..." ---------- *)
Lemma take_lower_snoc s c r : is_lower c = false -> take_lower (s ++ c :: r) = take_lower s.
Proof.
  intros Hc. induction s as [|b s IH]; cbn [app take_lower]; [rewrite Hc; reflexivity|].
  destruct (is_lower b); [rewrite IH; reflexivity|reflexivity].
Qed.

Lemma until_snoc c a r : until c (a ++ c :: r) = until c a.
Proof.
  induction a as [|b a IH]; cbn [app until]; [rewrite byte_eqb_refl; reflexivity|].
  destruct (byte_eqb b c); [reflexivity|rewrite IH; reflexivity].
Qed.

Lemma until_length c a : (length (until c a) <= length a)%nat.
Proof.
  induction a as [|b a IH]; cbn [until length]; [lia|].
  destruct (byte_eqb b c); cbn [length]; lia.
Qed.

Lemma skipn_app_le {A} n (a b : list A) : (n <= length a)%nat -> skipn n (a ++ b) = skipn n a ++ b.
Proof.
  intros H. rewrite skipn_app. replace (n - length a)%nat with O by lia. reflexivity.
Qed.

Lemma take_lower_length s : (length (take_lower s) <= length s)%nat.
Proof.
  induction s as [|b s IH]; cbn [take_lower length]; [lia|].
  destruct (is_lower b); cbn [length]; lia.
Qed.

Lemma split_snoc s r :
  let n := length (take_lower s) in
  splitElementaryTypeSuffix (s ++ ch_lbrack :: r) n =
  (fst (splitElementaryTypeSuffix s n), snd (splitElementaryTypeSuffix s n) ++ ch_lbrack :: r).
Proof.
  cbv zeta. unfold splitElementaryTypeSuffix. cbn [fst snd].
  rewrite skipn_app_le by apply take_lower_length.
  rewrite until_snoc. rewrite skipn_app_le by apply until_length. reflexivity.
Qed.

(* ---------- the last dimension of a rendered dimension list ---------- *)
Lemma split_at_first c (a b x y : bytes) :
  no_byte c a -> no_byte c b -> a ++ c :: x = b ++ c :: y -> a = b /\ x = y.
Proof.
  intros Ha Hb E. assert (a = b).
  { rewrite <- (until_stop c a x Ha), <- (until_stop c b y Hb), E. reflexivity. }
  subst b. apply app_inv_head in E. injection E as E. auto.
Qed.

Lemma render_dims_snoc_inv ds' : forall x body, no_byte ch_rbrack body ->
  render_dims ds' = x ++ ch_lbrack :: body ++ [ch_rbrack] ->
  exists ds d0, ds' = ds ++ [d0] /\ x = render_dims ds /\ body = dim_body d0.
Proof.
  induction ds' as [|d' r IH]; intros x body Hb E.
  - cbn in E. destruct x; discriminate.
  - rewrite render_dims_cons in E. destruct x as [|c x'].
    + cbn [app] in E. injection E as E.
      change (body ++ [ch_rbrack]) with (body ++ ch_rbrack :: []) in E.
      apply split_at_first in E; [|apply dim_body_no_rbrack|exact Hb]. destruct E as [E1 E2].
      apply render_dims_nil_iff in E2. subst r.
      exists [], d'. split; [reflexivity|]. split; [reflexivity|]. symmetry. exact E1.
    + cbn [app] in E. injection E as Ec E. subst c.
      destruct (until_decomp ch_rbrack x') as (rest0 & Ex & Hn & Hr).
      set (a := until ch_rbrack x') in *. clearbody a. subst x'. destruct Hr as [->|(rest & ->)].
      * (* x' holds no ']' : then "[" would sit inside the body of the first dimension *)
        exfalso. rewrite app_nil_r in *. rename a into x'.
        replace (x' ++ ch_lbrack :: body ++ [ch_rbrack]) with ((x' ++ ch_lbrack :: body) ++ ch_rbrack :: []) in E
          by (rewrite <- app_assoc; reflexivity).
        apply split_at_first in E; [|apply dim_body_no_rbrack|].
        2:{ apply Forall_app. split; [exact Hn|]. constructor; [reflexivity|exact Hb]. }
        destruct E as [E _]. pose proof (dim_body_no_lbrack d') as L. rewrite E in L.
        apply Forall_app in L. destruct L as [_ L]. inversion L as [|? ? L1 _]; subst.
        rewrite byte_eqb_refl in L1. discriminate.
      * rewrite <- app_assoc in E. cbn [app] in E.
        apply split_at_first in E; [|apply dim_body_no_rbrack|exact Hn]. destruct E as [E1 E2].
        destruct (IH rest body Hb E2) as (ds & d0 & -> & -> & ->).
        exists (d' :: ds), d0. split; [reflexivity|]. split; [|reflexivity].
        rewrite render_dims_cons, E1. reflexivity.
Qed.

Lemma wrap_tc_snoc tc ds d : wrap_tc tc (ds ++ [d]) = wrap1_tc (wrap_tc tc ds) d.
Proof. unfold wrap_tc. rewrite fold_left_app. reflexivity. Qed.

(* ---------- the theorems ---------- *)

(* a text ending in "[" body "]" (body without ']') is accepted only if the text before it is accepted,
   and then body is empty or a canonical numeral below 2^32 *)
Theorem dimension_inv s comps body tc' :
  no_byte ch_rbrack body ->
  Validate (Param (s ++ ch_lbrack :: body ++ [ch_rbrack]) comps) = Ok tc' ->
  exists tc d0, Validate (Param s comps) = Ok tc /\ dim_ok d0 = true /\ body = dim_body d0 /\
                tc' = wrap1_tc tc d0.
Proof.
  intros Hb H. unfold Validate in *. rewrite parse_unfold in H. cbv zeta in H.
  rewrite take_lower_snoc in H by exact lbrack_not_lower.
  pose proof (split_snoc s (body ++ [ch_rbrack])) as SS. cbv zeta in SS. rewrite SS in H. clear SS.
  cbn [fst snd] in H. rewrite parse_unfold. cbv zeta.
  set (sa := splitElementaryTypeSuffix s (length (take_lower s))) in *.
  destruct (parse_base (take_lower s) (fst sa) comps) as [tc0| |] eqn:HB; try discriminate.
  cbn [bind] in *.
  replace (is_nil (snd sa ++ ch_lbrack :: body ++ [ch_rbrack])) with false in H
    by (destruct (snd sa); reflexivity).
  cbn [negb] in H. apply parseArrays_sound in H. destruct H as (ds' & _ & Er & Hok & ->).
  symmetry in Er. apply render_dims_snoc_inv in Er; [|exact Hb].
  destruct Er as (ds & d0 & -> & Es & ->).
  rewrite forallb_app in Hok. apply andb_prop in Hok. destruct Hok as [Hds Hd0].
  cbn [forallb] in Hd0. rewrite andb_true_r in Hd0.
  exists (wrap_tc tc0 ds), d0. split; [|split; [exact Hd0|split; [reflexivity|apply wrap_tc_snoc]]].
  rewrite Es. destruct ds as [|d ds]; [reflexivity|].
  replace (is_nil (render_dims (d :: ds))) with false by (rewrite render_dims_cons; reflexivity).
  cbn [negb]. apply parseArrays_complete; [discriminate|exact Hds|lia].
Qed.

(* conversely one more well-formed dimension is always accepted, and wraps the tree once *)
Theorem dimension_intro s comps tc d0 :
  Validate (Param s comps) = Ok tc -> dim_ok d0 = true ->
  Validate (Param (s ++ render_dim d0) comps) = Ok (wrap1_tc tc d0).
Proof.
  intros H Hd. apply accept_iff_grammar in H. destruct H as (t & V & S & T1 & T5).
  apply accept_iff_grammar. exists (wrap_ty t [d0]). split; [|split; [|split]].
  - rewrite valid_wrap, V. cbn [forallb]. rewrite Hd. reflexivity.
  - apply spelling_wrap. exists s. split; [exact S|]. unfold render_dims. cbn [flat_map].
    rewrite app_nil_r. reflexivity.
  - exact (ty_of_wrap [d0] tc t T1).
  - exact (tc_of_wrap [d0] t tc T5).
Qed.

Lemma dim_body_cases d body : body = dim_body d -> dim_ok d = true ->
  forall tc tc', tc' = wrap1_tc tc d ->
  (body = [] /\ tc' = CDynArr tc) \/ (exists k, (k < 2 ^ 32)%N /\ body = dec k /\ tc' = CFixedArr tc k).
Proof.
  intros -> Hd tc tc' ->. destruct d as [k|]; [right|left; split; reflexivity].
  exists k. cbn [dim_ok] in Hd. apply N.ltb_lt in Hd. auto.
Qed.

Theorem dimension_exact s comps tc body tc' :
  Validate (Param s comps) = Ok tc -> no_byte ch_rbrack body ->
  (Validate (Param (s ++ ch_lbrack :: body ++ [ch_rbrack]) comps) = Ok tc' <->
   (body = [] /\ tc' = CDynArr tc) \/
   (exists k, (k < 2 ^ 32)%N /\ body = dec k /\ tc' = CFixedArr tc k)).
Proof.
  intros H0 Hb. split.
  - intros H. destruct (dimension_inv _ _ _ _ Hb H) as (tc1 & d0 & V & Hd & Eb & Et).
    assert (tc1 = tc) by congruence. subst tc1. exact (dim_body_cases d0 body Eb Hd tc tc' Et).
  - intros [[-> ->]|(k & Hk & -> & ->)].
    + exact (dimension_intro s comps tc None H0 eq_refl).
    + apply (dimension_intro s comps tc (Some k) H0). cbn [dim_ok]. apply N.ltb_lt. exact Hk.
Qed.

Lemma dec_inj k k' : dec k = dec k' -> k = k'.
Proof.
  intros E. assert (X : Spec.dec_value (dec k) = Spec.dec_value (dec k')) by congruence.
  rewrite !dec_value_dec in X. congruence.
Qed.

(* the 32-bit limit is sharp for every accepted element text: [k] is accepted iff k < 2^32, and at or
   above the limit an error is reported (not a panic) *)
Theorem dimension_limit s comps tc k :
  Validate (Param s comps) = Ok tc ->
  let p := Param (s ++ T "[" ++ dec k ++ T "]") comps in
  ((k < 2 ^ 32)%N -> Validate p = Ok (CFixedArr tc k)) /\
  ((2 ^ 32 <= k)%N -> exists e, Validate p = Err e /\ e <> EOutOfFuel).
Proof.
  intros H0. cbv zeta. change (s ++ T "[" ++ dec k ++ T "]") with (s ++ ch_lbrack :: dec k ++ [ch_rbrack]).
  split.
  - intros Hk. apply (dimension_exact s comps tc (dec k)); [exact H0|apply dec_no_byte; right; vm_compute; reflexivity|].
    right. exists k. auto.
  - intros Hk. set (p := Param (s ++ ch_lbrack :: dec k ++ [ch_rbrack]) comps).
    destruct (validate_total p) as [NP NF]. destruct (Validate p) as [tc'|e|] eqn:E; [|exists e; split; [reflexivity|congruence]|congruence].
    exfalso. apply dimension_inv in E; [|apply dec_no_byte; right; vm_compute; reflexivity].
    destruct E as (tc1 & d0 & _ & Hd & Eb & _). destruct d0 as [k'|].
    + cbn [dim_body] in Eb. apply dec_inj in Eb. subst k'. cbn [dim_ok] in Hd. apply N.ltb_lt in Hd. lia.
    + cbn [dim_body] in Eb. exact (dec_nonnil k Eb).
Qed.

(* a dimension never rescues a refused element text *)
Theorem dimension_needs_element s comps body tc' :
  no_byte ch_rbrack body ->
  Validate (Param (s ++ ch_lbrack :: body ++ [ch_rbrack]) comps) = Ok tc' ->
  exists tc, Validate (Param s comps) = Ok tc.
Proof. intros Hb H. destruct (dimension_inv _ _ _ _ Hb H) as (tc & _ & V & _). eauto. Qed.
