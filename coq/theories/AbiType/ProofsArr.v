(* Text-splitting helpers and the array-dimension part of the parser (parseArrays / parseArrayM). *)
From Coq Require Import String.
From Coq Require Import List NArith Bool Arith Lia.
From Coq Require Import Init.Byte.
From FFS Require Import Base.Res Base.Bytes Abi.Types Gen.AbiConsts
  AbiType.Syntax AbiType.Spec AbiType.Model AbiType.Abs AbiType.ProofsDec.
Import ListNotations.

(* ---------- bytes ---------- *)
Definition no_byte (c : byte) (s : bytes) : Prop := Forall (fun b => byte_eqb b c = false) s.

Lemma byte_eqb_refl c : byte_eqb c c = true.
Proof. destruct (byte_eqb_spec c c); congruence. Qed.

Lemma until_stop c s r : no_byte c s -> until c (s ++ c :: r) = s.
Proof.
  induction 1 as [|b s Hb Hs IH]; simpl.
  - rewrite byte_eqb_refl. reflexivity.
  - rewrite Hb, IH. reflexivity.
Qed.

Lemma until_all c s : no_byte c s -> until c s = s.
Proof. induction 1 as [|b s Hb Hs IH]; simpl; [reflexivity|]. rewrite Hb, IH. reflexivity. Qed.

Lemma until_decomp c s :
  exists rest, s = until c s ++ rest /\ no_byte c (until c s) /\ (rest = [] \/ exists r, rest = c :: r).
Proof.
  induction s as [|b s IH]; simpl.
  - exists []. repeat split; [constructor|left; reflexivity].
  - destruct (byte_eqb_spec b c) as [->|N].
    + exists (c :: s). repeat split; [constructor|right; eauto].
    + destruct IH as (rest & E & Hn & Hr). exists rest. split; [simpl; congruence|].
      split; [|exact Hr]. constructor; [|exact Hn].
      destruct (byte_eqb_spec b c); congruence.
Qed.

Lemma digit_not c b : is_digit b = true -> (b2n c < 48 \/ 57 < b2n c)%N -> byte_eqb b c = false.
Proof.
  unfold is_digit, byte_eqb. intros H Hc. apply andb_prop in H. destruct H as [H1 H2].
  apply N.leb_le in H1, H2. apply N.eqb_neq. lia.
Qed.

Lemma digits_no_byte c s : Forall (fun b => is_digit b = true) s -> (b2n c < 48 \/ 57 < b2n c)%N -> no_byte c s.
Proof. intros H Hc. eapply Forall_impl; [|exact H]. intros b Hb. apply digit_not; assumption. Qed.

Lemma dec_no_byte c n : (b2n c < 48 \/ 57 < b2n c)%N -> no_byte c (dec n).
Proof. apply digits_no_byte. apply dec_digits. Qed.

Lemma digit_not_lower b : is_digit b = true -> is_lower b = false.
Proof.
  unfold is_digit, is_lower. intros H. apply andb_prop in H. destruct H as [H1 H2].
  apply N.leb_le in H1, H2. apply andb_false_iff. left. apply N.leb_gt. lia.
Qed.

Lemma skipn_app_exact {A} (a b : list A) n : n = length a -> skipn n (a ++ b) = b.
Proof. intros ->. apply skipn_prefix. Qed.

(* ---------- dimensions ---------- *)
Definition dim := option N.
Definition dim_body (d : dim) : bytes := match d with Some k => dec k | None => [] end.
Definition render_dim (d : dim) : bytes := ch_lbrack :: dim_body d ++ [ch_rbrack].
Definition render_dims (ds : list dim) : bytes := flat_map render_dim ds.
Definition dim_ok (d : dim) : bool := match d with Some k => (k <? 2 ^ 32)%N | None => true end.

Definition wrap1_tc (tc : tcomp) (d : dim) : tcomp :=
  match d with Some k => CFixedArr tc k | None => CDynArr tc end.
Definition wrap_tc (tc : tcomp) (ds : list dim) : tcomp := fold_left wrap1_tc ds tc.
Definition wrap1_ty (t : ty) (d : dim) : ty :=
  match d with Some k => TFixedArr t k | None => TDynArr t end.
Definition wrap_ty (t : ty) (ds : list dim) : ty := fold_left wrap1_ty ds t.

Lemma dim_body_no_rbrack d : no_byte ch_rbrack (dim_body d).
Proof. destruct d; [apply dec_no_byte; right; vm_compute; reflexivity|constructor]. Qed.
Lemma dim_body_no_lbrack d : no_byte ch_lbrack (dim_body d).
Proof. destruct d; [apply dec_no_byte; right; vm_compute; reflexivity|constructor]. Qed.

Lemma render_dims_cons d ds : render_dims (d :: ds) = ch_lbrack :: dim_body d ++ ch_rbrack :: render_dims ds.
Proof. unfold render_dims. simpl. unfold render_dim. simpl. rewrite <- app_assoc. reflexivity. Qed.

Lemma render_dims_nil_iff ds : render_dims ds = [] <-> ds = [].
Proof. split; [|intros ->; reflexivity]. destruct ds; [reflexivity|]. rewrite render_dims_cons. discriminate. Qed.

Lemma render_dims_app a b : render_dims (a ++ b) = render_dims a ++ render_dims b.
Proof. unfold render_dims. apply flat_map_app. Qed.

(* ---------- parseArrayM ---------- *)
Lemma parseArrayM_cases s :
  (exists k, s = dec k /\ (k < 2 ^ 32)%N /\ parseArrayM s = Ok k) \/
  ((forall k, (k < 2 ^ 32)%N -> s <> dec k) /\ parseArrayM s = Err EInvalidArray).
Proof.
  destruct (canon_uint s parse_array_bits) as [k|] eqn:E.
  - left. exists k. pose proof E as E'. apply canon_uint_iff in E'. destruct E' as [-> Hk].
    split; [reflexivity|]. split; [exact Hk|].
    unfold canon_uint in E. unfold parseArrayM.
    destruct (parse_uint (dec k) parse_array_bits) as [v|]; [|discriminate].
    rewrite isCanonicalDecimal_ok in *. cbn [bind].
    destruct (bytes_eqb (dec v) (dec k)); [|discriminate]. injection E as ->. reflexivity.
  - right. split.
    + intros k Hk ->. assert (X : canon_uint (dec k) parse_array_bits = Some k) by (apply canon_uint_iff; split; [reflexivity|exact Hk]).
      congruence.
    + unfold canon_uint in E. unfold parseArrayM.
      destruct (parse_uint s parse_array_bits) as [v|]; [|reflexivity].
      rewrite isCanonicalDecimal_ok in *. cbn [bind].
      destruct (bytes_eqb (dec v) s); [discriminate|reflexivity].
Qed.

(* one dimension: what parseArrays makes of the text between the brackets *)
Definition dim_result (body : bytes) (child : tcomp) : res tcomp :=
  if is_nil body then Ok (CDynArr child) else do k <- parseArrayM body; Ok (CFixedArr child k).

Lemma dim_result_cases body child :
  (exists d, body = dim_body d /\ dim_ok d = true /\ dim_result body child = Ok (wrap1_tc child d)) \/
  ((forall d, dim_ok d = true -> body <> dim_body d) /\ dim_result body child = Err EInvalidArray).
Proof.
  unfold dim_result. destruct body as [|b body].
  - left. exists None. repeat split.
  - cbn [is_nil]. destruct (parseArrayM_cases (b :: body)) as [(k & E & Hk & P)|[Hno P]].
    + left. exists (Some k). rewrite P. repeat split; [exact E|]. apply N.ltb_lt. exact Hk.
    + right. rewrite P. split; [|reflexivity]. intros [k|] Hd; [|discriminate].
      apply Hno. apply N.ltb_lt. exact Hd.
Qed.

(* ---------- parseArrays: one step ---------- *)
Lemma parseArrays_step f child body rest : no_byte ch_rbrack body ->
  parseArrays (S f) child (ch_lbrack :: body ++ ch_rbrack :: rest) =
  do ac <- dim_result body child; if is_nil rest then Ok ac else parseArrays f ac rest.
Proof.
  intros Hb. cbn [parseArrays]. rewrite byte_eqb_refl. cbn [negb].
  rewrite until_stop by exact Hb.
  assert (L : length (ch_lbrack :: body ++ ch_rbrack :: rest) = S (S (length body + length rest))).
  { simpl. rewrite app_length. simpl. lia. }
  rewrite L.
  replace (S (S (length body + length rest)) <=? S (length body))%nat with false
    by (symmetry; apply Nat.leb_gt; lia).
  unfold dim_result. destruct (is_nil body) eqn:En.
  - cbn [bind]. destruct rest as [|r0 rest].
    + replace (S (S (length body)) <? S (S (length body + length (@nil byte))))%nat with false
        by (symmetry; apply Nat.ltb_ge; simpl; lia). reflexivity.
    + replace (S (S (length body)) <? S (S (length body + length (r0 :: rest))))%nat with true
        by (symmetry; apply Nat.ltb_lt; simpl; lia).
      unfold slice_from. rewrite L.
      replace (S (S (length body)) <=? S (S (length body + length (r0 :: rest))))%nat with true
        by (symmetry; apply Nat.leb_le; lia).
      cbn [bind is_nil]. f_equal.
      change (skipn (S (length body)) (body ++ ch_rbrack :: r0 :: rest) = r0 :: rest).
      replace (body ++ ch_rbrack :: r0 :: rest) with ((body ++ [ch_rbrack]) ++ r0 :: rest)
        by (rewrite <- app_assoc; reflexivity).
      apply skipn_app_exact. rewrite app_length. simpl. lia.
  - destruct (parseArrayM body) as [k| |]; cbn [bind]; try reflexivity.
    destruct rest as [|r0 rest].
    + replace (S (S (length body)) <? S (S (length body + length (@nil byte))))%nat with false
        by (symmetry; apply Nat.ltb_ge; simpl; lia). reflexivity.
    + replace (S (S (length body)) <? S (S (length body + length (r0 :: rest))))%nat with true
        by (symmetry; apply Nat.ltb_lt; simpl; lia).
      unfold slice_from. rewrite L.
      replace (S (S (length body)) <=? S (S (length body + length (r0 :: rest))))%nat with true
        by (symmetry; apply Nat.leb_le; lia).
      cbn [bind is_nil]. f_equal.
      change (skipn (S (length body)) (body ++ ch_rbrack :: r0 :: rest) = r0 :: rest).
      replace (body ++ ch_rbrack :: r0 :: rest) with ((body ++ [ch_rbrack]) ++ r0 :: rest)
        by (rewrite <- app_assoc; reflexivity).
      apply skipn_app_exact. rewrite app_length. simpl. lia.
Qed.

(* either the text has the shape "[" body "]" rest, or the call fails *)
Lemma parseArrays_shape f child suffix :
  (exists body rest, suffix = ch_lbrack :: body ++ ch_rbrack :: rest /\ no_byte ch_rbrack body) \/
  parseArrays (S f) child suffix = Err EInvalidArray.
Proof.
  destruct suffix as [|c r]; [right; reflexivity|].
  destruct (byte_eqb_spec c ch_lbrack) as [->|N].
  - destruct (until_decomp ch_rbrack r) as (rest0 & E & Hn & [->|(rest & ->)]).
    + right. cbn [parseArrays]. rewrite byte_eqb_refl. cbn [negb].
      rewrite app_nil_r in E.
      replace (length (ch_lbrack :: r) <=? S (length (until ch_rbrack r)))%nat with true; [reflexivity|].
      symmetry. apply Nat.leb_le. rewrite <- E. simpl. lia.
    + left. exists (until ch_rbrack r), rest. split; [congruence|exact Hn].
  - right. cbn [parseArrays]. destruct (byte_eqb_spec c ch_lbrack); [congruence|]. reflexivity.
Qed.

(* ---------- parseArrays: characterisation ---------- *)
Lemma parseArrays_complete ds : forall child f, ds <> [] -> forallb dim_ok ds = true ->
  (length (render_dims ds) <= f)%nat ->
  parseArrays (S f) child (render_dims ds) = Ok (wrap_tc child ds).
Proof.
  induction ds as [|d ds IH]; intros child f Hne Hok Hf; [congruence|].
  rewrite render_dims_cons in *. rewrite parseArrays_step by apply dim_body_no_rbrack.
  cbn [forallb] in Hok. apply andb_prop in Hok. destruct Hok as [Hd Hds].
  destruct (dim_result_cases (dim_body d) child) as [(d' & E & Hd' & R)|[Hno _]].
  2:{ exfalso. apply (Hno d Hd). reflexivity. }
  assert (d' = d).
  { destruct d as [k|], d' as [k'|]; simpl in E; try reflexivity.
    - f_equal. assert (X : Spec.dec_value (dec k) = Spec.dec_value (dec k')) by congruence.
      rewrite !dec_value_dec in X. congruence.
    - exfalso. apply (dec_nonnil k). exact E.
    - exfalso. apply (dec_nonnil k'). symmetry. exact E. }
  subst d'. rewrite R. cbn [bind].
  destruct ds as [|d2 ds].
  - reflexivity.
  - replace (is_nil (render_dims (d2 :: ds))) with false by (rewrite render_dims_cons; reflexivity).
    destruct f as [|f]; [cbn [length] in Hf; lia|].
    change (wrap_tc child (d :: d2 :: ds)) with (wrap_tc (wrap1_tc child d) (d2 :: ds)).
    apply IH; [discriminate|exact Hds|].
    cbn [length] in Hf. rewrite app_length in Hf. cbn [length] in Hf. lia.
Qed.

Lemma parseArrays_sound f : forall child suffix tc,
  parseArrays f child suffix = Ok tc ->
  exists ds, ds <> [] /\ suffix = render_dims ds /\ forallb dim_ok ds = true /\ tc = wrap_tc child ds.
Proof.
  induction f as [|f IH]; intros child suffix tc H; [discriminate|].
  destruct (parseArrays_shape f child suffix) as [(body & rest & -> & Hb)|E]; [|congruence].
  rewrite parseArrays_step in H by exact Hb.
  destruct (dim_result_cases body child) as [(d & -> & Hd & R)|[_ R]]; rewrite R in H; [|discriminate].
  cbn [bind] in H. destruct rest as [|r0 rest].
  - cbn [is_nil] in H. injection H as <-. exists [d]. split; [discriminate|].
    split; [rewrite render_dims_cons; reflexivity|]. split; [simpl; rewrite Hd; reflexivity|reflexivity].
  - cbn [is_nil] in H. apply IH in H. destruct H as (ds & Hne & Er & Hok & ->).
    exists (d :: ds). split; [discriminate|]. split; [rewrite render_dims_cons, Er; reflexivity|].
    split; [simpl; rewrite Hd; exact Hok|reflexivity].
Qed.

(* never a panic, never out of fuel *)
Lemma parseArrays_total f : forall child suffix, (length suffix <= f)%nat ->
  parseArrays (S f) child suffix <> Panic /\ parseArrays (S f) child suffix <> Err EOutOfFuel.
Proof.
  induction f as [|f IH]; intros child suffix Hf.
  - destruct suffix; [|simpl in Hf; lia]. split; discriminate.
  - destruct (parseArrays_shape (S f) child suffix) as [(body & rest & -> & Hb)|E];
      [|rewrite E; split; discriminate].
    rewrite parseArrays_step by exact Hb.
    destruct (dim_result_cases body child) as [(d & _ & _ & R)|[_ R]]; rewrite R; [|split; discriminate].
    cbn [bind]. destruct rest as [|r0 rest]; [split; discriminate|].
    cbn [is_nil]. apply IH. cbn [length] in Hf. rewrite app_length in Hf. cbn [length] in *. lia.
Qed.
