(* The suffix parsers (parseMSuffix / parseNSuffix / parseMxNSuffix) and the elementary branch of
   parseABIParameterComponents, characterised against the leaf types of the grammar. *)
From Coq Require Import String.
From Coq Require Import List NArith Bool Arith Lia.
From Coq Require Import Init.Byte.
From FFS Require Import Base.Res Base.Bytes Abi.Types Gen.AbiConsts
  AbiType.Syntax AbiType.Spec AbiType.Model AbiType.Abs AbiType.ProofsDec AbiType.ProofsArr.
Import ListNotations.
Local Open Scope N_scope.

(* ---------- ParseUint + canonical test, as one step ---------- *)
Lemma canon_step {A} s bits e (k : N -> res A) :
  match parse_uint s bits with
  | None => Err e
  | Some v => do canon <- isCanonicalDecimal v s; if negb canon then Err e else k v
  end = match canon_uint s bits with Some v => k v | None => Err e end.
Proof.
  unfold canon_uint. destruct (parse_uint s bits) as [v|]; [|reflexivity].
  rewrite isCanonicalDecimal_ok. cbn [bind]. destruct (bytes_eqb (dec v) s); reflexivity.
Qed.

Definition m_ok (et : elem_info) (m : N) : bool :=
  negb ((m <? et_mMin et) || (et_mMax et <? m)) &&
  negb (negb (et_mMod et =? 0) && negb (m mod et_mMod et =? 0)).
Definition n_ok (et : elem_info) (n : N) : bool :=
  negb ((n <? et_nMin et) || (et_nMax et <? n)).

Lemma m_ok_iff et m : m_ok et m = true <->
  et_mMin et <= m /\ m <= et_mMax et /\ (et_mMod et = 0 \/ m mod et_mMod et = 0).
Proof.
  unfold m_ok. rewrite andb_true_iff, !negb_true_iff, orb_false_iff, andb_false_iff,
    !negb_false_iff, !N.ltb_ge, !N.eqb_eq. tauto.
Qed.
Lemma n_ok_iff et n : n_ok et n = true <-> et_nMin et <= n /\ n <= et_nMax et.
Proof. unfold n_ok. rewrite negb_true_iff, orb_false_iff, !N.ltb_ge. tauto. Qed.

Lemma bits16 : 2 ^ parse_m_bits = 65536 /\ 2 ^ parse_n_bits = 65536.
Proof. split; reflexivity. Qed.

Lemma parseMSuffix_eq et sfx :
  parseMSuffix et sfx = match canon_uint sfx parse_m_bits with
                        | Some m => if m_ok et m then Ok m else Err EInvalidSuffix
                        | None => Err EInvalidSuffix
                        end.
Proof.
  unfold parseMSuffix. rewrite canon_step.
  destruct (canon_uint sfx parse_m_bits) as [v|] eqn:E; [|reflexivity].
  apply canon_uint_iff in E. destruct E as [_ Hv]. destruct bits16 as [B _]. rewrite B in Hv.
  cbv zeta. rewrite N.mod_small by exact Hv. unfold m_ok.
  destruct ((v <? et_mMin et) || (et_mMax et <? v)); [reflexivity|].
  destruct (negb (et_mMod et =? 0) && negb (v mod et_mMod et =? 0)); reflexivity.
Qed.

Lemma parseNSuffix_eq et sfx :
  parseNSuffix et sfx = match canon_uint sfx parse_n_bits with
                        | Some n => if n_ok et n then Ok n else Err EInvalidSuffix
                        | None => Err EInvalidSuffix
                        end.
Proof.
  unfold parseNSuffix. rewrite canon_step.
  destruct (canon_uint sfx parse_n_bits) as [v|] eqn:E; [|reflexivity].
  apply canon_uint_iff in E. destruct E as [_ Hv]. destruct bits16 as [_ B]. rewrite B in Hv.
  cbv zeta. rewrite N.mod_small by exact Hv. unfold n_ok.
  destruct ((v <? et_nMin et) || (et_nMax et <? v)); reflexivity.
Qed.

Lemma parseMSuffix_iff et sfx m :
  parseMSuffix et sfx = Ok m <-> sfx = dec m /\ m < 65536 /\ m_ok et m = true.
Proof.
  rewrite parseMSuffix_eq. split.
  - destruct (canon_uint sfx parse_m_bits) as [v|] eqn:E; [|discriminate].
    destruct (m_ok et v) eqn:O; [|discriminate]. intros H; injection H as <-.
    apply canon_uint_iff in E. destruct E as [-> Hv]. auto.
  - intros (-> & Hm & O).
    assert (E : canon_uint (dec m) parse_m_bits = Some m) by (apply canon_uint_iff; auto).
    rewrite E, O. reflexivity.
Qed.

Lemma parseNSuffix_iff et sfx n :
  parseNSuffix et sfx = Ok n <-> sfx = dec n /\ n < 65536 /\ n_ok et n = true.
Proof.
  rewrite parseNSuffix_eq. split.
  - destruct (canon_uint sfx parse_n_bits) as [v|] eqn:E; [|discriminate].
    destruct (n_ok et v) eqn:O; [|discriminate]. intros H; injection H as <-.
    apply canon_uint_iff in E. destruct E as [-> Hv]. auto.
  - intros (-> & Hm & O).
    assert (E : canon_uint (dec n) parse_n_bits = Some n) by (apply canon_uint_iff; auto).
    rewrite E, O. reflexivity.
Qed.

Lemma parseMSuffix_total et sfx : (exists m, parseMSuffix et sfx = Ok m) \/ parseMSuffix et sfx = Err EInvalidSuffix.
Proof.
  rewrite parseMSuffix_eq. destruct (canon_uint sfx parse_m_bits) as [v|]; [|right; reflexivity].
  destruct (m_ok et v); [left; eauto|right; reflexivity].
Qed.
Lemma parseNSuffix_total et sfx : (exists n, parseNSuffix et sfx = Ok n) \/ parseNSuffix et sfx = Err EInvalidSuffix.
Proof.
  rewrite parseNSuffix_eq. destruct (canon_uint sfx parse_n_bits) as [v|]; [|right; reflexivity].
  destruct (n_ok et v); [left; eauto|right; reflexivity].
Qed.

(* ---------- parseMxNSuffix ---------- *)
Definition mxn (m n : N) : bytes := dec m ++ ch_x :: dec n.

Lemma ch_x_not_digit : (b2n ch_x < 48 \/ 57 < b2n ch_x).
Proof. right. vm_compute. reflexivity. Qed.

Lemma parseMxNSuffix_total et sfx :
  (exists mn, parseMxNSuffix et sfx = Ok mn) \/ parseMxNSuffix et sfx = Err EInvalidSuffix.
Proof.
  unfold parseMxNSuffix.
  destruct (length sfx <=? length (until ch_x sfx) + 1)%nat eqn:L; [right; reflexivity|].
  destruct (parseMSuffix_total et (until ch_x sfx)) as [(m & ->)| ->]; [|right; reflexivity].
  cbn [bind]. unfold slice_from. apply Nat.leb_gt in L.
  replace (length (until ch_x sfx) + 1 <=? length sfx)%nat with true by (symmetry; apply Nat.leb_le; lia).
  cbn [bind].
  destruct (parseNSuffix_total et (skipn (length (until ch_x sfx) + 1) sfx)) as [(n & ->)| ->];
    [left; eexists; reflexivity|right; reflexivity].
Qed.

Lemma parseMxNSuffix_iff et sfx m n :
  parseMxNSuffix et sfx = Ok (m, n) <->
  sfx = mxn m n /\ m < 65536 /\ m_ok et m = true /\ n < 65536 /\ n_ok et n = true.
Proof.
  unfold parseMxNSuffix. split.
  - destruct (length sfx <=? length (until ch_x sfx) + 1)%nat eqn:L; [discriminate|].
    apply Nat.leb_gt in L.
    destruct (parseMSuffix et (until ch_x sfx)) as [m'| |] eqn:EM; try discriminate.
    cbn [bind]. unfold slice_from.
    replace (length (until ch_x sfx) + 1 <=? length sfx)%nat with true by (symmetry; apply Nat.leb_le; lia).
    cbn [bind].
    destruct (parseNSuffix et (skipn (length (until ch_x sfx) + 1) sfx)) as [n'| |] eqn:EN; try discriminate.
    cbn [bind]. intros H; injection H as <- <-.
    apply parseMSuffix_iff in EM. destruct EM as (EM & Hm & Om).
    apply parseNSuffix_iff in EN. destruct EN as (EN & Hn & On).
    repeat split; try assumption.
    destruct (until_decomp ch_x sfx) as (rest & E & _ & [->|(r & ->)]).
    + rewrite app_nil_r in E. rewrite <- E in L. lia.
    + unfold mxn. rewrite <- EM, <- EN. rewrite E at 1. f_equal. f_equal.
      rewrite E at 2. rewrite Nat.add_1_r.
      replace (until ch_x sfx ++ ch_x :: r) with ((until ch_x sfx ++ [ch_x]) ++ r) by (rewrite <- app_assoc; reflexivity).
      symmetry. apply skipn_app_exact. rewrite app_length. simpl. lia.
  - intros (-> & Hm & Om & Hn & On). unfold mxn.
    rewrite until_stop by (apply dec_no_byte; exact ch_x_not_digit).
    replace (length (dec m ++ ch_x :: dec n) <=? length (dec m) + 1)%nat with false.
    2:{ symmetry. apply Nat.leb_gt. rewrite app_length. simpl.
        pose proof (dec_nonnil n). destruct (dec n); [congruence|]. simpl. lia. }
    assert (EM : parseMSuffix et (dec m) = Ok m) by (apply parseMSuffix_iff; auto).
    rewrite EM. cbn [bind]. unfold slice_from.
    replace (length (dec m) + 1 <=? length (dec m ++ ch_x :: dec n))%nat with true
      by (symmetry; apply Nat.leb_le; rewrite app_length; simpl; lia).
    cbn [bind].
    replace (skipn (length (dec m) + 1) (dec m ++ ch_x :: dec n)) with (dec n).
    2:{ replace (dec m ++ ch_x :: dec n) with ((dec m ++ [ch_x]) ++ dec n) by (rewrite <- app_assoc; reflexivity).
        symmetry. apply skipn_app_exact. rewrite app_length. simpl. lia. }
    assert (EN : parseNSuffix et (dec n) = Ok n) by (apply parseNSuffix_iff; auto).
    rewrite EN. reflexivity.
Qed.

(* ---------- the elementary branch, by suffix kind ---------- *)
Definition eff_suffix (et : elem_info) (sfx : bytes) : bytes :=
  if is_nil sfx then ascii_bytes (et_default_suffix et) else sfx.

Lemma is_nil_dec m : is_nil (dec m) = false.
Proof. pose proof (dec_nonnil m). destruct (dec m); [congruence|reflexivity]. Qed.
Lemma is_nil_mxn m n : is_nil (mxn m n) = false.
Proof. unfold mxn. pose proof (dec_nonnil m). destruct (dec m); [congruence|reflexivity]. Qed.
Lemma is_nil_true s : is_nil s = true -> s = [].
Proof. destruct s; [reflexivity|discriminate]. Qed.

Lemma pe_none et sfx tc : et_suffix et = SuffixNone ->
  (parse_elementary et sfx = Ok tc <-> eff_suffix et sfx = [] /\ tc = CElem et [] (et_defaultM et) 0).
Proof.
  intros K. unfold parse_elementary. rewrite K. fold (eff_suffix et sfx).
  destruct (eff_suffix et sfx) as [|c r]; cbn [is_nil negb].
  - split; [intros H; injection H as <-; auto|intros [_ ->]; reflexivity].
  - split; [discriminate|intros [H _]; discriminate].
Qed.

Lemma pe_mreq et sfx tc : et_suffix et = SuffixMRequired ->
  (parse_elementary et sfx = Ok tc <->
   exists m, eff_suffix et sfx = dec m /\ m < 65536 /\ m_ok et m = true /\ tc = CElem et (dec m) m 0).
Proof.
  intros K. unfold parse_elementary. rewrite K. fold (eff_suffix et sfx).
  destruct (is_nil (eff_suffix et sfx)) eqn:En.
  - split; [discriminate|]. intros (m & E & _). rewrite E, is_nil_dec in En. discriminate.
  - split.
    + destruct (parseMSuffix et (eff_suffix et sfx)) as [m| |] eqn:EM; try discriminate.
      cbn [bind]. intros H; injection H as <-. apply parseMSuffix_iff in EM.
      destruct EM as (E & Hm & Om). exists m. rewrite <- E. auto.
    + intros (m & E & Hm & Om & ->). rewrite E.
      assert (EM : parseMSuffix et (dec m) = Ok m) by (apply parseMSuffix_iff; auto).
      rewrite EM. reflexivity.
Qed.

Lemma pe_mopt et sfx tc : et_suffix et = SuffixMOptional ->
  (parse_elementary et sfx = Ok tc <->
   (eff_suffix et sfx = [] /\ tc = CElem et [] (et_defaultM et) 0) \/
   exists m, eff_suffix et sfx = dec m /\ m < 65536 /\ m_ok et m = true /\ tc = CElem et (dec m) m 0).
Proof.
  intros K. unfold parse_elementary. rewrite K. fold (eff_suffix et sfx).
  destruct (is_nil (eff_suffix et sfx)) eqn:En; cbn [negb].
  - apply is_nil_true in En. rewrite En. split.
    + intros H; injection H as <-. left. auto.
    + intros [[_ ->]|(m & E & _)]; [reflexivity|].
      exfalso. apply (dec_nonnil m). auto.
  - split.
    + destruct (parseMSuffix et (eff_suffix et sfx)) as [m| |] eqn:EM; try discriminate.
      cbn [bind]. intros H; injection H as <-. apply parseMSuffix_iff in EM.
      destruct EM as (E & Hm & Om). right. exists m. rewrite <- E. auto.
    + intros [[E _]|(m & E & Hm & Om & ->)]; [rewrite E in En; discriminate|]. rewrite E.
      assert (EM : parseMSuffix et (dec m) = Ok m) by (apply parseMSuffix_iff; auto).
      rewrite EM. reflexivity.
Qed.

Lemma pe_mxn et sfx tc : et_suffix et = SuffixMxNRequired ->
  (parse_elementary et sfx = Ok tc <->
   exists m n, eff_suffix et sfx = mxn m n /\ m < 65536 /\ m_ok et m = true /\ n < 65536 /\ n_ok et n = true /\
               tc = CElem et (mxn m n) m n).
Proof.
  intros K. unfold parse_elementary. rewrite K. fold (eff_suffix et sfx).
  destruct (is_nil (eff_suffix et sfx)) eqn:En.
  - split; [discriminate|]. intros (m & n & E & _). rewrite E, is_nil_mxn in En. discriminate.
  - split.
    + destruct (parseMxNSuffix et (eff_suffix et sfx)) as [[m n]| |] eqn:EM; try discriminate.
      cbn [bind fst snd]. intros H; injection H as <-. apply parseMxNSuffix_iff in EM.
      destruct EM as (E & Hm & Om & Hn & On). exists m, n. rewrite <- E. auto 10.
    + intros (m & n & E & Hm & Om & Hn & On & ->). rewrite E.
      assert (EM : parseMxNSuffix et (mxn m n) = Ok (m, n)) by (apply parseMxNSuffix_iff; auto).
      rewrite EM. reflexivity.
Qed.

Lemma parse_elementary_total et sfx :
  (exists tc, parse_elementary et sfx = Ok tc) \/ (exists e, parse_elementary et sfx = Err e /\ e <> EOutOfFuel).
Proof.
  unfold parse_elementary. fold (eff_suffix et sfx). destruct (et_suffix et).
  - destruct (negb (is_nil (eff_suffix et sfx))); [right; eexists; split; [reflexivity|discriminate]|left; eauto].
  - destruct (negb (is_nil (eff_suffix et sfx))); [|left; eauto].
    destruct (parseMSuffix_total et (eff_suffix et sfx)) as [(m & ->)| ->];
      [left; eexists; reflexivity|right; eexists; split; [reflexivity|discriminate]].
  - destruct (is_nil (eff_suffix et sfx)); [right; eexists; split; [reflexivity|discriminate]|].
    destruct (parseMSuffix_total et (eff_suffix et sfx)) as [(m & ->)| ->];
      [left; eexists; reflexivity|right; eexists; split; [reflexivity|discriminate]].
  - destruct (is_nil (eff_suffix et sfx)); [right; eexists; split; [reflexivity|discriminate]|].
    destruct (parseMxNSuffix_total et (eff_suffix et sfx)) as [(m & ->)| ->];
      [left; eexists; reflexivity|right; eexists; split; [reflexivity|discriminate]].
Qed.

(* the model's [parse_uint] reads decimal text: the three strconv.ParseUint calls must say base 10 *)
Lemma parse_bases : parse_m_base = 10 /\ parse_n_base = 10 /\ parse_array_base = 10.
Proof. repeat split; reflexivity. Qed.
