(* Referee issue I4 (second half): Entry.Validate and Entry.Signature over parameter OBJECTS (ModelCache.v:
   definition + unexported cache with arbitrary contents).  In the Go code both go through the caches:
     Entry.ValidateCtx    p.ValidateCtx for the inputs, then the outputs; returns at the first refusal, so the
                          parameters after it are NOT touched and keep whatever cache they had;
     Entry.SignatureCtx   p.SignatureStringCtx = typeComponentTreeCtx (the cache, or Validate when empty) + String.
   No proofs here. *)
From Coq Require Import String.
From Coq Require Import List NArith Bool Arith.
From Coq Require Import Init.Byte.
From FFS Require Import Base.Res Base.Bytes Gen.AbiConsts AbiType.Syntax AbiType.Model AbiType.ModelSig
  AbiType.ModelCache.
Import ListNotations.

(* for _, p := range l { if err := p.ValidateCtx(ctx); err != nil { return err } } *)
Fixpoint validate_objs (l : list pobj) : list pobj * res unit :=
  match l with
  | [] => ([], Ok tt)
  | o :: r =>
      let (o', res) := ValidateObj o in
      match res with
      | Ok _ => let (r', rr) := validate_objs r in (o' :: r', rr)
      | Err e => (o' :: r, Err e)
      | Panic => (o' :: r, Panic)
      end
  end.

Definition EntryValidateObj (i o : list pobj) : (list pobj * list pobj) * res unit :=
  let (i', ri) := validate_objs i in
  match ri with
  | Ok _ => let (o', ro) := validate_objs o in ((i', o'), ro)
  | Err e => ((i', o), Err e)
  | Panic => ((i', o), Panic)
  end.

Fixpoint signature_loop_obj (i : nat) (inputs : list pobj) (buff : bytes) : res bytes :=
  match inputs with
  | [] => Ok buff
  | p :: r =>
      let buff := if (0 <? i)%nat then buff ++ [ch_comma] else buff in
      do s <- (do tc <- snd (TreeObj p); tc_string tc);
      signature_loop_obj (S i) r (buff ++ s)
  end.
Definition EntrySignatureObj (name : bytes) (inputs : list pobj) : res bytes :=
  do buff <- signature_loop_obj 0 inputs (name ++ [ch_lparen]);
  Ok (buff ++ [ch_rparen]).

(* "the cache holds the answer for the current definition (nothing when it is refused)" *)
Definition fresh (o : pobj) : Prop :=
  o_parsed o = match Validate (erase o) with Ok tc => Some tc | _ => None end.
