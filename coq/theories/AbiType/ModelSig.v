(* Executable model of the list-level entry points of pkg/abi/abi.go that are built on the type parser:
   ParameterArray.TypeComponentTreeCtx (the inputs of an entry seen as one tuple) and Entry.SignatureCtx
   (name + "(" + the parameters' signature strings separated by "," + ")").  One definition per Go
   function, same loop structure (the signature is accumulated in a buffer, the separator is written for
   i > 0).  No proofs here. *)
From Coq Require Import String.
From Coq Require Import List NArith Bool Arith.
From Coq Require Import Init.Byte.
From FFS Require Import Base.Res Base.Bytes Gen.AbiConsts AbiType.Syntax AbiType.Model.
Import ListNotations.

(* ParameterArray.TypeComponentTreeCtx: a tuple component whose children are the parameters' own trees
   (p.typeComponentTreeCtx: the parameter's cache, i.e. the result of its last Validate), first error wins *)
Fixpoint pa_children (pa : list param) : res (list tcomp) :=
  match pa with
  | [] => Ok []
  | p :: r => do x <- Validate p; do xs <- pa_children r; Ok (x :: xs)
  end.
Definition ParameterArrayTree (pa : list param) : res tcomp :=
  do children <- pa_children pa; Ok (CTuple children).

(* Entry.SignatureCtx: buff.WriteString(e.Name); buff.WriteRune('(');
   for i, p := range e.Inputs { if i > 0 { buff.WriteRune(',') }; s, err := p.SignatureStringCtx(ctx); ...; buff.WriteString(s) };
   buff.WriteRune(')') *)
Fixpoint signature_loop (i : nat) (inputs : list param) (buff : bytes) : res bytes :=
  match inputs with
  | [] => Ok buff
  | p :: r =>
      let buff := if (0 <? i)%nat then buff ++ [ch_comma] else buff in
      do s <- SignatureString p;
      signature_loop (S i) r (buff ++ s)
  end.
Definition EntrySignature (name : bytes) (inputs : list param) : res bytes :=
  do buff <- signature_loop 0 inputs (name ++ [ch_lparen]);
  Ok (buff ++ [ch_rparen]).
