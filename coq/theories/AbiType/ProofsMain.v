(* The main theorems about the ABI type parser: totality, acceptance = grammar, canonical rendering,
   idempotent normalisation. *)
From Coq Require Import String.
From Coq Require Import List NArith Bool Arith Lia.
From Coq Require Import Init.Byte.
From FFS Require Import Base.Res Base.Bytes Abi.Types Gen.AbiConsts
  AbiType.Syntax AbiType.Spec AbiType.Model AbiType.Abs
  AbiType.ProofsDec AbiType.ProofsArr AbiType.ProofsElem AbiType.ProofsLeaf.
Import ListNotations.

(* ---------- top-level versions of the nested recursions, with unfolding lemmas ---------- *)
Fixpoint parse_list (l : list param) : res (list tcomp) :=
  match l with
  | [] => Ok []
  | c :: r => do x <- parseABIParameterComponents c; do xs <- parse_list r; Ok (x :: xs)
  end.

Definition parse_base (etStr suffix : bytes) (comps : list param) : res tcomp :=
  if bytes_eqb etStr (ascii_bytes tuple_type_string) then
    if negb (is_nil suffix) then Err EUnsupportedSuffix else
    do children <- parse_list comps; Ok (CTuple children)
  else match lookup_et etStr with
       | None => Err EUnsupportedType
       | Some et => parse_elementary et suffix
       end.

Lemma parse_unfold s comps :
  parseABIParameterComponents (Param s comps) =
  let sa := splitElementaryTypeSuffix s (length (take_lower s)) in
  do tc <- parse_base (take_lower s) (fst sa) comps;
  if negb (is_nil (snd sa)) then parseArrays (S (length (snd sa))) tc (snd sa) else Ok tc.
Proof.
  cbn [parseABIParameterComponents]. cbv zeta.
  destruct (splitElementaryTypeSuffix s (length (take_lower s))) as [suffix arrays]. cbn [fst snd].
  unfold parse_base.
  destruct (bytes_eqb (take_lower s) (ascii_bytes tuple_type_string)); [|reflexivity].
  destruct (negb (is_nil suffix)); [reflexivity|].
  match goal with |- bind (bind (?F comps) _) _ = _ =>
    assert (E : forall l, F l = parse_list l)
      by (induction l as [|c r IH]; [reflexivity|cbn [parse_list]; rewrite <- IH; reflexivity])
  end.
  rewrite E. reflexivity.
Qed.

Fixpoint ty_of_list (l : list tcomp) : option (list ty) :=
  match l with
  | [] => Some []
  | c :: r => match ty_of c, ty_of_list r with Some t, Some ts => Some (t :: ts) | _, _ => None end
  end.
Lemma ty_of_tuple l :
  ty_of (CTuple l) = match ty_of_list l with Some ts => Some (TTuple ts) | None => None end.
Proof.
  cbn [ty_of].
  match goal with |- match ?F l with _ => _ end = _ =>
    assert (E : forall x, F x = ty_of_list x)
      by (induction x as [|c r IH]; [reflexivity|cbn [ty_of_list]; rewrite <- IH; reflexivity])
  end.
  rewrite E. reflexivity.
Qed.

Fixpoint tc_string_list (l : list tcomp) : res (list bytes) :=
  match l with
  | [] => Ok []
  | c :: r => do s <- tc_string c; do ss <- tc_string_list r; Ok (s :: ss)
  end.
Lemma tc_string_tuple l :
  tc_string (CTuple l) = do ss <- tc_string_list l; Ok ([ch_lparen] ++ join [ch_comma] ss ++ [ch_rparen]).
Proof.
  cbn [tc_string].
  match goal with |- bind (?F l) _ = _ =>
    assert (E : forall x, F x = tc_string_list x)
      by (induction x as [|c r IH]; [reflexivity|cbn [tc_string_list]; rewrite <- IH; reflexivity])
  end.
  rewrite E. reflexivity.
Qed.

Fixpoint normalise_list (l : list tcomp) : res (list param) :=
  match l with
  | [] => Ok []
  | c :: r => do p <- normalise c; do ps <- normalise_list r; Ok (p :: ps)
  end.
Lemma normalise_tuple l :
  normalise (CTuple l) = do ps <- normalise_list l; Ok (Param (ascii_bytes tuple_type_string) ps).
Proof.
  cbn [normalise].
  match goal with |- bind (?F l) _ = _ =>
    assert (E : forall x, F x = normalise_list x)
      by (induction x as [|c r IH]; [reflexivity|cbn [normalise_list]; rewrite <- IH; reflexivity])
  end.
  rewrite E. reflexivity.
Qed.

Fixpoint members (l : list ty) (comps : list param) : Prop :=
  match l, comps with
  | [], [] => True
  | t' :: l', Param s' c' :: comps' => spelling t' s' c' /\ members l' comps'
  | _, _ => False
  end.
Lemma spelling_tuple l s comps : spelling (TTuple l) s comps <-> s = T "tuple" /\ members l comps.
Proof.
  cbn [spelling].
  match goal with |- _ /\ ?F l comps <-> _ =>
    assert (E : forall x y, F x y <-> members x y)
      by (induction x as [|t r IH]; intros [|[s' c'] y]; cbn [members]; try tauto; rewrite <- IH; tauto)
  end.
  rewrite E. tauto.
Qed.

(* ---------- wrapping in array dimensions ---------- *)
Lemma ty_of_wrap ds : forall tc t, ty_of tc = Some t -> ty_of (wrap_tc tc ds) = Some (wrap_ty t ds).
Proof.
  induction ds as [|d ds IH]; intros tc t H; [exact H|].
  cbn [wrap_tc wrap_ty fold_left]. apply IH. destruct d; cbn [wrap1_tc wrap1_ty ty_of]; rewrite H; reflexivity.
Qed.

Lemma valid_wrap ds : forall t, valid_type (wrap_ty t ds) = valid_type t && forallb dim_ok ds.
Proof.
  induction ds as [|d ds IH]; intros t; [cbn; rewrite andb_true_r; reflexivity|].
  cbn [wrap_ty fold_left forallb]. change (fold_left wrap1_ty ds (wrap1_ty t d)) with (wrap_ty (wrap1_ty t d) ds).
  rewrite IH. unfold valid_type. destruct d as [k|]; cbn [wrap1_ty wf_ty dims_ok dim_ok].
  - destruct (wf_ty t), (dims_ok t), (k <? 2 ^ 32)%N, (forallb dim_ok ds); reflexivity.
  - destruct (wf_ty t), (dims_ok t), (forallb dim_ok ds); reflexivity.
Qed.

Lemma canonical_wrap ds : forall t, canonical (wrap_ty t ds) = canonical t ++ render_dims ds.
Proof.
  induction ds as [|d ds IH]; intros t; [cbn; rewrite app_nil_r; reflexivity|].
  cbn [wrap_ty fold_left]. change (fold_left wrap1_ty ds (wrap1_ty t d)) with (wrap_ty (wrap1_ty t d) ds).
  rewrite IH, render_dims_cons. destruct d as [k|]; cbn [wrap1_ty canonical dim_body].
  - rewrite <- !app_assoc. reflexivity.
  - rewrite <- !app_assoc. reflexivity.
Qed.

Lemma tc_string_wrap ds : forall tc s, tc_string tc = Ok s ->
  tc_string (wrap_tc tc ds) = Ok (s ++ render_dims ds).
Proof.
  induction ds as [|d ds IH]; intros tc s H; [cbn; rewrite app_nil_r; exact H|].
  cbn [wrap_tc fold_left]. change (fold_left wrap1_tc ds (wrap1_tc tc d)) with (wrap_tc (wrap1_tc tc d) ds).
  rewrite render_dims_cons. destruct d as [k|].
  - rewrite (IH _ (s ++ [ch_lbrack] ++ dec k ++ [ch_rbrack])).
    + cbn [dim_body]. rewrite <- !app_assoc. reflexivity.
    + cbn [wrap1_tc tc_string]. rewrite H. cbn [bind]. rewrite format_uint_dec. reflexivity.
  - rewrite (IH _ (s ++ [ch_lbrack; ch_rbrack])).
    + cbn [dim_body]. rewrite <- !app_assoc. reflexivity.
    + cbn [wrap1_tc tc_string]. rewrite H. reflexivity.
Qed.

Lemma spelling_wrap ds : forall t s comps,
  spelling (wrap_ty t ds) s comps <-> exists s0, spelling t s0 comps /\ s = s0 ++ render_dims ds.
Proof.
  induction ds as [|d ds IH]; intros t s comps.
  - cbn. split; [intros H; exists s; rewrite app_nil_r; auto|intros (s0 & H & ->); rewrite app_nil_r; exact H].
  - cbn [wrap_ty fold_left]. change (fold_left wrap1_ty ds (wrap1_ty t d)) with (wrap_ty (wrap1_ty t d) ds).
    rewrite IH, render_dims_cons. split.
    + intros (s1 & H & ->). destruct d as [k|]; cbn [wrap1_ty spelling] in H; destruct H as (s0 & H & ->);
        exists s0; (split; [exact H|]); cbn [dim_body]; rewrite <- !app_assoc; reflexivity.
    + intros (s0 & H & ->). destruct d as [k|].
      * exists (s0 ++ T "[" ++ dec k ++ T "]"). split; [cbn [wrap1_ty spelling]; eauto|].
        cbn [dim_body]. rewrite <- !app_assoc. reflexivity.
      * exists (s0 ++ T "[]"). split; [cbn [wrap1_ty spelling]; eauto|].
        cbn [dim_body]. rewrite <- !app_assoc. reflexivity.
Qed.

(* ---------- splitting the type text ---------- *)
Lemma take_lower_app name rest : lower_name name ->
  (rest = [] \/ exists c r, rest = c :: r /\ is_lower c = false) -> take_lower (name ++ rest) = name.
Proof.
  induction 1 as [|b name Hb Hn IH]; intros Hr; cbn [app take_lower].
  - destruct Hr as [->|(c & r & -> & Hc)]; [reflexivity|]. cbn [take_lower]. rewrite Hc. reflexivity.
  - rewrite Hb, IH by exact Hr. reflexivity.
Qed.

Lemma take_lower_decomp s :
  exists rest, s = take_lower s ++ rest /\ lower_name (take_lower s).
Proof.
  induction s as [|b s IH]; [exists []; split; [reflexivity|constructor]|].
  cbn [take_lower]. destruct (is_lower b) eqn:E.
  - destruct IH as (rest & Es & Hl). exists rest. split; [cbn; congruence|constructor; assumption].
  - exists (b :: s). split; [reflexivity|constructor].
Qed.

Lemma split_app name sfx arr : no_byte ch_lbrack sfx -> (arr = [] \/ exists r, arr = ch_lbrack :: r) ->
  splitElementaryTypeSuffix (name ++ sfx ++ arr) (length name) = (sfx, arr).
Proof.
  intros Hs Ha. unfold splitElementaryTypeSuffix. rewrite skipn_prefix.
  assert (U : until ch_lbrack (sfx ++ arr) = sfx).
  { destruct Ha as [->|(r & ->)]; [rewrite app_nil_r; apply until_all; exact Hs|apply until_stop; exact Hs]. }
  rewrite U, skipn_prefix. reflexivity.
Qed.

Lemma split_decomp s :
  let sa := splitElementaryTypeSuffix s (length (take_lower s)) in
  s = take_lower s ++ fst sa ++ snd sa /\ (snd sa = [] \/ exists r, snd sa = ch_lbrack :: r).
Proof.
  destruct (take_lower_decomp s) as (rest & Es & _).
  unfold splitElementaryTypeSuffix. cbn [fst snd].
  assert (K : skipn (length (take_lower s)) s = rest) by (rewrite Es at 2; apply skipn_prefix).
  rewrite K. destruct (until_decomp ch_lbrack rest) as (r & Er & _ & Hr).
  assert (K2 : skipn (length (until ch_lbrack rest)) rest = r) by (rewrite Er at 2; apply skipn_prefix).
  rewrite K2. split; [rewrite <- Er; exact Es|exact Hr].
Qed.

(* ---------- the canonical component of a type ---------- *)
Fixpoint tc_of (t : ty) : option tcomp :=
  match t with
  | TFixedArr t' k => match tc_of t' with Some c => Some (CFixedArr c k) | None => None end
  | TDynArr t' => match tc_of t' with Some c => Some (CDynArr c) | None => None end
  | TTuple l =>
      match (fix go (l : list ty) : option (list tcomp) :=
               match l with
               | [] => Some []
               | t' :: r => match tc_of t', go r with Some c, Some cs => Some (c :: cs) | _, _ => None end
               end) l with
      | Some cs => Some (CTuple cs)
      | None => None
      end
  | _ => leaf_tc t
  end.
Fixpoint tc_of_list (l : list ty) : option (list tcomp) :=
  match l with
  | [] => Some []
  | t' :: r => match tc_of t', tc_of_list r with Some c, Some cs => Some (c :: cs) | _, _ => None end
  end.
Lemma tc_of_tuple l :
  tc_of (TTuple l) = match tc_of_list l with Some cs => Some (CTuple cs) | None => None end.
Proof.
  cbn [tc_of].
  match goal with |- match ?F l with _ => _ end = _ =>
    assert (E : forall x, F x = tc_of_list x)
      by (induction x as [|c r IH]; [reflexivity|cbn [tc_of_list]; rewrite <- IH; reflexivity])
  end.
  rewrite E. reflexivity.
Qed.
Lemma tc_of_leaf t : is_leaf t = true -> tc_of t = leaf_tc t.
Proof. destruct t; try discriminate; reflexivity. Qed.
Lemma tc_of_wrap ds : forall t tc, tc_of t = Some tc -> tc_of (wrap_ty t ds) = Some (wrap_tc tc ds).
Proof.
  induction ds as [|d ds IH]; intros t tc H; [exact H|].
  cbn [wrap_tc wrap_ty fold_left]. apply IH. destruct d; cbn [wrap1_tc wrap1_ty tc_of]; rewrite H; reflexivity.
Qed.

Lemma join_sepby sep l : join sep l = sepby sep l.
Proof. induction l as [|x [|y r] IH]; [reflexivity|reflexivity|]. cbn [join sepby] in *. rewrite IH. reflexivity. Qed.

Lemma forallb_valid ts : forallb valid_type ts = forallb wf_ty ts && forallb dims_ok ts.
Proof.
  induction ts as [|t ts IH]; [reflexivity|]. cbn [forallb]. rewrite IH. unfold valid_type.
  destruct (wf_ty t), (dims_ok t), (forallb wf_ty ts), (forallb dims_ok ts); reflexivity.
Qed.
Lemma valid_tuple ts : valid_type (TTuple ts) = forallb valid_type ts.
Proof. rewrite forallb_valid. reflexivity. Qed.

(* ---------- finishing a parse: base + dimensions ---------- *)
Lemma render_dims_head ds : render_dims ds = [] \/ exists r, render_dims ds = ch_lbrack :: r.
Proof. destruct ds; [left; reflexivity|right; rewrite render_dims_cons; eauto]. Qed.

Lemma lbrack_not_lower : is_lower ch_lbrack = false.
Proof. reflexivity. Qed.

Lemma finish name sfx ds comps tc0 :
  lower_name name -> suffix_shape sfx -> forallb dim_ok ds = true ->
  parse_base name sfx comps = Ok tc0 ->
  Validate (Param (name ++ sfx ++ render_dims ds) comps) = Ok (wrap_tc tc0 ds).
Proof.
  intros Hn [Hs1 Hs2] Hd HB. unfold Validate. rewrite parse_unfold.
  assert (TL : take_lower (name ++ sfx ++ render_dims ds) = name).
  { apply take_lower_app; [exact Hn|].
    destruct Hs2 as [->|(c & r & -> & Hc)].
    - cbn [app]. destruct (render_dims_head ds) as [->|(r & ->)]; [left; reflexivity|].
      right. exists ch_lbrack, r. split; [reflexivity|exact lbrack_not_lower].
    - right. exists c, (r ++ render_dims ds). split; [reflexivity|exact Hc]. }
  rewrite TL. rewrite split_app by (try exact Hs1; apply render_dims_head).
  cbv zeta. cbn [fst snd]. rewrite HB. cbn [bind].
  destruct ds as [|d ds]; [reflexivity|].
  replace (is_nil (render_dims (d :: ds))) with false by (rewrite render_dims_cons; reflexivity).
  cbn [negb]. apply parseArrays_complete; [discriminate|exact Hd|lia].
Qed.

(* ---------- soundness ---------- *)
Definition good (p : param) (tc : tcomp) : Prop :=
  exists t, ty_of tc = Some t /\ valid_type t = true /\ spelling t (p_type p) (p_comps p) /\
            tc_string tc = Ok (canonical t) /\ tc_of t = Some tc.

Lemma parse_list_sound comps :
  Forall (fun p => forall tc, Validate p = Ok tc -> good p tc) comps ->
  forall children, parse_list comps = Ok children ->
  exists ts, ty_of_list children = Some ts /\ forallb valid_type ts = true /\ members ts comps /\
             tc_string_list children = Ok (map canonical ts) /\ tc_of_list ts = Some children.
Proof.
  induction 1 as [|p comps Hp Hc IH]; intros children H; cbn [parse_list] in H.
  - injection H as <-. exists []. repeat split.
  - destruct (parseABIParameterComponents p) as [x| |] eqn:Ex; try discriminate. cbn [bind] in H.
    destruct (parse_list comps) as [xs| |] eqn:Exs; try discriminate. cbn [bind] in H.
    injection H as <-. destruct (Hp x Ex) as (t & T1 & T2 & T3 & T4 & T5).
    destruct (IH xs eq_refl) as (ts & L1 & L2 & L3 & L4 & L5).
    exists (t :: ts). cbn [ty_of_list forallb members tc_string_list map tc_of_list bind].
    rewrite T1, L1, T2, L2, T4, L4, T5, L5. cbn [bind andb].
    split; [reflexivity|]. split; [reflexivity|]. split; [|split; reflexivity].
    destruct p as [s' c']. cbn [p_type p_comps] in T3. split; assumption.
Qed.

Theorem validate_sound p : forall tc, Validate p = Ok tc -> good p tc.
Proof.
  induction p as [s comps IH] using param_ind'. intros tc H.
  unfold Validate in H. rewrite parse_unfold in H. cbv zeta in H.
  destruct (split_decomp s) as [Es Harr]. cbv zeta in Es, Harr.
  set (sa := splitElementaryTypeSuffix s (length (take_lower s))) in *.
  destruct (parse_base (take_lower s) (fst sa) comps) as [tc0| |] eqn:HB; try discriminate.
  cbn [bind] in H.
  (* the base *)
  assert (B : exists t0, ty_of tc0 = Some t0 /\ valid_type t0 = true /\
                         spelling t0 (take_lower s ++ fst sa) comps /\
                         tc_string tc0 = Ok (canonical t0) /\ tc_of t0 = Some tc0).
  { unfold parse_base in HB.
    destruct (bytes_eqb_spec (take_lower s) (ascii_bytes tuple_type_string)) as [Et|Net].
    - destruct (is_nil (fst sa)) eqn:En; cbn [negb] in HB; [|discriminate].
      apply is_nil_true in En. rewrite En, app_nil_r, Et.
      destruct (parse_list comps) as [children| |] eqn:EL; try discriminate. cbn [bind] in HB.
      injection HB as <-.
      destruct (parse_list_sound comps IH children EL) as (ts & L1 & L2 & L3 & L4 & L5).
      exists (TTuple ts). rewrite ty_of_tuple, L1, valid_tuple, tc_string_tuple, L4, tc_of_tuple, L5.
      cbn [bind]. split; [reflexivity|]. split; [exact L2|].
      split; [apply spelling_tuple; split; [reflexivity|exact L3]|].
      split; [cbn [canonical]; rewrite join_sepby; reflexivity|reflexivity].
    - destruct (lookup_et (take_lower s)) as [et|] eqn:HL; [|discriminate].
      destruct (elem_sound _ _ _ _ HL HB) as (t & T1 & T2 & T3 & T4).
      destruct (leaf_tc_props _ _ T4) as (P1 & P2 & _).
      exists t. repeat split; try assumption.
      + unfold valid_type. rewrite T2. destruct t; try discriminate; reflexivity.
      + apply leaf_spelling_iff; [exact T1|]. eauto.
      + rewrite tc_of_leaf by exact T1. exact T4. }
  destruct B as (t0 & B1 & B2 & B3 & B4 & B5).
  destruct (is_nil (snd sa)) eqn:En; cbn [negb] in H.
  - injection H as <-. apply is_nil_true in En. rewrite En, app_nil_r in Es.
    exists t0. cbn [p_type p_comps]. rewrite Es. auto.
  - apply parseArrays_sound in H. destruct H as (ds & _ & Ea & Hd & ->).
    exists (wrap_ty t0 ds). cbn [p_type p_comps]. repeat split.
    + apply ty_of_wrap; exact B1.
    + rewrite valid_wrap, B2, Hd. reflexivity.
    + apply spelling_wrap. exists (take_lower s ++ fst sa). split; [exact B3|].
      rewrite Es at 1. rewrite Ea, <- app_assoc. reflexivity.
    + rewrite canonical_wrap. apply tc_string_wrap; exact B4.
    + apply tc_of_wrap; exact B5.
Qed.

(* ---------- completeness ---------- *)
Definition complete_at (t : ty) : Prop :=
  forall ds s comps, valid_type (wrap_ty t ds) = true -> spelling (wrap_ty t ds) s comps ->
  exists tc, Validate (Param s comps) = Ok tc /\ ty_of tc = Some (wrap_ty t ds).

Lemma complete_leaf t : is_leaf t = true -> complete_at t.
Proof.
  intros HL ds s comps HV HS. rewrite valid_wrap in HV. apply andb_prop in HV. destruct HV as [HV Hd].
  apply spelling_wrap in HS. destruct HS as (s0 & HS & ->).
  apply leaf_spelling_iff in HS; [|exact HL]. destruct HS as (name & sfx & -> & HI).
  unfold valid_type in HV. apply andb_prop in HV. destruct HV as [HW _].
  destruct (elem_complete _ _ _ HL HW HI) as (et & tc0 & L & P & C).
  destruct (leaf_in_shape _ _ _ HI) as (S1 & S2 & S3).
  destruct (leaf_tc_props _ _ C) as (P1 & _).
  exists (wrap_tc tc0 ds). split; [|apply ty_of_wrap; exact P1].
  rewrite <- app_assoc. apply finish; try assumption.
  unfold parse_base. destruct (bytes_eqb_spec name (ascii_bytes tuple_type_string)) as [E|_]; [contradiction|].
  rewrite L. exact P.
Qed.

Lemma parse_list_complete l :
  Forall complete_at l -> forall comps, forallb valid_type l = true -> members l comps ->
  exists children, parse_list comps = Ok children /\ ty_of_list children = Some l.
Proof.
  induction 1 as [|t l Ht Hl IH]; intros comps HV HM.
  - destruct comps; [|contradiction]. exists []. split; reflexivity.
  - destruct comps as [|[s' c'] comps]; [contradiction|]. cbn [members] in HM. destruct HM as [HS HM].
    cbn [forallb] in HV. apply andb_prop in HV. destruct HV as [HVt HVl].
    destruct (Ht [] s' c' HVt HS) as (x & X1 & X2).
    destruct (IH comps HVl HM) as (xs & Y1 & Y2).
    exists (x :: xs). cbn [parse_list ty_of_list]. unfold Validate in X1. cbn [wrap_ty fold_left] in X2.
    rewrite X1, Y1, X2, Y2. split; reflexivity.
Qed.

Lemma complete_all t : complete_at t.
Proof.
  induction t as [m|m| | |m n|m n|m| | | |t k IH|t IH|l IH] using ty_ind';
    try (apply complete_leaf; reflexivity).
  - intros ds. apply (IH (Some k :: ds)).
  - intros ds. apply (IH (None :: ds)).
  - intros ds s comps HV HS. rewrite valid_wrap in HV. apply andb_prop in HV. destruct HV as [HV Hd].
    apply spelling_wrap in HS. destruct HS as (s0 & HS & ->).
    apply spelling_tuple in HS. destruct HS as [-> HM]. rewrite valid_tuple in HV.
    destruct (parse_list_complete l IH comps HV HM) as (children & C1 & C2).
    exists (wrap_tc (CTuple children) ds). split.
    + change (T "tuple" ++ render_dims ds) with (T "tuple" ++ [] ++ render_dims ds).
      apply finish; [repeat (constructor; [reflexivity|]); constructor|apply nil_shape|exact Hd|].
      unfold parse_base. change (bytes_eqb (T "tuple") (ascii_bytes tuple_type_string)) with true.
      cbn [is_nil negb]. rewrite C1. reflexivity.
    + apply ty_of_wrap. rewrite ty_of_tuple, C2. reflexivity.
Qed.

Theorem validate_complete t s comps : valid_type t = true -> spelling t s comps ->
  exists tc, Validate (Param s comps) = Ok tc /\ ty_of tc = Some t.
Proof. intros HV HS. exact (complete_all t [] s comps HV HS). Qed.

(* accept <=> grammar, in one statement *)
Theorem accept_iff_grammar s comps tc :
  Validate (Param s comps) = Ok tc <->
  exists t, valid_type t = true /\ spelling t s comps /\ ty_of tc = Some t /\ tc_of t = Some tc.
Proof.
  split.
  - intros H. destruct (validate_sound _ _ H) as (t & T1 & T2 & T3 & _ & T5). exists t. auto.
  - intros (t & V & S & T1 & T5). destruct (validate_complete t s comps V S) as (tc' & H & T1').
    destruct (validate_sound _ _ H) as (t' & U1 & _ & _ & _ & U5).
    assert (t' = t) by congruence. subst t'. assert (tc' = tc) by congruence. subst tc'. exact H.
Qed.

(* ---------- totality ---------- *)
Definition total_at (p : param) : Prop := Validate p <> Panic /\ Validate p <> Err EOutOfFuel.

Lemma parse_list_total comps : Forall total_at comps ->
  parse_list comps <> Panic /\ parse_list comps <> Err EOutOfFuel.
Proof.
  induction 1 as [|p comps [Hp1 Hp2] Hc [IH1 IH2]]; cbn [parse_list]; [split; discriminate|].
  unfold Validate in Hp1, Hp2.
  destruct (parseABIParameterComponents p) as [x|e|]; cbn [bind]; [|split; congruence|congruence].
  destruct (parse_list comps) as [xs|e|]; cbn [bind]; [split; discriminate|split; congruence|congruence].
Qed.

Theorem validate_total p : total_at p.
Proof.
  induction p as [s comps IH] using param_ind'. unfold total_at, Validate. rewrite parse_unfold. cbv zeta.
  set (sa := splitElementaryTypeSuffix s (length (take_lower s))).
  assert (B : parse_base (take_lower s) (fst sa) comps <> Panic /\
              parse_base (take_lower s) (fst sa) comps <> Err EOutOfFuel).
  { unfold parse_base. destruct (bytes_eqb (take_lower s) (ascii_bytes tuple_type_string)).
    - destruct (negb (is_nil (fst sa))); [split; discriminate|].
      destruct (parse_list_total comps IH) as [L1 L2].
      destruct (parse_list comps) as [xs|e|]; cbn [bind]; [split; discriminate|split; congruence|congruence].
    - destruct (lookup_et (take_lower s)) as [et|]; [|split; discriminate].
      destruct (parse_elementary_total et (fst sa)) as [(tc & ->)|(e & -> & He)]; split; congruence. }
  destruct B as [B1 B2].
  destruct (parse_base (take_lower s) (fst sa) comps) as [tc0|e|]; cbn [bind]; [|split; congruence|congruence].
  destruct (negb (is_nil (snd sa))); [|split; discriminate].
  apply parseArrays_total. lia.
Qed.

Lemma validate_params_total l : validate_params l <> Panic /\ validate_params l <> Err EOutOfFuel.
Proof.
  induction l as [|p l [IH1 IH2]]; cbn [validate_params]; [split; discriminate|].
  destruct (validate_total p) as [P1 P2].
  destruct (Validate p) as [x|e|]; cbn [bind]; [split; assumption|split; congruence|congruence].
Qed.

Theorem abi_validate_total a : ABIValidate a <> Panic /\ ABIValidate a <> Err EOutOfFuel.
Proof.
  induction a as [|[i o] a [IH1 IH2]]; cbn [ABIValidate]; [split; discriminate|].
  assert (E : EntryValidate (Entry i o) <> Panic /\ EntryValidate (Entry i o) <> Err EOutOfFuel).
  { cbn [EntryValidate]. destruct (validate_params_total i) as [I1 I2].
    destruct (validate_params i) as [x|e|]; cbn [bind]; [apply validate_params_total|split; congruence|congruence]. }
  destruct E as [E1 E2].
  destruct (EntryValidate (Entry i o)) as [x|e|]; cbn [bind]; [split; assumption|split; congruence|congruence].
Qed.

Theorem signature_total p : SignatureString p <> Panic /\ SignatureString p <> Err EOutOfFuel.
Proof.
  unfold SignatureString. destruct (validate_total p) as [P1 P2].
  destruct (Validate p) as [tc|e|] eqn:E; cbn [bind]; [|split; congruence|congruence].
  destruct (validate_sound _ _ E) as (t & _ & _ & _ & T4 & _). rewrite T4. split; discriminate.
Qed.

(* ---------- rendering ---------- *)
Theorem render_canonical p tc t : Validate p = Ok tc -> ty_of tc = Some t ->
  tc_string tc = Ok (canonical t) /\ SignatureString p = Ok (canonical t).
Proof.
  intros H Ht. destruct (validate_sound _ _ H) as (t' & T1 & _ & _ & T4 & _).
  assert (t' = t) by congruence. subst t'. split; [exact T4|].
  unfold SignatureString. rewrite H. exact T4.
Qed.

(* ---------- idempotent normalisation ---------- *)
Definition spells (t : ty) (p : param) : Prop := spelling t (p_type p) (p_comps p).

Lemma spelling_canonical_leaf t comps : is_leaf t = true -> spelling t (canonical t) comps.
Proof. destruct t; try discriminate; intros _; cbn [spelling]; auto. Qed.

Lemma normalise_list_spells l :
  Forall (fun t => forall tc, tc_of t = Some tc -> exists p', normalise tc = Ok p' /\ spells t p') l ->
  forall cs, tc_of_list l = Some cs -> exists ps, normalise_list cs = Ok ps /\ members l ps.
Proof.
  induction 1 as [|t l Ht Hl IH]; intros cs H; cbn [tc_of_list] in H.
  - injection H as <-. exists []. split; reflexivity.
  - destruct (tc_of t) as [c|] eqn:Ec; [|discriminate].
    destruct (tc_of_list l) as [cs'|] eqn:El; [|discriminate]. injection H as <-.
    destruct (Ht c eq_refl) as (p' & N1 & N2). destruct (IH cs' eq_refl) as (ps & M1 & M2).
    exists (p' :: ps). cbn [normalise_list]. rewrite N1, M1. split; [reflexivity|].
    destruct p' as [s' c']. cbn [members]. split; assumption.
Qed.

Lemma normalise_spells t : forall tc, tc_of t = Some tc ->
  exists p', normalise tc = Ok p' /\ spells t p'.
Proof.
  induction t as [m|m| | |m n|m n|m| | | |t k IH|t IH|l IH] using ty_ind'; intros tc H.
  11:{ cbn [tc_of] in H. destruct (tc_of t) as [c|] eqn:Ec; [|discriminate]. injection H as <-.
       destruct (IH c eq_refl) as (p' & N1 & N2). cbn [normalise]. rewrite N1. cbn [bind].
       rewrite format_uint_dec. cbn [bind]. eexists. split; [reflexivity|].
       unfold spells. cbn [p_type p_comps spelling]. exists (p_type p'). split; [exact N2|reflexivity]. }
  11:{ cbn [tc_of] in H. destruct (tc_of t) as [c|] eqn:Ec; [|discriminate]. injection H as <-.
       destruct (IH c eq_refl) as (p' & N1 & N2). cbn [normalise]. rewrite N1. cbn [bind].
       eexists. split; [reflexivity|].
       unfold spells. cbn [p_type p_comps spelling]. exists (p_type p'). split; [exact N2|reflexivity]. }
  11:{ rewrite tc_of_tuple in H. destruct (tc_of_list l) as [cs|] eqn:El; [|discriminate]. injection H as <-.
       destruct (normalise_list_spells l IH cs El) as (ps & M1 & M2).
       rewrite normalise_tuple, M1. cbn [bind]. eexists. split; [reflexivity|].
       unfold spells. cbn [p_type p_comps]. apply spelling_tuple. split; [reflexivity|exact M2]. }
  all: rewrite tc_of_leaf in H by reflexivity; destruct (leaf_tc_props _ _ H) as (_ & P2 & _);
    destruct tc as [et sfx mm nn| | |]; try (unfold leaf_tc, mk_leaf in H; destruct (lookup_et _); discriminate);
    cbn [normalise]; rewrite P2; cbn [bind]; eexists; (split; [reflexivity|]);
    unfold spells; cbn [p_type p_comps]; apply spelling_canonical_leaf; reflexivity.
Qed.

Theorem reparse_idempotent p tc : Validate p = Ok tc ->
  exists p', normalise tc = Ok p' /\ Validate p' = Ok tc /\ SignatureString p' = SignatureString p.
Proof.
  intros H. destruct (validate_sound _ _ H) as (t & T1 & T2 & _ & T4 & T5).
  destruct (normalise_spells t tc T5) as ([s' c'] & N1 & N2). unfold spells in N2. cbn [p_type p_comps] in N2.
  exists (Param s' c'). split; [exact N1|].
  assert (V : Validate (Param s' c') = Ok tc) by (apply accept_iff_grammar; exists t; auto).
  split; [exact V|]. unfold SignatureString. rewrite V, H. reflexivity.
Qed.

(* for types without tuples the rendered signature itself is an input spelling *)
Fixpoint tuple_free_ty (t : ty) : bool :=
  match t with
  | TFixedArr t' _ | TDynArr t' => tuple_free_ty t'
  | TTuple _ => false
  | _ => true
  end.

Lemma tuple_free_tc_of t : forall tc, tc_of t = Some tc -> tuple_free tc = tuple_free_ty t.
Proof.
  induction t as [m|m| | |m n|m n|m| | | |t k IH|t IH|l IH] using ty_ind'; intros tc HT;
    try (rewrite tc_of_leaf in HT by reflexivity; destruct (leaf_tc_props _ _ HT) as (_ & _ & P3 & _); exact P3).
  - cbn [tc_of] in HT. destruct (tc_of t) as [c|] eqn:Ec; [|discriminate]. injection HT as <-. cbn. auto.
  - cbn [tc_of] in HT. destruct (tc_of t) as [c|] eqn:Ec; [|discriminate]. injection HT as <-. cbn. auto.
  - rewrite tc_of_tuple in HT. destruct (tc_of_list l); [|discriminate]. injection HT as <-. reflexivity.
Qed.

Lemma spelling_canonical_tuple_free t comps : tuple_free_ty t = true -> spelling t (canonical t) comps.
Proof.
  induction t as [m|m| | |m n|m n|m| | | |t k IH|t IH|l IH] using ty_ind'; intros HF;
    try (apply spelling_canonical_leaf; reflexivity).
  - cbn [spelling canonical]. exists (canonical t). split; [apply IH; exact HF|reflexivity].
  - cbn [spelling canonical]. exists (canonical t). split; [apply IH; exact HF|reflexivity].
  - discriminate.
Qed.

Theorem reparse_signature_tuple_free p tc : Validate p = Ok tc -> tuple_free tc = true ->
  exists sig, tc_string tc = Ok sig /\ forall comps', Validate (Param sig comps') = Ok tc.
Proof.
  intros H F. destruct (validate_sound _ _ H) as (t & T1 & T2 & _ & T4 & T5).
  exists (canonical t). split; [exact T4|]. intros comps'.
  apply accept_iff_grammar. exists t. repeat split; try assumption.
  apply spelling_canonical_tuple_free. rewrite <- (tuple_free_tc_of t tc T5). exact F.
Qed.

(* ---------- rendering is total on every component tree; parseArrays renders back its text ---------- *)
Section tcomp_ind'.
  Variable P : tcomp -> Prop.
  Hypothesis HElem : forall et s m n, P (CElem et s m n).
  Hypothesis HFixed : forall c k, P c -> P (CFixedArr c k).
  Hypothesis HDyn : forall c, P c -> P (CDynArr c).
  Hypothesis HTuple : forall l, Forall P l -> P (CTuple l).
  Fixpoint tcomp_ind' (tc : tcomp) : P tc :=
    match tc with
    | CElem et s m n => HElem et s m n
    | CFixedArr c k => HFixed c k (tcomp_ind' c)
    | CDynArr c => HDyn c (tcomp_ind' c)
    | CTuple l => HTuple l ((fix go (l : list tcomp) : Forall P l :=
                               match l with [] => Forall_nil P | x :: r => Forall_cons x (tcomp_ind' x) (go r) end) l)
    end.
End tcomp_ind'.

Theorem tc_string_ok tc : exists s, tc_string tc = Ok s.
Proof.
  induction tc as [et s m n|c k [s IH]|c [s IH]|l IH] using tcomp_ind'.
  - eexists. reflexivity.
  - cbn [tc_string]. rewrite IH. cbn [bind]. rewrite format_uint_dec. cbn [bind]. eexists. reflexivity.
  - cbn [tc_string]. rewrite IH. cbn [bind]. eexists. reflexivity.
  - rewrite tc_string_tuple.
    assert (L : exists ss, tc_string_list l = Ok ss).
    { induction IH as [|c l [s Hc] Hl [ss IHl]]; [eexists; reflexivity|].
      cbn [tc_string_list]. rewrite Hc, IHl. eexists. reflexivity. }
    destruct L as [ss ->]. eexists. reflexivity.
Qed.

Lemma parseArrays_renders f child arrays tc s :
  parseArrays f child arrays = Ok tc -> tc_string child = Ok s -> tc_string tc = Ok (s ++ arrays).
Proof.
  intros H Hs. apply parseArrays_sound in H. destruct H as (ds & _ & -> & _ & ->).
  apply tc_string_wrap. exact Hs.
Qed.

(* ---------- statements in the form used by Properties/C13.v ---------- *)
Theorem accept_iff_grammar_ty s comps t :
  (exists tc, Validate (Param s comps) = Ok tc /\ ty_of tc = Some t) <->
  (valid_type t = true /\ spelling t s comps).
Proof.
  split.
  - intros (tc & H & Ht). destruct (validate_sound _ _ H) as (t' & T1 & T2 & T3 & _).
    assert (t' = t) by congruence. subst t'. auto.
  - intros [V S]. apply validate_complete; assumption.
Qed.

Theorem accepted_is_typed p tc : Validate p = Ok tc ->
  exists t, ty_of tc = Some t /\ valid_type t = true /\ spelling t (p_type p) (p_comps p).
Proof. intros H. destruct (validate_sound _ _ H) as (t & T1 & T2 & T3 & _). eauto. Qed.

Theorem reject_iff_not_grammar s comps :
  (exists e, Validate (Param s comps) = Err e) <->
  ~ (exists t, valid_type t = true /\ spelling t s comps).
Proof.
  split.
  - intros (e & He) (t & V & S). destruct (validate_complete t s comps V S) as (tc & H & _). congruence.
  - intros N. destruct (validate_total (Param s comps)) as [P1 _].
    destruct (Validate (Param s comps)) as [tc|e|] eqn:E; [|eauto|congruence].
    exfalso. apply N. destruct (accepted_is_typed _ _ E) as (t & _ & V & S). eauto.
Qed.
