(* Parameter OBJECTS: abi.Parameter with its unexported cache [parsed] (abi.go), for the question what a
   parameter answers after its definition was changed.  Model of ValidateCtx / typeComponentTreeCtx as
   state transformers, of parseABIParameterComponents recursing over the member OBJECTS (as the Go code
   does: c.parseABIParameterComponents, never the member's cache), and of
   ParameterArray.TypeComponentTreeCtx over objects (which does read the top-level caches).

   An object is quantified over with ARBITRARY cache contents at every depth: whatever earlier uses,
   by-value copies (which copy the cache), shallow slice copies or re-orderings produced them.
   Definitions only; the theorems are in ProofsCache.v. *)
From Coq Require Import String.
From Coq Require Import List NArith Bool Arith.
From Coq Require Import Init.Byte.
From FFS Require Import Base.Res Base.Bytes Abi.Types Gen.AbiConsts
  AbiType.Syntax AbiType.Spec AbiType.Model AbiType.Abs AbiType.ModelSig.
Import ListNotations.

Inductive pobj := PObj (type : bytes) (comps : list pobj) (parsed : option tcomp).

Definition o_type (o : pobj) : bytes := match o with PObj t _ _ => t end.
Definition o_comps (o : pobj) : list pobj := match o with PObj _ c _ => c end.
Definition o_parsed (o : pobj) : option tcomp := match o with PObj _ _ c => c end.
Definition set_parsed (o : pobj) (c : option tcomp) : pobj := match o with PObj t cs _ => PObj t cs c end.

(* the definition an object currently stands for *)
Fixpoint erase (o : pobj) : param :=
  match o with
  | PObj t cs _ => Param t ((fix go (l : list pobj) : list param :=
                               match l with [] => [] | c :: r => erase c :: go r end) cs)
  end.

Section pobj_ind'.
  Variable P : pobj -> Prop.
  Hypothesis H : forall t cs c, Forall P cs -> P (PObj t cs c).
  Fixpoint pobj_ind' (o : pobj) : P o :=
    match o with
    | PObj t cs c => H t cs c ((fix go (l : list pobj) : Forall P l :=
        match l with [] => Forall_nil P | x :: r => Forall_cons x (pobj_ind' x) (go r) end) cs)
    end.
End pobj_ind'.

(* Parameter.parseABIParameterComponents on objects: [member] is how the tree of a member is obtained --
   in the code c.parseABIParameterComponents(ctx) (the recursion); seed C02-4 reads c's cache instead *)
Section parse.
  Variable use_member_cache : bool.
  Fixpoint parseObj (o : pobj) : res tcomp :=
    match o with
    | PObj abiTypeString components _ =>
      let etStr := take_lower abiTypeString in
      let '(suffix, arrays) := splitElementaryTypeSuffix abiTypeString (length etStr) in
      do tc <- (if bytes_eqb etStr (ascii_bytes tuple_type_string) then
                  if negb (is_nil suffix) then Err EUnsupportedSuffix else
                  do children <- (fix go (l : list pobj) : res (list tcomp) :=
                                    match l with
                                    | [] => Ok []
                                    | c :: r =>
                                        do x <- (match (if use_member_cache then o_parsed c else None) with
                                                 | Some cached => Ok cached
                                                 | None => parseObj c
                                                 end);
                                        do xs <- go r; Ok (x :: xs)
                                    end) components;
                  Ok (CTuple children)
                else
                  match lookup_et etStr with
                  | None => Err EUnsupportedType
                  | Some et => parse_elementary et suffix
                  end);
      if negb (is_nil arrays) then parseArrays (S (length arrays)) tc arrays else Ok tc
    end.
End parse.

(* ValidateCtx: p.parsed, err = p.parseABIParameterComponents(ctx) *)
Definition ValidateObj (o : pobj) : pobj * res tcomp :=
  let r := parseObj false o in
  (set_parsed o (match r with Ok tc => Some tc | _ => None end), r).

(* typeComponentTreeCtx: if p.parsed == nil { ValidateCtx }; return p.parsed *)
Definition TreeObj (o : pobj) : pobj * res tcomp :=
  match o_parsed o with
  | Some tc => (o, Ok tc)
  | None => ValidateObj o
  end.

(* ParameterArray.TypeComponentTreeCtx over objects: the top-level caches are read *)
Fixpoint pa_children_obj (pa : list pobj) : res (list tcomp) :=
  match pa with
  | [] => Ok []
  | p :: r => do x <- snd (TreeObj p); do xs <- pa_children_obj r; Ok (x :: xs)
  end.
Definition ParameterArrayTreeObj (pa : list pobj) : res tcomp :=
  do children <- pa_children_obj pa; Ok (CTuple children).

