(* Entry.Validate / Entry.Signature over objects with a history (ModelCacheEntry.v). *)
From Coq Require Import String.
From Coq Require Import List NArith Bool Arith Lia.
From Coq Require Import Init.Byte.
From FFS Require Import Base.Res Base.Bytes Abi.Types Gen.AbiConsts
  AbiType.Syntax AbiType.Spec AbiType.Model AbiType.Abs AbiType.ModelSig AbiType.ModelCache
  AbiType.ModelCacheEntry AbiType.ProofsMain AbiType.ProofsCache.
Import ListNotations.

Lemma validate_obj_fresh o : fresh (fst (ValidateObj o)) /\ erase (fst (ValidateObj o)) = erase o /\
                             snd (ValidateObj o) = Validate (erase o).
Proof.
  pose proof (validate_obj_pure o) as V. destruct (ValidateObj o) as [o' r]. cbn [fst snd].
  destruct V as (-> & E & P). unfold fresh. rewrite E. auto.
Qed.

Lemma tree_obj_fresh o : fresh o -> snd (TreeObj o) = Validate (erase o).
Proof.
  unfold fresh, TreeObj. intros F. rewrite F. destruct (Validate (erase o)) as [tc|e|] eqn:EV.
  - reflexivity.
  - destruct (validate_obj_fresh o) as (_ & _ & ->). exact EV.
  - destruct (validate_obj_fresh o) as (_ & _ & ->). exact EV.
Qed.

Lemma validate_objs_cons o r :
  validate_objs (o :: r) =
  match snd (ValidateObj o) with
  | Ok _ => (fst (ValidateObj o) :: fst (validate_objs r), snd (validate_objs r))
  | Err e => (fst (ValidateObj o) :: r, Err e)
  | Panic => (fst (ValidateObj o) :: r, Panic)
  end.
Proof.
  cbn [validate_objs]. destruct (ValidateObj o) as [o' [tc|e|]]; cbn [fst snd]; try reflexivity.
  destruct (validate_objs r); reflexivity.
Qed.

(* the loop: the pure answer; definitions kept; a prefix was validated (all of it on success), the rest is
   untouched *)
Theorem validate_objs_spec l :
  snd (validate_objs l) = validate_params (map erase l) /\
  map erase (fst (validate_objs l)) = map erase l /\
  (exists n, fst (validate_objs l) = map (fun o => fst (ValidateObj o)) (firstn n l) ++ skipn n l) /\
  (snd (validate_objs l) = Ok tt -> Forall fresh (fst (validate_objs l))).
Proof.
  induction l as [|o r (I1 & I2 & (n & I3) & I4)].
  - cbn [validate_objs fst snd map validate_params]. repeat split; [exists 0%nat; reflexivity|constructor].
  - rewrite validate_objs_cons. cbn [map validate_params].
    destruct (validate_obj_fresh o) as (F & E & HS). rewrite <- HS.
    destruct (snd (ValidateObj o)) as [tc|e|]; cbn [bind fst snd map]; rewrite E.
    + split; [exact I1|]. split; [rewrite I2; reflexivity|]. split.
      * exists (S n). cbn [firstn skipn map app]. rewrite I3. reflexivity.
      * intros H. constructor; [exact F|exact (I4 H)].
    + repeat split; [|discriminate]. exists 1%nat. reflexivity.
    + repeat split; [|discriminate]. exists 1%nat. reflexivity.
Qed.

Lemma pa_children_obj_fresh l : Forall fresh l -> pa_children_obj l = pa_children (map erase l).
Proof.
  induction 1 as [|o r Fo Fr IH]; [reflexivity|]. cbn [map pa_children_obj pa_children].
  rewrite (tree_obj_fresh o Fo), IH. reflexivity.
Qed.

Lemma signature_loop_obj_fresh l : Forall fresh l -> forall i buff,
  signature_loop_obj i l buff = signature_loop i (map erase l) buff.
Proof.
  induction 1 as [|o r Fo Fr IH]; intros i buff; [reflexivity|]. cbn [map signature_loop_obj signature_loop].
  cbv zeta. rewrite (tree_obj_fresh o Fo). unfold SignatureString.
  destruct (do tc <- Validate (erase o); tc_string tc); cbn [bind]; try reflexivity. apply IH.
Qed.

(* Entry.Validate on objects with any history = the pure Entry.Validate of the current definitions; the
   definitions are kept; and after a SUCCESSFUL one, Entry.Signature and both list views answer for the
   current definitions *)
Theorem entry_validate_obj_spec (name : bytes) (i o : list pobj) :
  let r := snd (EntryValidateObj i o) in
  let i' := fst (fst (EntryValidateObj i o)) in
  let o' := snd (fst (EntryValidateObj i o)) in
  r = EntryValidate (Entry (map erase i) (map erase o)) /\
  map erase i' = map erase i /\ map erase o' = map erase o /\
  (r = Ok tt ->
     EntrySignatureObj name i' = EntrySignature name (map erase i) /\
     ParameterArrayTreeObj i' = ParameterArrayTree (map erase i) /\
     ParameterArrayTreeObj o' = ParameterArrayTree (map erase o)).
Proof.
  cbv zeta. unfold EntryValidateObj. cbn [EntryValidate].
  destruct (validate_objs_spec i) as (A1 & A2 & _ & A4). destruct (validate_objs_spec o) as (B1 & B2 & _ & B4).
  destruct (validate_objs i) as [i' ri]. cbn [fst snd] in A1, A2, A4. rewrite <- A1.
  destruct ri as [[]|e|]; cbn [bind fst snd].
  - destruct (validate_objs o) as [o' ro]. cbn [fst snd] in *. rewrite <- B1.
    split; [reflexivity|]. split; [exact A2|]. split; [exact B2|]. intros H.
    specialize (A4 eq_refl). specialize (B4 H).
    unfold EntrySignatureObj, EntrySignature, ParameterArrayTreeObj, ParameterArrayTree.
    rewrite (signature_loop_obj_fresh i' A4), !pa_children_obj_fresh, A2, B2 by assumption. auto.
  - split; [reflexivity|]. split; [exact A2|]. split; [reflexivity|discriminate].
  - split; [reflexivity|]. split; [exact A2|]. split; [reflexivity|discriminate].
Qed.

(* what is NOT promised: a refused Entry.Validate returns at the first refused parameter, the parameters after
   it keep their caches -- here the output list still answers for a definition it no longer has *)
Definition ex_entry_inputs : list pobj := [PObj (T "uint7") [] None].
Definition ex_entry_outputs : list pobj := [ex_stale].
Theorem entry_validate_refused_leaves_stale :
  let o' := snd (fst (EntryValidateObj ex_entry_inputs ex_entry_outputs)) in
  is_err (snd (EntryValidateObj ex_entry_inputs ex_entry_outputs)) = true /\
  o' = ex_entry_outputs /\
  ParameterArrayTreeObj o' <> ParameterArrayTree (map erase ex_entry_outputs) /\
  is_ok (ParameterArrayTreeObj o') = true /\ is_ok (ParameterArrayTree (map erase ex_entry_outputs)) = true.
Proof.
  cbv zeta. split; [vm_compute; reflexivity|]. split; [vm_compute; reflexivity|].
  split; [vm_compute; discriminate|]. split; vm_compute; reflexivity.
Qed.
