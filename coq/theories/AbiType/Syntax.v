(* The input of ABI type validation: an ABI JSON parameter object reduced to what the type grammar
   looks at -- the "type" text (arbitrary bytes) and the "components" list.  Shared by the spec and
   the model of C13 (it is the shape of the ABI JSON document, not code of either). *)
From Coq Require Import List.
From FFS Require Import Base.Bytes.
Import ListNotations.

Inductive param := Param (type : bytes) (comps : list param).

Definition p_type (p : param) : bytes := match p with Param t _ => t end.
Definition p_comps (p : param) : list param := match p with Param _ c => c end.

Section param_ind'.
  Variable P : param -> Prop.
  Hypothesis HParam : forall t comps, Forall P comps -> P (Param t comps).
  Fixpoint param_ind' (p : param) : P p :=
    match p with
    | Param t comps => HParam t comps ((fix go (l : list param) : Forall P l :=
        match l with [] => Forall_nil P | x :: r => Forall_cons x (param_ind' x) (go r) end) comps)
    end.
End param_ind'.
