(* Abstraction function from the model's type components (what the Go parser builds) to the spec
   types of Abi/Types.v: the meaning of "tc ~ t" in the C13 theorems.  Definitions only. *)
From Coq Require Import String.
From Coq Require Import List NArith Bool.
From FFS Require Import Base.Res Base.Bytes Abi.Types Gen.AbiConsts AbiType.Syntax AbiType.Model.
Import ListNotations.

Definition elem_ty (et : elem_info) (suffix : bytes) (m n : N) : option ty :=
  let nm := et_name et in
  if String.eqb nm "uint"%string then Some (TUInt m)
  else if String.eqb nm "int"%string then Some (TInt m)
  else if String.eqb nm "address"%string then Some TAddress
  else if String.eqb nm "bool"%string then Some TBool
  else if String.eqb nm "fixed"%string then Some (TFixed m n)
  else if String.eqb nm "ufixed"%string then Some (TUFixed m n)
  else if String.eqb nm "bytes"%string then (if is_nil suffix then Some TBytes else Some (TBytesN m))
  else if String.eqb nm "function"%string then Some TFunction
  else if String.eqb nm "string"%string then Some TString
  else None.

Fixpoint ty_of (tc : tcomp) : option ty :=
  match tc with
  | CElem et suffix m n => elem_ty et suffix m n
  | CFixedArr c k => match ty_of c with Some t => Some (TFixedArr t k) | None => None end
  | CDynArr c => match ty_of c with Some t => Some (TDynArr t) | None => None end
  | CTuple l =>
      match (fix go (l : list tcomp) : option (list ty) :=
               match l with
               | [] => Some []
               | c :: r => match ty_of c, go r with
                           | Some t, Some ts => Some (t :: ts)
                           | _, _ => None
                           end
               end) l with
      | Some ts => Some (TTuple ts)
      | None => None
      end
  end.

(* the parameter object that spells a type component in normal form: canonical text for leaves,
   "tuple" + dimensions with normalised components for tuples *)
Fixpoint array_dims (tc : tcomp) : res bytes :=
  match tc with
  | CFixedArr c k => do a <- array_dims c; do d <- format_uint k; Ok (a ++ [ch_lbrack] ++ d ++ [ch_rbrack])
  | CDynArr c => do a <- array_dims c; Ok (a ++ [ch_lbrack; ch_rbrack])
  | _ => Ok []
  end.
Fixpoint array_base (tc : tcomp) : tcomp :=
  match tc with CFixedArr c _ | CDynArr c => array_base c | _ => tc end.

Fixpoint tuple_free (tc : tcomp) : bool :=
  match tc with
  | CElem _ _ _ _ => true
  | CFixedArr c _ | CDynArr c => tuple_free c
  | CTuple _ => false
  end.

Fixpoint normalise (tc : tcomp) : res param :=
  match tc with
  | CElem _ _ _ _ => do s <- tc_string tc; Ok (Param s [])
  | CFixedArr c k =>
      do p <- normalise c; do d <- format_uint k;
      Ok (Param (p_type p ++ [ch_lbrack] ++ d ++ [ch_rbrack]) (p_comps p))
  | CDynArr c =>
      do p <- normalise c; Ok (Param (p_type p ++ [ch_lbrack; ch_rbrack]) (p_comps p))
  | CTuple l =>
      do ps <- (fix go (l : list tcomp) : res (list param) :=
                  match l with
                  | [] => Ok []
                  | c :: r => do p <- normalise c; do ps <- go r; Ok (p :: ps)
                  end) l;
      Ok (Param (ascii_bytes tuple_type_string) ps)
  end.
