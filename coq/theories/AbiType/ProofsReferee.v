(* Answers to the referee report on C13 (design/reviews/C13.md), part 1:
   I5 -- ABI-document level acceptance: ABI.Validate succeeds exactly when every parameter of every entry
         is accepted (= spells a valid type), and otherwise reports the error of the FIRST refused
         parameter in document order (inputs before outputs, entries in order);
   I3 -- the rendered signature of a type that contains a tuple on its array spine is always REFUSED as a
         type text (it starts with '('), so "parsing that spelling again" is only meaningful for
         tuple-free types; the normal form is the substitute (ProofsNormal.v). *)
From Coq Require Import String.
From Coq Require Import List NArith Bool Arith Lia.
From Coq Require Import Init.Byte.
From FFS Require Import Base.Res Base.Bytes Abi.Types Gen.AbiConsts
  AbiType.Syntax AbiType.Spec AbiType.Model AbiType.Abs
  AbiType.ProofsDec AbiType.ProofsArr AbiType.ProofsElem AbiType.ProofsLeaf AbiType.ProofsMain.
Import ListNotations.

(* ---------- I5: whole documents ---------- *)

Definition entry_params (e : entry) : list param := match e with Entry i o => i ++ o end.
(* every parameter of the document, in the order ABI.Validate visits them *)
Definition abi_params (a : list entry) : list param := flat_map entry_params a.

Definition accepted (p : param) : Prop := exists tc, Validate p = Ok tc.
Definition in_grammar (p : param) : Prop :=
  exists t, valid_type t = true /\ spelling t (p_type p) (p_comps p).

Lemma accepted_iff_grammar p : accepted p <-> in_grammar p.
Proof.
  destruct p as [s comps]. split.
  - intros (tc & H). destruct (accepted_is_typed _ _ H) as (t & _ & V & S). exists t. auto.
  - intros (t & V & S). destruct (validate_complete t s comps V S) as (tc & H & _). exists tc. exact H.
Qed.

Lemma validate_params_app l1 l2 :
  validate_params (l1 ++ l2) = do _ <- validate_params l1; validate_params l2.
Proof.
  induction l1 as [|p l1 IH]; [reflexivity|]. cbn [app validate_params].
  destruct (Validate p) as [x|e|]; cbn [bind]; [exact IH|reflexivity|reflexivity].
Qed.

Lemma abi_validate_flat a : ABIValidate a = validate_params (abi_params a).
Proof.
  induction a as [|[i o] a IH]; [reflexivity|].
  cbn [ABIValidate abi_params flat_map entry_params EntryValidate].
  fold (abi_params a). rewrite !validate_params_app, IH.
  destruct (validate_params i) as [x|e|]; cbn [bind]; [|reflexivity|reflexivity].
  destruct (validate_params o) as [y|e|]; reflexivity.
Qed.

Lemma validate_params_ok l : validate_params l = Ok tt <-> Forall accepted l.
Proof.
  induction l as [|p l IH]; cbn [validate_params]; [split; [constructor|reflexivity]|].
  split.
  - intros H. destruct (Validate p) as [tc|e|] eqn:E; cbn [bind] in H; try discriminate.
    constructor; [exists tc; exact E|apply IH; exact H].
  - intros H. inversion H as [|? ? (tc & E) Hl]; subst. rewrite E. cbn [bind]. apply IH. exact Hl.
Qed.

Lemma validate_params_err l e :
  validate_params l = Err e <->
  exists pre p post, l = pre ++ p :: post /\ Forall accepted pre /\ Validate p = Err e.
Proof.
  induction l as [|p l IH]; cbn [validate_params].
  - split; [discriminate|]. intros (pre & q & post & H & _). destruct pre; discriminate.
  - split.
    + intros H. destruct (Validate p) as [tc|e'|] eqn:E; cbn [bind] in H; try discriminate.
      * apply IH in H. destruct H as (pre & q & post & -> & Hp & Hq).
        exists (p :: pre), q, post. split; [reflexivity|]. split; [|exact Hq].
        constructor; [exists tc; exact E|exact Hp].
      * exists [], p, l. split; [reflexivity|]. split; [constructor|congruence].
    + intros (pre & q & post & Hl & Hp & Hq). destruct pre as [|p' pre]; cbn [app] in Hl.
      * injection Hl as -> ->. rewrite Hq. reflexivity.
      * injection Hl as -> ->. inversion Hp as [|? ? (tc & E) Hpre]; subst. rewrite E. cbn [bind].
        apply IH. exists pre, q, post. auto.
Qed.

Theorem abi_validate_accept_iff a :
  (ABIValidate a = Ok tt <-> Forall accepted (abi_params a)) /\
  (ABIValidate a = Ok tt <-> Forall in_grammar (abi_params a)).
Proof.
  rewrite abi_validate_flat. split; [apply validate_params_ok|].
  rewrite validate_params_ok. split; apply Forall_impl; intros p; apply accepted_iff_grammar.
Qed.

(* first error wins, in document order; and there is nothing else: Ok tt, or that error *)
Theorem abi_validate_first_error a :
  (forall e, ABIValidate a = Err e <->
     exists pre p post, abi_params a = pre ++ p :: post /\ Forall accepted pre /\ Validate p = Err e) /\
  (ABIValidate a = Ok tt \/ exists e, ABIValidate a = Err e /\ e <> EOutOfFuel).
Proof.
  split; [intros e; rewrite abi_validate_flat; apply validate_params_err|].
  destruct (abi_validate_total a) as [P1 P2].
  destruct (ABIValidate a) as [[]|e|]; [left; reflexivity|right; exists e; split; congruence|congruence].
Qed.

(* one entry: inputs before outputs *)
Theorem entry_validate_flat e : EntryValidate e = validate_params (entry_params e).
Proof. destruct e as [i o]. cbn [EntryValidate entry_params]. rewrite validate_params_app. reflexivity. Qed.

(* ---------- I3: the signature of a type with a tuple is not an input spelling ---------- *)

Lemma validate_lparen rest comps : Validate (Param (ch_lparen :: rest) comps) = Err EUnsupportedType.
Proof.
  unfold Validate. rewrite parse_unfold. cbv zeta.
  assert (TL : take_lower (ch_lparen :: rest) = []) by reflexivity. rewrite TL.
  unfold parse_base.
  replace (bytes_eqb [] (ascii_bytes tuple_type_string)) with false by (vm_compute; reflexivity).
  replace (lookup_et []) with (@None elem_info) by (vm_compute; reflexivity).
  reflexivity.
Qed.

Lemma tc_string_lparen tc : tuple_free tc = false -> exists rest, tc_string tc = Ok (ch_lparen :: rest).
Proof.
  induction tc as [et s m n|c IH k|c IH|l]; cbn [tuple_free]; intros H.
  - discriminate.
  - destruct (IH H) as (rest & E). cbn [tc_string]. rewrite E. cbn [bind]. rewrite format_uint_dec. cbn [bind].
    eexists. reflexivity.
  - destruct (IH H) as (rest & E). cbn [tc_string]. rewrite E. cbn [bind]. eexists. reflexivity.
  - destruct (tc_string_ok (CTuple l)) as (s & E). rewrite tc_string_tuple in E |- *.
    destruct (tc_string_list l) as [ss|e|]; cbn [bind] in E |- *; try discriminate.
    eexists. reflexivity.
Qed.

Theorem reparse_signature_tuple_refused tc : tuple_free tc = false ->
  exists sig, tc_string tc = Ok sig /\ forall comps, Validate (Param sig comps) = Err EUnsupportedType.
Proof.
  intros H. destruct (tc_string_lparen tc H) as (rest & E). exists (ch_lparen :: rest).
  split; [exact E|]. intros comps. apply validate_lparen.
Qed.

(* the two cases together: the rendered signature re-parses to the same tree iff the type is tuple-free *)
Theorem reparse_signature_iff p tc : Validate p = Ok tc ->
  exists sig, tc_string tc = Ok sig /\
    ((forall comps, Validate (Param sig comps) = Ok tc) <-> tuple_free tc = true) /\
    ((forall comps, Validate (Param sig comps) = Err EUnsupportedType) <-> tuple_free tc = false).
Proof.
  intros H. destruct (tuple_free tc) eqn:F.
  - destruct (reparse_signature_tuple_free p tc H F) as (sig & E & A). exists sig. split; [exact E|].
    split; split; auto; intros B; [|discriminate]. specialize (A []). specialize (B []). congruence.
  - destruct (reparse_signature_tuple_refused tc F) as (sig & E & A). exists sig. split; [exact E|].
    split; split; auto; intros B; [|discriminate]. specialize (A []). specialize (B []). congruence.
Qed.

(* ---------- I7: the fixed lengths of an accepted tree and Go's  int  ---------- *)
(* parseArrayM stores  ac.arrayLength = int(val) ; the model keeps the value in N.  Every fixed length of an
   accepted tree is < 2^32, hence representable when  int  has 64 bits (the declared platform assumption);
   it is NOT always < 2^31, so with a 32-bit  int  the conversion would wrap for lengths 2^31 .. 2^32-1. *)
Fixpoint tc_lengths_lt (b : N) (tc : tcomp) : bool :=
  match tc with
  | CElem _ _ _ _ => true
  | CFixedArr c k => (k <? b)%N && tc_lengths_lt b c
  | CDynArr c => tc_lengths_lt b c
  | CTuple l => (fix go (l : list tcomp) : bool :=
                   match l with [] => true | c :: r => tc_lengths_lt b c && go r end) l
  end.

Lemma tc_lengths_lt_tuple b l : tc_lengths_lt b (CTuple l) = forallb (tc_lengths_lt b) l.
Proof. cbn [tc_lengths_lt]. induction l as [|c r IH]; [reflexivity|]. cbn [forallb]. rewrite IH. reflexivity. Qed.

Lemma lengths_of_dims_ok tc : forall t, ty_of tc = Some t -> dims_ok t = true -> tc_lengths_lt (2 ^ 32) tc = true.
Proof.
  induction tc as [et s m n|c k IH|c IH|l IH] using tcomp_ind'; intros t Ht Hd.
  - reflexivity.
  - cbn [ty_of] in Ht. destruct (ty_of c) as [t'|]; [|discriminate]. injection Ht as <-.
    cbn [dims_ok] in Hd. apply andb_prop in Hd. destruct Hd as [H1 H2].
    cbn [tc_lengths_lt]. rewrite H1. cbn [andb]. exact (IH t' eq_refl H2).
  - cbn [ty_of] in Ht. destruct (ty_of c) as [t'|]; [|discriminate]. injection Ht as <-.
    cbn [dims_ok] in Hd. cbn [tc_lengths_lt]. exact (IH t' eq_refl Hd).
  - rewrite ty_of_tuple in Ht. destruct (ty_of_list l) as [ts|] eqn:E; [|discriminate]. injection Ht as <-.
    cbn [dims_ok] in Hd. rewrite tc_lengths_lt_tuple. revert ts E Hd.
    induction IH as [|c r Hc Hr IHr]; intros ts E Hd; [reflexivity|].
    cbn [ty_of_list] in E. destruct (ty_of c) as [t|] eqn:Ec; [|discriminate].
    destruct (ty_of_list r) as [ts'|]; [|discriminate]. injection E as <-.
    cbn [forallb] in Hd |- *. apply andb_prop in Hd. destruct Hd as [H1 H2].
    rewrite (Hc t eq_refl H1). cbn [andb]. exact (IHr ts' eq_refl H2).
Qed.

Theorem accepted_lengths_fit_int64 p tc : Validate p = Ok tc -> tc_lengths_lt (2 ^ 32) tc = true.
Proof.
  intros H. destruct (accepted_is_typed _ _ H) as (t & Ht & V & _).
  unfold valid_type in V. apply andb_prop in V. destruct V as [_ Hd].
  exact (lengths_of_dims_ok tc t Ht Hd).
Qed.

Theorem accepted_lengths_exceed_int32 :
  exists tc, Validate (Param (T "uint8[2147483648]") []) = Ok tc /\ tc_lengths_lt (2 ^ 31) tc = false.
Proof. eexists. split; vm_compute; reflexivity. Qed.
