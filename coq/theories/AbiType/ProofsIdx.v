(* Referee issue I1: the index-explicit transcription (ModelIdx.v) computes exactly the functions of Model.v.
   Consequence: no index read  s[pos] , no slice and no remainder of the parser panics, on any input --
   the `<> Panic` of C13_total is a statement about all of these operations, not only about the two
   slice expressions that Model.v keeps explicit. *)
From Coq Require Import String.
From Coq Require Import List NArith Bool Arith Lia.
From Coq Require Import Init.Byte.
From FFS Require Import Base.Res Base.Bytes Abi.Types Gen.AbiConsts
  AbiType.Syntax AbiType.Spec AbiType.Model AbiType.ModelIdx AbiType.ProofsMain.
Import ListNotations.

Lemma nth_skipn (s : bytes) : forall pos, (pos < length s)%nat ->
  exists b, nth_error s pos = Some b /\ skipn pos s = b :: skipn (S pos) s.
Proof.
  induction s as [|a s IH]; intros [|pos] H; cbn [length] in H; try lia.
  - exists a. split; reflexivity.
  - destruct (IH pos) as (b & H1 & H2); [lia|]. exists b. split; [exact H1|exact H2].
Qed.

Lemma scan_until_idx_spec fuel : forall s c pos acc, (length s - pos < fuel)%nat ->
  scan_until_idx fuel s c pos acc =
  Ok (acc ++ until c (skipn pos s), (pos + length (until c (skipn pos s)))%nat).
Proof.
  induction fuel as [|fuel IH]; intros s c pos acc H; [lia|]. cbn [scan_until_idx].
  destruct (pos <? length s)%nat eqn:L.
  - apply Nat.ltb_lt in L. destruct (nth_skipn s pos L) as (b & Hn & Hs). unfold index. rewrite Hn.
    cbn [bind]. rewrite Hs. cbn [until]. destruct (byte_eqb b c).
    + cbn [length]. rewrite app_nil_r, Nat.add_0_r. reflexivity.
    + rewrite IH by lia. rewrite <- app_assoc. cbn [app length]. do 2 f_equal. lia.
  - apply Nat.ltb_ge in L. rewrite skipn_all2 by lia. cbn [until length].
    rewrite app_nil_r, Nat.add_0_r. reflexivity.
Qed.

Lemma copy_idx_spec fuel : forall s pos acc, (length s - pos < fuel)%nat ->
  copy_idx fuel s pos acc = Ok (acc ++ skipn pos s).
Proof.
  induction fuel as [|fuel IH]; intros s pos acc H; [lia|]. cbn [copy_idx].
  destruct (pos <? length s)%nat eqn:L.
  - apply Nat.ltb_lt in L. destruct (nth_skipn s pos L) as (b & Hn & Hs). unfold index. rewrite Hn.
    cbn [bind]. rewrite IH by lia. rewrite Hs, <- app_assoc. reflexivity.
  - apply Nat.ltb_ge in L. rewrite skipn_all2 by lia. rewrite app_nil_r. reflexivity.
Qed.

Theorem splitElementaryTypeSuffix_idx_eq s pos :
  splitElementaryTypeSuffix_idx s pos = Ok (splitElementaryTypeSuffix s pos).
Proof.
  unfold splitElementaryTypeSuffix_idx. rewrite scan_until_idx_spec by lia. cbn [bind fst snd app].
  rewrite copy_idx_spec by lia. cbn [bind app]. unfold splitElementaryTypeSuffix. cbv zeta.
  rewrite skipn_skipn'. reflexivity.
Qed.

Theorem parseMSuffix_idx_eq et suffix : parseMSuffix_idx et suffix = parseMSuffix et suffix.
Proof.
  unfold parseMSuffix_idx, parseMSuffix. destruct (parse_uint suffix parse_m_bits) as [v|]; [|reflexivity].
  destruct (isCanonicalDecimal v suffix) as [canon|e|]; cbn [bind]; try reflexivity.
  destruct (negb canon); [reflexivity|]. cbv zeta.
  destruct ((v mod 65536 <? et_mMin et)%N || (et_mMax et <? v mod 65536)%N); [reflexivity|].
  unfold mod_go. destruct (et_mMod et =? 0)%N; cbn [negb bind andb]; [reflexivity|].
  destruct (negb ((v mod 65536) mod et_mMod et =? 0)%N); reflexivity.
Qed.

Theorem parseMxNSuffix_idx_eq et suffix : parseMxNSuffix_idx et suffix = parseMxNSuffix et suffix.
Proof.
  unfold parseMxNSuffix_idx, parseMxNSuffix. rewrite scan_until_idx_spec by lia.
  cbn [bind fst snd app skipn Nat.add]. cbv zeta.
  destruct (length suffix <=? length (until ch_x suffix) + 1)%nat; [reflexivity|].
  rewrite parseMSuffix_idx_eq. reflexivity.
Qed.

Theorem parseArrays_idx_eq fuel : forall child suffix,
  parseArrays_idx fuel child suffix = parseArrays fuel child suffix.
Proof.
  induction fuel as [|fuel IH]; intros child suffix; [reflexivity|].
  cbn [parseArrays_idx parseArrays]. destruct suffix as [|c r]; [reflexivity|].
  cbn [length Nat.leb index nth_error bind]. destruct (byte_eqb c ch_lbrack); cbn [negb]; [|reflexivity].
  rewrite scan_until_idx_spec by (cbn [length]; lia).
  cbn [bind fst snd app skipn Nat.add length]. cbv zeta.
  repeat match goal with
  | |- (if ?b then _ else _) = (if ?b then _ else _) => destruct b; try reflexivity
  | |- bind ?r _ = bind ?r _ => destruct r; cbn [bind]; try reflexivity
  end.
  apply IH.
Qed.

Theorem parse_elementary_idx_eq et suffix : parse_elementary_idx et suffix = parse_elementary et suffix.
Proof.
  unfold parse_elementary_idx, parse_elementary. cbv zeta.
  destruct (et_suffix et); try reflexivity;
    repeat match goal with |- context [if ?b then _ else _] => destruct b end;
    rewrite ?parseMSuffix_idx_eq, ?parseMxNSuffix_idx_eq; reflexivity.
Qed.

(* the whole parser *)
Theorem parse_idx_eq p : parse_idx p = Validate p.
Proof.
  induction p as [t cs IH] using param_ind'. unfold Validate.
  cbn [parse_idx parseABIParameterComponents]. cbv zeta.
  rewrite splitElementaryTypeSuffix_idx_eq. cbn [bind].
  destruct (splitElementaryTypeSuffix t (length (take_lower t))) as [suffix arrays]. cbn [fst snd].
  match goal with |- bind ?a _ = bind ?b _ =>
    assert (A : a = b); [|rewrite A; destruct b; cbn [bind]; rewrite ?parseArrays_idx_eq; reflexivity]
  end.
  destruct (bytes_eqb (take_lower t) (ascii_bytes tuple_type_string)).
  - destruct (negb (is_nil suffix)); [reflexivity|].
    match goal with |- bind (?F cs) _ = bind (?G cs) _ =>
      assert (E : F cs = G cs)
    end.
    { induction IH as [|x l Hx Hl IHl]; [reflexivity|]. unfold Validate in Hx. rewrite Hx.
      destruct (parseABIParameterComponents x); try reflexivity. cbn [bind]. rewrite IHl. reflexivity. }
    rewrite E. reflexivity.
  - destruct (lookup_et (take_lower t)) as [et|]; [|reflexivity]. rewrite parse_elementary_idx_eq. reflexivity.
Qed.

Theorem parse_idx_total p : parse_idx p <> Panic /\ parse_idx p <> Err EOutOfFuel.
Proof. rewrite parse_idx_eq. apply validate_total. Qed.

(* the partial operations CAN panic: what the guards of the loops and the  mMod != 0  test prevent *)
Theorem idx_operations_can_panic :
  index (T "8") 1 = Panic /\                                              (* s[len(s)] *)
  mod_go 8 0 = Panic /\                                                   (* m % 0 *)
  (* suffix[pos+1:] for the suffix "8" (no 'x'), which the guard  pos >= len(suffix)-1  of parseMxNSuffix
     keeps from being evaluated: with the guard the answer is an error *)
  slice_from (T "8") (length (until ch_x (T "8")) + 1) = Panic /\
  match lookup_et (T "fixed") with
  | Some et => parseMxNSuffix_idx et (T "8") = Err EInvalidSuffix
  | None => False
  end.
Proof. repeat split; vm_compute; reflexivity. Qed.
