(* Proofs about the model of the ABI type parser (C13). *)
From Coq Require Import String.
From Coq Require Import List NArith Bool Arith Lia.
From Coq Require Import Init.Byte.
From FFS Require Import Base.Res Base.Bytes Abi.Types Gen.AbiConsts
  AbiType.Syntax AbiType.Spec AbiType.Model AbiType.Abs.
Import ListNotations.

Lemma empty_type_rejected comps : Validate (Param [] comps) = Err EUnsupportedType.
Proof. reflexivity. Qed.
