(* C13 end to end for parameter LISTS: ParameterArray.TypeComponentTree is the parse of the tuple of the
   parameters, and Entry.Signature is the entry's name followed by the canonical spelling of that tuple
   type -- produced exactly when every input spells a valid type, an error otherwise, never a panic. *)
From Coq Require Import String.
From Coq Require Import List NArith Bool Arith Lia.
From Coq Require Import Init.Byte.
From FFS Require Import Base.Res Base.Bytes Abi.Types Gen.AbiConsts
  AbiType.Syntax AbiType.Spec AbiType.Model AbiType.Abs AbiType.ModelSig
  AbiType.ProofsDec AbiType.ProofsArr AbiType.ProofsElem AbiType.ProofsLeaf AbiType.ProofsMain.
Import ListNotations.

Lemma pa_children_parse_list pa : pa_children pa = parse_list pa.
Proof. induction pa as [|p r IH]; [reflexivity|]. cbn [pa_children parse_list]. rewrite IH. reflexivity. Qed.

(* 1. the list seen as a tuple: the same as validating the parameter object {"type":"tuple","components":pa} *)
Theorem param_array_tree_is_tuple pa :
  ParameterArrayTree pa = Validate (Param (T "tuple") pa).
Proof.
  unfold ParameterArrayTree, Validate. rewrite parse_unfold, pa_children_parse_list.
  change (take_lower (T "tuple")) with (T "tuple").
  change (splitElementaryTypeSuffix (T "tuple") (length (T "tuple"))) with (@nil byte, @nil byte).
  cbv zeta. cbn [fst snd is_nil negb]. unfold parse_base.
  change (bytes_eqb (T "tuple") (ascii_bytes tuple_type_string)) with true. cbn [is_nil negb].
  destruct (parse_list pa); reflexivity.
Qed.

(* 2. the signature loop *)
Fixpoint sigs (l : list param) : res (list bytes) :=
  match l with
  | [] => Ok []
  | p :: r => do s <- SignatureString p; do ss <- sigs r; Ok (s :: ss)
  end.

Definition commas (ss : list bytes) : bytes := concat (map (fun s => ch_comma :: s) ss).

Lemma signature_loop_S : forall l i buff,
  signature_loop (S i) l buff = do ss <- sigs l; Ok (buff ++ commas ss).
Proof.
  induction l as [|p r IH]; intros i buff; cbn [signature_loop sigs].
  - cbn. rewrite app_nil_r. reflexivity.
  - change (0 <? S i)%nat with true. cbv iota zeta.
    destruct (SignatureString p) as [s| |]; try reflexivity. cbn [bind]. rewrite IH.
    destruct (sigs r) as [ss| |]; try reflexivity. cbn [bind]. unfold commas. cbn [map concat].
    rewrite <- !app_assoc. reflexivity.
Qed.

Lemma join_commas s ss : join [ch_comma] (s :: ss) = s ++ commas ss.
Proof.
  revert s. induction ss as [|y r IH]; intros s.
  - cbn. rewrite app_nil_r. reflexivity.
  - change (join [ch_comma] (s :: y :: r)) with (s ++ [ch_comma] ++ join [ch_comma] (y :: r)).
    rewrite IH. unfold commas. cbn [map concat]. reflexivity.
Qed.

Lemma sigs_strings l : sigs l = do cs <- pa_children l; tc_string_list cs.
Proof.
  induction l as [|p r IH]; [reflexivity|]. cbn [sigs pa_children]. unfold SignatureString at 1.
  destruct (Validate p) as [x| |]; try reflexivity. cbn [bind].
  destruct (tc_string_ok x) as [s Hs]. rewrite Hs. cbn [bind]. rewrite IH.
  destruct (pa_children r) as [xs| |]; try reflexivity. cbn [bind tc_string_list]. rewrite Hs. reflexivity.
Qed.

Theorem entry_signature_is_tuple name inputs :
  EntrySignature name inputs = do tc <- ParameterArrayTree inputs; do s <- tc_string tc; Ok (name ++ s).
Proof.
  unfold EntrySignature, ParameterArrayTree.
  assert (E : signature_loop 0 inputs (name ++ [ch_lparen]) =
              do ss <- sigs inputs; Ok (name ++ [ch_lparen] ++ join [ch_comma] ss)).
  { destruct inputs as [|p r]; [cbn [signature_loop sigs bind join]; rewrite app_nil_r; reflexivity|].
    cbn [signature_loop sigs]. change (0 <? 0)%nat with false. cbv iota zeta.
    destruct (SignatureString p) as [s| |]; try reflexivity. cbn [bind]. rewrite signature_loop_S.
    destruct (sigs r) as [ss| |]; try reflexivity. cbn [bind]. rewrite join_commas, <- !app_assoc. reflexivity. }
  rewrite E, sigs_strings. destruct (pa_children inputs) as [cs| |]; try reflexivity. cbn [bind].
  rewrite tc_string_tuple. destruct (tc_string_list cs) as [ss| |]; try reflexivity. cbn [bind].
  rewrite <- !app_assoc. reflexivity.
Qed.

(* 3. end to end against the grammar *)
Theorem entry_signature_total name inputs :
  EntrySignature name inputs <> Panic /\ EntrySignature name inputs <> Err EOutOfFuel.
Proof.
  rewrite entry_signature_is_tuple, param_array_tree_is_tuple.
  destruct (validate_total (Param (T "tuple") inputs)) as [P1 P2].
  destruct (Validate (Param (T "tuple") inputs)) as [tc|e|]; cbn [bind];
    [|split; [discriminate|intros X; apply P2; injection X as ->; reflexivity]|exfalso; apply P1; reflexivity].
  destruct (tc_string_ok tc) as [s ->]. split; discriminate.
Qed.

Theorem entry_signature_accept name inputs ts :
  forallb valid_type ts = true -> members ts inputs ->
  EntrySignature name inputs = Ok (name ++ canonical (TTuple ts)) /\
  exists cs, ParameterArrayTree inputs = Ok (CTuple cs) /\ ty_of (CTuple cs) = Some (TTuple ts).
Proof.
  intros V M. rewrite entry_signature_is_tuple, param_array_tree_is_tuple.
  assert (V' : valid_type (TTuple ts) = true) by (rewrite valid_tuple; exact V).
  assert (S : spelling (TTuple ts) (T "tuple") inputs) by (apply spelling_tuple; auto).
  destruct (validate_complete _ _ _ V' S) as (tc & H & Ht).
  destruct (validate_sound _ _ H) as (t' & U1 & _ & _ & U4 & _).
  assert (t' = TTuple ts) by congruence. subst t'.
  rewrite H. cbn [bind]. rewrite U4. split; [reflexivity|].
  pose proof (param_array_tree_is_tuple inputs) as PT. rewrite H in PT. unfold ParameterArrayTree in PT.
  destruct (pa_children inputs) as [cs| |]; try discriminate. cbn [bind] in PT. injection PT as <-.
  exists cs. split; [reflexivity|exact Ht].
Qed.

Theorem entry_signature_sound name inputs sig :
  EntrySignature name inputs = Ok sig ->
  exists ts, forallb valid_type ts = true /\ members ts inputs /\ sig = name ++ canonical (TTuple ts).
Proof.
  rewrite entry_signature_is_tuple. intros H.
  destruct (ParameterArrayTree inputs) as [tc| |] eqn:PT; try discriminate. cbn [bind] in H.
  pose proof PT as PT'. unfold ParameterArrayTree in PT'.
  destruct (pa_children inputs) as [cs| |]; try discriminate. cbn [bind] in PT'. injection PT' as <-.
  rewrite param_array_tree_is_tuple in PT.
  destruct (validate_sound _ _ PT) as (t & U1 & U2 & U3 & U4 & _). cbn [p_type p_comps] in U3.
  rewrite ty_of_tuple in U1. destruct (ty_of_list cs) as [ts|]; [|discriminate]. injection U1 as <-.
  rewrite U4 in H. cbn [bind] in H. injection H as <-.
  exists ts. rewrite valid_tuple in U2. apply spelling_tuple in U3. destruct U3 as [_ M]. auto.
Qed.

Theorem entry_signature_reject name inputs :
  (exists e, EntrySignature name inputs = Err e) <->
  ~ (exists ts, forallb valid_type ts = true /\ members ts inputs).
Proof.
  split.
  - intros (e & He) (ts & V & M). destruct (entry_signature_accept name inputs ts V M) as [H _]. congruence.
  - intros N. destruct (entry_signature_total name inputs) as [P1 _].
    destruct (EntrySignature name inputs) as [sig|e|] eqn:E; [|eauto|congruence].
    exfalso. apply N. destruct (entry_signature_sound _ _ _ E) as (ts & V & M & _). eauto.
Qed.
