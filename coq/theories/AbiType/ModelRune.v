(* Wave 6.  The base-name scan of parseABIParameterComponents as the Go source writes it:

     for _, r := range abiTypeString { if r >= 'a' && r <= 'z' { etBuilder.WriteRune(r) } else { break } }

   i.e. over the RUNES of the type text (UTF-8 decoding by the Go runtime, RuneError = U+FFFD and an advance
   of one byte on an invalid sequence), writing each accepted rune back in UTF-8.  Model.v scans bytes
   ([take_lower]); ProofsRune.v proves the two scans equal for every byte string.  [decode_rune] is a
   transcription of utf8.DecodeRuneInString (unicode/utf8: table first[], acceptRanges) -- the semantics of the
   range loop --, [encode_rune] of utf8.AppendRune (strings.Builder.WriteRune).  No proofs here. *)
From Coq Require Import List NArith Bool Arith.
From Coq Require Import Init.Byte.
From FFS Require Import Base.Res Base.Bytes AbiType.Model.
Import ListNotations.
Open Scope N_scope.

Definition rune_error : N := 65533.   (* utf8.RuneError = U+FFFD *)

(* continuation byte 0x80..0xBF (locb..hicb) *)
Definition is_cont (c : N) : bool := (128 <=? c) && (c <=? 191).

(* (rune, width); width 0 only for the empty string, (RuneError, 1) for every invalid or truncated sequence.
   Go tests  n < sz  before the range of s[1]; both answer (RuneError, 1), so the nested matches below (a
   missing byte = "n < sz") return the same pair in every case. *)
Definition decode_rune (s : bytes) : N * nat :=
  match s with
  | [] => (rune_error, 0%nat)
  | b0 :: r =>
    let c0 := b2n b0 in
    if c0 <? 128 then (c0, 1%nat) else                                  (* first[c0] = as *)
    if (c0 <? 194) || (244 <? c0) then (rune_error, 1%nat) else         (* 0x80..0xC1, 0xF5..0xFF: xx *)
    (* acceptRanges: the range of the second byte excludes overlong forms, surrogates and > U+10FFFF *)
    let lo := if c0 =? 224 then 160 else if c0 =? 240 then 144 else 128 in
    let hi := if c0 =? 237 then 159 else if c0 =? 244 then 143 else 191 in
    match r with
    | [] => (rune_error, 1%nat)
    | b1 :: r1 =>
      let c1 := b2n b1 in
      if c0 <? 224 then                                                 (* sz = 2 *)
        if (c1 <? lo) || (hi <? c1) then (rune_error, 1%nat)
        else ((c0 mod 32) * 64 + c1 mod 64, 2%nat)
      else
        match r1 with
        | [] => (rune_error, 1%nat)
        | b2 :: r2 =>
          let c2 := b2n b2 in
          if c0 <? 240 then                                             (* sz = 3 *)
            if (c1 <? lo) || (hi <? c1) then (rune_error, 1%nat)
            else if negb (is_cont c2) then (rune_error, 1%nat)
            else ((c0 mod 16) * 4096 + (c1 mod 64) * 64 + c2 mod 64, 3%nat)
          else                                                          (* sz = 4 *)
            match r2 with
            | [] => (rune_error, 1%nat)
            | b3 :: _ =>
              let c3 := b2n b3 in
              if (c1 <? lo) || (hi <? c1) then (rune_error, 1%nat)
              else if negb (is_cont c2) then (rune_error, 1%nat)
              else if negb (is_cont c3) then (rune_error, 1%nat)
              else ((c0 mod 8) * 262144 + (c1 mod 64) * 4096 + (c2 mod 64) * 64 + c3 mod 64, 4%nat)
            end
        end
    end
  end.

(* utf8.AppendRune (runes are never negative here: they come from decode_rune) *)
Definition encode_rune (r : N) : bytes :=
  if r <? 128 then [n2b r]
  else if r <? 2048 then [n2b (192 + r / 64); n2b (128 + r mod 64)]
  else if (1114111 <? r) || ((55296 <=? r) && (r <=? 57343)) then [xef; xbf; xbd]
  else if r <? 65536 then [n2b (224 + r / 4096); n2b (128 + (r / 64) mod 64); n2b (128 + r mod 64)]
  else [n2b (240 + r / 262144); n2b (128 + (r / 4096) mod 64); n2b (128 + (r / 64) mod 64); n2b (128 + r mod 64)].

(* for i, r := range s : the (rune, width) pairs in order *)
Fixpoint runes_of (fuel : nat) (s : bytes) : res (list (N * nat)) :=
  match s with
  | [] => Ok []
  | _ :: _ =>
    match fuel with
    | O => Err EOutOfFuel
    | S f =>
      let '(r, w) := decode_rune s in
      do rest <- runes_of f (skipn w s); Ok ((r, w) :: rest)
    end
  end.

(* the loop above: etBuilder.String() *)
Fixpoint etStr_runes (fuel : nat) (s : bytes) : res bytes :=
  match s with
  | [] => Ok []
  | _ :: _ =>
    match fuel with
    | O => Err EOutOfFuel
    | S f =>
      let '(r, w) := decode_rune s in
      if (97 <=? r) && (r <=? 122)                                      (* r >= 'a' && r <= 'z' *)
      then do rest <- etStr_runes f (skipn w s); Ok (encode_rune r ++ rest)
      else Ok []                                                        (* break *)
    end
  end.

(* the scan with the fuel the parser would give it *)
Definition etStr (s : bytes) : res bytes := etStr_runes (length s) s.
Definition runes (s : bytes) : res (list (N * nat)) := runes_of (length s) s.
