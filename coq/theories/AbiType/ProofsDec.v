(* Decimal numerals: the spec's [dec] is the canonical numeral; the model's strconv.FormatUint and
   strconv.ParseUint agree with it. *)
From Coq Require Import String.
From Coq Require Import List NArith Bool Arith Lia.
From Coq Require Import Init.Byte.
From FFS Require Import Base.Res Base.Bytes Gen.AbiConsts AbiType.Syntax AbiType.Spec AbiType.Model.
Import ListNotations.
Local Open Scope N_scope.

Definition dch (d : N) : byte := n2b (48 + d).

Lemma b2n_dch d : d < 10 -> b2n (dch d) = 48 + d.
Proof. intros H. unfold dch. apply b2n_n2b. lia. Qed.

Lemma is_digit_dch d : d < 10 -> is_digit (dch d) = true.
Proof.
  intros H. unfold is_digit. rewrite b2n_dch by exact H.
  apply andb_true_intro; split; apply N.leb_le; lia.
Qed.

Lemma digit_of_dch d : d < 10 -> digit_of (dch d) = Some d.
Proof.
  intros H. unfold digit_of. rewrite b2n_dch by exact H.
  replace (48 <=? 48 + d) with true by (symmetry; apply N.leb_le; lia).
  replace (48 + d <=? 57) with true by (symmetry; apply N.leb_le; lia).
  cbn [andb]. f_equal. lia.
Qed.

(* ---------- fuel ---------- *)
Lemma log2_fuel n : n < 2 ^ N.of_nat (S (N.to_nat (N.log2 n))).
Proof.
  rewrite Nat2N.inj_succ, N2Nat.id.
  destruct (N.eq_dec n 0) as [->|Hn]; [simpl; lia|].
  apply N.log2_spec. lia.
Qed.

Lemma div10_fuel f n : 10 <= n -> n < 2 ^ N.of_nat (S f) -> n / 10 < 2 ^ N.of_nat f.
Proof.
  intros H10 H. rewrite Nat2N.inj_succ, N.pow_succ_r' in H.
  apply N.div_lt_upper_bound; lia.
Qed.

Lemma dec_fuel_S f n :
  dec_fuel (S f) n = if n <? 10 then [dch n] else dec_fuel f (n / 10) ++ [dch (n mod 10)].
Proof. reflexivity. Qed.

Lemma dec_fuel_indep f : forall f' n, n < 2 ^ N.of_nat (S f) -> n < 2 ^ N.of_nat (S f') ->
  dec_fuel (S f) n = dec_fuel (S f') n.
Proof.
  induction f as [|f IH]; intros f' n H H'.
  - change (2 ^ N.of_nat 1) with 2 in H. rewrite !dec_fuel_S.
    destruct (N.ltb_spec n 10) as [L|G]; [reflexivity|lia].
  - rewrite !dec_fuel_S. destruct (N.ltb_spec n 10) as [L|G]; [reflexivity|].
    f_equal. pose proof (div10_fuel _ _ G H) as D. pose proof (div10_fuel _ _ G H') as D'.
    assert (1 <= n / 10) by (apply N.div_le_lower_bound; lia).
    destruct f' as [|f']; [simpl in D'; lia|].
    apply IH; assumption.
Qed.

Lemma dec_unfold n : dec n = if n <? 10 then [dch n] else dec (n / 10) ++ [dch (n mod 10)].
Proof.
  unfold dec at 1. rewrite dec_fuel_S. destruct (N.ltb_spec n 10) as [L|G]; [reflexivity|].
  f_equal. unfold dec.
  pose proof (div10_fuel _ _ G (log2_fuel n)) as D.
  assert (1 <= n / 10) by (apply N.div_le_lower_bound; lia).
  destruct (N.to_nat (N.log2 n)) as [|f]; [simpl in D; lia|].
  apply dec_fuel_indep; [exact D|apply log2_fuel].
Qed.

(* strong induction on numerals *)
Lemma dec_ind (P : N -> Prop) :
  (forall n, n < 10 -> P n) -> (forall n, 10 <= n -> P (n / 10) -> P n) -> forall n, P n.
Proof.
  intros Hs Hb n. induction n as [n IH] using (well_founded_induction N.lt_wf_0).
  destruct (N.ltb_spec n 10) as [L|G]; [apply Hs; exact L|].
  apply Hb; [exact G|]. apply IH. apply N.div_lt; lia.
Qed.

Lemma dec_small n : n < 10 -> dec n = [dch n].
Proof. intros H. rewrite dec_unfold. apply N.ltb_lt in H. rewrite H. reflexivity. Qed.
Lemma dec_big n : 10 <= n -> dec n = dec (n / 10) ++ [dch (n mod 10)].
Proof. intros H. rewrite dec_unfold. apply N.ltb_ge in H. rewrite H. reflexivity. Qed.

Lemma dec_nonnil n : dec n <> [].
Proof.
  rewrite dec_unfold. destruct (n <? 10); [discriminate|].
  intros H. apply app_eq_nil in H. destruct H; discriminate.
Qed.

Lemma dec_digits n : Forall (fun b => is_digit b = true) (dec n).
Proof.
  induction n as [n L|n G IH] using dec_ind.
  - rewrite dec_small by exact L. constructor; [|constructor]. apply is_digit_dch; exact L.
  - rewrite dec_big by exact G. apply Forall_app; split; [exact IH|].
    constructor; [|constructor]. apply is_digit_dch. apply N.mod_lt. lia.
Qed.

(* ---------- the model's formatter computes [dec] ---------- *)
Lemma format_go_dec f : forall n acc, n < 2 ^ N.of_nat (S f) ->
  format_go (S f) n acc = Ok (dec n ++ acc).
Proof.
  induction f as [|f IH]; intros n acc H.
  - simpl in H. assert (L : n < 10) by lia.
    cbn [format_go]. pose proof L as L'. apply N.ltb_lt in L'. rewrite L'.
    rewrite dec_small by exact L. reflexivity.
  - cbn [format_go]. destruct (N.ltb_spec n 10) as [L|G].
    + rewrite dec_small by exact L. reflexivity.
    + change (format_go (S f) (n / 10) (digit_char (n mod 10) :: acc) = Ok (dec n ++ acc)).
      rewrite IH by (apply div10_fuel; assumption).
      rewrite (dec_big n G), <- app_assoc. reflexivity.
Qed.

Lemma format_uint_dec n : format_uint n = Ok (dec n).
Proof.
  unfold format_uint. rewrite format_go_dec by apply log2_fuel. rewrite app_nil_r. reflexivity.
Qed.

(* ---------- values ---------- *)
Lemma dec_value_acc_app s1 : forall s2 acc,
  dec_value_acc (s1 ++ s2) acc =
  match dec_value_acc s1 acc with Some v => dec_value_acc s2 v | None => None end.
Proof.
  induction s1 as [|c s1 IH]; intros s2 acc; [reflexivity|].
  simpl. destruct (digit_of c); [apply IH|reflexivity].
Qed.

Lemma dec_value_acc_dec n : dec_value_acc (dec n) 0 = Some n.
Proof.
  induction n as [n L|n G IH] using dec_ind.
  - rewrite dec_small by exact L. cbn [dec_value_acc]. rewrite digit_of_dch by exact L. f_equal.
  - rewrite dec_big by exact G. rewrite dec_value_acc_app, IH. cbn [dec_value_acc].
    rewrite digit_of_dch by (apply N.mod_lt; lia). f_equal.
    assert (T10 : 10 <> 0) by lia. pose proof (N.div_mod n 10 T10). lia.
Qed.

Lemma dec_value_dec n : dec_value (dec n) = Some n.
Proof.
  unfold dec_value. pose proof (dec_nonnil n). destruct (dec n) eqn:E; [congruence|].
  rewrite <- E. apply dec_value_acc_dec.
Qed.

Lemma hd_dec_big n : 10 <= n -> exists c r, dec n = c :: r /\ r <> [] /\ b2n c <> 48.
Proof.
  induction n as [n L|n G IH] using dec_ind; intros H; [lia|].
  rewrite dec_big by exact G.
  destruct (N.ltb_spec (n / 10) 10) as [L'|G'].
  - rewrite dec_small by exact L'. exists (dch (n / 10)), [dch (n mod 10)].
    split; [reflexivity|]. split; [discriminate|]. rewrite b2n_dch by exact L'.
    assert (1 <= n / 10) by (apply N.div_le_lower_bound; lia). lia.
  - destruct (IH G') as (c & r & E & Hr & Hc). rewrite E.
    exists c, (r ++ [dch (n mod 10)]). split; [reflexivity|]. split; [|exact Hc].
    intros X. apply app_eq_nil in X. destruct X; discriminate.
Qed.

Lemma no_leading_zero_dec n : no_leading_zero (dec n) = true.
Proof.
  destruct (N.ltb_spec n 10) as [L|G].
  - rewrite dec_small by exact L. reflexivity.
  - destruct (hd_dec_big n G) as (c & r & E & Hr & Hc). rewrite E.
    destruct r; [congruence|]. simpl. apply negb_true_iff. apply N.eqb_neq. exact Hc.
Qed.

Lemma is_dec_dec n : is_dec n (dec n).
Proof. split; [apply dec_value_dec|apply no_leading_zero_dec]. Qed.

(* ---------- the model's ParseUint ---------- *)
Lemma digits_value_spec s : forall acc, digits_value s acc = dec_value_acc s acc.
Proof.
  induction s as [|c s IH]; intros acc; [reflexivity|].
  cbn [digits_value dec_value_acc]. unfold digit_of, is_digit.
  destruct ((48 <=? b2n c) && (b2n c <=? 57)); [|reflexivity].
  rewrite IH. f_equal. lia.
Qed.

Lemma parse_uint_spec s bits :
  parse_uint s bits = match dec_value s with
                      | Some v => if v <? 2 ^ bits then Some v else None
                      | None => None
                      end.
Proof.
  unfold parse_uint, dec_value. destruct s as [|c s]; [reflexivity|].
  rewrite digits_value_spec. reflexivity.
Qed.

(* ParseUint succeeded and the canonical-decimal test passed  <->  the text is [dec v], in range *)
Definition canon_uint (s : bytes) (bits : N) : option N :=
  match parse_uint s bits with
  | Some v => match isCanonicalDecimal v s with Ok true => Some v | _ => None end
  | None => None
  end.

Lemma canon_uint_iff s bits v : canon_uint s bits = Some v <-> s = dec v /\ v < 2 ^ bits.
Proof.
  unfold canon_uint, isCanonicalDecimal. split.
  - destruct (parse_uint s bits) as [v'|] eqn:E; [|discriminate].
    rewrite format_uint_dec. cbn [bind].
    destruct (bytes_eqb_spec (dec v') s) as [Es|]; [|discriminate].
    intros H; injection H as ->. split; [symmetry; exact Es|].
    rewrite parse_uint_spec in E. destruct (dec_value s); [|discriminate].
    destruct (N.ltb_spec n (2 ^ bits)); [|discriminate]. injection E as ->. assumption.
  - intros [-> H]. rewrite parse_uint_spec, dec_value_dec.
    apply N.ltb_lt in H. rewrite H. rewrite format_uint_dec. cbn [bind].
    destruct (bytes_eqb_spec (dec v) (dec v)); congruence.
Qed.

Lemma isCanonicalDecimal_ok v s : isCanonicalDecimal v s = Ok (bytes_eqb (dec v) s).
Proof. unfold isCanonicalDecimal. rewrite format_uint_dec. reflexivity. Qed.

Lemma dec_value_acc_cons c s acc :
  dec_value_acc (c :: s) acc =
  match digit_of c with Some d => dec_value_acc s (10 * acc + d) | None => None end.
Proof. reflexivity. Qed.
Lemma dec_value_acc_nil acc : dec_value_acc [] acc = Some acc.
Proof. reflexivity. Qed.

(* uniqueness of the canonical numeral: validates the spec's [dec] against [is_dec] *)
Lemma dec_value_acc_ge s : forall acc v, dec_value_acc s acc = Some v -> acc <= v.
Proof.
  induction s as [|c s IH]; intros acc v H; cbn [dec_value_acc] in H.
  - injection H as <-. lia.
  - destruct (digit_of c); [|discriminate]. apply IH in H. lia.
Qed.

Lemma digit_of_inv c d : digit_of c = Some d -> d < 10 /\ c = dch d.
Proof.
  unfold digit_of. destruct (N.leb_spec 48 (b2n c)) as [L1|L1]; cbn [andb]; [|discriminate].
  destruct (N.leb_spec (b2n c) 57) as [L2|L2]; [|discriminate].
  intros HH; injection HH as <-. split; [lia|]. unfold dch.
  replace (48 + (b2n c - 48)) with (b2n c) by lia. symmetry. apply n2b_b2n.
Qed.

Lemma is_dec_unique s : forall n, is_dec n s -> s = dec n.
Proof.
  induction s as [|c s IH] using rev_ind; intros n [Hv Hz]; [discriminate|].
  unfold dec_value in Hv.
  assert (Hv' : dec_value_acc (s ++ [c]) 0 = Some n) by (destruct (s ++ [c]); [discriminate|exact Hv]).
  clear Hv. rewrite dec_value_acc_app in Hv'.
  destruct (dec_value_acc s 0) as [v|] eqn:Ev; [|discriminate].
  rewrite dec_value_acc_cons in Hv'. destruct (digit_of c) as [d|] eqn:Ed; [|discriminate].
  rewrite dec_value_acc_nil in Hv'.
  assert (En : 10 * v + d = n) by (injection Hv' as X; exact X). clear Hv'. subst n.
  apply digit_of_inv in Ed. destruct Ed as [Hd ->].
  destruct s as [|c0 s].
  - rewrite dec_value_acc_nil in Ev. assert (Ev0 : 0 = v) by (injection Ev as X; exact X). subst v.
    replace (10 * 0 + d) with d by lia. rewrite dec_small by exact Hd. reflexivity.
  - (* at least two characters: the head is not '0', so v >= 1 *)
    assert (Hc0 : b2n c0 <> 48).
    { simpl in Hz. destruct (s ++ [dch d]) eqn:E; [destruct s; discriminate|].
      apply negb_true_iff in Hz. apply N.eqb_neq in Hz. exact Hz. }
    assert (Hv1 : 1 <= v).
    { rewrite dec_value_acc_cons in Ev. destruct (digit_of c0) as [d0|] eqn:Ed0; [|discriminate].
      apply dec_value_acc_ge in Ev. apply digit_of_inv in Ed0. destruct Ed0 as [Hd0 ->].
      rewrite b2n_dch in Hc0 by exact Hd0. lia. }
    assert (Hs : (c0 :: s) = dec v).
    { apply IH. split; [unfold dec_value; exact Ev|].
      simpl. destruct s; [reflexivity|]. apply negb_true_iff. apply N.eqb_neq. exact Hc0. }
    rewrite dec_big by lia.
    replace ((10 * v + d) / 10) with v by (apply N.div_unique with d; lia).
    replace ((10 * v + d) mod 10) with d by (apply N.mod_unique with v; lia).
    rewrite <- Hs. reflexivity.
Qed.

Lemma is_dec_iff n s : is_dec n s <-> s = dec n.
Proof. split; [apply is_dec_unique|intros ->; apply is_dec_dec]. Qed.
