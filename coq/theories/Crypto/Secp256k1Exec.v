(* The concrete curve secp256k1, EXECUTABLE (field arithmetic over Bignums.BigZ, Jacobian coordinates),
   packaged as an instance [secp256k1_ops] of the abstract record Ecdsa.group_ops.

   Used only to RUN pub / recover / verify / address inside the Run.v evaluators of the
   correspondence checks (so that keys, signatures and addresses produced by the Go code are judged by
   an implementation that shares nothing with btcec).  No theorem depends on this file and nothing is
   claimed here about [Ecdsa.laws secp256k1_ops]: that secp256k1 with this generator is a group of
   prime order n is the standard mathematical fact listed in the trusted base.  What IS checked (by
   vm_compute, below): G is on the curve, n*G = infinity, (n-1)*G = -G, 2G/3G published vectors,
   private key 1 -> address 0x7E5F4552091A69125d5DfCb7b8C2659029395Bdf, and a sign/recover vector.

   API (stable):
     point := option (Z * Z)                    affine, None = point at infinity
     secp256k1_ops : Ecdsa.group_ops            (pt := point)
     exec_pub      : Z -> point                 d |-> d*G
     exec_recover  : Z -> Z -> Z -> bool -> option point      z r s y-is-odd
     exec_verify   : point -> Z -> Z -> Z -> bool             Q z r s
     exec_sign     : Z -> Z -> Z -> option esig               d z k   (one attempt with nonce k)
     exec_address  : point -> bytes             last 20 bytes of keccak256 (X || Y), 32 bytes each
     exec_pub_bytes : point -> bytes            X || Y (64 bytes)
     z_to_be len z : bytes / be_to_z : bytes -> Z   big-endian conversions
     on_curve : point -> bool                                                                    *)
From Bignums Require Import BigZ.
From Coq Require Import ZArith List Bool.
From Coq Require Import Init.Byte.
From FFS Require Import Base.Bytes Base.Keccak Crypto.Ecdsa.
Import ListNotations.
Local Open Scope Z_scope.

Definition secp_p : Z := 0xFFFFFFFFFFFFFFFFFFFFFFFFFFFFFFFFFFFFFFFFFFFFFFFFFFFFFFFEFFFFFC2F.
Definition secp_n : Z := 0xFFFFFFFFFFFFFFFFFFFFFFFFFFFFFFFEBAAEDCE6AF48A03BBFD25E8CD0364141.
Definition secp_Gx : Z := 0x79BE667EF9DCBBAC55A06295CE870B07029BFCDB2DCE28D959F2815B16F81798.
Definition secp_Gy : Z := 0x483ADA7726A3C4655DA4FBFC0E1108A8FD17B448A68554199C47D08FFB10D4B8.

Definition point : Type := option (Z * Z).

Module F.
  (* field arithmetic mod p on BigZ; all values kept in [0, p) *)
  Definition bp : bigZ := BigZ.of_Z secp_p.
  (* reduction of z in [0, p^2) using p = 2^256 - c, c = 2^32 + 977: fold the high part twice, then one
     conditional subtraction (about twice as fast as a general division; validated by the vectors below
     and by every correspondence run) *)
  Definition c : bigZ := BigZ.of_Z 0x1000003D1.
  Definition m256 : bigZ := BigZ.of_Z (2 ^ 256 - 1).
  Definition s256 : bigZ := BigZ.of_Z 256.
  Definition red (z : bigZ) : bigZ :=
    let z1 := BigZ.add (BigZ.mul (BigZ.shiftr z s256) c) (BigZ.land z m256) in
    let z2 := BigZ.add (BigZ.mul (BigZ.shiftr z1 s256) c) (BigZ.land z1 m256) in
    if BigZ.ltb z2 bp then z2 else BigZ.sub z2 bp.
  Definition mul (a b : bigZ) : bigZ := red (BigZ.mul a b).
  (* operands in [0, p): one conditional correction instead of a division *)
  Definition add (a b : bigZ) : bigZ := let s := BigZ.add a b in if BigZ.ltb s bp then s else BigZ.sub s bp.
  Definition sub (a b : bigZ) : bigZ := let d := BigZ.sub a b in if BigZ.ltb d BigZ.zero then BigZ.add d bp else d.
  Definition sqr (a : bigZ) : bigZ := red (BigZ.square a).
  Definition dbl (a : bigZ) : bigZ := add a a.
  Definition is0 (a : bigZ) : bool := BigZ.eqb a BigZ.zero.
  Fixpoint pow (a : bigZ) (e : positive) : bigZ :=
    match e with
    | xH => a
    | xO q => sqr (pow a q)
    | xI q => mul a (sqr (pow a q))
    end.
  Definition inv (a : bigZ) : bigZ := pow a (Z.to_pos (secp_p - 2)).
  Definition sqrt_candidate (a : bigZ) : bigZ := pow a (Z.to_pos ((secp_p + 1) / 4)).
End F.

(* Jacobian points (X, Y, Z); Z = 0 is the point at infinity *)
Definition jac : Type := (bigZ * bigZ * bigZ)%type.
Definition jinf : jac := (BigZ.one, BigZ.one, BigZ.zero).

Definition jdouble (P : jac) : jac :=
  let '(X1, Y1, Z1) := P in
  if F.is0 Z1 || F.is0 Y1 then jinf else
  let A := F.sqr X1 in
  let B := F.sqr Y1 in
  let C := F.sqr B in
  let D := F.dbl (F.sub (F.sub (F.sqr (F.add X1 B)) A) C) in
  let E := F.add (F.dbl A) A in
  let X3 := F.sub (F.sqr E) (F.dbl D) in
  let Y3 := F.sub (F.mul E (F.sub D X3)) (F.dbl (F.dbl (F.dbl C))) in
  let Z3 := F.dbl (F.mul Y1 Z1) in
  (X3, Y3, Z3).

(* mixed addition: Jacobian + affine (x2, y2) *)
Definition jadd_affine (P : jac) (x2 y2 : bigZ) : jac :=
  let '(X1, Y1, Z1) := P in
  if F.is0 Z1 then (x2, y2, BigZ.one) else
  let Z1Z1 := F.sqr Z1 in
  let U2 := F.mul x2 Z1Z1 in
  let S2 := F.mul y2 (F.mul Z1 Z1Z1) in
  let H := F.sub U2 X1 in
  let R := F.sub S2 Y1 in
  if F.is0 H then (if F.is0 R then jdouble P else jinf) else
  let H2 := F.sqr H in
  let H3 := F.mul H H2 in
  let V := F.mul X1 H2 in
  let X3 := F.sub (F.sub (F.sqr R) H3) (F.dbl V) in
  let Y3 := F.sub (F.mul R (F.sub V X3)) (F.mul Y1 H3) in
  let Z3 := F.mul Z1 H in
  (X3, Y3, Z3).

Definition to_affine (P : jac) : point :=
  let '(X, Y, Z) := P in
  if F.is0 Z then None else
  let zi := F.inv Z in
  let zi2 := F.sqr zi in
  Some (BigZ.to_Z (F.mul X zi2), BigZ.to_Z (F.mul Y (F.mul zi2 zi))).

(* k * (x, y) for k > 0, most significant bit first *)
Fixpoint jmul_pos (k : positive) (x y : bigZ) : jac :=
  match k with
  | xH => (x, y, BigZ.one)
  | xO q => jdouble (jmul_pos q x y)
  | xI q => jadd_affine (jdouble (jmul_pos q x y)) x y
  end.

Definition pt_smul (k : Z) (P : point) : point :=
  match P with
  | None => None
  | Some (x, y) =>
      match k mod secp_n with
      | Zpos q => to_affine (jmul_pos q (BigZ.of_Z x) (BigZ.of_Z y))
      | _ => None
      end
  end.

Definition pt_add (P Q : point) : point :=
  match P, Q with
  | None, _ => Q
  | _, None => P
  | Some (x1, y1), Some (x2, y2) =>
      to_affine (jadd_affine (BigZ.of_Z x1, BigZ.of_Z y1, BigZ.one) (BigZ.of_Z x2) (BigZ.of_Z y2))
  end.

Definition pt_neg (P : point) : point :=
  match P with
  | None => None
  | Some (x, y) => Some (x, if y =? 0 then 0 else secp_p - y)
  end.

Definition pt_is_zero (P : point) : bool := match P with None => true | Some _ => false end.
Definition pt_x (P : point) : Z := match P with Some (x, _) => x | None => 0 end.
Definition pt_y (P : point) : Z := match P with Some (_, y) => y | None => 0 end.

Definition pt_lift_x (x : Z) (odd : bool) : option point :=
  if negb ((0 <=? x) && (x <? secp_p)) then None else
  let bx := BigZ.of_Z x in
  let y2 := F.add (F.mul bx (F.sqr bx)) (BigZ.of_Z 7) in
  let y := F.sqrt_candidate y2 in
  if negb (BigZ.eqb (F.sqr y) y2) then None else
  let yz := BigZ.to_Z y in
  Some (Some (x, if Bool.eqb (Z.odd yz) odd then yz else secp_p - yz)).

Definition on_curve (P : point) : bool :=
  match P with
  | None => true
  | Some (x, y) =>
      (0 <=? x) && (x <? secp_p) && (0 <=? y) && (y <? secp_p) &&
      ((y * y) mod secp_p =? (x * x * x + 7) mod secp_p)
  end.

Definition secp_G : point := Some (secp_Gx, secp_Gy).

Definition secp256k1_ops : group_ops := {|
  pt := point;
  zero := None;
  add := pt_add;
  neg := pt_neg;
  smul := pt_smul;
  G := secp_G;
  n := secp_n;
  is_zero := pt_is_zero;
  xcoord := pt_x;
  ycoord := pt_y;
  lift_x := pt_lift_x
|}.

Definition exec_pub (d : Z) : point := pub secp256k1_ops d.
Definition exec_recover (z r s : Z) (odd : bool) : option point := ecdsa_recover secp256k1_ops z r s odd.
Definition exec_verify (Q : point) (z r s : Z) : bool := ecdsa_verify secp256k1_ops Q z r s.
Definition exec_sign (d z k : Z) : option esig := ecdsa_sign secp256k1_ops d z k.

(* big-endian conversions *)
Fixpoint z_to_be (len : nat) (z : Z) : bytes :=
  match len with
  | O => []
  | S l => z_to_be l (z / 256) ++ [n2b (Z.to_N (z mod 256))]
  end.
Definition be_to_z (l : bytes) : Z := fold_left (fun acc b => acc * 256 + Z.of_N (b2n b)) l 0.

Definition exec_pub_bytes (P : point) : bytes := z_to_be 32 (pt_x P) ++ z_to_be 32 (pt_y P).
Definition lastn {A} (k : nat) (l : list A) : list A := skipn (length l - k) l.
Definition exec_address (P : point) : bytes := lastn 20 (keccak256 (exec_pub_bytes P)).

Definition point_eqb (P Q : point) : bool :=
  match P, Q with
  | None, None => true
  | Some (a, b), Some (c, d) => (a =? c) && (b =? d)
  | _, _ => false
  end.

(* ---------------------------------- sanity checks (vm_compute) -------------------------------- *)
Example G_on_curve : on_curve secp_G = true.
Proof. vm_compute. reflexivity. Qed.

Example nG_is_infinity : pt_is_zero (pt_smul secp_n secp_G) = true.
Proof. vm_compute. reflexivity. Qed.

(* computed without the reduction of the scalar mod n: (n-1) G + G = infinity and (n-1) G = -G *)
Example n_minus_1_G : let Q := pt_smul (secp_n - 1) secp_G in
  point_eqb Q (pt_neg secp_G) && pt_is_zero (pt_add Q secp_G) = true.
Proof. vm_compute. reflexivity. Qed.

Example two_G : pt_smul 2 secp_G =
  Some (0xC6047F9441ED7D6D3045406E95C07CD85C778E4B8CEF3CA7ABAC09B95C709EE5,
        0x1AE168FEA63DC339A3C58419466CEAEEF7F632653266D0E1236431A950CFE52A).
Proof. vm_compute. reflexivity. Qed.

Example three_G : point_eqb (pt_add (pt_smul 2 secp_G) secp_G) (pt_smul 3 secp_G) &&
  (pt_x (pt_smul 3 secp_G) =? 0xF9308A019258C31049344F85F89D5229B531C845836F99B08601F113BCE036F9) = true.
Proof. vm_compute. reflexivity. Qed.

Example G_plus_G_is_double : point_eqb (pt_add secp_G secp_G) (pt_smul 2 secp_G) = true.
Proof. vm_compute. reflexivity. Qed.

Example lift_G : pt_lift_x secp_Gx false = Some secp_G /\ pt_lift_x secp_Gx true = Some (pt_neg secp_G).
Proof. split; vm_compute; reflexivity. Qed.

Example lift_x_not_on_curve : pt_lift_x 5 false = None.
Proof. vm_compute. reflexivity. Qed.

(* private key 1 -> 0x7E5F4552091A69125d5DfCb7b8C2659029395Bdf *)
Example address_of_key_1 :
  bytes_eqb (exec_address (exec_pub 1))
            [x7e;x5f;x45;x52;x09;x1a;x69;x12;x5d;x5d;xfc;xb7;xb8;xc2;x65;x90;x29;x39;x5b;xdf] = true.
Proof. vm_compute. reflexivity. Qed.

(* a signature produced by pkg/secp256k1 (btcec, RFC 6979): key 1, all-zero 32-byte digest *)
Example recover_vector :
  let r := 72687201794607335770376625339678533083457947201644627590368835286197510267364 in
  let s := 8109447218838624529250472094270127202499713651044141199238310867220054199890 in
  match exec_recover 0 r s true with
  | Some Q => point_eqb Q (exec_pub 1) && exec_verify Q 0 r s
  | None => false
  end = true.
Proof. vm_compute. reflexivity. Qed.

(* sign with an arbitrary nonce, then recover and verify *)
Example sign_recover_roundtrip :
  let d := 0xC0FFEE in let z := 0x1234567890ABCDEF in let k := 0xDEADBEEF12345 in
  match exec_sign d z k with
  | Some sg => negb (es_ovf sg) &&
               match exec_recover z (es_r sg) (es_s sg) (es_odd sg) with
               | Some Q => point_eqb Q (exec_pub d) && exec_verify Q z (es_r sg) (es_s sg)
               | None => false
               end
  | None => false
  end = true.
Proof. vm_compute. reflexivity. Qed.
