(* ECDSA with public-key recovery over an ABSTRACT prime-order group.

   The group is a record of operations [group_ops]; what is assumed about it is the separate
   predicate [laws].  Every theorem reads  [forall o, laws o -> ...]  -- nothing here is an axiom,
   and nothing is claimed about the executable secp256k1 instance of Crypto/Secp256k1Exec.v (that it
   satisfies [laws] is the standard mathematical fact listed in the trusted base).  The toy
   instance at the end (Toy.ops, Toy.toy_laws) shows that [laws] is satisfiable.

   API (stable):
     group_ops, laws, parity, inv_mod, inv_n, pub,
     esig (es_r, es_s, es_odd, es_ovf),
     ecdsa_sign o d z k      : option esig   one signing attempt with nonce k (None = retry), decred [sign]
     ecdsa_sign_loop         : the retry loop over a nonce stream (decred signRFC6979)
     ecdsa_recover o z r s odd : option pt   decred RecoverCompact for recovery codes 0/1 (no overflow bit)
     ecdsa_verify o Q z r s  : bool          textbook verification
   Theorems (Section Theorems, all under [laws o]):
     recover_sign, sign_inv, sign_shape, sign_verifies, recover_sound, recover_eq, verify_eq,
     recover_flip_parity_differs, recover_other_s_differs, recover_other_z_differs,
     recover_malleable_twin, recover_other_r_only_if_forgery, sign_loop_some;
     helpers: smulG_eq, smulG_zero, point_eq, pub_nz, cong (congruence mod n as a setoid), cong_lin.
   Toy: toy_laws, toy_sign, toy_altered_R_recovers_signer.                                        *)
From Coq Require Import ZArith Znumtheory Lia List Bool Setoid Morphisms.
Import ListNotations.
Local Open Scope Z_scope.

(* ------------------------------------------------------------------------------------------ *)
(* modular inverse by the extended Euclidean algorithm (computable; fuel is logarithmic)       *)

Fixpoint egcd (fuel : nat) (a b : Z) : Z * Z * Z :=
  match fuel with
  | O => (a, 1, 0)
  | S f => if b =? 0 then (a, 1, 0)
           else let (q, r) := Z.div_eucl a b in          (* one division: q = a / b, r = a mod b *)
                let '(g, u, v) := egcd f b r in (g, v, u - q * v)
  end.

Lemma div_eucl_eq a b : Z.div_eucl a b = (a / b, a mod b).
Proof. unfold Z.div, Z.modulo. destruct (Z.div_eucl a b). reflexivity. Qed.

Definition inv_mod (m a : Z) : Z :=
  let '(_, _, v) := egcd (Z.to_nat (2 * Z.log2 m + 3)) m (a mod m) in v mod m.

Lemma egcd_spec : forall fuel a b g u v,
  0 <= b < a -> a * b < 2 ^ Z.of_nat fuel -> egcd fuel a b = (g, u, v) ->
  (g | a) /\ (g | b) /\ 0 < g /\ u * a + v * b = g.
Proof.
  induction fuel as [|f IH]; intros a b g u v Hab Hlt E.
  - simpl in Hlt. assert (b = 0) by nia. subst b. simpl in E. inversion E; subst.
    repeat split; try lia. apply Z.divide_refl. apply Z.divide_0_r.
  - cbn [egcd] in E. destruct (Z.eqb_spec b 0) as [->|Hb].
    + inversion E; subst. repeat split; try lia. apply Z.divide_refl. apply Z.divide_0_r.
    + rewrite div_eucl_eq in E. destruct (egcd f b (a mod b)) as [[g' u'] v'] eqn:E'. injection E as <- <- <-.
      assert (Hm : 0 <= a mod b < b) by (apply Z.mod_pos_bound; lia).
      assert (Hdiv : a = b * (a / b) + a mod b) by (apply Z.div_mod; lia).
      assert (Hq : 1 <= a / b) by (apply Z.div_le_lower_bound; lia).
      assert (H2 : 2 * (a mod b) <= a) by nia.
      assert (Hp : b * (a mod b) < 2 ^ Z.of_nat f).
      { rewrite Nat2Z.inj_succ, Z.pow_succ_r in Hlt by lia. nia. }
      destruct (IH b (a mod b) g' u' v' Hm Hp E') as (D1 & D2 & D3 & D4).
      repeat split; trivial.
      * rewrite Hdiv. apply Z.divide_add_r; [apply Z.divide_mul_l|]; trivial.
      * rewrite <- D4. rewrite Hdiv at 1. ring.
Qed.

Lemma inv_mod_spec m a : prime m -> a mod m <> 0 -> (inv_mod m a * a) mod m = 1.
Proof.
  intros Hp Ha. pose proof (prime_ge_2 _ Hp) as Hm2.
  unfold inv_mod. destruct (egcd _ m (a mod m)) as [[g u] v] eqn:E.
  assert (Hr : 0 <= a mod m < m) by (apply Z.mod_pos_bound; lia).
  apply egcd_spec in E; trivial.
  - destruct E as (D1 & D2 & D3 & D4).
    assert (g = 1).
    { destruct (prime_divisors _ Hp _ D1) as [H|[H|[H|H]]]; try lia.
      subst g. apply Z.divide_pos_le in D2; lia. }
    subst g. rewrite Z.mul_mod_idemp_l by lia.
    rewrite <- (Z.mul_mod_idemp_r v a) by lia.
    replace (v * (a mod m)) with (1 + (-u) * m) by lia.
    rewrite Z.mod_add by lia. apply Z.mod_small; lia.
  - rewrite Z2Nat.id by (pose proof (Z.log2_nonneg m); lia).
    pose proof (Z.log2_spec m ltac:(lia)) as [_ L].
    replace (2 * Z.log2 m + 3) with (Z.succ (Z.log2 m) + Z.succ (Z.log2 m) + 1) by lia.
    rewrite !Z.pow_add_r by (pose proof (Z.log2_nonneg m); lia). nia.
Qed.

(* ------------------------------------------------------------------------------------------ *)
(* the abstract group                                                                          *)

Record group_ops : Type := {
  pt : Type;
  zero : pt;
  add : pt -> pt -> pt;
  neg : pt -> pt;
  smul : Z -> pt -> pt;
  G : pt;                              (* generator *)
  n : Z;                               (* group order *)
  is_zero : pt -> bool;
  xcoord : pt -> Z;                    (* affine coordinates of a non-zero point, as integers *)
  ycoord : pt -> Z;
  lift_x : Z -> bool -> option pt      (* the point with that x coordinate and that y oddness *)
}.

Definition parity (o : group_ops) (P : pt o) : bool := Z.odd (ycoord o P).

Record laws (o : group_ops) : Prop := {
  n_prime : prime (n o);
  n_gt_2 : 2 < n o;
  add_assoc : forall P Q R, add o P (add o Q R) = add o (add o P Q) R;
  add_comm : forall P Q, add o P Q = add o Q P;
  add_zero_l : forall P, add o (zero o) P = P;
  add_neg_r : forall P, add o P (neg o P) = zero o;
  smul_add : forall a b P, smul o (a + b) P = add o (smul o a P) (smul o b P);
  smul_mul : forall a b P, smul o (a * b) P = smul o a (smul o b P);
  generated : forall P, exists k, P = smul o k (G o);
  G_order : forall k, smul o k (G o) = zero o <-> (n o | k);
  is_zero_spec : forall P, is_zero o P = true <-> P = zero o;
  lift_x_spec : forall x b P,
      lift_x o x b = Some P <-> (P <> zero o /\ xcoord o P = x /\ parity o P = b);
  xcoord_neg : forall P, xcoord o (neg o P) = xcoord o P;
  parity_neg : forall P, P <> zero o -> parity o (neg o P) = negb (parity o P);
  coord_range : forall P, P <> zero o ->
      0 <= xcoord o P < 2 ^ 256 /\ 0 <= ycoord o P < 2 ^ 256
}.

(* ------------------------------------------------------------------------------------------ *)
(* ECDSA                                                                                       *)

Record esig : Type := { es_r : Z; es_s : Z; es_odd : bool; es_ovf : bool }.

Section Defs.
  Variable o : group_ops.
  Notation n := (n o).
  Notation G := (G o).

  Definition inv_n (a : Z) : Z := inv_mod n a.

  Definition pub (d : Z) : pt o := smul o d G.

  (* One signing attempt with nonce k (decred ecdsa.sign): None means "try the next nonce".
     [es_odd] is the oddness bit and [es_ovf] the overflow bit (x(kG) >= n) of the public key
     recovery code; the compact signature's first byte is 27 + 2*ovf + odd.  The guard on
     k is the library's precondition (NonceRFC6979 returns a non-zero scalar). *)
  Definition ecdsa_sign (d z k : Z) : option esig :=
    if k mod n =? 0 then None else
    let R := smul o k G in
    let x := xcoord o R in
    let r := x mod n in
    if r =? 0 then None else
    let s := (inv_n k * (z + r * d)) mod n in
    if s =? 0 then None else
    let odd := parity o R in
    let ovf := n <=? x in
    if (n - 1) / 2 <? s
    then Some {| es_r := r; es_s := n - s; es_odd := negb odd; es_ovf := ovf |}
    else Some {| es_r := r; es_s := s; es_odd := odd; es_ovf := ovf |}.

  (* decred signRFC6979: iterate over the nonce stream until an attempt succeeds *)
  Fixpoint ecdsa_sign_loop (fuel : nat) (nonce : nat -> Z) (it : nat) (d z : Z) : option esig :=
    match fuel with
    | O => None
    | S f => match ecdsa_sign d z (nonce it) with
             | Some sg => Some sg
             | None => ecdsa_sign_loop f nonce (S it) d z
             end
    end.

  (* decred RecoverCompact restricted to recovery codes 0/1 (the only ones firefly-signer passes):
     range checks on r and s, decompress, Q = r^-1 (s R - z G), reject the point at infinity *)
  Definition ecdsa_recover (z r s : Z) (odd : bool) : option (pt o) :=
    if negb ((1 <=? r) && (r <? n) && (1 <=? s) && (s <? n)) then None else
    match lift_x o r odd with
    | None => None
    | Some R =>
        let w := inv_n r in
        let u1 := (- (z * w)) mod n in
        let u2 := (s * w) mod n in
        let Q := add o (smul o u1 G) (smul o u2 R) in
        if is_zero o Q then None else Some Q
    end.

  (* textbook verification: x(u1 G + u2 Q) mod n = r *)
  Definition ecdsa_verify (Q : pt o) (z r s : Z) : bool :=
    (1 <=? r) && (r <? n) && (1 <=? s) && (s <? n) &&
    (let w := inv_n s in
     let u1 := (z * w) mod n in
     let u2 := (r * w) mod n in
     let X := add o (smul o u1 G) (smul o u2 Q) in
     negb (is_zero o X) && (xcoord o X mod n =? r)).
End Defs.

(* ------------------------------------------------------------------------------------------ *)
(* consequences of the laws: the group is Z/n via k |-> k G                                    *)

Section Theory.
  Variable o : group_ops.
  Hypothesis L : laws o.
  Notation n := (n o).
  Notation G := (G o).
  Notation "k ** P" := (smul o k P) (at level 40).
  Notation "P +++ Q" := (add o P Q) (at level 50, left associativity).

  Let n_pos : 2 < n := n_gt_2 o L.

  Lemma add_zero_r P : P +++ zero o = P.
  Proof. rewrite (add_comm o L). apply (add_zero_l o L). Qed.

  Lemma add_cancel_l P Q R : P +++ Q = P +++ R -> Q = R.
  Proof.
    intros H. assert (neg o P +++ (P +++ Q) = neg o P +++ (P +++ R)) by (rewrite H; reflexivity).
    rewrite !(add_assoc o L), (add_comm o L (neg o P) P), (add_neg_r o L), !(add_zero_l o L) in H0.
    exact H0.
  Qed.

  Lemma smul_0_G : 0 ** G = zero o.
  Proof. apply (G_order o L). apply Z.divide_0_r. Qed.

  Lemma neg_smul_G a : neg o (a ** G) = (- a) ** G.
  Proof.
    apply (add_cancel_l (a ** G)). rewrite (add_neg_r o L), <- (smul_add o L).
    replace (a + - a) with 0 by lia. symmetry. apply smul_0_G.
  Qed.

  Lemma smulG_eq a b : a ** G = b ** G <-> a mod n = b mod n.
  Proof.
    split; intros H.
    - assert ((a - b) ** G = zero o).
      { replace (a - b) with (a + - b) by lia. rewrite (smul_add o L), H, <- neg_smul_G.
        apply (add_neg_r o L). }
      apply (G_order o L) in H0. destruct H0 as [q Hq].
      replace a with (b + q * n) by lia. apply Z.mod_add. lia.
    - assert ((n | a - b)).
      { apply Z.mod_divide; [lia|]. rewrite Zminus_mod, H, Z.sub_diag. apply Z.mod_0_l. lia. }
      apply (G_order o L) in H0.
      replace a with ((a - b) + b) by lia. rewrite (smul_add o L), H0. apply (add_zero_l o L).
  Qed.

  Lemma smulG_zero a : a ** G = zero o <-> a mod n = 0.
  Proof.
    rewrite <- smul_0_G, smulG_eq. rewrite Z.mod_0_l by lia. reflexivity.
  Qed.

  Lemma smul_smul_G a b : a ** (b ** G) = (a * b) ** G.
  Proof. symmetry. apply (smul_mul o L). Qed.

  Lemma add_smul_G a b : a ** G +++ b ** G = (a + b) ** G.
  Proof. symmetry. apply (smul_add o L). Qed.

  Lemma smulG_mod a : (a mod n) ** G = a ** G.
  Proof. apply smulG_eq. apply Z.mod_mod. lia. Qed.

  Lemma inv_n_l a : a mod n <> 0 -> (inv_n o a * a) mod n = 1.
  Proof. apply inv_mod_spec. apply (n_prime o L). Qed.

  Lemma inv_n_nz a : a mod n <> 0 -> inv_n o a mod n <> 0.
  Proof.
    intros Ha Hi. pose proof (inv_n_l a Ha) as H.
    rewrite <- Z.mul_mod_idemp_l, Hi, Z.mul_0_l, Z.mod_0_l in H by lia. discriminate.
  Qed.

  (* in Z/n, n prime: no zero divisors *)
  Lemma mod_mul_nz a b : a mod n <> 0 -> b mod n <> 0 -> (a * b) mod n <> 0.
  Proof.
    intros Ha Hb H. apply Z.mod_divide in H; [|lia].
    destruct (prime_mult _ (n_prime o L) _ _ H) as [D|D]; apply Z.mod_divide in D; lia.
  Qed.

  (* (x, oddness) determines a non-zero point *)
  Lemma point_eq P Q : P <> zero o -> Q <> zero o ->
    xcoord o P = xcoord o Q -> parity o P = parity o Q -> P = Q.
  Proof.
    intros HP HQ Hx Hy.
    assert (A : lift_x o (xcoord o P) (parity o P) = Some P) by (apply (lift_x_spec o L); auto).
    assert (B : lift_x o (xcoord o P) (parity o P) = Some Q) by (apply (lift_x_spec o L); auto).
    congruence.
  Qed.
End Theory.

(* congruence modulo n as a setoid, so that modular identities are proved by rewriting *)
Definition cong (n a b : Z) : Prop := a mod n = b mod n.
Global Instance cong_equiv n : Equivalence (cong n).
Proof. unfold cong. split; congruence. Qed.
Global Instance cong_add n : Proper (cong n ==> cong n ==> cong n) Z.add.
Proof. unfold cong. intros a b H c d H'. rewrite (Zplus_mod a), (Zplus_mod b), H, H'. reflexivity. Qed.
Global Instance cong_sub n : Proper (cong n ==> cong n ==> cong n) Z.sub.
Proof. unfold cong. intros a b H c d H'. rewrite (Zminus_mod a), (Zminus_mod b), H, H'. reflexivity. Qed.
Global Instance cong_mul n : Proper (cong n ==> cong n ==> cong n) Z.mul.
Proof. unfold cong. intros a b H c d H'. rewrite (Zmult_mod a), (Zmult_mod b), H, H'. reflexivity. Qed.
Global Instance cong_opp n : Proper (cong n ==> cong n) Z.opp.
Proof. intros a b H. change (- a) with (0 - a). change (-b) with (0 - b). rewrite H. reflexivity. Qed.
Global Typeclasses Opaque cong.
Global Opaque cong.

Section Theorems.
  Variable o : group_ops.
  Hypothesis L : laws o.
  Notation n := (n o).
  Notation G := (G o).
  Notation "k ** P" := (smul o k P) (at level 40).
  Notation "P +++ Q" := (add o P Q) (at level 50, left associativity).
  Notation "a == b" := (cong n a b) (at level 70).

  Let n_pos : 2 < n := n_gt_2 o L.

  Lemma cong_iff a b : a == b <-> a mod n = b mod n.
  Proof. reflexivity. Qed.
  Lemma cong_mod a : a mod n == a.
  Proof. apply cong_iff. apply Z.mod_mod. lia. Qed.
  Lemma cong_n_0 : n == 0.
  Proof. apply cong_iff. rewrite Z.mod_same, Z.mod_0_l by lia. reflexivity. Qed.
  Lemma nz_cong a b : a == b -> a mod n <> 0 -> b mod n <> 0.
  Proof. intros H. apply cong_iff in H. congruence. Qed.
  Lemma inv_cong a : a mod n <> 0 -> inv_n o a * a == 1.
  Proof. intros H. apply cong_iff. rewrite (inv_n_l o L a H). symmetry. apply Z.mod_small. lia. Qed.
  Lemma smulG_cong a b : a == b -> a ** G = b ** G.
  Proof. intros H. apply (smulG_eq o L). exact H. Qed.
  Lemma small_nz a : 1 <= a < n -> a mod n <> 0.
  Proof. intros H. rewrite Z.mod_small; lia. Qed.
  Lemma pub_nz d : d mod n <> 0 -> pub o d <> zero o.
  Proof. intros H E. apply (smulG_zero o L) in E. contradiction. Qed.
  (* cancellation in the field Z/n *)
  Lemma cong_mul_cancel_l c a b : c mod n <> 0 -> c * a == c * b -> a == b.
  Proof.
    intros Hc H. pose proof (inv_cong c Hc) as Hi.
    assert (inv_n o c * (c * a) == inv_n o c * (c * b)) by (rewrite H; reflexivity).
    replace (inv_n o c * (c * a)) with ((inv_n o c * c) * a) in H0 by ring.
    replace (inv_n o c * (c * b)) with ((inv_n o c * c) * b) in H0 by ring.
    rewrite Hi in H0. replace (1 * a) with a in H0 by ring. replace (1 * b) with b in H0 by ring.
    exact H0.
  Qed.

  (* What recovery computes, once the decompressed point is written as k' G. *)
  Lemma recover_eq z r s odd k' :
    1 <= r < n -> 1 <= s < n -> lift_x o r odd = Some (k' ** G) ->
    ecdsa_recover o z r s odd =
      let e := inv_n o r * (s * k' - z) in
      if e mod n =? 0 then None else Some (e ** G).
  Proof.
    intros Hr Hs Hl. unfold ecdsa_recover.
    replace ((1 <=? r) && (r <? n) && (1 <=? s) && (s <? n)) with true
      by (symmetry; rewrite !andb_true_iff, !Z.leb_le, !Z.ltb_lt; lia).
    cbn [negb]. rewrite Hl. cbv zeta.
    assert (E : (- (z * inv_n o r)) mod n ** G +++ (s * inv_n o r) mod n ** (k' ** G)
                = (inv_n o r * (s * k' - z)) ** G).
    { rewrite (smul_smul_G o L), (add_smul_G o L). apply smulG_cong.
      rewrite !cong_mod. apply cong_iff. f_equal. ring. }
    rewrite E. destruct (Z.eqb_spec ((inv_n o r * (s * k' - z)) mod n) 0) as [H0|H0].
    - apply (smulG_zero o L) in H0. apply (is_zero_spec o L) in H0. rewrite H0. reflexivity.
    - destruct (is_zero o _) eqn:Z0; [|reflexivity].
      apply (is_zero_spec o L), (smulG_zero o L) in Z0. contradiction.
  Qed.

  (* Shape of a successful signing attempt, with the facts every later proof needs. *)
  Lemma sign_inv d z k sg :
    ecdsa_sign o d z k = Some sg ->
    k mod n <> 0 /\
    es_r sg = xcoord o (k ** G) mod n /\ 1 <= es_r sg < n /\ 1 <= es_s sg < n /\ 2 * es_s sg <= n /\
    es_ovf sg = (n <=? xcoord o (k ** G)) /\
    exists k', k' mod n <> 0 /\ (k' = k \/ k' = - k) /\
      es_odd sg = parity o (k' ** G) /\ xcoord o (k' ** G) = xcoord o (k ** G) /\
      es_s sg * k' == z + es_r sg * d.
  Proof.
    unfold ecdsa_sign. destruct (Z.eqb_spec (k mod n) 0) as [|Hk]; [discriminate|].
    set (R := k ** G). set (r := xcoord o R mod n).
    destruct (Z.eqb_spec r 0) as [|Hr0]; [discriminate|].
    set (s := (inv_n o k * (z + r * d)) mod n).
    destruct (Z.eqb_spec s 0) as [|Hs0]; [discriminate|].
    assert (Hr : 0 <= r < n) by (apply Z.mod_pos_bound; lia).
    assert (Hs : 0 <= s < n) by (apply Z.mod_pos_bound; lia).
    assert (Hsk : s * k == z + r * d).
    { unfold s. rewrite cong_mod.
      replace (inv_n o k * (z + r * d) * k) with ((inv_n o k * k) * (z + r * d)) by ring.
      rewrite (inv_cong k Hk). apply cong_iff. f_equal. ring. }
    assert (Hhalf : 2 * ((n - 1) / 2) <= n - 1 < 2 * ((n - 1) / 2) + 2).
    { pose proof (Z.div_mod (n - 1) 2 ltac:(lia)). pose proof (Z.mod_pos_bound (n - 1) 2 ltac:(lia)). lia. }
    destruct (Z.ltb_spec ((n - 1) / 2) s) as [Hhi|Hlo]; intros E; injection E as <-; cbn [es_r es_s es_odd es_ovf].
    - split; [exact Hk|]. split; [reflexivity|]. split; [lia|]. split; [lia|]. split; [lia|]. split; [reflexivity|].
      exists (- k). split.
      { intros H. apply Hk. apply Z.mod_divide in H; [|lia]. apply Z.mod_divide; [lia|].
        apply Z.divide_opp_r in H. rewrite Z.opp_involutive in H. exact H. }
      split; [auto|]. rewrite <- (neg_smul_G o L). fold R.
      assert (HR : R <> zero o) by (intros H; apply (smulG_zero o L) in H; contradiction).
      split; [symmetry; apply (parity_neg o L); exact HR|]. split; [apply (xcoord_neg o L)|].
      rewrite <- Hsk. apply cong_iff. replace ((n - s) * - k) with (s * k + (- k) * n) by ring. apply Z.mod_add. lia.
    - split; [exact Hk|]. split; [reflexivity|]. split; [lia|]. split; [lia|]. split; [lia|]. split; [reflexivity|].
      exists k. repeat split; auto.
  Qed.

  (* ---- the core identity: recovery returns the signer's public key ---- *)
  Theorem recover_sign d z k sg :
    d mod n <> 0 -> ecdsa_sign o d z k = Some sg -> es_ovf sg = false ->
    ecdsa_recover o z (es_r sg) (es_s sg) (es_odd sg) = Some (pub o d).
  Proof.
    intros Hd Hsg Hov. destruct (sign_inv _ _ _ _ Hsg) as (Hk & Hr & Hrr & Hss & _ & Ho & k' & Hk' & _ & Hodd & Hx & Hsk).
    rewrite Hov in Ho. symmetry in Ho. apply Z.leb_gt in Ho.
    assert (HR : k' ** G <> zero o) by (intros H; apply (smulG_zero o L) in H; contradiction).
    assert (HRk : k ** G <> zero o) by (intros H; apply (smulG_zero o L) in H; contradiction).
    assert (Hrx : es_r sg = xcoord o (k' ** G)).
    { rewrite Hx, Hr. apply Z.mod_small. destruct (coord_range o L _ HRk). lia. }
    assert (Hl : lift_x o (es_r sg) (es_odd sg) = Some (k' ** G)).
    { apply (lift_x_spec o L). auto. }
    rewrite (recover_eq z _ _ _ k' Hrr Hss Hl). cbv zeta.
    assert (E : inv_n o (es_r sg) * (es_s sg * k' - z) == d).
    { rewrite Hsk. replace (inv_n o (es_r sg) * (z + es_r sg * d - z)) with ((inv_n o (es_r sg) * es_r sg) * d) by ring.
      rewrite (inv_cong _ (small_nz _ Hrr)). apply cong_iff. f_equal. ring. }
    destruct (Z.eqb_spec ((inv_n o (es_r sg) * (es_s sg * k' - z)) mod n) 0) as [H0|H0].
    - exfalso. apply Hd. rewrite <- H0. symmetry. exact E.
    - unfold pub. f_equal. apply smulG_cong. exact E.
  Qed.
  (* X == Y follows from P == Q (and P' == Q') when X - Y is a combination of P - Q (and P' - Q') *)
  Lemma cong_lin c P Q X Y : P == Q -> X - Y = c * (P - Q) -> X == Y.
  Proof.
    intros H E. replace X with (Y + c * (P - Q)) by lia. rewrite H.
    apply cong_iff. f_equal. ring.
  Qed.
  Lemma cong_lin2 c c' P Q P' Q' X Y : P == Q -> P' == Q' -> X - Y = c * (P - Q) + c' * (P' - Q') -> X == Y.
  Proof.
    intros H H' E. replace X with (Y + c * (P - Q) + c' * (P' - Q')) by lia. rewrite H, H'.
    apply cong_iff. f_equal. ring.
  Qed.

  (* a successful attempt has the published shape *)
  Theorem sign_shape d z k sg :
    ecdsa_sign o d z k = Some sg ->
    1 <= es_r sg < n /\ 1 <= es_s sg < n /\ 2 * es_s sg <= n.
  Proof. intros H. destruct (sign_inv _ _ _ _ H) as (_ & _ & A & B & C & _). auto. Qed.

  (* closed form of verification for a key written as q G *)
  Lemma verify_eq q z r s :
    1 <= r < n -> 1 <= s < n ->
    ecdsa_verify o (q ** G) z r s =
      let e := inv_n o s * (z + r * q) in
      negb (e mod n =? 0) && (xcoord o (e ** G) mod n =? r).
  Proof.
    intros Hr Hs. unfold ecdsa_verify.
    replace ((1 <=? r) && (r <? n) && (1 <=? s) && (s <? n)) with true
      by (symmetry; rewrite !andb_true_iff, !Z.leb_le, !Z.ltb_lt; lia).
    cbv zeta. rewrite andb_true_l.
    assert (E : (z * inv_n o s) mod n ** G +++ (r * inv_n o s) mod n ** (q ** G)
                = (inv_n o s * (z + r * q)) ** G).
    { rewrite (smul_smul_G o L), (add_smul_G o L). apply smulG_cong.
      rewrite !cong_mod. apply cong_iff. f_equal. ring. }
    rewrite E. f_equal. f_equal.
    destruct (Z.eqb_spec ((inv_n o s * (z + r * q)) mod n) 0) as [H0|H0].
    - apply (smulG_zero o L) in H0. apply (is_zero_spec o L) in H0. exact H0.
    - destruct (is_zero o _) eqn:Z0; [|reflexivity].
      apply (is_zero_spec o L), (smulG_zero o L) in Z0. contradiction.
  Qed.

  (* the signature verifies against the signer's key (also in the overflow case) *)
  Theorem sign_verifies d z k sg :
    ecdsa_sign o d z k = Some sg -> ecdsa_verify o (pub o d) z (es_r sg) (es_s sg) = true.
  Proof.
    intros Hsg. destruct (sign_inv _ _ _ _ Hsg) as (Hk & Hr & Hrr & Hss & _ & _ & k' & Hk' & _ & _ & Hx & Hsk).
    unfold pub. rewrite (verify_eq d z _ _ Hrr Hss). cbv zeta.
    assert (E : inv_n o (es_s sg) * (z + es_r sg * d) == k').
    { rewrite <- Hsk. replace (inv_n o (es_s sg) * (es_s sg * k')) with ((inv_n o (es_s sg) * es_s sg) * k') by ring.
      rewrite (inv_cong _ (small_nz _ Hss)). apply cong_iff. f_equal. ring. }
    rewrite (smulG_cong _ _ E), Hx, <- Hr, Z.eqb_refl, andb_true_r.
    apply negb_true_iff, Z.eqb_neq. intros H0. apply Hk'. rewrite <- H0. symmetry. exact E.
  Qed.

  (* soundness of recovery: whatever key is recovered, the signature verifies against it *)
  Theorem recover_sound z r s odd Q :
    ecdsa_recover o z r s odd = Some Q -> ecdsa_verify o Q z r s = true.
  Proof.
    intros H. pose proof H as H'. unfold ecdsa_recover in H'.
    destruct ((1 <=? r) && (r <? n) && (1 <=? s) && (s <? n)) eqn:Hrange; [|discriminate].
    rewrite !andb_true_iff, !Z.leb_le, !Z.ltb_lt in Hrange. cbn [negb] in H'.
    destruct (lift_x o r odd) as [R|] eqn:Hl; [|discriminate]. clear H'.
    destruct (generated o L R) as [k' ->].
    assert (Hr : 1 <= r < n) by lia. assert (Hs : 1 <= s < n) by lia.
    rewrite (recover_eq z r s odd k' Hr Hs Hl) in H. cbv zeta in H.
    destruct (Z.eqb_spec ((inv_n o r * (s * k' - z)) mod n) 0) as [|Hq]; [discriminate|].
    injection H as <-. rewrite (verify_eq _ z r s Hr Hs). cbv zeta.
    apply (lift_x_spec o L) in Hl. destruct Hl as (HR & Hx & _).
    assert (E : inv_n o s * (z + r * (inv_n o r * (s * k' - z))) == k').
    { replace (inv_n o s * (z + r * (inv_n o r * (s * k' - z))))
        with (inv_n o s * (z + (inv_n o r * r) * (s * k' - z))) by ring.
      rewrite (inv_cong _ (small_nz _ Hr)).
      replace (inv_n o s * (z + 1 * (s * k' - z))) with ((inv_n o s * s) * k') by ring.
      rewrite (inv_cong _ (small_nz _ Hs)). apply cong_iff. f_equal. ring. }
    rewrite (smulG_cong _ _ E), Hx, (Z.mod_small r n), Z.eqb_refl, andb_true_r by lia.
    apply negb_true_iff, Z.eqb_neq. intros H0. apply HR. apply (smulG_zero o L).
    rewrite <- H0. symmetry. exact E.
  Qed.

  (* ---- tampering: each single alteration recovers a different key (or nothing) ---- *)

  (* facts shared by the tamper theorems: the decompressed point of the genuine signature *)
  Lemma sign_lift d z k sg :
    ecdsa_sign o d z k = Some sg -> es_ovf sg = false ->
    exists k', k' mod n <> 0 /\ lift_x o (es_r sg) (es_odd sg) = Some (k' ** G) /\
               lift_x o (es_r sg) (negb (es_odd sg)) = Some ((- k') ** G) /\
               es_s sg * k' == z + es_r sg * d.
  Proof.
    intros Hsg Hov. destruct (sign_inv _ _ _ _ Hsg) as (Hk & Hr & Hrr & Hss & _ & Ho & k' & Hk' & _ & Hodd & Hx & Hsk).
    rewrite Hov in Ho. symmetry in Ho. apply Z.leb_gt in Ho.
    assert (HR : k' ** G <> zero o) by (intros H; apply (smulG_zero o L) in H; contradiction).
    assert (HRk : k ** G <> zero o) by (intros H; apply (smulG_zero o L) in H; contradiction).
    assert (Hrx : es_r sg = xcoord o (k' ** G)).
    { rewrite Hx, Hr. apply Z.mod_small. destruct (coord_range o L _ HRk). lia. }
    exists k'. split; [exact Hk'|]. split; [apply (lift_x_spec o L); auto|]. split; [|exact Hsk].
    rewrite <- (neg_smul_G o L). apply (lift_x_spec o L). split.
    - rewrite (neg_smul_G o L). intros H. apply (smulG_zero o L) in H. apply Hk'.
      apply Z.mod_divide in H; [|lia]. apply Z.mod_divide; [lia|].
      apply Z.divide_opp_r in H. rewrite Z.opp_involutive in H. exact H.
    - split; [rewrite (xcoord_neg o L); auto|]. rewrite (parity_neg o L _ HR), Hodd. reflexivity.
  Qed.

  Lemma some_pub_inj e d : e mod n <> 0 -> Some (e ** G) = Some (pub o d) -> e == d.
  Proof. intros _ H. injection H as H. apply (smulG_eq o L) in H. exact H. Qed.

  (* opposite parity (V flipped 27 <-> 28): never the signer's key *)
  Theorem recover_flip_parity_differs d z k sg :
    d mod n <> 0 -> ecdsa_sign o d z k = Some sg -> es_ovf sg = false ->
    ecdsa_recover o z (es_r sg) (es_s sg) (negb (es_odd sg)) <> Some (pub o d).
  Proof.
    intros Hd Hsg Hov. destruct (sign_lift _ _ _ _ Hsg Hov) as (k' & Hk' & _ & Hl & Hsk).
    destruct (sign_shape _ _ _ _ Hsg) as (Hrr & Hss & _).
    rewrite (recover_eq z _ _ _ (- k') Hrr Hss Hl). cbv zeta.
    destruct (Z.eqb_spec ((inv_n o (es_r sg) * (es_s sg * - k' - z)) mod n) 0) as [|H0]; [discriminate|].
    intros H. apply (some_pub_inj _ _ H0) in H.
    (* multiply by r: -(s k') - z == r d, with s k' == z + r d: 2 (z + r d) == 0, i.e. 2 s k' == 0 *)
    assert (A : es_r sg * (inv_n o (es_r sg) * (es_s sg * - k' - z)) == es_r sg * d) by (rewrite H; reflexivity).
    replace (es_r sg * (inv_n o (es_r sg) * (es_s sg * - k' - z)))
      with ((inv_n o (es_r sg) * es_r sg) * (- (es_s sg * k') - z)) in A by ring.
    rewrite (inv_cong _ (small_nz _ Hrr)), Hsk in A.
    assert (B : 2 * (es_s sg * k') == 0).
    { apply (cong_lin2 2 (-1) _ _ _ _ _ _ Hsk A). ring. }
    assert (C : (2 * (es_s sg * k')) mod n <> 0).
    { apply (mod_mul_nz o L); [rewrite Z.mod_small; lia|]. apply (mod_mul_nz o L); [apply small_nz; exact Hss|exact Hk']. }
    apply C. rewrite B. apply Z.mod_0_l. lia.
  Qed.

  (* S replaced by any s' not congruent to it: never the signer's key *)
  Theorem recover_other_s_differs d z k sg s' :
    d mod n <> 0 -> ecdsa_sign o d z k = Some sg -> es_ovf sg = false ->
    s' <> es_s sg -> 1 <= s' < n ->
    ecdsa_recover o z (es_r sg) s' (es_odd sg) <> Some (pub o d).
  Proof.
    intros Hd Hsg Hov Hne Hs'. destruct (sign_lift _ _ _ _ Hsg Hov) as (k' & Hk' & Hl & _ & Hsk).
    destruct (sign_shape _ _ _ _ Hsg) as (Hrr & Hss & _).
    rewrite (recover_eq z _ _ _ k' Hrr Hs' Hl). cbv zeta.
    destruct (Z.eqb_spec ((inv_n o (es_r sg) * (s' * k' - z)) mod n) 0) as [|H0]; [discriminate|].
    intros H. apply (some_pub_inj _ _ H0) in H.
    assert (A : es_r sg * (inv_n o (es_r sg) * (s' * k' - z)) == es_r sg * d) by (rewrite H; reflexivity).
    replace (es_r sg * (inv_n o (es_r sg) * (s' * k' - z)))
      with ((inv_n o (es_r sg) * es_r sg) * (s' * k' - z)) in A by ring.
    rewrite (inv_cong _ (small_nz _ Hrr)) in A.
    assert (B : k' * s' == k' * es_s sg).
    { transitivity (1 * (s' * k' - z) + z); [apply cong_iff; f_equal; ring|]. rewrite A.
      transitivity (z + es_r sg * d); [apply cong_iff; f_equal; ring|]. rewrite <- Hsk.
      apply cong_iff; f_equal; ring. }
    apply (cong_mul_cancel_l _ _ _ Hk') in B. apply cong_iff in B.
    rewrite !Z.mod_small in B by lia. contradiction.
  Qed.

  (* a digest not congruent to the signed one mod n: never the signer's key *)
  Theorem recover_other_z_differs d z k sg z' :
    d mod n <> 0 -> ecdsa_sign o d z k = Some sg -> es_ovf sg = false ->
    z' mod n <> z mod n ->
    ecdsa_recover o z' (es_r sg) (es_s sg) (es_odd sg) <> Some (pub o d).
  Proof.
    intros Hd Hsg Hov Hne. destruct (sign_lift _ _ _ _ Hsg Hov) as (k' & Hk' & Hl & _ & Hsk).
    destruct (sign_shape _ _ _ _ Hsg) as (Hrr & Hss & _).
    rewrite (recover_eq z' _ _ _ k' Hrr Hss Hl). cbv zeta.
    destruct (Z.eqb_spec ((inv_n o (es_r sg) * (es_s sg * k' - z')) mod n) 0) as [|H0]; [discriminate|].
    intros H. apply (some_pub_inj _ _ H0) in H. apply Hne.
    assert (A : es_r sg * (inv_n o (es_r sg) * (es_s sg * k' - z')) == es_r sg * d) by (rewrite H; reflexivity).
    replace (es_r sg * (inv_n o (es_r sg) * (es_s sg * k' - z')))
      with ((inv_n o (es_r sg) * es_r sg) * (es_s sg * k' - z')) in A by ring.
    rewrite (inv_cong _ (small_nz _ Hrr)), Hsk in A.
    apply cong_iff. transitivity (z + es_r sg * d - (1 * (z + es_r sg * d - z'))); [apply cong_iff; f_equal; ring|].
    rewrite A. apply cong_iff; f_equal; ring.
  Qed.

  (* ECDSA malleability, recorded so that it is not mistaken for a defect: altering S AND the parity
     together (s -> n - s, oddness flipped) yields the signer again. *)
  Theorem recover_malleable_twin d z k sg :
    d mod n <> 0 -> ecdsa_sign o d z k = Some sg -> es_ovf sg = false ->
    ecdsa_recover o z (es_r sg) (n - es_s sg) (negb (es_odd sg)) = Some (pub o d).
  Proof.
    intros Hd Hsg Hov. destruct (sign_lift _ _ _ _ Hsg Hov) as (k' & Hk' & _ & Hl & Hsk).
    destruct (sign_shape _ _ _ _ Hsg) as (Hrr & Hss & _).
    destruct (sign_inv _ _ _ _ Hsg) as (_ & _ & _ & _ & Hlow & _).
    assert (Hs2 : 1 <= n - es_s sg < n) by lia.
    rewrite (recover_eq z _ _ _ (- k') Hrr Hs2 Hl). cbv zeta.
    assert (E : inv_n o (es_r sg) * ((n - es_s sg) * - k' - z) == d).
    { transitivity (inv_n o (es_r sg) * (es_s sg * k' - z) + (- (inv_n o (es_r sg) * k')) * n);
        [apply cong_iff; f_equal; ring|].
      transitivity (inv_n o (es_r sg) * (es_s sg * k' - z)); [apply cong_iff; apply Z.mod_add; lia|].
      rewrite Hsk. replace (inv_n o (es_r sg) * (z + es_r sg * d - z)) with ((inv_n o (es_r sg) * es_r sg) * d) by ring.
      rewrite (inv_cong _ (small_nz _ Hrr)). apply cong_iff. f_equal. ring. }
    destruct (Z.eqb_spec ((inv_n o (es_r sg) * ((n - es_s sg) * - k' - z)) mod n) 0) as [H0|H0].
    - exfalso. apply Hd. rewrite <- H0. symmetry. exact E.
    - unfold pub. f_equal. apply smulG_cong. exact E.
  Qed.

  (* Altering R alone.  That the altered triple never recovers the signer is NOT a consequence of the
     group laws: R' = lift_x r' is some k'' G with k'' unrelated to the data, and the recovered key is
     d exactly when s k'' == z + r' d (mod n).  What the laws give: if it does recover the signer,
     then (r', s) is itself a valid signature of z under the signer's key, i.e. a second signature
     with the same S was found -- a forgery, excluded only by the hardness of discrete logarithms. *)
  Theorem recover_other_r_only_if_forgery d z r' s odd :
    ecdsa_recover o z r' s odd = Some (pub o d) -> ecdsa_verify o (pub o d) z r' s = true.
  Proof. apply recover_sound. Qed.

  Lemma sign_loop_some fuel nonce it d z sg :
    ecdsa_sign_loop o fuel nonce it d z = Some sg -> exists j, ecdsa_sign o d z (nonce j) = Some sg.
  Proof.
    revert it. induction fuel as [|f IH]; intros it H; [discriminate|]. cbn [ecdsa_sign_loop] in H.
    destruct (ecdsa_sign o d z (nonce it)) eqn:E; [injection H as <-; eauto|]. eapply IH; eauto.
  Qed.
End Theorems.

From Coq Require Import Eqdep_dec.
(* ------------------------------------------------------------------------------------------ *)
(* A toy instance satisfying [laws]: Z/q written additively, q = 13.  Elements are the residues
   0..12; the "x coordinate" of a is min(a, q-a) and the "y coordinate" is a itself, so that a and
   -a share x and have y of opposite oddness (q is odd), as on an elliptic curve.  It exists only
   to show that [laws] is satisfiable, i.e. that the theorems above are not vacuous.            *)
Module Toy.
  Definition q : Z := 13.
  Definition tpt : Type := { a : Z | a mod q = a }.
  Definition val (P : tpt) : Z := proj1_sig P.
  Lemma mk_ok a : (a mod q) mod q = a mod q.
  Proof. apply Z.mod_mod. discriminate. Qed.
  Definition mk (a : Z) : tpt := exist _ (a mod q) (mk_ok a).

  Lemma val_range P : 0 <= val P < q.
  Proof. destruct P as [a Ha]. simpl. rewrite <- Ha. apply Z.mod_pos_bound. reflexivity. Qed.
  Lemma val_mk a : val (mk a) = a mod q.
  Proof. reflexivity. Qed.
  Lemma tpt_eq P Q : val P = val Q -> P = Q.
  Proof.
    destruct P as [a Ha], Q as [b Hb]. simpl. intros ->. f_equal.
    apply UIP_dec. apply Z.eq_dec.
  Qed.
  Lemma mk_val P : mk (val P) = P.
  Proof. apply tpt_eq. rewrite val_mk. destruct P as [a Ha]. exact Ha. Qed.
  Lemma mk_eq a b : a mod q = b mod q -> mk a = mk b.
  Proof. intros E. apply tpt_eq. rewrite !val_mk. exact E. Qed.

  Definition tzero : tpt := mk 0.
  Definition tadd (P Q : tpt) : tpt := mk (val P + val Q).
  Definition tneg (P : tpt) : tpt := mk (- val P).
  Definition tsmul (k : Z) (P : tpt) : tpt := mk (k * val P).
  Definition tG : tpt := mk 1.
  Definition tis_zero (P : tpt) : bool := val P =? 0.
  Definition tx (P : tpt) : Z := Z.min (val P) (q - val P).
  Definition ty (P : tpt) : Z := val P.
  Definition tlift (x : Z) (b : bool) : option tpt :=
    if (1 <=? x) && (2 * x <? q) then Some (mk (if Bool.eqb (Z.odd x) b then x else q - x)) else None.

  Definition ops : group_ops := {|
    pt := tpt; zero := tzero; add := tadd; neg := tneg; smul := tsmul; G := tG; n := q;
    is_zero := tis_zero; xcoord := tx; ycoord := ty; lift_x := tlift |}.

  Lemma q_prime : prime q.
  Proof.
    apply prime_intro; [reflexivity|]. intros k Hk. unfold q in Hk.
    assert (k = 1 \/ k = 2 \/ k = 3 \/ k = 4 \/ k = 5 \/ k = 6 \/ k = 7 \/ k = 8 \/ k = 9 \/ k = 10 \/ k = 11 \/ k = 12) by lia.
    repeat (destruct H as [->|H]; [apply Zgcd_1_rel_prime; reflexivity|]). subst. apply Zgcd_1_rel_prime; reflexivity.
  Qed.

  Lemma nz_val P : P <> tzero <-> val P <> 0.
  Proof.
    split; intros H E; apply H.
    - apply tpt_eq. rewrite E. reflexivity.
    - rewrite E. reflexivity.
  Qed.

  Lemma odd_q_sub v : Z.odd (q - v) = negb (Z.odd v).
  Proof. rewrite Z.odd_sub. reflexivity. Qed.

  Lemma neg_val P : val (tneg P) = if val P =? 0 then 0 else q - val P.
  Proof.
    unfold tneg. rewrite val_mk. pose proof (val_range P) as R.
    destruct (Z.eqb_spec (val P) 0) as [->|Hnz]; [reflexivity|].
    replace (- val P) with (q - val P + (-1) * q) by lia. rewrite Z.mod_add by discriminate.
    apply Z.mod_small. lia.
  Qed.

  Lemma l_assoc P Q R : tadd P (tadd Q R) = tadd (tadd P Q) R.
  Proof. apply mk_eq. unfold tadd. rewrite !val_mk, Zplus_mod_idemp_r, Zplus_mod_idemp_l. f_equal. ring. Qed.
  Lemma l_comm P Q : tadd P Q = tadd Q P.
  Proof. apply mk_eq. f_equal. ring. Qed.
  Lemma l_zero P : tadd tzero P = P.
  Proof. rewrite <- (mk_val P) at 2. apply mk_eq. reflexivity. Qed.
  Lemma l_neg P : tadd P (tneg P) = tzero.
  Proof. apply mk_eq. unfold tneg. rewrite val_mk, Zplus_mod_idemp_r. f_equal. ring. Qed.
  Lemma l_smul_add a b P : tsmul (a + b) P = tadd (tsmul a P) (tsmul b P).
  Proof. apply mk_eq. unfold tsmul. rewrite !val_mk, <- Zplus_mod. f_equal. ring. Qed.
  Lemma l_smul_mul a b P : tsmul (a * b) P = tsmul a (tsmul b P).
  Proof. apply mk_eq. unfold tsmul. rewrite val_mk, Zmult_mod_idemp_r. f_equal. ring. Qed.
  Lemma l_generated P : exists k, P = tsmul k tG.
  Proof.
    exists (val P). rewrite <- (mk_val P) at 1. apply mk_eq. unfold tG. rewrite val_mk. f_equal.
    change (1 mod q) with 1. ring.
  Qed.
  Lemma l_order k : tsmul k tG = tzero <-> (q | k).
  Proof.
    unfold tsmul, tG, tzero. rewrite val_mk. change (1 mod q) with 1. rewrite Z.mul_1_r. split.
    - intros E. apply (f_equal val) in E. rewrite !val_mk in E. apply Z.mod_divide; [discriminate|exact E].
    - intros D. apply mk_eq. apply Z.mod_divide in D; [|discriminate]. rewrite D. reflexivity.
  Qed.
  Lemma l_is_zero P : tis_zero P = true <-> P = tzero.
  Proof.
    unfold tis_zero. rewrite Z.eqb_eq. split; [intros E; apply tpt_eq; rewrite E; reflexivity|intros ->; reflexivity].
  Qed.
  Local Opaque Z.sub.
  Lemma l_lift x b P : tlift x b = Some P <-> (P <> tzero /\ tx P = x /\ Z.odd (ty P) = b).
  Proof.
    unfold tlift, tx, ty. pose proof (val_range P) as R. assert (Q13 : q = 13) by reflexivity. rewrite nz_val. split.
    - destruct (Z.leb_spec 1 x) as [H1|]; cbn [andb]; [|discriminate].
      destruct (Z.ltb_spec (2 * x) q) as [Hq|]; [|discriminate].
      intros E. injection E as <-. rewrite val_mk.
      destruct (Bool.eqb (Z.odd x) b) eqn:Eb.
      + apply Bool.eqb_prop in Eb. assert (S : 0 <= x < q) by lia. rewrite (Z.mod_small x q S). repeat split; try lia. exact Eb.
      + assert (S : 0 <= q - x < q) by lia. rewrite (Z.mod_small _ q S). repeat split; try lia.
        rewrite odd_q_sub. apply Bool.eqb_false_iff in Eb. destruct (Z.odd x), b; try reflexivity; contradiction.
    - intros (Hnz & Hx & Hb).
      assert (Hx1 : 1 <= x) by lia.
      assert (Hx2 : 2 * x < q) by lia.
      apply Z.leb_le in Hx1. apply Z.ltb_lt in Hx2. rewrite Hx1, Hx2. cbn [andb]. f_equal.
      rewrite <- (mk_val P) at 1. f_equal.
      destruct (Z.le_ge_cases (val P) (q - val P)) as [C|C].
      + rewrite Z.min_l in Hx by exact C. subst x. rewrite Hb, Bool.eqb_reflx. reflexivity.
      + rewrite Z.min_r in Hx by lia. subst x. rewrite odd_q_sub, Hb.
        destruct b; cbn [negb Bool.eqb]; lia.
  Qed.
  Local Transparent Z.sub.
  Lemma l_xneg P : tx (tneg P) = tx P.
  Proof. unfold tx. rewrite neg_val. pose proof (val_range P). destruct (Z.eqb_spec (val P) 0) as [->|]; lia. Qed.
  Lemma l_parity_neg P : P <> tzero -> Z.odd (ty (tneg P)) = negb (Z.odd (ty P)).
  Proof.
    intros HP. apply nz_val in HP. unfold ty. rewrite neg_val.
    destruct (Z.eqb_spec (val P) 0); [contradiction|]. apply odd_q_sub.
  Qed.
  Lemma l_range P : P <> tzero -> 0 <= tx P < 2 ^ 256 /\ 0 <= ty P < 2 ^ 256.
  Proof. intros _. unfold tx, ty. pose proof (val_range P) as R. unfold q in *. lia. Qed.

  Theorem toy_laws : laws ops.
  Proof.
    constructor.
    - exact q_prime.
    - reflexivity.
    - exact l_assoc.
    - exact l_comm.
    - exact l_zero.
    - exact l_neg.
    - exact l_smul_add.
    - exact l_smul_mul.
    - exact l_generated.
    - exact l_order.
    - exact l_is_zero.
    - exact l_lift.
    - exact l_xneg.
    - exact l_parity_neg.
    - exact l_range.
  Qed.

  (* non-vacuity of the signing theorems: a concrete successful attempt without overflow *)
  Example toy_sign : exists sg, ecdsa_sign ops 5 7 3 = Some sg /\ es_ovf sg = false /\
      ecdsa_recover ops 7 (es_r sg) (es_s sg) (es_odd sg) = Some (pub ops 5).
  Proof.
    destruct (ecdsa_sign ops 5 7 3) as [sg|] eqn:E; [|vm_compute in E; discriminate].
    exists sg. split; [reflexivity|].
    assert (Hov : es_ovf sg = false) by (vm_compute in E; injection E as <-; reflexivity).
    split; [exact Hov|]. apply (recover_sign ops toy_laws 5 7 3 sg); auto. discriminate.
  Qed.

  (* Altering R alone is NOT excluded by the group laws: in this instance (r, s, odd) = (3, 3, true) is
     the signature of digest 7 under key 5 with nonce 3, and the altered triple (4, 3, true) recovers
     the same key. *)
  Example toy_altered_R_recovers_signer :
    exists sg, ecdsa_sign ops 5 7 3 = Some sg /\ es_r sg = 3 /\ es_ovf sg = false /\
      ecdsa_recover ops 7 4 (es_s sg) (es_odd sg) = Some (pub ops 5).
  Proof.
    destruct (ecdsa_sign ops 5 7 3) as [sg|] eqn:E; [|vm_compute in E; discriminate].
    exists sg. split; [reflexivity|]. vm_compute in E. injection E as <-. cbn [es_r es_s es_odd es_ovf].
    split; [reflexivity|]. split; [reflexivity|].
    destruct (ecdsa_recover ops 7 4 3 true) as [Q|] eqn:R; [|vm_compute in R; discriminate].
    f_equal. apply tpt_eq.
    apply (f_equal (fun o => match o with Some p => val p | None => -1 end)) in R.
    cbv beta iota in R. rewrite <- R. vm_compute. reflexivity.
  Qed.
End Toy.
