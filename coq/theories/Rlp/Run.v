(* Evaluator for the correspondence check of C06: runs the model (and the Yellow-Paper spec) on the
   cases written by the Go harness and reports where they differ from what the implementation did. *)
From Coq Require Import String.
From Coq Require Import List NArith Lia Bool Arith.
From Coq Require Import Init.Byte.
From FFS Require Import Base.Res Base.Bytes Base.Lit Rlp.Model Rlp.Spec Rlp.Header.
Import ListNotations.

(* trees as written by the harness: leaves in the byte-DSL *)
Inductive ditem := DStr (d : bdsl) | DLst (l : list ditem).
Fixpoint expand (d : ditem) : item :=
  match d with DStr b => Str (bexpand b) | DLst l => Lst (map expand l) end.

Fixpoint item_eqb (a b : item) : bool :=
  match a, b with
  | Str x, Str y => bytes_eqb x y
  | Lst x, Lst y =>
      (fix go (x y : list item) : bool :=
         match x, y with
         | [], [] => true
         | a :: x', b :: y' => item_eqb a b && go x' y'
         | _, _ => false
         end) x y
  | _, _ => false
  end.

Fixpoint to_tree (i : item) : tree :=
  match i with Str b => B b | Lst l => L (map to_tree l) end.

(* implementation outputs: either literal bytes or a checksum for large ones *)
Inductive out_bytes := OLit (d : bdsl) | OCks (len a b : N).
Definition out_matches (o : out_bytes) (m : bytes) : bool :=
  match o with
  | OLit d => bytes_eqb (bexpand d) m
  | OCks l a b => let '(l', a', b') := cks m in (l =? l')%N && (a =? a')%N && (b =? b')%N
  end.

(* spec-level oracle for an accepted long-form element: the integer denoted by its length bytes
   (big-endian, Yellow Paper) is the number of payload bytes consumed, i.e. position = 1 + ||length|| + length *)
Definition long_len_honoured (bs : bytes) (pos : N) : bool :=
  match bs with
  | pb :: rest =>
      let p := b2n pb in
      let lol := (if (183 <? p) && (p <? 192) then p - 183 else if (247 <? p) then p - 247 else 0)%N in
      if (lol =? 0)%N then true
      else (fold_left (fun acc b => acc * 256 + b2n b) (firstn (N.to_nat lol) rest) 0 + 1 + lol =? pos)%N
  | [] => true
  end.

Inductive case :=
(* tree, trailing bytes, Encode() output, Decode(Encode() ++ trailing): class, tree equals input?, position *)
| CEnc (t : ditem) (trail : bdsl) (enc : out_bytes) (dec_cls : nat) (dec_same : bool) (dec_pos : N)
(* input bytes, Decode(): class, element (None = nil element), position; re-decode of re-encode stable? *)
| CDec (input : bdsl) (cls : nat) (elem : option ditem) (pos : N) (stable : bool)
(* length-only encoding check for payloads too large to expand here: payload length (not a single-byte
   string), list?, the bytes the implementation wrote before the payload, total output length.  Judged
   with Rlp/Header.v, whose functions are proved to be the prefix of the model's / the Yellow Paper's
   output for every payload of that length. *)
| CHdr (n : N) (is_list : bool) (hdr : bdsl) (total : N)
(* rlp.go helpers.  WrapInt(n): the Data bytes, and Data.Int() of them (None = nil) *)
| CWrapInt (n : N) (w : bdsl) (back : option N)
(* a Data value (None = nil Data): Int(), IntOrZero(), BytesNotNil(), Address() (None = nil) *)
| CData (d : option bdsl) (i : option N) (iz : N) (bnn : bdsl) (addr : option bdsl)
(* WrapAddress(a) (None = nil pointer): the Data bytes *)
| CWrapAddr (a : option bdsl) (w : bdsl)
(* Element.ToData() of a tree (None = nil Data) *)
| CToData (t : ditem) (d : option bdsl).

Definition optN_eqb (a b : option N) : bool :=
  match a, b with Some x, Some y => (x =? y)%N | None, None => true | _, _ => false end.
Definition optb_eqb (a b : option bytes) : bool :=
  match a, b with Some x, Some y => bytes_eqb x y | None, None => true | _, _ => false end.
Definition oexp (d : option bdsl) : option bytes := option_map bexpand d.

(* result codes: 0 = agree; 1.. = model differs from implementation; 10.. = implementation breaks the
   property (spec oracle) *)
Definition check_case (c : case) : N :=
  match c with
  | CEnc dt trail enc dcls dsame dpos =>
      let t := expand dt in
      let m := encode t in
      if negb (out_matches enc (RLP (to_tree t))) then 10      (* impl encoding <> Yellow Paper *)
      else if negb (out_matches enc m) then 1                  (* model encoding <> impl *)
      else
        (* property oracle on the implementation: decode returns the same tree, position just past it *)
        if negb ((dcls =? 0)%nat && dsame && (dpos =? N.of_nat (length m))%N) then 11
        else match Decode (m ++ bexpand trail) with
             | Ok (Some t', p) => if item_eqb t t' && (N.of_nat p =? dpos)%N then 0 else 2
             | _ => 2
             end
  | CDec input c elem pos stable =>
      let bs := bexpand input in
      if (c =? 2)%nat then 12                                  (* implementation panicked *)
      else if (c =? 0)%nat && negb (pos <=? N.of_nat (length bs))%N then 13
      else if (c =? 0)%nat && negb stable then 14
      else if (c =? 0)%nat && negb (long_len_honoured bs pos) then 16
      else match Decode bs, c, elem with
      | Ok (Some t, p), 0%nat, Some e => if item_eqb t (expand e) && (N.of_nat p =? pos)%N then 0 else 3
      | Ok (None, p), 0%nat, None => if (N.of_nat p =? pos)%N then 0 else 3
      | Err _, 1%nat, _ => 0
      | _, _, _ => 3
      end
  | CHdr n il hdr total =>
      let h := bexpand hdr in
      if negb (bytes_eqb h (spec_header_N n il) && (total =? N.of_nat (length h) + n)%N) then 10
      else if negb (bytes_eqb h (enc_header_N n il)) then 1
      else 0
  | CWrapInt n w back =>
      let wb := bexpand w in
      (* oracle: the minimal big-endian bytes of the Yellow Paper's BE, and Int() gives the number back *)
      if negb (bytes_eqb wb (BE n) && optN_eqb back (Some n)) then 15
      else if negb (item_eqb (WrapInt n) (Str wb) && optN_eqb (DataInt (ToData (WrapInt n))) back) then 5
      else 0
  | CData d i iz bnn addr =>
      let db := oexp d in
      (* oracle: Address() is the data itself exactly when it has 20 bytes *)
      let want_addr := match db with Some b => if (length b =? 20)%nat then Some b else None | None => None end in
      if negb (optb_eqb (oexp addr) want_addr) then 15
      else if negb (optN_eqb (DataInt db) i && (IntOrZero db =? iz)%N && bytes_eqb (BytesNotNil db) (bexpand bnn)
                    && optb_eqb (DataAddress db) (oexp addr)) then 5
      else 0
  | CWrapAddr a w =>
      let wb := bexpand w in
      if negb (bytes_eqb wb (match oexp a with Some b => b | None => [] end)) then 15
      else if negb (item_eqb (WrapAddress (oexp a)) (Str wb)) then 5
      else 0
  | CToData t d =>
      if negb (optb_eqb (ToData (expand t)) (oexp d)) then 5 else 0
  end.

Fixpoint mismatches_go (i : N) (l : list case) : list (N * N) :=
  match l with
  | [] => []
  | c :: t => let r := check_case c in
              if (r =? 0)%N then mismatches_go (i + 1) t else (i, r) :: mismatches_go (i + 1) t
  end.
Definition mismatches (l : list case) : list (N * N) := firstn 20 (mismatches_go 0 l).

(* ---- exhaustive sweep: all inputs of length <= 2 (and 3 in the thorough tier), compared through a
   per-block digest of a canonical serialisation of the outcome ---- *)
Definition ser_n4 (n : N) : bytes := be_fixed 4 n.
Fixpoint ser_item (i : item) : bytes :=
  match i with
  | Str b => x53 :: ser_n4 (N.of_nat (length b)) ++ b
  | Lst l => x4c :: ser_n4 (N.of_nat (length l)) ++ flat_map ser_item l
  end.
Definition ser_outcome (r : res (option item * nat)) : bytes :=
  match r with
  | Ok (Some t, p) => x00 :: ser_n4 (N.of_nat p) ++ ser_item t
  | Ok (None, p) => x03 :: ser_n4 (N.of_nat p)
  | Err _ => [x01]
  | Panic => [x02]
  end.

(* digest of a block: fold the outcome checksums *)
Definition mix (acc : N) (l : bytes) : N :=
  let '(n, a, b) := cks l in ((acc * 1000003 + n * 65537 + a * 257 + b + 1) mod cks_p)%N.

Definition all_bytes : list byte := map (fun n => n2b (N.of_nat n)) (seq 0 256).

(* block = all inputs with the given prefix followed by k free bytes (k <= 2) *)
Fixpoint block_inputs (k : nat) (prefix : bytes) : list bytes :=
  match k with
  | O => [prefix]
  | S k' => flat_map (fun b => block_inputs k' (prefix ++ [b])) all_bytes
  end.
Definition block_digest (k : nat) (prefix : bytes) : N :=
  fold_left (fun acc i => mix acc (ser_outcome (Decode i))) (block_inputs k prefix) 0%N.

(* expected: list of (prefix, k, digest) as computed by the harness from the implementation *)
Definition sweep_mismatches (l : list (bdsl * nat * N)) : list (N * N) :=
  firstn 20 ((fix go (i : N) (l : list (bdsl * nat * N)) : list (N * N) :=
        match l with
        | [] => []
        | (p, k, d) :: t =>
            let d' := block_digest k (bexpand p) in
            if (d =? d')%N then go (i + 1)%N t else (i, d') :: go (i + 1)%N t
        end) 0%N l).
