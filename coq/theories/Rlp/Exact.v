(* Referee issue I2, converse direction: WHICH accepted inputs are canonical.
   If Decode consumed exactly as many bytes as the canonical encoding of the element it returns, then the
   consumed bytes ARE that canonical encoding (so the strict decoder of Rlp/Strict.v accepts the input with
   the same answer).  Together with theorem 3 (|encode t| <= p) this says: every non-canonical form the
   lenient decoder accepts is strictly longer than the canonical one. *)
From Coq Require Import List NArith ZArith Lia Bool Arith.
From Coq Require Import Init.Byte Strings.Byte.
From FFS Require Import Base.Res Base.Bytes Rlp.Model Rlp.Spec Rlp.Proofs.
Import ListNotations.

Lemma firstn_add_skipn {A} a b (l : list A) : firstn (a + b) l = firstn a l ++ firstn b (skipn a l).
Proof.
  revert l; induction a as [|a IH]; intros l; [reflexivity|].
  destruct l as [|x l]; [cbn; rewrite firstn_nil; reflexivity|]. cbn. rewrite IH. reflexivity.
Qed.

Lemma pb_eq pb v : b2n pb = v -> pb = n2b v.
Proof. intros <-. symmetry. apply n2b_b2n. Qed.

Definition off_of (il : bool) : N := if il then shortList else shortString.

Lemma encode_bytes_gen p il : (length p <> 1%nat \/ il = true) ->
  encode_bytes p il =
  if (length p <=? 55)%nat then n2b (off_of il + N.of_nat (length p)) :: p
  else n2b (off_of il + shortToLong + N.of_nat (length (int64_to_minimal_bytes (N.of_nat (length p)))))
         :: int64_to_minimal_bytes (N.of_nat (length p)) ++ p.
Proof.
  intros H. unfold encode_bytes, off_of. destruct p as [|b [|b2 t]]; destruct il; try reflexivity.
  cbn in H. destruct H; [lia | discriminate].
Qed.

Lemma enc_exact_short pb n (payload : bytes) il :
  b2n pb = (off_of il + N.of_nat n)%N -> (n <= 55)%nat -> length payload = n ->
  length (encode_bytes payload il) = (1 + n)%nat -> encode_bytes payload il = pb :: payload.
Proof.
  intros Hpb Hn Hl Hlen. apply pb_eq in Hpb. subst pb n.
  assert (G : (length payload <> 1%nat \/ il = true) -> encode_bytes payload il = n2b (off_of il + N.of_nat (length payload)) :: payload).
  { intros H. rewrite encode_bytes_gen by exact H.
    replace (length payload <=? 55)%nat with true by (symmetry; apply Nat.leb_le; lia). reflexivity. }
  destruct il; [apply G; right; reflexivity|].
  destruct payload as [|b [|b2 t]]; [apply G; left; cbn; lia | | apply G; left; cbn; lia].
  unfold encode_bytes in *. cbv beta iota zeta in *.
  destruct (b2n b <=? 127)%N; [cbn [length] in Hlen; lia | reflexivity].
Qed.

Lemma enc_exact_long pb lol (lb payload : bytes) il :
  b2n pb = (off_of il + shortToLong + N.of_nat lol)%N ->
  length lb = lol -> (1 <= lol)%nat -> (lol <= 8)%nat -> of_be lb = N.of_nat (length payload) ->
  length (encode_bytes payload il) = (1 + lol + length payload)%nat ->
  encode_bytes payload il = pb :: lb ++ payload.
Proof.
  intros Hpb Hlb H1 H8 Eo Hlen. apply pb_eq in Hpb. subst pb.
  assert (Hb : (N.of_nat (length payload) < 2 ^ 64)%N).
  { pose proof (of_be_lt lb) as H. rewrite Eo in H.
    assert (256 ^ N.of_nat (length lb) <= 256 ^ 8)%N by (apply N.pow_le_mono_r; lia).
    change (256 ^ 8)%N with (2 ^ 64)%N in *. lia. }
  destruct (Nat.leb_spec (length payload) 55) as [Hs|Hs].
  - pose proof (encode_bytes_len_le payload il) as H. rewrite hdr_len_short in H by lia. lia.
  - rewrite encode_bytes_gen in * by (left; lia).
    replace (length payload <=? 55)%nat with false in * by (symmetry; apply Nat.leb_gt; lia).
    set (m := int64_to_minimal_bytes (N.of_nat (length payload))) in *.
    cbn [length] in Hlen. rewrite app_length in Hlen.
    assert (m = lb) as ->.
    { apply of_be_inj_len; [lia|]. rewrite Eo. subst m. apply of_be_min. exact Hb. }
    subst lol. reflexivity.
Qed.

Lemma extract_long_lb lp prefix rest dl rest2 :
  (N.to_nat (prefix - lp) <= 8)%nat ->
  extract_long_len lp prefix rest = Ok (dl, rest2) ->
  of_be (firstn (N.to_nat (prefix - lp)) (skipn 1 rest)) = N.of_nat dl.
Proof.
  intros H8. unfold extract_long_len. set (lol := N.to_nat (prefix - lp)) in *.
  destruct (Nat.ltb_spec (length (skipn 1 rest)) lol) as [Hs|Hs]; [discriminate|].
  rewrite slice_ok by lia. cbn [bind]. rewrite Nat.sub_0_r. rewrite skipn_O.
  set (lb := firstn lol (skipn 1 rest)).
  assert (length lb <= 8)%nat by (subst lb; rewrite firstn_length; lia).
  destruct (minimal_bytes_to_int64 lb) as [v|e|] eqn:Em; cbn [bind]; try discriminate.
  destruct (N.of_nat (length (skipn lol (skipn 1 rest))) <? v)%N; try discriminate.
  intros E; injection E as <- _. apply minimal_bytes_ok in Em; [|assumption].
  rewrite N2Nat.id. tauto.
Qed.

(* ---------- the loop invariant ---------- *)
Definition ex (rest : bytes) (limit : option nat) (acc : list item) (pos : nat)
              (r : res (list item * nat)) : Prop :=
  match r with
  | Ok (l, p) => exists items, l = rev acc ++ items /\
       (pos + length (enc_l items) <= p)%nat /\
       (limit = None -> p = (pos + length rest)%nat) /\
       (p = (pos + length (enc_l items))%nat -> firstn (length (enc_l items)) rest = enc_l items)
  | _ => True
  end.

Lemma ex_cont rest limit acc pos limit' x c r :
  ex (skipn c rest) limit' (x :: acc) (pos + c) r ->
  (length (encode x) <= c)%nat -> (c <= length rest)%nat ->
  (limit = None -> limit' = None) ->
  (c = length (encode x) -> firstn c rest = encode x) ->
  ex rest limit acc pos r.
Proof.
  intros G Hc Hr Hlim Hex. destruct r as [[l p]|e|]; unfold ex in *; auto.
  destruct G as [items [E [H1 [H2 H3]]]].
  exists (x :: items). cbn [rev] in E. rewrite <- app_assoc in E. cbn [app] in E. split; [exact E|].
  unfold enc_l in *. cbn [flat_map]. rewrite app_length. rewrite skipn_length in *.
  split; [lia|]. split.
  - intros HN. rewrite (H2 (Hlim HN)). lia.
  - intros Hp. assert (Hce : c = length (encode x)) by lia.
    rewrite firstn_add_skipn. rewrite <- Hce. rewrite (Hex Hce). rewrite H3 by lia. reflexivity.
Qed.

Lemma lim_next_none limit : limit = None -> lim_next limit = None.
Proof. intros ->. reflexivity. Qed.

Lemma ex_lst f rest limit acc pos h (payload : bytes) :
  (forall rest limit acc pos, ex rest limit acc pos (decode_items f rest limit acc pos)) ->
  (h + length payload <= length rest)%nat -> (hdr_len (length payload) <= h)%nat ->
  (N.of_nat (length payload) <= maxInt32)%N ->
  ((h + length payload)%nat = length (encode_bytes payload true) ->
     firstn (h + length payload) rest = encode_bytes payload true) ->
  ex rest limit acc pos
    (do (child, _) <- decode_items f payload None [] 0;
     decode_items f (skipn (h + length payload) rest) (lim_next limit) (Lst child :: acc) (pos + (h + length payload))).
Proof.
  intros IH Hr Hh Hmax Hp.
  pose proof (IH payload None [] 0%nat) as Gc.
  destruct (decode_items f payload None [] 0) as [[child pc]|e|]; cbn [bind]; [|exact I|exact I].
  unfold ex in Gc. destruct Gc as [items [Ei [Hc1 [Hc2 Hc3]]]]. cbn [rev app] in Ei. subst items.
  specialize (Hc2 eq_refl). cbn [Nat.add] in *.
  assert (Hle : (length (encode (Lst child)) <= hdr_len (length (enc_l child)) + length (enc_l child))%nat)
    by (cbn [encode]; apply encode_bytes_len_le).
  assert (Hm : (hdr_len (length (enc_l child)) <= hdr_len (length payload))%nat)
    by (apply hdr_len_mono; [lia | unfold maxInt32 in *; lia]).
  eapply ex_cont with (c := (h + length payload)%nat) (x := Lst child).
  - apply IH.
  - lia.
  - lia.
  - apply lim_next_none.
  - intros Hc.
    assert (El : length (enc_l child) = length payload) by lia.
    assert (Ep : payload = enc_l child).
    { rewrite <- Hc3 by lia. rewrite El. symmetry. apply firstn_all. }
    cbn [encode]. fold (enc_l child). rewrite <- Ep. apply Hp. rewrite Hc. cbn [encode]. fold (enc_l child).
    rewrite <- Ep. reflexivity.
Qed.

Lemma ex_all : forall fuel rest limit acc pos,
  ex rest limit acc pos (decode_items fuel rest limit acc pos).
Proof.
  induction fuel as [|f IH]; intros rest limit acc pos.
  - exact I.
  - destruct rest as [|pb rest1].
    { cbn [decode_items]. unfold ex. exists []. rewrite app_nil_r. cbn. repeat split; auto; lia. }
    assert (limit = Some 0%nat \/ lim_open limit) as [->|Hlim].
    { destruct limit as [[|k]|]; [left; reflexivity| right; discriminate | right; discriminate]. }
    { cbn [decode_items]. unfold ex. exists []. rewrite app_nil_r. cbn. repeat split; auto; try lia. discriminate. }
    rewrite decode_step_unfold by exact Hlim. cbv zeta.
    pose proof (b2n_lt pb) as Hpb.
    unfold shortString, longString, shortList, longList.
    destruct (N.ltb_spec (b2n pb) 128) as [C1|C1].
    { (* single byte *)
      replace (S pos) with (pos + 1)%nat by lia.
      eapply ex_cont with (c := 1%nat) (x := Str [pb]) (limit' := lim_next limit).
      - apply IH.
      - cbn [encode]. unfold encode_bytes. destruct (N.leb_spec (b2n pb) 127); cbn [length]; lia.
      - cbn [length]; lia.
      - apply lim_next_none.
      - intros _. cbn [encode firstn]. unfold encode_bytes.
        destruct (N.leb_spec (b2n pb) 127); [reflexivity|lia]. }
    destruct (N.eqb_spec (b2n pb) 128) as [C2|C2].
    { replace (S pos) with (pos + 1)%nat by lia.
      eapply ex_cont with (c := 1%nat) (x := Str []) (limit' := lim_next limit).
      - apply IH.
      - cbn; lia.
      - cbn [length]; lia.
      - apply lim_next_none.
      - intros _. cbn [firstn]. apply pb_eq in C2. subst pb. reflexivity. }
    destruct (N.leb_spec (b2n pb) 183) as [C3|C3].
    { (* short string *)
      set (n := N.to_nat (b2n pb - 128)).
      destruct (Nat.ltb_spec (length rest1) n) as [Hn|Hn]; [exact I|].
      rewrite slice_ok by lia. cbn [bind]. rewrite Nat.sub_0_r. cbn [skipn].
      set (d := firstn n rest1).
      assert (Hd : length d = n) by (subst d; rewrite firstn_length; lia).
      replace (S pos + n)%nat with (pos + (1 + n))%nat by lia.
      eapply ex_cont with (c := (1 + n)%nat) (x := Str d) (limit' := lim_next limit).
      - apply IH.
      - cbn [encode]. pose proof (encode_bytes_len_le d false) as H. rewrite hdr_len_short in H by lia. lia.
      - cbn [length]; lia.
      - apply lim_next_none.
      - intros Hc. cbn [encode] in *. change (firstn (1 + n) (pb :: rest1)) with (pb :: d). symmetry.
        apply (enc_exact_short pb n d false); [unfold off_of, shortString; lia | lia | exact Hd | lia]. }
    destruct (N.ltb_spec (b2n pb) 192) as [C4|C4].
    { (* long string *)
      pose proof (extract_long_inv 183 (b2n pb) (pb :: rest1) ltac:(lia) ltac:(lia)) as HX.
      pose proof (extract_long_lb 183 (b2n pb) (pb :: rest1)) as HL.
      destruct (extract_long_len 183 (b2n pb) (pb :: rest1)) as [[n rest2]|e|]; cbn [bind];
        [ | exact I | exact I ].
      cbv zeta in HX. set (lol := N.to_nat (b2n pb - 183)) in *.
      specialize (HL n rest2 ltac:(lia) eq_refl). cbn [skipn] in HL.
      destruct HX as [Hl [-> [Hdl [Hmax _]]]].
      change (skipn (1 + lol) (pb :: rest1)) with (skipn lol rest1) in *.
      rewrite slice_ok by lia. cbn [bind]. rewrite Nat.sub_0_r. cbn [skipn] in *.
      set (d := firstn n (skipn lol rest1)).
      assert (Hd : length d = n) by (subst d; rewrite firstn_length; lia).
      rewrite skipn_skipn'. rewrite skipn_length in *. cbn [length] in *.
      replace (pos + (S (length rest1) - (length rest1 - lol)) + n)%nat
        with (pos + (1 + lol + n))%nat by lia.
      change (skipn (lol + n) rest1) with (skipn (1 + lol + n) (pb :: rest1)).
      eapply ex_cont with (c := (1 + lol + n)%nat) (x := Str d) (limit' := lim_next limit).
      - apply IH.
      - cbn [encode]. pose proof (encode_bytes_len_le d false) as H.
        pose proof (hdr_len_le n (firstn lol rest1)) as H'.
        rewrite firstn_length in H'. rewrite Hd in H. lia.
      - cbn [length]; lia.
      - apply lim_next_none.
      - intros Hc. cbn [encode] in *.
        change (firstn (1 + lol + n) (pb :: rest1)) with (pb :: firstn (lol + n) rest1).
        rewrite firstn_add_skipn. fold d. symmetry.
        apply (enc_exact_long pb lol (firstn lol rest1) d false);
          [unfold off_of, shortString, shortToLong; lia | rewrite firstn_length; lia | lia | lia
          | rewrite Hd; exact HL | rewrite Hd; lia]. }
    destruct (N.leb_spec (b2n pb) 247) as [C5|C5].
    { (* short list *)
      set (n := N.to_nat (b2n pb - 192)).
      destruct (Nat.ltb_spec (length rest1) n) as [Hn|Hn]; [exact I|].
      rewrite slice_ok by lia. cbn [bind]. rewrite Nat.sub_0_r. cbn [skipn].
      set (d := firstn n rest1).
      assert (Hd : length d = n) by (subst d; rewrite firstn_length; lia).
      replace (S pos + n)%nat with (pos + (1 + length d))%nat by lia.
      change (skipn n rest1) with (skipn (1 + n) (pb :: rest1)). rewrite <- Hd.
      apply ex_lst.
      - exact IH.
      - cbn [length]; lia.
      - rewrite hdr_len_short; lia.
      - unfold maxInt32; lia.
      - intros Hc. rewrite Hd. change (firstn (1 + n) (pb :: rest1)) with (pb :: d). symmetry.
        apply (enc_exact_short pb n d true); [unfold off_of, shortList; lia | lia | exact Hd | lia]. }
    { (* long list *)
      pose proof (extract_long_inv 247 (b2n pb) (pb :: rest1) ltac:(lia) ltac:(lia)) as HX.
      pose proof (extract_long_lb 247 (b2n pb) (pb :: rest1)) as HL.
      destruct (extract_long_len 247 (b2n pb) (pb :: rest1)) as [[n rest2]|e|]; cbn [bind];
        [ | exact I | exact I ].
      cbv zeta in HX. set (lol := N.to_nat (b2n pb - 247)) in *.
      specialize (HL n rest2 ltac:(lia) eq_refl). cbn [skipn] in HL.
      destruct HX as [Hl [-> [Hdl [Hmax _]]]].
      change (skipn (1 + lol) (pb :: rest1)) with (skipn lol rest1) in *.
      rewrite slice_ok by lia. cbn [bind]. rewrite Nat.sub_0_r. cbn [skipn] in *.
      set (d := firstn n (skipn lol rest1)).
      assert (Hd : length d = n) by (subst d; rewrite firstn_length; lia).
      rewrite skipn_skipn'. rewrite skipn_length in *. cbn [length] in *.
      replace (pos + (S (length rest1) - (length rest1 - lol)) + n)%nat
        with (pos + (1 + lol + length d))%nat by lia.
      change (skipn (lol + n) rest1) with (skipn (1 + lol + n) (pb :: rest1)). rewrite <- Hd.
      apply ex_lst.
      - exact IH.
      - cbn [length]; lia.
      - pose proof (hdr_len_le n (firstn lol rest1)) as H'.
        rewrite firstn_length in H'. rewrite Hd. lia.
      - lia.
      - intros Hc. rewrite Hd in *.
        change (firstn (1 + lol + n) (pb :: rest1)) with (pb :: firstn (lol + n) rest1).
        rewrite firstn_add_skipn. fold d. symmetry.
        apply (enc_exact_long pb lol (firstn lol rest1) d true);
          [unfold off_of, shortList, shortToLong; lia | rewrite firstn_length; lia | lia | lia
          | rewrite Hd; exact HL | rewrite Hd; lia]. }
Qed.

(* Decode: exact consumption means the consumed bytes are the canonical encoding *)
Theorem Decode_exact_is_canonical bs t p :
  Decode bs = Ok (Some t, p) -> p = length (encode t) ->
  exists rest, bs = encode t ++ rest.
Proof.
  unfold Decode. intros H Hp.
  pose proof (ex_all (S (length bs)) bs (Some 1%nat) [] 0%nat) as G.
  destruct (decode_items (S (length bs)) bs (Some 1%nat) [] 0) as [[l q]|e|]; cbn [bind] in H; try discriminate.
  unfold ex in G. destruct G as [items [E [H1 [_ H3]]]]. cbn [rev app] in E. subst items.
  destruct l as [|x l']; [discriminate|]. injection H as -> ->.
  unfold enc_l in *. cbn [flat_map] in *. rewrite app_length in *.
  exists (skipn (length (encode t)) bs).
  rewrite <- (firstn_skipn (length (encode t)) bs) at 1. f_equal.
  assert (length (flat_map encode l') = 0)%nat as Hz by lia.
  rewrite Hz, Nat.add_0_r in H3. specialize (H3 ltac:(lia)).
  apply length_zero_iff_nil in Hz. rewrite Hz, app_nil_r in H3. exact H3.
Qed.

(* in terms of the specification and the strict decoder of Rlp/Strict.v: an accepted input is one the strict
   decoder accepts (with the same tree and position) exactly when no byte more than the canonical length was
   consumed; otherwise strictly more bytes were consumed *)
From FFS Require Import Rlp.Strict.

Theorem Decode_canonical_iff bs t p : Decode bs = Ok (Some t, p) ->
  (p = length (RLP (to_tree t)) <-> strict bs (to_tree t) p) /\
  ((length (RLP (to_tree t)) < p)%nat <-> ~ strict bs (to_tree t) p).
Proof.
  intros H. destruct (Decode_total_in_bounds bs) as [_ [_ HB]].
  destruct (HB t p H) as [_ [Hs Hle]].
  pose proof (encode_is_RLP t (size_ok_len_ok t Hs)) as E. rewrite E in Hle.
  assert (A : p = length (RLP (to_tree t)) <-> strict bs (to_tree t) p).
  { split.
    - intros Hp. rewrite <- E in Hp. destruct (Decode_exact_is_canonical bs t p H Hp) as [rest Hb].
      exists rest. rewrite <- E. split; [exact Hb | exact Hp].
    - intros [rest [_ Hp]]. exact Hp. }
  split; [exact A|]. split.
  - intros Hlt S. apply A in S. lia.
  - intros NS. destruct (Nat.eq_dec p (length (RLP (to_tree t)))) as [Hp|Hp]; [exfalso; apply NS, A, Hp | lia].
Qed.
